import Mkts.Lemmas.Path
import Mkts.Model.PathFs
/-!
# C16 — no request can touch files outside the data root

Paths are absolute clean component lists (`Mkts.Path.Path`); "under the root" is the prefix
relation on COMPONENTS (`root <+: p`), not on strings (`/data2` is not under `/data`).
`createTouched`, `writeTouched`, `destroyTouched` (Model/Path.lean) list every path that
`AddTimeBucket` (create and the auto-create of a write), a write to an existing bucket (`AddFile`,
primary write) and `RemoveTimeBucket` construct from a key; the executable request model
(`Model/PathFs.lean`, run against the real server by the op `c16`) mutates the tree only through
these constructions.  Queries construct the same bucket path and only read.
-/
namespace Mkts.Props.C16
open Mkts.Path

/-- `GetPathToYearFiles` with safe items is the root followed by the items. -/
theorem C16_join_under_root (root : Path) (items : List Str) (h : ∀ c ∈ items, safe c) :
    joinKey root items = root ++ items ∧ root <+: joinKey root items := by
  have := joinKey_safe root items h
  exact ⟨this, this ▸ List.prefix_append _ _⟩

/-- everything bucket creation touches lies under the root when the walk stays inside -/
theorem createTouched_of_staysInside (root : Path) (items : List Str) (year : Nat)
    (h : staysInside items = true) : ∀ p ∈ createTouched root items year, root <+: p := by
  have hc : ∀ p ∈ dirChain root items, root <+: p := by
    have := dirChain_staysInside root items [] (by simp) (by simpa [staysInside] using h)
    simpa using this
  have hk : root <+: joinKey root items := hc _ (joinKey_mem_dirChain root items)
  intro p hp
  simp only [createTouched, List.mem_append, List.mem_map, List.mem_cons, List.not_mem_nil, or_false] at hp
  rcases hp with (hp | ⟨q, hq, rfl⟩) | rfl | rfl
  · exact hc p hp
  · exact prefix_append_of_prefix _ (hc q hq)
  · exact prefix_append_of_prefix _ hk
  · exact prefix_append_of_prefix _ hk

/-- Create (and the auto-create of a write): safe key items ⇒ every directory made, every
    `category_name` file and the year file (and its temporary name) are under the root. -/
theorem C16_create_touched (root : Path) (items : List Str) (year : Nat) (h : ∀ c ∈ items, safe c) :
    ∀ p ∈ createTouched root items year, root <+: p :=
  createTouched_of_staysInside root items year (safe_staysInsideAux items h 0)

/-- Write to an existing bucket: the year file of the row (created when missing) is under the root. -/
theorem C16_write_touched (root : Path) (items : List Str) (year : Nat) (h : ∀ c ∈ items, safe c) :
    ∀ p ∈ writeTouched root items year, root <+: p := by
  intro p hp
  have hk := (C16_join_under_root root items h).2
  simp only [writeTouched, List.mem_cons, List.not_mem_nil, or_false] at hp
  rcases hp with rfl | rfl <;> exact prefix_append_of_prefix _ hk

/-- Destroy: every directory handed to `RemoveAll` is strictly below the root. -/
theorem C16_destroy_touched (root : Path) (items : List Str) (h : ∀ c ∈ items, safe c) :
    ∀ p ∈ destroyTouched root items, root <+: p ∧ p ≠ root := by
  intro p hp
  cases items with
  | nil => simp [destroyTouched, dirChain] at hp
  | cons c rest =>
    simp only [destroyTouched, dirChain, List.drop_succ_cons, List.drop_zero] at hp
    have hc := safe_plain (h c (by simp))
    rw [joinItem_plain root hc] at hp
    obtain ⟨pre, _, rfl⟩ := dirChain_safe (root ++ [c]) rest (fun x hx => h x (by simp [hx])) p hp
    refine ⟨⟨[c] ++ pre, by simp⟩, ?_⟩
    intro he
    have := congrArg List.length he
    simp at this

set_option maxRecDepth 100000 in
/-- the CURRENT source validates the key in `AddTimeBucket` and `RemoveTimeBucket` before any effect
    on the directory tree, and `TimeBucketKey.Validate` tests every item for "", ".", "..", separator
    and NUL (regenerated skeletons; a revert of the repair makes this `decide` fail and the executable
    model follow the unvalidated code) -/
theorem C16_code_validates : Mkts.PathFs.addValidates = true ∧ Mkts.PathFs.removeValidates = true := by decide

theorem allSafe_iff (items : List Str) : allSafe items = true ↔ ∀ c ∈ items, safe c := by
  simp [allSafe]

/-- the full statement, for the code as it is now: WHATEVER the key, everything bucket creation
    (Create, and the auto-create of a write) constructs lies under the root, and everything Destroy
    hands to `RemoveAll` lies strictly below it -/
theorem C16_full (root : Path) (items : List Str) (year : Nat) :
    (∀ p ∈ createTouchedV Mkts.PathFs.addValidates root items year, root <+: p) ∧
    (∀ p ∈ destroyTouchedV Mkts.PathFs.removeValidates root items, root <+: p ∧ p ≠ root) := by
  rw [C16_code_validates.1, C16_code_validates.2]
  unfold createTouchedV destroyTouchedV
  cases h : allSafe items with
  | false => simp
  | true =>
    have hs := (allSafe_iff items).mp h
    simp only [Bool.not_true, Bool.and_false, Bool.false_eq_true, if_false]
    exact ⟨C16_create_touched root items year hs, C16_destroy_touched root items hs⟩

/-- a write to an EXISTING bucket goes to the directory the catalog's `directMap` holds for the
    cleaned key path; whenever that directory is under the root (all the catalog ever holds now:
    it is filled from the tree below the root and by validated `AddTimeBucket`s) so is the year file -/
theorem C16_write_existing (root dirp : Path) (year : Nat) (h : root <+: dirp) :
    root <+: dirp ++ [yearFile year] ∧ root <+: dirp ++ [yearTmp year] :=
  ⟨prefix_append_of_prefix _ h, prefix_append_of_prefix _ h⟩

def cexRoot : Path := [[115, 114, 118], [100, 97, 116, 97]]
def cexItems : List Str := [dotdot, [49, 77, 105, 110], [79, 72, 76, 67]]

/-- BEFORE the repair (no validation: `createTouchedV false`) the key `../1Min/OHLC` put the bucket
    directory, its `category_name` and year file into the parent of the root (C16-F10, fixed) -/
theorem C16_before_repair_dotdot :
    [[115, 114, 118], [49, 77, 105, 110], [79, 72, 76, 67], yearFile 2020] ∈ createTouchedV false cexRoot cexItems 2020 ∧
    ¬ cexRoot <+: [[115, 114, 118], [49, 77, 105, 110], [79, 72, 76, 67], yearFile 2020] ∧
    createTouchedV true cexRoot cexItems 2020 = [] := by decide

/-- the excluded class is exact: below a non-empty root, creation stays under the root iff the walk
    over the items never pops above its start (`..` outnumbering the real names of some prefix) -/
theorem C16_exact (root : Path) (hr : root ≠ []) (hp : ∀ c ∈ root, plain c) (items : List Str) (year : Nat) :
    (∀ p ∈ createTouched root items year, root <+: p) ↔ staysInside items = true := by
  constructor
  · intro h
    cases hs : staysInside items with
    | true => rfl
    | false =>
      obtain ⟨p, hp', hn⟩ := dirChain_escapes root hr hp items [] (by simp) (by simpa [staysInside] using hs)
      exact absurd (h p (by simp only [createTouched, List.mem_append]; left; left; simpa using hp')) hn
  · exact createTouched_of_staysInside root items year

/-- `safe` is sufficient for `staysInside`, and `.`/empty items are harmless -/
theorem C16_safe_staysInside (items : List Str) (h : ∀ c ∈ items, safe c) : staysInside items = true :=
  safe_staysInsideAux items h 0

/-! non-vacuity -/
example : ∀ c ∈ [[65, 65, 80, 76], [49, 77, 105, 110], [79, 72, 76, 67]], safe c := by decide
example : joinKey cexRoot [[65, 65, 80, 76], [49, 77, 105, 110], [79, 72, 76, 67]] = cexRoot ++ [[65, 65, 80, 76], [49, 77, 105, 110], [79, 72, 76, 67]] := by decide
example : staysInside [[65], dotdot, dot, [], [66]] = true ∧ staysInside [[65], dotdot, dotdot, [100, 97, 116, 97]] = false := by decide
example : ¬ safe dotdot ∧ ¬ safe [97, 47, 98] ∧ ¬ safe [] ∧ ¬ safe [0] := by decide

end Mkts.Props.C16
