import Mkts.Lemmas.Time
/-!
# C30 — Interval indexing is a bijection onto a year's slots

Model: `Mkts.Time.timeToIndex / indexToTime / indexToOffset / fileSize` (utils/io/timeindex.go,
metadata.go).  Zones are arbitrary transition tables; the theorems hold for every zone that is
*year-coherent* (`Coherent`: a year's first instant is at or before every instant of that local
year and years tile the time line) — proved for UTC, evaluated on the real zones by the
correspondence run.
-/
namespace Mkts.Props.C30
open Mkts.Time

structure Coherent (z : Zone) : Prop where
  le : ∀ t, yearStart z (localYear z t) ≤ t
  lt : ∀ t, t < yearStart z (localYear z t + 1)
  uniq : ∀ t y, yearStart z y ≤ t → t < yearStart z (y + 1) → localYear z t = y

theorem utc_coherent : Coherent utc := by
  refine ⟨fun t => ?_, fun t => ?_, fun t y h1 h2 => ?_⟩
  · have := jan1_le_yearOfDays (t / 86400000000000)
    rw [utc_yearStart, localYear, utc_localDays]; omega
  · have := lt_jan1_succ_yearOfDays (t / 86400000000000)
    rw [utc_yearStart, localYear, utc_localDays]; omega
  · rw [utc_yearStart] at h1 h2
    rw [localYear, utc_localDays]
    apply yearOfDays_unique <;> omega

/-- length of local year `y` in zone `z` -/
def yearLen (z : Zone) (y : Int) : Int := yearStart z (y + 1) - yearStart z y

/-! ## sub-day timeframes -/

/-- every instant lies in the interval its slot converts back to, and slots start at 1 -/
theorem C30_interval (z : Zone) (hz : Coherent z) (t tf : Int) (htf : 0 < tf) (hd : tf ≠ dayNs) :
    indexToTime z (timeToIndex z t tf) tf (localYear z t) ≤ t ∧
    t < indexToTime z (timeToIndex z t tf) tf (localYear z t) + tf ∧
    1 ≤ timeToIndex z t tf := by
  have hle := hz.le t
  simp only [timeToIndex, indexToTime, beq_iff_eq, hd, if_false]
  rw [tdiv_eq_ediv (by omega) htf]
  have h1 := Int.ediv_mul_le (t - yearStart z (localYear z t)) (Int.ne_of_gt htf)
  have h2 := Int.lt_ediv_add_one_mul_self (t - yearStart z (localYear z t)) htf
  have h3 : 0 ≤ (t - yearStart z (localYear z t)) / tf := Int.ediv_nonneg (by omega) (by omega)
  have e : tf * (1 + (t - yearStart z (localYear z t)) / tf - 1) = (t - yearStart z (localYear z t)) / tf * tf := by
    rw [Int.mul_comm]; congr 1; omega
  rw [e]
  have e2 : ((t - yearStart z (localYear z t)) / tf + 1) * tf = (t - yearStart z (localYear z t)) / tf * tf + tf := by
    rw [Int.add_mul]; omega
  omega

/-- slot → interval start → slot is the identity for every slot that lies in its year -/
theorem C30_roundtrip (z : Zone) (hz : Coherent z) (y i tf : Int) (htf : 0 < tf) (hd : tf ≠ dayNs)
    (h1 : 1 ≤ i) (hin : yearStart z y + tf * (i - 1) < yearStart z (y + 1)) :
    localYear z (indexToTime z i tf y) = y ∧ timeToIndex z (indexToTime z i tf y) tf = i := by
  have hnn : 0 ≤ tf * (i - 1) := Int.mul_nonneg (by omega) (by omega)
  have hy : localYear z (yearStart z y + tf * (i - 1)) = y := hz.uniq _ _ (by omega) hin
  simp only [timeToIndex, indexToTime, beq_iff_eq, hd, if_false]
  refine ⟨hy, ?_⟩
  rw [hy, tdiv_eq_ediv (by omega) htf]
  have : yearStart z y + tf * (i - 1) - yearStart z y = tf * (i - 1) := by omega
  rw [this, Int.mul_ediv_cancel_left _ (Int.ne_of_gt htf)]; omega

/-- two instants of one local year share a slot exactly when they share the interval start -/
theorem C30_injective (z : Zone) (t1 t2 tf : Int) (hd : tf ≠ dayNs) (htf : 0 < tf)
    (hy : localYear z t1 = localYear z t2) :
    timeToIndex z t1 tf = timeToIndex z t2 tf ↔
      indexToTime z (timeToIndex z t1 tf) tf (localYear z t1) =
      indexToTime z (timeToIndex z t2 tf) tf (localYear z t2) := by
  simp only [indexToTime, beq_iff_eq, hd, if_false, hy]
  constructor
  · intro h; rw [h]
  · intro h
    have h' : tf * (timeToIndex z t1 tf - 1) = tf * (timeToIndex z t2 tf - 1) := by omega
    have := Int.eq_of_mul_eq_mul_left (Int.ne_of_gt htf) h'
    omega

/-- every slot lies inside the data area of the year file, provided the timeframe divides the
    local year and the file (sized with the *process* zone `zl`) is at least as long -/
theorem C30_data_area (z zl : Zone) (hz : Coherent z) (t tf rec : Int) (htf : 0 < tf) (hd : tf ≠ dayNs)
    (hrec : 0 ≤ rec) (hdiv : tf ∣ yearLen z (localYear z t))
    (hlen : yearLen z (localYear z t) ≤ yearLen zl (localYear z t)) :
    headersize ≤ timeToOffset z t tf rec ∧
    timeToOffset z t tf rec + rec ≤ fileSize zl tf (localYear z t) rec := by
  have hle := hz.le t
  have hlt := hz.lt t
  obtain ⟨k, hk⟩ := hdiv
  simp only [timeToOffset, indexToOffset, timeToIndex, fileSize, beq_iff_eq, hd, if_false]
  unfold yearLen at hk hlen
  rw [tdiv_eq_ediv (by omega) htf, tdiv_eq_ediv (by omega) htf]
  generalize hq : (t - yearStart z (localYear z t)) / tf = q
  generalize hL : (yearStart zl (localYear z t + 1) - yearStart zl (localYear z t)) / tf = L
  have hq0 : 0 ≤ q := by rw [← hq]; exact Int.ediv_nonneg (by omega) (by omega)
  -- q < k ≤ L
  have hqk : q < k := by
    have h1 := Int.ediv_mul_le (t - yearStart z (localYear z t)) (Int.ne_of_gt htf)
    rw [hq] at h1
    have : q * tf < k * tf := by rw [Int.mul_comm k tf]; omega
    exact Int.lt_of_mul_lt_mul_right this (by omega)
  have hkL : k ≤ L := by
    rw [← hL]
    have : k = (tf * k) / tf := by rw [Int.mul_ediv_cancel_left _ (Int.ne_of_gt htf)]
    rw [this]
    exact Int.ediv_le_ediv htf (by omega)
  have e1 : (1 + q - 1) * rec = q * rec := by congr 1; omega
  rw [e1]
  have hqr : 0 ≤ q * rec := Int.mul_nonneg hq0 hrec
  have : (q + 1) * rec ≤ L * rec := Int.mul_le_mul_of_nonneg_right (by omega) hrec
  rw [Int.add_mul] at this
  omega

/-- the UTC year is a whole number of days, so every timeframe dividing a day qualifies -/
theorem utc_yearLen_days (y : Int) : yearLen utc y = (jan1 (y + 1) - jan1 y) * dayNs := by
  simp only [yearLen, utc_yearStart, dayNs]; omega

theorem C30_data_area_utc (t tf rec : Int) (htf : 0 < tf) (hd : tf ≠ dayNs) (hrec : 0 ≤ rec)
    (hdiv : tf ∣ dayNs) :
    headersize ≤ timeToOffset utc t tf rec ∧
    timeToOffset utc t tf rec + rec ≤ fileSize utc tf (localYear utc t) rec :=
  C30_data_area utc utc utc_coherent t tf rec htf hd hrec
    (by rw [utc_yearLen_days]; exact Int.dvd_trans hdiv (Int.dvd_mul_left _ _)) (Int.le_refl _)

/-! ## 1D (one slot per calendar day; the code uses `YearDay − 1`) -/

theorem utc_timeToIndex_1D (t : Int) :
    timeToIndex utc t dayNs = t / 86400000000000 - jan1 (localYear utc t) := by
  simp [timeToIndex, yearDay, utc_localDays]

theorem C30_1D_interval (t : Int) :
    indexToTime utc (timeToIndex utc t dayNs) dayNs (localYear utc t) ≤ t ∧
    t < indexToTime utc (timeToIndex utc t dayNs) dayNs (localYear utc t) + dayNs ∧
    0 ≤ timeToIndex utc t dayNs := by
  have a := jan1_le_yearOfDays (t / 86400000000000)
  rw [utc_timeToIndex_1D]
  simp only [indexToTime, beq_self_eq_true, if_true, utc_dateToUnix, secPerDay, nsPerSec, dayNs, localYear,
    utc_localDays]
  omega

/-- The full data-area statement for 1D, as the property states it. -/
def C30_full_1D : Prop := ∀ t rec : Int, 0 < rec → headersize ≤ timeToOffset utc t dayNs rec

/-- It is FALSE of the code: January 1 maps to index 0, i.e. to the `recLen` bytes *before* the
    data area (inside the header's reserved tail).  Witness: 1970-01-01T00:00:00Z, 8-byte records. -/
theorem C30_cex_1D_jan1 : ¬ C30_full_1D := by
  intro h
  have := h 0 8 (by decide)
  revert this
  decide

/-- What does hold for 1D: every day except January 1 lies in the data area. -/
theorem C30_1D_partial (t rec : Int) (hrec : 0 ≤ rec) (hnotjan1 : 1 ≤ timeToIndex utc t dayNs) :
    headersize ≤ timeToOffset utc t dayNs rec ∧
    timeToOffset utc t dayNs rec + rec ≤ fileSize utc dayNs (localYear utc t) rec := by
  have b := lt_jan1_succ_yearOfDays (t / 86400000000000)
  rw [utc_timeToIndex_1D] at hnotjan1
  simp only [timeToOffset, indexToOffset, fileSize, utc_timeToIndex_1D, utc_yearStart]
  have hL : ((jan1 (localYear utc t + 1) * 86400000000000 - jan1 (localYear utc t) * 86400000000000).tdiv dayNs)
      = jan1 (localYear utc t + 1) - jan1 (localYear utc t) := by
    have hm := jan1_mono (localYear utc t)
    rw [tdiv_eq_ediv (by omega) (by decide)]
    simp only [dayNs]; omega
  rw [hL]
  simp only [localYear, utc_localDays] at *
  generalize hq : t / 86400000000000 - jan1 (yearOfDays (t / 86400000000000)) = q at *
  generalize hLL : jan1 (yearOfDays (t / 86400000000000) + 1) - jan1 (yearOfDays (t / 86400000000000)) = L at *
  have hqL : q + 1 ≤ L := by omega
  have h0 : 0 ≤ (q - 1) * rec := Int.mul_nonneg (by omega) hrec
  have : (q - 1) * rec + rec ≤ L * rec := by
    have : q * rec ≤ L * rec := Int.mul_le_mul_of_nonneg_right (by omega) hrec
    rw [Int.sub_mul]; omega
  omega

/-! ## the file is sized with the process zone, not the configured one -/

/-- Asia/Pyongyang around 2015: +09:00 until 2015-08-14T15:00:00Z, then +08:30. -/
def pyongyang2015 : Zone := { init := 32400, trans := [(1439564400, 30600)] }

/-- With the configured zone Asia/Pyongyang and a UTC process, the last 1Min slot of local year
    2015 lies beyond the end of the file (the local year is 8760.5 hours long). -/
theorem C30_cex_zone :
    let t := yearStart pyongyang2015 2016 - 1
    fileSize utc 60000000000 (localYear pyongyang2015 t) 8 < timeToOffset pyongyang2015 t 60000000000 8 + 8 := by
  decide

/-! ## non-vacuity -/
example : Coherent utc ∧ (60000000000 : Int) ∣ dayNs ∧ (60000000000 : Int) ≠ dayNs := by
  refine ⟨utc_coherent, ⟨1440, by decide⟩, by decide⟩
example : 1 ≤ timeToIndex utc 86400000000000 dayNs := by decide

end Mkts.Props.C30
