import Mkts.Lemmas.SqlRange
/-!
C19: the post-filter's keep flag of a row coincides with the usual meaning of the conjunction
(`satAll`) when there is one predicate per column, every predicate column is Epoch or a column of a
filterable type, and the literals fit the column type.
-/
namespace Mkts.Sql
open Mkts.Store Mkts.Time Mkts.Bytes

/-! ### association by unique key -/

theorem find?_key_of_mem {α} (l : List α) (key : α → String) (x : α) (hx : x ∈ l)
    (hnd : (l.map key).Nodup) : l.find? (fun y => key y == key x) = some x := by
  induction l with
  | nil => cases hx
  | cons a t ih =>
    simp only [List.map_cons, List.nodup_cons] at hnd
    simp only [List.find?_cons]
    rcases List.mem_cons.mp hx with h | h
    · subst h; simp
    · have hne : key a ≠ key x := fun he => hnd.1 (he ▸ List.mem_map.mpr ⟨x, h, rfl⟩)
      have : (key a == key x) = false := by simpa using hne
      rw [this]
      exact ih h hnd.2

theorem find?_name_eq {α} (l : List α) (key : α → String) (n : String) (x : α)
    (h : l.find? (fun y => key y == n) = some x) : x ∈ l ∧ key x = n := by
  have h1 := List.mem_of_find?_eq_some h
  have h2 := List.find?_some h
  exact ⟨h1, by simpa using h2⟩

/-! ### per-conjunct keep flag -/

/-- the post-filter tests contributed by ONE conjunct -/
def keepConj (cols : List ColDef) (c : Conj) (r : Row) : Bool :=
  if c.col == "Epoch" then keepEpoch c.pending r.sec
  else match cols.find? (fun d => d.name == c.col), colBytes cols c.col r.payload with
    | some d, some b => keepSP d.ty c.pending b
    | _, _ => true

/-- schema side conditions: unique column names, none called Epoch; every predicate column is
    Epoch or a schema column -/
structure WellFormed (cols : List ColDef) (conj : List Conj) : Prop where
  colsNodup : (cols.map (·.name)).Nodup
  noEpochCol : ∀ d ∈ cols, d.name ≠ "Epoch"
  onePerColumn : (conj.map Conj.col).Nodup
  known : ∀ c ∈ conj, c.col = "Epoch" ∨ ∃ d ∈ cols, d.name = c.col

theorem keepRow_eq_all (cols : List ColDef) (conj : List Conj) (r : Row) (wf : WellFormed cols conj) :
    keepRow cols (conj.map (fun c => (c.col, c.pending))) r = conj.all (fun c => keepConj cols c r) := by
  rw [Bool.eq_iff_iff]
  simp only [keepRow, keepCols, Bool.and_eq_true, List.all_eq_true, get_map_pending]
  constructor
  · rintro ⟨he, hc⟩ c hcm
    have hfc := find?_key_of_mem conj Conj.col c hcm wf.onePerColumn
    unfold keepConj
    by_cases hE : c.col = "Epoch"
    · rw [hE] at hfc
      simp only [hE, beq_self_eq_true, if_true]
      rw [hfc] at he
      simpa using he
    · have hEb : (c.col == "Epoch") = false := by simpa using hE
      simp only [hEb]
      rcases wf.known c hcm with h | ⟨d, hd, hdn⟩
      · exact absurd h hE
      · have hfd := find?_key_of_mem cols (·.name) d hd wf.colsNodup
        simp only [hdn] at hfd
        have := hc d hd
        rw [hdn, hfc] at this
        simp only [Option.map_some] at this
        rw [hfd]
        cases hb : colBytes cols c.col r.payload with
        | none => simp
        | some b => simp only [hb] at this; simpa using this
  · intro h
    constructor
    · cases hf : conj.find? (fun c => c.col == "Epoch") with
      | none => simp
      | some c =>
        obtain ⟨hm, hn⟩ := find?_name_eq conj Conj.col "Epoch" c hf
        have := h c hm
        unfold keepConj at this
        simpa [hn] using this
    · intro d hd
      cases hf : conj.find? (fun c => c.col == d.name) with
      | none => simp
      | some c =>
        obtain ⟨hm, hn⟩ := find?_name_eq conj Conj.col d.name c hf
        have := h c hm
        unfold keepConj at this
        have hE : (d.name == "Epoch") = false := by simpa using wf.noEpochCol d hd
        have hfd := find?_key_of_mem cols (·.name) d hd wf.colsNodup
        simp only [hn, hE, hfd] at this
        simp only [Option.map_some]
        cases hb : colBytes cols d.name r.payload with
        | none => simp
        | some b => simp only [hb] at this; simpa using this

/-! ### one conjunct: post-filter test = usual meaning -/

def Conj.lits : Conj → List Lit
  | .cmp _ _ l => [l]
  | .between _ lo hi => [lo, hi]

/-- a literal the code compares with the column value exactly: an integer literal for integer
    columns (of at most 7 bytes for the widened types: a uint64 above 2^63-1 wraps in `int64(v)`);
    any non-NaN literal for float columns (compared in the column's own precision) -/
def Fits (ty : ColTy) (l : Lit) : Prop :=
  match ty with
  | .i32 => ∃ x, l = .int x
  | .i64 => ∃ x, l = .int x
  | .f32 => Float.isNaN Float.b32 (Float.convert Float.b64 Float.b32 l.asF64) = false
  | .f64 => Float.isNaN Float.b64 l.asF64 = false
  | .other s _ => (∃ x, l = .int x) ∧ s ≤ 7

theorem wrap64_id (x : Int) (h1 : -9223372036854775808 ≤ x) (h2 : x < 9223372036854775808) : wrap64 x = x := by
  unfold wrap64 wrapN
  have e64 : ((2 ^ 64 : Nat) : Int) = 18446744073709551616 := by decide
  have e63 : ((2 ^ (64 - 1) : Nat) : Int) = 9223372036854775808 := by decide
  rw [e64, e63]
  dsimp only
  split <;> omega

theorem pow256_le (n : Nat) (h : n ≤ 7) : 256 ^ n ≤ 72057594037927936 := by
  have := Nat.pow_le_pow_right (show 0 < 256 by decide) h
  have e : 256 ^ 7 = 72057594037927936 := by decide
  omega

theorem wrap64_leDecode (b : Bytes) (h : b.length ≤ 7) : wrap64 (leDecode b : Int) = (leDecode b : Int) := by
  have h1 := leDecode_lt b
  have h2 := pow256_le b.length h
  apply wrap64_id <;> omega

theorem wrap64_leDecodeInt (b : Bytes) (h : b.length ≤ 7) : wrap64 (leDecodeInt b) = leDecodeInt b := by
  have h1 := leDecode_lt b
  have h2 := pow256_le b.length h
  apply wrap64_id
  · unfold leDecodeInt; dsimp only; split <;> omega
  · unfold leDecodeInt; dsimp only; split <;> omega

theorem keepVal_i64 (op : CmpOp) (v : Int) (b : Bytes) :
    keepVal .i64 op (.int v) b = keepInt op (leDecodeInt b) v := by
  cases op <;> simp [keepVal, keepInt, Lit.asI64, bne] <;> (rw [Bool.eq_iff_iff]; simp) <;>
    exact decide_eq_true_iff

theorem keepVal_i32 (op : CmpOp) (v : Int) (b : Bytes) :
    keepVal .i32 op (.int v) b = keepInt op (leDecodeInt b) v := by
  cases op <;> simp [keepVal, keepInt, Lit.asI64, bne] <;> (rw [Bool.eq_iff_iff]; simp) <;>
    exact decide_eq_true_iff

theorem keepVal_other (op : CmpOp) (s : Nat) (sg : Bool) (v : Int) (b : Bytes) (w : Int)
    (hw : wrap64 (if sg = true then leDecodeInt b else (leDecode b : Int)) = w) :
    keepVal (.other s sg) op (.int v) b = keepInt op w v := by
  cases op <;> simp [keepVal, keepInt, Lit.asI64, bne, hw] <;> (rw [Bool.eq_iff_iff]; simp) <;>
    exact decide_eq_true_iff

theorem keepVal_f64 (op : CmpOp) (l : Lit) (b : Bytes)
    (hv : Float.isNaN Float.b64 (leDecode b) = false) (hf : Float.isNaN Float.b64 l.asF64 = false) :
    keepVal .f64 op l b = fcmp Float.b64 op (leDecode b) l.asF64 := by
  cases op <;> simp [keepVal, fcmp, feq, fle, Float.lt, hv, hf] <;> (rw [Bool.eq_iff_iff]; simp)

theorem keepVal_f32 (op : CmpOp) (l : Lit) (b : Bytes)
    (hv : Float.isNaN Float.b32 (leDecode b) = false)
    (hf : Float.isNaN Float.b32 (Float.convert Float.b64 Float.b32 l.asF64) = false) :
    keepVal .f32 op l b = fcmp Float.b32 op (leDecode b) (Float.convert Float.b64 Float.b32 l.asF64) := by
  cases op <;> simp [keepVal, fcmp, feq, fle, Float.lt, hv, hf] <;> (rw [Bool.eq_iff_iff]; simp)

theorem keepVal_sat (ty : ColTy) (op : CmpOp) (l : Lit) (b : Bytes) (x : Bool)
    (hf : Fits ty l) (hb : b.length ≤ ty.size) (hs : satVal ty op l b = some x) : keepVal ty op l b = x := by
  cases ty with
  | i32 =>
    obtain ⟨v, rfl⟩ := hf
    simp only [satVal, satIntLit, Option.some.injEq] at hs
    rw [keepVal_i32 op v b, hs]
  | i64 =>
    obtain ⟨v, rfl⟩ := hf
    simp only [satVal, satIntLit, Option.some.injEq] at hs
    rw [keepVal_i64, hs]
  | f32 =>
    simp only [Fits] at hf
    simp only [satVal] at hs
    split at hs
    · cases hs
    · rename_i hv
      simp only [Option.some.injEq] at hs
      rw [keepVal_f32 op l b (by simpa using hv) hf, hs]
  | f64 =>
    simp only [Fits] at hf
    simp only [satVal] at hs
    split at hs
    · cases hs
    · rename_i hv
      simp only [Option.some.injEq] at hs
      rw [keepVal_f64 op l b (by simpa using hv) hf, hs]
  | other s sg =>
    obtain ⟨⟨v, rfl⟩, hs7⟩ := hf
    simp only [ColTy.size] at hb
    have hlen : b.length ≤ 7 := by omega
    simp only [satVal, satIntLit, Option.some.injEq] at hs
    have hw : wrap64 (if sg = true then leDecodeInt b else (leDecode b : Int)) =
        (if sg = true then leDecodeInt b else (leDecode b : Int)) := by
      cases sg
      · simpa using wrap64_leDecode b hlen
      · simpa using wrap64_leDecodeInt b hlen
    rw [keepVal_other op s sg v b _ hw, hs]

theorem colBytes_length (cols : List ColDef) (name : String) (p b : Bytes) (d : ColDef)
    (hb : colBytes cols name p = some b) (hf : cols.find? (fun d => d.name == name) = some d) :
    b.length ≤ d.ty.size := by
  induction cols generalizing p with
  | nil => simp [colBytes] at hb
  | cons c rest ih =>
    simp only [colBytes, List.find?_cons] at hb hf
    by_cases h : (c.name == name) = true
    · simp only [h, if_true, Option.some.injEq] at hb hf
      subst hb; subst hf
      simp [List.length_take]; omega
    · have h' : (c.name == name) = false := by simpa using h
      simp only [h', Bool.false_eq_true, if_false] at hb hf
      exact ih _ hb hf

theorem keepSP_cmp (e : Bool) (ty : ColTy) (op : CmpOp) (l : Lit) (b : Bytes) :
    keepSP ty (({ epoch := e } : SP).addComparison op l) b = keepVal ty op l b := by
  cases op <;> simp [keepSP, SP.addComparison, SP.setMin, SP.setMax]

theorem keepSP_between (e : Bool) (ty : ColTy) (lo hi : Lit) (b : Bytes) :
    keepSP ty ((({ epoch := e } : SP).addComparison .gt lo).addComparison .lt hi) b =
      (keepVal ty .gt lo b && keepVal ty .lt hi b) := by
  simp [keepSP, SP.addComparison, SP.setMin, SP.setMax]

theorem keepEpoch_cmp (e : Bool) (op : CmpOp) (l : Lit) (sec : Int) :
    keepEpoch (({ epoch := e } : SP).addComparison op l) sec = keepInt op (convUnit sec) (convUnit l.asI64) := by
  cases op <;> simp [keepEpoch, optKeep, SP.addComparison, SP.setMin, SP.setMax]

theorem keepEpoch_between (e : Bool) (lo hi : Lit) (sec : Int) :
    keepEpoch ((({ epoch := e } : SP).addComparison .gt lo).addComparison .lt hi) sec =
      (keepInt .gt (convUnit sec) (convUnit lo.asI64) && keepInt .lt (convUnit sec) (convUnit hi.asI64)) := by
  simp [keepEpoch, optKeep, SP.addComparison, SP.setMin, SP.setMax]

/-- an Epoch literal denotes an instant representable in int64 nanoseconds: already nanoseconds,
    or epoch seconds whose product with 10⁹ does not overflow (before the year 2262) -/
def LitRange (v : Int) : Prop :=
  v > threshold ∨ (-9223372036854775808 ≤ v * 1000000000 ∧ v * 1000000000 < 9223372036854775808)

/-- for such a literal the spec's reading and the code's `convertUnitToNanosec` agree -/
theorem epochLitNs_conv (l : Lit) (e : Int) (h : epochLitNs l = some e) (hr : LitRange l.asI64) :
    convUnit l.asI64 = e := by
  cases l with
  | int v =>
    simp only [Lit.asI64] at hr
    simp only [epochLitNs, Option.some.injEq] at h
    by_cases hv : v > threshold
    · simp only [hv, if_true] at h
      subst h
      exact convUnit_ns _ hv
    · simp only [hv, if_false] at h
      subst h
      rcases hr with h1 | ⟨h1, h2⟩
      · exact absurd h1 hv
      · simp only [Lit.asI64, convUnit, hv, if_false]
        exact wrap64_id _ h1 h2
  | flt b => simp [epochLitNs] at h

/-- per-conjunct side conditions of the partial theorem -/
structure ConjOK (cols : List ColDef) (c : Conj) (r : Row) : Prop where
  epochNs : c.col = "Epoch" → (∀ l ∈ c.lits, LitRange l.asI64) ∧ NsRange r.sec
  fits : c.col ≠ "Epoch" → ∀ d ∈ cols, d.name = c.col → ∀ l ∈ c.lits, Fits d.ty l

theorem keepConj_sat (cols : List ColDef) (c : Conj) (r : Row) (x : Bool)
    (ok : ConjOK cols c r) (hs : satConj cols c r = some x) : keepConj cols c r = x := by
  unfold keepConj
  by_cases hE : c.col = "Epoch"
  · obtain ⟨hns, hr⟩ := ok.epochNs hE
    cases c with
    | cmp col op l =>
      simp only [Conj.col] at hE
      subst hE
      simp only [Conj.col, beq_self_eq_true, if_true, Conj.pending, keepEpoch_cmp]
      simp only [satConj, beq_self_eq_true, if_true, Option.map_eq_some_iff] at hs
      obtain ⟨e, he, hx⟩ := hs
      rw [convUnit_sec _ hr, epochLitNs_conv l e he (hns l (by simp [Conj.lits])), hx]
    | between col lo hi =>
      simp only [Conj.col] at hE
      subst hE
      simp only [Conj.col, beq_self_eq_true, if_true, Conj.pending, keepEpoch_between]
      simp only [satConj, beq_self_eq_true, if_true, Option.bind_eq_bind, Option.pure_def] at hs
      cases h1 : epochLitNs lo with
      | none => simp [h1] at hs
      | some e1 =>
        cases h2 : epochLitNs hi with
        | none => simp [h1, h2] at hs
        | some e2 =>
          simp only [h1, h2, Option.map_some, Option.bind_some, Option.some.injEq] at hs
          rw [convUnit_sec _ hr, epochLitNs_conv lo e1 h1 (hns lo (by simp [Conj.lits])),
            epochLitNs_conv hi e2 h2 (hns hi (by simp [Conj.lits])), hs]
  · have hEb : (c.col == "Epoch") = false := by simpa using hE
    have hfits := ok.fits hE
    cases c with
    | cmp col op l =>
      simp only [Conj.col] at hEb hfits ⊢
      simp only [hEb, Conj.pending]
      simp only [satConj, hEb] at hs
      cases hf : cols.find? (fun d => d.name == col) with
      | none => simp [hf] at hs
      | some d =>
        obtain ⟨hdm, hdn⟩ := find?_name_eq cols (·.name) col d hf
        cases hb : colBytes cols col r.payload with
        | none => simp [hf, hb] at hs
        | some b =>
          simp only [hf, hb] at hs ⊢
          rw [keepSP_cmp]
          exact keepVal_sat d.ty op l b x (hfits d hdm hdn l (by simp [Conj.lits]))
            (colBytes_length cols col r.payload b d hb hf) hs
    | between col lo hi =>
      simp only [Conj.col] at hEb hfits ⊢
      simp only [hEb, Conj.pending]
      simp only [satConj, hEb, Option.bind_eq_bind, Option.pure_def, Bool.false_eq_true, if_false] at hs
      cases hf : cols.find? (fun d => d.name == col) with
      | none => simp [hf] at hs
      | some d =>
        obtain ⟨hdm, hdn⟩ := find?_name_eq cols (·.name) col d hf
        cases hb : colBytes cols col r.payload with
        | none => simp [hf, hb] at hs
        | some b =>
          simp only [hf, hb] at hs ⊢
          simp only [Bool.false_eq_true, if_false]
          rw [keepSP_between]
          cases h1 : satVal d.ty .gt lo b with
          | none => simp [h1] at hs
          | some y1 =>
            cases h2 : satVal d.ty .lt hi b with
            | none => simp [h1, h2] at hs
            | some y2 =>
              simp only [h1, h2, Option.bind_some, Option.some.injEq] at hs
              have hlen := colBytes_length cols col r.payload b d hb hf
              rw [keepVal_sat d.ty .gt lo b y1 (hfits d hdm hdn lo (by simp [Conj.lits])) hlen h1,
                keepVal_sat d.ty .lt hi b y2 (hfits d hdm hdn hi (by simp [Conj.lits])) hlen h2, hs]

theorem lits_of_pending (c : Conj) (l : Lit) (h : l ∈ c.lits) :
    c.pending.equal = some l ∨ c.pending.min = some l ∨ c.pending.max = some l := by
  cases c with
  | cmp col op v =>
    simp only [Conj.lits, List.mem_singleton] at h
    subst h
    cases op <;> simp [Conj.pending, SP.addComparison, SP.setMin, SP.setMax]
  | between col lo hi =>
    simp only [Conj.lits, List.mem_cons, List.mem_singleton, List.not_mem_nil, or_false] at h
    rcases h with h | h <;> subst h <;> simp [Conj.pending, SP.addComparison, SP.setMin, SP.setMax]

/-! ### the conjunction -/

theorem satAll_aux (cols : List ColDef) (cs : List Conj) (r : Row) (acc : Option Bool) (x : Bool)
    (h : cs.foldl (fun acc c => do let a ← acc; let b ← satConj cols c r; pure (a && b)) acc = some x) :
    ∃ a, acc = some a ∧ (∀ c ∈ cs, ∃ y, satConj cols c r = some y) ∧
      x = (a && cs.all (fun c => satConj cols c r == some true)) := by
  induction cs generalizing acc with
  | nil => simp only [List.foldl_nil] at h; exact ⟨x, h, by simp, by simp⟩
  | cons c rest ih =>
    simp only [List.foldl_cons] at h
    obtain ⟨a', ha', hall, hx⟩ := ih _ h
    cases acc with
    | none => simp at ha'
    | some a =>
      cases hc : satConj cols c r with
      | none => simp [hc] at ha'
      | some y =>
        simp only [hc, Option.bind_eq_bind, Option.bind_some, Option.pure_def, Option.some.injEq] at ha'
        refine ⟨a, rfl, ?_, ?_⟩
        · intro c' hc'
          rcases List.mem_cons.mp hc' with h1 | h1
          · subst h1; exact ⟨y, hc⟩
          · exact hall c' h1
        · subst ha'
          rw [hx]
          cases a <;> cases y <;> simp [hc]

/-- the keep flag computed by the code equals the truth value of the conjunction, whenever the
    property assigns one -/
theorem keepRow_sat (cols : List ColDef) (conj : List Conj) (r : Row) (x : Bool)
    (wf : WellFormed cols conj) (ok : ∀ c ∈ conj, ConjOK cols c r)
    (hs : satAll cols conj r = some x) : keepRow cols (buildGroup conj) r = x := by
  rw [buildGroup_nodup conj wf.onePerColumn, keepRow_eq_all cols conj r wf]
  obtain ⟨a, ha, hall, hx⟩ := satAll_aux cols conj r (some true) x hs
  simp only [Option.some.injEq] at ha
  subst ha
  rw [hx, Bool.true_and]
  have key : ∀ c ∈ conj, keepConj cols c r = (satConj cols c r == some true) := by
    intro c hc
    obtain ⟨y, hy⟩ := hall c hc
    rw [keepConj_sat cols c r y (ok c hc) hy, hy]
    cases y <;> rfl
  rw [Bool.eq_iff_iff]
  simp only [List.all_eq_true]
  constructor
  · intro h c hc; rw [← key c hc]; exact h c hc
  · intro h c hc; rw [key c hc]; exact h c hc

end Mkts.Sql
