package main

// C17: catalog vs. disk.  Op `cat <nowYear> <step>...` runs a scenario through the real
// frontend.DataService (Create / Write / Destroy / GetInfo / ListSymbols) of an in-process instance
// and, after every mutating step, compares the live catalog with (a) a fresh catalog.NewDirectory
// of the same root, (b) a walk of the real directory tree, (c) the directMap view of every
// 3-item key of the scenario.  Model side: lean/Mkts/Driver/Catalog.lean.
//
// Op `catrace <nowYear> <variant>` (below) runs the directed two-request schedules of the
// concurrent part.

import (
	"fmt"
	"os"
	"path/filepath"
	"sort"
	"strconv"
	"strings"
	"time"

	"github.com/alpacahq/marketstore/v4/catalog"
	"github.com/alpacahq/marketstore/v4/frontend"
)

func catErrClass(msg string) string {
	m := strings.ToLower(msg)
	switch {
	case msg == "":
		return "ok"
	case strings.Contains(m, "items but") && strings.Contains(m, "categories"):
		return "err:keylen"
	case strings.Contains(m, "can not overwrite file"):
		return "err:exists"
	case strings.Contains(m, "category name does not match"):
		return "err:catmismatch"
	case strings.Contains(m, "unable to find level item"):
		return "err:nokey"
	case strings.Contains(m, "unable to get info"):
		return "err:nokey"
	case strings.Contains(m, "unable to match data columns"):
		return "err:colmismatch"
	case strings.Contains(m, "not found in catalog"), strings.Contains(m, "does not contain files"):
		return "err:notincatalog"
	case strings.Contains(m, "timeframe"):
		return "err:timeframe"
	}
	return "err:other"
}

func (in *Inst) catRoot() string { return filepath.Clean(in.c.GetAbsRootDir()) }

func relPaths(root string, ps []string) []string {
	out := make([]string, 0, len(ps))
	for _, p := range ps {
		out = append(out, strings.TrimPrefix(filepath.Clean(p), root+"/"))
	}
	sort.Strings(out)
	return out
}

func joinOr(l []string) string {
	if len(l) == 0 {
		return "-"
	}
	return strings.Join(l, ",")
}

func catTbk(d *catalog.Directory) []string {
	l := catalog.ListTimeBucketKeyNames(d)
	sort.Strings(l)
	return l
}

func catFiles(root string, d *catalog.Directory) []string {
	l, err := d.GatherFilePaths()
	if err != nil {
		return []string{"err"}
	}
	return relPaths(root, l)
}

func catSymbols(d *catalog.Directory) []string {
	m, err := d.GatherCategoriesAndItems()
	if err != nil {
		return []string{"err"}
	}
	var out []string
	for k := range m["Symbol"] {
		out = append(out, k)
	}
	sort.Strings(out)
	return out
}

// diskWalk lists every directory below the root as path=category (root ".", "-" = no
// category_name file) and every <year>.bin file, both sorted.
func diskWalk(root string) (dirs, files []string) {
	filepath.WalkDir(root, func(p string, de os.DirEntry, err error) error {
		if err != nil {
			return nil
		}
		rel, _ := filepath.Rel(root, p)
		if de.IsDir() {
			cat := "-"
			if b, e := os.ReadFile(filepath.Join(p, "category_name")); e == nil {
				cat = string(b)
			}
			dirs = append(dirs, rel+"="+cat)
		} else if strings.HasSuffix(rel, ".bin") && strings.Contains(rel, "/") {
			files = append(files, rel)
		}
		return nil
	})
	sort.Strings(dirs)
	sort.Strings(files)
	return
}

// dmapYears: the years of the Directory object the root's directMap resolves for a 3-item key.
func (in *Inst) dmapYears(key string) (string, []string) {
	cat := in.c.GetCatalogDir()
	sub, err := cat.GetOwningSubDirectory(filepath.Join(in.catRoot(), key, "1970.bin"))
	if err != nil {
		return "err:nokey", nil
	}
	var ys []string
	for _, fi := range sub.GetTimeBucketInfoSlice() {
		ys = append(ys, strconv.Itoa(int(fi.Year)))
	}
	if len(ys) == 0 { // a Directory without year files is not a bucket (GetLatestYearFile fails on it)
		return "err:nokey", nil
	}
	sort.Strings(ys)
	return joinOr(ys), ys
}

func eqS(a, b []string) bool { return strings.Join(a, ",") == strings.Join(b, ",") }

func (in *Inst) catConsistent(keys []string) bool {
	root := in.catRoot()
	cat := in.c.GetCatalogDir()
	fresh, _ := catalog.NewDirectory(root)
	if fresh == nil {
		return false
	}
	_, bins := diskWalk(root)
	liveFiles := catFiles(root, cat)
	ok := eqS(catTbk(cat), catTbk(fresh)) && eqS(liveFiles, catFiles(root, fresh)) &&
		eqS(catSymbols(cat), catSymbols(fresh)) && eqS(liveFiles, bins)
	for _, k := range keys {
		var ty []string
		for _, f := range liveFiles {
			if strings.HasPrefix(f, k+"/") && !strings.Contains(f[len(k)+1:], "/") {
				ty = append(ty, strings.TrimSuffix(f[len(k)+1:], ".bin"))
			}
		}
		sort.Strings(ty)
		v, ys := in.dmapYears(k)
		if v == "err:nokey" {
			ok = ok && len(ty) == 0
		} else {
			ok = ok && len(ty) > 0 && eqS(ys, ty)
		}
	}
	return ok
}

func yearEpoch(y int64, i int) int64 {
	return time.Date(int(y), 7, 1, 0, 0, 0, 0, time.UTC).Unix() + int64(i)*86400
}

func (in *Inst) catCreate(items, cats string, schema string) string {
	req := frontend.CreateRequest{Key: items + ":" + cats, ColumnNames: []string{"c" + schema}, ColumnTypes: []string{"i4"}}
	var resp frontend.MultiServerResponse
	in.ds.Create(nil, &frontend.MultiCreateRequest{Requests: []frontend.CreateRequest{req}}, &resp)
	if len(resp.Responses) == 0 {
		return "noresp"
	}
	return catErrClass(resp.Responses[0].Error)
}

func (in *Inst) catWrite(items, schema, years string) string {
	var rows []rowIn
	for i, y := range ints(years) {
		rows = append(rows, rowIn{yearEpoch(y, i), 0, []byte{byte(i + 1), 0, 0, 0}})
	}
	ds := buildDataset(items, parseCols("c"+schema+"=int32"), rows, false)
	var resp frontend.MultiServerResponse
	in.ds.Write(nil, &frontend.MultiWriteRequest{Requests: []frontend.WriteRequest{{Data: ds}}}, &resp)
	if len(resp.Responses) == 0 {
		return "ok"
	}
	return catErrClass(resp.Responses[0].Error)
}

func (in *Inst) catDestroy(items string) string {
	var resp frontend.MultiServerResponse
	in.ds.Destroy(nil, &frontend.MultiKeyRequest{Requests: []frontend.KeyRequest{{Key: items}}}, &resp)
	if len(resp.Responses) == 0 {
		return "noresp"
	}
	return catErrClass(resp.Responses[0].Error)
}

func (in *Inst) catQueryStep(f []string) string {
	switch f[0] {
	case "I":
		var resp frontend.MultiGetInfoResponse
		in.ds.GetInfo(nil, &frontend.MultiKeyRequest{Requests: []frontend.KeyRequest{{Key: f[1]}}}, &resp)
		if len(resp.Responses) == 0 {
			return "I=noresp"
		}
		r := resp.Responses[0]
		if r.ServerResp.Error != "" {
			return "I=" + catErrClass(r.ServerResp.Error)
		}
		var cs []string
		for _, d := range r.DSV {
			if d.Name != "Epoch" {
				cs = append(cs, d.Name)
			}
		}
		return fmt.Sprintf("I=%d:%s", r.LatestYear, strings.Join(cs, "+"))
	case "Y":
		v, _ := in.dmapYears(f[1])
		return "Y=" + v
	case "L":
		var resp frontend.ListSymbolsResponse
		frontend.Queryable = 1
		if err := in.ds.ListSymbols(nil, &frontend.ListSymbolsRequest{Format: "tbk"}, &resp); err != nil {
			return "L=err"
		}
		sort.Strings(resp.Results)
		return "L=" + joinOr(resp.Results)
	case "S":
		var resp frontend.ListSymbolsResponse
		frontend.Queryable = 1
		if err := in.ds.ListSymbols(nil, &frontend.ListSymbolsRequest{Format: "symbol"}, &resp); err != nil {
			return "S=err"
		}
		sort.Strings(resp.Results)
		return "S=" + joinOr(resp.Results)
	case "F":
		return "F=" + joinOr(catFiles(in.catRoot(), in.c.GetCatalogDir()))
	case "K":
		dirs, files := diskWalk(in.catRoot())
		return "K=" + joinOr(dirs) + "|" + joinOr(files)
	}
	panic("bad-arg step " + strings.Join(f, ":"))
}

func catKeys(steps []string) []string {
	var keys []string
	seen := map[string]bool{}
	for _, s := range steps {
		f := strings.Split(s, ":")
		if len(f) >= 2 && strings.Count(f[1], "/") == 2 && !seen[f[1]] {
			seen[f[1]] = true
			keys = append(keys, f[1])
		}
	}
	return keys
}

func catOp(a []string) string {
	root := scratchDir("cat")
	defer os.RemoveAll(root)
	var out []string
	var in *Inst
	start := func() (ok bool) {
		defer func() {
			if r := recover(); r != nil {
				lastPanic = fmt.Sprint(r)
				out = append(out, "startup_panic")
				ok = false
			}
		}()
		in = startInst(root, nil)
		return true
	}
	if !start() {
		return strings.Join(out, " ")
	}
	defer func() { in.abandon() }()
	if a[0] != strconv.Itoa(time.Now().UTC().Year()) {
		return "harness:bad-arg now-year " + a[0]
	}
	steps := a[1:]
	keys := catKeys(steps)
	all := true
	flag := func() string {
		if in.catConsistent(keys) {
			return "/1"
		}
		all = false
		return "/0"
	}
	for _, step := range steps {
		f := strings.Split(step, ":")
		func() {
			defer func() {
				if r := recover(); r != nil {
					lastPanic = fmt.Sprint(r)
					out = append(out, f[0]+"="+panicClass(r)+flag())
				}
			}()
			switch f[0] {
			case "C":
				out = append(out, "C="+in.catCreate(f[1], f[2], f[3])+flag())
			case "W":
				out = append(out, "W="+in.catWrite(f[1], f[2], f[3])+flag())
			case "D":
				out = append(out, "D="+in.catDestroy(f[1])+flag())
			case "R":
				in.abandon()
				if !start() {
					return
				}
				out = append(out, "R=ok"+flag())
			default:
				out = append(out, in.catQueryStep(f))
			}
		}()
	}
	p := "P=0"
	if all {
		p = "P=1"
	}
	return strings.Join(append(out, p), " ")
}

func init() {
	ops["cat"] = catOp
	slowOps["cat"] = true
}

// ---- generator ------------------------------------------------------------------------------

var catSyms = []string{"A", "B"}
var catTfs = []string{"1Min", "1D", "1H"}
var catAttrs = []string{"X", "Y"}

const catDefault = "Symbol/Timeframe/AttributeGroup"

func (g *Gen) catKey() string {
	return catSyms[g.Intn(len(catSyms))] + "/" + catTfs[g.Intn(len(catTfs))] + "/" + catAttrs[g.Intn(len(catAttrs))]
}

func (g *Gen) catYears(now int) string {
	n := 1 + g.Intn(4)
	var ys []string
	for i := 0; i < n; i++ {
		ys = append(ys, fmt.Sprint(g.Pick(int64(now), int64(now), int64(now-1), int64(now+1), 2019, 2020, 1970, 2261)))
	}
	return strings.Join(ys, ",")
}

func catListing(g *Gen) string { return []string{"L", "F", "S", "K"}[g.Intn(4)] }

// catScenario builds one scenario; kind selects the class of history.
func (g *Gen) catScenario(kind string) (string, []string) {
	now := time.Now().UTC().Year()
	steps := []string{fmt.Sprint(now)}
	tags := []string{"kind:" + kind}
	add := func(s string) { steps = append(steps, s) }
	switch kind {
	case "wellformed": // default categories, 3-item keys: the class of C17_partial
		n := 3 + g.Intn(9)
		var used []string
		for i := 0; i < n; i++ {
			k := g.catKey()
			if len(used) > 0 && g.Intn(3) != 0 {
				k = used[g.Intn(len(used))]
			}
			used = append(used, k)
			// one schema per key inside a scenario (a bucket with year files of different schemas makes
			// AddFile's template choice depend on Go map order); a write uses the other one now and then
			sch := int(k[0]+k[len(k)-1]) % 2
			wsch := sch
			if g.Intn(6) == 0 {
				wsch = 1 - sch
				tags = append(tags, "write_other_schema")
			}
			switch g.Intn(10) {
			case 0, 1, 2:
				add(fmt.Sprintf("C:%s:%s:%d", k, catDefault, sch))
			case 3, 4, 5:
				add(fmt.Sprintf("W:%s:%d:%s", k, wsch, g.catYears(now)))
			case 6, 7:
				add("D:" + k)
			case 8:
				add("R")
				tags = append(tags, "restart")
			default:
				add([]string{"I:" + k, "Y:" + k}[g.Intn(2)])
			}
			if g.Intn(3) == 0 {
				add(catListing(g))
			}
		}
		add("L")
		add("F")
		add("K")
	case "recreate": // recreate with a different schema
		k := g.catKey()
		add(fmt.Sprintf("C:%s:%s:0", k, catDefault))
		add(fmt.Sprintf("W:%s:0:%s", k, g.catYears(now)))
		add("I:" + k)
		add("D:" + k)
		if g.Intn(2) == 0 {
			add("R")
		}
		add(fmt.Sprintf("C:%s:%s:1", k, catDefault))
		add(fmt.Sprintf("W:%s:0:%s", k, g.catYears(now))) // old schema: column mismatch
		add(fmt.Sprintf("W:%s:1:%s", k, g.catYears(now)))
		add("I:" + k)
		add("Y:" + k)
		add("F")
		add("K")
	case "prefix": // Destroy with a 1- or 2-item key (a whole symbol / timeframe), then listings, writes, restart
		k := g.catKey()
		k2 := g.catKey()
		add(fmt.Sprintf("C:%s:%s:0", k, catDefault))
		if g.Intn(2) == 0 {
			add(fmt.Sprintf("W:%s:0:%s", k2, g.catYears(now)))
		}
		it := strings.Split(k, "/")
		pk := strings.Join(it[:1+g.Intn(2)], "/")
		tags = append(tags, fmt.Sprintf("prefix_len:%d", strings.Count(pk, "/")+1))
		add("D:" + pk)
		add("Y:" + k)
		add("Y:" + k2)
		add("I:" + k)
		add("L")
		add("F")
		add("K")
		if g.Intn(2) == 0 { // the destroyed bucket is written again without a restart
			add(fmt.Sprintf("W:%s:0:%s", k, g.catYears(now)))
			add("F")
			tags = append(tags, "write_after_prefix_destroy")
		}
		add("R")
		add("Y:" + k)
		add("L")
		add(fmt.Sprintf("W:%s:0:%s", k, g.catYears(now)))
		add("F")
	case "cats": // non-default category names: mismatch leaves residue, short list panics
		k := g.catKey()
		if g.Intn(2) == 0 {
			add(fmt.Sprintf("C:%s:%s:0", k, catDefault))
		}
		bad := []string{"Sym/Timeframe/AttributeGroup", "Symbol/Timeframe/Attr", "Symbol/TF/AttributeGroup",
			"Symbol/Timeframe", "Timeframe/Symbol/AttributeGroup", "Symbol/AttributeGroup/Timeframe", "Symbol"}[g.Intn(7)]
		tags = append(tags, "cats:"+bad)
		k2 := g.catKey()
		add(fmt.Sprintf("C:%s:%s:0", k2, bad))
		add("K")
		add("S")
		add("L")
		if g.Intn(2) == 0 {
			add(fmt.Sprintf("W:%s:0:%s", k2, g.catYears(now)))
			add("D:" + k2)
		}
		if g.Intn(2) == 0 { // auto-creating write (default categories) into whatever the root has become
			add(fmt.Sprintf("W:%s:0:%s", "Q/1Min/W", g.catYears(now)))
			tags = append(tags, "autocreate_after_cats")
		}
		add("R")
		add("S")
		add("L")
		add("K")
	case "mixed": // Create over a bucket that a write made in another year: year files of two schemas
		k := g.catKey()
		add(fmt.Sprintf("W:%s:0:%d,%d", k, now-1-g.Intn(3), now-4))
		add(fmt.Sprintf("C:%s:%s:1", k, catDefault))
		add("I:" + k)
		add(fmt.Sprintf("W:%s:0:%d", k, now-1)) // latest file now has schema 1: column mismatch
		add(fmt.Sprintf("W:%s:1:%d", k, now))
		add("Y:" + k)
		add("F")
		add("K")
	case "errors":
		k := g.catKey()
		add("D:" + k) // nothing there
		add(fmt.Sprintf("C:%s:%s:0", k, catDefault))
		add(fmt.Sprintf("C:%s:%s:0", k, catDefault)) // exists
		add(fmt.Sprintf("W:%s:1:%s", k, g.catYears(now)))        // column mismatch
		bk := []string{"A/xMin/X", "A/1Min", "A", "A/0Min/X", "A/1Min/X/Z"}[g.Intn(5)]
		tags = append(tags, "badkey:"+bk)
		if g.Intn(2) == 0 {
			add(fmt.Sprintf("C:%s:%s:0", bk, catDefault))
		} else if strings.Count(bk, "/") != 2 || g.Intn(2) == 0 {
			add(fmt.Sprintf("W:%s:0:%d", bk, now))
		}
		add("I:" + g.catKey())
		add("K")
		add("L")
	}
	return "cat " + strings.Join(steps, " "), tags
}

// catraceCase: directed / exhaustive two-request cases of the concurrent part.
func (g *Gen) catraceCase() (string, []string) {
	now := time.Now().UTC().Year()
	sym := catSyms[g.Intn(len(catSyms))]
	tf1, tf2 := "1Min", "1H"
	if g.Intn(2) == 0 {
		tf1, tf2 = "1D", "1Min"
	}
	k1 := sym + "/" + tf1 + "/" + catAttrs[g.Intn(2)]
	k2 := sym + "/" + tf2 + "/" + catAttrs[g.Intn(2)]
	setup := fmt.Sprintf("C:%s:%s:0", k1, catDefault)
	tags := []string{"kind:catrace"}
	switch g.Intn(4) {
	case 0: // a sibling bucket keeps the symbol alive: Destroy never reaches root.removeSubDir
		sib := sym + "/" + tf1 + "/W"
		if g.Intn(2) == 0 {
			sib = sym + "/4H/W"
		}
		setup += fmt.Sprintf(";C:%s:%s:0", sib, catDefault)
		tags = append(tags, "sibling")
	case 1: // another symbol exists
		setup += fmt.Sprintf(";C:%s:%s:0", "Q/1Min/X", catDefault)
		tags = append(tags, "other_symbol")
	}
	variant := []string{"dc", "dc", "seq01", "seq10", "par"}[g.Intn(5)]
	t1 := "D:" + k1
	t2 := fmt.Sprintf("C:%s:%s:0", k2, catDefault)
	switch variant {
	case "par": // the pair DESIGN F20 named: new-year write vs. create on the same symbol
		t1 = fmt.Sprintf("W:%s:0:%d", k1, now-1-g.Intn(3))
	case "dc":
		if g.Intn(4) == 0 { // create on ANOTHER symbol: no interference
			t2 = fmt.Sprintf("C:%s:%s:0", "Z/"+tf2+"/X", catDefault)
			tags = append(tags, "dc_other_symbol")
		}
	}
	tags = append(tags, "variant:"+variant)
	return fmt.Sprintf("catrace %d %s %s %s %s -", now, variant, setup, t1, t2), tags
}

func init() {
	gens["C17"] = func(g *Gen) {
		for i, nr := 0, g.N(16, 120); i < nr; i++ {
			line, tags := g.catraceCase()
			g.Emit(line, tags...)
		}
		n := g.N(120, 2500)
		for i := 0; i < n; i++ {
			kind := "wellformed"
			switch g.Intn(10) {
			case 0:
				kind = "recreate"
			case 1:
				kind = "prefix"
			case 2:
				kind = "cats"
			case 3:
				kind = "errors"
			case 4:
				if g.Intn(2) == 0 {
					kind = "mixed"
				}
			}
			line, tags := g.catScenario(kind)
			g.Emit(line, tags...)
		}
	}
}

// ---- directed two-request schedules (C17 concurrent part) -------------------------------------
//
// catrace <nowYear> <variant> <setup;setup;...> <t1> <t2> <sched>
//
// <t1>, <t2> are steps as in `cat` (D:/C:/W:).  The implementation runs the two requests on two
// goroutines against the real DataService.  Variants:
//   seq01 / seq10   one after the other (controls)
//   par             both started together behind a held root read lock, 8 rounds with different
//                   start orders; the final state must not depend on the order
//   dc              t1 = Destroy, t2 = Create of another bucket of the same symbol, directed so that
//                   Create runs after Destroy's last RemoveAll and before Destroy's final
//                   root.removeSubDir - if the code lets it (before the repair "catalog structure
//                   changes under the root are serialized" it did; now Create waits for the mutex
//                   Destroy holds and the requests run one after the other).  The schedule is forced WITHOUT touching /repo: the harness
//                   plays two concurrent readers by holding read locks through the exported
//                   (embedded) sync.RWMutex of two Directory objects:
//                     1. RLock the leaf Directory  -> Destroy stops in removeDirFiles(leaf).Lock()
//                     2. RLock the root            -> Create stops in AddTimeBucket's d.Lock()
//                     3. RUnlock the leaf          -> Destroy removes everything on disk and queues
//                                                     for the root lock BEHIND Create
//                     4. RUnlock the root          -> Create runs completely, then Destroy's
//                                                     root.removeSubDir drops the new subtree.
//                   Every lock the harness holds is one a real reader takes (ListTimeBucketKeyNames
//                   holds the root RLock, GetLatestYearFile the leaf RLock), only for longer.
// The <sched> token is the same schedule at the model's atom granularity (used by the Lean side).
// Output: T1=<res> T2=<res> L=<tbk> F=<catalog files> K=<disk files> RL=<tbk after restart> /<consistent before the restart>

func (in *Inst) catRunStep(step string) string {
	f := strings.Split(step, ":")
	switch f[0] {
	case "C":
		return in.catCreate(f[1], f[2], f[3])
	case "W":
		return in.catWrite(f[1], f[2], f[3])
	case "D":
		return in.catDestroy(f[1])
	}
	panic("bad-arg step " + step)
}

// catraceOp: the `dc` schedule has one step that cannot be observed from outside (Destroy's second,
// no-op RemoveAll of the symbol directory just before it queues for the root lock); if the Create
// overlapped it (Create fails or its files are gone) the attempt is discarded and the case is run
// again on a fresh instance (at most 6 attempts).  The acceptance test looks only at the disk.
func catraceOp(a []string) string {
	res := ""
	for attempt := 0; attempt < 6; attempt++ {
		var accepted bool
		res, accepted = catraceAttempt(a)
		if accepted {
			break
		}
	}
	return res
}

func catraceAttempt(a []string) (string, bool) {
	accepted := true
	res := catraceRun(a, &accepted)
	return res, accepted
}

func catraceRun(a []string, accepted *bool) string {
	root := scratchDir("catrace")
	defer os.RemoveAll(root)
	in := startInst(root, nil)
	defer func() { in.abandon() }()
	if a[0] != strconv.Itoa(time.Now().UTC().Year()) {
		return "harness:bad-arg now-year " + a[0]
	}
	variant, setup, t1, t2 := a[1], a[2], a[3], a[4]
	if setup != "-" {
		for _, s := range strings.Split(setup, ";") {
			in.catRunStep(s)
		}
	}
	var r1, r2 string
	run := func(step string, res *string, done chan struct{}) {
		defer close(done)
		defer func() {
			if r := recover(); r != nil {
				*res = panicClass(r)
			}
		}()
		*res = in.catRunStep(step)
	}
	cat := in.c.GetCatalogDir()
	switch variant {
	case "seq01":
		r1 = in.catRunStep(t1)
		r2 = in.catRunStep(t2)
	case "seq10":
		r2 = in.catRunStep(t2)
		r1 = in.catRunStep(t1)
	case "par":
		d1, d2 := make(chan struct{}), make(chan struct{})
		cat.RLock()
		go run(t1, &r1, d1)
		go run(t2, &r2, d2)
		time.Sleep(20 * time.Millisecond)
		cat.RUnlock()
		<-d1
		<-d2
	case "dc":
		it := strings.Split(strings.Split(t1, ":")[1], "/")
		leaf := cat
		for _, name := range it {
			if leaf = leaf.GetSubDirWithItemName(name); leaf == nil {
				return "harness:bad-arg dc: bucket of t1 does not exist"
			}
		}
		// No sleeps decide the schedule: each wait polls for the state that proves the other
		// goroutine has reached the intended lock (TryRLock fails while a writer is pending).
		waitN := func(n int, cond func() bool) bool {
			for i := 0; i < n; i++ {
				if cond() {
					return true
				}
				time.Sleep(500 * time.Microsecond)
			}
			return false
		}
		waitFor := func(cond func() bool) bool { return waitN(20000, cond) }
		pendingWriter := func(d *catalog.Directory) func() bool {
			return func() bool {
				if d.TryRLock() {
					d.RUnlock()
					return false
				}
				return true
			}
		}
		d1, d2 := make(chan struct{}), make(chan struct{})
		symDir := filepath.Join(in.catRoot(), it[0])
		leaf.RLock()
		go run(t1, &r1, d1)
		ok1 := waitFor(pendingWriter(leaf)) // Destroy waits in removeDirFiles(leaf).Lock()
		cat.RLock()
		go run(t2, &r2, d2)
		// Create waits in AddTimeBucket's d.Lock() - or, in the repaired code, already for the root's
		// mutMu, which Destroy holds: then it never reaches the root lock and this wait runs out
		// (2 s); the schedule continues and the two requests end up one after the other.
		waitN(4000, pendingWriter(cat))
		leaf.RUnlock()
		ok3 := waitFor(func() bool { // Destroy has removed the symbol's directory (or has finished)
			select {
			case <-d1:
				return true
			default:
			}
			_, err := os.Stat(symDir)
			return err != nil
		})
		time.Sleep(5 * time.Millisecond)
		cat.RUnlock()
		<-d1
		<-d2
		if !ok1 || !ok3 {
			return fmt.Sprintf("harness:sync-timeout %v %v", ok1, ok3)
		}
		// intended schedule achieved iff the Create ran after ALL of Destroy's disk removals:
		// it succeeded and its year file is on disk
		k2 := strings.Split(t2, ":")[1]
		_, binsNow := diskWalk(in.catRoot())
		has := false
		for _, b := range binsNow {
			if strings.HasPrefix(b, k2+"/") {
				has = true
			}
		}
		*accepted = r2 == "ok" && has
	default:
		return "harness:bad-arg variant " + variant
	}
	keys := catKeys([]string{t1, t2})
	rootp := in.catRoot()
	_, bins := diskWalk(rootp)
	out := []string{"T1=" + r1, "T2=" + r2, "L=" + joinOr(catTbk(cat)), "F=" + joinOr(catFiles(rootp, cat)), "K=" + joinOr(bins)}
	flag := "/0"
	if in.catConsistent(keys) {
		flag = "/1"
	}
	in.abandon()
	in = startInst(root, nil)
	out = append(out, "RL="+joinOr(catTbk(in.c.GetCatalogDir())), flag)
	return strings.Join(out, " ")
}

func init() {
	ops["catrace"] = catraceOp
	slowOps["catrace"] = true
}
