import Mkts.Model.FlushProto
import Mkts.Model.Skel
import Mkts.Extracted.Skeletons
/-! Which variant of the rendez-vous protocol the CURRENT source implements: read off the
regenerated skeleton of `RequestFlush`. Core Lean only. -/
namespace Mkts.FlushProto
open Mkts.Skel

/-- the early-return guard of RequestFlush, as a skeleton fragment -/
def earlyGuard : List String := ["if:len(wf.txnPipe.flushChannel) > 0{", "return", "}"]

/-- does the RequestFlush of the CURRENT source return early when a request is queued?
(regenerated from /repo on every run) -/
def earlyInCode : Bool :=
  hasSub (dropNoise Mkts.Extracted.Skel.executor_WALFileType_RequestFlush) earlyGuard

end Mkts.FlushProto
