#!/usr/bin/env python3
"""usage: mkfixer.py <agentname> <n> Cxx Cyy ...  -> creates worktrees, prints the prompt"""
import json, glob, os, subprocess, sys
name, n, props = sys.argv[1], sys.argv[2], sys.argv[3:]
VW, VB, RW, RB = "/work/f%s" % n, "fx%s" % n, "/work/r%s" % n, "fix-%s" % n
if not os.path.exists(VW):
    subprocess.run(["git", "-C", "/verif", "worktree", "add", "-b", VB, VW, "main"], check=True, capture_output=True)
if not os.path.exists(RW):
    subprocess.run(["git", "-C", "/repo", "worktree", "add", "-b", RB, RW, "main"], check=True, capture_output=True)
fs = json.load(open("/verif/known_findings.json"))["findings"]
for p in sorted(glob.glob("/verif/findings.d/*.json")):
    fs += json.load(open(p)).get("findings", [])
lines = []
for f in fs:
    if f["property"] in props and f.get("status") != "fixed":
        lines.append("- %s: %s" % (f["id"], f["what"][:400]))
patches = [os.path.basename(p) for p in sorted(glob.glob("/verif/fixes/*.patch")) if os.path.basename(p)[:3] in props]
lines.append("Proposed patches in fixes/: " + ", ".join(patches))
t = open("/verif/notes/prompt_fixer.txt").read()
print(t.replace("{VW}", VW).replace("{VB}", VB).replace("{RW}", RW).replace("{RB}", RB).replace("{FINDINGS}", "\n".join(lines)))
