import Mkts.Proto
import Mkts.Model.Trigger
import Mkts.Driver.Store
/-!
Driver for the `trig` op (C32): `trig <pat1,pat2,…|-> <step> <step> …` – the `store` steps run
against one server instance that has one recording trigger per pattern; after every step the
dispatcher is drained and the trigger calls are listed (see go/harness/trigger_ops.go).
-/
namespace Mkts.Driver.Trigger
open Mkts.Proto Mkts.Trigger Mkts.Bytes

/-- the write commands a successful `W` step queues (`WriteRecords` of the Store model), as the
    dispatcher sees them: WAL key path and `IndexAndPayload()` -/
def stepCmds (st : String) : List Cmd :=
  match st.splitOn ":" with
  | ["W", key, _, _, rows] =>
    match Store.keyTf key, Store.parseRows rows with
    | some (_, tfs, _), some rws =>
      match Store.parseTf tfs with
      | some tf =>
        (Mkts.Store.writeRecords tf (rws.map (fun r => (⟨r.1, r.2.2⟩ : Mkts.Store.Row)))).map
          (fun c => ⟨s!"{key}/{c.year}.bin".toList, mkRecord c.index c.payload⟩)
      | none => []
    | _, _ => []
  | _ => []

def insertEv (e : Fired) : List Fired → List Fired
  | [] => [e]
  | f :: fs =>
    if e.matcher < f.matcher || (e.matcher == f.matcher && String.ofList e.key ≤ String.ofList f.key) then e :: f :: fs
    else f :: insertEv e fs

def sortEvs (l : List Fired) : List Fired := l.foldr insertEv []

def showRec (r : Bytes) : String :=
  match recIndex r, recPayload r with
  | some i, some p => s!"{i}.{bytesToHex p}"
  | _, _ => "panic:slice"

def showEvs (l : List Fired) : String :=
  "[" ++ ";".intercalate ((sortEvs l).map (fun e =>
    s!"{e.matcher}@{String.ofList e.key}@{",".intercalate (e.records.map showRec)}")) ++ "]"

def distinctKeys (cmds : List Cmd) : List Str := (cmds.map (·.key)).eraseDups

/-- property-level expectation for one flushed transaction: per trigger (position) and per written
    file whose path the pattern matches COMPONENT-WISE FROM THE START, one call carrying that file's
    records in write order.  (The model line uses `Trigger.match`, which follows the source: anchored
    since the repair of C32-F1, the unanchored search if that statement is reverted - then the two
    lines differ on every key matched only further right.) -/
def specEvs (pats : List (List Comp)) (cmds : List Cmd) : List Fired :=
  pats.zipIdx.flatMap (fun pi =>
    ((distinctKeys cmds).filter (fun k => compAnchored pi.1 (splitSlash k))).map (fun k =>
      ⟨pi.2, k, (cmds.filter (fun c => c.key == k)).map (·.record)⟩))

structure Acc where
  bs : List Store.Bucket
  tpd : Tpd
  outM : List String
  outS : List String

def runTrig (matchers : List Str) (pats : Option (List (List Comp))) : Acc → List String → Option Acc
  | a, [] => some a
  | a, st :: rest =>
    match Store.step a.bs st with
    | none => none
    | some (bs', r, _, _) =>
      let cmds := if r == "W=ok" then stepCmds st else []
      -- FlushToWAL returns before FlushCommandsToWAL when nothing was queued
      let t1 := if cmds.isEmpty then a.tpd else flushCommands a.tpd cmds
      let fired := run matchers t1.c
      let t2 : Tpd := { t1 with c := [] }
      let s := match pats with
        | some ps => r ++ showEvs (specEvs ps cmds)
        | none => ""
      runTrig matchers pats ⟨bs', t2, a.outM ++ [r ++ showEvs fired], a.outS ++ [s]⟩ rest

def trigOp : Op := fun args =>
  match args with
  | [] => badArgs
  | ps :: steps =>
    let matchers := if ps == "-" then [] else ps.splitOn ","
    if !(matchers.all (fun m => inAlphabet m.toList && !m.isEmpty)) then "M:unsupported" else
    let pats := matchers.mapM (fun m => parsePattern m.toList)
    match runTrig (matchers.map String.toList) pats ⟨[], Tpd.init, [], []⟩ steps with
    | none => "M:unsupported"
    | some a =>
      let m := " ".intercalate a.outM
      match pats with
      | none => s!"M:{m}"
      | some _ => s!"M:{m}\tS:{" ".intercalate a.outS}"

def ops : OpTable := [("trig", trigOp)]

end Mkts.Driver.Trigger
