#!/usr/bin/env python3
"""Regenerates /verif/MANIFEST.json from props/*.json (claimed checks) and props/not_applicable.json."""
import json, os, glob
V = os.path.dirname(os.path.dirname(os.path.abspath(__file__)))
ids = [json.loads(l)["id"] for l in open(os.path.join(V, "properties.jsonl")) if l.strip()]
checks, claimed = [], set()
for pid in ids:
    p = os.path.join(V, "props", pid + ".json")
    if not os.path.exists(p):
        continue
    c = json.load(open(p))
    if c.get("disabled"):
        continue
    claimed.add(pid)
    checks.append({
        "property_id": pid,
        "quick_cmd": "./check %s --tier quick" % pid,
        "thorough_cmd": "./check %s --tier thorough" % pid,
        "evidence_file": "/verif/evidence/%s.json" % pid,
        "replay_cmd_template": "./check %s --replay {path}" % pid,
        "engine": "lean4-model+correspondence",
        "level_claimed": {"category": "proof", "text": c.get("level_text", ""), "design_ref": c.get("design_ref", "DESIGN.md §6 " + pid)},
        "level_note": c.get("level_note", "; ".join(c.get("trusted", []))),
        "technique": c.get("technique", "Lean 4 theorems about a hand-written executable model (lake build + axiom audit), tied to /repo by regenerated facts (factgen) and a differential correspondence run of model vs implementation"),
    })
na_path = os.path.join(V, "props", "not_applicable.json")
na = json.load(open(na_path)) if os.path.exists(na_path) else {}
not_applicable = [{"property_id": pid, "reason": na.get(pid, "no check built yet for this property (work in progress); see DESIGN.md")}
                  for pid in ids if pid not in claimed]
m = {
    "version": 1,
    "setup_cmd": "./setup.sh",
    "hooks": {
        "guard": "verif",
        "enable": "go build -tags verif (the harness under /verif/go/harness is built with it against /repo's working tree)",
        "baseline_off_cmd": json.load(open("/root/.vp/BASELINE.json"))["cmd"] if os.path.exists("/root/.vp/BASELINE.json") else "cd /repo && go test ./...",
        "source_commits": json.load(open(os.path.join(V, "props", "hooks.json"))).get("source_commits", []) if os.path.exists(os.path.join(V, "props", "hooks.json")) else [],
        "add_only": True,
    },
    "engines": [
        {"name": "lean4-model+correspondence", "path": "/verif/lean", "serves_properties": sorted(claimed),
         "kind_free_text": "Lean 4.33 project Mkts: executable model (Mkts/Model), theorems (Mkts/Props), generated facts (Mkts/Extracted, by go/factgen), line-protocol driver mktsdrv; Go harness go/harness runs the same op lines on the implementation; ./check decides"}],
    "checks": checks,
    "not_applicable": not_applicable,
    "notes": "One entry point: ./check Cxx [--tier quick|thorough] [--replay file]. See DESIGN.md.",
}
json.dump(m, open(os.path.join(V, "MANIFEST.json"), "w"), indent=1)
print("claimed", len(checks), "not claimed", len(not_applicable))
