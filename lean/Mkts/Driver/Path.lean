import Mkts.Proto
import Mkts.Model.PathFs
/-!
Driver ops for C16.
* `pclean <hex>`            → `filepath.Clean`
* `pjoin <hexroot> <hexkey>` → `filepath.Join(root, key)` twice: string level and component level
* `c16 <nowYear> <step>…`   steps `C:<hexkey>` create, `W:<hexkey>:<year>` write one row dated in
  `year`, `D:<hexkey>` destroy, `Q:<hexkey>` query.  The server root is `p1/p2/p3/data` inside an
  observed tree that also holds a foreign data directory `p1/p2/p3/other` (bucket BBB/1D/OHLC, year
  2020) and, inside the root, the bucket AAA/1D/OHLC created through the API.  Result: one class
  per step and the list of paths OUTSIDE the root that were created (+), removed (-) or whose
  content changed (~), hex, sorted.
-/
namespace Mkts.Driver.Path
open Mkts.Proto Mkts.Path Mkts.PathFs

def b (s : String) : Str := s.toUTF8.toList

def rootPath : Path := [b "p1", b "p2", b "p3", b "data"]
def otherPath : Path := [b "p1", b "p2", b "p3", b "other"]

def fs0 : FS :=
  let o := otherPath
  { dirs := [[b "p1"], [b "p1", b "p2"], [b "p1", b "p2", b "p3"], rootPath, o, o ++ [b "BBB"], o ++ [b "BBB", b "1D"],
             o ++ [b "BBB", b "1D", b "OHLC"]],
    files := [(o ++ [catName], b "Symbol"), (o ++ [b "BBB", catName], b "Timeframe"),
              (o ++ [b "BBB", b "1D", catName], b "AttributeGroup"),
              (o ++ [b "BBB", b "1D", b "OHLC", catName], b "Year"),
              (o ++ [b "BBB", b "1D", b "OHLC", yearFile 2020], yearTag)] }

def cat0 : Cat := { nodes := [], dmap := [] }

def insertSorted (x : String) : List String → List String
  | [] => [x]
  | y :: ys => if x < y then x :: y :: ys else y :: insertSorted x ys

def sortStrings (l : List String) : List String := l.foldr insertSorted []

def hexPath (p : Path) : String := bytesToHex (joinSep p)

/-- changes outside the root between two trees -/
def diffOutside (root : Path) (a z : FS) : List String :=
  let out (p : Path) : Bool := !isPrefixOf root p
  let added := (z.dirs.filter (fun d => out d && !a.dirs.contains d)).map (fun d => hexPath d ++ "+")
  let removed := (a.dirs.filter (fun d => out d && !z.dirs.contains d)).map (fun d => hexPath d ++ "-")
  let fadded := (z.files.filter (fun e => out e.1 && (a.file? e.1).isNone)).map (fun e => hexPath e.1 ++ "+")
  let fremoved := (a.files.filter (fun e => out e.1 && (z.file? e.1).isNone)).map (fun e => hexPath e.1 ++ "-")
  let fchanged := (z.files.filter (fun e => out e.1 && (match a.file? e.1 with | some c => c != e.2 | none => false))).map
    (fun e => hexPath e.1 ++ "~")
  sortStrings (added ++ removed ++ fadded ++ fremoved ++ fchanged)

structure Outcome where
  fs : FS
  cat : Cat
  out : List String
  hyps : List String

/-- no hypothesis is excluded any more: since the repair of C16-F10 the property is demanded for
    EVERY key (a request with an unsafe key must be refused without touching anything) -/
def keyUnsafe (_items : List Str) : List String := []

def runStep (nowYear : Nat) (o : Outcome) (st : String) : Option Outcome :=
  match st.splitOn ":" with
  | ["C", k] => do
    let key ← hexToBytes k
    let (fs, cat, r) := create rootPath o.fs o.cat key nowYear
    let items := splitOn sep ((splitOn colon key).headD [])
    pure ⟨fs, cat, o.out ++ ["C=" ++ r.show], o.hyps ++ keyUnsafe items⟩
  | ["W", k, y] => do
    let key ← hexToBytes k
    let year ← parseNat y
    let (fs, cat, r) := write rootPath o.fs o.cat key year
    pure ⟨fs, cat, o.out ++ ["W=" ++ r.show], o.hyps ++ keyUnsafe (newTimeBucketKeyFromString key).items⟩
  | ["D", k] => do
    let key ← hexToBytes k
    let (fs, cat, r) := destroy rootPath o.fs o.cat key
    let items := splitOn sep ((splitOn colon key).headD [])
    pure ⟨fs, cat, o.out ++ ["D=" ++ r.show], o.hyps ++ keyUnsafe items⟩
  | ["Q", k] => do
    let key ← hexToBytes k
    pure { o with out := o.out ++ ["Q=x"], hyps := o.hyps ++ keyUnsafe (newTimeBucketKeyFromString key).items }
  | _ => none

def c16Op : Op := fun args =>
  match args with
  | ny :: steps =>
    match parseNat ny with
    | none => badArgs
    | some nowYear =>
      -- fixed setup: the legitimate bucket AAA/1D/OHLC is created through the API
      let (fs1, cat1, _) := create rootPath fs0 cat0 (b "AAA/1D/OHLC:Symbol/Timeframe/AttributeGroup") nowYear
      match steps.foldlM (runStep nowYear) ⟨fs1, cat1, [], []⟩ with
      | none => badArgs
      | some o =>
        let d := diffOutside rootPath fs1 o.fs
        let ds := if d.isEmpty then "-" else ",".intercalate d
        s!"M:{" ".intercalate o.out} outside={ds}\tS:~outside=-\tH:{",".intercalate o.hyps.eraseDups}"
  | _ => badArgs

def pcleanOp : Op := fun args =>
  match args with
  | [h] => match hexToBytes h with
    | some s => "M:" ++ bytesToHex (clean s)
    | none => badArgs
  | _ => badArgs

/-- root must be an absolute clean path (components safe); the second field is the component-level
    `joinKey` used by the theorems, rendered -/
def pjoinOp : Op := fun args =>
  match args with
  | [r, k] =>
    match hexToBytes r, hexToBytes k with
    | some root, some key =>
      let s := join [root, key]
      let rc := ((splitOn sep root).drop 1).filter (· != [])
      let c := render (joinKey rc (splitOn sep key))
      s!"M:{bytesToHex s} {bytesToHex c}"
    | _, _ => badArgs
  | _ => badArgs

def ops : OpTable := [("c16", c16Op), ("pclean", pcleanOp), ("pjoin", pjoinOp)]

end Mkts.Driver.Path
