import Mkts.Model.WalReplay
import Mkts.Lemmas.WalCodec
/-! Helper lemmas for the WAL replay scanner (C06) -/
namespace Mkts.WalReplay
open Mkts.Bytes Mkts.WalCodec

variable (md5 : Bytes → Bytes)

/-- list-length goals: normalise lengths, then linear arithmetic -/
macro "len_omega" : tactic =>
  `(tactic| ((try simp only [List.length_cons, List.length_drop, List.length_take, List.length_append,
      List.length_nil]); omega))

/-- what a successful `readTGData` has seen in the file -/
theorem readTGData_ok {fsz : Nat} {r : Bytes} {id : Int} {tg r3 : Bytes}
    (h : readTGData md5 fsz r = .ok id tg r3) :
    ∃ lenb ck, r = lenb ++ (tg ++ (ck ++ r3)) ∧ lenb.length = 8 ∧ ck.length = 16 ∧
      leDecodeInt lenb = tg.length ∧ md5 (lenb ++ tg) = ck ∧ 7 ≤ tg.length := by
  unfold readTGData at h
  split at h; · cases h
  simp only at h
  split at h; · cases h
  split at h; · cases h
  split at h; · cases h
  split at h; · cases h
  split at h; · cases h
  split at h
  · rename_i h1 h2 h3 h4 h5 h6 h7
    injection h with hid htg hr3
    refine ⟨r.take tgLenBytes, ((r.drop tgLenBytes).drop (leDecodeInt (r.take tgLenBytes)).toNat).take checkSumBytes, ?_, ?_, ?_, ?_, ?_, ?_⟩
    · subst htg hr3
      simp only [List.take_append_drop]
    · simp only [tgLenBytes] at h1 ⊢; len_omega
    · simp only [checkSumBytes] at h6 ⊢; rw [List.length_take]; omega
    · subst htg
      simp only [List.length_take]
      omega
    · subst htg; exact h7
    · subst htg
      simp only [List.length_take, tgIDBytes] at h5 ⊢
      omega
  · cases h

theorem readTGData_ok_rest {fsz : Nat} {r : Bytes} {id : Int} {tg r3 : Bytes}
    (h : readTGData md5 fsz r = .ok id tg r3) : r3.length ≤ r.length := by
  obtain ⟨lenb, ck, hr, _⟩ := readTGData_ok md5 h
  rw [hr]; len_omega

theorem readTGData_bad_rest {fsz : Nat} {r r' : Bytes}
    (h : readTGData md5 fsz r = .bad r') : r'.length ≤ r.length := by
  unfold readTGData at h
  split at h; · cases h
  simp only at h
  split at h
  · injection h with h; subst h; len_omega
  split at h; · cases h
  split at h; · cases h
  split at h; · cases h
  split at h; · cases h
  split at h
  · cases h
  · injection h with h; subst h; len_omega

/-- every iteration of the scan loop that continues has consumed at least one byte -/
theorem step_cont_lt {fsz : Nat} {r r' : Bytes} {st st' : St}
    (h : step md5 fsz r st = .cont r' st') : r'.length < r.length := by
  unfold step at h
  cases r with
  | nil => cases h
  | cons b r1 =>
    simp only at h
    split at h
    · split at h
      · cases h
      · cases h
      · rename_i hb
        split at h
        · cases h
        · injection h with h1 h2; subst h1
          have := readTGData_bad_rest md5 hb
          len_omega
      · rename_i hb
        split at h
        · cases h
        · injection h with h1 h2; subst h1
          have := readTGData_ok_rest md5 hb
          len_omega
    · split at h
      · split at h
        · cases h
        · try simp only at h
          split at h <;> (injection h with h1 h2; subst h1; len_omega)
      · split at h
        · split at h
          · cases h
          · split at h
            · cases h
            · injection h with h1 h2; subst h1; len_omega
        · injection h with h1 h2; subst h1; len_omega

/-- with fuel above the number of remaining bytes the loop never runs out of fuel -/
theorem scanLoop_fuel (fsz : Nat) : ∀ (n : Nat) (r : Bytes) (st : St), r.length < n →
    scanLoop md5 fsz n r st ≠ .fuel := by
  intro n
  induction n with
  | zero => intro r st h; omega
  | succ n ih =>
    intro r st h
    unfold scanLoop
    split
    · simp
    · rename_i r' st' hs
      have := step_cont_lt md5 hs
      exact ih r' st' (by omega)
    · simp
    · simp
    · simp

/-! ### safety invariant of the first pass -/

/-- `tg` occurs in `f` as a complete TGDATA record: message id, 8-byte length equal to `tg.length`,
the bytes `tg`, and the checksum `md5 (length ++ tg)` -/
def ValidRecordIn (f tg : Bytes) : Prop :=
  ∃ pre lenb post, f = pre ++ midTGDATA :: (lenb ++ (tg ++ (md5 (lenb ++ tg) ++ post))) ∧
    lenb.length = 8 ∧ leDecodeInt lenb = tg.length

theorem mem_put {m : TGMap} {k : Int} {v : Option Bytes} {a : Int × Option Bytes}
    (h : a ∈ m.put k v) : a = (k, v) ∨ a ∈ m := by
  unfold TGMap.put at h
  rcases List.mem_cons.mp h with h | h
  · exact Or.inl h
  · exact Or.inr (List.mem_filter.mp h).1

theorem mem_dropUpTo {m : TGMap} {k : Int} {a : Int × Option Bytes}
    (h : a ∈ m.dropUpTo k) : a ∈ m := (List.mem_filter.mp h).1

theorem mem_failedRead {st : St} {id : Int} {tg : Bytes}
    (h : (id, some tg) ∈ st.failedRead.tgData) : (id, some tg) ∈ st.tgData := by
  unfold St.failedRead at h
  rcases mem_put h with h | h
  · cases h
  · exact h

/-- the state after one loop iteration holds only groups that were there before, or the
checksum-valid record that starts at the current position -/
theorem step_tgData {fsz : Nat} {r : Bytes} {st st' : St} {id : Int} {tg : Bytes}
    (h : (∃ r', step md5 fsz r st = .cont r' st') ∨ step md5 fsz r st = .stop st')
    (hm : (id, some tg) ∈ st'.tgData) :
    (id, some tg) ∈ st.tgData ∨
      ∃ lenb r3, r = midTGDATA :: (lenb ++ (tg ++ (md5 (lenb ++ tg) ++ r3))) ∧ lenb.length = 8 ∧
        leDecodeInt lenb = tg.length := by
  unfold step at h
  cases r with
  | nil =>
    simp only at h
    rcases h with ⟨r', h⟩ | h
    · cases h
    · injection h with h; subst h; exact Or.inl hm
  | cons b r1 =>
    simp only at h
    split at h
    · rename_i hb0
      split at h
      · rcases h with ⟨r', h⟩ | h <;> cases h
      · rcases h with ⟨r', h⟩ | h
        · cases h
        · injection h with h; subst h; exact Or.inl (mem_failedRead hm)
      · split at h
        · rcases h with ⟨r', h⟩ | h <;> cases h
        · rcases h with ⟨r', h⟩ | h
          · injection h with h1 h2; subst h2
            exact Or.inl (mem_failedRead hm)
          · cases h
      · rename_i id' tg' r3 hok
        split at h
        · rcases h with ⟨r', h⟩ | h <;> cases h
        · rcases h with ⟨r', h⟩ | h
          · injection h with h1 h2; subst h2
            simp only at hm
            rcases mem_put hm with hm | hm
            · injection hm with e1 e2
              injection e2 with e2
              subst e2
              obtain ⟨lenb, ck, hr, hl, _, hd, hck, _⟩ := readTGData_ok md5 hok
              refine Or.inr ⟨lenb, r3, ?_, hl, hd⟩
              rw [hb0, hr, hck]
            · exact Or.inl hm
          · cases h
    · split at h
      · split at h
        · rcases h with ⟨r', h⟩ | h
          · cases h
          · injection h with h; subst h; exact Or.inl hm
        · try simp only at h
          split at h
          · rcases h with ⟨r', h⟩ | h
            · injection h with h1 h2; subst h2
              exact Or.inl (mem_dropUpTo hm)
            · cases h
          · rcases h with ⟨r', h⟩ | h
            · injection h with h1 h2; subst h2; exact Or.inl hm
            · cases h
      · split at h
        · split at h
          · rcases h with ⟨r', h⟩ | h <;> cases h
          · split at h
            · rcases h with ⟨r', h⟩ | h
              · cases h
              · injection h with h; subst h; exact Or.inl hm
            · rcases h with ⟨r', h⟩ | h
              · injection h with h1 h2; subst h2; exact Or.inl hm
              · cases h
        · rcases h with ⟨r', h⟩ | h
          · injection h with h1 h2; subst h2; exact Or.inl hm
          · cases h

/-- the position after a continuing iteration is a suffix of the position before -/
theorem step_cont_suffix {fsz : Nat} {r r' : Bytes} {st st' : St}
    (h : step md5 fsz r st = .cont r' st') : ∃ pre, r = pre ++ r' := by
  unfold step at h
  cases r with
  | nil => cases h
  | cons b r1 =>
    simp only at h
    split at h
    · split at h
      · cases h
      · cases h
      · rename_i r'' hb
        split at h
        · cases h
        · injection h with h1 h2; subst h1
          unfold readTGData at hb
          split at hb; · cases hb
          simp only at hb
          split at hb
          · injection hb with hb; subst hb
            exact ⟨b :: r1.take tgLenBytes, by simp⟩
          split at hb; · cases hb
          split at hb; · cases hb
          split at hb; · cases hb
          split at hb; · cases hb
          split at hb
          · cases hb
          · injection hb with hb; subst hb
            exact ⟨b :: (r1.take tgLenBytes ++ ((r1.drop tgLenBytes).take (leDecodeInt (r1.take tgLenBytes)).toNat ++
              ((r1.drop tgLenBytes).drop (leDecodeInt (r1.take tgLenBytes)).toNat).take checkSumBytes)), by
              simp only [List.cons_append, List.append_assoc, List.take_append_drop]⟩
      · rename_i id' tg' r3 hok
        split at h
        · cases h
        · injection h with h1 h2; subst h1
          obtain ⟨lenb, ck, hr, _⟩ := readTGData_ok md5 hok
          exact ⟨b :: (lenb ++ (tg' ++ ck)), by rw [hr]; simp⟩
    · split at h
      · split at h
        · cases h
        · try simp only at h
          split at h <;> (injection h with h1 h2; subst h1; exact ⟨b :: r1.take txnInfoBytes, by simp⟩)
      · split at h
        · split at h
          · cases h
          · split at h
            · cases h
            · injection h with h1 h2; subst h1; exact ⟨b :: r1.take walStatusLenBytes, by simp⟩
        · injection h with h1 h2; subst h1; exact ⟨[b], by simp⟩

/-- invariant of the scan loop ⇒ safety of its result -/
theorem scanLoop_safe (f : Bytes) (fsz : Nat) : ∀ (n : Nat) (r : Bytes) (st st' : St),
    (∃ pre, f = pre ++ r) → (∀ id tg, (id, some tg) ∈ st.tgData → ValidRecordIn md5 f tg) →
    scanLoop md5 fsz n r st = .done st' →
    ∀ id tg, (id, some tg) ∈ st'.tgData → ValidRecordIn md5 f tg := by
  intro n
  induction n with
  | zero => intro r st st' _ _ h; cases h
  | succ n ih =>
    intro r st st' hpre hinv h id tg hm
    unfold scanLoop at h
    split at h
    · rename_i st1 hs
      injection h with h; subst h
      rcases step_tgData md5 (Or.inr hs) hm with h1 | ⟨lenb, r3, hr, hl, hd⟩
      · exact hinv id tg h1
      · obtain ⟨pre, hf⟩ := hpre
        exact ⟨pre, lenb, r3, by rw [hf, hr], hl, hd⟩
    · rename_i r1 st1 hs
      obtain ⟨pre, hf⟩ := hpre
      obtain ⟨p2, hr⟩ := step_cont_suffix md5 hs
      refine ih r1 st1 st' ⟨pre ++ p2, by rw [hf, hr, List.append_assoc]⟩ ?_ h id tg hm
      intro id2 tg2 hm2
      rcases step_tgData md5 (Or.inl ⟨r1, hs⟩) hm2 with h1 | ⟨lenb, r3, hr', hl, hd⟩
      · exact hinv id2 tg2 h1
      · exact ⟨pre, lenb, r3, by rw [hf, hr'], hl, hd⟩
    · cases h
    · cases h
    · cases h

/-! ### second pass -/

/-- the writes one group performs (in isolation) -/
def setsWrites (ex : Bytes → Bool) (root : Bytes) (sets : List WTSet) : List Write :=
  (applySets ex root sets []).2

theorem applySets_acc (ex : Bytes → Bool) (root : Bytes) : ∀ (sets : List WTSet) (acc : List Write),
    (applySets ex root sets acc).2 = acc ++ (applySets ex root sets []).2 := by
  intro sets
  induction sets with
  | nil => intro acc; simp [applySets]
  | cons w ws ih =>
    intro acc
    unfold applySets
    simp only
    split; · simp
    split
    · split; · simp
      split; · simp
      rw [ih (acc ++ _), ih ([] ++ _)]
      simp
    · split <;> simp

theorem mem_insertSorted {x a : Int × Bytes} {l : List (Int × Bytes)}
    (h : a ∈ insertSorted x l) : a = x ∨ a ∈ l := by
  induction l with
  | nil => simp [insertSorted] at h; exact Or.inl h
  | cons y ys ih =>
    unfold insertSorted at h
    split at h
    · rcases List.mem_cons.mp h with h | h
      · exact Or.inl h
      · exact Or.inr h
    · rcases List.mem_cons.mp h with h | h
      · exact Or.inr (by simp [h])
      · rcases ih h with h | h
        · exact Or.inl h
        · exact Or.inr (by simp [h])

theorem mem_pending {m : TGMap} {a : Int × Bytes} (h : a ∈ pending m) : (a.1, some a.2) ∈ m := by
  unfold pending at h
  generalize hl : m.filterMap (fun e => e.2.map (fun b => (e.1, b))) = l at h
  have hsub : ∀ b ∈ l, (b.1, some b.2) ∈ m := by
    intro b hb
    rw [← hl] at hb
    obtain ⟨e, he, hb⟩ := List.mem_filterMap.mp hb
    obtain ⟨k, v⟩ := e
    cases v with
    | none => simp at hb
    | some v => simp at hb; subst hb; exact he
  clear hl
  induction l with
  | nil => simp at h
  | cons x xs ih =>
    simp only [List.foldr_cons] at h
    rcases mem_insertSorted h with h | h
    · subst h; exact hsub _ (by simp)
    · exact ih h (fun b hb => hsub b (by simp [hb]))

theorem secondPass_writes (ex : Bytes → Bool) (root : Bytes) :
    ∀ (l : List (Int × Bytes)) (res : Result) (w : Write), w ∈ (secondPass ex root l res).writes →
      w ∈ res.writes ∨ ∃ a ∈ l, ∃ id sets, parseTGData a.2 = .ok (id, sets) ∧ w ∈ setsWrites ex root sets := by
  intro l
  induction l with
  | nil => intro res w h; exact Or.inl h
  | cons a rest ih =>
    intro res w h
    obtain ⟨aid, tg⟩ := a
    unfold secondPass at h
    split at h
    · exact Or.inl h
    · rename_i id sets hp
      have hacc := applySets_acc ex root sets res.writes
      split at h
      · rename_i c ws heq
        rcases ih _ w h with h1 | ⟨b, hb, hx⟩
        · simp only at h1
          have : ws = res.writes ++ (applySets ex root sets []).2 := by rw [← hacc, heq]
          rw [this] at h1
          rcases List.mem_append.mp h1 with h1 | h1
          · exact Or.inl h1
          · exact Or.inr ⟨(aid, tg), by simp, id, sets, hp, h1⟩
        · exact Or.inr ⟨b, by simp [hb], hx⟩
      · rename_i o c ws _ heq
        simp only at h
        have : ws = res.writes ++ (applySets ex root sets []).2 := by rw [← hacc, heq]
        rw [this] at h
        rcases List.mem_append.mp h with h1 | h1
        · exact Or.inl h1
        · exact Or.inr ⟨(aid, tg), by simp, id, sets, hp, h1⟩

end Mkts.WalReplay
