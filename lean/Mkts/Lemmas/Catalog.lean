import Mkts.Model.Catalog
/-! Helper lemmas for the catalog model (C17): association-list algebra (`find` after `set`,
`removeAll`, `load`), path prefixes, and the invariant used by the sequential theorem. -/
namespace Mkts.Catalog

/-! ## association lists -/

theorem find_set (p q : Path) (r : Rec) (d : Dir) :
    find q (set p r d) = if q = p then some r else find q d := by
  induction d with
  | nil => simp [set, find]; split <;> simp_all [eq_comm]
  | cons e rest ih =>
    obtain ⟨k, v⟩ := e
    by_cases hk : k = p
    · subst hk; simp [set, find]; split <;> simp_all [eq_comm]
    · simp [set, hk, find, ih]
      by_cases hq : k = q
      · subst hq; simp [hk]
      · simp [hq]

theorem find_filter_key (f : Path → Bool) (q : Path) (d : Dir) :
    find q (d.filter (fun e => f e.1)) = if f q then find q d else none := by
  induction d with
  | nil => simp [find]
  | cons e rest ih =>
    obtain ⟨k, v⟩ := e
    by_cases hf : f k
    · simp [hf, find, ih]
      by_cases hq : k = q
      · subst hq; simp [hf]
      · simp [hq]
    · simp [hf, find, ih]
      by_cases hq : k = q
      · subst hq; simp [hf]
      · simp [hq]

theorem find_removeAll (p q : Path) (d : Dir) :
    find q (removeAll p d) = if isPre p q then none else find q d := by
  unfold removeAll
  rw [find_filter_key (fun k => !(isPre p k)) q d]
  cases isPre p q <;> simp

theorem find_append (q : Path) (a b : Dir) :
    find q (a ++ b) = match find q a with | some r => some r | none => find q b := by
  induction a with
  | nil => simp [find]
  | cons e rest ih =>
    obtain ⟨k, v⟩ := e
    by_cases hq : k = q
    · simp [find, hq]
    · simp [find, hq, ih]

theorem find_filterMap_key (f : Path → Bool) (g : Path → Rec → Rec) (q : Path) (d : Dir) :
    find q (d.filterMap (fun e => if f e.1 then some (e.1, g e.1 e.2) else none))
      = if f q then (find q d).map (g q) else none := by
  induction d with
  | nil => simp [find]
  | cons e rest ih =>
    obtain ⟨k, v⟩ := e
    by_cases hf : f k
    · simp [hf, find, ih]
      by_cases hq : k = q
      · subst hq; simp [hf]
      · simp [hq]
    · simp [hf, find, ih]
      by_cases hq : k = q
      · subst hq; simp [hf]
      · simp [hq]

theorem find_load (q : Path) (d : Dir) :
    find q (load d) = if visible d q then (find q d).map (norm d q) else none := by
  unfold load
  exact find_filterMap_key (visible d) (norm d) q d

theorem find_isSome_iff_mem (q : Path) (d : Dir) : (find q d).isSome ↔ ∃ r, (q, r) ∈ d := by
  induction d with
  | nil => simp [find]
  | cons e rest ih =>
    obtain ⟨k, v⟩ := e
    by_cases hq : k = q
    · subst hq; simp [find]
    · simp [find, hq, ih]
      constructor
      · rintro ⟨r, hr⟩; exact ⟨r, Or.inr hr⟩
      · rintro ⟨r, hr | hr⟩
        · exact absurd hr.1.symm hq
        · exact ⟨r, hr⟩

/-! ## paths, visibility -/

theorem isPre_iff (p q : Path) : isPre p q = true ↔ ∃ t, q = p ++ t := by
  induction p generalizing q with
  | nil => simp [isPre]
  | cons a p ih =>
    cases q with
    | nil => simp [isPre]
    | cons b q =>
      simp only [isPre, Bool.and_eq_true, decide_eq_true_eq, ih, List.cons_append, List.cons.injEq]
      constructor
      · rintro ⟨rfl, t, rfl⟩; exact ⟨t, rfl, rfl⟩
      · rintro ⟨t, h1, h2⟩; exact ⟨h1.symm, t, h2⟩

theorem isPre_refl (p : Path) : isPre p p = true := (isPre_iff p p).2 ⟨[], by simp⟩

theorem isPre_append (p t : Path) : isPre p (p ++ t) = true := (isPre_iff p _).2 ⟨t, rfl⟩

theorem isPre_trans {p q r : Path} (h1 : isPre p q = true) (h2 : isPre q r = true) : isPre p r = true := by
  obtain ⟨t, rfl⟩ := (isPre_iff _ _).1 h1
  obtain ⟨u, rfl⟩ := (isPre_iff _ _).1 h2
  exact (isPre_iff _ _).2 ⟨t ++ u, by simp⟩

theorem isPre_take (q : Path) (k : Nat) : isPre (q.take k) q = true :=
  (isPre_iff _ _).2 ⟨q.drop k, (List.take_append_drop k q).symm⟩

theorem isPre_nil_right (p : Path) : isPre p [] = true ↔ p = [] := by
  cases p <;> simp [isPre]

theorem isPre_length {p q : Path} (h : isPre p q = true) : p.length ≤ q.length := by
  obtain ⟨t, rfl⟩ := (isPre_iff _ _).1 h; simp

/-- `visibleAux` only looks at the first `k-1` items -/
theorem visibleAux_iff (d : Dir) (p : Path) (k : Nat) :
    visibleAux d p k = true ↔ ∀ j, j < k → ∃ r, find (p.take j) d = some r ∧ r.cat.isSome = true := by
  induction k with
  | zero => simp [visibleAux]
  | succ k ih =>
    simp only [visibleAux, Bool.and_eq_true, ih]
    constructor
    · rintro ⟨h1, h2⟩ j hj
      by_cases hjk : j = k
      · subst hjk
        cases hf : find (p.take j) d with
        | none => simp [hf] at h1
        | some r => simp [hf] at h1; exact ⟨r, rfl, h1⟩
      · exact h2 j (by omega)
    · intro h
      refine ⟨?_, fun j hj => h j (by omega)⟩
      obtain ⟨r, hr, hc⟩ := h k (by omega)
      simp [hr, hc]

theorem visible_iff (d : Dir) (p : Path) :
    visible d p = true ↔ ∀ j, j < p.length → ∃ r, find (p.take j) d = some r ∧ r.cat.isSome = true :=
  visibleAux_iff d p p.length

theorem visible_nil (d : Dir) : visible d [] = true := by simp [visible, visibleAux]

theorem visible_snoc (d : Dir) (p : Path) (x : String) :
    visible d (p ++ [x]) = true ↔ visible d p = true ∧ ∃ r, find p d = some r ∧ r.cat.isSome = true := by
  rw [visible_iff, visible_iff]
  constructor
  · intro h
    refine ⟨fun j hj => ?_, ?_⟩
    · have := h j (by simp; omega)
      rwa [List.take_append_of_le_length (by omega)] at this
    · have := h p.length (by simp)
      simpa using this
  · rintro ⟨h1, h2⟩ j hj
    by_cases hjp : j < p.length
    · rw [List.take_append_of_le_length (by omega)]; exact h1 j hjp
    · have : j = p.length := by simp at hj; omega
      subst this; simpa using h2

/-- entries and categories only gained ⇒ visibility kept -/
theorem visible_mono {d d' : Dir}
    (h : ∀ a r, find a d = some r → r.cat.isSome = true → ∃ r', find a d' = some r' ∧ r'.cat.isSome = true)
    {q : Path} (hv : visible d q = true) : visible d' q = true := by
  rw [visible_iff] at hv ⊢
  intro j hj
  obtain ⟨r, hr, hc⟩ := hv j hj
  exact h _ r hr hc

/-! ## well-formed directory trees, the directory loop of `AddTimeBucket` -/

/-- benign directory tree: the root exists, every directory is reachable by `load` (all proper
    ancestors exist and have a `category_name`), a directory without `category_name` holds no
    year files, nothing lies deeper than three levels, year files lie at level three -/
structure WF (d : Dir) : Prop where
  root : (find [] d).isSome = true
  vis : ∀ p r, find p d = some r → visible d p = true
  cat : ∀ p r, find p d = some r → r.cat.isSome = true ∨ r.files = []
  depth : ∀ p r, find p d = some r → p.length ≤ 3
  leafFiles : ∀ p r, find p d = some r → r.files ≠ [] → p.length = 3

theorem find_mkdirIfMissing (p q : Path) (d : Dir) :
    find q (mkdirIfMissing p d) = if q = p ∧ find p d = none then some emptyRec else find q d := by
  unfold mkdirIfMissing
  cases hf : find p d with
  | none =>
    simp [find_set]
  | some r =>
    simp

theorem wcnf_spec {c : String} {p : Path} {d d2 : Dir} (h : writeCategoryNameFile c p d = some d2) :
    ∃ r, find p d = some r ∧ (r.cat = none ∨ r.cat = some c) ∧
      ∀ q, find q d2 = if q = p then some { r with cat := some c } else find q d := by
  unfold writeCategoryNameFile at h
  cases hf : find p d with
  | none => simp [hf] at h
  | some r =>
    simp only [hf] at h
    cases hc : r.cat with
    | none =>
      simp only [hc] at h
      injection h with h; subst h
      exact ⟨r, rfl, Or.inl hc, fun q => find_set p q _ d⟩
    | some c' =>
      simp only [hc] at h
      by_cases hcc : c' = c
      · subst hcc
        simp at h; subst h
        refine ⟨r, rfl, Or.inr hc, fun q => ?_⟩
        by_cases hq : q = p
        · subst hq; simp [hf]; cases r; simp_all
        · simp [hq]
      · simp [hcc] at h

structure LoopPost (pre : Path) (items cats : List String) (d d' : Dir) : Prop where
  frame : ∀ q, (∀ k, k ≤ items.length → q ≠ pre ++ items.take k) → find q d' = find q d
  old : ∀ q r, find q d = some r →
    ∃ r', find q d' = some r' ∧ r'.files = r.files ∧ (r.cat.isSome = true → r' = r)
  new : ∀ q r', find q d = none → find q d' = some r' →
    r'.files = [] ∧ ∃ k, k ≤ items.length ∧ q = pre ++ items.take k
  leaf : (find (pre ++ items) d').isSome = true
  vis : ∀ q r, find q d' = some r → visible d' q = true
  head : items ≠ [] → ∃ r c, find pre d = some r ∧ cats.head? = some c ∧
    (r.cat = none ∨ r.cat = some c) ∧ find pre d' = some { r with cat := some c }

theorem atbLoop_post (items : List String) : ∀ (pre : Path) (cats : List String) (d d' : Dir),
    (∀ q r, find q d = some r → visible d q = true) → (find pre d).isSome = true →
    atbLoop pre items cats d = (d', none) → LoopPost pre items cats d d' := by
  induction items with
  | nil =>
    intro pre cats d d' hvis hpre h
    simp [atbLoop] at h; subst h
    exact ⟨fun q _ => rfl, fun q r hr => ⟨r, hr, rfl, fun _ => rfl⟩,
      fun q r' h1 h2 => by simp [h1] at h2, by simpa using hpre, hvis, fun h => absurd rfl h⟩
  | cons item items ih =>
    intro pre cats d d' hvis hpre h
    cases cats with
    | nil => simp [atbLoop] at h
    | cons c cs =>
      simp only [atbLoop] at h
      cases hw : writeCategoryNameFile c pre (mkdirIfMissing (pre ++ [item]) d) with
      | none => simp [hw] at h
      | some d2 =>
        simp only [hw] at h
        obtain ⟨r0, hr0⟩ := Option.isSome_iff_exists.1 hpre
        have hne : pre ≠ pre ++ [item] := by
          intro e; have := congrArg List.length e; simp at this
        obtain ⟨r, hr, hrc, hd2⟩ := wcnf_spec hw
        have hr' : r = r0 := by
          rw [find_mkdirIfMissing] at hr
          simp [hne, hr0] at hr; exact hr.symm
        subst hr'
        -- find in d2
        have hfind2 : ∀ q, find q d2 = if q = pre then some { r with cat := some c }
            else if q = pre ++ [item] ∧ find (pre ++ [item]) d = none then some emptyRec else find q d := by
          intro q; rw [hd2 q, find_mkdirIfMissing]
        -- monotonicity d → d2
        have hmono : ∀ a ra, find a d = some ra → ra.cat.isSome = true →
            ∃ r', find a d2 = some r' ∧ r'.cat.isSome = true := by
          intro a ra ha hc
          rw [hfind2 a]
          by_cases h1 : a = pre
          · simp [h1]
          · simp only [h1, if_false]
            by_cases h2 : a = pre ++ [item] ∧ find (pre ++ [item]) d = none
            · rw [h2.1, h2.2] at ha; cases ha
            · simp only [h2, if_false]; exact ⟨ra, ha, hc⟩
        have hvpre : visible d2 pre = true := visible_mono hmono (hvis pre r hr0)
        have hpre2 : find pre d2 = some { r with cat := some c } := by rw [hfind2]; simp
        have hvsub : visible d2 (pre ++ [item]) = true :=
          (visible_snoc d2 pre item).2 ⟨hvpre, _, hpre2, rfl⟩
        have hvis2 : ∀ q rq, find q d2 = some rq → visible d2 q = true := by
          intro q rq hq
          by_cases h1 : q = pre
          · rw [h1]; exact hvpre
          · by_cases h2 : q = pre ++ [item]
            · rw [h2]; exact hvsub
            · rw [hfind2 q] at hq
              simp only [h1, if_false, h2, false_and] at hq
              exact visible_mono hmono (hvis q rq hq)
        have hsub2 : (find (pre ++ [item]) d2).isSome = true := by
          rw [hfind2]; simp only [hne.symm, if_false]
          cases hs : find (pre ++ [item]) d <;> simp
        have IH := ih (pre ++ [item]) cs d2 d' hvis2 hsub2 h
        have hchain : ∀ k, pre ++ [item] ++ items.take k = pre ++ (item :: items).take (k + 1) := by
          intro k; simp
        refine ⟨?_, ?_, ?_, ?_, IH.vis, ?_⟩
        · -- frame
          intro q hq
          have h0 : q ≠ pre := by simpa using hq 0 (by simp)
          have h1 : q ≠ pre ++ [item] := by simpa using hq 1 (by simp)
          rw [IH.frame q (fun k hk => by rw [hchain]; exact hq (k + 1) (by simp; omega)), hfind2 q]
          simp [h0, h1]
        · -- old
          intro q rq hq
          have : ∃ r2, find q d2 = some r2 ∧ r2.files = rq.files ∧ (rq.cat.isSome = true → r2 = rq) := by
            rw [hfind2 q]
            by_cases h1 : q = pre
            · subst h1
              rw [hr0] at hq; cases hq
              refine ⟨{ r with cat := some c }, by simp, rfl, fun hc => ?_⟩
              rcases hrc with hn | hs
              · rw [hn] at hc; cases hc
              · cases r; simp_all
            · simp only [h1, if_false]
              by_cases h2 : q = pre ++ [item] ∧ find (pre ++ [item]) d = none
              · rw [h2.1, h2.2] at hq; cases hq
              · simp only [h2, if_false]; exact ⟨rq, hq, rfl, fun _ => rfl⟩
          obtain ⟨r2, h2a, h2b, h2c⟩ := this
          obtain ⟨r', h3a, h3b, h3c⟩ := IH.old q r2 h2a
          refine ⟨r', h3a, h3b.trans h2b, fun hc => ?_⟩
          have := h2c hc; subst this
          exact h3c hc
        · -- new
          intro q r' hq hq'
          have h0 : q ≠ pre := by intro e; rw [e, hr0] at hq; cases hq
          by_cases h1 : q = pre ++ [item]
          · subst h1
            have h2 : find (pre ++ [item]) d2 = some emptyRec := by
              rw [hfind2]; simp [hne.symm, hq]
            obtain ⟨r'', h3a, h3b, _⟩ := IH.old _ _ h2
            rw [h3a] at hq'; cases hq'
            refine ⟨by simpa [emptyRec] using h3b, 1, ?_, ?_⟩
            · simp
            · simp
          · have h2 : find q d2 = none := by rw [hfind2]; simp [h0, h1, hq]
            obtain ⟨hf, k, hk, hqk⟩ := IH.new q r' h2 hq'
            exact ⟨hf, k + 1, by simp; omega, by rw [hqk, hchain]⟩
        · -- leaf
          have := IH.leaf; simpa using this
        · -- head
          intro _
          refine ⟨r, c, hr0, rfl, hrc, ?_⟩
          rw [IH.frame pre (fun k _ e => by
            have := congrArg List.length e; simp at this), hpre2]

/-! ## the invariant -/

theorem visible_congr {d d' : Dir} (h : ∀ q, find q d' = find q d) (p : Path) :
    visible d' p = visible d p := by
  have : ∀ b : Bool, (visible d' p = true ↔ visible d p = true) → visible d' p = visible d p := by
    intro _ hh; cases h1 : visible d' p <;> cases h2 : visible d p <;> simp_all
  apply this true
  rw [visible_iff, visible_iff]
  constructor <;> intro hv j hj <;> have := hv j hj
  · rwa [h] at this
  · rwa [h]

theorem WF_congr {d d' : Dir} (h : ∀ q, find q d' = find q d) (w : WF d) : WF d' where
  root := by rw [h]; exact w.root
  vis := fun p r hp => by rw [visible_congr h]; exact w.vis p r (by rwa [h] at hp)
  cat := fun p r hp => w.cat p r (by rwa [h] at hp)
  depth := fun p r hp => w.depth p r (by rwa [h] at hp)
  leafFiles := fun p r hp => w.leafFiles p r (by rwa [h] at hp)

theorem childNames_nil {d : Dir} (w : WF d) {p : Path} (hp : p.length = 3) : childNames d p = [] := by
  unfold childNames
  rw [List.map_eq_nil_iff, List.filter_eq_nil_iff]
  rintro ⟨q, r⟩ hm
  simp only [Bool.and_eq_true, decide_eq_true_eq, not_and]
  intro hl
  exfalso
  obtain ⟨r', hr'⟩ := Option.isSome_iff_exists.1 ((find_isSome_iff_mem q d).2 ⟨r, hm⟩)
  have := w.depth q r' hr'
  omega

theorem norm_of_wf {d : Dir} (w : WF d) {p : Path} {r : Rec} (h : find p d = some r) : norm d p r = r := by
  unfold norm
  by_cases hf : r.files = []
  · rcases w.cat p r h with hc | _
    · simp [hc, keepFiles, hf]; cases r; simp_all
    · cases r with
      | mk c f => cases c <;> simp_all [emptyRec, keepFiles]
  · have hc : r.cat.isSome = true := by
      rcases w.cat p r h with hc | hc
      · exact hc
      · exact absurd hc hf
    have hk : keepFiles d p r.files = r.files := by
      unfold keepFiles
      rw [childNames_nil w (w.leafFiles p r h hf)]
      simp
    simp [hc, hk]

theorem find_load_wf {d : Dir} (w : WF d) (q : Path) : find q (load d) = find q d := by
  rw [find_load]
  cases hf : find q d with
  | none => simp
  | some r => simp [w.vis q r hf, norm_of_wf w hf]

/-- the invariant of the sequential theorem -/
structure Inv (s : St) : Prop where
  same : ∀ p, find p s.tree = find p s.disk
  stale : s.stale = []
  wf : WF s.disk

theorem atbLoop_err (items : List String) : ∀ (pre : Path) (cats : List String) (d d' : Dir) (e : Res),
    atbLoop pre items cats d = (d', some e) → e = .panicIndex ∨ e = .catMismatch := by
  induction items with
  | nil => intro pre cats d d' e h; simp [atbLoop] at h
  | cons item items ih =>
    intro pre cats d d' e h
    cases cats with
    | nil => simp [atbLoop] at h; exact Or.inl h.2.symm
    | cons c cs =>
      simp only [atbLoop] at h
      cases hw : writeCategoryNameFile c pre (mkdirIfMissing (pre ++ [item]) d) with
      | none => simp [hw] at h; exact Or.inr h.2.symm
      | some d2 => simp only [hw] at h; exact ih _ _ _ _ _ h

theorem WF_initDisk : WF initDisk where
  root := by decide
  vis := by intro p r h; simp [initDisk, find] at h; rw [h.1]; exact visible_nil _
  cat := by intro p r h; simp [initDisk, find] at h; right; rw [← h.2]; rfl
  depth := by intro p r h; simp [initDisk, find] at h; rw [h.1]; simp
  leafFiles := by intro p r h hf; simp [initDisk, find] at h; rw [← h.2] at hf; exact absurd rfl hf

theorem Inv_init : Inv St.init where
  same := fun p => find_load_wf WF_initDisk p
  stale := rfl
  wf := WF_initDisk


/-- what the disk part of a non-failing `AddTimeBucket` does, given a well-formed disk -/
theorem atb_disk {items cats : List String} {d d1 d2 : Dir} (w : WF d) (h3 : items.length = 3)
    (hl : atbLoop [] items cats d = (d1, none)) (hy : writeCategoryNameFile "Year" items d1 = some d2) :
    ∃ rl, find items d2 = some rl ∧ rl.cat = some "Year" ∧
      (∀ q, q ≠ items → find q d2 = find q d1) ∧
      (∀ ro, find items d = some ro → rl.files = ro.files) ∧
      (find items d = none → rl.files = []) ∧
      WF d2 ∧ LoopPost [] items cats d d1 := by
  have P := atbLoop_post items [] cats d d1 w.vis w.root hl
  obtain ⟨rl, hrl, hrc, hd2⟩ := wcnf_spec hy
  have hne : items ≠ [] := by intro e; rw [e] at h3; simp at h3
  refine ⟨{ rl with cat := some "Year" }, by rw [hd2]; simp, rfl, fun q hq => by rw [hd2]; simp [hq],
    ?_, ?_, ?_, P⟩
  · intro ro hro
    obtain ⟨r', h1, h2, _⟩ := P.old items ro hro
    rw [hrl] at h1; cases h1; exact h2
  · intro hn
    exact (P.new items rl hn hrl).1
  · -- WF d2
    have hmono : ∀ a ra, find a d1 = some ra → ra.cat.isSome = true →
        ∃ r', find a d2 = some r' ∧ r'.cat.isSome = true := by
      intro a ra ha hc
      rw [hd2]
      by_cases h1 : a = items
      · simp [h1]
      · simp [h1]; exact ⟨ra, ha, hc⟩
    have hcat1 : ∀ p r, find p d1 = some r → r.cat.isSome = true ∨ r.files = [] := by
      intro p r hp
      cases hq : find p d with
      | none => exact Or.inr (P.new p r hq hp).1
      | some ro =>
        obtain ⟨r', h1, h2, h3'⟩ := P.old p ro hq
        rw [hp] at h1; cases h1
        rcases w.cat p ro hq with hc | hf
        · left; rw [h3' hc]; exact hc
        · right; rw [h2]; exact hf
    have hdepth1 : ∀ p r, find p d1 = some r → p.length ≤ 3 := by
      intro p r hp
      cases hq : find p d with
      | none =>
        obtain ⟨_, k, hk, hpk⟩ := P.new p r hq hp
        rw [hpk]; simp; omega
      | some ro => exact w.depth p ro hq
    have hleaf1 : ∀ p r, find p d1 = some r → r.files ≠ [] → p.length = 3 := by
      intro p r hp hf
      cases hq : find p d with
      | none => exact absurd (P.new p r hq hp).1 hf
      | some ro =>
        obtain ⟨r', h1, h2, _⟩ := P.old p ro hq
        rw [hp] at h1; cases h1
        exact w.leafFiles p ro hq (by rw [← h2]; exact hf)
    refine ⟨?_, ?_, ?_, ?_, ?_⟩
    · obtain ⟨r0, hr0⟩ := Option.isSome_iff_exists.1 w.root
      obtain ⟨r', h1, _⟩ := P.old [] r0 hr0
      rw [hd2]; simp [hne.symm, h1]
    · intro p r hp
      have : ∃ r1, find p d1 = some r1 := by
        rw [hd2] at hp
        by_cases h1 : p = items
        · rw [h1]; exact ⟨rl, hrl⟩
        · simp [h1] at hp; exact ⟨r, hp⟩
      obtain ⟨r1, hr1⟩ := this
      exact visible_mono hmono (P.vis p r1 hr1)
    · intro p r hp
      rw [hd2] at hp
      by_cases h1 : p = items
      · simp [h1] at hp; left; rw [← hp]; rfl
      · simp [h1] at hp; exact hcat1 p r hp
    · intro p r hp
      rw [hd2] at hp
      by_cases h1 : p = items
      · rw [h1]; omega
      · simp [h1] at hp; exact hdepth1 p r hp
    · intro p r hp hf
      rw [hd2] at hp
      by_cases h1 : p = items
      · rw [h1]; exact h3
      · simp [h1] at hp; exact hleaf1 p r hp hf


theorem isPre_singleton (s : String) (q : Path) : isPre [s] q = true ↔ ∃ t, q = s :: t := by
  rw [isPre_iff]; simp

/-- file already there: the disk is extensionally unchanged -/
theorem atb_exists_same {items cats : List String} {d d1 d2 : Dir} {y : Int} (w : WF d)
    (h3 : items.length = 3)
    (hl : atbLoop [] items cats d = (d1, none)) (hy : writeCategoryNameFile "Year" items d1 = some d2)
    (rl : Rec) (hrl : find items d2 = some rl) (hf : hasFile y rl = true) :
    ∀ q, find q d2 = find q d := by
  obtain ⟨rl', hrl', hcat, hoth, hold, hnew, w2, P⟩ := atb_disk w h3 hl hy
  rw [hrl] at hrl'; cases hrl'
  have hfne : rl.files ≠ [] := by
    intro e; simp [hasFile, e] at hf
  -- the leaf existed, with a category
  cases hq : find items d with
  | none => exact absurd (hnew hq) hfne
  | some ro =>
    have hfo := hold ro hq
    have hco : ro.cat.isSome = true := by
      rcases w.cat items ro hq with h | h
      · exact h
      · rw [h] at hfo; exact absurd hfo hfne
    -- all proper prefixes of the leaf have categories in d
    have hanc := (visible_iff d items).1 (w.vis items ro hq)
    intro q
    by_cases hqi : q = items
    · subst hqi
      rw [hrl, hq]
      obtain ⟨r1, h1, _, h1c⟩ := P.old q ro hq
      have h11 := h1c hco; subst h11
      -- d2's record is d1's with cat Year; d1's is ro with a category, which must be Year
      obtain ⟨r', hr', hrc, hd2⟩ := wcnf_spec hy
      rw [h1] at hr'; cases hr'
      have : find q d2 = some { r1 with cat := some "Year" } := by rw [hd2]; simp
      rw [hrl] at this; cases this
      rcases hrc with hn | hs
      · rw [hn] at hco; cases hco
      · cases r1; simp_all
    · rw [hoth q hqi]
      cases hqd : find q d with
      | some rq =>
        by_cases hch : ∃ k, k ≤ items.length ∧ q = [] ++ items.take k
        · obtain ⟨k, hk, hqk⟩ := hch
          have hk' : k < items.length := by
            rcases Nat.lt_or_eq_of_le hk with h | h
            · exact h
            · exfalso; apply hqi; rw [hqk, h]; simp
          obtain ⟨ra, hra, hrac⟩ := hanc k hk'
          have : q = items.take k := by simpa using hqk
          rw [this] at hqd ⊢
          have e : ra = rq := Option.some.inj (hra.symm.trans hqd)
          subst e
          obtain ⟨r1, h1, _, h1c⟩ := P.old _ ra hra
          rw [h1, h1c hrac]
        · rw [P.frame q (fun k hk e => hch ⟨k, hk, e⟩), hqd]
      | none =>
        cases hq1 : find q d1 with
        | none => rfl
        | some r1 =>
          exfalso
          obtain ⟨_, k, hk, hqk⟩ := P.new q r1 hqd hq1
          have hk' : k < items.length := by
            rcases Nat.lt_or_eq_of_le hk with h | h
            · exact h
            · exfalso; apply hqi; rw [hqk, h]; simp
          obtain ⟨ra, hra, _⟩ := hanc k hk'
          have : q = items.take k := by simpa using hqk
          rw [this, hra] at hqd; cases hqd


theorem find_subtree (s : String) (q : Path) (t : Dir) :
    find q (subtree s t) = if isPre [s] q then find q t else none := by
  unfold subtree
  exact find_filter_key (fun k => isPre [s] k) q t

/-- a bucket key has exactly three items: Symbol/Timeframe/AttributeGroup -/
def Key3 (items : List String) : Prop := items.length = 3

theorem addTimeBucketBody_inv {items cats : List String} {y : Int} {sch : Nat} {st st' : St} {res : Res}
    (I : Inv st) (h3 : items.length = 3) (h : addTimeBucketBody items cats y sch st = (st', res))
    (hres : res = .ok ∨ res = .exists_) : Inv st' := by
  unfold addTimeBucketBody at h
  cases hl : atbLoop [] items cats st.disk with
  | mk d1 oe =>
    cases oe with
    | some e =>
      simp only [hl] at h
      have := atbLoop_err _ _ _ _ _ _ hl
      have hr : res = e := by injection h with _ h2; exact h2.symm
      rcases this with h | h <;> rcases hres with h' | h' <;> simp_all
    | none =>
      simp only [hl] at h
      cases hy : writeCategoryNameFile "Year" items d1 with
      | none =>
        simp only [hy] at h
        have hr : res = .catMismatch := by injection h with _ h2; exact h2.symm
        rcases hres with h' | h' <;> simp_all
      | some d2 =>
        simp only [hy] at h
        obtain ⟨rl, hrl, hcat, hoth, hold, hnew, w2, P⟩ := atb_disk I.wf h3 hl hy
        cases hc : createFile items y sch d2 with
        | none =>
          simp only [hc] at h
          injection h with h1 _; subst h1
          have hf : hasFile y rl = true := by
            unfold createFile at hc; simp only [hrl] at hc
            by_cases hh : hasFile y rl = true
            · exact hh
            · simp [hh] at hc
          have hsame := atb_exists_same I.wf h3 hl hy rl hrl hf
          exact ⟨fun p => by rw [I.same p]; exact (hsame p).symm, I.stale, WF_congr hsame I.wf⟩
        | some d3 =>
          simp only [hc] at h
          have hd3 : ∀ q, find q d3 = if q = items then some { rl with files := rl.files ++ [(y, sch)] }
              else find q d2 := by
            unfold createFile at hc; simp only [hrl] at hc
            by_cases hh : hasFile y rl = true
            · simp [hh] at hc
            · simp [hh] at hc; subst hc; intro q; exact find_set items q _ d2
          have hne : items ≠ [] := by intro e; rw [e] at h3; simp at h3
          -- WF d3
          have hmono : ∀ a ra, find a d2 = some ra → ra.cat.isSome = true →
              ∃ r', find a d3 = some r' ∧ r'.cat.isSome = true := by
            intro a ra ha hcc
            rw [hd3]
            by_cases h1 : a = items
            · subst h1; rw [hrl] at ha; cases ha; simp [hcat]
            · simp [h1]; exact ⟨ra, ha, hcc⟩
          have w3 : WF d3 := by
            refine ⟨?_, ?_, ?_, ?_, ?_⟩
            · rw [hd3]; simp [hne.symm]; exact w2.root
            · intro p r hp
              have : ∃ r2, find p d2 = some r2 := by
                rw [hd3] at hp
                by_cases h1 : p = items
                · rw [h1]; exact ⟨rl, hrl⟩
                · simp [h1] at hp; exact ⟨r, hp⟩
              obtain ⟨r2, hr2⟩ := this
              exact visible_mono hmono (w2.vis p r2 hr2)
            · intro p r hp
              rw [hd3] at hp
              by_cases h1 : p = items
              · simp [h1] at hp; left; rw [← hp]; simp [hcat]
              · simp [h1] at hp; exact w2.cat p r hp
            · intro p r hp
              rw [hd3] at hp
              by_cases h1 : p = items
              · rw [h1]; omega
              · simp [h1] at hp; exact w2.depth p r hp
            · intro p r hp hf
              rw [hd3] at hp
              by_cases h1 : p = items
              · rw [h1]; exact h3
              · simp [h1] at hp; exact w2.leafFiles p r hp hf
          cases items with
          | nil => exact absurd rfl hne
          | cons s rest =>
            cases cats with
            | nil => simp [atbLoop] at hl
            | cons c0 cs =>
              simp only at h
              injection h with h1 _; subst h1
              obtain ⟨r0, c, hr0, hc0, hr0c, hroot1⟩ := P.head (by simp)
              have hcc : c = c0 := by simpa using hc0.symm
              subst hcc
              have hroot3 : find [] d3 = some { r0 with cat := some c } := by
                rw [hd3]; simp; rw [hoth [] (by simp)]; exact hroot1
              refine ⟨fun p => ?_, by simp [reloadSymbol, I.stale], w3⟩
              simp only [reloadSymbol]
              rw [find_append, find_set, find_removeAll, find_subtree, find_load_wf w3]
              by_cases hp0 : p = []
              · subst hp0
                simp only [if_true]
                rw [hroot3, I.same [], hr0]
                rcases hr0c with hn | hs
                · simp [hn]
                · cases r0; simp_all
              · simp only [hp0, if_false]
                by_cases hps : isPre [s] p = true
                · simp [hps]
                · have hps' : isPre [s] p = false := by simpa using hps
                  simp only [hps', if_false, Bool.false_eq_true]
                  have hpi : p ≠ s :: rest := by
                    intro e; rw [e] at hps; exact hps (isPre_append [s] rest)
                  have hfr : find p d3 = find p st.disk := by
                    rw [hd3]; simp only [hpi, if_false]
                    rw [hoth p hpi]
                    apply P.frame
                    intro k hk e
                    cases k with
                    | zero => simp at e; exact hp0 e
                    | succ k =>
                      simp at e
                      apply hps; rw [e]; simp [isPre]
                  rw [I.same p, ← hfr]
                  cases find p d3 <;> rfl


/-! ## the read-only pass of the repaired `AddTimeBucket` -/

/-- at or below `p`, every directory of `d` is either unchanged from `d0` or has no category yet -/
def FreshBelow (p : Path) (d0 d : Dir) : Prop :=
  ∀ q r, isPre p q = true → find q d = some r → r.cat = none ∨ find q d0 = some r

theorem wcnf_ok_of_check {c : String} {p : Path} {d0 d : Dir} {r : Rec}
    (hc : checkCategoryNameFile c p d0 = true) (hr : find p d = some r)
    (hf : r.cat = none ∨ find p d0 = some r) :
    ∃ d2, writeCategoryNameFile c p d = some d2 := by
  unfold writeCategoryNameFile
  simp only [hr]
  cases hcat : r.cat with
  | none => exact ⟨_, rfl⟩
  | some c' =>
    rcases hf with h | h
    · rw [hcat] at h; cases h
    · unfold checkCategoryNameFile at hc
      simp only [h, hcat] at hc
      have : c' = c := by simpa using hc
      subst this
      exact ⟨d, by simp⟩

/-- a key accepted by the read-only pass goes through the directory loop and the `Year` check -/
theorem atbLoop_ok_of_validate (items : List String) : ∀ (pre : Path) (cats : List String) (d0 d : Dir),
    validateKey pre items cats d0 = none → (find pre d).isSome = true → FreshBelow pre d0 d →
    ∃ d1 d2, atbLoop pre items cats d = (d1, none) ∧
      writeCategoryNameFile "Year" (pre ++ items) d1 = some d2 := by
  induction items with
  | nil =>
    intro pre cats d0 d hv hpre hfb
    obtain ⟨r, hr⟩ := Option.isSome_iff_exists.1 hpre
    have hc : checkCategoryNameFile "Year" pre d0 = true := by
      simp only [validateKey] at hv
      by_cases h : checkCategoryNameFile "Year" pre d0 = true
      · exact h
      · simp [h] at hv
    obtain ⟨d2, h2⟩ := wcnf_ok_of_check hc hr (hfb pre r (isPre_refl pre) hr)
    exact ⟨d, d2, by simp [atbLoop], by simpa using h2⟩
  | cons item items ih =>
    intro pre cats d0 d hv hpre hfb
    cases cats with
    | nil => simp [validateKey] at hv
    | cons c cs =>
      simp only [validateKey] at hv
      have hc : checkCategoryNameFile c pre d0 = true := by
        by_cases h : checkCategoryNameFile c pre d0 = true
        · exact h
        · simp [h] at hv
      simp only [hc, if_true] at hv
      obtain ⟨r, hr⟩ := Option.isSome_iff_exists.1 hpre
      have hne : pre ≠ pre ++ [item] := by
        intro e; have := congrArg List.length e; simp at this
      have hr1 : find pre (mkdirIfMissing (pre ++ [item]) d) = some r := by
        rw [find_mkdirIfMissing]; simp [hne, hr]
      obtain ⟨d2, hw⟩ := wcnf_ok_of_check hc hr1 (hfb pre r (isPre_refl pre) hr)
      obtain ⟨r', hr', _, hd2⟩ := wcnf_spec hw
      have hsub2 : (find (pre ++ [item]) d2).isSome = true := by
        rw [hd2, find_mkdirIfMissing]; simp only [hne.symm, if_false]
        cases hs : find (pre ++ [item]) d <;> simp
      have hfb2 : FreshBelow (pre ++ [item]) d0 d2 := by
        intro q rq hq hfq
        have hqp : q ≠ pre := by
          intro e; rw [e] at hq
          have := isPre_length hq; simp at this; omega
        rw [hd2, find_mkdirIfMissing] at hfq
        simp only [hqp, if_false] at hfq
        by_cases hnew : q = pre ++ [item] ∧ find (pre ++ [item]) d = none
        · simp only [hnew, and_self, if_true] at hfq
          injection hfq with hfq; left; rw [← hfq]; rfl
        · simp only [hnew, if_false] at hfq
          exact hfb q rq (isPre_trans (isPre_append pre [item]) hq) hfq
      obtain ⟨d1', d2', h1, h2⟩ := ih (pre ++ [item]) cs d0 d2 hv hsub2 hfb2
      refine ⟨d1', d2', ?_, by simpa using h2⟩
      simp only [atbLoop, hw]
      exact h1

theorem addTimeBucketBody_res_of_validate {items cats : List String} {y : Int} {sch : Nat} {st st' : St} {res : Res}
    (hw : WF st.disk) (h3 : items.length = 3) (hl : cats.length = items.length)
    (hv : validateKey [] items cats st.disk = none)
    (h : addTimeBucketBody items cats y sch st = (st', res)) : res = .ok ∨ res = .exists_ := by
  obtain ⟨d1, d2, h1, h2⟩ := atbLoop_ok_of_validate items [] cats st.disk st.disk hv hw.root
    (fun q r _ hq => Or.inr hq)
  unfold addTimeBucketBody at h
  simp only [h1] at h
  have h2' : writeCategoryNameFile "Year" items d1 = some d2 := by simpa using h2
  simp only [h2'] at h
  cases hc : createFile items y sch d2 with
  | none => simp only [hc] at h; injection h with _ h; exact Or.inr h.symm
  | some d3 =>
    simp only [hc] at h
    match items, cats, h3, hl with
    | s :: _, c0 :: _, _, _ => simp only at h; injection h with _ h; exact Or.inl h.symm
    | _ :: _, [], _, hl => simp at hl

theorem addTimeBucket_inv {v : Variant} {items cats : List String} {y : Int} {sch : Nat} {st st' : St} {res : Res}
    (I : Inv st) (hv : v.checkFirst = true) (h3 : items.length = 3)
    (h : addTimeBucket v items cats y sch st = (st', res)) : Inv st' := by
  unfold addTimeBucket at h
  simp only [hv, if_true] at h
  by_cases hl : cats.length ≠ items.length
  · rw [if_pos hl] at h; injection h with h _; rw [← h]; exact I
  · rw [if_neg hl] at h
    have hl' : cats.length = items.length := by simpa using hl
    cases hval : validateKey [] items cats st.disk with
    | some e => simp only [hval] at h; injection h with h _; rw [← h]; exact I
    | none =>
      simp only [hval] at h
      exact addTimeBucketBody_inv I h3 h (addTimeBucketBody_res_of_validate I.wf h3 hl' hval h)


/-! ## `RemoveTimeBucket` -/

theorem hasSubDirs_iff (p : Path) (t : Dir) :
    hasSubDirs p t = true ↔ ∃ q, q.length = p.length + 1 ∧ isPre p q = true ∧ (find q t).isSome = true := by
  unfold hasSubDirs
  rw [List.any_eq_true]
  constructor
  · rintro ⟨⟨q, r⟩, hm, hc⟩
    simp at hc
    exact ⟨q, hc.1, hc.2, (find_isSome_iff_mem q t).2 ⟨r, hm⟩⟩
  · rintro ⟨q, h1, h2, h3⟩
    obtain ⟨r, hm⟩ := (find_isSome_iff_mem q t).1 h3
    exact ⟨(q, r), hm, by simp [h1, h2]⟩

theorem removeAll_idem (p : Path) (d : Dir) : removeAll p (removeAll p d) = removeAll p d := by
  unfold removeAll; rw [List.filter_filter]; simp

theorem WF_removeAll {d : Dir} (w : WF d) {p : Path} (hp : p ≠ []) : WF (removeAll p d) where
  root := by
    rw [find_removeAll]
    have : isPre p [] = false := by cases p <;> simp_all [isPre]
    simp [this]; exact w.root
  vis := by
    intro q r hq
    rw [find_removeAll] at hq
    by_cases hpq : isPre p q = true
    · simp [hpq] at hq
    · simp [hpq] at hq
      have hv := (visible_iff d q).1 (w.vis q r hq)
      rw [visible_iff]
      intro j hj
      obtain ⟨ra, hra, hc⟩ := hv j hj
      refine ⟨ra, ?_, hc⟩
      rw [find_removeAll]
      have : isPre p (q.take j) = false := by
        cases h : isPre p (q.take j) with
        | false => rfl
        | true => exact absurd (isPre_trans h (isPre_take q j)) hpq
      simp [this, hra]
  cat := by
    intro q r hq
    rw [find_removeAll] at hq
    by_cases hpq : isPre p q = true
    · simp [hpq] at hq
    · simp [hpq] at hq; exact w.cat q r hq
  depth := by
    intro q r hq
    rw [find_removeAll] at hq
    by_cases hpq : isPre p q = true
    · simp [hpq] at hq
    · simp [hpq] at hq; exact w.depth q r hq
  leafFiles := by
    intro q r hq hf
    rw [find_removeAll] at hq
    by_cases hpq : isPre p q = true
    · simp [hpq] at hq
    · simp [hpq] at hq; exact w.leafFiles q r hq hf

theorem Inv_rmBoth {st : St} (I : Inv st) {p : Path} (hp : p ≠ []) :
    Inv ⟨removeAll p st.tree, [], removeAll p st.disk⟩ where
  same := fun q => by simp only [find_removeAll, I.same]
  stale := rfl
  wf := WF_removeAll I.wf hp


theorem removeSubDir_deep_eq {st : St} {p : Path} (hs : st.stale = []) :
    removeSubDir true p st = ⟨removeAll p st.tree, [], st.disk⟩ := by
  simp [removeSubDir, hs]

theorem walkOK_find (t : Dir) (items : Path) : ∀ n, walkOK t items n = true →
    ∀ k, k < n → (find (items.take (k + 1)) t).isSome = true := by
  intro n
  induction n with
  | zero => intro _ k hk; omega
  | succ n ih =>
    intro h k hk
    simp only [walkOK, Bool.and_eq_true] at h
    by_cases hkn : k = n
    · subst hkn; exact h.1
    · exact ih h.2 k (by omega)

theorem rtb1 (a : String) (st : St) :
    rtbLoop true [a] 1 false st =
      (let s1 := removeDirFiles [a] st
       if hasSubDirs [a] s1.tree then (s1, true) else (removeDirFiles [a] s1, true)) := by
  simp only [rtbLoop, List.length_cons, List.length_nil, List.take]
  simp

theorem rtb2 (a b : String) (st : St) :
    rtbLoop true [a, b] 2 false st =
      (let s1 := removeDirFiles [a, b] st
       let s2 := if hasSubDirs [a, b] s1.tree then s1 else removeDirFiles [a, b] s1
       let s3 := removeSubDir true [a, b] s2
       if hasSubDirs [a] s3.tree then (s3, false) else (removeDirFiles [a] s3, true)) := by
  simp only [rtbLoop, List.length_cons, List.length_nil, List.take]
  simp
  split <;> simp_all

theorem rtb3 (a b c : String) (st : St) :
    rtbLoop true [a, b, c] 3 false st =
      (let s1 := removeDirFiles [a, b, c] st
       let s2 := if hasSubDirs [a, b, c] s1.tree then s1 else removeDirFiles [a, b, c] s1
       let s3 := removeSubDir true [a, b, c] s2
       let r4 : St × Bool := if hasSubDirs [a, b] s3.tree then (s3, false) else (removeDirFiles [a, b] s3, true)
       let r5 : St × Bool := if r4.2 then (removeSubDir true [a, b] r4.1, false) else (r4.1, false)
       if hasSubDirs [a] r5.1.tree then r5 else (removeDirFiles [a] r5.1, true)) := by
  simp only [rtbLoop, List.length_cons, List.length_nil, List.take]
  simp
  split <;> split <;> simp_all

/-- remove `p` from disk (possibly twice) and then from the catalog: the invariant is kept -/
theorem Inv_destroy_level {st : St} (I : Inv st) {p : Path} (hp : p ≠ []) (twice : Bool) :
    Inv (removeSubDir true p (if twice then removeDirFiles p (removeDirFiles p st) else removeDirFiles p st)) := by
  have e : (if twice then removeDirFiles p (removeDirFiles p st) else removeDirFiles p st) = removeDirFiles p st := by
    cases twice <;> simp [removeDirFiles, removeAll_idem]
  rw [e, removeSubDir_deep_eq (st := removeDirFiles p st) I.stale]
  exact Inv_rmBoth I hp


theorem rmBoth_eq {st : St} (hs : st.stale = []) (p : Path) :
    removeSubDir true p (removeDirFiles p st) = ⟨removeAll p st.tree, [], removeAll p st.disk⟩ :=
  removeSubDir_deep_eq (st := removeDirFiles p st) hs

theorem removeTimeBucket_inv {items : List String} {st st' : St} {res : Res}
    (I : Inv st) (h : removeTimeBucket true items st = (st', res)) : Inv st' := by
  unfold removeTimeBucket at h
  by_cases he : items.isEmpty = true
  · simp only [he, if_true] at h; injection h with h _; rw [← h]; exact I
  · simp only [he, Bool.false_eq_true, if_false] at h
    by_cases hw : walkOK st.tree items items.length = true
    · simp only [hw, Bool.not_true, Bool.false_eq_true, if_false] at h
      have hfind := walkOK_find st.tree items items.length hw
      match items, he, hfind with
      | [a], _, _ =>
        simp only [List.length_cons, List.length_nil, Nat.zero_add] at h
        rw [rtb1] at h
        simp only [List.take] at h
        have I1 : Inv ⟨removeAll [a] st.tree, [], removeAll [a] st.disk⟩ := Inv_rmBoth I (by simp)
        have e1 : removeSubDir true [a] (removeDirFiles [a] (removeDirFiles [a] st))
            = ⟨removeAll [a] st.tree, [], removeAll [a] st.disk⟩ := by
          have : removeDirFiles [a] (removeDirFiles [a] st) = removeDirFiles [a] st := by
            simp [removeDirFiles, removeAll_idem]
          rw [this]; exact rmBoth_eq I.stale [a]
        have e2 : removeSubDir true [a] (removeDirFiles [a] (removeDirFiles [a] (removeDirFiles [a] st)))
            = ⟨removeAll [a] st.tree, [], removeAll [a] st.disk⟩ := by
          have : removeDirFiles [a] (removeDirFiles [a] (removeDirFiles [a] st)) = removeDirFiles [a] st := by
            simp [removeDirFiles, removeAll_idem]
          rw [this]; exact rmBoth_eq I.stale [a]
        split at h <;> simp only [if_true, e1, e2] at h <;> (injection h with h _; rw [← h]; exact I1)
      | [a, b], _, hfind =>
        simp only [List.length_cons, List.length_nil, Nat.zero_add, Nat.reduceAdd] at h
        rw [rtb2] at h
        have e2 : (if hasSubDirs [a, b] (removeDirFiles [a, b] st).tree then removeDirFiles [a, b] st
            else removeDirFiles [a, b] (removeDirFiles [a, b] st)) = removeDirFiles [a, b] st := by
          split
          · rfl
          · simp [removeDirFiles, removeAll_idem]
        obtain ⟨s3, hs3⟩ : ∃ s3 : St, s3 = ⟨removeAll [a, b] st.tree, [], removeAll [a, b] st.disk⟩ := ⟨_, rfl⟩
        have e3 : removeSubDir true [a, b] (removeDirFiles [a, b] st) = s3 := by
          rw [hs3]; exact rmBoth_eq I.stale [a, b]
        have I3 : Inv s3 := by rw [hs3]; exact Inv_rmBoth I (by simp)
        clear hs3
        simp only [e2, e3, List.take] at h
        by_cases h4 : hasSubDirs [a] s3.tree = true
        · simp [h4] at h; rw [← h.1]; exact I3
        · have h4' : hasSubDirs [a] s3.tree = false := by simpa using h4
          simp only [h4', Bool.false_eq_true, if_false, if_true] at h
          have e5 : removeSubDir true [a] (removeDirFiles [a] (removeDirFiles [a] s3))
              = ⟨removeAll [a] s3.tree, [], removeAll [a] s3.disk⟩ := by
            have : removeDirFiles [a] (removeDirFiles [a] s3) = removeDirFiles [a] s3 := by
              simp [removeDirFiles, removeAll_idem]
            rw [this]; exact rmBoth_eq I3.stale [a]
          rw [e5] at h
          injection h with h _; rw [← h]; exact Inv_rmBoth I3 (by simp)
      | [a, b, c], _, hfind =>
        have hab : (find [a, b] st.tree).isSome = true := by simpa using hfind 1 (by simp)
        simp only [List.length_cons, List.length_nil, Nat.zero_add, Nat.reduceAdd] at h
        rw [rtb3] at h
        have e2 : (if hasSubDirs [a, b, c] (removeDirFiles [a, b, c] st).tree then removeDirFiles [a, b, c] st
            else removeDirFiles [a, b, c] (removeDirFiles [a, b, c] st)) = removeDirFiles [a, b, c] st := by
          split
          · rfl
          · simp [removeDirFiles, removeAll_idem]
        obtain ⟨s3, hs3⟩ : ∃ s3 : St, s3 = ⟨removeAll [a, b, c] st.tree, [], removeAll [a, b, c] st.disk⟩ :=
          ⟨_, rfl⟩
        have e3 : removeSubDir true [a, b, c] (removeDirFiles [a, b, c] st) = s3 := by
          rw [hs3]; exact rmBoth_eq I.stale [a, b, c]
        have I3 : Inv s3 := by rw [hs3]; exact Inv_rmBoth I (by simp)
        simp only [e2, e3] at h
        have hab3 : (find [a, b] s3.tree).isSome = true := by
          rw [hs3]; simp only; rw [find_removeAll]; simpa [isPre] using hab
        clear hs3
        by_cases h4 : hasSubDirs [a, b] s3.tree = true
        · have h1 : hasSubDirs [a] s3.tree = true :=
            (hasSubDirs_iff _ _).2 ⟨[a, b], rfl, by simp [isPre], hab3⟩
          simp [h4, h1] at h
          rw [← h.1]; exact I3
        · have h4' : hasSubDirs [a, b] s3.tree = false := by simpa using h4
          obtain ⟨s5, hs5⟩ : ∃ s5 : St, s5 = ⟨removeAll [a, b] s3.tree, [], removeAll [a, b] s3.disk⟩ := ⟨_, rfl⟩
          have e5 : removeSubDir true [a, b] (removeDirFiles [a, b] s3) = s5 := by
            rw [hs5]; exact rmBoth_eq I3.stale [a, b]
          have I5 : Inv s5 := by rw [hs5]; exact Inv_rmBoth I3 (by simp)
          clear hs5
          simp only [h4', Bool.false_eq_true, if_false, if_true, e5] at h
          by_cases h6 : hasSubDirs [a] s5.tree = true
          · simp [h6] at h
            rw [← h.1]; exact I5
          · have h6' : hasSubDirs [a] s5.tree = false := by simpa using h6
            simp only [h6', Bool.false_eq_true, if_false, if_true, List.take] at h
            have e7 : removeSubDir true [a] (removeDirFiles [a] (removeDirFiles [a] s5))
                = ⟨removeAll [a] s5.tree, [], removeAll [a] s5.disk⟩ := by
              have : removeDirFiles [a] (removeDirFiles [a] s5) = removeDirFiles [a] s5 := by
                simp [removeDirFiles, removeAll_idem]
              rw [this]; exact rmBoth_eq I5.stale [a]
            rw [e7] at h
            injection h with h1 _
            rw [← h1]; exact Inv_rmBoth I5 (by simp)
      | a :: b :: c :: e :: rest, _, hfind =>
        exfalso
        have h4 := hfind 3 (by simp)
        obtain ⟨r, hr⟩ := Option.isSome_iff_exists.1 h4
        rw [I.same] at hr
        have := I.wf.depth _ r hr
        simp at this
    · simp [hw] at h
      rw [← h.1]; exact I


/-! ## writes, creates, histories -/

theorem WF_set_files {d : Dir} (w : WF d) {p : Path} {r r' : Rec} (hp : find p d = some r)
    (hc : r'.cat = r.cat) (hs : r.cat.isSome = true) (hl : p.length = 3) : WF (set p r' d) where
  root := by
    rw [find_set]; split
    · rfl
    · exact w.root
  vis := by
    intro q rq hq
    have : ∃ r1, find q d = some r1 := by
      rw [find_set] at hq
      by_cases h1 : q = p
      · rw [h1]; exact ⟨r, hp⟩
      · simp [h1] at hq; exact ⟨rq, hq⟩
    obtain ⟨r1, hr1⟩ := this
    refine visible_mono ?_ (w.vis q r1 hr1)
    intro a ra ha hca
    rw [find_set]
    by_cases h1 : a = p
    · simp [h1, hc, hs]
    · simp [h1]; exact ⟨ra, ha, hca⟩
  cat := by
    intro q rq hq
    rw [find_set] at hq
    by_cases h1 : q = p
    · simp [h1] at hq; left; rw [← hq, hc]; exact hs
    · simp [h1] at hq; exact w.cat q rq hq
  depth := by
    intro q rq hq
    rw [find_set] at hq
    by_cases h1 : q = p
    · rw [h1]; exact w.depth p r hp
    · simp [h1] at hq; exact w.depth q rq hq
  leafFiles := by
    intro q rq hq hf
    rw [find_set] at hq
    by_cases h1 : q = p
    · rw [h1]; exact hl
    · simp [h1] at hq; exact w.leafFiles q rq hq hf

theorem addFile_inv {p : Path} {y : Int} {st st' : St} {res : Res}
    (I : Inv st) (h : addFile p y st = (st', res)) : Inv st' := by
  unfold addFile at h
  cases hl : dlookup st p with
  | none => simp [hl] at h; rw [← h.1]; exact I
  | some r =>
    simp only [hl] at h
    have hpt : find p st.tree = some r ∧ r.files.isEmpty = false := by
      unfold dlookup at hl
      simp only [I.stale, find] at hl
      cases ht : find p st.tree with
      | none => simp [ht] at hl
      | some r1 =>
        simp only [ht] at hl
        by_cases he : r1.files.isEmpty = true
        · simp [he] at hl
        · simp [he] at hl; subst hl; exact ⟨rfl, by simpa using he⟩
    cases hf : r.files with
    | nil => simp [hf] at hpt
    | cons tmpl rest =>
      simp only [hf] at h
      have hpd : find p st.disk = some r := by rw [← I.same]; exact hpt.1
      cases hc : createFile p y tmpl.2 st.disk with
      | none =>
        simp only [hc] at h
        split at h <;> (injection h with h1 _; rw [← h1]; exact I)
      | some d' =>
        simp only [hc] at h
        unfold createFile at hc
        simp only [hpd] at hc
        by_cases hh : hasFile y r = true
        · simp [hh] at hc
        · simp [hh] at hc
          subst hc
          have hstale : (find p st.stale).isSome = false := by rw [I.stale]; rfl
          simp only [dstore, hstale, Bool.false_eq_true, if_false] at h
          injection h with h1 _
          rw [← h1]
          have hcs : r.cat.isSome = true := by
            rcases I.wf.cat p r hpd with hcc | hff
            · exact hcc
            · rw [hff] at hf; cases hf
          refine ⟨fun q => ?_, I.stale, ?_⟩
          · simp only [find_set, I.same, hf]
          · exact WF_set_files I.wf hpd rfl hcs (I.wf.leafFiles p r hpd (by rw [hf]; simp))

theorem writeYears_inv (p : Path) (years : List Int) : ∀ (cur : Int) (st st' : St) (res : Res),
    Inv st → writeYears p cur years st = (st', res) → Inv st' := by
  induction years with
  | nil => intro cur st st' res I h; simp [writeYears] at h; rw [← h.1]; exact I
  | cons y ys ih =>
    intro cur st st' res I h
    simp only [writeYears] at h
    by_cases hy : y = cur
    · simp only [hy, if_true] at h; exact ih _ _ _ _ I h
    · simp only [hy, if_false] at h
      cases ha : addFile p y st with
      | mk st1 r1 =>
        have I1 := addFile_inv I ha
        simp only [ha] at h
        cases r1 <;> simp only at h
        · exact ih _ _ _ _ I1 h
        all_goals (injection h with h1 _; rw [← h1]; exact I1)

theorem addTimeBucketBody_res {items cats : List String} {y : Int} {sch : Nat} {st st' : St} {res : Res}
    (h : addTimeBucketBody items cats y sch st = (st', res)) :
    res = .ok ∨ res = .exists_ ∨ res = .catMismatch ∨ res = .panicIndex := by
  unfold addTimeBucketBody at h
  cases hl : atbLoop [] items cats st.disk with
  | mk d1 oe =>
    cases oe with
    | some e =>
      simp only [hl] at h
      have := atbLoop_err _ _ _ _ _ _ hl
      injection h with _ h2; subst h2
      rcases this with h | h <;> simp [h]
    | none =>
      simp only [hl] at h
      cases hy : writeCategoryNameFile "Year" items d1 with
      | none => simp only [hy] at h; injection h with _ h2; subst h2; simp
      | some d2 =>
        simp only [hy] at h
        cases hc : createFile items y sch d2 with
        | none => simp only [hc] at h; injection h with _ h2; subst h2; simp
        | some d3 =>
          simp only [hc] at h
          split at h <;> (injection h with _ h2; subst h2; simp)

theorem restart_inv {st : St} (I : Inv st) : Inv (restart st) where
  same := fun p => find_load_wf I.wf p
  stale := rfl
  wf := I.wf


theorem create_inv {v : Variant} {items cats : List String} {now : Int} {sch : Nat} {st st' : St} {res : Res}
    (I : Inv st) (hv : v.checkFirst = true) (h3 : items.length = 3)
    (h : create v items cats now sch st = (st', res)) : Inv st' := by
  unfold create at h
  cases hg : getTimeFrame items cats <;> simp only [hg] at h
  case ok => exact addTimeBucket_inv I hv h3 h
  all_goals (injection h with h1 _; rw [← h1]; exact I)

theorem write_inv {v : Variant} {items : List String} {sch : Nat} {years : List Int} {st st' : St} {res : Res}
    (I : Inv st) (hv : v.checkFirst = true) (h3 : items.length = 3)
    (h : write v items sch years st = (st', res)) : Inv st' := by
  unfold write at h
  cases hg : getTimeFrame items defaultCats <;> simp only [hg] at h
  case ok =>
    cases hl : (dlookup st items).bind (fun r => latest r.files) with
    | some ls =>
      obtain ⟨ly, lsch⟩ := ls
      simp only [hl] at h
      by_cases hs : lsch ≠ sch
      · rw [if_pos hs] at h; injection h with h1 _; rw [← h1]; exact I
      · rw [if_neg hs] at h; exact writeYears_inv _ _ _ _ _ _ I h
    | none =>
      simp only [hl] at h
      cases years with
      | nil => injection h with h1 _; rw [← h1]; exact I
      | cons y0 ys =>
        cases ha : addTimeBucket v items defaultCats y0 sch st with
        | mk st1 r1 =>
          have I1 := addTimeBucket_inv I hv h3 ha
          simp only [ha] at h
          cases r1 <;> simp only at h
          case ok => exact writeYears_inv _ _ _ _ _ _ I1 h
          case exists_ => exact writeYears_inv _ _ _ _ _ _ I1 h
          all_goals (injection h with h1 _; rw [← h1]; exact I1)
  all_goals (injection h with h1 _; rw [← h1]; exact I)

/-- the key space of the property: bucket keys are Symbol/Timeframe/AttributeGroup (three items);
    Destroy may be given any key -/
def Op.keyOK : Op → Prop
  | .create items _ _ => items.length = 3
  | .write items _ _ => items.length = 3
  | .destroy _ => True
  | .restart => True

instance (op : Op) : Decidable op.keyOK := by
  cases op <;> simp only [Op.keyOK] <;> infer_instance

theorem step_inv {v : Variant} {now : Int} {st : St} {op : Op} (hd : v.deepDelete = true)
    (hc : v.checkFirst = true) (I : Inv st) (hk : op.keyOK) : Inv (step v now st op).1 := by
  cases op with
  | create items cats sch => exact create_inv (st' := (step v now st (.create items cats sch)).1) I hc hk rfl
  | write items sch years => exact write_inv (st' := (step v now st (.write items sch years)).1) I hc hk rfl
  | destroy items =>
    have : step v now st (.destroy items) = removeTimeBucket true items st := by simp [step, hd]
    exact removeTimeBucket_inv (st' := (step v now st (.destroy items)).1)
      (res := (step v now st (.destroy items)).2) I (by rw [← this])
  | restart => exact restart_inv I

theorem run_inv {v : Variant} (hd : v.deepDelete = true) (hc : v.checkFirst = true) (now : Int)
    (ops : List Op) : ∀ st, Inv st → (∀ op ∈ ops, op.keyOK) → Inv (run v now st ops) := by
  induction ops with
  | nil => intro st I _; exact I
  | cons op ops ih =>
    intro st I hk
    simp only [run]
    exact ih _ (step_inv hd hc I (hk op (by simp))) (fun o ho => hk o (by simp [ho]))

end Mkts.Catalog
