package main

// Ops and generator for C29 (row serialization round trip) plus the column-series token
// helpers shared with C27.  A column travels as `namehex:type:datahex`; the typed Go slice is
// built here with encoding/binary (not with the code under test) and results are printed with
// an independent type switch.

import (
	"encoding/binary"
	"fmt"
	"math"
	"strings"

	mio "github.com/alpacahq/marketstore/v4/utils/io"
)

var typeSizes = map[int]int{0: 4, 1: 4, 2: 8, 3: 8, 5: 1, 6: 1, 9: 2, 10: 1, 11: 2, 12: 4, 13: 8, 14: 64}

// makeTyped builds the Go slice of element type `typ` whose machine representation is `data`.
func makeTyped(typ int, data []byte) interface{} {
	sz, ok := typeSizes[typ]
	if !ok || len(data)%sz != 0 {
		panic(fmt.Sprintf("bad-arg column type %d len %d", typ, len(data)))
	}
	n := len(data) / sz
	le := binary.LittleEndian
	switch mio.EnumElementType(typ) {
	case mio.FLOAT32:
		out := make([]float32, n)
		for i := range out {
			out[i] = math.Float32frombits(le.Uint32(data[4*i:]))
		}
		return out
	case mio.INT32:
		out := make([]int32, n)
		for i := range out {
			out[i] = int32(le.Uint32(data[4*i:]))
		}
		return out
	case mio.FLOAT64:
		out := make([]float64, n)
		for i := range out {
			out[i] = math.Float64frombits(le.Uint64(data[8*i:]))
		}
		return out
	case mio.INT64:
		out := make([]int64, n)
		for i := range out {
			out[i] = int64(le.Uint64(data[8*i:]))
		}
		return out
	case mio.BYTE:
		out := make([]int8, n)
		for i := range out {
			out[i] = int8(data[i])
		}
		return out
	case mio.BOOL:
		out := make([]bool, n)
		for i := range out {
			if data[i] > 1 {
				panic("bad-arg bool byte")
			}
			out[i] = data[i] == 1
		}
		return out
	case mio.INT16:
		out := make([]int16, n)
		for i := range out {
			out[i] = int16(le.Uint16(data[2*i:]))
		}
		return out
	case mio.UINT8:
		out := make([]uint8, n)
		copy(out, data)
		return out
	case mio.UINT16:
		out := make([]uint16, n)
		for i := range out {
			out[i] = le.Uint16(data[2*i:])
		}
		return out
	case mio.UINT32:
		out := make([]uint32, n)
		for i := range out {
			out[i] = le.Uint32(data[4*i:])
		}
		return out
	case mio.UINT64:
		out := make([]uint64, n)
		for i := range out {
			out[i] = le.Uint64(data[8*i:])
		}
		return out
	case mio.STRING16:
		out := make([][16]rune, n)
		for i := range out {
			for k := 0; k < 16; k++ {
				out[i][k] = rune(le.Uint32(data[64*i+4*k:]))
			}
		}
		return out
	}
	panic("bad-arg column type")
}

// typedBytes is the inverse of makeTyped: (element type id, machine representation).
func typedBytes(col interface{}) (int, []byte) {
	le := binary.LittleEndian
	switch c := col.(type) {
	case nil:
		return int(mio.NONE), nil
	case []float32:
		b := make([]byte, 4*len(c))
		for i, v := range c {
			le.PutUint32(b[4*i:], math.Float32bits(v))
		}
		return int(mio.FLOAT32), b
	case []int32:
		b := make([]byte, 4*len(c))
		for i, v := range c {
			le.PutUint32(b[4*i:], uint32(v))
		}
		return int(mio.INT32), b
	case []float64:
		b := make([]byte, 8*len(c))
		for i, v := range c {
			le.PutUint64(b[8*i:], math.Float64bits(v))
		}
		return int(mio.FLOAT64), b
	case []int64:
		b := make([]byte, 8*len(c))
		for i, v := range c {
			le.PutUint64(b[8*i:], uint64(v))
		}
		return int(mio.INT64), b
	case []int8:
		b := make([]byte, len(c))
		for i, v := range c {
			b[i] = byte(v)
		}
		return int(mio.BYTE), b
	case []bool:
		b := make([]byte, len(c))
		for i, v := range c {
			if v {
				b[i] = 1
			}
		}
		return int(mio.BOOL), b
	case []int16:
		b := make([]byte, 2*len(c))
		for i, v := range c {
			le.PutUint16(b[2*i:], uint16(v))
		}
		return int(mio.INT16), b
	case []uint8:
		return int(mio.UINT8), append([]byte(nil), c...)
	case []uint16:
		b := make([]byte, 2*len(c))
		for i, v := range c {
			le.PutUint16(b[2*i:], v)
		}
		return int(mio.UINT16), b
	case []uint32:
		b := make([]byte, 4*len(c))
		for i, v := range c {
			le.PutUint32(b[4*i:], v)
		}
		return int(mio.UINT32), b
	case []uint64:
		b := make([]byte, 8*len(c))
		for i, v := range c {
			le.PutUint64(b[8*i:], v)
		}
		return int(mio.UINT64), b
	case [][16]rune:
		b := make([]byte, 64*len(c))
		for i, v := range c {
			for k := 0; k < 16; k++ {
				le.PutUint32(b[64*i+4*k:], uint32(v[k]))
			}
		}
		return int(mio.STRING16), b
	}
	return 99, nil
}

func parseCS(tok string) *mio.ColumnSeries {
	cs := mio.NewColumnSeries()
	if tok == "-" {
		return cs
	}
	for _, c := range strings.Split(tok, ";") {
		p := strings.Split(c, ":")
		if len(p) != 3 {
			panic("bad-arg column " + c)
		}
		name, err := unhx(p[0])
		must(err)
		data, err := unhx(p[2])
		must(err)
		cs.AddColumn(string(name), makeTyped(int(atoi(p[1])), data))
	}
	return cs
}

func parseShapes(tok string) []mio.DataShape {
	var out []mio.DataShape
	if tok == "-" {
		return out
	}
	for _, s := range strings.Split(tok, ",") {
		p := strings.Split(s, ":")
		name, err := unhx(p[0])
		must(err)
		out = append(out, mio.DataShape{Name: string(name), Type: mio.EnumElementType(atoi(p[1]))})
	}
	return out
}

func showCS(cs *mio.ColumnSeries) string {
	names := cs.GetColumnNames()
	if len(names) == 0 {
		return "-"
	}
	parts := make([]string, len(names))
	for i, n := range names {
		t, b := typedBytes(cs.GetColumn(n))
		parts[i] = fmt.Sprintf("%s:%d:%s", hx([]byte(n)), t, hx(b))
	}
	return strings.Join(parts, ";")
}

func colTok(name string, typ int, data []byte) string {
	return fmt.Sprintf("%s:%d:%s", hx([]byte(name)), typ, hx(data))
}

func serializeErrClass(err error) string {
	s := err.Error()
	switch {
	case strings.Contains(s, "find missing and type coercion"):
		return "err:shapes"
	case strings.Contains(s, "doesn't contain Epoch"):
		return "err:noepoch"
	case strings.Contains(s, "failed to cast Epoch column"):
		return "err:epochtype"
	}
	return "err:other"
}

func init() {
	// rowser align rowtype cs shapes
	// shapes "=" with row type NOTYPE: the real cs.ToRowSeries; "=" otherwise: cs.GetDataShapes()
	// handed to SerializeColumnsToRows / NewRowSeries directly; else an explicit shape list.
	ops["rowser"] = func(a []string) string {
		align := atoi(a[0]) != 0
		rt := mio.EnumRecordType(atoi(a[1]))
		cs := parseCS(a[2])
		key := mio.NewTimeBucketKey("X/1Min/V")
		var shapes []mio.DataShape
		var data []byte
		var recLen int
		var rs *mio.RowSeries
		if a[3] == "=" && rt == mio.NOTYPE {
			var err error
			rs, err = cs.ToRowSeries(*key, align)
			if err != nil {
				return serializeErrClass(err)
			}
			shapes, data, recLen = rs.GetDataShapes(), rs.GetData(), rs.GetRowLen()
		} else {
			if a[3] == "=" {
				shapes = cs.GetDataShapes()
			} else {
				shapes = parseShapes(a[3])
			}
			// the type-coercion path works on typed values and is outside the byte-level model
			if _, co, err := mio.GetMissingAndTypeCoercionColumns(shapes, cs.GetDataShapes()); err == nil && len(co) > 0 {
				return "skip:coercion"
			}
			var err error
			data, recLen, err = mio.SerializeColumnsToRows(cs, shapes, align)
			if err != nil {
				return serializeErrClass(err)
			}
			rs = mio.NewRowSeries(*key, data, shapes, recLen, rt)
		}
		rows := mio.NewRows(append([]mio.DataShape(nil), shapes...), data)
		if rt == mio.VARIABLE { // NewRowSeries' shape extension, for the exported Rows constructor
			rows = mio.NewRows(append(append([]mio.DataShape(nil), shapes...), mio.DataShape{Name: "Nanoseconds", Type: mio.INT32}), data)
		}
		rows.SetRowLen(recLen)
		rcs := ""
		if c, err := rows.ToColumnSeries(); err != nil {
			rcs = "err:epochcast"
		} else {
			rcs = showCS(c)
		}
		_, cs2 := rs.ToColumnSeries()
		return fmt.Sprintf("reclen=%d data=%s rcs=%s cs=%s", recLen, hx(data), rcs, showCS(cs2))
	}

	gens["C29"] = genC29
}

var fixedTypes = []int{0, 1, 2, 3, 5, 6, 9, 10, 11, 12, 13, 14}

func randElems(g *Gen, typ, n int) []byte {
	sz := typeSizes[typ]
	b := make([]byte, n*sz)
	switch g.Intn(4) {
	case 0: // boundary patterns
		for i := range b {
			b[i] = byte(g.Pick(0, 0xff, 0x80, 0x7f, 1))
		}
	case 1: // recognisable: column/row index
		for i := range b {
			b[i] = byte(i/sz + 16*(i%sz))
		}
	default:
		g.R.Read(b)
	}
	if typ == 6 {
		for i := range b {
			b[i] &= 1
		}
	}
	return b
}

func randName(g *Gen, i int) string {
	pool := []string{"Open", "High", "Low", "Close", "Volume", "Bid", "Ask", "Nanoseconds", "a", "A", "x y", "col:1", "Ünï", "", "Epoch0", "e"}
	if g.Intn(3) == 0 {
		return fmt.Sprintf("c%d", i)
	}
	return pool[g.Intn(len(pool))]
}

func genC29(g *Gen) {
	n := g.N(2500, 40000)
	for i := 0; i < n; i++ {
		tags := []string{}
		ncol := 1 + g.Intn(4)
		switch g.Intn(10) {
		case 0:
			ncol = 1
		case 1:
			ncol = 5 + g.Intn(8)
		}
		nrow := int(g.Pick(0, 1, 1, 2, 3, 5, 8, 17))
		if g.Thorough() && g.Intn(200) == 0 { // the list-based model reads rows in quadratic time
			nrow = 100 + g.Intn(300)
		}
		epochPos := 0
		mode := g.Intn(20)
		if mode <= 1 && ncol > 1 { // Epoch not the first column (C29-F1, repaired)
			epochPos = 1 + g.Intn(ncol-1)
		}
		var cols []string
		used := map[string]bool{"Epoch": true}
		hasI8, hasBool, alias := false, false, false
		for c := 0; c < ncol; c++ {
			if c == epochPos {
				cols = append(cols, colTok("Epoch", 3, randElems(g, 3, nrow)))
				continue
			}
			name := randName(g, c)
			for used[name] {
				name += "_"
			}
			if mode == 2 && !alias { // a second column that folds to "epoch" (C29-F3, repaired)
				name = []string{"epoch", "EPOCH", "ePoch"}[g.Intn(3)]
				alias = true
			}
			used[name] = true
			typ := fixedTypes[g.Intn(len(fixedTypes))]
			if mode >= 5 && typ == 6 { // keep BOOL (read back as []byte: known) to a minority of cases
				typ = 1
			}
			if typ == 5 {
				hasI8 = true
			}
			if typ == 6 {
				hasBool = true
			}
			cols = append(cols, colTok(name, typ, randElems(g, typ, nrow)))
		}
		align := g.Intn(2)
		rt := 2
		shapes := "="
		tags = append(tags, fmt.Sprintf("ncol:%d", sizeBucket(ncol)), fmt.Sprintf("nrow:%d", sizeBucket(nrow)), fmt.Sprintf("align:%d", align))
		if epochPos != 0 {
			tags = append(tags, "epoch_not_first")
		}
		if hasI8 {
			tags = append(tags, "int8_column")
		}
		if hasBool {
			tags = append(tags, "bool_column")
		}
		if alias && ncol > 1 {
			tags = append(tags, "epoch_alias")
		}
		if mode == 3 { // FIXED / VARIABLE row type (VARIABLE: Nanoseconds shape appended by NewRowSeries)
			rt = g.Intn(2)
			tags = append(tags, fmt.Sprintf("rowtype:%d", rt))
		}
		tags = append(tags, "stream:valid")
		g.Emit(fmt.Sprintf("rowser %d %d %s %s", align, rt, strings.Join(cols, ";"), shapes), tags...)
	}
	genC29Malformed(g)
}

func sizeBucket(n int) int {
	switch {
	case n <= 3:
		return n
	case n <= 8:
		return 8
	case n <= 32:
		return 32
	}
	return 1000
}

// genC29Malformed: explicit shape lists that differ from the series (missing columns, subsets,
// permutations, duplicates, non fixed-width and unknown types, coercion), series without Epoch,
// wrong Epoch type, unequal column lengths, duplicate names, empty inputs.
func genC29Malformed(g *Gen) {
	n := g.N(1200, 15000)
	for i := 0; i < n; i++ {
		nrow := int(g.Pick(0, 1, 2, 3, 6))
		ncol := 1 + g.Intn(4)
		type col struct {
			name string
			typ  int
		}
		var cs []col
		var toks []string
		kind := g.Intn(12)
		tag := ""
		for c := 0; c < ncol; c++ {
			name, typ := fmt.Sprintf("c%d", c), fixedTypes[g.Intn(len(fixedTypes))]
			if c == 0 {
				name, typ = "Epoch", 3
			}
			rows := nrow
			switch kind {
			case 0:
				tag = "no_epoch_column"
				if c == 0 {
					name = []string{"epoch", "Time", "EPOCH"}[g.Intn(3)]
				}
			case 1:
				tag = "epoch_wrong_type"
				if c == 0 {
					typ = []int{1, 2, 13, 10}[g.Intn(4)]
				}
			case 2:
				tag = "ragged_columns"
				if c > 0 {
					rows = nrow + g.Intn(3) - 1
					if rows < 0 {
						rows = 0
					}
				}
			case 3:
				tag = "duplicate_names"
				if c > 0 {
					name = []string{"A", "A", "A0", "Epoch"}[g.Intn(4)]
				}
			}
			cs = append(cs, col{name, typ})
			toks = append(toks, colTok(name, typ, randElems(g, typ, rows)))
		}
		cstok := strings.Join(toks, ";")
		shapes := "="
		mk := func(cols []col) string {
			if len(cols) == 0 {
				return "-"
			}
			s := make([]string, len(cols))
			for i, c := range cols {
				s[i] = fmt.Sprintf("%s:%d", hx([]byte(c.name)), c.typ)
			}
			return strings.Join(s, ",")
		}
		switch kind {
		case 4:
			tag = "empty_series"
			cstok = "-"
			if g.Intn(2) == 0 {
				shapes = mk(cs)
			}
		case 5:
			tag = "empty_shapes"
			shapes = "-"
		case 6:
			tag = "missing_columns"
			extra := append([]col(nil), cs...)
			for k := 0; k <= g.Intn(3); k++ {
				t := []int{0, 1, 2, 3, 5, 6, 9, 10, 11, 12, 13, 14, 7, 8, 4, 15, 200}[g.Intn(17)]
				nm := fmt.Sprintf("m%d", g.Intn(3))
				if g.Intn(6) == 0 {
					nm = "Epoch"
				}
				extra = append(extra, col{nm, t})
			}
			g.R.Shuffle(len(extra), func(i, j int) { extra[i], extra[j] = extra[j], extra[i] })
			shapes = mk(extra)
		case 7:
			tag = "subset_or_permuted_shapes"
			sub := append([]col(nil), cs...)
			g.R.Shuffle(len(sub), func(i, j int) { sub[i], sub[j] = sub[j], sub[i] })
			sub = sub[:1+g.Intn(len(sub))]
			shapes = mk(sub)
		case 8:
			tag = "duplicate_shapes"
			d := append([]col(nil), cs...)
			d = append(d, cs[g.Intn(len(cs))])
			if g.Intn(2) == 0 {
				d = append(d, col{"m0", 1}, col{"m0", 1}, col{"m00", 3})
			}
			shapes = mk(d)
		case 9:
			tag = "coercion"
			d := append([]col(nil), cs...)
			k := g.Intn(len(d))
			d[k].typ = fixedTypes[g.Intn(len(fixedTypes))]
			shapes = mk(d)
		case 10:
			tag = "only_missing_epoch"
			d := []col{{"c9", 1}}
			if g.Intn(2) == 0 {
				d = append(d, col{"epoch", 3})
			}
			shapes = mk(d)
		case 11:
			tag = "odd_type_shapes_only_missing"
			d := append([]col(nil), cs...)
			d = append(d, col{"z", []int{7, 8, 4, 15}[g.Intn(4)]})
			shapes = mk(d)
		}
		g.Emit(fmt.Sprintf("rowser %d %d %s %s", g.Intn(2), int(g.Pick(2, 2, 2, 1, 0)), cstok, shapes), "malformed:"+tag)
	}
}
