import Mkts.Lemmas.SqlCS
import Mkts.Props.C08
/-!
# C20 — SQL projection, alias, LIMIT and INSERT INTO behave relationally (fixed-length buckets)

Model: `materializeSelect` (SourceValidator, Project, Rename, RestrictLength, LIMIT push-down only
without predicates) and `materializeInsert` (→ `WriteCSM` → `writeRecords` of the Store model).
INSERT re-uses the Store model for the target bucket, so `C20_insert` inherits C08's exclusion
(1D buckets on January 1: stated for sub-day timeframes).
-/
namespace Mkts.Props.C20
open Mkts.Sql Mkts.Store Mkts.Time Mkts.Bytes Mkts.Props

/-! ## projection -/

/-- the projected series lists exactly the requested columns, in the requested order -/
theorem C20_project_names (cs : CS) (keep : List String) (h : ∀ n ∈ keep, (cs.get n).isSome) :
    (cs.project keep).names = keep := project_names cs keep h

/-- … and each of them carries the source column's data, unchanged -/
theorem C20_project_data (cs : CS) (keep : List String) (n : String) (hn : n ∈ keep) (d : List Bytes)
    (hd : cs.get n = some d) : (cs.project keep).get n = some d := project_get cs keep n hn d hd

/-! ## LIMIT -/

/-- **LIMIT n (n ≠ 0) = the first n rows of the filtered result**, whether or not the limit is
    pushed down into the reader (it is only without predicates). -/
theorem C20_limit (db : List Table) (t : Table) (key : String) (conj : List Conj) (n : Nat)
    (hn : n ≠ 0) (hfind : findTable db key = some t)
    (hnf : (buildGroup conj).any (fun e => e.2.isFalse) = false) :
    materializeSelect db ⟨true, [], key, conj, n⟩ =
      .ok (csOfRows t.cols ((selectRows t (buildGroup conj) 0).take n)) := by
  have hn' : (n != 0) = true := by simpa using hn
  simp only [materializeSelect, hnf, hfind, Bool.false_eq_true, if_false, Bool.not_true, Bool.false_and,
    hn', if_true]
  cases hg : buildGroup conj with
  | nil =>
    have hread0 : readRows t [] 0 = query t.tf t.slots ⟨none, none, none⟩ := by
      simp [readRows, pushdown, Group.get]
    have hreadn : readRows t [] n = (query t.tf t.slots ⟨none, none, none⟩).take n := by
      simp only [readRows, pushdown, Group.get, List.find?_nil, Option.map_none, List.isEmpty_nil, hn',
        Bool.and_self, if_true]
      rfl
    simp only [selectRows, postFilter_nil, hreadn, hread0]
    cases he : ((query t.tf t.slots ⟨none, none, none⟩).take n).isEmpty with
    | true =>
      have : (query t.tf t.slots ⟨none, none, none⟩).take n = [] := List.isEmpty_iff.mp he
      simp [this]
    | false =>
      simp only [Bool.false_eq_true, if_false]
      rw [restrictLength_csOfRows, List.take_take, Nat.min_self]
  | cons e rest =>
    have hread : readRows t (e :: rest) n = readRows t (e :: rest) 0 := by
      simp [readRows]
    simp only [selectRows, hread]
    cases he : (readRows t (e :: rest) 0).isEmpty with
    | true =>
      have : readRows t (e :: rest) 0 = [] := List.isEmpty_iff.mp he
      simp [this, postFilter, restrict]
    | false =>
      simp only [Bool.false_eq_true, if_false]
      rw [restrictLength_csOfRows]

/-- the property's LIMIT law, for every n -/
def C20_limit_full : Prop :=
  ∀ (db : List Table) (t : Table) (key : String) (n : Nat), findTable db key = some t →
    materializeSelect db ⟨true, [], key, [], n⟩ =
      .ok (csOfRows t.cols ((selectRows t [] 0).take n))

def wT : Table := ⟨"T/1Min/OHLC", 60000000000, [⟨"A", .i32⟩, ⟨"B", .f32⟩],
  applyHist 60000000000 [[⟨1583056800, [1,0,0,0,0,0,0,0x3f]⟩, ⟨1583056860, [2,0,0,0,0,0,0xc0,0x3f]⟩]]⟩

/-- FALSE of the code for n = 0: `LIMIT 0` is parsed into `sr.Limit = 0`, which is also the value for
    "no LIMIT clause": every row comes back instead of none. -/
theorem C20_cex_limit0 : ¬ C20_limit_full := by
  intro h
  have := h [wT] wT "T/1Min/OHLC" 0 (by decide)
  revert this
  decide

/-! ## aliases -/

/-- the property's alias law on a two-item select list: `SELECT x AS a, y` returns two columns
    named `a` and `y` holding the data of `x` and `y` -/
def C20_alias_full : Prop :=
  ∀ (db : List Table) (t : Table) (key x a y : String), findTable db key = some t →
    x ≠ y → a ≠ x →
    (t.cols.any (fun c => c.name == x) = true) → (t.cols.any (fun c => c.name == y) = true) →
    (readRows t [] 0).isEmpty = false →
    ∃ cs, materializeSelect db ⟨false, [⟨x, some a⟩, ⟨y, none⟩], key, [], 0⟩ = .ok cs ∧
      cs.names = [a, y] ∧
      cs.get a = (csOfRows t.cols (selectRows t [] 0)).get x ∧
      cs.get y = (csOfRows t.cols (selectRows t [] 0)).get y

/-- FALSE of the code when the alias is the name of another selected column
    (`SELECT A AS B, B`): `Rename` first removes the existing column `B`; one column is left. -/
theorem C20_cex_alias_collision : ¬ C20_alias_full := by
  intro h
  obtain ⟨cs, h1, h2, _⟩ := h [wT] wT "T/1Min/OHLC" "A" "B" "B" (by decide) (by decide) (by decide) (by decide)
    (by decide) (by decide)
  have hm : materializeSelect [wT] ⟨false, [⟨"A", some "B"⟩, ⟨"B", none⟩], "T/1Min/OHLC", [], 0⟩ =
      .ok ⟨["B"], [("B", [[1,0,0,0],[2,0,0,0]])]⟩ := by decide
  rw [hm] at h1
  cases h1
  revert h2
  decide

/-- with a fresh alias the law holds on the witness (non-vacuity of the alias law) -/
example : materializeSelect [wT] ⟨false, [⟨"A", some "X"⟩, ⟨"B", none⟩], "T/1Min/OHLC", [], 0⟩ =
    .ok ⟨["X", "B"], [("B", [[0,0,0,0x3f],[0,0,0xc0,0x3f]]), ("X", [[1,0,0,0],[2,0,0,0]])]⟩ := by decide

/-! ## INSERT INTO … SELECT -/

/-- store-level effect: the target after the insert is the target's history extended by ONE write
    request holding the rows handed to the writer -/
theorem C20_insert_store (tf : Int) (hist : List (List Row)) (rows : List Row) :
    applyCmds (applyHist tf hist) (writeRecords tf rows) = applyHist tf (hist ++ [rows]) :=
  applyHist_snoc tf hist rows

/-- **INSERT INTO t SELECT …**: querying the target afterwards returns the last-writer-wins table of
    its previous history plus the inserted rows — each row stamped with the start of the TARGET's
    interval it falls into (C08_stamp), one row per target interval (coarser timeframe: the last
    selected row of the interval wins).  Sub-day timeframes (C08's exclusion is 1D / January 1). -/
theorem C20_insert (tf : Int) (hist : List (List Row)) (rows : List Row) (htf : 0 < tf) (hd : tf ≠ dayNs) :
    query tf (applyCmds (applyHist tf hist) (writeRecords tf rows)) ⟨none, none, none⟩ =
      specAll tf (hist ++ [rows]) := by
  rw [C20_insert_store]
  exact C08.C08_subday tf (hist ++ [rows]) htf hd

/-- non-vacuity: 1Min source into an empty 5Min target with the same schema -/
example : materializeInsert [wT, ⟨"U/5Min/OHLC", 300000000000, [⟨"A", .i32⟩, ⟨"B", .f32⟩], []⟩]
    ⟨"U/5Min/OHLC", none, ⟨true, [], "T/1Min/OHLC", [], 0⟩⟩ =
    some (.ok (.written 2, [wT, ⟨"U/5Min/OHLC", 300000000000, [⟨"A", .i32⟩, ⟨"B", .f32⟩],
      [((2020, 17401), [2,0,0,0,0,0,0xc0,0x3f])]⟩])) := by decide

end Mkts.Props.C20
