import Mkts.Lemmas.Coerce
import Mkts.Lemmas.Coerce2
import Mkts.Model.CoerceTie
import Mkts.Model.ExceptDec
/-!
# C14 — writes are validated against the bucket schema

`checkAndCoerce db cols` is the schema test + coercion of `WriteCSM` for one bucket (`db` = bucket
columns, `cols` = request columns, Epoch implicit on both sides); `request v` is a whole write
request over its buckets in iteration order with the write channel (`Chan.pending`), for the variant
`v` of the code: `v.ordered` = columns serialised in the bucket's order, `v.atomic` = records queued
only after every bucket passed.  `codeVariant` reads the variant off the regenerated skeleton of
`WriteCSM`; since the repairs of C14-F8 / C14-F8b it is `⟨true, true⟩`.  `specRequest` is the
property's demand (all-or-nothing, columns matched by name, values converted by `convert`).
-/
namespace Mkts.Props.C14
open Mkts.Coerce Mkts.Bytes

set_option maxRecDepth 100000 in
/-- the CURRENT source re-orders the columns to the bucket's schema before `ToRowSeries` and calls
    `WriteRecords` only in a second loop after the loop over the request's buckets (regenerated
    skeleton of `WriteCSM`; a revert flips the flag, this `decide` fails and the model follows) -/
theorem C14_code_variant : codeVariant = ⟨true, true⟩ := by decide

/-- a different number of columns is rejected -/
theorem C14_length_reject (db : List DS) (cols : List Col) (h : db.length ≠ cols.length) :
    checkAndCoerce db cols = .error .mismatch := by
  unfold checkAndCoerce
  simp [h]

/-- name mismatch ⇒ rejected: a bucket column whose name the request does not carry -/
theorem C14_reject (db : List DS) (cols : List Col) (d : DS) (hd : d ∈ db) (he : d.name ≠ epochName)
    (hn : d.name ∉ cols.map (·.ds.name)) : checkAndCoerce db cols = .error .mismatch := by
  unfold checkAndCoerce
  simp only
  split
  · rfl
  · obtain ⟨m, c, hg, hm⟩ := getMissing_of_missing_name (epochDS :: db) (epochDS :: cols.map (·.ds)) (by simp) d
      (by simp [hd]) (by
        simp only [names, List.map_cons, List.mem_cons, List.map_map, not_or]
        refine ⟨he, ?_⟩
        simpa [Function.comp] using hn)
    rw [hg]
    simp only
    have : m.isEmpty = false := by cases m <;> simp_all
    simp [this]

/-- a rejected request — ANY number of buckets, whichever of them is rejected, in whatever order the
    map iteration visits them — leaves the write channel as it was and commits nothing -/
theorem C14_reject_atomic (schema : String → Option (List DS)) (ch : Chan) (parts : List Part) (e : Reject)
    (h : (request codeVariant schema ch parts).1 = some e) :
    (request codeVariant schema ch parts).2.1 = ch ∧ (request codeVariant schema ch parts).2.2.1 = [] := by
  rw [C14_code_variant] at h ⊢
  unfold request at h ⊢
  cases hl : writeCSMLoop ⟨true, true⟩ schema parts [] [] with
  | mk r rest =>
    obtain ⟨q, created⟩ := rest
    cases r with
    | none => rw [hl] at h; simp at h
    | some e' =>
      have hq := loop_atomic true schema parts [] [] e' (by rw [hl])
      rw [hl] at hq
      simp only at hq
      subst hq
      simp

/-- the request carries exactly the bucket's shapes: accepted unchanged -/
theorem C14_accept_same (db : List DS) (cols : List Col) (h : cols.map (·.ds) = db) :
    checkAndCoerce db cols = .ok cols := by
  unfold checkAndCoerce
  rw [h]
  simp only [ne_eq, not_true_eq_false, if_false]
  rw [getMissing_self (epochDS :: db) (by simp)]
  simp [List.foldlM]
  rfl

/-- same SET of names (in ANY order), other numeric types ⇒ accepted, and every request column is
    converted to the type of the bucket column of the same NAME (`coerced`: `convert` on every value).
    `Defined` excludes exactly the implementation-defined float → integer conversions and the
    non-numeric (STRING16) columns. -/
theorem C14_coerce (db : List DS) (cols : List Col)
    (hlen : db.length = cols.length) (hnd : (epochName :: names db).Nodup) (hcn : (cols.map (·.ds.name)).Nodup)
    (hdbc : ∀ d ∈ db, d.name ∈ cols.map (·.ds.name)) (hcdb : ∀ c ∈ cols, c.ds.name ∈ names db)
    (hdef : ∀ d ∈ db, ∀ c ∈ cols, c.ds.name = d.name → c.ds.ty ≠ d.ty → Defined d c) :
    checkAndCoerce db cols = .ok (cols.map (coerced db)) :=
  checkAndCoerce_by_name db cols hlen hnd hcn hdbc hcdb hdef

/-- …and what the repaired code serialises (`serialCols codeVariant`: the coerced columns projected
    on the bucket's names) carries exactly the bucket's shapes in the BUCKET's order, whatever the
    order of the request: every value is stored in the column of its own name -/
theorem C14_serialised_in_bucket_order (db : List DS) (cols : List Col) (hnd : (epochName :: names db).Nodup)
    (hdbc : ∀ d ∈ db, d.name ∈ cols.map (·.ds.name)) :
    (serialCols codeVariant db (cols.map (coerced db))).map (·.ds) = db := by
  rw [C14_code_variant]
  exact projected_shapes db cols (List.nodup_cons.mp hnd).2 hdbc

/-- the full statement for one bucket of a request, for the code as it is now: columns matched by
    name in any order are accepted, the rows are queued with the converted columns in bucket order and
    committed together with whatever was pending; the write channel is empty afterwards -/
theorem C14_full (schema : String → Option (List DS)) (ch : Chan) (p : Part) (db : List DS)
    (hs : schema p.key = some db) (hne : p.secs ≠ [])
    (hlen : db.length = p.cols.length) (hnd : (epochName :: names db).Nodup) (hcn : (p.cols.map (·.ds.name)).Nodup)
    (hdbc : ∀ d ∈ db, d.name ∈ p.cols.map (·.ds.name)) (hcdb : ∀ c ∈ p.cols, c.ds.name ∈ names db)
    (hdef : ∀ d ∈ db, ∀ c ∈ p.cols, c.ds.name = d.name → c.ds.ty ≠ d.ty → Defined d c) :
    request codeVariant schema ch [p] =
      (none, ⟨[]⟩, ch.pending ++ partRows p.key (serialCols codeVariant db (p.cols.map (coerced db))) p.secs, []) ∧
    (serialCols codeVariant db (p.cols.map (coerced db))).map (·.ds) = db := by
  have h1 : p.secs.isEmpty = false := by cases h : p.secs <;> simp_all
  refine ⟨?_, C14_serialised_in_bucket_order db p.cols hnd hdbc⟩
  simp [request, writeCSMLoop, h1, hs, C14_coerce db p.cols hlen hnd hcn hdbc hcdb hdef]

/-! ## before the repairs (variant `⟨false, false⟩`): kept as labelled counterexamples -/

def requestOK (v : Variant) (schema : String → Option (List DS)) (ch : Chan) (parts : List Part) : Bool :=
  match request v schema ch parts, specRequest schema parts with
  | (some _, ch', committed, _), _ => decide (ch' = ch) && decide (committed = [])
  | (none, _, committed, _), some rows => decide (committed = ch.pending ++ rows)
  | (none, _, _, _), none => true

def nA : Str := [65]
def nB : Str := [66]
def one32 : Bytes := [1, 0, 0, 0]
def two32 : Bytes := [2, 0, 0, 0]

def schemaAB : String → Option (List DS) := fun k =>
  if k = "G" then some [⟨nA, .i32⟩, ⟨nB, .i32⟩] else if k = "H" then some [⟨nB, .i32⟩] else none

def reordered : List Part := [⟨"G", [⟨⟨nB, .i32⟩, [two32]⟩, ⟨⟨nA, .i32⟩, [one32]⟩], [60]⟩]
def twoBuckets : List Part := [⟨"G", [⟨⟨nA, .i32⟩, [one32]⟩, ⟨⟨nB, .i32⟩, [two32]⟩], [60]⟩,
                               ⟨"H", [⟨⟨nA, .i32⟩, [one32]⟩, ⟨⟨nB, .i32⟩, [two32]⟩], [60]⟩]

/-- (before the repair of C14-F8) same names in another order were stored positionally — A received
    B's value; the repaired variant stores what the specification demands -/
theorem C14_before_repair_reorder :
    requestOK ⟨false, false⟩ schemaAB ⟨[]⟩ reordered = false ∧
    (request ⟨false, false⟩ schemaAB ⟨[]⟩ reordered).2.2.1 = [⟨"G", 60, two32 ++ one32⟩] ∧
    specRequest schemaAB reordered = some [⟨"G", 60, one32 ++ two32⟩] ∧
    requestOK ⟨true, true⟩ schemaAB ⟨[]⟩ reordered = true := by decide

/-- (before the repair of C14-F8b) one request with a valid bucket G and a mismatching bucket H, G
    handled first: the error was returned but G's row stayed queued and was committed by the next
    successful request; the repaired variant queues nothing -/
theorem C14_before_repair_queue :
    let r := request ⟨false, false⟩ schemaAB ⟨[]⟩ twoBuckets
    r.1 = some .mismatch ∧ r.2.1.pending = [⟨"G", 60, one32 ++ two32⟩] ∧
    (request ⟨false, false⟩ schemaAB r.2.1 [⟨"H", [⟨⟨nB, .i32⟩, [two32]⟩], [120]⟩]).2.2.1 =
      [⟨"G", 60, one32 ++ two32⟩, ⟨"H", 120, two32⟩] ∧
    requestOK ⟨false, false⟩ schemaAB ⟨[]⟩ twoBuckets = false ∧
    requestOK ⟨true, true⟩ schemaAB ⟨[]⟩ twoBuckets = true ∧
    requestOK ⟨true, true⟩ schemaAB ⟨[]⟩ twoBuckets.reverse = true := by
  decide

/-! non-vacuity / sanity of the conversions -/
example : convert .i32 .i64 [255, 255, 255, 255] = some [255, 255, 255, 255, 255, 255, 255, 255] := by decide
example : convert .i32 .u8 [1, 1, 0, 0] = some [1] := by decide
example : checkAndCoerce [⟨nA, .i32⟩] [⟨⟨nA, .i16⟩, [[254, 255]]⟩] = .ok [⟨⟨nA, .i32⟩, [[254, 255, 255, 255]]⟩] := by decide
example : checkAndCoerce [⟨nA, .i32⟩] [⟨⟨nB, .i32⟩, [one32]⟩] = .error .mismatch := by decide
example : Defined ⟨nA, .i32⟩ ⟨⟨nA, .f64⟩, [[0, 0, 0, 0, 0, 0, 4, 192]]⟩ ∧
    convert .f64 .i32 [0, 0, 0, 0, 0, 0, 4, 192] = some [254, 255, 255, 255] := by
  refine ⟨⟨by decide, by decide, ?_⟩, by decide⟩
  intro v hv; simp at hv; subst hv; decide
example : ¬ Defined ⟨nA, .i32⟩ ⟨⟨nA, .f64⟩, [[0, 0, 0, 0, 0, 0, 248, 127]]⟩ := by
  intro h; have := h.2.2 [0, 0, 0, 0, 0, 0, 248, 127] (by simp); revert this; decide

end Mkts.Props.C14
