import Mkts.Model.Rows
/-! Helper lemmas for C29: slicing concatenations of uniform records, the column walk, and
`AddColumn` on distinct names. -/
namespace Mkts.Rows
open Mkts.Bytes

theorem getD_eq_getElem' {α : Type} (l : List α) (d : α) {i : Nat} (h : i < l.length) :
    l.getD i d = l[i] := by
  simp [List.getD_eq_getElem?_getD, h]

/-! ## `Except` plumbing -/

theorem mapM_ok {α β : Type} (f : α → Res β) (g : α → β) (l : List α)
    (h : ∀ x ∈ l, f x = .ok (g x)) : l.mapM f = .ok (l.map g) := by
  induction l with
  | nil => rfl
  | cons a t ih =>
    have h1 := h a (by simp)
    have h2 := ih (fun x hx => h x (by simp [hx]))
    simp only [List.mapM_cons, h1, h2, List.map_cons]
    rfl

/-! ## slices -/

theorem slice_eq_some (b : Bytes) (off len : Nat) (h : off + len ≤ b.length) :
    slice b off len = some ((b.drop off).take len) := by
  simp [slice, h]

theorem sliceP_ok (b : Bytes) (off len : Nat) (h : off + len ≤ b.length) :
    sliceP b off len = .ok ((b.drop off).take len) := by
  simp [sliceP, slice_eq_some b off len h]

theorem flatten_length_uniform (sz : Nat) (l : List Bytes) (hl : ∀ e ∈ l, e.length = sz) :
    l.flatten.length = l.length * sz := by
  induction l with
  | nil => simp
  | cons a t ih =>
    have ha : a.length = sz := hl a (by simp)
    have := ih (fun e he => hl e (by simp [he]))
    rw [List.flatten_cons, List.length_append, ha, this, List.length_cons, Nat.add_mul, Nat.one_mul, Nat.add_comm]

/-- the i-th element of a column blob whose elements all have `sz` bytes -/
theorem slice_flatten_uniform (sz : Nat) (l : List Bytes) (hl : ∀ e ∈ l, e.length = sz) (i : Nat)
    (hi : i < l.length) :
    sliceInBytesAt sz l.flatten i = .ok (l.getD i []) := by
  induction l generalizing i with
  | nil => simp at hi
  | cons a t ih =>
    have ha : a.length = sz := hl a (by simp)
    have ht : ∀ e ∈ t, e.length = sz := fun e he => hl e (by simp [he])
    have hlen := flatten_length_uniform sz t ht
    cases i with
    | zero =>
      unfold sliceInBytesAt
      rw [sliceP_ok _ _ _ (by rw [List.flatten_cons, List.length_append]; omega)]
      rw [List.flatten_cons, Nat.zero_mul, List.drop_zero, ← ha, List.take_left']
      · rfl
      · rfl
    | succ j =>
      have hj : j < t.length := by simpa using hi
      have := ih ht j hj
      unfold sliceInBytesAt at this ⊢
      have hmul : (j + 1) * sz = a.length + j * sz := by rw [Nat.add_mul, Nat.one_mul, ha, Nat.add_comm]
      have hb : j * sz + sz ≤ t.flatten.length := by
        rw [hlen]
        calc j * sz + sz = (j + 1) * sz := by rw [Nat.add_mul, Nat.one_mul]
          _ ≤ t.length * sz := Nat.mul_le_mul_right _ hj
      rw [sliceP_ok _ _ _ hb] at this
      rw [sliceP_ok _ _ _ (by rw [List.flatten_cons, List.length_append, hmul]; omega)]
      rw [List.getD_cons_succ, ← Except.ok.inj this, hmul, List.flatten_cons, List.drop_append,
        List.drop_eq_nil_of_le (Nat.le_add_right _ _), List.nil_append, Nat.add_sub_cancel_left]

theorem mapM_map_ok {α β γ : Type} (f : α → β) (h : β → Res γ) (g : α → γ) (l : List α)
    (hh : ∀ x ∈ l, h (f x) = .ok (g x)) : (l.map f).mapM h = .ok (l.map g) := by
  induction l with
  | nil => rfl
  | cons a t ih =>
    have h1 := hh a (by simp)
    have h2 := ih (fun x hx => hh x (by simp [hx]))
    simp only [List.map_cons, List.mapM_cons, h1, h2]
    rfl

/-! ## the record loop of `SerializeColumnsToRows` on well-formed columns -/

/-- a column with `n` elements, each of the size of its type -/
def Column.WF (n : Nat) (c : Column) : Prop :=
  c.elems.length = n ∧ ∀ x ∈ c.elems, x.length = typeSize c.typ

def wordsOf (rest : List Column) : List (Nat × Bytes) :=
  rest.map (fun c => (typeSize c.typ, c.elems.flatten))

/-- record `i`: epoch, the i-th element of every other column, padding -/
def rowSpec (rest : List Column) (pad : Nat) (e : Bytes) (i : Nat) : Bytes :=
  e ++ (rest.map (fun c => c.elems.getD i [])).flatten ++ List.replicate pad 0

def rowsFrom (rest : List Column) (pad : Nat) : List Bytes → Nat → List Bytes
  | [], _ => []
  | e :: es, i => rowSpec rest pad e i :: rowsFrom rest pad es (i + 1)

theorem serializeRow_ok (rest : List Column) (n pad : Nat) (hrest : ∀ c ∈ rest, c.WF n) (e : Bytes)
    (i : Nat) (hi : i < n) :
    serializeRow (wordsOf rest) pad e i = .ok (rowSpec rest pad e i) := by
  unfold serializeRow wordsOf
  rw [mapM_map_ok _ _ (fun c => c.elems.getD i [])]
  · rfl
  · intro c hc
    have := hrest c hc
    exact slice_flatten_uniform _ _ this.2 i (by rw [this.1]; exact hi)

theorem serializeLoop_ok (rest : List Column) (n pad : Nat) (hrest : ∀ c ∈ rest, c.WF n)
    (es : List Bytes) (i : Nat) (hi : i + es.length ≤ n) :
    serializeLoop (wordsOf rest) pad es i = .ok (rowsFrom rest pad es i) := by
  induction es generalizing i with
  | nil => rfl
  | cons e t ih =>
    simp only [List.length_cons] at hi
    unfold serializeLoop
    rw [serializeRow_ok rest n pad hrest e i (by omega), ih (i + 1) (by omega)]
    rfl

/-- total size of the non-epoch fields of a record -/
def sizesOf (rest : List Column) : Nat := (rest.map (fun c => typeSize c.typ)).sum

theorem fields_length (rest : List Column) (n : Nat) (hrest : ∀ c ∈ rest, c.WF n) (i : Nat) (hi : i < n) :
    (rest.map (fun c => c.elems.getD i [])).flatten.length = sizesOf rest := by
  induction rest with
  | nil => rfl
  | cons c t ih =>
    have hc := hrest c (by simp)
    have := ih (fun x hx => hrest x (by simp [hx]))
    have hget : (c.elems.getD i []).length = typeSize c.typ := by
      have hlt : i < c.elems.length := by rw [hc.1]; exact hi
      rw [getD_eq_getElem' _ _ hlt]
      exact hc.2 _ (List.getElem_mem hlt)
    simp only [List.map_cons, List.flatten_cons, List.length_append, hget, this, sizesOf, List.sum_cons]

theorem rowSpec_length (rest : List Column) (n pad : Nat) (hrest : ∀ c ∈ rest, c.WF n) (e : Bytes)
    (he : e.length = 8) (i : Nat) (hi : i < n) :
    (rowSpec rest pad e i).length = 8 + sizesOf rest + pad := by
  unfold rowSpec
  rw [List.length_append, List.length_append, fields_length rest n hrest i hi, he, List.length_replicate]

theorem rowsFrom_length (rest : List Column) (pad : Nat) (es : List Bytes) (i : Nat) :
    (rowsFrom rest pad es i).length = es.length := by
  induction es generalizing i with
  | nil => rfl
  | cons e t ih => simp [rowsFrom, ih]

theorem rowsFrom_uniform (rest : List Column) (n pad : Nat) (hrest : ∀ c ∈ rest, c.WF n)
    (es : List Bytes) (hes : ∀ e ∈ es, e.length = 8) (i : Nat) (hi : i + es.length ≤ n) :
    ∀ r ∈ rowsFrom rest pad es i, r.length = 8 + sizesOf rest + pad := by
  induction es generalizing i with
  | nil => intro r hr; simp [rowsFrom] at hr
  | cons e t ih =>
    simp only [List.length_cons] at hi
    intro r hr
    simp only [rowsFrom, List.mem_cons] at hr
    rcases hr with h | h
    · rw [h]; exact rowSpec_length rest n pad hrest e (hes e (by simp)) i (by omega)
    · exact ih (fun x hx => hes x (by simp [hx])) (i + 1) (by omega) r h

/-! ## the cursor loop of `getXxxColumn` over a concatenation of uniform records -/

theorem getColumnLoop_flatten (sz L off : Nat) (hoff : off + sz ≤ L) (rs : List Bytes)
    (hrs : ∀ r ∈ rs, r.length = L) (pre : Bytes) :
    getColumnLoop (pre ++ rs.flatten) sz L rs.length (pre.length + off) =
      .ok (rs.map (fun r => (r.drop off).take sz)) := by
  induction rs generalizing pre with
  | nil => rfl
  | cons r t ih =>
    have hr : r.length = L := hrs r (by simp)
    have ht := ih (fun x hx => hrs x (by simp [hx])) (pre ++ r)
    simp only [List.length_cons, List.flatten_cons]
    unfold getColumnLoop
    have hs : sliceP (pre ++ (r ++ t.flatten)) (pre.length + off) sz = .ok ((r.drop off).take sz) := by
      rw [sliceP_ok _ _ _ (by simp only [List.length_append]; omega)]
      rw [List.drop_append, List.drop_eq_nil_of_le (Nat.le_add_right _ _), List.nil_append,
        Nat.add_sub_cancel_left, List.drop_append, List.take_append]
      have h1 : sz - (List.drop off r).length = 0 := by simp only [List.length_drop]; omega
      rw [h1, List.take_zero, List.append_nil]
    rw [hs]
    have hc : pre.length + off + L = (pre ++ r).length + off := by simp only [List.length_append]; omega
    rw [hc, ← List.append_assoc, ht]
    rfl

/-- reading the field of column `c` out of record `i` -/
theorem rowSpec_field (pre post : List Column) (c : Column) (n pad : Nat)
    (hrest : ∀ x ∈ pre ++ c :: post, x.WF n) (e : Bytes) (he : e.length = 8) (i : Nat) (hi : i < n) :
    ((rowSpec (pre ++ c :: post) pad e i).drop (8 + sizesOf pre)).take (typeSize c.typ) =
      c.elems.getD i [] := by
  have hpre : ∀ x ∈ pre, x.WF n := fun x hx => hrest x (by simp [hx])
  have hc := hrest c (by simp)
  have hget : (c.elems.getD i []).length = typeSize c.typ := by
    have hlt : i < c.elems.length := by rw [hc.1]; exact hi
    rw [getD_eq_getElem' _ _ hlt]
    exact hc.2 _ (List.getElem_mem hlt)
  have hpl := fields_length pre n hpre i hi
  unfold rowSpec
  rw [List.map_append, List.flatten_append, List.map_cons, List.flatten_cons]
  rw [List.append_assoc, List.append_assoc, List.drop_append, ← he,
    List.drop_eq_nil_of_le (Nat.le_add_right _ _), List.nil_append, Nat.add_sub_cancel_left]
  rw [List.drop_append, ← hpl, List.drop_eq_nil_of_le (Nat.le_refl _), List.nil_append, Nat.sub_self,
    List.drop_zero, List.append_assoc, ← hget, List.take_left']
  rfl

theorem rowSpec_epoch (rest : List Column) (pad : Nat) (e : Bytes) (he : e.length = 8) (i : Nat) :
    ((rowSpec rest pad e i).drop 0).take 8 = e := by
  unfold rowSpec
  rw [List.drop_zero, List.append_assoc, ← he, List.take_left']
  rfl

/-- the i-th, (i+1)-th … elements of `c`, one per element of `es` -/
def idxFrom (c : Column) : List Bytes → Nat → List Bytes
  | [], _ => []
  | _ :: es, i => c.elems.getD i [] :: idxFrom c es (i + 1)

theorem idxFrom_eq_drop (c : Column) (es : List Bytes) (i : Nat) (h : i + es.length = c.elems.length) :
    idxFrom c es i = c.elems.drop i := by
  induction es generalizing i with
  | nil =>
    simp only [List.length_nil, Nat.add_zero] at h
    rw [idxFrom, List.drop_eq_nil_of_le (by omega)]
  | cons e t ih =>
    simp only [List.length_cons] at h
    have hlt : i < c.elems.length := by omega
    rw [idxFrom, ih (i + 1) (by omega), getD_eq_getElem' _ _ hlt, ← List.drop_eq_getElem_cons hlt]

theorem rowsFrom_field (pre post : List Column) (c : Column) (n pad : Nat)
    (hrest : ∀ x ∈ pre ++ c :: post, x.WF n) (es : List Bytes) (hes : ∀ e ∈ es, e.length = 8)
    (i : Nat) (hi : i + es.length ≤ n) :
    (rowsFrom (pre ++ c :: post) pad es i).map
      (fun r => (r.drop (8 + sizesOf pre)).take (typeSize c.typ)) = idxFrom c es i := by
  induction es generalizing i with
  | nil => rfl
  | cons e t ih =>
    simp only [List.length_cons] at hi
    rw [rowsFrom, List.map_cons, idxFrom, ih (fun x hx => hes x (by simp [hx])) (i + 1) (by omega),
      rowSpec_field pre post c n pad hrest e (hes e (by simp)) i (by omega)]

theorem rowsFrom_epoch (rest : List Column) (pad : Nat) (es : List Bytes) (hes : ∀ e ∈ es, e.length = 8)
    (i : Nat) :
    (rowsFrom rest pad es i).map (fun r => (r.drop 0).take 8) = es := by
  induction es generalizing i with
  | nil => rfl
  | cons e t ih =>
    rw [rowsFrom, List.map_cons, ih (fun x hx => hes x (by simp [hx])), rowSpec_epoch rest pad e (hes e (by simp))]

/-! ## column series with distinct names -/

def toShape (c : Column) : DataShape := ⟨c.name, c.typ⟩

/-- Go element type of the slice `Rows.GetColumn` returns for a shape of type `t` -/
def readType (t : Nat) : Nat :=
  match getterTable.lookup t with
  | some v => v.1
  | none => NONE

/-- the column as `Rows.GetColumn` types it (BOOL, BYTE ↦ UINT8) -/
def retype (c : Column) : Column := ⟨c.name, readType c.typ, c.elems⟩

theorem find_none_of_not_mem (cols : List Column) (name : String)
    (h : name ∉ cols.map (·.name)) : cols.find? (fun c => c.name == name) = none := by
  rw [List.find?_eq_none]
  intro c hc heq
  exact h (by rw [List.mem_map]; exact ⟨c, hc, by simpa using heq⟩)

theorem find_of_nodup (cols : List Column) (hnd : (cols.map (·.name)).Nodup) (c : Column) (hc : c ∈ cols) :
    cols.find? (fun x => x.name == c.name) = some c := by
  induction cols with
  | nil => simp at hc
  | cons a t ih =>
    simp only [List.map_cons, List.nodup_cons] at hnd
    by_cases hac : a = c
    · subst hac; simp
    · have hct : c ∈ t := by
        rcases List.mem_cons.mp hc with h | h
        · exact absurd h.symm hac
        · exact h
      have hne : a.name ≠ c.name := by
        intro h
        exact hnd.1 (by rw [h, List.mem_map]; exact ⟨c, hct, rfl⟩)
      rw [List.find?_cons]
      have : (a.name == c.name) = false := by simpa using hne
      rw [this]
      exact ih hnd.2 hct

theorem map_overwrite_id (cols : List Column) (name : String) (t : Nat) (el : List Bytes)
    (h : name ∉ cols.map (·.name)) : cols.map (overwrite name t el) = cols := by
  induction cols with
  | nil => rfl
  | cons a r ih =>
    simp only [List.map_cons, List.mem_cons, not_or] at h
    rw [List.map_cons, ih h.2]
    have : (a.name == name) = false := by simpa using (fun e => h.1 e.symm)
    simp [overwrite, this]

theorem addColumn_fresh (done : List Column) (name : String) (t : Nat) (el : List Bytes)
    (h : name ∉ done.map (·.name)) :
    (ColumnSeries.mk done []).addColumn name t el = ⟨done ++ [⟨name, t, el⟩], []⟩ := by
  unfold ColumnSeries.addColumn ColumnSeries.exists ColumnSeries.find?
  simp only [find_none_of_not_mem done name h, Option.isSome_none, Bool.false_eq_true, if_false,
    map_overwrite_id done name t el h]

theorem lookup_some_mem {α β : Type} [BEq α] [LawfulBEq α] (l : List (α × β)) (a : α) (b : β)
    (h : l.lookup a = some b) : (a, b) ∈ l := by
  induction l with
  | nil => simp [List.lookup] at h
  | cons x t ih =>
    obtain ⟨k, v⟩ := x
    by_cases hk : a = k
    · subst hk
      simp [List.lookup] at h
      simp [h]
    · have : (a == k) = false := by simpa using hk
      simp only [List.lookup, this] at h
      exact List.mem_cons_of_mem _ (ih h)

theorem getterTable_sizes : getterTable.all (fun p => p.2.2 == typeSize p.1) = true := by decide

theorem getter_size (t rt sz : Nat) (h : getterTable.lookup t = some (rt, sz)) : sz = typeSize t := by
  have hm := lookup_some_mem _ _ _ h
  have := List.all_eq_true.mp getterTable_sizes _ hm
  simpa using this

theorem typeSize_INT64 : typeSize INT64 = 8 := by decide
theorem lookup_INT64 : getterTable.lookup INT64 = some (INT64, 8) := by decide
theorem equalFoldEpoch_Epoch : equalFoldEpoch "Epoch" = true := by decide

theorem sizesOf_eq (cols : List Column) : shapesLen (cols.map toShape) = sizesOf cols := by
  unfold shapesLen sizesOf
  rw [List.map_map]
  rfl

/-! ## the offset walk of `Rows.GetColumn` -/

theorem walk_skip (r : Rows) (colname : String) (pre : List Column)
    (hpre : ∀ c ∈ pre, c.name ≠ colname) (tail : List DataShape) (off : Nat) :
    r.getColumnWalk colname (pre.map toShape ++ tail) off =
      r.getColumnWalk colname tail (off + sizesOf pre) := by
  induction pre generalizing off with
  | nil => simp [sizesOf]
  | cons a t ih =>
    have ha : (a.name == colname) = false := by simpa using hpre a (by simp)
    rw [List.map_cons, List.cons_append, Rows.getColumnWalk]
    simp only [toShape, ha, Bool.false_eq_true, if_false]
    rw [ih (fun c hc => hpre c (by simp [hc]))]
    simp only [sizesOf, List.map_cons, List.sum_cons, Nat.add_assoc]

theorem walk_hit (r : Rows) (c : Column) (tail : List DataShape) (off rt sz : Nat)
    (h : getterTable.lookup c.typ = some (rt, sz)) :
    r.getColumnWalk c.name (toShape c :: tail) off =
      (getColumnLoop r.data sz r.rowLen r.getNumRows off).map (fun col => some (rt, col)) := by
  rw [Rows.getColumnWalk]
  simp only [toShape, beq_self_eq_true, if_true, h]
  cases getColumnLoop r.data sz r.rowLen r.getNumRows off <;> rfl

/-! ## `addRest` on distinct names -/

theorem addRest_ok (r : Rows) (todo done : List Column)
    (hget : ∀ c ∈ todo, r.getColumn c.name = .ok (some (readType c.typ, c.elems)))
    (hne : ∀ c ∈ todo, c.name ≠ "Epoch")
    (hnd : ((done ++ todo).map (·.name)).Nodup) :
    r.addRest (todo.map toShape) ⟨done, []⟩ = .ok ⟨done ++ todo.map retype, []⟩ := by
  induction todo generalizing done with
  | nil => simp [Rows.addRest]
  | cons c t ih =>
    have hc : (c.name == "Epoch") = false := by simpa using hne c (by simp)
    rw [List.map_cons, Rows.addRest]
    simp only [toShape, hc, Bool.false_eq_true, if_false, hget c (by simp)]
    have hfresh : c.name ∉ done.map (·.name) := by
      intro hm
      rw [List.map_append, List.map_cons] at hnd
      have := (List.nodup_append.mp hnd).2.2 _ hm c.name (by simp)
      exact this rfl
    have hadd : addGot ⟨done, []⟩ c.name (some (readType c.typ, c.elems)) = ⟨done ++ [retype c], []⟩ := by
      simp only [addGot, addColumn_fresh done c.name _ _ hfresh, retype]
    show (do let col ← (Except.ok (some (readType c.typ, c.elems)) : Res _); r.addRest (t.map toShape) (addGot ⟨done, []⟩ c.name col)) = _
    simp only [bind, Except.bind, hadd]
    have := ih (done ++ [retype c]) (fun x hx => hget x (by simp [hx])) (fun x hx => hne x (by simp [hx]))
      (by simpa [retype, List.map_append] using hnd)
    simpa [toShape, List.append_assoc] using this

/-! ## the whole serialization on a valid series -/

/-- the columns of a valid series in record order: int64 `Epoch` column `e`, then the others;
distinct names, every column `e.elems.length` elements of its type's size -/
structure ValidEF (e : Column) (rest : List Column) : Prop where
  ename : e.name = "Epoch"
  etyp : e.typ = INT64
  nodup : ((e :: rest).map (·.name)).Nodup
  wf : ∀ c ∈ e :: rest, c.WF e.elems.length

/-- pinned: the current `SerializeColumnsToRows` matches the Epoch column by its exact name -/
theorem epochExact_true : epochExact = true := by decide

theorem isEpochName_eq (n : String) : isEpochName n = (n == "Epoch") := by
  simp [isEpochName, epochExact_true]

theorem ValidEF.rest_ne {e : Column} {rest : List Column} (hv : ValidEF e rest) :
    ∀ c ∈ rest, c.name ≠ "Epoch" := by
  intro c hc h
  have := hv.nodup
  simp only [List.map_cons, List.nodup_cons, hv.ename] at this
  exact this.1 (List.mem_map.mpr ⟨c, hc, h⟩)

theorem getMissing_sub (required available : List DataShape) (hne : required ≠ [])
    (hsub : ∀ s ∈ required, s ∈ available) :
    getMissingAndTypeCoercionColumns required available = .ok ([], []) := by
  unfold getMissingAndTypeCoercionColumns
  have h1 : required.isEmpty = false := by cases required <;> simp_all
  have h0 : available.isEmpty = false := by
    cases required with
    | nil => exact absurd rfl hne
    | cons r _ => cases available with
      | nil => exact absurd (hsub r (by simp)) (by simp)
      | cons _ _ => rfl
  have h2 : required.all (fun s => available.contains s) = true := by
    rw [List.all_eq_true]; intro x hx; simpa using hsub x hx
  simp only [h0, h1, h2, Bool.false_eq_true, if_false, Bool.not_false, Bool.and_self, if_true]

theorem colInBytesList_ok (cols : List Column) (incr : List (String × Nat))
    (hnd : (cols.map (·.name)).Nodup) (sel : List Column) (hsel : ∀ c ∈ sel, c ∈ cols) :
    colInBytesList ⟨cols, incr⟩ (sel.map toShape) = .ok (sel.map (fun c => c.elems.flatten)) := by
  unfold colInBytesList
  apply mapM_map_ok
  intro c hc
  simp only [toShape, ColumnSeries.find?, find_of_nodup cols hnd c (hsel c hc)]
  rfl

theorem wordList_cons (c : Column) (l : List Column) :
    wordList ((c :: l).map toShape) ((c :: l).map (fun c => c.elems.flatten)) =
      (if c.name == "Epoch" then [] else [(typeSize c.typ, c.elems.flatten)]) ++
        wordList (l.map toShape) (l.map (fun c => c.elems.flatten)) := by
  unfold wordList
  rw [List.map_cons, List.map_cons, List.zip_cons_cons, List.filter_cons]
  cases h : (c.name == "Epoch") <;> simp [toShape, isEpochName_eq, h]

theorem wordList_others (l : List Column) (hna : ∀ c ∈ l, c.name ≠ "Epoch") :
    wordList (l.map toShape) (l.map (fun c => c.elems.flatten)) = wordsOf l := by
  induction l with
  | nil => rfl
  | cons c t ih =>
    have : (c.name == "Epoch") = false := by simpa using hna c (by simp)
    rw [wordList_cons, ih (fun x hx => hna x (by simp [hx])), this]
    rfl

theorem wordList_ok (e : Column) (rest : List Column) (he : e.name = "Epoch")
    (hna : ∀ c ∈ rest, c.name ≠ "Epoch") :
    wordList ((e :: rest).map toShape) ((e :: rest).map (fun c => c.elems.flatten)) = wordsOf rest := by
  rw [wordList_cons, wordList_others rest hna, he]
  rfl

/-- record length: 8 (Epoch) + the other fields, aligned up to 8 when requested -/
def recLen (rest : List Column) (align : Bool) : Nat :=
  if align then alignedSize (8 + sizesOf rest) else 8 + sizesOf rest

theorem alignedSize_ge (n : Nat) : n ≤ alignedSize n := by
  unfold alignedSize; split <;> omega

theorem recLen_ge (rest : List Column) (align : Bool) : 8 + sizesOf rest ≤ recLen rest align := by
  unfold recLen; split
  · exact alignedSize_ge _
  · exact Nat.le_refl _

/-- serializing the series `cols` with the shapes `e :: rest` (all of them columns of the series,
in any order of the series) -/
theorem serialize_ok (cols : List Column) (incr : List (String × Nat)) (e : Column) (rest : List Column)
    (align : Bool) (hv : ValidEF e rest) (hnd : (cols.map (·.name)).Nodup)
    (hsub : ∀ c ∈ e :: rest, c ∈ cols) :
    serializeColumnsToRows ⟨cols, incr⟩ ((e :: rest).map toShape) align =
      .ok ((rowsFrom rest (recLen rest align - (8 + sizesOf rest)) e.elems 0).flatten, recLen rest align) := by
  have hshape : shapesLen ((e :: rest).map toShape) = 8 + sizesOf rest := by
    rw [sizesOf_eq]; simp only [sizesOf, List.map_cons, List.sum_cons, hv.etyp, typeSize_INT64]
  have hrl : recordLenOf ((e :: rest).map toShape) align = recLen rest align := by
    unfold recordLenOf recLen; rw [hshape]
  have hany : ((e :: rest).map toShape).any (fun s => isEpochName s.name) = true := by
    simp [toShape, hv.ename, isEpochName_eq]
  have hep : epochColumn ⟨cols, incr⟩ = .ok e.elems := by
    unfold epochColumn ColumnSeries.find?
    have := find_of_nodup cols hnd e (hsub e (by simp))
    rw [hv.ename] at this
    simp only [this, hv.etyp, beq_self_eq_true, if_true]
    rfl
  have hrest : ∀ c ∈ rest, c.WF e.elems.length := fun c hc => hv.wf c (by simp [hc])
  unfold serializeColumnsToRows
  have hds : (ColumnSeries.mk cols incr).getDataShapes = cols.map toShape := rfl
  rw [hds, getMissing_sub _ _ (by simp) (by
    intro s hs
    obtain ⟨c, hc, rfl⟩ := List.mem_map.mp hs
    exact List.mem_map.mpr ⟨c, hsub c hc, rfl⟩)]
  simp only [bind, Except.bind, List.isEmpty_nil, Bool.not_true, Bool.false_eq_true, if_false,
    List.foldlM_nil, pure, Except.pure, colInBytesList_ok cols incr hnd (e :: rest) hsub, hany, hep, hrl, hshape,
    wordList_ok e rest hv.ename hv.rest_ne,
    serializeLoop_ok rest e.elems.length _ hrest e.elems 0 (by omega)]

/-! ## reading the records back -/

/-- the `Rows` value both readers work on after a valid serialization -/
def rowsOf (e : Column) (rest : List Column) (align : Bool) : Rows :=
  ⟨(e :: rest).map toShape,
   (rowsFrom rest (recLen rest align - (8 + sizesOf rest)) e.elems 0).flatten, recLen rest align⟩

theorem shapesLen_valid (e : Column) (rest : List Column) (hv : ValidEF e rest) :
    shapesLen ((e :: rest).map toShape) = 8 + sizesOf rest := by
  rw [sizesOf_eq]; simp only [sizesOf, List.map_cons, List.sum_cons, hv.etyp, typeSize_INT64]

theorem newRows_valid (e : Column) (rest : List Column) (align : Bool) (hv : ValidEF e rest) :
    newRows ((e :: rest).map toShape) (rowsOf e rest align).data (recLen rest align) = rowsOf e rest align := by
  unfold newRows
  rw [shapesLen_valid e rest hv]
  have := recLen_ge rest align
  simp only [rowsOf]
  rw [if_neg (by omega)]

theorem newRowSeries_valid (e : Column) (rest : List Column) (align : Bool) (hv : ValidEF e rest) :
    newRowSeries (rowsOf e rest align).data ((e :: rest).map toShape) (recLen rest align)
      Mkts.Extracted.utils_io_NOTYPE.toNat = rowsOf e rest align := by
  have h : (Mkts.Extracted.utils_io_NOTYPE.toNat == Mkts.Extracted.utils_io_VARIABLE.toNat) = false := by decide
  unfold newRowSeries
  rw [h]
  simp only [Bool.false_eq_true, if_false]
  exact newRows_valid e rest align hv

theorem rows_uniform (e : Column) (rest : List Column) (align : Bool) (hv : ValidEF e rest) :
    ∀ r ∈ rowsFrom rest (recLen rest align - (8 + sizesOf rest)) e.elems 0, r.length = recLen rest align := by
  intro r hr
  have hrest : ∀ c ∈ rest, c.WF e.elems.length := fun c hc => hv.wf c (by simp [hc])
  have hes : ∀ x ∈ e.elems, x.length = 8 := by
    intro x hx; have := (hv.wf e (by simp)).2 x hx; rw [hv.etyp, typeSize_INT64] at this; exact this
  have := rowsFrom_uniform rest e.elems.length _ hrest e.elems hes 0 (by omega) r hr
  have hg := recLen_ge rest align
  omega

theorem numRows_valid (e : Column) (rest : List Column) (align : Bool) (hv : ValidEF e rest) :
    (rowsOf e rest align).getNumRows = e.elems.length := by
  have hlen := flatten_length_uniform (recLen rest align) _ (rows_uniform e rest align hv)
  rw [rowsFrom_length] at hlen
  have hg := recLen_ge rest align
  unfold Rows.getNumRows
  simp only [rowsOf, hlen]
  by_cases hn : e.elems.length = 0
  · have : e.elems = [] := List.eq_nil_of_length_eq_zero hn
    simp [this, rowsFrom]
  · have hL : 0 < recLen rest align := by omega
    have hne : ((rowsFrom rest (recLen rest align - (8 + sizesOf rest)) e.elems 0).flatten.isEmpty) = false := by
      rw [List.isEmpty_eq_false_iff, ← List.length_pos_iff, hlen]
      exact Nat.mul_pos (by omega) hL
    have h0 : (recLen rest align == 0) = false := by simpa using (by omega : recLen rest align ≠ 0)
    simp only [h0, hne, Bool.or_false, Bool.false_eq_true, if_false]
    exact Nat.mul_div_cancel _ hL

theorem readEpoch_valid (e : Column) (rest : List Column) (align : Bool) (hv : ValidEF e rest) :
    getColumnLoop (rowsOf e rest align).data 8 (rowsOf e rest align).rowLen (rowsOf e rest align).getNumRows 0 =
      .ok e.elems := by
  have hes : ∀ x ∈ e.elems, x.length = 8 := by
    intro x hx; have := (hv.wf e (by simp)).2 x hx; rw [hv.etyp, typeSize_INT64] at this; exact this
  have hg := recLen_ge rest align
  have := getColumnLoop_flatten 8 (recLen rest align) 0 (by omega) _ (rows_uniform e rest align hv) []
  rw [rowsFrom_length, rowsFrom_epoch rest _ e.elems hes 0] at this
  rw [numRows_valid e rest align hv]
  simpa [rowsOf] using this

theorem sizesOf_append (a b : List Column) : sizesOf (a ++ b) = sizesOf a + sizesOf b := by
  simp [sizesOf, List.map_append, List.sum_append]

theorem getColumn_valid (e : Column) (rest : List Column) (align : Bool) (hv : ValidEF e rest)
    (hty : ∀ c ∈ rest, (getterTable.lookup c.typ).isSome) (c : Column) (hc : c ∈ rest) :
    (rowsOf e rest align).getColumn c.name = .ok (some (readType c.typ, c.elems)) := by
  obtain ⟨pre, post, hsplit⟩ := List.append_of_mem hc
  have hnd := hv.nodup
  rw [hsplit] at hnd
  -- every column before `c` has another name
  have hpre : ∀ x ∈ e :: pre, x.name ≠ c.name := by
    intro x hx hxe
    have h1 : ((e :: pre).map (·.name) ++ c.name :: post.map (·.name)).Nodup := by
      simpa [List.map_append] using hnd
    have := (List.nodup_append.mp h1).2.2 x.name (List.mem_map.mpr ⟨x, hx, rfl⟩) c.name (by simp)
    exact this hxe
  obtain ⟨v, hv'⟩ := Option.isSome_iff_exists.mp (hty c hc)
  obtain ⟨rt, sz⟩ := v
  have hsz := getter_size _ _ _ hv'
  have hrt : readType c.typ = rt := by simp [readType, hv']
  have hshapes : (rowsOf e rest align).dataShape =
      (e :: pre).map toShape ++ (toShape c :: post.map toShape) := by
    simp [rowsOf, hsplit, List.map_append]
  unfold Rows.getColumn
  rw [hshapes, walk_skip _ _ _ hpre, walk_hit _ c _ _ rt sz hv', numRows_valid e rest align hv]
  have hse : sizesOf (e :: pre) = 8 + sizesOf pre := by
    simp only [sizesOf, List.map_cons, List.sum_cons, hv.etyp, typeSize_INT64]
  have hes : ∀ x ∈ e.elems, x.length = 8 := by
    intro x hx; have := (hv.wf e (by simp)).2 x hx; rw [hv.etyp, typeSize_INT64] at this; exact this
  have hg := recLen_ge rest align
  have hsum : sizesOf rest = sizesOf pre + (typeSize c.typ + sizesOf post) := by
    rw [hsplit, sizesOf_append]; simp only [sizesOf, List.map_cons, List.sum_cons]
  have hwf : ∀ x ∈ pre ++ c :: post, x.WF e.elems.length := by
    intro x hx; exact hv.wf x (by rw [hsplit]; simp only [List.mem_cons]; exact Or.inr hx)
  have hcn : c.elems.length = e.elems.length := (hv.wf c (by simp [hc])).1
  have := getColumnLoop_flatten sz (recLen rest align) (8 + sizesOf pre) (by omega) _
    (rows_uniform e rest align hv) []
  rw [rowsFrom_length] at this
  have hfield := rowsFrom_field pre post c e.elems.length (recLen rest align - (8 + sizesOf rest)) hwf
    e.elems hes 0 (by omega)
  rw [← hsplit, ← hsz] at hfield
  rw [hfield, idxFrom_eq_drop c e.elems 0 (by omega), List.drop_zero] at this
  simp only [List.nil_append, List.length_nil, Nat.zero_add] at this
  simp only [rowsOf, hse, Nat.zero_add, hrt]
  rw [this]
  rfl

theorem readType_INT64 : readType INT64 = INT64 := by decide

theorem retype_epoch (e : Column) (hn : e.name = "Epoch") (ht : e.typ = INT64) :
    retype e = ⟨"Epoch", INT64, e.elems⟩ := by
  simp [retype, hn, ht, readType_INT64]

theorem addRest_valid (e : Column) (rest : List Column) (align : Bool) (hv : ValidEF e rest)
    (hty : ∀ c ∈ rest, (getterTable.lookup c.typ).isSome) :
    (rowsOf e rest align).addRest ((e :: rest).map toShape)
      (ColumnSeries.empty.addColumn "Epoch" INT64 e.elems) = .ok ⟨(e :: rest).map retype, []⟩ := by
  have h0 : ColumnSeries.empty.addColumn "Epoch" INT64 e.elems = ⟨[⟨"Epoch", INT64, e.elems⟩], []⟩ :=
    addColumn_fresh [] "Epoch" INT64 e.elems (by simp)
  have hne : ∀ c ∈ rest, c.name ≠ "Epoch" := by
    intro c hc h
    have := hv.nodup
    simp only [List.map_cons, List.nodup_cons, hv.ename] at this
    exact this.1 (List.mem_map.mpr ⟨c, hc, h⟩)
  rw [h0, List.map_cons, Rows.addRest]
  simp only [toShape, hv.ename, beq_self_eq_true, if_true]
  have := addRest_ok (rowsOf e rest align) rest [⟨"Epoch", INT64, e.elems⟩]
    (fun c hc => getColumn_valid e rest align hv hty c hc) hne
    (by simpa [hv.ename] using hv.nodup)
  rw [this, List.map_cons, retype_epoch e hv.ename hv.etyp]
  rfl

/-! ## `ToRowSeries`: the Epoch shape goes first -/

/-- pinned: the current `ToRowSeries` reorders the shapes -/
theorem toRowSeriesReorders_true : toRowSeriesReorders = true := by decide

theorem splitEpoch_none (l : List Column) (h : ∀ c ∈ l, c.name ≠ "Epoch") :
    splitEpoch (l.map toShape) = none := by
  induction l with
  | nil => rfl
  | cons c t ih =>
    have : (c.name == "Epoch") = false := by simpa using h c (by simp)
    simp only [List.map_cons, splitEpoch, toShape, this, Bool.false_eq_true, if_false]
    have := ih (fun x hx => h x (by simp [hx]))
    rw [this]; rfl

theorem splitEpoch_hit (p : List Column) (h : ∀ c ∈ p, c.name ≠ "Epoch") (e : Column)
    (he : e.name = "Epoch") (q : List Column) :
    splitEpoch ((p ++ e :: q).map toShape) = some (p.map toShape, toShape e, q.map toShape) := by
  induction p with
  | nil => simp [splitEpoch, toShape, he]
  | cons c t ih =>
    have hc : (c.name == "Epoch") = false := by simpa using h c (by simp)
    have := ih (fun x hx => h x (by simp [hx]))
    simp only [List.cons_append, List.map_cons, splitEpoch]
    simp only [toShape, hc, Bool.false_eq_true, if_false]
    rw [this]; rfl

theorem nodup_middle (pre post : List Column) (e : Column)
    (hnd : ((pre ++ e :: post).map (·.name)).Nodup) : ((e :: (pre ++ post)).map (·.name)).Nodup :=
  ((List.perm_middle (l₁ := pre) (l₂ := post) (a := e)).map (·.name)).nodup_iff.mp hnd

theorem epochShapeFirst_split (pre post : List Column) (e : Column) (he : e.name = "Epoch")
    (hnd : ((pre ++ e :: post).map (·.name)).Nodup) :
    epochShapeFirst ((pre ++ e :: post).map toShape) = (e :: (pre ++ post)).map toShape := by
  have hnd' := nodup_middle pre post e hnd
  have hothers : ∀ c ∈ pre ++ post, c.name ≠ "Epoch" := by
    intro c hc h
    simp only [List.map_cons, List.nodup_cons, he] at hnd'
    exact hnd'.1 (List.mem_map.mpr ⟨c, hc, h⟩)
  cases pre with
  | nil =>
    simp only [List.nil_append, List.map_cons, epochShapeFirst]
    rw [splitEpoch_none post (fun c hc => hothers c (by simp [hc]))]
  | cons s p =>
    simp only [List.cons_append, List.map_cons, epochShapeFirst]
    rw [splitEpoch_hit p (fun c hc => hothers c (by simp [hc])) e he post]
    simp [List.map_append]

theorem toRowSeriesShapes_split (pre post : List Column) (e : Column) (incr : List (String × Nat))
    (he : e.name = "Epoch") (hnd : ((pre ++ e :: post).map (·.name)).Nodup) :
    toRowSeriesShapes ⟨pre ++ e :: post, incr⟩ = (e :: (pre ++ post)).map toShape := by
  unfold toRowSeriesShapes
  rw [toRowSeriesReorders_true]
  exact epochShapeFirst_split pre post e he hnd

theorem roundTrip_valid (pre post : List Column) (e : Column) (incr : List (String × Nat)) (align : Bool)
    (hv : ValidEF e (pre ++ post)) (hnd : ((pre ++ e :: post).map (·.name)).Nodup)
    (hty : ∀ c ∈ pre ++ post, (getterTable.lookup c.typ).isSome) :
    roundTrip ⟨pre ++ e :: post, incr⟩ align = .ok ⟨(e :: (pre ++ post)).map retype, []⟩ := by
  have hsub : ∀ c ∈ e :: (pre ++ post), c ∈ pre ++ e :: post := by
    intro c hc; simp only [List.mem_cons, List.mem_append] at hc ⊢
    rcases hc with h | h | h
    · exact Or.inr (Or.inl h)
    · exact Or.inl h
    · exact Or.inr (Or.inr h)
  unfold roundTrip
  simp only [toRowSeriesShapes_split pre post e incr hv.ename hnd,
    serialize_ok _ incr e (pre ++ post) align hv hnd hsub, bind, Except.bind]
  show (newRowSeries (rowsOf e (pre ++ post) align).data ((e :: (pre ++ post)).map toShape) (recLen (pre ++ post) align)
    Mkts.Extracted.utils_io_NOTYPE.toNat).rowSeriesToColumnSeries = _
  rw [newRowSeries_valid e _ align hv]
  unfold Rows.rowSeriesToColumnSeries
  rw [readEpoch_valid e _ align hv]
  exact addRest_valid e _ align hv hty

theorem roundTripRows_valid (pre post : List Column) (e : Column) (incr : List (String × Nat)) (align : Bool)
    (hv : ValidEF e (pre ++ post)) (hnd : ((pre ++ e :: post).map (·.name)).Nodup)
    (hty : ∀ c ∈ pre ++ post, (getterTable.lookup c.typ).isSome) :
    roundTripRows ⟨pre ++ e :: post, incr⟩ align = .ok ⟨(e :: (pre ++ post)).map retype, []⟩ := by
  have hsub : ∀ c ∈ e :: (pre ++ post), c ∈ pre ++ e :: post := by
    intro c hc; simp only [List.mem_cons, List.mem_append] at hc ⊢
    rcases hc with h | h | h
    · exact Or.inr (Or.inl h)
    · exact Or.inl h
    · exact Or.inr (Or.inr h)
  unfold roundTripRows
  simp only [toRowSeriesShapes_split pre post e incr hv.ename hnd,
    serialize_ok _ incr e (pre ++ post) align hv hnd hsub, bind, Except.bind]
  show (newRows ((e :: (pre ++ post)).map toShape) (rowsOf e (pre ++ post) align).data
    (recLen (pre ++ post) align)).toColumnSeries = _
  rw [newRows_valid e _ align hv]
  unfold Rows.toColumnSeries
  have hget : (rowsOf e (pre ++ post) align).getColumn "Epoch" = .ok (some (INT64, e.elems)) := by
    unfold Rows.getColumn
    have : (rowsOf e (pre ++ post) align).dataShape = toShape e :: (pre ++ post).map toShape := rfl
    rw [this, ← hv.ename, walk_hit _ e _ _ INT64 8 (by rw [hv.etyp]; exact lookup_INT64),
      readEpoch_valid e _ align hv]
    rfl
  rw [hget]
  simp only [bind, Except.bind, beq_self_eq_true, if_true]
  exact addRest_valid e _ align hv hty

/-- pinned: the current `Rows.GetColumn` reads BYTE shapes as `[]int8` -/
theorem byteTyped_true : byteTyped = true := by decide

/-- every shape of `GetColumn`'s switch except BOOL keeps its element type -/
theorem getterTable_types :
    getterTable.all (fun p => p.1 == BOOL || p.2.1 == p.1) = true := by decide

theorem readType_eq (t : Nat) (h : (getterTable.lookup t).isSome) (h2 : t ≠ BOOL) :
    readType t = t := by
  obtain ⟨v, hv⟩ := Option.isSome_iff_exists.mp h
  have hm := lookup_some_mem _ _ _ hv
  have := List.all_eq_true.mp getterTable_types _ hm
  simp only [Bool.or_eq_true, beq_iff_eq] at this
  simp only [readType, hv]
  rcases this with h | h
  · exact absurd h h2
  · exact h

theorem flatten_rows_length (e : Column) (rest : List Column) (align : Bool) (hv : ValidEF e rest) :
    (rowsOf e rest align).data.length = e.elems.length * recLen rest align := by
  have := flatten_length_uniform (recLen rest align) _ (rows_uniform e rest align hv)
  rw [rowsFrom_length] at this
  exact this

/-! ## the input classes of C29 (used in the statements of `Mkts.Props.C29`) -/

/-- a column series the property speaks about: distinct names (invariant of `AddColumn`), an
int64 `Epoch` column, every column of a fixed-width type handled by `GetColumn`, all columns of
the series' length, every element of its type's size -/
def ValidSeries (cs : ColumnSeries) : Prop :=
  (cs.cols.map (·.name)).Nodup ∧
  (∃ c ∈ cs.cols, c.name = "Epoch" ∧ c.typ = INT64) ∧
  (∀ c ∈ cs.cols, (getterTable.lookup c.typ).isSome ∧ c.elems.length = cs.len ∧
    ∀ x ∈ c.elems, x.length = typeSize c.typ)

instance (cs : ColumnSeries) : Decidable (ValidSeries cs) := by unfold ValidSeries; infer_instance

/-- hypothesis `no_bool`: no column of element type BOOL -/
def no_bool (cs : ColumnSeries) : Prop := ∀ c ∈ cs.cols, c.typ ≠ BOOL
/-- the first column is `Epoch` -/
def epoch_first (cs : ColumnSeries) : Prop := (cs.cols.head?.map (·.name)) = some "Epoch"

instance (cs : ColumnSeries) : Decidable (no_bool cs) := by unfold no_bool; infer_instance
instance (cs : ColumnSeries) : Decidable (epoch_first cs) := by unfold epoch_first; infer_instance

/-- the columns with the `Epoch` column moved to the front (both readers add Epoch first) -/
def epochFront (cols : List Column) : List Column :=
  cols.filter (fun c => c.name == "Epoch") ++ cols.filter (fun c => !(c.name == "Epoch"))

theorem filter_none (l : List Column) (p : Column → Bool) (h : ∀ c ∈ l, p c = false) : l.filter p = [] := by
  rw [List.filter_eq_nil_iff]; intro c hc; simp [h c hc]

theorem epochFront_split (pre post : List Column) (e : Column) (he : e.name = "Epoch")
    (hothers : ∀ c ∈ pre ++ post, c.name ≠ "Epoch") :
    epochFront (pre ++ e :: post) = e :: (pre ++ post) := by
  have hp : ∀ c ∈ pre, (c.name == "Epoch") = false := fun c hc => by simpa using hothers c (by simp [hc])
  have hq : ∀ c ∈ post, (c.name == "Epoch") = false := fun c hc => by simpa using hothers c (by simp [hc])
  have he' : (e.name == "Epoch") = true := by simp [he]
  unfold epochFront
  rw [List.filter_append, List.filter_append, List.filter_cons, List.filter_cons,
    filter_none pre _ hp, filter_none post _ hq, he']
  have h1 : pre.filter (fun c => !(c.name == "Epoch")) = pre :=
    List.filter_eq_self.mpr (fun c hc => by simp [hp c hc])
  have h2 : post.filter (fun c => !(c.name == "Epoch")) = post :=
    List.filter_eq_self.mpr (fun c hc => by simp [hq c hc])
  rw [h1, h2]
  simp

/-- a valid series splits at its Epoch column -/
theorem valid_split (cs : ColumnSeries) (hv : ValidSeries cs) :
    ∃ pre e post, cs.cols = pre ++ e :: post ∧ ValidEF e (pre ++ post) ∧
      (∀ c ∈ pre ++ post, (getterTable.lookup c.typ).isSome) ∧
      epochFront cs.cols = e :: (pre ++ post) ∧ cs.len = e.elems.length := by
  obtain ⟨hnd, ⟨e, he, hen, het⟩, hall⟩ := hv
  obtain ⟨pre, post, hsplit⟩ := List.append_of_mem he
  rw [hsplit] at hnd
  have hnd' := nodup_middle pre post e hnd
  have hlen : cs.len = e.elems.length := (hall e he).2.1.symm
  have hmem : ∀ c ∈ e :: (pre ++ post), c ∈ cs.cols := by
    intro c hc; rw [hsplit]; simp only [List.mem_cons, List.mem_append] at hc ⊢
    rcases hc with h | h | h
    · exact Or.inr (Or.inl h)
    · exact Or.inl h
    · exact Or.inr (Or.inr h)
  have hvef : ValidEF e (pre ++ post) := ⟨hen, het, hnd', fun c hc => by
    have := hall c (hmem c hc)
    exact ⟨by rw [← hlen]; exact this.2.1, this.2.2⟩⟩
  refine ⟨pre, e, post, hsplit, hvef, fun c hc => (hall c (hmem c (by simp [hc]))).1, ?_, hlen⟩
  rw [hsplit]
  exact epochFront_split pre post e hen hvef.rest_ne

theorem epochFront_of_first (cs : ColumnSeries) (hv : ValidSeries cs) (h : epoch_first cs) :
    epochFront cs.cols = cs.cols := by
  obtain ⟨pre, e, post, hsplit, hvef, _, hfront, _⟩ := valid_split cs hv
  rw [hfront, hsplit]
  cases pre with
  | nil => rfl
  | cons c p =>
    exfalso
    have : c.name = "Epoch" := by simpa [epoch_first, hsplit] using h
    exact hvef.rest_ne c (by simp) this

end Mkts.Rows
