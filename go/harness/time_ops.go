package main

import (
	"fmt"
	"strings"
	"time"
	_ "time/tzdata"

	"github.com/alpacahq/marketstore/v4/utils"
	mio "github.com/alpacahq/marketstore/v4/utils/io"
)

// zoneToken renders "<name>|<init>;<t>:<off>;..." with every transition of the location in
// [lo, hi] (unix seconds), as reported by Go's own time.Time.ZoneBounds.
func zoneToken(name string, lo, hi int64) string {
	loc, err := time.LoadLocation(name)
	must(err)
	var sb strings.Builder
	t := time.Unix(lo, 0).In(loc)
	_, off := t.Zone()
	fmt.Fprintf(&sb, "%s|%d", name, off)
	prev := off
	for steps := 0; steps < 100000; steps++ {
		_, end := t.ZoneBounds()
		if end.IsZero() || end.Unix() > hi {
			break
		}
		if !end.After(t) { // Go's extended (post-2037) rules can report an empty period
			t = t.Add(time.Hour)
			continue
		}
		_, o := end.Zone()
		if o != prev {
			fmt.Fprintf(&sb, ";%d:%d", end.Unix(), o)
			prev = o
		}
		t = end
	}
	return sb.String()
}

func zoneLoc(tok string) *time.Location {
	name := strings.SplitN(tok, "|", 2)[0]
	loc, err := time.LoadLocation(name)
	if err != nil {
		panic("bad-arg zone " + name)
	}
	return loc
}

func b2s(b bool) string {
	if b {
		return "1"
	}
	return "0"
}

func nsTime(ns int64) time.Time { return time.Unix(0, ns) }

func init() {
	// slot t tf rec zoneCfg zoneLocal
	ops["slot"] = func(a []string) string {
		t, tf, rec := atoi(a[0]), atoi(a[1]), atoi(a[2])
		cfg, loc := zoneLoc(a[3]), zoneLoc(a[4])
		oldCfg, oldLocal := utils.InstanceConfig.Timezone, time.Local
		utils.InstanceConfig.Timezone, time.Local = cfg, loc
		defer func() { utils.InstanceConfig.Timezone, time.Local = oldCfg, oldLocal }()
		tt := nsTime(t)
		d := time.Duration(tf)
		y := tt.In(cfg).Year()
		idx := mio.TimeToIndex(tt, d)
		start := mio.IndexToTime(idx, d, int16(y))
		next := mio.IndexToTime(idx+1, d, int16(y))
		off := mio.IndexToOffset(idx, int32(rec))
		fsz := mio.FileSize(d, y, int(rec))
		back := mio.TimeToIndex(start, d)
		p := b2s(!start.After(tt)) + b2s(tt.Before(next)) + b2s(back == idx) +
			b2s(off >= mio.Headersize) + b2s(off+rec <= fsz)
		return fmt.Sprintf("idx=%d year=%d start=%d next=%d off=%d fsize=%d back=%d P=%s",
			idx, y, start.UnixNano(), next.UnixNano(), off, fsz, back, p)
	}

	gens["C30"] = func(g *Gen) {
		zones := []string{"UTC", "America/New_York", "Europe/London", "Asia/Kolkata", "Asia/Pyongyang",
			"Pacific/Apia", "Australia/Lord_Howe", "America/Sao_Paulo", "America/Caracas", "Asia/Tokyo"}
		locals := []string{"UTC", "UTC", "UTC", "America/New_York", "Asia/Tokyo"}
		tfs := []int64{1e9, 10e9, 60e9, 300e9, 900e9, 1800e9, 3600e9, 4 * 3600e9, 86400e9}
		recs := []int64{8, 12, 24, 48, 4000}
		n := g.N(3000, 60000)
		for i := 0; i < n; i++ {
			zn := zones[g.Intn(len(zones))]
			ln := locals[g.Intn(len(locals))]
			if g.Intn(4) == 0 {
				ln = zn
			}
			loc, _ := time.LoadLocation(zn)
			year := 1971 + g.Intn(130)
			if g.Intn(3) == 0 {
				year = int(g.Pick(2011, 2012, 2015, 2016, 2007, 2008, 2018, 2019, 2000, 2100, 2024))
			}
			tf := tfs[g.Intn(len(tfs))]
			var t time.Time
			tag := ""
			switch g.Intn(8) {
			case 0: // first instants of the local year
				t = time.Date(year, 1, 1, 0, 0, 0, 0, loc).Add(time.Duration(g.Pick(0, 1, tf-1, tf, tf+1, 86400e9-1, 86400e9)))
				tag = "year_start"
			case 1: // last instants of the local year
				t = time.Date(year+1, 1, 1, 0, 0, 0, 0, loc).Add(-time.Duration(g.Pick(1, 2, tf-1, tf, tf+1, 86400e9)))
				tag = "year_end"
			case 2: // leap day
				t = time.Date(year-year%4, 2, 29, g.Intn(24), g.Intn(60), g.Intn(60), g.Intn(1e9), loc)
				tag = "leap_day"
			case 3: // around a zone transition of that year
				probe := time.Date(year, time.Month(1+g.Intn(12)), 1+g.Intn(28), 12, 0, 0, 0, loc)
				_, end := probe.ZoneBounds()
				if end.IsZero() {
					t = probe
					tag = "random"
				} else {
					t = end.Add(time.Duration(g.Pick(-3600e9, -1, 0, 1, 1800e9, 3600e9-1, 3600e9, -tf, tf)))
					tag = "zone_transition"
				}
			case 4: // interval edges
				base := time.Date(year, time.Month(1+g.Intn(12)), 1+g.Intn(28), 0, 0, 0, 0, loc).UnixNano()
				k := int64(g.Intn(int(86400e9 / tf * 2)))
				t = nsTime(base + k*tf + g.Pick(-1, 0, 1))
				tag = "interval_edge"
			default:
				t = time.Date(year, time.Month(1+g.Intn(12)), 1+g.Intn(31), g.Intn(24), g.Intn(60), g.Intn(60), g.Intn(1e9), loc)
				tag = "random"
			}
			lo, hi := t.Unix()-800*86400, t.Unix()+800*86400
			line := fmt.Sprintf("slot %d %d %d %s %s", t.UnixNano(), tf, recs[g.Intn(len(recs))],
				zoneToken(zn, lo, hi), zoneToken(ln, lo, hi))
			tftag := "tf:sub-day"
			if tf == 86400e9 {
				tftag = "tf:1D"
			}
			g.Emit(line, tag, "zone:"+zn, tftag)
		}
	}
}
