package main

// Ops and generator for C27 (wire format round trip): NewNumpyDataset / NewNumpyMultiDataset /
// Append, a real msgpack encode + decode of the response struct, then both decoders
// (io.NumpyMultiDataset.ToColumnSeriesMap and frontend.MultiQueryResponse.ToColumnSeriesMap).

import (
	"fmt"
	"sort"
	"strings"

	"github.com/alpacahq/marketstore/v4/frontend"
	mio "github.com/alpacahq/marketstore/v4/utils/io"
	"github.com/vmihailenco/msgpack"
)

type bucket struct {
	key string
	cs  *mio.ColumnSeries
}

func parseBuckets(tok string) []bucket {
	if tok == "-" {
		return nil
	}
	var out []bucket
	for _, b := range strings.Split(tok, "|") {
		p := strings.Split(b, "@")
		if len(p) != 2 {
			panic("bad-arg bucket")
		}
		k, err := unhx(p[0])
		must(err)
		out = append(out, bucket{string(k), parseCS(p[1])})
	}
	return out
}

func showCSM(csm mio.ColumnSeriesMap) string {
	if len(csm) == 0 {
		return "-"
	}
	var parts []string
	for k, cs := range csm {
		parts = append(parts, hx([]byte(k.String()))+"@"+showCS(cs))
	}
	sort.Strings(parts) // hex of the key first: bytewise key order
	return strings.Join(parts, "|")
}

func showIntMap(m map[string]int) string {
	if len(m) == 0 {
		return "-"
	}
	var parts []string
	for k, v := range m {
		parts = append(parts, fmt.Sprintf("%s:%d", hx([]byte(k)), v))
	}
	sort.Strings(parts)
	return strings.Join(parts, ",")
}

func showStrs(l []string) string {
	if len(l) == 0 {
		return "-"
	}
	p := make([]string, len(l))
	for i, s := range l {
		p[i] = hx([]byte(s))
	}
	return strings.Join(p, ",")
}

func showBlobs(l [][]byte) string {
	if len(l) == 0 {
		return "-"
	}
	p := make([]string, len(l))
	for i, b := range l {
		if len(b) == 0 {
			p[i] = "~"
		} else {
			p[i] = hx(b)
		}
	}
	return strings.Join(p, ",")
}

// guarded runs f and maps a panic to its class (the two decoders are reported separately).
func guarded(f func() string) (res string) {
	defer func() {
		if r := recover(); r != nil {
			lastPanic = fmt.Sprint(r)
			res = panicClass(r)
		}
	}()
	return f()
}

func decodeErrClass(err error) string {
	s := err.Error()
	switch {
	case strings.Contains(s, "unsupported type string"):
		return "err:type"
	}
	return "err:other"
}

// wire sends the response through the real msgpack encoder and decoder.
func wire(resp *frontend.MultiQueryResponse) *frontend.MultiQueryResponse {
	enc, err := msgpack.Marshal(resp)
	must(err)
	out := &frontend.MultiQueryResponse{}
	must(msgpack.Unmarshal(enc, out))
	return out
}

func showDecoded(nmds *mio.NumpyMultiDataset) string {
	// (a) server side of a write request / numpy.go decoder, on its own decoded copy
	a := guarded(func() string {
		d := wire(&frontend.MultiQueryResponse{Responses: []frontend.QueryResponse{{Result: nmds}}})
		csm, err := d.Responses[0].Result.ToColumnSeriesMap()
		if err != nil {
			return decodeErrClass(err)
		}
		return showCSM(csm)
	})
	// (b) client side of a query response
	b := guarded(func() string {
		d := wire(&frontend.MultiQueryResponse{Responses: []frontend.QueryResponse{{Result: nmds}}})
		csm, err := d.ToColumnSeriesMap()
		if err != nil {
			return decodeErrClass(err)
		}
		return showCSM(*csm)
	})
	return "a=" + a + " b=" + b
}

func init() {
	// nprt buckets
	ops["nprt"] = func(a []string) string {
		buckets := parseBuckets(a[0])
		// hand copy of the composition loop of frontend/query.go executeQuery (lines 231-250),
		// including its test of the outer `err` instead of `err2`
		var nmds *mio.NumpyMultiDataset
		var err error
		for _, b := range buckets {
			tbk := *mio.NewTimeBucketKeyFromString(b.key)
			nds, err2 := mio.NewNumpyDataset(b.cs)
			if err != nil {
				return "err:" + err2.Error()
			}
			if nmds == nil {
				nmds, err = mio.NewNumpyMultiDataset(nds, tbk)
				if err != nil {
					return "err:other"
				}
			} else {
				err3 := nmds.Append(b.cs, tbk)
				if err3 != nil {
					switch {
					case strings.Contains(err3.Error(), "length of columns mismatch"):
						return "err:append-colcount"
					case strings.Contains(err3.Error(), "data shape mismatch"):
						return "err:append-names"
					case strings.Contains(err3.Error(), "data type mismatch"):
						return "err:append-types"
					}
					return "err:other"
				}
			}
		}
		if nmds == nil {
			return "nil " + showDecoded(nil)
		}
		return fmt.Sprintf("types=%s names=%s len=%d data=%s si=%s ln=%s %s", showStrs(nmds.ColumnTypes),
			showStrs(nmds.ColumnNames), nmds.Length, showBlobs(nmds.ColumnData), showIntMap(nmds.StartIndex),
			showIntMap(nmds.Lengths), showDecoded(nmds))
	}

	// npdec types names data len startindex lengths
	ops["npdec"] = func(a []string) string {
		unstrs := func(tok string) []string {
			if tok == "-" {
				return nil
			}
			var out []string
			for _, s := range strings.Split(tok, ",") {
				b, err := unhx(s)
				must(err)
				out = append(out, string(b))
			}
			return out
		}
		unmap := func(tok string) map[string]int {
			m := map[string]int{}
			if tok == "-" {
				return m
			}
			for _, s := range strings.Split(tok, ",") {
				p := strings.Split(s, ":")
				k, err := unhx(p[0])
				must(err)
				m[string(k)] = int(atoi(p[1]))
			}
			return m
		}
		var data [][]byte
		if a[2] != "-" {
			for _, s := range strings.Split(a[2], ",") {
				if s == "~" {
					data = append(data, []byte{})
					continue
				}
				b, err := unhx(s)
				must(err)
				data = append(data, b)
			}
		}
		nmds := &mio.NumpyMultiDataset{
			NumpyDataset: mio.NumpyDataset{ColumnTypes: unstrs(a[0]), ColumnNames: unstrs(a[1]), ColumnData: data, Length: int(atoi(a[3]))},
			StartIndex:   unmap(a[4]), Lengths: unmap(a[5]),
		}
		return showDecoded(nmds)
	}

	gens["C27"] = genC27
}

var wireTypes = []int{0, 1, 2, 3, 5, 9, 10, 11, 12, 13, 14}

func genC27(g *Gen) {
	syms := []string{"AAPL", "TSLA", "BTC-USD", "X", "005930", "A.B"}
	tfs := []string{"1Min", "1D", "1Sec", "5Min"}
	ags := []string{"OHLCV", "TICK", "Q"}
	mkKey := func(used map[string]bool) string {
		for {
			k := fmt.Sprintf("%s/%s/%s:Symbol/Timeframe/AttributeGroup", syms[g.Intn(len(syms))], tfs[g.Intn(len(tfs))], ags[g.Intn(len(ags))])
			if !used[k] {
				used[k] = true
				return k
			}
		}
	}
	type col struct {
		name string
		typ  int
	}
	mkSchema := func() []col {
		ncol := 1 + g.Intn(4)
		if g.Intn(8) == 0 {
			ncol = 5 + g.Intn(6)
		}
		sc := []col{{"Epoch", 3}}
		used := map[string]bool{"Epoch": true}
		for c := 1; c < ncol; c++ {
			name := randName(g, c)
			for used[name] {
				name += "_"
			}
			used[name] = true
			sc = append(sc, col{name, wireTypes[g.Intn(len(wireTypes))]})
		}
		if g.Intn(10) == 0 { // first column of another type / Epoch elsewhere: the wire code does not care
			g.R.Shuffle(len(sc), func(i, j int) { sc[i], sc[j] = sc[j], sc[i] })
		}
		return sc
	}
	mkCS := func(sc []col, n int) string {
		if len(sc) == 0 {
			return "-"
		}
		toks := make([]string, len(sc))
		for i, c := range sc {
			toks[i] = colTok(c.name, c.typ, randElems(g, c.typ, n))
		}
		return strings.Join(toks, ";")
	}
	n := g.N(2500, 30000)
	for i := 0; i < n; i++ {
		nb := int(g.Pick(1, 1, 2, 2, 3, 4, 5))
		sc := mkSchema()
		used := map[string]bool{}
		var bs []string
		tags := []string{fmt.Sprintf("buckets:%d", nb), fmt.Sprintf("ncol:%d", sizeBucket(len(sc)))}
		mode := g.Intn(16)
		zero, diff := false, ""
		for b := 0; b < nb; b++ {
			rows := int(g.Pick(1, 1, 2, 3, 5, 9))
			if g.Thorough() && g.Intn(40) == 0 {
				rows = 100 + g.Intn(10000)
			}
			if mode <= 1 && (g.Intn(2) == 0 || b == nb-1 && !zero) { // zero-length series (C27-F13, repaired)
				rows = 0
				zero = true
			}
			bsc := sc
			if b > 0 && mode == 2 { // differing column types: refused by Append (C27-F27, repaired)
				bsc = append([]col(nil), sc...)
				k := g.Intn(len(bsc))
				switch g.Intn(3) {
				case 0: // same size, other type
					same := map[int][]int{0: {1, 12}, 1: {0, 12}, 12: {0, 1}, 2: {3, 13}, 3: {2, 13}, 13: {2, 3}, 5: {10}, 10: {5}, 9: {11}, 11: {9}, 14: {14}}
					alt := same[bsc[k].typ]
					bsc[k].typ = alt[g.Intn(len(alt))]
					diff = "types_same_size"
				case 1:
					bsc[k].typ = wireTypes[g.Intn(len(wireTypes))]
					diff = "types_any"
				case 2:
					bsc[k].typ = 6 // bool: no wire type, NewNumpyDataset's error is dropped by the loop
					diff = "types_bool_later_bucket"
				}
			}
			if b > 0 && mode == 3 {
				bsc = append([]col(nil), sc...)
				switch g.Intn(3) {
				case 0:
					bsc[g.Intn(len(bsc))].name = "other"
					diff = "names_differ"
				case 1:
					bsc = append(bsc, col{"extra", 1})
					diff = "colcount_more"
				case 2:
					if len(bsc) > 1 {
						bsc = bsc[:len(bsc)-1]
					}
					diff = "colcount_less"
				}
			}
			if mode == 4 && b == 0 && g.Intn(2) == 0 {
				bsc = append([]col(nil), sc...)
				bsc[g.Intn(len(bsc))].typ = 6
				diff = "types_bool_first_bucket"
			}
			bs = append(bs, hx([]byte(mkKey(used)))+"@"+mkCS(bsc, rows))
		}
		if zero {
			tags = append(tags, "zero_length_series")
		}
		if diff != "" {
			tags = append(tags, "mismatch:"+diff)
		}
		if !zero && diff == "" {
			tags = append(tags, "stream:valid")
		}
		g.Emit("nprt "+strings.Join(bs, "|"), tags...)
	}
	// structural edges of the composition
	g.Emit("nprt -", "edge:no_buckets")
	g.Emit("nprt "+hx([]byte("A/1Min/V:Symbol/Timeframe/AttributeGroup"))+"@-", "edge:series_without_columns")
	g.Emit("nprt "+hx([]byte("A/1Min/V:Symbol/Timeframe/AttributeGroup"))+"@-|"+hx([]byte("B/1Min/V:Symbol/Timeframe/AttributeGroup"))+"@-", "edge:series_without_columns")
	g.Emit("nprt "+hx([]byte("A/1Min/V"))+"@"+mkCS([]col{{"Epoch", 3}}, 2), "edge:key_without_category")
	genC27Hostile(g)
}

// genC27Hostile: datasets as an arbitrary client may send them in a write request.
func genC27Hostile(g *Gen) {
	typeStrs := []string{"f4", "i4", "f8", "i8", "i1", "i2", "u1", "u2", "u4", "u8", "U16"}
	sizes := map[string]int{"f4": 4, "i4": 4, "f8": 8, "i8": 8, "i1": 1, "i2": 2, "u1": 1, "u2": 2, "u4": 4, "u8": 8, "U16": 64}
	n := g.N(1200, 12000)
	for i := 0; i < n; i++ {
		ncol := 1 + g.Intn(3)
		rows := int(g.Pick(0, 1, 2, 4, 7))
		var ts, ns, ds []string
		for c := 0; c < ncol; c++ {
			t := typeStrs[g.Intn(len(typeStrs))]
			ts = append(ts, t)
			ns = append(ns, fmt.Sprintf("c%d", c))
			b := g.Bytes(rows * sizes[t])
			if len(b) == 0 {
				ds = append(ds, "~")
			} else {
				ds = append(ds, hx(b))
			}
		}
		key := "S/1Min/V:Symbol/Timeframe/AttributeGroup"
		si := []string{fmt.Sprintf("%s:%d", hx([]byte(key)), 0)}
		ln := []string{fmt.Sprintf("%s:%d", hx([]byte(key)), rows)}
		tag := "wellformed"
		single := true
		switch g.Intn(12) {
		case 0:
			tag = "unknown_type_string"
			ts[g.Intn(ncol)] = []string{"bool", "i3", "?", "S16", "F4"}[g.Intn(5)]
		case 1:
			tag = "range_beyond_data"
			si[0] = fmt.Sprintf("%s:%d", hx([]byte(key)), g.Pick(0, 1, int64(rows), int64(rows)+1))
			ln[0] = fmt.Sprintf("%s:%d", hx([]byte(key)), g.Pick(1, int64(rows), int64(rows)+1, 1000))
		case 2:
			tag = "negative_index_or_length"
			si[0] = fmt.Sprintf("%s:%d", hx([]byte(key)), g.Pick(-1, 0, -5))
			ln[0] = fmt.Sprintf("%s:%d", hx([]byte(key)), g.Pick(-1, 1, 0, -3))
		case 3:
			tag = "fewer_data_columns"
			ds = ds[:len(ds)-1]
		case 4:
			tag = "no_data_columns"
			ds = nil
		case 5:
			tag = "fewer_types_than_names"
			ts = ts[:len(ts)-1]
		case 6:
			tag = "more_types_than_names"
			ts = append(ts, "i4")
		case 7:
			tag = "duplicate_names"
			for c := range ns {
				ns[c] = []string{"A", "A0", "A"}[c%3]
			}
		case 8:
			tag = "missing_length_entry"
			ln = nil
		case 9:
			tag = "first_column_empty"
			ds[0] = "~"
		case 10:
			tag = "several_ranges"
			single = false
			si, ln = nil, nil
			for b := 0; b < 2+g.Intn(3); b++ {
				k := fmt.Sprintf("S%d/1Min/V:Symbol/Timeframe/AttributeGroup", b)
				si = append(si, fmt.Sprintf("%s:%d", hx([]byte(k)), g.Intn(rows+2)))
				ln = append(ln, fmt.Sprintf("%s:%d", hx([]byte(k)), g.Intn(rows+2)))
			}
		case 11:
			tag = "key_without_category"
			k := "S/1Min/V"
			si = []string{fmt.Sprintf("%s:%d", hx([]byte(k)), 0)}
			ln = []string{fmt.Sprintf("%s:%d", hx([]byte(k)), rows)}
		}
		_ = single
		join := func(l []string) string {
			if len(l) == 0 {
				return "-"
			}
			return strings.Join(l, ",")
		}
		hexs := func(l []string) string {
			if len(l) == 0 {
				return "-"
			}
			p := make([]string, len(l))
			for i, s := range l {
				p[i] = hx([]byte(s))
			}
			return strings.Join(p, ",")
		}
		g.Emit(fmt.Sprintf("npdec %s %s %s %d %s %s", hexs(ts), hexs(ns), join(ds), rows, join(si), join(ln)), "hostile:"+tag)
	}
}
