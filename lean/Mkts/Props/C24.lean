import Mkts.Lemmas.OnDiskAgg
import Mkts.Model.OnDiskAggTie
/-!
# C24 On-disk aggregation matches the base data

Model: `Mkts/Model/OnDiskAgg.lean` (`Fire`, `write`, `writeAggregates`, `aggregate`, the cache,
`SliceColumnSeriesByEpoch`, `ColumnSeriesUnion`) on top of the Store model (base and destination
buckets are `Store.Slots`, read with `Store.query`, written with `writeRecords`/`applyCmds`).

* `aggregate_spec` (all series): on a time-sorted series `aggregate` produces exactly one bar per
  window with first open / `MaxFloat32` high / `MinFloat32` low / last close / exact total volume
  (`maxF_spec`: for numbers that high is an element and no element is greater).
* `code_variant`: the three repaired statements of `Fire` (C24-F1 union operand order, C24-F2 cache
  validity = written range inside the cached window, C24-F3 head/tail = earliest/latest record) are in
  the current source (regenerated skeletons, `decide`); the model follows the source through
  `codeVariant`.
* `C24_call` (FULL per trigger call, any variant): every `WriteCSM` a call of `Fire` issues carries the
  property's aggregate of the destination's windows of the series the call holds, and that series is
  the base-bucket query result (cache miss) or the cached window united with the written rows (hit).
* For the repaired source: `hit_new_wins` / `hit_keeps_cached` / `hit_only` (on a hit the written rows
  replace cached rows of the same epoch, every other cached row is kept, nothing else appears),
  `head_tail_cover` (head/tail bracket every written record), `valid_inside` (a hit only happens when
  the written range lies inside the cached window).
* `repaired_stale`, `repaired_window`, `repaired_unordered`: on the three former counterexample
  histories the whole model (store + trigger + cache) now ends with destination = aggregate of the
  stored base bars; `before_repair_*` record what the earlier source did on them.
* Not proved: the history-level statement `C24_full` by induction over the Store model (see notes).
-/
namespace Mkts.Props.C24
open Mkts.OnDiskAgg Mkts.Store Mkts.Timeframe Mkts.Time List

/-! ## `aggregate` -/

theorem mem_specGroups (key : Bar → Int) (cs : CS) (g : Int × Bar × List Bar)
    (hg : g ∈ specGroups key cs) : ∀ x ∈ g.2.1 :: g.2.2, x ∈ cs := by
  simp only [specGroups, List.mem_filterMap] at hg
  obtain ⟨w, _, hw⟩ := hg
  split at hw
  · cases hw
  · rename_i b bs heq
    cases hw
    intro x hx
    have : x ∈ cs.filter (fun b => key b == w) := by rw [heq]; exact hx
    exact (List.mem_filter.mp this).1

theorem accum_eq_specBar (g : Int × Bar × List Bar) (hv : ∀ x ∈ g.2.1 :: g.2.2, 0 ≤ x.v)
    (hs : (specBar g).v ≤ 2147483647) : accum (g.1 / nsPerSec) g.2.1 g.2.2 = some (specBar g) := by
  have hvs : ∀ v ∈ g.2.1.v :: g.2.2.map (·.v), 0 ≤ v := by
    intro v hv'
    rcases List.mem_cons.mp hv' with rfl | h
    · exact hv _ (by simp)
    · obtain ⟨x, hx, rfl⟩ := List.mem_map.mp h
      exact hv x (List.mem_cons_of_mem _ hx)
  have hs' : (g.2.1.v :: g.2.2.map (·.v)).foldl (· + ·) 0 ≤ 2147483647 := hs
  have := sumI32_complete (g.2.1.v :: g.2.2.map (·.v)) 0 (by omega) hvs hs'
  simp only [accum, this]
  rfl

theorem mapM_accum (G : List (Int × Bar × List Bar))
    (h : ∀ g ∈ G, (∀ x ∈ g.2.1 :: g.2.2, 0 ≤ x.v) ∧ (specBar g).v ≤ 2147483647) :
    G.mapM (fun g => accum (g.1 / nsPerSec) g.2.1 g.2.2) = some (G.map specBar) := by
  induction G with
  | nil => rfl
  | cons g G ih =>
    have hg := h g (by simp)
    have ih' := ih (fun g' hg' => h g' (List.mem_cons_of_mem _ hg'))
    simp only [List.mapM_cons, accum_eq_specBar g hg.1 hg.2, ih', List.map_cons]
    rfl

/-- **aggregate_spec**: for every candle duration with fixed intraday windows and every series in
    time order (any length, duplicates allowed) whose volumes are non-negative and whose window
    totals fit int32, `aggregate` returns exactly one bar per window that has bars: first open,
    highest high, lowest low, last close, total volume. -/
theorem aggregate_spec (cd : CandleDuration) (hcd : Intraday cd) (cs : CS)
    (hs : cs.Pairwise (fun a b => a.t ≤ b.t)) (hv : ∀ b ∈ cs, 0 ≤ b.v)
    (hsum : ∀ b ∈ specAgg cd cs, b.v ≤ 2147483647) :
    aggregate cd cs = some (specAgg cd cs) := by
  have hk : cs.Pairwise (fun a c => winKey cd a ≤ winKey cd c) :=
    hs.imp (fun {a b} hab => winKey_mono cd hcd hab)
  have hg : groups cd cs = specGroups (winKey cd) cs := by
    rw [groups_eq_runs cd hcd, runs_eq_specGroups (winKey cd) cs.length cs (Nat.le_refl _) hk]
  simp only [aggregate, hg, specAgg]
  apply mapM_accum
  intro g hgm
  refine ⟨fun x hx => hv x (mem_specGroups _ cs g hgm x hx), ?_⟩
  exact hsum _ (List.mem_map.mpr ⟨g, hgm, rfl⟩)

/-- if `aggregate` returns at all on a time-sorted series of int32 volumes ≥ 0, it returned the spec -/
theorem aggregate_sound (cd : CandleDuration) (hcd : Intraday cd) (cs out : CS)
    (hs : cs.Pairwise (fun a b => a.t ≤ b.t)) (hv : ∀ b ∈ cs, 0 ≤ b.v ∧ b.v ≤ 2147483647)
    (h : aggregate cd cs = some out) : out = specAgg cd cs := by
  have hk : cs.Pairwise (fun a c => winKey cd a ≤ winKey cd c) :=
    hs.imp (fun {a b} hab => winKey_mono cd hcd hab)
  have hg : groups cd cs = specGroups (winKey cd) cs := by
    rw [groups_eq_runs cd hcd, runs_eq_specGroups (winKey cd) cs.length cs (Nat.le_refl _) hk]
  simp only [aggregate, hg, specAgg] at h ⊢
  have key : ∀ (G : List (Int × Bar × List Bar)) (out : CS),
      (∀ g ∈ G, ∀ x ∈ g.2.1 :: g.2.2, 0 ≤ x.v ∧ x.v ≤ 2147483647) →
      G.mapM (fun g => accum (g.1 / nsPerSec) g.2.1 g.2.2) = some out → out = G.map specBar := by
    intro G
    induction G with
    | nil => intro out _ h; simp at h; simp [h]
    | cons g G ih =>
      intro out hG h
      simp only [List.mapM_cons] at h
      cases hacc : accum (g.1 / nsPerSec) g.2.1 g.2.2 with
      | none => simp [hacc] at h
      | some b =>
        cases hrest : G.mapM (fun g => accum (g.1 / nsPerSec) g.2.1 g.2.2) with
        | none => simp [hacc, hrest] at h
        | some bs =>
          simp [hacc, hrest] at h
          have hbs := ih bs (fun g' hg' => hG g' (List.mem_cons_of_mem _ hg')) hrest
          have hb : b = specBar g := by
            simp only [accum] at hacc
            cases hsum : sumI32 0 (g.2.1.v :: g.2.2.map (·.v)) with
            | none => simp [hsum] at hacc
            | some v =>
              have hvs : ∀ v ∈ g.2.1.v :: g.2.2.map (·.v), 0 ≤ v ∧ v ≤ 2147483647 := by
                intro v hv'
                rcases List.mem_cons.mp hv' with rfl | h'
                · exact hG g (by simp) _ (by simp)
                · obtain ⟨x, hx, rfl⟩ := List.mem_map.mp h'
                  exact hG g (by simp) x (List.mem_cons_of_mem _ hx)
              have := sumI32_some _ 0 v (by omega) (by omega) hvs hsum
              simp only [hsum, Option.some.injEq] at hacc
              rw [← hacc, this]
              rfl
          rw [← h, hb, hbs, List.map_cons]
  exact key _ out (fun g hgm x hx => hv x (mem_specGroups _ cs g hgm x hx)) h

/-! ## one trigger call -/

theorem slice_sublist (cs : CS) (a b : Int) : (sliceByEpoch cs a b).Sublist cs := by
  simp only [sliceByEpoch]
  have h1 : (match findIdxGE a cs 0 with | some i => cs.drop i | none => cs).Sublist cs := by
    split
    · exact List.drop_sublist _ _
    · exact List.Sublist.refl _
  split
  · exact (List.take_sublist _ _).trans h1
  · exact h1

/-- every `WriteCSM` issued by `write` carries the property's aggregate of the slice it was computed
    from (intraday destinations, series in time order, int32 volumes ≥ 0) -/
theorem writeLoop_spec (upDur : Int) (cs : CS) (head tail : Int)
    (hs : cs.Pairwise (fun a b => a.t ≤ b.t)) (hv : ∀ b ∈ cs, 0 ≤ b.v ∧ b.v ≤ 2147483647) :
    ∀ (dests : List Dest) (acc : WriteRes) (d : Str) (out : CS),
      (d, out) ∈ (writeLoop upDur cs head tail dests acc).writes →
      (d, out) ∈ acc.writes ∨
        ∃ w, candleDurationFromString d = some w ∧
          (Intraday w → out = specAgg w (sliceByEpoch cs (truncSec w head) (ceilSec w tail - 1))) := by
  intro dests
  induction dests with
  | nil => intro acc d out h; exact Or.inl h
  | cons d0 ds ih =>
    intro acc d out h
    simp only [writeLoop] at h
    split at h
    · exact Or.inl h
    · rename_i w hw
      split at h
      · exact ih acc d out h
      · split at h
        · exact Or.inl h
        · rename_i res hagg
          rcases ih _ d out h with h' | h'
          · simp only [List.mem_append, List.mem_singleton, Prod.mk.injEq] at h'
            rcases h' with h' | ⟨rfl, rfl⟩
            · exact Or.inl h'
            · refine Or.inr ⟨w, hw, fun hin => ?_⟩
              have hsub := slice_sublist cs (truncSec w head) (ceilSec w tail - 1)
              exact aggregate_sound w hin _ _ (hs.sublist hsub) (fun b hb => hv b (hsub.subset hb)) hagg
          · exact Or.inr h'

/-! ### `ColumnSeriesUnion` -/

theorem mem_putBar (b x : Bar) : ∀ (l : CS), x ∈ putBar b l → x = b ∨ x ∈ l := by
  intro l
  induction l with
  | nil => intro h; simp [putBar] at h; exact Or.inl h
  | cons y ys ih =>
    intro h
    simp only [putBar] at h
    split at h
    · rcases List.mem_cons.mp h with h | h
      · exact Or.inl h
      · exact Or.inr h
    · split at h
      · rcases List.mem_cons.mp h with h | h
        · exact Or.inl h
        · exact Or.inr (List.mem_cons_of_mem _ h)
      · rcases List.mem_cons.mp h with h | h
        · exact Or.inr (by rw [h]; simp)
        · rcases ih h with h | h
          · exact Or.inl h
          · exact Or.inr (List.mem_cons_of_mem _ h)

theorem mem_putBar_self (b : Bar) : ∀ (l : CS), b ∈ putBar b l := by
  intro l
  induction l with
  | nil => simp [putBar]
  | cons y ys ih =>
    simp only [putBar]
    split
    · simp
    · split
      · simp
      · exact List.mem_cons_of_mem _ ih

theorem putBar_keeps (b x : Bar) (hne : x.t ≠ b.t) : ∀ (l : CS), x ∈ l → x ∈ putBar b l := by
  intro l
  induction l with
  | nil => intro h; simp at h
  | cons y ys ih =>
    intro h
    simp only [putBar]
    split
    · exact List.mem_cons_of_mem _ h
    · split
      · rename_i heq
        rcases List.mem_cons.mp h with h | h
        · exact absurd (by rw [h]; exact heq.symm) hne
        · exact List.mem_cons_of_mem _ h
      · rcases List.mem_cons.mp h with h | h
        · rw [h]; simp
        · exact List.mem_cons_of_mem _ (ih h)

theorem putBar_sorted (b : Bar) : ∀ (l : CS), l.Pairwise (fun x y => x.t < y.t) →
    (putBar b l).Pairwise (fun x y => x.t < y.t) := by
  intro l
  induction l with
  | nil => intro _; simp [putBar]
  | cons y ys ih =>
    intro hs
    rw [List.pairwise_cons] at hs
    simp only [putBar]
    split
    · rename_i hlt
      refine List.pairwise_cons.mpr ⟨?_, List.pairwise_cons.mpr hs⟩
      intro z hz
      rcases List.mem_cons.mp hz with rfl | hz
      · exact hlt
      · have := hs.1 z hz; omega
    · split
      · rename_i heq
        refine List.pairwise_cons.mpr ⟨?_, hs.2⟩
        intro z hz
        have := hs.1 z hz; omega
      · rename_i hnlt hne
        refine List.pairwise_cons.mpr ⟨?_, ih hs.2⟩
        intro z hz
        rcases mem_putBar b z ys hz with rfl | hz
        · omega
        · exact hs.1 z hz

theorem foldl_put_sorted (l : CS) : ∀ (acc : CS), acc.Pairwise (fun x y => x.t < y.t) →
    (l.foldl (fun a b => putBar b a) acc).Pairwise (fun x y => x.t < y.t) := by
  induction l with
  | nil => intro acc h; exact h
  | cons b l ih => intro acc h; exact ih _ (putBar_sorted b acc h)

theorem foldl_put_mem (l : CS) : ∀ (acc : CS) (x : Bar), x ∈ l.foldl (fun a b => putBar b a) acc →
    x ∈ acc ∨ x ∈ l := by
  induction l with
  | nil => intro acc x h; exact Or.inl h
  | cons b l ih =>
    intro acc x h
    rcases ih _ x h with h | h
    · rcases mem_putBar b x acc h with rfl | h
      · exact Or.inr (by simp)
      · exact Or.inl h
    · exact Or.inr (List.mem_cons_of_mem _ h)

theorem foldl_put_keeps (l : CS) : ∀ (acc : CS) (x : Bar), x ∈ acc → (∀ y ∈ l, x.t ≠ y.t) →
    x ∈ l.foldl (fun a b => putBar b a) acc := by
  induction l with
  | nil => intro acc x h _; exact h
  | cons b l ih =>
    intro acc x h hne
    exact ih _ x (putBar_keeps b x (hne b (by simp)) acc h) (fun y hy => hne y (List.mem_cons_of_mem _ hy))

/-- the union is always in strictly ascending time order -/
theorem union_sorted (l r : CS) : (union l r).Pairwise (fun x y => x.t < y.t) :=
  foldl_put_sorted _ [] List.Pairwise.nil

/-- nothing but rows of the operands -/
theorem union_mem (l r : CS) (x : Bar) (h : x ∈ union l r) : x ∈ l ∨ x ∈ r := by
  rcases foldl_put_mem _ [] x h with h | h
  · simp at h
  · exact List.mem_append.mp h

/-- a row of the RIGHT operand whose epoch occurs once there is in the union: the right operand wins -/
theorem union_right_wins (l r : CS) (hr : r.Pairwise (fun x y => x.t ≠ y.t)) (x : Bar) (hx : x ∈ r) :
    x ∈ union l r := by
  obtain ⟨r1, r2, rfl⟩ := List.append_of_mem hx
  simp only [union, ← List.append_assoc, List.foldl_append, List.foldl_cons]
  apply foldl_put_keeps
  · exact mem_putBar_self _ _
  · intro y hy
    have := List.pairwise_append.mp hr
    exact (List.pairwise_cons.mp this.2.1).1 y hy

/-- a row of the LEFT operand (epochs distinct there) whose epoch does not occur on the right is kept -/
theorem union_left_kept (l r : CS) (hl : l.Pairwise (fun x y => x.t ≠ y.t)) (x : Bar) (hx : x ∈ l)
    (hne : ∀ y ∈ r, x.t ≠ y.t) : x ∈ union l r := by
  simp only [union, List.foldl_append]
  apply foldl_put_keeps _ _ _ _ hne
  obtain ⟨l1, l2, rfl⟩ := List.append_of_mem hx
  simp only [List.foldl_append, List.foldl_cons]
  apply foldl_put_keeps
  · exact mem_putBar_self _ _
  · intro y hy
    have := List.pairwise_append.mp hl
    exact (List.pairwise_cons.mp this.2.1).1 y hy

/-! ### `Fire` -/

/-- the series a call of `Fire` aggregates: on a hit the cache united with the written rows, on a miss
    the base-bucket query over the upper-bound windows of `[head, tail]` -/
def CallSeries (v : Variant) (dests : List Dest) (q : Int → Int → Option CS) (cache : Option Cached)
    (year : Int) (r0 : Rec) (rest : List Rec) (S : CS) : Prop :=
  ∃ up window, upperBound dests = some up ∧ candleDurationFromString up.str = some window ∧
    ((∃ c, cache = some c ∧ c.valid v (tailTime v year r0 rest) (headTime v year r0 rest) = true ∧
        S = hitSeries v c (recordsToCS year (r0 :: rest))) ∨
     ((∀ c, cache = some c → c.valid v (tailTime v year r0 rest) (headTime v year r0 rest) = false) ∧
        q (truncSec window (headTime v year r0 rest)) (ceilSec window (tailTime v year r0 rest) - 1) = some S))

/-- **C24_call** (every variant of the source, every configuration, cache state and written records):
    whatever a call of `Fire` writes to a destination is the property's aggregate - first open, highest
    high, lowest low, last close, total volume per window - of the series the call holds (`CallSeries`),
    restricted to that destination's windows around `[head, tail]`. -/
theorem C24_call (v : Variant) (dests : List Dest) (q : Int → Int → Option CS) (cache : Option Cached)
    (year : Int) (r0 : Rec) (rest : List Rec)
    (hq : ∀ a b cs, q a b = some cs →
      cs.Pairwise (fun x y => x.t ≤ y.t) ∧ ∀ x ∈ cs, 0 ≤ x.v ∧ x.v ≤ 2147483647)
    (hc : ∀ c, cache = some c → ∀ x ∈ c.cs, 0 ≤ x.v ∧ x.v ≤ 2147483647)
    (hn : ∀ x ∈ recordsToCS year (r0 :: rest), 0 ≤ x.v ∧ x.v ≤ 2147483647)
    (d : Str) (out : CS) (h : (d, out) ∈ (fire v dests q cache year (r0 :: rest)).writes) :
    ∃ S w, CallSeries v dests q cache year r0 rest S ∧ candleDurationFromString d = some w ∧
      (Intraday w → out = specAgg w (sliceByEpoch S (truncSec w (headTime v year r0 rest))
        (ceilSec w (tailTime v year r0 rest) - 1))) := by
  unfold fire at h
  cases hup : upperBound dests with
  | none => simp [hup] at h
  | some up =>
    simp only [hup] at h
    cases hwin : candleDurationFromString up.str with
    | none => simp [hwin] at h
    | some window =>
      simp only [hwin] at h
      have miss : ∀ cache', (∀ c, cache = some c →
            c.valid v (tailTime v year r0 rest) (headTime v year r0 rest) = false) →
          (d, out) ∈ (match q (truncSec window (headTime v year r0 rest))
              (ceilSec window (tailTime v year r0 rest) - 1) with
            | none => (⟨[], cache'⟩ : WriteRes)
            | some cs => writeLoop up.duration cs (headTime v year r0 rest) (tailTime v year r0 rest)
                dests ⟨[], cache'⟩).writes →
          ∃ S w, CallSeries v dests q cache year r0 rest S ∧ candleDurationFromString d = some w ∧
            (Intraday w → out = specAgg w (sliceByEpoch S (truncSec w (headTime v year r0 rest))
              (ceilSec w (tailTime v year r0 rest) - 1))) := by
        intro cache' hmiss h
        split at h
        · simp at h
        · rename_i cs hcs
          have hqq := hq _ _ cs hcs
          rcases writeLoop_spec up.duration cs _ _ hqq.1 hqq.2 dests _ d out h with h' | ⟨w, hw, hspec⟩
          · simp at h'
          · exact ⟨cs, w, ⟨up, window, hup, hwin, Or.inr ⟨hmiss, hcs⟩⟩, hw, hspec⟩
      split at h
      · rename_i c
        by_cases hv : c.valid v (tailTime v year r0 rest) (headTime v year r0 rest) = true
        · simp only [hv, if_true] at h
          have hsorted : (hitSeries v c (recordsToCS year (r0 :: rest))).Pairwise (fun x y => x.t ≤ y.t) := by
            unfold hitSeries
            split <;> exact (union_sorted _ _).imp (fun {a b} hab => Int.le_of_lt hab)
          have hvol : ∀ x ∈ hitSeries v c (recordsToCS year (r0 :: rest)), 0 ≤ x.v ∧ x.v ≤ 2147483647 := by
            intro x hx
            unfold hitSeries at hx
            split at hx
            · rcases union_mem _ _ x hx with h1 | h1
              · exact hc c rfl x h1
              · exact hn x h1
            · rcases union_mem _ _ x hx with h1 | h1
              · exact hn x h1
              · exact hc c rfl x h1
          rcases writeLoop_spec up.duration _ _ _ hsorted hvol dests _ d out h with h' | ⟨w, hw, hspec⟩
          · simp at h'
          · exact ⟨_, w, ⟨up, window, hup, hwin, Or.inl ⟨c, rfl, hv, rfl⟩⟩, hw, hspec⟩
        · have hv' : c.valid v (tailTime v year r0 rest) (headTime v year r0 rest) = false := by
            simpa using hv
          simp only [hv', Bool.false_eq_true, if_false] at h
          exact miss _ (fun c' hc' => by cases hc'; exact hv') h
      · exact miss _ (fun c' hc' => by cases hc') h

/-! ### the repaired statements -/

/-- the current source has all three repairs (skeletons of `OnDiskAggTrigger.Fire` and `cachedAgg.Valid`
    regenerated from the repository; reverting one makes this `decide` fail and the model follow) -/
theorem code_variant : codeVariant = Variant.fixed := by decide

/-- C24-F1 repaired: on a hit every written row is in the aggregated series (it replaces a cached row of
    the same epoch); written rows have distinct epochs because they are distinct slots of one file -/
theorem hit_new_wins (c : Cached) (new : CS) (hnew : new.Pairwise (fun x y => x.t ≠ y.t)) (x : Bar)
    (hx : x ∈ new) : x ∈ hitSeries Variant.fixed c new :=
  union_right_wins c.cs new hnew x hx

/-- cached rows whose epoch was not written stay -/
theorem hit_keeps_cached (c : Cached) (new : CS) (hc : c.cs.Pairwise (fun x y => x.t ≠ y.t)) (x : Bar)
    (hx : x ∈ c.cs) (hne : ∀ y ∈ new, x.t ≠ y.t) : x ∈ hitSeries Variant.fixed c new :=
  union_left_kept c.cs new hc x hx hne

/-- and nothing else is in it, one row per epoch in time order -/
theorem hit_only (c : Cached) (new : CS) :
    (hitSeries Variant.fixed c new).Pairwise (fun x y => x.t < y.t) ∧
    ∀ x ∈ hitSeries Variant.fixed c new, x ∈ c.cs ∨ x ∈ new :=
  ⟨union_sorted _ _, fun x hx => union_mem _ _ x hx⟩

/-- C24-F2 repaired: a hit happens only when the written range lies inside the cached window -/
theorem valid_inside (c : Cached) (tail head : Int) :
    c.valid Variant.fixed tail head = true ↔ c.tail ≤ head ∧ tail ≤ c.head := by
  simp [Cached.valid, Variant.fixed]

theorem idxTime_mono (year : Int) {i j : Int} (h : i ≤ j) : idxTime year i ≤ idxTime year j := by
  have hne : (minuteNs == dayNs) = false := by decide
  simp only [idxTime, indexToTime, hne, Bool.false_eq_true, if_false]
  apply Int.ediv_le_ediv (by decide)
  have : minuteNs * (i - 1) ≤ minuteNs * (j - 1) :=
    Int.mul_le_mul_of_nonneg_left (by omega) (by decide)
  omega

theorem foldl_min_le (l : List Rec) : ∀ (m : Int),
    l.foldl (fun m r => if r.index < m then r.index else m) m ≤ m ∧
    ∀ r ∈ l, l.foldl (fun m r => if r.index < m then r.index else m) m ≤ r.index := by
  induction l with
  | nil => intro m; simp
  | cons a l ih =>
    intro m
    simp only [List.foldl_cons]
    have h := ih (if a.index < m then a.index else m)
    refine ⟨?_, ?_⟩
    · have := h.1; split at this <;> omega
    · intro r hr
      rcases List.mem_cons.mp hr with rfl | hr
      · have := h.1; split at this <;> omega
      · exact h.2 r hr

theorem foldl_max_ge (l : List Rec) : ∀ (m : Int),
    m ≤ l.foldl (fun m r => if r.index > m then r.index else m) m ∧
    ∀ r ∈ l, r.index ≤ l.foldl (fun m r => if r.index > m then r.index else m) m := by
  induction l with
  | nil => intro m; simp
  | cons a l ih =>
    intro m
    simp only [List.foldl_cons]
    have h := ih (if a.index > m then a.index else m)
    refine ⟨?_, ?_⟩
    · have := h.1; split at this <;> omega
    · intro r hr
      rcases List.mem_cons.mp hr with rfl | hr
      · have := h.1; split at this <;> omega
      · exact h.2 r hr

/-- C24-F3 repaired: `head` and `tail` bracket the time of every written record, in whatever order the
    request listed them -/
theorem head_tail_cover (year : Int) (r0 : Rec) (rest : List Rec) (r : Rec) (hr : r ∈ r0 :: rest) :
    headTime Variant.fixed year r0 rest ≤ recTime year r ∧
    recTime year r ≤ tailTime Variant.fixed year r0 rest := by
  simp only [headTime, tailTime, Variant.fixed, if_true, recTime]
  have hmin := foldl_min_le rest r0.index
  have hmax := foldl_max_ge rest r0.index
  rcases List.mem_cons.mp hr with rfl | hr
  · exact ⟨idxTime_mono year hmin.1, idxTime_mono year hmax.1⟩
  · exact ⟨idxTime_mono year (hmin.2 r hr), idxTime_mono year (hmax.2 r hr)⟩

/-! ## whole histories -/

/-- after every history of base-bar writes in the property's domain, each destination bucket holds
    exactly the aggregate of the base bars currently stored.  NOT PROVED at this level (it needs an
    induction over the Store model: query = stored bars of the range, destination writes touch exactly
    the re-aggregated windows); it is what the spec line of the correspondence run demands of the
    implementation after every write, with no excluded class left. -/
def C24_full : Prop :=
  ∀ (names : List Str) (dests : List Dest) (hist : List (List Row)),
    newTrigger names = some dests → histInDomain dests hist = true →
    ∀ d ∈ dests, ∀ cd, candleDurationFromString d.str = some cd →
      destBars (runHist Variant.fixed dests hist) d = specAgg cd (baseBars (runHist Variant.fixed dests hist))

def fiveMin : Str := ['5','M','i','n']
def dests5 : List Dest := [⟨fiveMin, 300000000000⟩]
def cd5 : CandleDuration := ⟨fiveMin, 300000000000, Suffix.Min, 5⟩

/-- 2020-03-01 10:00:00 UTC -/
def t0 : Int := 1583056800
def p1 : Nat := 1065353216   -- 1.0
def p2 : Nat := 1073741824   -- 2.0
def p3 : Nat := 1077936128   -- 3.0
def p4 : Nat := 1082130432   -- 4.0
def p99 : Nat := 1120272384  -- 99.0

def row (t : Int) (o h l c : Nat) (v : Int) : Row := ⟨t, payloadOfBar ⟨t, o, h, l, c, v⟩⟩

/-- bars 10:00-10:02, then a correction of 10:01 (high 99, volume 500) -/
def histStale : List (List Row) :=
  [[row t0 p2 p3 p1 p2 100, row (t0 + 60) p2 p3 p1 p2 100, row (t0 + 120) p2 p4 p1 p3 100],
   [row (t0 + 60) p2 p99 p1 p2 500]]

/-- 10:00, 10:01; then 10:07 (cache moves to the 10:05 window); then one request 10:03 + 10:06 -/
def histWindow : List (List Row) :=
  [[row t0 p2 p3 p1 p2 100, row (t0 + 60) p2 p3 p1 p2 100],
   [row (t0 + 420) p1 p2 p1 p1 10],
   [row (t0 + 180) p3 p4 p3 p3 100, row (t0 + 360) p1 p1 p1 p1 7]]

/-- one request whose rows are not in time order: 10:07 before 10:01 -/
def histUnordered : List (List Row) :=
  [[row (t0 + 420) p1 p2 p1 p1 10, row (t0 + 60) p2 p3 p1 p2 100]]

theorem cd5_ok : candleDurationFromString fiveMin = some cd5 := by decide
theorem dests5_ok : newTrigger [fiveMin] = some dests5 := by decide

/-- C24-F1 repaired: the correction of the cached 10:01 bar reaches the 5Min bar -/
theorem repaired_stale :
    histInDomain dests5 histStale = true ∧
    destBars (runHist Variant.fixed dests5 histStale) ⟨fiveMin, 300000000000⟩ = [⟨t0, p2, p99, p1, p3, 700⟩] ∧
    specAgg cd5 (baseBars (runHist Variant.fixed dests5 histStale)) = [⟨t0, p2, p99, p1, p3, 700⟩] := by
  decide

/-- C24-F2 repaired: the write `[10:03, 10:06]` is not inside the cached 10:05 window, the base bucket is
    queried and the 10:00 window is aggregated from all its stored bars -/
theorem repaired_window :
    histInDomain dests5 histWindow = true ∧
    destBars (runHist Variant.fixed dests5 histWindow) ⟨fiveMin, 300000000000⟩
      = [⟨t0, p2, p4, p1, p3, 300⟩, ⟨t0 + 300, p1, p2, p1, p1, 17⟩] ∧
    specAgg cd5 (baseBars (runHist Variant.fixed dests5 histWindow))
      = [⟨t0, p2, p4, p1, p3, 300⟩, ⟨t0 + 300, p1, p2, p1, p1, 17⟩] := by
  decide

/-- C24-F3 repaired: rows listed 10:07 before 10:01 - both windows are aggregated -/
theorem repaired_unordered :
    histInDomain dests5 histUnordered = true ∧
    destBars (runHist Variant.fixed dests5 histUnordered) ⟨fiveMin, 300000000000⟩
      = [⟨t0, p2, p3, p1, p2, 100⟩, ⟨t0 + 300, p1, p2, p1, p1, 10⟩] ∧
    specAgg cd5 (baseBars (runHist Variant.fixed dests5 histUnordered))
      = [⟨t0, p2, p3, p1, p2, 100⟩, ⟨t0 + 300, p1, p2, p1, p1, 10⟩] := by
  decide

/-- BEFORE THE REPAIRS (`Variant.old`): the stale 5Min bar (high 4 / volume 300 instead of 99 / 700),
    the 10:00 window aggregated from the single written row, no aggregate at all for unordered rows -/
theorem before_repair :
    destBars (runHist Variant.old dests5 histStale) ⟨fiveMin, 300000000000⟩ = [⟨t0, p2, p4, p1, p3, 300⟩] ∧
    destBars (runHist Variant.old dests5 histWindow) ⟨fiveMin, 300000000000⟩
      = [⟨t0, p3, p4, p3, p3, 100⟩, ⟨t0 + 300, p1, p2, p1, p1, 17⟩] ∧
    destBars (runHist Variant.old dests5 histUnordered) ⟨fiveMin, 300000000000⟩ = [] := by
  decide

/-! ## non-vacuity -/

example : Intraday cd5 := Or.inr (Or.inl rfl)
example : aggregate cd5 [⟨t0, p2, p3, p1, p2, 100⟩, ⟨t0 + 60, p2, p99, p1, p2, 500⟩, ⟨t0 + 300, p1, p1, p1, p1, 7⟩]
    = some [⟨t0, p2, p99, p1, p2, 600⟩, ⟨t0 + 300, p1, p1, p1, p1, 7⟩] := by decide
/-- a hit of the repaired source: cached `[10:00, 10:01]`, written correction of 10:01 -/
example : hitSeries Variant.fixed ⟨[⟨t0, p2, p3, p1, p2, 100⟩, ⟨t0 + 60, p2, p3, p1, p2, 100⟩], t0, t0 + 299⟩
    [⟨t0 + 60, p2, p99, p1, p2, 500⟩] = [⟨t0, p2, p3, p1, p2, 100⟩, ⟨t0 + 60, p2, p99, p1, p2, 500⟩] := by decide

end Mkts.Props.C24
