import Mkts.Lemmas.Path
/-!
# C16 — no request can touch files outside the data root

Paths are absolute clean component lists (`Mkts.Path.Path`); "under the root" is the prefix
relation on COMPONENTS (`root <+: p`), not on strings (`/data2` is not under `/data`).
`createTouched`, `writeTouched`, `destroyTouched` (Model/Path.lean) list every path that
`AddTimeBucket` (create and the auto-create of a write), a write to an existing bucket (`AddFile`,
primary write) and `RemoveTimeBucket` construct from a key; the executable request model
(`Model/PathFs.lean`, run against the real server by the op `c16`) mutates the tree only through
these constructions.  Queries construct the same bucket path and only read.
-/
namespace Mkts.Props.C16
open Mkts.Path

/-- `GetPathToYearFiles` with safe items is the root followed by the items. -/
theorem C16_join_under_root (root : Path) (items : List Str) (h : ∀ c ∈ items, safe c) :
    joinKey root items = root ++ items ∧ root <+: joinKey root items := by
  have := joinKey_safe root items h
  exact ⟨this, this ▸ List.prefix_append _ _⟩

/-- everything bucket creation touches lies under the root when the walk stays inside -/
theorem createTouched_of_staysInside (root : Path) (items : List Str) (year : Nat)
    (h : staysInside items = true) : ∀ p ∈ createTouched root items year, root <+: p := by
  have hc : ∀ p ∈ dirChain root items, root <+: p := by
    have := dirChain_staysInside root items [] (by simp) (by simpa [staysInside] using h)
    simpa using this
  have hk : root <+: joinKey root items := hc _ (joinKey_mem_dirChain root items)
  intro p hp
  simp only [createTouched, List.mem_append, List.mem_map, List.mem_cons, List.not_mem_nil, or_false] at hp
  rcases hp with (hp | ⟨q, hq, rfl⟩) | rfl | rfl
  · exact hc p hp
  · exact prefix_append_of_prefix _ (hc q hq)
  · exact prefix_append_of_prefix _ hk
  · exact prefix_append_of_prefix _ hk

/-- Create (and the auto-create of a write): safe key items ⇒ every directory made, every
    `category_name` file and the year file (and its temporary name) are under the root. -/
theorem C16_create_touched (root : Path) (items : List Str) (year : Nat) (h : ∀ c ∈ items, safe c) :
    ∀ p ∈ createTouched root items year, root <+: p :=
  createTouched_of_staysInside root items year (safe_staysInsideAux items h 0)

/-- Write to an existing bucket: the year file of the row (created when missing) is under the root. -/
theorem C16_write_touched (root : Path) (items : List Str) (year : Nat) (h : ∀ c ∈ items, safe c) :
    ∀ p ∈ writeTouched root items year, root <+: p := by
  intro p hp
  have hk := (C16_join_under_root root items h).2
  simp only [writeTouched, List.mem_cons, List.not_mem_nil, or_false] at hp
  rcases hp with rfl | rfl <;> exact prefix_append_of_prefix _ hk

/-- Destroy: every directory handed to `RemoveAll` is strictly below the root. -/
theorem C16_destroy_touched (root : Path) (items : List Str) (h : ∀ c ∈ items, safe c) :
    ∀ p ∈ destroyTouched root items, root <+: p ∧ p ≠ root := by
  intro p hp
  cases items with
  | nil => simp [destroyTouched, dirChain] at hp
  | cons c rest =>
    simp only [destroyTouched, dirChain, List.drop_succ_cons, List.drop_zero] at hp
    have hc := safe_plain (h c (by simp))
    rw [joinItem_plain root hc] at hp
    obtain ⟨pre, _, rfl⟩ := dirChain_safe (root ++ [c]) rest (fun x hx => h x (by simp [hx])) p hp
    refine ⟨⟨[c] ++ pre, by simp⟩, ?_⟩
    intro he
    have := congrArg List.length he
    simp at this

/-- the full statement: whatever the key, nothing outside the root is touched -/
def C16_full : Prop :=
  ∀ (root : Path) (items : List Str) (year : Nat), (∀ c ∈ root, plain c) →
    ∀ p ∈ createTouched root items year, root <+: p

def cexRoot : Path := [[115, 114, 118], [100, 97, 116, 97]]
def cexItems : List Str := [dotdot, [49, 77, 105, 110], [79, 72, 76, 67]]

/-- key `../1Min/OHLC`: the bucket directory, its `category_name` and year file are created in the
    parent of the root (reproduced on the server: DESIGN §7 F10, corpus/C16/known_F10.ops) -/
theorem C16_cex_dotdot : ¬ C16_full := by
  intro h
  have := h cexRoot cexItems 2020 (by decide) [[115, 114, 118], [49, 77, 105, 110], [79, 72, 76, 67], yearFile 2020] (by decide)
  revert this
  decide

/-- what the request of the counterexample touches, concretely -/
theorem C16_cex_dotdot_paths :
    [[115, 114, 118], [49, 77, 105, 110], [79, 72, 76, 67], yearFile 2020] ∈ createTouched cexRoot cexItems 2020 ∧
    [[115, 114, 118], catName] ∈ createTouched cexRoot cexItems 2020 ∧
    joinKey cexRoot cexItems = [[115, 114, 118], [49, 77, 105, 110], [79, 72, 76, 67]] := by decide

/-- the partial theorem: all four request kinds, keys with safe items -/
theorem C16_partial (root : Path) (items : List Str) (year : Nat) (h : ∀ c ∈ items, safe c) :
    (∀ p ∈ createTouched root items year, root <+: p) ∧
    (∀ p ∈ writeTouched root items year, root <+: p) ∧
    (∀ p ∈ destroyTouched root items, root <+: p ∧ p ≠ root) ∧
    root <+: joinKey root items :=
  ⟨C16_create_touched root items year h, C16_write_touched root items year h,
   C16_destroy_touched root items h, (C16_join_under_root root items h).2⟩

/-- the excluded class is exact: below a non-empty root, creation stays under the root iff the walk
    over the items never pops above its start (`..` outnumbering the real names of some prefix) -/
theorem C16_exact (root : Path) (hr : root ≠ []) (hp : ∀ c ∈ root, plain c) (items : List Str) (year : Nat) :
    (∀ p ∈ createTouched root items year, root <+: p) ↔ staysInside items = true := by
  constructor
  · intro h
    cases hs : staysInside items with
    | true => rfl
    | false =>
      obtain ⟨p, hp', hn⟩ := dirChain_escapes root hr hp items [] (by simp) (by simpa [staysInside] using hs)
      exact absurd (h p (by simp only [createTouched, List.mem_append]; left; left; simpa using hp')) hn
  · exact createTouched_of_staysInside root items year

/-- `safe` is sufficient for `staysInside`, and `.`/empty items are harmless -/
theorem C16_safe_staysInside (items : List Str) (h : ∀ c ∈ items, safe c) : staysInside items = true :=
  safe_staysInsideAux items h 0

/-! non-vacuity -/
example : ∀ c ∈ [[65, 65, 80, 76], [49, 77, 105, 110], [79, 72, 76, 67]], safe c := by decide
example : joinKey cexRoot [[65, 65, 80, 76], [49, 77, 105, 110], [79, 72, 76, 67]] = cexRoot ++ [[65, 65, 80, 76], [49, 77, 105, 110], [79, 72, 76, 67]] := by decide
example : staysInside [[65], dotdot, dot, [], [66]] = true ∧ staysInside [[65], dotdot, dotdot, [100, 97, 116, 97]] = false := by decide
example : ¬ safe dotdot ∧ ¬ safe [97, 47, 98] ∧ ¬ safe [] ∧ ¬ safe [0] := by decide

end Mkts.Props.C16
