import Mkts.Proto
import Mkts.Driver.All
