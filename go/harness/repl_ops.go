package main

// C25: master -> replica convergence on the REAL code.
//
//	repl <nowYear> <step> <step> ...
//	  step  = M:<f|v>:<sub>~<sub>...      one executor.Writer.WriteCSM call (flag = isVariableLength) = one flush
//	  sub   = <key>;<name=type,...>;<sec,nanos,payloadhex+...>   one bucket of the ColumnSeriesMap
//
// Phase 1: a master instance (real startup path) whose WAL file gets a capturing
// executor.ReplicationSender; every M step is one WriteCSM call through the container's writer.
// The bytes handed to ReplicationSender.Send (FlushCommandsToWAL) are captured.
// Phase 2: a fresh replica instance; the captured transactions are fed through the real
// replication.Receiver.Run -> ReplayerImpl.Replay (executor.ParseTGData, the replica writer's WriteCSM).
// Then every touched bucket is queried on both (the master's answers were taken before it was stopped).
//
// A ColumnSeriesMap is a Go map: the order of the buckets of a multi-bucket write inside the
// transaction is random.  The op line fixes the order; the scenario is re-run from scratch until the
// captured transaction has the sets in the requested order (bounded retries).
//
//	wtset <tf> <year> <rt> <index> <varRecLen> <payloadhex> <ncols>       replication.WTSetToCSM on one set
//
// Result of repl:  M=<res>... T=<#tg> P=<receiver result> then per bucket `K=<key> m=<master rows> r=<replica rows>`
// and `V=<bits>`: per bucket 1 iff the replica's answer equals the master's (variable-length buckets:
// same payloads in the same order, timestamps within one tick = ceil(tf/2^32) ns).

import (
	"context"
	"fmt"
	stdio "io"
	"os"
	"sort"
	"strconv"
	"strings"
	"time"

	"github.com/alpacahq/marketstore/v4/executor"
	"github.com/alpacahq/marketstore/v4/executor/wal"
	"github.com/alpacahq/marketstore/v4/replication"
	mio "github.com/alpacahq/marketstore/v4/utils/io"
)

type captureSender struct{ tgs [][]byte }

func (c *captureSender) Run(context.Context) {}
func (c *captureSender) Send(tg []byte) {
	b := make([]byte, len(tg))
	copy(b, tg)
	c.tgs = append(c.tgs, b)
}

type replSub struct {
	key  string
	cols []colSpec
	rows []rowIn
}

func parseReplStep(step string) (isVar bool, subs []replSub) {
	f := strings.SplitN(step, ":", 3)
	if len(f) != 3 || f[0] != "M" || (f[1] != "f" && f[1] != "v") {
		panic("bad-arg step " + step)
	}
	isVar = f[1] == "v"
	for _, s := range strings.Split(f[2], "~") {
		p := strings.Split(s, ";")
		if len(p) != 3 {
			panic("bad-arg sub " + s)
		}
		subs = append(subs, replSub{p[0], parseCols(p[1]), parseRows(p[2])})
	}
	return
}

func keyOfPath(p string) string {
	parts := strings.Split(p, "/")
	if len(parts) < 4 {
		return p
	}
	return strings.Join(parts[len(parts)-4:len(parts)-1], "/")
}

type fakeReplClient struct {
	tgs [][]byte
	n   int
}

func (c *fakeReplClient) Connect(context.Context) error { return nil }
func (c *fakeReplClient) Recv() ([]byte, error) {
	if c.n >= len(c.tgs) {
		return nil, stdio.EOF
	}
	c.n++
	return c.tgs[c.n-1], nil
}

type rrow struct {
	t       int64
	payload string
}

func parseRender(s string) (hdr string, rows []rrow, ok bool) {
	i := strings.IndexByte(s, ']')
	if i < 0 {
		return "", nil, false
	}
	hdr = s[:i+1]
	if j := strings.IndexByte(hdr, '['); j >= 0 {
		hdr = hdr[j:]
	}
	body := s[i+1:]
	if body == "" {
		return hdr, nil, true
	}
	for _, r := range strings.Split(body, "+") {
		f := strings.Split(r, ",")
		if len(f) != 3 {
			return "", nil, false
		}
		sec, e1 := strconv.ParseInt(f[0], 10, 64)
		ns, e2 := strconv.ParseInt(f[1], 10, 64)
		if e1 != nil || e2 != nil {
			return "", nil, false
		}
		rows = append(rows, rrow{sec*1000000000 + ns, f[2]})
	}
	return hdr, rows, true
}

func tfNsOfKey(key string) int64 {
	p := strings.Split(key, "/")
	if len(p) != 3 {
		return 0
	}
	for _, t := range catalogTFs {
		if t.name == p[1] {
			return t.ns
		}
	}
	return 0
}

// sameAnswer: the C25 predicate on two rendered query answers.
func sameAnswer(m, r string, tfNs int64) bool {
	if m == r {
		return true
	}
	hm, rm, ok1 := parseRender(m)
	hr, rr, ok2 := parseRender(r)
	if !ok1 || !ok2 || hm != hr || len(rm) != len(rr) {
		return false
	}
	// one tick = tf / 2^32 ns, rounded up (decode -> encode -> decode on the replica loses at most one tick)
	res := (tfNs + 4294967295) / 4294967296
	if res < 1 {
		res = 1
	}
	for i := range rm {
		d := rm[i].t - rr[i].t
		if d < 0 {
			d = -d
		}
		if rm[i].payload != rr[i].payload || d > res {
			return false
		}
	}
	return true
}

func replOnce(a []string) (res string, retry bool) {
	mroot := scratchDir("replm")
	rroot := scratchDir("replr")
	defer os.RemoveAll(mroot)
	defer os.RemoveAll(rroot)
	var out []string
	in := startInst(mroot, nil)
	stopped := false
	defer func() {
		if !stopped {
			in.abandon()
		}
	}()
	capt := &captureSender{}
	in.wf.ReplicationSender = capt
	keys := map[string][2]int64{} // key -> min/max second written
	for _, step := range a[1:] {
		isVar, subs := parseReplStep(step)
		csm := mio.NewColumnSeriesMap()
		var want []string
		for _, s := range subs {
			ds := buildDataset(s.key, s.cols, s.rows, isVar)
			one, err := ds.ToColumnSeriesMap()
			if err != nil {
				panic("bad-arg dataset " + err.Error())
			}
			for k, cs := range one {
				csm.AddColumnSeries(k, cs)
			}
			want = append(want, s.key)
			for _, r := range s.rows {
				mm, ok := keys[s.key]
				if !ok {
					mm = [2]int64{r.sec, r.sec}
				}
				if r.sec < mm[0] {
					mm[0] = r.sec
				}
				if r.sec > mm[1] {
					mm[1] = r.sec
				}
				keys[s.key] = mm
			}
		}
		before := len(capt.tgs)
		tok := func() (tok string) {
			defer func() {
				if r := recover(); r != nil {
					lastPanic = fmt.Sprint(r)
					tok = "M=" + panicClass(r)
				}
			}()
			err := in.c.GetWriter().WriteCSM(csm, isVar)
			if err != nil {
				return "M=" + errClass(err.Error())
			}
			return "M=ok"
		}()
		out = append(out, tok)
		if len(subs) > 1 && len(capt.tgs) == before+1 {
			_, sets := executor.ParseTGData(capt.tgs[before], mroot)
			var got []string
			for _, s := range sets {
				k := keyOfPath(s.FilePath)
				if len(got) == 0 || got[len(got)-1] != k {
					got = append(got, k)
				}
			}
			// stale commands of an earlier failed write come first: compare the tail
			if len(got) >= len(want) {
				got = got[len(got)-len(want):]
			}
			if strings.Join(got, " ") != strings.Join(want, " ") {
				return "", true
			}
		}
	}
	var ks []string
	for k := range keys {
		ks = append(ks, k)
	}
	sort.Strings(ks)
	qstep := func(k string) string {
		mm := keys[k]
		return fmt.Sprintf("Q:%s:%d:0:%d:0:-:-:-", k, mm[0]-172800, mm[1]+172800)
	}
	query := func(in *Inst, k string) (r string) {
		defer func() {
			if x := recover(); x != nil {
				lastPanic = fmt.Sprint(x)
				r = panicClass(x)
			}
		}()
		return strings.TrimPrefix(in.runStoreStep(qstep(k)), "Q=")
	}
	mres := map[string]string{}
	for _, k := range ks {
		mres[k] = query(in, k)
	}
	in.abandon()
	stopped = true
	out = append(out, fmt.Sprintf("T=%d", len(capt.tgs)))

	// ---- replica
	rin := startInst(rroot, nil)
	defer rin.abandon()
	replayer := replication.NewReplayer(executor.ParseTGData, rin.c.GetDefaultWriter().WriteCSM, rin.c.GetAbsRootDir())
	cli := &fakeReplClient{tgs: capt.tgs}
	ptok := func() (tok string) {
		defer func() {
			if r := recover(); r != nil {
				lastPanic = fmt.Sprint(r)
				tok = fmt.Sprintf("P=%s@%d", panicClass(r), cli.n-1)
			}
		}()
		err := replication.NewReceiver(cli, replayer).Run(context.Background())
		switch {
		case err == nil:
			return "P=nil"
		case strings.Contains(err.Error(), "received EOF"):
			return fmt.Sprintf("P=eof@%d", cli.n)
		case strings.Contains(err.Error(), "an error occurred while replaying"):
			return fmt.Sprintf("P=err:replay@%d", cli.n-1)
		}
		return "P=err:other"
	}()
	out = append(out, ptok)
	verdict := ""
	for _, k := range ks {
		r := query(rin, k)
		out = append(out, "K="+k, "m="+mres[k], "r="+r)
		if sameAnswer(mres[k], r, tfNsOfKey(k)) {
			verdict += "1"
		} else {
			verdict += "0"
		}
	}
	if verdict == "" {
		verdict = "-"
	}
	out = append(out, "V="+verdict)
	return strings.Join(out, " "), false
}

func replOp(a []string) string {
	if len(a) < 1 {
		return "bad-op"
	}
	nowYear := time.Now().UTC().Year()
	if a[0] != strconv.Itoa(nowYear) {
		return "harness:bad-arg now-year " + a[0] + " != " + strconv.Itoa(nowYear)
	}
	for attempt := 0; attempt < 60; attempt++ {
		res, retry := replOnce(a)
		if !retry {
			return res
		}
	}
	return "harness:map-order"
}

// wtset <tf> <year> <rt> <index> <varRecLen> <payloadhex> <ncols>
// One WTSet built by hand (FilePath <root>/SYM/<tf>/AG/<year>.bin, DataShapes Epoch + ncols int8 … no:
// ncols BYTE columns c0..), converted by the real replication.WTSetToCSM; prints the rows of the
// resulting ColumnSeries as `sec,nanos,payloadhex` (nanos = the Nanoseconds column, if any).
func wtsetOp(a []string) string {
	if len(a) != 7 {
		return "bad-op"
	}
	tf, year, rt := a[0], a[1], atoi(a[2])
	index, vrl := atoi(a[3]), int(atoi(a[4]))
	payload, err := unhx(a[5])
	if err != nil {
		return "bad-op"
	}
	ncols := int(atoi(a[6]))
	dsv := []mio.DataShape{{Name: "Epoch", Type: mio.INT64}}
	for i := 0; i < ncols; i++ {
		dsv = append(dsv, mio.DataShape{Name: fmt.Sprintf("c%d", i), Type: mio.BYTE})
	}
	buf := append(le64(0), le64(index)...)
	buf = append(buf, payload...)
	set := wal.NewWTSet(mio.EnumRecordType(rt), "/data/SYM/"+tf+"/AG/"+year+".bin", len(payload), vrl, buf, dsv)
	csm, err := replication.WTSetToCSM(&set)
	if err != nil {
		m := err.Error()
		switch {
		case strings.Contains(m, "variableRecordLength=0"):
			return "err:varreclen0"
		case strings.Contains(m, "unknown record type"):
			return "err:notype"
		case strings.Contains(m, "failed to parse walKeyPath"):
			return "err:path"
		case strings.Contains(m, "TimeFrame"):
			return "err:timeframe"
		}
		return "err:other"
	}
	var parts []string
	for k, cs := range csm {
		parts = append(parts, k.GetItemKey()+"="+renderCS(cs))
	}
	sort.Strings(parts)
	return strings.Join(parts, "&")
}

func init() {
	ops["repl"] = replOp
	slowOps["repl"] = true
	ops["wtset"] = wtsetOp
}

// tk enc <unix ns> <tf ns>  -> ticks of io.GetIntervalTicks32Bit ; tk dec <start sec> <tf ns> <ticks> -> sec,nanos of
// executor.GetTimeFromTicks (function-level check of the Ticks model used by the C25 model)
func tkOp(a []string) string {
	if len(a) == 3 && a[0] == "enc" {
		ts, tf := atoi(a[1]), atoi(a[2])
		t := time.Unix(0, ts).UTC()
		idx := mio.TimeToIndex(t, time.Duration(tf))
		return fmt.Sprint(mio.GetIntervalTicks32Bit(t, idx, 86400000000000/tf))
	}
	if len(a) == 4 && a[0] == "dec" {
		s, n := executor.GetTimeFromTicks(uint64(atoi(a[1])), uint32(86400000000000/atoi(a[2])), uint32(atoi(a[3])))
		return fmt.Sprintf("%d,%d", s, n)
	}
	return "bad-op"
}

func init() { ops["tk"] = tkOp }

// ---- generator --------------------------------------------------------------------------------

var replTFs = []int{0, 1, 2, 3, 4, 5, 6, 7, 9, 10} // indices into catalogTFs; 4H is skipped (queries for 4H are answered from 2H)

type replBucket struct {
	key   string
	tfNs  int64
	isVar bool
	sch   genSchema
	pool  []int64
}

func (g *Gen) replNanos() int64 {
	switch g.Intn(8) {
	case 0:
		return 0
	case 1:
		return g.Pick(1, 5, 999999999, 999999995, 999999990, 500000000, 250000000)
	case 2:
		return int64(g.Intn(1000))
	}
	return int64(g.Intn(1000000000))
}

func (g *Gen) replRows(b *replBucket, n int, sorted bool) string {
	var ts []int64
	for i := 0; i < n; i++ {
		ts = append(ts, b.pool[g.Intn(len(b.pool))])
	}
	if sorted {
		sort.Slice(ts, func(i, j int) bool { return ts[i] < ts[j] })
	}
	var parts []string
	for _, t := range ts {
		parts = append(parts, fmt.Sprintf("%d,%d,%s", t, g.replNanos(), hx(g.Bytes(b.sch.size))))
	}
	return strings.Join(parts, "+")
}

func genC25(g *Gen) {
	nowYear := time.Now().UTC().Year()
	n := g.N(70, 700)
	for i := 0; i < n; i++ {
		nb := 1 + g.Intn(3)
		var bs []*replBucket
		tags := map[string]bool{}
		for k := 0; k < nb; k++ {
			tfi := replTFs[g.Intn(len(replTFs))]
			if g.Intn(3) == 0 {
				tfi = []int{0, 3, 7, 10}[g.Intn(4)]
			}
			tf := catalogTFs[tfi]
			b := &replBucket{key: fmt.Sprintf("S%d/%s/G%d", k, tf.name, g.Intn(2)), tfNs: tf.ns, isVar: g.Intn(2) == 0, sch: g.schema()}
			b.pool, _ = g.timePool(tf.ns, 3+g.Intn(4))
			bs = append(bs, b)
			if b.isVar {
				tags["var:"+tf.name] = true
			} else {
				tags["fix:"+tf.name] = true
			}
		}
		created := map[string]bool{}
		var steps []string
		ns := 1 + g.Intn(5)
		for s := 0; s < ns; s++ {
			c := g.Intn(12)
			switch {
			case c <= 6 || nb == 1 && c <= 9: // ordinary single-bucket write
				b := bs[g.Intn(nb)]
				flag := b.isVar
				if created[b.key] && g.Intn(8) == 0 {
					flag = !flag
					tags["cross_flag"] = true
				}
				cols := b.sch.cols
				if created[b.key] && g.Intn(12) == 0 {
					switch g.Intn(2) {
					case 0:
						cols += ",zz=byte"
					default:
						cols = strings.Replace(cols, "c0=", "q0=", 1)
					}
					tags["colmismatch"] = true
					// payload must still cover the declared columns
					bb := *b
					bb.sch.size++
					steps = append(steps, fmt.Sprintf("M:%s:%s;%s;%s", fv(flag), b.key, cols, g.replRows(&bb, 1+g.Intn(2), true)))
					continue
				}
				rows := g.replRows(b, 1+g.Intn(6), g.Intn(4) != 0)
				steps = append(steps, fmt.Sprintf("M:%s:%s;%s;%s", fv(flag), b.key, cols, rows))
				created[b.key] = true
			default: // one WriteCSM call over two buckets = one transaction group
				if nb < 2 {
					continue
				}
				i1 := g.Intn(nb)
				i2 := (i1 + 1 + g.Intn(nb-1)) % nb
				b1, b2 := bs[i1], bs[i2]
				flag := g.Intn(2) == 0
				t1, t2 := b1.isVar, b2.isVar
				if !created[b1.key] {
					t1, b1.isVar = flag, flag
				}
				if !created[b2.key] {
					t2, b2.isVar = flag, flag
				}
				if t1 != t2 {
					tags["mixed_tg"] = true
					if t1 {
						tags["mixed:var_first"] = true
					} else {
						tags["mixed:fixed_first"] = true
					}
				} else {
					tags["multi_bucket_tg"] = true
				}
				steps = append(steps, fmt.Sprintf("M:%s:%s;%s;%s~%s;%s;%s", fv(flag),
					b1.key, b1.sch.cols, g.replRows(b1, 1+g.Intn(3), true),
					b2.key, b2.sch.cols, g.replRows(b2, 1+g.Intn(3), true)))
				created[b1.key], created[b2.key] = true, true
			}
		}
		if len(steps) == 0 {
			continue
		}
		tl := []string{fmt.Sprintf("buckets:%d", nb), fmt.Sprintf("steps:%d", len(steps))}
		for t := range tags {
			tl = append(tl, t)
		}
		sort.Strings(tl)
		g.Emit(fmt.Sprintf("repl %d %s", nowYear, strings.Join(steps, " ")), tl...)
	}
	// function level: WTSetToCSM on hand-made sets (incl. the error returns), and the tick codec
	m := g.N(200, 2500)
	for i := 0; i < m; i++ {
		tf := catalogTFs[replTFs[g.Intn(len(replTFs))]]
		year := 1999 + g.Intn(40)
		ncols := 1 + g.Intn(4)
		slots := 365 * 86400e9 / tf.ns
		index := int64(1) + int64(g.Intn(int(slots)))
		if g.Intn(5) == 0 {
			index = g.Pick(0, 1, 2, slots-1, slots)
		}
		if g.Intn(25) == 0 { // a key whose timeframe the catalog does not know: GetTimeFrame fails
			g.Emit(fmt.Sprintf("wtset %s %d %d %d %d %s %d", []string{"7Foo", "Min", "x"}[g.Intn(3)], year, g.Intn(2), index, ncols+4,
				hx(g.Bytes(ncols+4)), ncols), "wtset:bad_timeframe")
			continue
		}
		switch c := g.Intn(10); {
		case c <= 3:
			g.Emit(fmt.Sprintf("wtset %s %d 0 %d 0 %s %d", tf.name, year, index, hx(g.Bytes(ncols)), ncols), "wtset:fixed")
		case c <= 7:
			nrec := 1 + g.Intn(4)
			var p []byte
			for r := 0; r < nrec; r++ {
				p = append(p, g.Bytes(ncols)...)
				var tk uint32
				switch g.Intn(5) {
				case 0:
					tk = uint32(g.Pick(0, 1, 4294967295, 4294967294, 2147483648, 2147483647, 4294967291))
				default:
					tk = g.R.Uint32()
				}
				p = append(p, byte(tk), byte(tk>>8), byte(tk>>16), byte(tk>>24))
			}
			g.Emit(fmt.Sprintf("wtset %s %d 1 %d %d %s %d", tf.name, year, index, ncols+4, hx(p), ncols), "wtset:variable", fmt.Sprintf("wtset:recs%d", nrec))
		case c == 8:
			g.Emit(fmt.Sprintf("wtset %s %d 1 %d 0 %s %d", tf.name, year, index, hx(g.Bytes(ncols+4)), ncols), "wtset:varreclen0")
		default:
			g.Emit(fmt.Sprintf("wtset %s %d 2 %d %d %s %d", tf.name, year, index, ncols+4, hx(g.Bytes(ncols+4)), ncols), "wtset:notype")
		}
	}
	k := g.N(300, 3000)
	for i := 0; i < k; i++ {
		tf := catalogTFs[replTFs[g.Intn(len(replTFs))]]
		if g.Intn(2) == 0 {
			pool, _ := g.timePool(tf.ns, 1)
			g.Emit(fmt.Sprintf("tk enc %d %d", pool[0]*1000000000+g.replNanos(), tf.ns), "tk:enc")
		} else {
			var tk uint32
			switch g.Intn(4) {
			case 0:
				tk = uint32(g.Pick(0, 1, 4294967295, 4294967294, 2147483648, 4294967291, 4294967292))
			default:
				tk = g.R.Uint32()
			}
			g.Emit(fmt.Sprintf("tk dec %d %d %d", 1577836800+int64(g.Intn(1000000)), tf.ns, tk), "tk:dec")
		}
	}
}

func fv(isVar bool) string {
	if isVar {
		return "v"
	}
	return "f"
}

func init() { gens["C25"] = genC25 }
