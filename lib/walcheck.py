"""Trace-level cases for the WAL / durability properties.

For a seeded set of write histories: run the real server code under strace (go/harness
`workload`), turn the log into the ordered list of file-mutating system calls, and
  (i)  compare the per-request sequence of effect kinds with the Lean model's (`waltrace`);
  (ii) for crash points k (every prefix in the thorough tier, a sample in the quick tier)
       materialise the directory image after the first k calls, run the REAL startup path on it
       (go/harness `restart`: catalog load, WAL replay and cleanup) and compare the result with
       the Lean model's prediction and with what the property allows (`walcrash`).
Modes: crash (page cache survives), power (only fsynced/synced data survives, plus bounded
loss/tear patterns), twice (restart two times), shutdown.
Every case is one op line so that the generic decision procedure of ./check applies.
"""
import concurrent.futures, json, os, random, shutil, subprocess, time
import stracelib as S

HEADERSIZE = 37024


def kind_of(op, root, sizes=None):
    """effect kind of one file-mutating call. `sizes` (path -> index-area size, learnt from the
    truncate at file creation) tells the blob writes of variable-length files ('D', beyond the
    index area) from slot writes ('P')."""
    k = op["kind"]
    if k == "ack":
        return "A"
    p = op.get("path", "")
    if k == "sync":
        return "S"
    if p.endswith(".walfile"):
        return {"write": "W", "fsync": "F", "truncate": "T", "create": "c"}.get(k, "c")
    if p.endswith(".bin.tmp") or p.endswith(".bin"):
        base = p[:-4] if p.endswith(".tmp") else p
        if k == "truncate" and sizes is not None:
            sizes[base] = op["len"]
        if k == "write" and p.endswith(".bin") and (op["off"] or 0) >= HEADERSIZE:
            if sizes is not None and base in sizes and (op["off"] or 0) >= sizes[base]:
                return "D"
            return "P"
    return "c"


def gen_history(rng, focus, var_share=0.0):
    """steps in `store` syntax; sub-day timeframes; a bucket is variable-length with probability var_share"""
    tfs = ["1Min", "5Min", "1H", "15Min"]
    nb = 1 + rng.randrange(2)
    buckets = []
    for b in range(nb):
        tf = rng.choice(tfs)
        ncol = 1 + rng.randrange(2)
        types = [rng.choice(["int32", "float32", "int64", "float64", "int16"]) for _ in range(ncol)]
        sizes = {"int32": 4, "float32": 4, "int64": 8, "float64": 8, "int16": 2}
        cols = ",".join("c%d=%s" % (i, t) for i, t in enumerate(types))
        isvar = rng.random() < var_share
        buckets.append(dict(key="B%d/%s/%s" % (b, tf, "TICK" if isvar else "AG"), tf=tf, cols=cols,
                            size=sum(sizes[t] for t in types), rt="v" if isvar else "f"))
    tfsec = {"1Min": 60, "5Min": 300, "1H": 3600, "15Min": 900}
    steps = []
    created = set()
    base = [1577836800, 1609459200 - 7200, 1583020800]   # 2020-01-01, 2020-12-31T22:00, 2020-03-01
    pools = {b["key"]: [rng.choice(base) + tfsec[b["tf"]] * rng.randrange(6) for _ in range(5)] for b in buckets}
    n = 3 + rng.randrange(5)
    for i in range(n):
        b = rng.choice(buckets)
        if b["key"] not in created and rng.random() < 0.7:
            steps.append("C:%s:%s:%s" % (b["key"], b["rt"], b["cols"]))
        created.add(b["key"])
        rows = []
        # a variable-length request stays inside ONE year file: FlushCommandsToWAL visits the files of
        # a transaction group in Go map order, so which file's records are already written at a crash
        # point in the middle (visible as replay duplicates) is not determined by the request
        jump_all = b["rt"] == "v" and rng.random() < 0.15
        year0 = None
        for _ in range(1 + rng.randrange(4)):
            t = rng.choice(pools[b["key"]])
            if jump_all or (b["rt"] != "v" and rng.random() < 0.15):
                t += 366 * 86400     # another year file
            ns = 0
            if b["rt"] == "v":
                t += rng.randrange(tfsec[b["tf"]])
                ns = rng.choice([0, 1, 999999999, rng.randrange(10**9)])
                if year0 is None:
                    year0 = time.gmtime(t).tm_year
                elif time.gmtime(t).tm_year != year0:
                    continue
            rows.append("%d,%d,%s" % (t, ns, bytes(rng.randrange(256) for _ in range(b["size"])).hex()))
        steps.append("W:%s:%s:%s:%s" % (b["key"], b["rt"], b["cols"], "+".join(rows)))
        r = rng.random()
        if focus in ("ckpt", "all") and r < 0.25:
            steps.append("K")
        elif focus in ("ckpt", "all") and r < 0.35:
            steps.append("T")
    return steps, [b["key"] for b in buckets]


def run_workload(harness, steps, mode, wdir, log):
    root = os.path.join(wdir, "root")
    shutil.rmtree(wdir, ignore_errors=True)
    os.makedirs(root)
    markers = os.path.join(wdir, "markers")
    trace = os.path.join(wdir, "trace.txt")
    env = dict(os.environ, TZ="UTC", VERIF_WORK=wdir)
    rc, err = S.run_traced([harness, "workload", root, markers, mode] + steps, trace, timeout=300, env=env)
    if rc != 0:
        return None, "workload rc=%d %s" % (rc, err[-500:])
    calls = S.parse_log(trace)
    ops = S.mutations(calls, root, markers)
    os.remove(trace)
    return (root, ops), None


def positions(ops, steps, root):
    """for each prefix length k: (a, j) = acknowledged steps, effect index inside the step in flight
    ('*' when the crash lies inside catalog operations the WAL model does not describe)"""
    out = []
    a = 0
    j = 0
    cat_since_ack = False
    started = False
    mid = False
    sizes = {}
    wal_seen = False
    for k in range(len(ops) + 1):
        if not started and wal_seen:
            # crash during START-UP (WAL file created, status not yet written / synced): nothing is
            # acknowledged, the model predicts nothing ('*'); restart must still succeed
            out.append((k, 0, "*"))
        if k < len(ops) and ops[k].get("path", "").endswith(".walfile"):
            wal_seen = True
        if started:
            inflight = steps[a] if a < len(steps) else None
            if inflight is None:
                jj = "0"
            elif inflight.startswith("C:"):
                jj = "*"
            elif j == 0 and cat_since_ack:
                jj = "*"
            elif mid:
                jj = "m%d" % j
            else:
                jj = str(j)
            out.append((k, a, jj))
        if k == len(ops):
            break
        op = ops[k]
        kd = kind_of(op, root, sizes)
        if kd == "D":
            mid = True
            continue
        if kd == "P":
            mid = False
        if kd == "A":
            txt = op["text"]
            idx = int(txt.split(" ")[0])
            if idx == -1:
                started = True
            else:
                a = idx + 1
            j = 0
            cat_since_ack = False
        elif kd == "c":
            cat_since_ack = True
        else:
            j += 1
    return out


def step_kinds(ops, steps, root):
    """real effect kinds per step, e.g. ['C:-', 'W:WWWWWWFPP', ...]"""
    res = []
    cur = []
    sizes = {}
    for op in ops:
        kd = kind_of(op, root, sizes)
        if kd == "D":
            continue
        if kd == "A":
            idx = int(op["text"].split(" ")[0])
            if idx >= 0:
                st = steps[idx]
                tag = st[0]
                body = "".join(cur)
                res.append("%s:%s" % (tag, body if (body and tag != "C") else "-"))
            cur = []
        elif kd != "c":
            cur.append(kd)
    return res


def restart_image(harness, img, dest, keys, twice=False):
    img.materialise(dest)
    env = dict(os.environ, TZ="UTC", VERIF_WORK=dest + ".w")
    try:
        p = subprocess.run([harness, "restart", dest, ",".join(keys)] + (["twice"] if twice else []),
                           stdout=subprocess.PIPE, stderr=subprocess.PIPE, timeout=120, env=env)
        lines = [l for l in p.stdout.decode(errors="replace").split("\n") if l.startswith("startup=")]
        out = lines[-1] if lines else "startup=died rc=%d" % p.returncode
    except subprocess.TimeoutExpired:
        out = "startup=hang"
    shutil.rmtree(dest, ignore_errors=True)
    shutil.rmtree(dest + ".w", ignore_errors=True)
    return out


def nested_restart_cases(harness, snap, dest, keys, workdir, tagbase):
    """C34: crash DURING startup replay. Materialise the image, run the real restart under strace,
    and return one (tag, image) per prefix of the restart's own file-mutating calls."""
    snap.materialise(dest)
    trace = dest + ".trace"
    markers = dest + ".markers"      # never written: restart emits no markers
    env = dict(os.environ, TZ="UTC", VERIF_WORK=dest + ".w")
    rc, err = S.run_traced([harness, "restart", dest, ",".join(keys)], trace, timeout=300, env=env)
    calls = S.parse_log(trace)
    ops2 = S.mutations(calls, dest, markers)
    try:
        os.remove(trace)
    except OSError:
        pass
    shutil.rmtree(dest, ignore_errors=True)
    shutil.rmtree(dest + ".w", ignore_errors=True)
    out = []
    img = snap.clone()
    img.root = os.path.realpath(dest)
    for k2 in range(len(ops2) + 1):
        out.append(("%s,k2=%d/%d" % (tagbase, k2, len(ops2)), img.clone()))
        if k2 < len(ops2) and ops2[k2]["kind"] not in ("ack", "fsync", "sync"):
            img.apply(ops2[k2])
    return out


def durable_image(ops, k, root, pattern, rng):
    """directory image after POWER LOSS at prefix k, in the property's fault model: file DATA that
    was not fsynced (or covered by a later sync(2)) may be lost or torn; namespace operations
    (create, mkdir, rename, unlink, truncate) are taken as durable when issued (journalled
    metadata), see DESIGN C04.
      'none' – no unsynced data write survives
      'rand' – each unsynced data write survives with probability 1/2, possibly torn at a
               512-byte boundary
    Returns (image, unsynced_catalog_data): whether a header / category_name write is among the
    unsynced ones (hypothesis of the C04 theorem: a file is written only after its header is durable)."""
    last_sync = -1
    last_fsync = {}
    for i in range(k):
        if ops[i]["kind"] == "sync":
            last_sync = i
        elif ops[i]["kind"] == "fsync":
            last_fsync[ops[i]["path"]] = i
    img = S.Image(root)
    unsynced_cat = False
    wal_lost = False      # an unsynced WAL write was dropped or torn …
    wal_garbage = False   # … and a later WAL write survived: the durable WAL has a hole / garbage
    for i in range(k):
        op = ops[i]
        kd = op["kind"]
        if kd in ("ack", "sync", "fsync"):
            continue
        if kd != "write":
            img.apply(op)
            continue
        # the .tmp name of a year file and its final name are one file: fsync/sync of either counts
        durable = i <= last_sync or i <= last_fsync.get(op["path"], -1)
        if durable:
            img.apply(op)
            continue
        p = op["path"]
        if p.endswith("category_name") or ((p.endswith(".bin") or p.endswith(".bin.tmp")) and (op["off"] or 0) < HEADERSIZE):
            unsynced_cat = True
        is_wal = p.endswith(".walfile")
        if pattern == "rand" and rng.random() < 0.5:
            d = op["data"]
            if len(d) > 512 and rng.random() < 0.5:
                cut = 512 * rng.randrange(1, (len(d) + 511) // 512)
                op = dict(op, data=d[:cut])
                if is_wal:
                    wal_lost = True
            if is_wal and wal_lost:
                wal_garbage = True
            img.apply(op)
        elif is_wal:
            wal_lost = True
    return img, ("u" if unsynced_cat else "") + ("g" if wal_garbage else "")


def run(pid, cfg, seed, tier, workdir, log, harness, driver, replay_lines=None):
    wcfg = cfg.get("wal", {})
    focus = wcfg.get("focus", "all")
    mode = wcfg.get("crash", "crash")          # crash | power | twice
    nh = wcfg.get("histories", {}).get(tier, 4 if tier == "quick" else 30)
    sample = wcfg.get("sample", {}).get(tier, 40 if tier == "quick" else 0)   # 0 = every prefix
    rng = random.Random(seed * 7919 + 13)
    year = time.gmtime().tm_year
    cases = []
    hist = {}
    jobs = []   # (opline-fields, image builder)
    corpus = []
    cdir = os.path.join(os.path.dirname(os.path.dirname(os.path.abspath(__file__))), "corpus", pid)
    if os.path.isdir(cdir):
        for fn in sorted(os.listdir(cdir)):
            if fn.endswith(".hist"):
                for l in open(os.path.join(cdir, fn)):
                    l = l.strip()
                    if l and not l.startswith("#"):
                        f = l.split(" ")
                        corpus.append((f[0].split(","), f[1:]))
    histories = [(k, s, "corpus") for k, s in corpus]
    if replay_lines is not None:
        histories = []
        nh = 0
        sample = 0
        for l in replay_lines:
            f = l.split(" ")
            if f[0] in ("walcrash", "walcrash01"):
                histories.append((f[4].split(","), f[5:], "replay"))
            elif f[0] == "waltrace":
                ks = sorted({st.split(":")[1] for st in f[2:] if st[:2] in ("C:", "W:")})
                histories.append((ks, f[2:], "replay"))
    for h in range(nh):
        steps, keys = gen_history(rng, focus, wcfg.get("var_share", 0.0))
        histories.append((keys, steps, "gen"))
    t0 = time.time()
    pool = concurrent.futures.ThreadPoolExecutor(max_workers=max(2, (os.cpu_count() or 4) - 2))
    futs = []
    trace_lines = []
    nested_done = {}
    for hi, (keys, steps, src) in enumerate(histories):
        wdir = os.path.join(workdir, "h%d" % hi)
        if mode == "shutdown" and (not steps or steps[-1] != "X"):
            steps = steps + ["X"]
        bg = (mode in ("bg", "shutdown")) or (wcfg.get("bg_share", 0) > 0 and src == "gen" and rng.random() < wcfg.get("bg_share", 0))
        if bg:
            # with the real background writer a timer flush can fall between two commands of ONE
            # request, so an unacknowledged multi-command request may legitimately be half applied
            # after a crash (two transaction groups); acknowledged content is unaffected. The
            # expectation "in-flight request entirely or not at all" is therefore only used with
            # single-command requests here.
            steps = [(":".join(st.split(":")[:4] + [st.split(":")[4].split("+")[0]]) if st.startswith("W:") else st) for st in steps]
        res, err = run_workload(harness, steps, "bg" if bg else "sync", wdir, log)
        if err:
            cases.append(dict(op="walhist %s" % " ".join(steps), impl="harness:" + err, model="-", spec=None, hyps=[], tags=src))
            continue
        root, ops = res
        # (i) trace shape
        if bg:
            # background writer: events are timer driven; the recorded kind sequence must be a path
            # of the model (trace validation)
            sizes = {}
            kinds = "".join(k for k in (kind_of(o, root, sizes) for o in ops) if k not in ("A", "c", "D"))
            # drop the start-up status write + fsync of the new WAL file
            if kinds.startswith("WF"):
                kinds = kinds[2:]
            trace_lines.append(("walaccept %s" % (kinds or "-"), "accepted", src + ",bg"))
        else:
            real = " ".join(step_kinds(ops, steps, root))
            trace_lines.append(("waltrace %d %s" % (year, " ".join(steps)), real, src))
        # (ii) crash points
        pos = positions(ops, steps, root)
        if bg:
            pos = [(k, a, "*") for (k, a, jj) in pos]
        if mode == "shutdown":
            # graceful shutdown: only the final state matters (restart twice on it)
            pos = [(len(ops), len(steps), "0")]
        ks = list(range(len(pos)))
        if sample and len(ks) > sample:
            # always keep the points around every ack and fsync, sample the rest
            must = set()
            for idx, (k, a, jj) in enumerate(pos):
                if k < len(ops) and ops[k]["kind"] in ("ack", "fsync", "sync"):
                    must.update([idx, idx + 1])
                if k > 0 and ops[k - 1]["kind"] == "write" and ops[k - 1]["path"].endswith(".walfile"):
                    if rng.random() < 0.5:
                        must.add(idx)
                # rare windows: right after the WAL file is truncated (rotation) or created (start-up)
                if k > 0 and ops[k - 1]["kind"] in ("truncate", "create") and ops[k - 1].get("path", "").endswith(".walfile"):
                    must.add(idx)
                if a == 0 and jj == "*" and k < 12:
                    must.add(idx)
            rest = [i for i in ks if i not in must]
            rng.shuffle(rest)
            ks = sorted(set(list(must)[:sample]) | set(rest[:max(0, sample - len(must))]))
            ks = [i for i in ks if i < len(pos)]
        img = S.Image(root)
        applied = 0
        for idx in ks:
            k, a, jj = pos[idx]
            if mode in ("crash", "twice", "nested", "bg", "shutdown"):
                while applied < k:
                    if ops[applied]["kind"] not in ("ack", "fsync", "sync"):
                        img.apply(ops[applied])
                    applied += 1
                snap = img.clone()
                patterns = [("-", snap, None)]
            else:
                prng = random.Random(seed * 1000003 + hi * 1009 + k)
                im0, fl0 = durable_image(ops, k, root, "none", prng)
                patterns = [("none", im0, fl0)]
                for r in range(wcfg.get("rand_patterns", {}).get(tier, 1 if tier == "quick" else 4)):
                    imr, flr = durable_image(ops, k, root, "rand", prng)
                    patterns.append(("rand%d" % r, imr, flr))
            for pname, snap, flags in patterns:
                if flags is not None:
                    jj = flags or "*"
                dest = os.path.join(workdir, "img-%d-%d-%s" % (hi, k, pname))
                line = "%s %d %d %s %s %s" % (wcfg.get("op", "walcrash"), year, a, jj, ",".join(keys), " ".join(steps))
                tagl = "%s,k=%d/%d,mode=%s,pattern=%s,inflight=%s%s" % (
                    src, k, len(ops), mode, pname, (steps[a][0] if a < len(steps) else "none"), ",bg" if bg else "")
                if mode == "nested":
                    # only states with something to replay are interesting; bound the number per history
                    if nested_done.get(hi, 0) >= wcfg.get("nested_per_history", {}).get(tier, 2 if tier == "quick" else 12):
                        continue
                    if not (jj.isdigit() and int(jj) >= 5) and rng.random() < 0.8:
                        continue
                    nested_done[hi] = nested_done.get(hi, 0) + 1
                    for tg2, img2 in nested_restart_cases(harness, snap, dest, keys, workdir, tagl):
                        d2 = os.path.join(workdir, "img2-%d-%d-%s" % (hi, k, tg2.split("k2=")[1].split("/")[0]))
                        futs.append((line, tg2, pool.submit(restart_image, harness, img2, d2, keys, True)))
                    continue
                futs.append((line, tagl, pool.submit(restart_image, harness, snap, dest, keys, mode in ("twice", "shutdown"))))
        shutil.rmtree(wdir, ignore_errors=True)
    # model side, one driver run
    lines = [l for l, _, _ in trace_lines] + [l for l, _, _ in futs]
    p = subprocess.run([driver], input="\n".join(lines) + "\n", stdout=subprocess.PIPE, stderr=subprocess.PIPE,
                       text=True, timeout=1200)
    model = p.stdout.split("\n")
    from runner import parse_model_line
    mi = 0
    for l, real, src in trace_lines:
        d = parse_model_line(model[mi]); mi += 1
        cases.append(dict(op=l, impl=real, model=d["M"], spec=None, hyps=d["H"], tags=src + ",trace-shape"))
        hist["trace-shape"] = hist.get("trace-shape", 0) + 1
    for l, tagl, fut in futs:
        out = fut.result()
        d = parse_model_line(model[mi]); mi += 1
        m = d["M"]
        if mode in ("twice", "nested", "shutdown"):
            # both restarts must print the same as a single one
            parts = out.split(" startup=")
            if len(parts) == 2 and ("startup=" + parts[1]) == parts[0]:
                out = parts[0]
            else:
                out = "twice-differs: " + out
        if mode in ("power", "nested") and m != "*":
            m = "*"   # the crash model's exact prediction does not apply to these images; the spec does
        if m == "*":
            m = out
        cases.append(dict(op=l, impl=out, model=m, spec=d["S"], hyps=d["H"], tags=tagl))
        for t in tagl.split(","):
            if not t.startswith("k="):
                hist[t] = hist.get(t, 0) + 1
    pool.shutdown()
    log.append("walcheck %s: %d histories, %d cases, %.1fs" % (pid, len(histories), len(cases), time.time() - t0))
    return {"cases": cases, "stats": {"cases": len(cases), "histogram": hist}}, None
