import Mkts.Model.Catalog
/-!
# Two-thread small-step model of the catalog (C17, concurrent part)

Granularity = the lock-protected sections that exist in `catalog/catalog.go` (see
`Mkts.Extracted.Skel.catalog_*` and `Props/C17.lean` for the generated lock atoms):

* (repaired code, `Variant.serialised`) `AddTimeBucket`, `RemoveTimeBucket` and
  `GetSubDirectoryAndAddFile` first take the root's `mutMu` and hold it to their return: they exclude
  one another.  Before the repair `RemoveTimeBucket` took no lock of its own (below).
* `AddTimeBucket` and `GetSubDirectoryAndAddFile` take the ROOT's write lock for their whole body
  (`d.Lock(); defer d.Unlock()`): atoms `lock … unlock`, every atom in between runs while holding it;
  the repaired `AddTimeBucket` validates the key (`check`) right after the lock;
* `RemoveTimeBucket` takes NO lock of its own: it is a sequence of short sections, each locking one
  Directory object — `GetSubDirWithItemName` (RLock, per level of the descent), `removeDirFiles`
  (Lock of that object, around `os.RemoveAll`), `removeSubDir` (Lock of the parent),
  `DirHasSubDirs` (RLock) — and only the first (`root.GetSubDirWithItemName`) and the last
  (`root.removeSubDir`) need the root's lock.

Directory objects live in a heap (`Obj`, id = index) because `RemoveTimeBucket` keeps the pointers
it collected during the descent (`tree[i]`) while `AddTimeBucket` REPLACES the symbol's subtree by
freshly loaded objects.  The disk is the abstract tree of `Mkts.Catalog`.  An atom that needs the
root's lock is enabled only while no other thread holds the root's write lock; all other sections
are short and modelled as single atomic steps.  `NewDirectory` (several `readdir`s) is one atom.
Core Lean only.
-/
namespace Mkts.CatalogConc
open Mkts.Catalog

structure Obj where
  path : Path
  cat : Option String
  subs : List (String × Nat)
  files : List (Int × Nat)
deriving DecidableEq, Repr

structure Shared where
  heap : List Obj
  dmap : List (Path × Nat)
  disk : Dir
  rootLock : Option Nat
  mutLock : Option Nat     -- the root's `mutMu` (repaired code)
deriving DecidableEq, Repr

def emptyObj : Obj := ⟨[], none, [], []⟩
def getObj (h : List Obj) (i : Nat) : Obj := h.getD i emptyObj

def lookupS (k : String) : List (String × Nat) → Option Nat
  | [] => none
  | (a, v) :: rest => if a = k then some v else lookupS k rest

def upsertS (k : String) (v : Nat) : List (String × Nat) → List (String × Nat)
  | [] => [(k, v)]
  | (a, w) :: rest => if a = k then (k, v) :: rest else (a, w) :: upsertS k v rest

def eraseS (k : String) (l : List (String × Nat)) : List (String × Nat) := l.filter (fun e => e.1 != k)

def lookupP (k : Path) : List (Path × Nat) → Option Nat
  | [] => none
  | (a, v) :: rest => if a = k then some v else lookupP k rest

def upsertP (k : Path) (v : Nat) : List (Path × Nat) → List (Path × Nat)
  | [] => [(k, v)]
  | (a, w) :: rest => if a = k then (k, v) :: rest else (a, w) :: upsertP k v rest

def eraseP (k : Path) (l : List (Path × Nat)) : List (Path × Nat) := l.filter (fun e => e.1 != k)

def Shared.init : Shared := ⟨[⟨[], none, [], []⟩], [], initDisk, none, none⟩

/-- the root's lock is free for thread `me` -/
def rootFree (sh : Shared) (me : Nat) : Bool :=
  match sh.rootLock with
  | none => true
  | some t => t == me

/-- children of entry `p` among the loaded entries, with the ids they will get -/
def childIds (base : Nat) (p : Path) : List (Path × Rec) → Nat → List (String × Nat)
  | [], _ => []
  | (q, _) :: rest, j =>
    if q.length = p.length + 1 && isPre p q then (q.getLastD "", base + j) :: childIds base p rest (j + 1)
    else childIds base p rest (j + 1)

def indexOfPath (p : Path) : List (Path × Rec) → Nat → Option Nat
  | [], _ => none
  | (q, _) :: rest, j => if q = p then some j else indexOfPath p rest (j + 1)

def dmapEntries (base : Nat) : List (Path × Rec) → Nat → List (Path × Nat)
  | [], _ => []
  | (q, r) :: rest, j =>
    if r.files.isEmpty then dmapEntries base rest (j + 1) else (q, base + j) :: dmapEntries base rest (j + 1)

/-- `NewDirectory(root/s)` + `addSubdir`: allocate fresh objects for the symbol's subtree as it is
    on disk now; `none` = the symbol's directory is not loadable (missing / no `category_name`) -/
def reloadSymbol (s : String) (c0 : String) (sh : Shared) : Option Shared :=
  let sub := subtree s (load sh.disk)
  match indexOfPath [s] sub 0 with
  | none => none
  | some j0 =>
    match find [s] sh.disk with
    | none => none
    | some rs =>
      if rs.cat.isNone then none else
      let base := sh.heap.length
      let objs := sub.map (fun e => (⟨e.1, e.2.cat, childIds base e.1 sub 0, e.2.files⟩ : Obj))
      let root := getObj sh.heap 0
      let root' : Obj := { root with cat := (if root.cat.isSome then root.cat else some c0),
                                     subs := upsertS s (base + j0) root.subs }
      let dm := (dmapEntries base sub 0).foldl (fun acc e => upsertP e.1 e.2 acc) sh.dmap
      some { sh with heap := (sh.heap.set 0 root') ++ objs, dmap := dm }

/-! ## threads -/

inductive DPc
  | lock | walk (i : Nat) | secA (i : Nat) | secB (i : Nat) | secC (i : Nat) (hasSubs : Bool) | f1 | f2
deriving DecidableEq, Repr

inductive CPc
  | lock | check | mk (i : Nat) | wc (i : Nat) | year | file | reload | unlock (r : Res)
deriving DecidableEq, Repr

inductive WPc
  | lock | lookup | create (obj : Nat) (sch : Nat) | insert (obj : Nat) (sch : Nat) | unlock (r : Res)
deriving DecidableEq, Repr

inductive Thread
  | destroy (items : Path) (tree : List Nat) (del : List Bool) (pc : DPc)
  | create (items cats : List String) (year : Int) (schema : Nat) (pc : CPc)
  | addYear (p : Path) (year : Int) (pc : WPc)
  | done (r : Res)
deriving DecidableEq, Repr

def Thread.mkDestroy (items : Path) : Thread := .destroy items [] (List.replicate items.length false) .lock
def Thread.mkCreate (items cats : List String) (year : Int) (schema : Nat) : Thread := .create items cats year schema .lock
def Thread.mkAddYear (p : Path) (year : Int) : Thread := .addYear p year .lock

def removeDirFilesObj (sh : Shared) (id : Nat) : Shared :=
  { sh with disk := removeAll (getObj sh.heap id).path sh.disk }

/-- `parent.removeSubDir(name, directMap)`; `deep` = the repaired code (every key at or below the
    child's path is deleted from the direct map) -/
def removeSubDirObj (deep : Bool) (sh : Shared) (parent : Nat) (name : String) : Shared :=
  let po := getObj sh.heap parent
  let dm := match lookupS name po.subs with
    | some cid =>
      if deep then sh.dmap.filter (fun e => !(isPre (getObj sh.heap cid).path e.1))
      else eraseP (getObj sh.heap cid).path sh.dmap
    | none => sh.dmap
  { sh with heap := sh.heap.set parent { po with subs := eraseS name po.subs }, dmap := dm }

/-- release the root's `mutMu` if this thread holds it (deferred unlock) -/
def relMut (me : Nat) (sh : Shared) : Shared :=
  if sh.mutLock == some me then { sh with mutLock := none } else sh

/-- one atom of thread `me`; `none` = not enabled (blocked on a lock, or finished) -/
def step (v : Variant) (me : Nat) (th : Thread) (sh : Shared) : Option (Thread × Shared) :=
  match th with
  | .done _ => none
  | .destroy items tree del pc =>
    let n := items.length
    match pc with
    | .lock =>
      if v.serialised then
        (if sh.mutLock.isSome then none else some (.destroy items tree del (.walk 0), { sh with mutLock := some me }))
      else some (.destroy items tree del (.walk 0), sh)
    | .walk i =>
      if i = 0 && !(rootFree sh me) then none else
      let cur := if i = 0 then 0 else tree.getD (i - 1) 0
      match lookupS (items.getD i "") (getObj sh.heap cur).subs with
      | none => some (.done .noKey, relMut me sh)
      | some id =>
        let tree' := tree ++ [id]
        some (.destroy items tree' del (if i + 1 < n then .walk (i + 1) else .secA (n - 1)), sh)
    | .secA i =>
      if i + 1 = n then
        some (.destroy items tree (del.set i true) (.secB i), removeDirFilesObj sh (tree.getD i 0))
      else if del.getD (i + 1) false then
        some (.destroy items tree del (.secB i), removeSubDirObj v.deepDelete sh (tree.getD i 0) (items.getD (i + 1) ""))
      else some (.destroy items tree del (.secB i), sh)
    | .secB i =>
      some (.destroy items tree del (.secC i (!(getObj sh.heap (tree.getD i 0)).subs.isEmpty)), sh)
    | .secC i hs =>
      let (del', sh') := if hs then (del, sh) else (del.set i true, removeDirFilesObj sh (tree.getD i 0))
      if i = 0 then
        (if del'.getD 0 false then some (.destroy items tree del' .f1, sh') else some (.done .ok, relMut me sh'))
      else some (.destroy items tree del' (.secA (i - 1)), sh')
    | .f1 => some (.destroy items tree del .f2, removeDirFilesObj sh (tree.getD 0 0))
    | .f2 =>
      if !(rootFree sh me) then none else
      some (.done .ok, relMut me (removeSubDirObj v.deepDelete sh 0 (items.getD 0 "")))
  | .create items cats year schema pc =>
    let n := items.length
    match pc with
    | .lock => if sh.rootLock.isSome || (v.serialised && sh.mutLock.isSome) then none else
        some (.create items cats year schema (if v.checkFirst then .check else if n = 0 then .year else .mk 0),
              { sh with rootLock := some me, mutLock := if v.serialised then some me else sh.mutLock })
    | .check =>
      if cats.length ≠ n then some (.create items cats year schema (.unlock .keyLen), sh) else
      match validateKey [] items cats sh.disk with
      | some e => some (.create items cats year schema (.unlock e), sh)
      | none => some (.create items cats year schema (if n = 0 then .year else .mk 0), sh)
    | .mk i =>
      some (.create items cats year schema (.wc i), { sh with disk := mkdirIfMissing (items.take (i + 1)) sh.disk })
    | .wc i =>
      match cats[i]? with
      | none => some (.create items cats year schema (.unlock .panicIndex), sh)
      | some c =>
        match writeCategoryNameFile c (items.take i) sh.disk with
        | none => some (.create items cats year schema
                    (.unlock (if (find (items.take i) sh.disk).isSome then .catMismatch else .other)), sh)
        | some d' => some (.create items cats year schema (if i + 1 < n then .mk (i + 1) else .year), { sh with disk := d' })
    | .year =>
      match writeCategoryNameFile "Year" items sh.disk with
      | none => some (.create items cats year schema
                  (.unlock (if (find items sh.disk).isSome then .catMismatch else .other)), sh)
      | some d' => some (.create items cats year schema .file, { sh with disk := d' })
    | .file =>
      match createFile items year schema sh.disk with
      | none => some (.create items cats year schema
                  (.unlock (if (find items sh.disk).isSome then .exists_ else .other)), sh)
      | some d' => some (.create items cats year schema .reload, { sh with disk := d' })
    | .reload =>
      match items, cats with
      | s :: _, c0 :: _ =>
        match reloadSymbol s c0 sh with
        | none => some (.create items cats year schema (.unlock .other), sh)
        | some sh' => some (.create items cats year schema (.unlock .ok), sh')
      | _, _ => some (.create items cats year schema (.unlock .panicIndex), sh)
    | .unlock r => some (.done r, relMut me { sh with rootLock := none })
  | .addYear p year pc =>
    match pc with
    | .lock => if sh.rootLock.isSome || (v.serialised && sh.mutLock.isSome) then none else
        some (.addYear p year .lookup,
              { sh with rootLock := some me, mutLock := if v.serialised then some me else sh.mutLock })
    | .lookup =>
      match lookupP p sh.dmap with
      | none => some (.addYear p year (.unlock .notInCatalog), sh)
      | some id =>
        match (getObj sh.heap id).files with
        | [] => some (.addYear p year (.unlock .other), sh)
        | t :: _ => some (.addYear p year (.create id t.2), sh)
    | .create id sch =>
      match createFile p year sch sh.disk with
      | none => some (.addYear p year (.unlock (if (find p sh.disk).isSome then .ok else .other)), sh)
      | some d' => some (.addYear p year (.insert id sch), { sh with disk := d' })
    | .insert id sch =>
      let o := getObj sh.heap id
      some (.addYear p year (.unlock .ok), { sh with heap := sh.heap.set id { o with files := o.files ++ [(year, sch)] } })
    | .unlock r => some (.done r, relMut me { sh with rootLock := none })

structure Sys where
  threads : List Thread
  sh : Shared
deriving DecidableEq, Repr

/-- run thread `t` one atom; `none` = the schedule asks for a disabled step -/
def Sys.step (v : Variant) (s : Sys) (t : Nat) : Option Sys :=
  match s.threads[t]? with
  | none => none
  | some th =>
    match CatalogConc.step v t th s.sh with
    | none => none
    | some (th', sh') => some ⟨s.threads.set t th', sh'⟩

def Sys.run (v : Variant) : Sys → List Nat → Option Sys
  | s, [] => some s
  | s, t :: ts => match s.step v t with
    | none => none
    | some s' => Sys.run v s' ts

def Thread.isDone : Thread → Bool
  | .done _ => true
  | _ => false

def Sys.finished (s : Sys) : Bool := s.threads.all Thread.isDone

def Thread.result : Thread → Option Res
  | .done r => some r
  | _ => none

/-- run one thread to completion (sequential execution of a request) -/
def runSeq (v : Variant) (t : Nat) : Nat → Sys → Sys
  | 0, s => s
  | f + 1, s => match s.step v t with
    | none => s
    | some s' => runSeq v t f s'

/-- all final states over ALL enabled interleavings (depth-first, `fuel` ≥ total number of atoms) -/
def explore (v : Variant) : Nat → Sys → List Sys
  | 0, s => [s]
  | f + 1, s =>
    let nexts := (List.range s.threads.length).filterMap (fun t => s.step v t)
    if nexts.isEmpty then [s] else nexts.flatMap (fun s' => explore v f s')

/-! ## reachable state graph (all schedules) -/

def succs (v : Variant) (s : Sys) : List Sys := (List.range s.threads.length).filterMap (s.step v)

def addNew : List Sys → List Sys → List Sys
  | [], vis => vis
  | s :: rest, vis => if vis.contains s then addNew rest vis else addNew rest (vis ++ [s])

/-- breadth-first closure of the step relation -/
def bfs (v : Variant) : Nat → List Sys → List Sys → List Sys
  | 0, _, vis => vis
  | f + 1, fr, vis =>
    if fr.isEmpty then vis else
    let cand := fr.flatMap (succs v)
    let vis' := addNew cand vis
    bfs v f (vis'.drop vis.length) vis'

def closed (v : Variant) (vis : List Sys) : Bool := vis.all (fun s => (succs v s).all (fun s' => vis.contains s'))

def terminal (v : Variant) (s : Sys) : Bool := (succs v s).isEmpty

/-! ## observations -/

/-- `(path, year)` of every file reachable from object `i` through `subDirs` -/
def reachYears (h : List Obj) : Nat → Nat → List (Path × Int)
  | 0, _ => []
  | f + 1, i =>
    let o := getObj h i
    o.files.map (fun y => (o.path, y.1)) ++ o.subs.flatMap (fun s => reachYears h f s.2)

def reachDirs (h : List Obj) : Nat → Nat → List Path
  | 0, _ => []
  | f + 1, i =>
    let o := getObj h i
    o.path :: o.subs.flatMap (fun s => reachDirs h f s.2)

def catalogYears (sh : Shared) : List (Path × Int) := reachYears sh.heap 5 0
def diskYears (sh : Shared) : List (Path × Int) := yearsOf sh.disk

/-- directMap view = tree view for a bucket path -/
def dmapAgree (sh : Shared) (p : Path) : Bool :=
  let ty := ((catalogYears sh).filter (fun e => e.1 == p)).map (fun e => e.2)
  match lookupP p sh.dmap with
  | none => ty.isEmpty
  | some id =>
    let ys := (getObj sh.heap id).files.map (fun f => f.1)
    !ty.isEmpty && ys.all (fun y => ty.contains y) && ty.all (fun y => ys.contains y)

def sameSet (a b : List (Path × Int)) : Bool := a.all (fun x => b.contains x) && b.all (fun x => a.contains x)

/-- the catalog lists exactly the (bucket, year) pairs present on disk, and a restart
    (`load disk`) would list the same buckets -/
def consistent (sh : Shared) : Bool :=
  sameSet (catalogYears sh) (diskYears sh) &&
  (let live := (reachDirs sh.heap 5 0).filter (fun p => p.length == 3)
   let fresh := ((load sh.disk).map (fun e => e.1)).filter (fun p => p.length == 3)
   live.all (fun p => fresh.contains p) && fresh.all (fun p => live.contains p))

end Mkts.CatalogConc
