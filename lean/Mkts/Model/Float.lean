/-!
# IEEE-754 binary32 / binary64 on bit patterns (core Lean only, executable, kernel-reducible)

Values are natural numbers holding the bit pattern.  Every operation decodes to an exact
`(-1)^neg * m * 2^e`, computes exactly on integers / rationals and rounds once, to nearest, ties to
even (`roundPos`).  Used by the aggregate model (C23: `float32(x)` conversions, the float64 running
sum and the final division of `avg`) and by the CSV loader model (C33: `strconv.ParseFloat`).

What the theorems use is only: `lt`/`gt` (order via the sign-magnitude key) and "the same fold of
`add`"; nothing is claimed about rounding error.  That these definitions agree with the hardware
operations the Go code executes is checked by the correspondence runs (bit patterns compared).
NaN payloads are not modelled: every NaN *produced* by an operation is the canonical quiet NaN, and
drivers print every NaN as the canonical one.
-/
namespace Mkts.Float

structure Fmt where
  /-- precision: significand bits including the hidden bit (24 / 53) -/
  p : Nat
  /-- width of the exponent field (8 / 11) -/
  ebits : Nat
deriving DecidableEq, Repr

def b32 : Fmt := ⟨24, 8⟩
def b64 : Fmt := ⟨53, 11⟩

def Fmt.bias (f : Fmt) : Int := 2 ^ (f.ebits - 1) - 1
/-- the all-ones exponent field (Inf / NaN) -/
def Fmt.emax (f : Fmt) : Nat := 2 ^ f.ebits - 1
/-- binary exponent of one unit in the last place of a subnormal -/
def Fmt.tmin (f : Fmt) : Int := 1 - f.bias - ((f.p : Int) - 1)
def Fmt.hidden (f : Fmt) : Nat := 2 ^ (f.p - 1)
def Fmt.signBit (f : Fmt) : Nat := 2 ^ (f.ebits + f.p - 1)

inductive Val where
  | nan
  | inf (neg : Bool)
  /-- `(-1)^neg * m * 2^e` -/
  | fin (neg : Bool) (m : Nat) (e : Int)
deriving DecidableEq, Repr

def isNeg (f : Fmt) (bits : Nat) : Bool := bits / f.signBit % 2 == 1
def expField (f : Fmt) (bits : Nat) : Nat := bits / f.hidden % 2 ^ f.ebits
def fracField (f : Fmt) (bits : Nat) : Nat := bits % f.hidden

def isNaN (f : Fmt) (bits : Nat) : Bool := expField f bits == f.emax && fracField f bits != 0

def decode (f : Fmt) (bits : Nat) : Val :=
  let neg := isNeg f bits
  let E := expField f bits
  let F := fracField f bits
  if E == f.emax then (if F == 0 then .inf neg else .nan)
  else if E == 0 then .fin neg F f.tmin
  else .fin neg (f.hidden + F) ((E : Int) - f.bias - ((f.p : Int) - 1))

def qnan (f : Fmt) : Nat := f.emax * f.hidden + 2 ^ (f.p - 2)
def signOf (f : Fmt) (neg : Bool) : Nat := if neg then f.signBit else 0
def infBits (f : Fmt) (neg : Bool) : Nat := signOf f neg + f.emax * f.hidden
def zeroBits (f : Fmt) (neg : Bool) : Nat := signOf f neg

/-- `num/den / 2^t` as a fraction of naturals -/
def scaled (num den : Nat) (t : Int) : Nat × Nat :=
  if t < 0 then (num * 2 ^ t.natAbs, den) else (num, den * 2 ^ t.toNat)

/-- round `N/D` to the nearest natural, ties to even -/
def rneDiv (N D : Nat) : Nat :=
  let q := N / D
  let r := N % D
  if 2 * r > D || (2 * r == D && q % 2 == 1) then q + 1 else q

/-- magnitude bits of the positive rational `num/den` (`num, den > 0`) rounded to format `f` -/
def roundPos (f : Fmt) (num den : Nat) : Nat :=
  let l : Int := (Nat.log2 num : Int) - (Nat.log2 den : Int)
  let t0 : Int := max (l - ((f.p : Int) - 1)) f.tmin
  let nd0 := scaled num den t0
  let t : Int := if nd0.1 / nd0.2 < f.hidden && t0 > f.tmin then t0 - 1 else t0
  let nd := scaled num den t
  let q0 := rneDiv nd.1 nd.2
  let q := if q0 ≥ 2 ^ f.p then q0 / 2 else q0
  let t' : Int := if q0 ≥ 2 ^ f.p then t + 1 else t
  if q < f.hidden then q
  else
    let E : Int := t' + ((f.p : Int) - 1) + f.bias
    if E ≥ f.emax then f.emax * f.hidden
    else E.toNat * f.hidden + (q - f.hidden)

def ofRat (f : Fmt) (neg : Bool) (num den : Nat) : Nat :=
  if num == 0 then zeroBits f neg else signOf f neg + roundPos f num den

/-- `m * 2^e` rounded -/
def ofScaled (f : Fmt) (neg : Bool) (m : Nat) (e : Int) : Nat :=
  if e < 0 then ofRat f neg m (2 ^ e.natAbs) else ofRat f neg (m * 2 ^ e.toNat) 1

/-- Go `float32(n)` / `float64(n)` for an integer `n` (one rounding) -/
def ofInt (f : Fmt) (n : Int) : Nat := ofRat f (decide (n < 0)) n.natAbs 1

/-- Go `float32(x)` for a float64 `x` and `float64(x)` for a float32 `x` -/
def convert (f g : Fmt) (bits : Nat) : Nat :=
  match decode f bits with
  | .nan => qnan g
  | .inf s => infBits g s
  | .fin s m e => ofScaled g s m e

def add (f : Fmt) (a b : Nat) : Nat :=
  match decode f a, decode f b with
  | .nan, _ => qnan f
  | _, .nan => qnan f
  | .inf s, .inf s' => if s == s' then infBits f s else qnan f
  | .inf s, _ => infBits f s
  | _, .inf s => infBits f s
  | .fin s1 m1 e1, .fin s2 m2 e2 =>
    let e := min e1 e2
    let x1 : Int := (m1 * 2 ^ (e1 - e).toNat : Nat)
    let x2 : Int := (m2 * 2 ^ (e2 - e).toNat : Nat)
    let M : Int := (if s1 then -x1 else x1) + (if s2 then -x2 else x2)
    if M == 0 then zeroBits f (s1 && s2) else ofScaled f (decide (M < 0)) M.natAbs e

def div (f : Fmt) (a b : Nat) : Nat :=
  match decode f a, decode f b with
  | .nan, _ => qnan f
  | _, .nan => qnan f
  | .inf _, .inf _ => qnan f
  | .inf s, .fin s' _ _ => infBits f (s != s')
  | .fin s _ _, .inf s' => zeroBits f (s != s')
  | .fin s1 m1 e1, .fin s2 m2 e2 =>
    if m2 == 0 then (if m1 == 0 then qnan f else infBits f (s1 != s2))
    else if m1 == 0 then zeroBits f (s1 != s2)
    else
      let d := e1 - e2
      if d < 0 then ofRat f (s1 != s2) m1 (m2 * 2 ^ d.natAbs)
      else ofRat f (s1 != s2) (m1 * 2 ^ d.toNat) m2

/-- order-preserving key of a non-NaN value: sign-magnitude read as an integer (`-0` and `+0` ↦ 0) -/
def key (f : Fmt) (bits : Nat) : Int :=
  let mag : Int := (bits % f.signBit : Nat)
  if isNeg f bits then -mag else mag

/-- Go `a < b` on floats: false whenever a NaN is involved -/
def lt (f : Fmt) (a b : Nat) : Bool := !isNaN f a && !isNaN f b && decide (key f a < key f b)
/-- Go `a > b` -/
def gt (f : Fmt) (a b : Nat) : Bool := lt f b a

/-- what drivers print: every NaN as the canonical quiet NaN -/
def canon (f : Fmt) (bits : Nat) : Nat := if isNaN f bits then qnan f else bits

end Mkts.Float
