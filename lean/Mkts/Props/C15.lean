import Mkts.Lemmas.Header
/-!
# C15 — bucket schema is preserved across restarts

The schema lives in the header of the year file; what the server reports (`GetInfo`) and enforces
(`WriteCSM`) after a restart — and, because `AddTimeBucket` re-reads the catalog from disk, already
before it — is `decode` of the header bytes.  `TBI` carries column names/types, timeframe, record
type, record length, year, description.
-/
namespace Mkts.Props.C15
open Mkts.Header Mkts.Bytes

/-- the order and sizes of the fields `encode` writes are the Go struct layout (regenerated fact) -/
theorem C15_layout : layout = Mkts.Extracted.headerLayout ∧ headersize = Mkts.Extracted.headerStructSize := by decide

/-- a well-formed schema survives `WriteHeader` → `readHeader` exactly -/
theorem C15_header_roundtrip (f : TBI) (h : WF f) :
    ∃ b, encode f = some b ∧ b.length = headersize ∧ decode b = some f :=
  header_roundtrip f h

/-- the well-formedness conditions on names, column count and description are NECESSARY: nothing
    else can ever be read back from a header -/
theorem C15_decode_wf (b : Bytes) (f : TBI) (h : decode b = some f) :
    f.names.length ≤ maxElems ∧ (∀ s ∈ f.names, s.length ≤ nameBytes ∧ noEdgeNul s) ∧
    f.description.length ≤ descBytes ∧ noEdgeNul f.description :=
  decode_props b f h

/-- BEFORE the repairs nothing was checked at creation: "every schema with one name per type, byte-sized
    type numbers and 64-bit fields is written and read back unchanged" — false, see below -/
def C15_unvalidated_roundtrip : Prop :=
  ∀ f : TBI, f.names.length = f.types.length → (∀ t ∈ f.types, t < 256) →
    f.version < 2 ^ 64 → f.year < 2 ^ 64 → f.timeframe < 2 ^ 64 → f.recordType < 2 ^ 64 → f.recordLength < 2 ^ 64 →
    ∃ b, encode f = some b ∧ decode b = some f

def name33 : Str := List.replicate 33 65
def longNameSchema : TBI := ⟨2, [68], 2020, 60000000000, 0, 16, [name33], [1]⟩

/-- (before the repair of C15-F9) a 33-byte column name is stored truncated -/
theorem C15_before_repair_longname : ¬ C15_unvalidated_roundtrip := by
  intro h
  obtain ⟨b, _, hd⟩ := h longNameSchema rfl (by decide) (by decide) (by decide) (by decide) (by decide) (by decide)
  have := (C15_decode_wf b _ hd).2.1 name33 (by simp [longNameSchema])
  revert this
  decide

/-- what is read back for the 33-byte name: its first 32 bytes -/
theorem C15_before_repair_longname_truncated : trimNul (padTo nameBytes name33) = List.replicate 32 65 := by decide

/-- a name with a trailing (or leading) NUL comes back without it -/
theorem C15_before_repair_edge_nul : ∀ b, decode b ≠ some ⟨2, [68], 2020, 60000000000, 0, 16, [[65, 0]], [1]⟩ := by
  intro b hd
  have := (C15_decode_wf b _ hd).2.1 [65, 0] (by simp)
  revert this
  decide

/-- more than 1024 columns: `Header.Load` indexes past the arrays (Go panic; the server leaves a
    0-byte year file behind, which is fatal at the first access after a restart) -/
theorem C15_before_repair_too_many (f : TBI) (h : f.types.length > maxElems) : encode f = none := by
  simp [encode, h]

/-! ### writes into the header: the record of a 1D bucket dated January 1 (slot index 0) -/

/-- one slot-0 write `index(8 bytes) ++ payload` of a bucket with record length `recLen` -/
def slot0Write (recLen : Nat) (d : Bytes) (w : Bytes) : Bytes := overwrite d (headersize - recLen) w

/-- any number of slot-0 writes leave the schema intact when the slot starts behind the used part of
    the type array: `recLen + nElements ≤ Headersize − 33080 = 3944` -/
theorem C15_jan1_safe (f : TBI) (hwf : WF f) (b : Bytes) (he : encode f = some b)
    (hsafe : f.recordLength + f.types.length ≤ headersize - (312 + maxElems * nameBytes))
    (ws : List Bytes) (hws : ∀ w ∈ ws, w.length ≤ f.recordLength) :
    decode (ws.foldl (slot0Write f.recordLength) b) = some f := by
  obtain ⟨b', he', hl, hd⟩ := header_roundtrip f hwf
  rw [he] at he'; injection he' with he'; subst he'
  have hN : leDecode ((b.drop 288).take 8) = f.types.length := by
    have := decode_types b f hd
    have h2 := congrArg List.length this
    simp only [List.length_map, List.length_take] at h2
    -- NElements is what `decode` reads; recover it from the decoded structure
    have hc := hwf.count
    unfold decode at hd
    split at hd
    · exact absurd hd (by simp)
    · simp only at hd
      split at hd
      · exact absurd hd (by simp)
      · injection hd with hd
        have hn := congrArg TBI.names hd
        simp only at hn
        have := (decNames_props (leDecode ((b.drop 288).take 8)) (b.drop 312)).1
        rw [hn] at this
        rw [← this, hwf.lenEq]
  have hmn : 312 + maxElems * nameBytes = 33080 := by decide
  rw [hmn, headersize_eq] at hsafe
  -- invariant of the fold
  suffices H : ∀ (ws : List Bytes) (d : Bytes), (∀ w ∈ ws, w.length ≤ f.recordLength) →
      d.length = headersize → (d.drop 288).take 8 = (b.drop 288).take 8 → decode d = some f →
      decode (ws.foldl (slot0Write f.recordLength) d) = some f from H ws b hws hl rfl hd
  intro ws
  induction ws with
  | nil => intro d _ _ _ hd'; exact hd'
  | cons w rest ih =>
    intro d hw hdl hdn hdd
    have hwl := hw w (by simp)
    rw [headersize_eq] at hdl
    have hoff : headersize - f.recordLength + w.length ≤ headersize := by rw [headersize_eq]; omega
    simp only [List.foldl_cons]
    refine ih _ (fun x hx => hw x (by simp [hx])) ?_ ?_ ?_
    · unfold slot0Write; rw [overwrite_length _ _ _ (by rw [hdl]; rw [headersize_eq] at hoff; exact hoff), hdl, headersize_eq]
    · unfold slot0Write
      rw [fld_overwrite d w _ 288 8 (by rw [headersize_eq]; omega) (by rw [hdl, headersize_eq]; omega), hdn]
    · unfold slot0Write
      rw [decode_overwrite d w _ (by rw [hdl, headersize_eq]) hoff (by rw [hdn, hN, hmn, headersize_eq]; omega)]
      exact hdd

/-- (before the repair of C15-F1; such a schema is refused now) the January-1 record of a wide daily
    bucket overwrites the element types: after the write the header no longer decodes to the schema -/
theorem C15_before_repair_jan1 : ∃ b, encode wide = some b ∧ junk.length ≤ wide.recordLength ∧
    decode (slot0Write wide.recordLength b junk) ≠ some wide := by
  obtain ⟨b, he, hl, _⟩ := header_roundtrip wide wide_wf
  refine ⟨b, he, by rw [junk_length, wide_recLen]; exact Nat.le_refl _, ?_⟩
  intro hd
  have ht := decode_types _ _ hd
  have hdrop : (slot0Write wide.recordLength b junk).drop (312 + maxElems * nameBytes) =
      junk.drop 32 ++ b.drop (headersize - 3976 + junk.length) := by
    unfold slot0Write
    rw [wide_recLen, drop_overwrite b junk (headersize - 3976) (312 + maxElems * nameBytes) (by decide)
      (by rw [junk_length]; decide) (by rw [hl, junk_length]; decide)]
    rfl
  rw [hdrop] at ht
  obtain ⟨t, hj⟩ := junk_drop
  rw [hj] at ht
  have hh := congrArg List.head? ht
  rw [wide_type0] at hh
  cases hn : leDecode (((slot0Write wide.recordLength b junk).drop 288).take 8) with
  | zero => rw [hn] at hh; simp at hh
  | succ n => rw [hn] at hh; simp at hh

set_option maxRecDepth 100000 in
/-- the CURRENT source runs all three tests of `TimeBucketInfo.Validate` inside `AddTimeBucket` before
    anything is created (regenerated skeletons; reverting a repair flips its flag, this `decide` fails
    and the executable model follows the code) -/
theorem C15_code_validates : codeFlags = ⟨true, true, true⟩ ∧ methodFlags = ⟨true, true, true⟩ := by decide

/-- what creation accepts is well-formed -/
theorem C15_accepted_wf (f : TBI) (hv : validSchema codeFlags f = true) (hb : Bounds f) : WF f := by
  rw [C15_code_validates.1] at hv
  exact validSchema_wf f hv hb

/-- the full statement, for the code as it is now: every schema that bucket creation (Create or the
    writer's auto-create) ACCEPTS is written and read back exactly, and — daily fixed-length buckets,
    the only ones with a slot 0 — stays so under any number of January-1 writes; what cannot be
    stored faithfully is refused (`validSchema` = false ⇒ `AddTimeBucket` returns the error first). -/
theorem C15_full (f : TBI) (hv : validSchema codeFlags f = true) (hb : Bounds f) :
    ∃ b, encode f = some b ∧ b.length = headersize ∧ decode b = some f ∧
      (f.recordType = 0 → f.timeframe = dayNs → ∀ ws : List Bytes, (∀ w ∈ ws, w.length ≤ f.recordLength) →
        decode (ws.foldl (slot0Write f.recordLength) b) = some f) := by
  have hwf := C15_accepted_wf f hv hb
  rw [C15_code_validates.1] at hv
  obtain ⟨b, he, hl, hd⟩ := header_roundtrip f hwf
  refine ⟨b, he, hl, hd, ?_⟩
  intro h0 hday ws hws
  exact C15_jan1_safe f hwf b he (validSchema_daily f hv h0 hday) ws hws

/-- and the three refusals are exactly the three ways a schema can fail to be stored -/
theorem C15_refused_iff (f : TBI) :
    validSchema ⟨true, true, true⟩ f = false ↔
      (f.types.length > maxElems ∨ (∃ s ∈ f.names, s.length > nameBytes ∨ trimNul s ≠ s) ∨
       (f.recordType = 0 ∧ f.timeframe = dayNs ∧
        ¬ (f.recordLength : Int) ≤ (headersize : Int) - typesOffset - f.types.length)) := by
  simp only [validSchema, Bool.not_true, Bool.false_or, Bool.and_eq_false_iff, decide_eq_false_iff_not,
    List.all_eq_false, Bool.and_eq_true, decide_eq_true_eq, beq_iff_eq, not_and, Bool.or_eq_false_iff,
    Bool.not_eq_false', gt_iff_lt, Nat.not_le, ne_eq]
  constructor
  · rintro ((h | ⟨s, hs, h⟩) | ⟨⟨h1, h2⟩, h3⟩)
    · exact Or.inl h
    · refine Or.inr (Or.inl ⟨s, hs, ?_⟩)
      by_cases hl : s.length ≤ nameBytes
      · exact Or.inr (h hl)
      · exact Or.inl (by omega)
    · exact Or.inr (Or.inr ⟨h1, h2, h3⟩)
  · rintro (h | ⟨s, hs, h⟩ | ⟨h1, h2, h3⟩)
    · exact Or.inl (Or.inl h)
    · refine Or.inl (Or.inr ⟨s, hs, ?_⟩)
      intro hl
      rcases h with h | h
      · omega
      · exact h
    · exact Or.inr ⟨⟨h1, h2⟩, h3⟩

/-! non-vacuity -/
def ohlc : TBI := ⟨2, [68, 101, 102], 2020, 60000000000, 0, 24, [[79, 112, 101, 110], [67, 108, 111, 115, 101]], [0, 0]⟩
example : WF ohlc := by constructor <;> decide
example : ohlc.recordLength + ohlc.types.length ≤ headersize - (312 + maxElems * nameBytes) := by decide
example : WF wide ∧ ¬ (wide.recordLength + wide.types.length ≤ headersize - (312 + maxElems * nameBytes)) :=
  ⟨wide_wf, by rw [wide_recLen]; decide⟩

end Mkts.Props.C15
