import Mkts.Lemmas.Catalog
/-!
# C17 — the catalog stays consistent with the disk

Sequential part.  `Consistent s`: the catalog tree is what a restart would load from the directory
tree (`load s.disk`), it holds the same `(bucket, year)` pairs as the disk, and the root's
`directMap` resolves no Directory object that is not in the tree.

* `C17_full` (every history of create / write / destroy / restart keeps `Consistent`) is FALSE of
  the code: `C17_cex_prefix_destroy` (Destroy with a one- or two-item key leaves the deeper
  Directory objects in the `directMap`: a destroyed bucket still answers GetInfo / accepts
  writes) and `C17_cex_failed_create` (a Create whose category names do not match the on-disk
  `category_name` has already made the symbol's directory: a restart lists a symbol the running
  server does not).
* `C17_partial` / `C17_seq`: for ALL histories whose keys have three items and in which no
  creation fails half-way, `Consistent` holds after every operation (induction over the history).

Concurrent part: see the second half of this file (two-thread step relation).
-/
namespace Mkts.Props.C17
open Mkts.Catalog

/-- the year files a tree holds for a bucket path -/
def HasYear (d : Dir) (p : Path) (y : Int) : Prop := ∃ r, find p d = some r ∧ ∃ f ∈ r.files, f.1 = y

structure Consistent (s : St) : Prop where
  /-- a fresh restart lists the same: every path resolves to the same Directory content -/
  restart_same : ∀ p, find p (restart s).tree = find p s.tree
  /-- the catalog's set of (bucket, year) equals the disk's -/
  years_same : ∀ p y, HasYear s.tree p y ↔ HasYear s.disk p y
  /-- the directMap view is the tree view -/
  dmap_same : ∀ p, dlookup s p = (find p s.tree).bind (fun r => if r.files.isEmpty then none else some r)

theorem consistent_of_inv {s : St} (I : Inv s) : Consistent s where
  restart_same := fun p => by simp only [restart]; rw [find_load_wf I.wf, I.same]
  years_same := fun p y => by simp only [HasYear, I.same]
  dmap_same := fun p => by
    simp only [dlookup, I.stale, find]
    cases find p s.tree <;> simp

/-- The full-strength statement: after EVERY sequential history the catalog is consistent. -/
def C17_full : Prop := ∀ (now : Int) (ops : List Op), Consistent (run now St.init ops)

/-- Histories covered: three-item keys, no creation failing half-way
    (results `err:catmismatch`, `panic:index`, or a write whose auto-creation failed). -/
theorem C17_partial (now : Int) (ops : List Op) (hk : ∀ op ∈ ops, op.key3)
    (hm : ∀ r ∈ results now St.init ops, ¬ r.midway) : Consistent (run now St.init ops) :=
  consistent_of_inv (run_inv now ops St.init Inv_init hk hm)

/-- …and after every prefix of such a history (consistency holds after EVERY operation). -/
theorem C17_seq (now : Int) (ops : List Op) (hk : ∀ op ∈ ops, op.key3)
    (hm : ∀ r ∈ results now St.init ops, ¬ r.midway) (n : Nat) :
    Consistent (run now St.init (ops.take n)) := by
  apply C17_partial
  · intro op ho; exact hk op (List.mem_of_mem_take ho)
  · intro r hr; apply hm r
    have : ∀ (st : St) (l : List Op) (n : Nat), ∀ r ∈ results now st (l.take n), r ∈ results now st l := by
      intro st l
      induction l generalizing st with
      | nil => intro n r hr; simpa using hr
      | cons o l ih =>
        intro n r hr
        cases n with
        | zero => simp [results] at hr
        | succ n =>
          simp only [List.take, results, List.mem_cons] at hr ⊢
          rcases hr with h | h
          · exact Or.inl h
          · exact Or.inr (ih _ n r h)
    exact this _ _ n r hr

/-- a restart of a consistent server lists the same buckets and years -/
theorem C17_restart_lists_same (now : Int) (ops : List Op) (hk : ∀ op ∈ ops, op.key3)
    (hm : ∀ r ∈ results now St.init ops, ¬ r.midway) (p : Path) (y : Int) :
    HasYear (restart (run now St.init ops)).tree p y ↔ HasYear (run now St.init ops).disk p y := by
  have C := C17_partial now ops hk hm
  simp only [HasYear, C.restart_same]
  exact C.years_same p y

def defaultCats' : List String := ["Symbol", "Timeframe", "AttributeGroup"]

/-- Destroy "A" (one item) after Create A/1Min/X: the bucket is gone from disk and from the
    listing, but the directMap still resolves it (GetInfo answers, writes are accepted). -/
def cexPrefix : List Op := [.create ["A", "1Min", "X"] defaultCats' 0, .destroy ["A"]]

theorem C17_cex_prefix_destroy :
    (run 2026 St.init cexPrefix).disk = [([], ⟨some "Symbol", []⟩)] ∧
    find ["A", "1Min", "X"] (run 2026 St.init cexPrefix).tree = none ∧
    dlookup (run 2026 St.init cexPrefix) ["A", "1Min", "X"] = some ⟨some "Year", [(2026, 0)]⟩ := by
  decide

/-- Create B/1D/Y with root category "Sym" on a root whose category is "Symbol": error, but the
    directory B exists; the running catalog does not list B, a restarted one does. -/
def cexCreate : List Op :=
  [.create ["A", "1Min", "X"] defaultCats' 0, .create ["B", "1D", "Y"] ["Sym", "Timeframe", "AttributeGroup"] 0]

theorem C17_cex_failed_create :
    results 2026 St.init cexCreate = [.ok, .catMismatch] ∧
    find ["B"] (run 2026 St.init cexCreate).tree = none ∧
    find ["B"] (restart (run 2026 St.init cexCreate)).tree = some ⟨none, []⟩ := by
  decide

theorem C17_not_full : ¬ C17_full := by
  intro h
  have := (h 2026 cexCreate).restart_same ["B"]
  rw [C17_cex_failed_create.2.2, C17_cex_failed_create.2.1] at this
  cases this

/-- the prefix-destroy history violates `dmap_same` -/
theorem C17_not_full' : ¬ (Consistent (run 2026 St.init cexPrefix)) := by
  intro h
  have := h.dmap_same ["A", "1Min", "X"]
  rw [C17_cex_prefix_destroy.2.2, C17_cex_prefix_destroy.2.1] at this
  cases this

/-! non-vacuity: a history satisfying the hypotheses of `C17_partial`, with a recreation under
another schema, a new-year write, an auto-creating write and a restart -/
def demo : List Op :=
  [.create ["A", "1Min", "X"] defaultCats' 0, .write ["A", "1Min", "X"] 0 [2026, 2020],
   .destroy ["A", "1Min", "X"], .create ["A", "1Min", "X"] defaultCats' 1,
   .write ["A", "1Min", "X"] 0 [2021], .write ["B", "1D", "Y"] 1 [2019, 2020], .restart]

example : (∀ op ∈ demo, op.key3) ∧ (∀ r ∈ results 2026 St.init demo, ¬ r.midway) := by
  constructor
  · decide
  · have : results 2026 St.init demo = [.ok, .ok, .ok, .ok, .colMismatch, .ok, .ok] := by decide
    rw [this]; intro r hr; simp at hr
    rcases hr with h | h | h <;> subst h <;> simp [Res.midway]

example : yearsOf (run 2026 St.init demo).tree
    = [(["A", "1Min", "X"], 2026), (["B", "1D", "Y"], 2019), (["B", "1D", "Y"], 2020)] := by decide

end Mkts.Props.C17
