import Mkts.Model.Store
import Mkts.Model.Timeframe
import Mkts.Model.Float
/-!
# On-disk aggregation trigger (mirrors `contrib/ondiskagg/aggtrigger/aggtrigger.go`: NewTrigger,
Fire, write, writeAggregates, aggregate (bars to bars), cachedAgg.Valid, `util.go` UpperBound,
`accum.go` + `functions/*.go` for float32 prices and an int32 volume; `utils/io/columnseries.go`:
SliceColumnSeriesByEpoch, ColumnSeriesUnion; `plugins/trigger/trigger.go`: RecordsToColumnSeries)

Base bucket `<sym>/1Min/OHLCV` with columns Open, High, Low, Close (float32) and Volume (int32),
configured zone UTC, no market-hours filter.  A column series is a list of bars; prices are IEEE
binary32 bit patterns compared with `Float.lt/gt`.

Three statements of `Fire` were repaired (C24-F1/F2/F3); the model carries a `Variant` saying, per
statement, whether the source has the repaired or the earlier form (`Model/OnDiskAggTie.lean` reads it
off the regenerated skeletons, so the model follows the code):
* `minMax`: `head`/`tail` are the times of the EARLIEST and LATEST written record (earlier: of the
  first and last record of the request);
* `validInside`: `cachedAgg.Valid(tail, head)` is "the written range lies inside the cached window"
  (earlier: "overlaps the cached window");
* `newWins`: on a cache hit the cached series is united with the written records by
  `ColumnSeriesUnion(cached, new)`, the RIGHT operand (the written rows) winning on equal epochs
  (earlier: `(new, cached)`, the cached row winning); nothing is read from disk on a hit.

Quirks kept:
* `SliceColumnSeriesByEpoch` leaves the series untouched on the side where no row satisfies the
  bound, and its upper bound is strict (`epoch < end`) although `end` is "last second of the window";
* `writeAggregates` returns before touching the cache when the slice is empty; the cache is stored by
  a deferred function, i.e. also when `aggregate` panics;
* `SumInt32` panics ("integer overflow") when `sum > MaxInt32 - val`, the subtraction wrapping for
  negative `val`; the panic is recovered in `TriggerPluginDispatcher.fire`, aborting the whole call.
-/
namespace Mkts.OnDiskAgg
open Mkts.Time Mkts.Timeframe Mkts.Bytes Mkts.Store

structure Bar where
  t : Int      -- epoch seconds
  o : Nat
  h : Nat
  l : Nat
  c : Nat
  v : Int
deriving DecidableEq, Repr

abbrev CS := List Bar

def f32 := Mkts.Float.b32

/-! ## accumulators (`functions/*.go`) -/

/-- `MaxFloat32` on a non-empty slice `x :: rest` -/
def maxF (x : Nat) (rest : List Nat) : Nat := rest.foldl (fun m v => if Mkts.Float.gt f32 v m then v else m) x
/-- `MinFloat32` -/
def minF (x : Nat) (rest : List Nat) : Nat := rest.foldl (fun m v => if Mkts.Float.lt f32 v m then v else m) x

def wrap32 (x : Int) : Int := (x + 2147483648) % 4294967296 - 2147483648

/-- `SumInt32`: `none` = panic("integer overflow") -/
def sumI32 : Int → List Int → Option Int
  | s, [] => some s
  | s, v :: rest => if s > wrap32 (2147483647 - v) then none else sumI32 (wrap32 (s + v)) rest

/-- `accumGroup.apply(start, end)` on the rows of one group: first / max / min / last / sum -/
def accum (key : Int) (first : Bar) (rest : List Bar) : Option Bar :=
  match sumI32 0 (first.v :: rest.map (·.v)) with
  | none => none
  | some v => some
    { t := key, o := first.o, h := maxF first.h (rest.map (·.h)), l := minF first.l (rest.map (·.l)),
      c := ((first :: rest).getLast (by simp)).c, v := v }

/-! ## `aggregate` (bars to bars) -/

/-- the loop of `aggregate`: `cur` is the current group (first row, later rows reversed),
    `gk` its `groupKey`; a row outside the group closes it -/
def aggLoop (cd : CandleDuration) (gk : Int) (first : Bar) (revRest : List Bar) : List Bar → List (Int × Bar × List Bar)
  | [] => [(gk, first, revRest.reverse)]
  | b :: bs =>
    if isWithin cd utc (b.t * nsPerSec) gk then aggLoop cd gk first (b :: revRest) bs
    else (gk, first, revRest.reverse) :: aggLoop cd (truncate cd utc (b.t * nsPerSec)) b [] bs

/-- the groups `aggregate` forms: `(groupKey ns, first row, other rows)` -/
def groups (cd : CandleDuration) : CS → List (Int × Bar × List Bar)
  | [] => []
  | b :: bs => aggLoop cd (truncate cd utc (b.t * nsPerSec)) b [] bs

/-- `aggregate(cs, aggTbk, baseTbk, symbol)`: `none` = panic in an accumulator.  (Go indexes `ts[0]`:
    the only caller passes a non-empty series.) -/
def aggregate (cd : CandleDuration) (cs : CS) : Option CS :=
  (groups cd cs).mapM (fun g => accum (g.1 / nsPerSec) g.2.1 g.2.2)

/-! ## column-series helpers -/

def findIdxGE (start : Int) : CS → Nat → Option Nat
  | [], _ => none
  | b :: bs, i => if b.t ≥ start then some i else findIdxGE start bs (i + 1)

/-- greatest index whose epoch is `< stop` -/
def lastIdxLT (stop : Int) : CS → Nat → Option Nat → Option Nat
  | [], _, acc => acc
  | b :: bs, i, acc => lastIdxLT stop bs (i + 1) (if b.t < stop then some i else acc)

/-- `SliceColumnSeriesByEpoch(cs, &start, &end)` -/
def sliceByEpoch (cs : CS) (start stop : Int) : CS :=
  let s1 := match findIdxGE start cs 0 with
    | some i => cs.drop i
    | none => cs
  match lastIdxLT stop s1 0 none with
  | some j => s1.take (j + 1)
  | none => s1

/-- sorted insertion keyed by epoch, an equal epoch is replaced -/
def putBar (b : Bar) : CS → CS
  | [] => [b]
  | x :: xs => if b.t < x.t then b :: x :: xs else if b.t = x.t then b :: xs else x :: putBar b xs

/-- `ColumnSeriesUnion(left, right)`: one row per epoch, ascending; right wins, and within one
    operand the later row wins -/
def union (left right : CS) : CS := (left ++ right).foldl (fun acc b => putBar b acc) []

/-- bar of a 20-byte payload (Open, High, Low, Close, Volume little-endian) -/
def barOfPayload (t : Int) (p : Bytes) : Bar :=
  { t := t, o := leDecode (p.take 4), h := leDecode ((p.drop 4).take 4), l := leDecode ((p.drop 8).take 4),
    c := leDecode ((p.drop 12).take 4), v := leDecodeInt ((p.drop 16).take 4) }

def payloadOfBar (b : Bar) : Bytes := le 4 b.o ++ le 4 b.h ++ le 4 b.l ++ le 4 b.c ++ leInt 4 b.v

def minuteNs : Int := 60 * nsPerSec

/-- a written record as the trigger receives it: slot index and payload -/
structure Rec where
  index : Int
  payload : Bytes
deriving Repr, DecidableEq

/-- `io.IndexToTime(index, tf.Duration, year).Unix()` -/
def idxTime (year : Int) (index : Int) : Int := indexToTime utc index minuteNs year / nsPerSec

def recTime (year : Int) (r : Rec) : Int := idxTime year r.index

/-- `RecordsToColumnSeries` -/
def recordsToCS (year : Int) (recs : List Rec) : CS := recs.map (fun r => barOfPayload (recTime year r) r.payload)

/-! ## configuration -/

structure Dest where
  str : Str
  duration : Int
deriving Repr, DecidableEq

/-- `NewTrigger`: `none` = "plugin load error" / invalid destination -/
def newTrigger (dests : List Str) : Option (List Dest) :=
  if dests.isEmpty then none
  else dests.mapM (fun s => (timeframeFromString s).map (fun d => ⟨s, d⟩))

/-- `timeframes.UpperBound()`: the first destination of maximal duration -/
def upperBound : List Dest → Option Dest
  | [] => none
  | d :: ds => some (ds.foldl (fun tf t => if t.duration > tf.duration then t else tf) d)

/-! ## `Fire` -/

structure Cached where
  cs : CS
  tail : Int
  head : Int
deriving Repr, DecidableEq

/-- which form of the three repaired statements the source has -/
structure Variant where
  /-- `ColumnSeriesUnion(&c.cs, cs)`: written rows win over cached rows -/
  newWins : Bool
  /-- `Valid`: `head >= c.tail && tail <= c.head` -/
  validInside : Bool
  /-- head / tail from the minimum / maximum record index -/
  minMax : Bool
deriving DecidableEq, Repr

/-- the source after the repairs -/
def Variant.fixed : Variant := ⟨true, true, true⟩
/-- the source before the repairs -/
def Variant.old : Variant := ⟨false, false, false⟩

/-- `c.Valid(tail, head)` -/
def Cached.valid (v : Variant) (c : Cached) (tail head : Int) : Bool :=
  if v.validInside then decide (head ≥ c.tail) && decide (tail ≤ c.head)
  else decide (tail ≥ c.tail) && decide (head ≤ c.head)

def truncSec (cd : CandleDuration) (t : Int) : Int := truncate cd utc (t * nsPerSec) / nsPerSec
def ceilSec (cd : CandleDuration) (t : Int) : Int := Timeframe.ceil cd utc (t * nsPerSec) / nsPerSec

/-- result of `s.write(...)`: the `WriteCSM` calls issued in order `(destination timeframe, rows)`
    and the cache entry afterwards -/
structure WriteRes where
  writes : List (Str × CS)
  cache : Option Cached
deriving Repr

/-- the loop of `write` over the destinations; `upDur` = duration of the upper bound.  A destination
    whose timeframe string is not a candle duration makes `writeAggregates` return an error: the loop
    stops.  A panic in `aggregate` unwinds out of `Fire` (the deferred cache store still runs). -/
def writeLoop (upDur : Int) (cs : CS) (head tail : Int) : List Dest → WriteRes → WriteRes
  | [], acc => acc
  | d :: ds, acc =>
    match candleDurationFromString d.str with
    | none => acc
    | some w =>
      let start := truncSec w head
      let stop := ceilSec w tail - 1
      let slc := sliceByEpoch cs start stop
      if slc.isEmpty then writeLoop upDur cs head tail ds acc
      else
        let t := truncSec w tail
        let cache' := if d.duration = upDur then some ⟨sliceByEpoch cs t stop, t, stop⟩ else acc.cache
        match aggregate w slc with
        | none => { acc with cache := cache' }
        | some out => writeLoop upDur cs head tail ds { writes := acc.writes ++ [(d.str, out)], cache := cache' }

/-- record index whose time is `head`: the smallest index (repaired) / the first record's -/
def headTime (v : Variant) (year : Int) (r0 : Rec) (rest : List Rec) : Int :=
  if v.minMax then idxTime year (rest.foldl (fun m r => if r.index < m then r.index else m) r0.index)
  else recTime year r0

/-- `tail`: the largest index (repaired) / the last record's -/
def tailTime (v : Variant) (year : Int) (r0 : Rec) (rest : List Rec) : Int :=
  if v.minMax then idxTime year (rest.foldl (fun m r => if r.index > m then r.index else m) r0.index)
  else recTime year ((r0 :: rest).getLast (by simp))

/-- the series a cache hit aggregates: `ColumnSeriesUnion(&c.cs, cs)` (repaired) / `(cs, &c.cs)` -/
def hitSeries (v : Variant) (c : Cached) (new : CS) : CS :=
  if v.newWins then union c.cs new else union new c.cs

/-- `Fire(keyPath, records)` for the file of `year`.  `q start end` is
    `ExecuteQuery(tbk, start, end, 0, false, nil)` on the base bucket (seconds, both inclusive);
    `none` = error / bucket missing. -/
def fire (v : Variant) (dests : List Dest) (q : Int → Int → Option CS) (cache : Option Cached) (year : Int)
    (recs : List Rec) : WriteRes :=
  match recs, upperBound dests with
  | [], _ => ⟨[], cache⟩            -- never dispatched (Go would panic on records[0])
  | _, none => ⟨[], cache⟩
  | r0 :: rest, some up =>
    let head := headTime v year r0 rest
    let tail := tailTime v year r0 rest
    match candleDurationFromString up.str with
    | none => ⟨[], cache⟩
    | some window =>
      let queryPath (cache : Option Cached) : WriteRes :=
        match q (truncSec window head) (ceilSec window tail - 1) with
        | none => ⟨[], cache⟩
        | some cs => writeLoop up.duration cs head tail dests ⟨[], cache⟩
      match cache with
      | some c =>
        if c.valid v tail head then
          writeLoop up.duration (hitSeries v c (recordsToCS year (r0 :: rest))) head tail dests ⟨[], cache⟩
        else queryPath none
      | none => queryPath none

/-! ## the property's demand -/

/-- the window (its start, ns) a bar belongs to -/
def winKey (cd : CandleDuration) (b : Bar) : Int := truncate cd utc (b.t * nsPerSec)

/-- the bars of each window that has bars, windows in order of first appearance:
    `(window, first bar, other bars)` -/
def specGroups (key : Bar → Int) (cs : CS) : List (Int × Bar × List Bar) :=
  (cs.map key).eraseDups.filterMap (fun w =>
    match cs.filter (fun b => key b == w) with
    | [] => none
    | b :: bs => some (w, b, bs))

/-- first open, highest high, lowest low, last close, total volume (exact integer sum).  `maxF` is
    the first bar attaining the greatest value (see `maxF_spec`), `minF` dually. -/
def specBar (g : Int × Bar × List Bar) : Bar :=
  { t := g.1 / nsPerSec, o := g.2.1.o, h := maxF g.2.1.h (g.2.2.map (·.h)), l := minF g.2.1.l (g.2.2.map (·.l)),
    c := ((g.2.1 :: g.2.2).getLast (by simp)).c, v := (g.2.1.v :: g.2.2.map (·.v)).foldl (· + ·) 0 }

/-- one bar per window having base bars -/
def specAgg (cd : CandleDuration) (cs : CS) : List Bar := (specGroups (winKey cd) cs).map specBar

/-! ## a whole instance: base bucket, destination buckets, cache (one symbol) -/

structure St where
  base : Slots
  dest : List (Str × Slots)
  cache : Option Cached
deriving Repr

def St.init : St := ⟨[], [], none⟩

def barsOfSlots (tf : Int) (s : Slots) (q : Query) : CS :=
  (query tf s q).map (fun r => barOfPayload r.sec r.payload)

def destGet (d : List (Str × Slots)) (k : Str) : Slots :=
  match d.find? (fun e => e.1 == k) with
  | some e => e.2
  | none => []

def destPut (d : List (Str × Slots)) (k : Str) (s : Slots) : List (Str × Slots) :=
  if d.any (fun e => e.1 == k) then d.map (fun e => if e.1 == k then (k, s) else e) else d ++ [(k, s)]

/-- `executor.WriteCSM` of the aggregated rows into the destination bucket of timeframe `dur` -/
def applyWrites (dests : List Dest) (d : List (Str × Slots)) : List (Str × CS) → List (Str × Slots)
  | [] => d
  | (k, rows) :: rest =>
    let dur := match dests.find? (fun e => e.str == k) with
      | some e => e.duration
      | none => minuteNs
    let cmds := writeRecords dur (rows.map (fun b => ⟨b.t, payloadOfBar b⟩))
    applyWrites dests (destPut d k (applyCmds (destGet d k) cmds)) rest

/-- years touched by a list of commands, in first-appearance order -/
def cmdYears (cs : List Store.Cmd) : List Int := (cs.map (·.year)).eraseDups

/-- one write request to the base bucket, flushed, and the trigger calls it causes (one per year
    file, here in ascending order of appearance; the real dispatcher starts them concurrently) -/
def stepWrite (v : Variant) (dests : List Dest) (st : St) (req : List Row) : St :=
  let cmds := writeRecords minuteNs req
  let base' := applyCmds st.base cmds
  let q : Int → Int → Option CS := fun s e =>
    some (barsOfSlots minuteNs base' { start := some (s * nsPerSec), stop := some (e * nsPerSec), limit := none })
  (cmdYears cmds).foldl (fun st y =>
    let recs := (cmds.filter (fun c => c.year = y)).map (fun c => (⟨c.index, c.payload⟩ : Rec))
    let r := fire v dests q st.cache y recs
    { st with dest := applyWrites dests st.dest r.writes, cache := r.cache }) { st with base := base' }

def runHist (v : Variant) (dests : List Dest) (hist : List (List Row)) : St := hist.foldl (stepWrite v dests) St.init

/-- rows currently stored in the base bucket, ascending -/
def baseBars (st : St) : CS := barsOfSlots minuteNs st.base { start := none, stop := none, limit := none }

def destBars (st : St) (d : Dest) : CS :=
  barsOfSlots d.duration (destGet st.dest d.str) { start := none, stop := none, limit := none }

/-! ## the inputs the property speaks about -/

def intradayB (cd : CandleDuration) : Bool :=
  cd.suffix == Suffix.Sec || cd.suffix == Suffix.Min || cd.suffix == Suffix.H

def isNaN32 (x : Nat) : Bool := Mkts.Float.isNaN f32 x

/-- prices are numbers, volumes are non-negative, every destination is an intraday candle duration
    and every window total fits the int32 volume column -/
def barsInDomain (dests : List Dest) (cs : CS) : Bool :=
  cs.all (fun b => !isNaN32 b.o && !isNaN32 b.h && !isNaN32 b.l && !isNaN32 b.c && decide (0 ≤ b.v)) &&
  dests.all (fun d => match candleDurationFromString d.str with
    | none => false
    | some cd => intradayB cd && (specAgg cd cs).all (fun b => decide (b.v ≤ 2147483647)))

/-- a history of write requests to the base bucket the property speaks about: 20-byte payloads, every
    request non-empty and inside one year file, every bar ever written in the domain -/
def histInDomain (dests : List Dest) (hist : List (List Row)) : Bool :=
  hist.all (fun req => !req.isEmpty &&
    req.all (fun r => r.payload.length == 20 &&
      localYear utc (nsOfSec r.sec) == localYear utc (nsOfSec (req.headD r).sec))) &&
  barsInDomain dests (hist.flatten.map (fun r => barOfPayload r.sec r.payload))

end Mkts.OnDiskAgg
