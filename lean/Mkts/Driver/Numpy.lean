import Mkts.Proto
import Mkts.Model.Numpy
import Mkts.Driver.Rows
/-! Driver ops for the wire dataset model (C27). -/
namespace Mkts.Driver.Numpy
open Mkts.Proto Mkts.Rows Mkts.Numpy Mkts.Bytes Mkts.Driver.Rows

/-- `keyhex@cs|keyhex@cs…`, `-` = no bucket -/
def parseBuckets (s : String) : Option (List (String × ColumnSeries)) :=
  if s == "-" then some []
  else (s.splitOn "|").mapM (fun b => match b.splitOn "@" with
    | [k, c] => do pure (← nameOfHex k, ← parseCS c)
    | _ => none)

def hexLe (a b : String) : Bool := decide (hexOfName a ≤ hexOfName b)

def showCSM (m : CSM) : String :=
  if m.isEmpty then "-" else
  "|".intercalate ((m.mergeSort (fun a b => hexLe a.1 b.1)).map (fun p => hexOfName p.1 ++ "@" ++ showCS p.2))

def showResCSM (r : Res CSM) : String :=
  match r with
  | .ok m => showCSM m
  | .error e => e

def showMap (m : List (String × Int)) : String :=
  if m.isEmpty then "-" else
  ",".intercalate ((m.mergeSort (fun a b => hexLe a.1 b.1)).map (fun p => hexOfName p.1 ++ ":" ++ toString p.2))

def showStrs (l : List String) : String :=
  if l.isEmpty then "-" else ",".intercalate (l.map hexOfName)

def showBlobs (l : List Bytes) : String :=
  if l.isEmpty then "-" else ",".intercalate (l.map (fun b => if b.isEmpty then "~" else bytesToHex b))

def showDecoded (n : NumpyMultiDataset) : String :=
  s!"a={showResCSM n.toColumnSeriesMap} b={showResCSM n.toColumnSeriesMapClient}"

/-- is the bucket list one the property speaks about: at least one bucket, distinct normal keys,
every series with at least one column, wire-supported types and columns of one length, the same
column names and types everywhere -/
def c27ValidBut (sameTypes : Bool) (bs : List (String × ColumnSeries)) : Bool :=
  !bs.isEmpty &&
  (bs.map (fun p => normKey p.1)).eraseDups.length == bs.length &&
  bs.all (fun p => normKey p.1 == p.1 && !p.2.cols.isEmpty &&
    p.2.cols.all (fun c => (typeStrOf c.typ).isSome && c.elems.length == p.2.len)) &&
  (match bs with
   | [] => true
   | b :: rest =>
     rest.all (fun p => p.2.cols.map (·.name) == b.2.cols.map (·.name)) &&
     (rest.all (fun p => p.2.cols.map (·.typ) == b.2.cols.map (·.typ)) == sameTypes))

def c27Valid (bs : List (String × ColumnSeries)) : Bool := c27ValidBut true bs

/-- otherwise valid buckets whose column types differ: a dataset has one type string per column,
so the only outcome compatible with the property (same types and values back) is a refusal -/
def c27TypeClash (bs : List (String × ColumnSeries)) : Bool := c27ValidBut false bs

/-- `nprt buckets`: compose like `executeQuery`, msgpack, decode with both decoders -/
def nprtOp : Op := fun args =>
  match args with
  | [bs] =>
    match parseBuckets bs with
    | none => badArgs
    | some buckets =>
      let mline := match compose buckets with
        | .error e => e
        | .ok none => "nil a=panic:nil b=panic:nil"
        | .ok (some n) =>
          s!"types={showStrs n.nds.columnTypes} names={showStrs n.nds.columnNames} len={n.nds.length} " ++
          s!"data={showBlobs n.nds.columnData} si={showMap n.startIndex} ln={showMap n.lengths} " ++ showDecoded n
      if c27Valid buckets then
        let e := showCSM (expectCSM buckets)
        s!"M:{mline}\tS:~ a={e} b={e}"
      else if c27TypeClash buckets then s!"M:{mline}\tS:err:append-types"
      else s!"M:{mline}"
  | _ => badArgs

def parseStrs (s : String) : Option (List String) :=
  if s == "-" then some [] else (s.splitOn ",").mapM nameOfHex

def parseBlobs (s : String) : Option (List Bytes) :=
  if s == "-" then some [] else (s.splitOn ",").mapM (fun b => if b == "~" then some [] else hexToBytes b)

def parseMap (s : String) : Option (List (String × Int)) :=
  if s == "-" then some [] else (s.splitOn ",").mapM (fun p => match p.splitOn ":" with
    | [k, v] => do pure (← nameOfHex k, ← parseInt v)
    | _ => none)

/-- `npdec types names data len startindex lengths`: a dataset as a client may send it -/
def npdecOp : Op := fun args =>
  match args with
  | [ts, ns, ds, ln, si, ls] =>
    match parseStrs ts, parseStrs ns, parseBlobs ds, parseInt ln, parseMap si, parseMap ls with
    | some ts, some ns, some ds, some ln, some si, some ls =>
      "M:" ++ showDecoded ⟨⟨ts, ns, ds, ln⟩, si, ls⟩
    | _, _, _, _, _, _ => badArgs
  | _ => badArgs

def ops : OpTable := [("nprt", nprtOp), ("npdec", npdecOp)]

end Mkts.Driver.Numpy
