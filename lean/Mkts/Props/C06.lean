import Mkts.Lemmas.WalReplay
import Mkts.Extracted.Facts
import Mkts.Extracted.Skeletons
/-!
# C06 — WAL replay tolerates arbitrary damage to the log

Model: `Mkts.WalReplay.scan` (first pass of `Replay`), `secondPass`, `replay`, `cleanup`
(`CleanupOldWALFiles` for one file).  The checksum function `md5` is an arbitrary parameter in every
theorem.

After the repairs of C06-F6 (group length below 8 bytes), C06-F6b (unreadable records filed under
id 0) and C06-F6c (`wal.ReadStatus` at end of file) the first pass is proved, for ALL byte strings, to
terminate, to end without a panic, to keep only checksum-valid records, and to read over every kind
of damage it can meet (unreadable records, insane lengths, unknown bytes, any cut point, zero or
garbage tails) keeping exactly the intact groups.  The statements of the source these theorems rest
on are pinned over the regenerated skeletons (`skel_*`).

Still false of the code (second pass and by-design checks): a checksum-valid group whose inner
lengths overrun panics in `ParseTGData` (C06-F6d), a duplicated record or a forged checkpoint record
makes replay drop intact groups (C06-F6e, F6f): `C06_full`, `C06_full_append` with counterexamples,
`C06_partial` with the excluded class as hypothesis.
-/
namespace Mkts.Props.C06
open Mkts.Bytes Mkts.WalCodec Mkts.WalReplay

/-! ## the statements of the source the model depends on (regenerated on every run) -/

/-- `readTGData`: the length is tested against `tgIDBytes` (short read) before the sanity check and
before any allocation or slicing -/
theorem skel_readTGData :
    Mkts.Extracted.Skel.executor_WALFileType_readTGData =
      ["call:wal.Read", "if:err != nil{", "call:io.GetCallerFileContext", "return", "}", "call:io.ToInt64",
       "if:tgLen < tgIDBytes{", "call:io.GetCallerFileContext", "call:fmt.Sprintf", "return", "}",
       "call:sanityCheckValue", "if:!sanityCheckValue(wf.FilePtr, tgLen){", "call:io.GetCallerFileContext",
       "call:fmt.Sprintf", "call:errors.New", "return", "}",
       "call:wf.FilePtr.Read", "if:int64(n) != tgLen || err != nil{", "call:io.GetCallerFileContext", "return", "}",
       "call:io.ToInt64",
       "call:wf.FilePtr.Read", "if:n != checkSumBytes || err != nil{", "call:io.GetCallerFileContext", "return", "}",
       "call:validateCheckSum", "if:err != nil{", "return", "}", "return"] := by decide

set_option maxRecDepth 100000 in
/-- `Replay`, TGDATA case: after `readTGData` the loop is left on a short read, an unreadable record
is skipped (`continue`), and only then `tgData[tgID]` is assigned and the duplicate test made -/
theorem skel_Replay_skips_unreadable :
    hasSub Mkts.Extracted.Skel.executor_WALFileType_Replay
      ["call:wf.readTGData", "call:fullRead", "if:!continueRead{", "break", "}",
       "if:err != nil{", "continue", "}", "setidx:tgData", "if:ok{"] = true := by decide

/-- `wal.ReadStatus` returns the read error before it indexes the buffer -/
theorem skel_ReadStatus :
    Mkts.Extracted.Skel.executor_wal_ReadStatus =
      ["call:Read", "if:err != nil{", "return", "}", "call:io.ToInt64", "return"] := by decide

/-- the constants of the scanner are those of the source tree -/
theorem C06_constants_extracted :
    (midTGDATA.toNat : Int) = Mkts.Extracted.executor_TGDATA ∧
    (midTXNINFO.toNat : Int) = Mkts.Extracted.executor_TXNINFO ∧
    (midSTATUS.toNat : Int) = Mkts.Extracted.executor_STATUS ∧
    (destCHECKPOINT.toNat : Int) = Mkts.Extracted.executor_CHECKPOINT ∧
    (statusCOMMITCOMPLETE.toNat : Int) = Mkts.Extracted.executor_COMMITCOMPLETE ∧
    (tgLenBytes : Int) = Mkts.Extracted.executor_tgLenBytes ∧
    (tgIDBytes : Int) = Mkts.Extracted.executor_tgIDBytes ∧
    (checkSumBytes : Int) = Mkts.Extracted.executor_checkSumBytes ∧
    safetyFactor = Mkts.Extracted.executor_safetyFactor ∧
    (walStatusLenBytes : Int) = Mkts.Extracted.executor_walStatusLenBytes := by decide

/-! ## totality: the first pass neither hangs nor panics -/

/-- every iteration that continues consumes at least one byte of the file … -/
theorem C06_progress (md5 : Bytes → Bytes) (fsz : Nat) (r r' : Bytes) (st st' : St)
    (h : step md5 fsz r st = .cont r' st') : r'.length < r.length := step_cont_lt md5 h

/-- … hence `length + 1` iterations always suffice: the first pass terminates on every input -/
theorem C06_terminates (md5 : Bytes → Bytes) (f : Bytes) : scan md5 f ≠ .fuel :=
  scanLoop_fuel md5 f.length (f.length + 1) f {} (by omega)

/-- **whatever bytes the file contains**, the first pass ends in one of two ways: normally with a
table of groups, or with the deliberate "Duplicate TG Data" error.  There is no panic outcome. -/
theorem C06_first_pass_total (md5 : Bytes → Bytes) (f : Bytes) :
    (∃ st, scan md5 f = .done st) ∨ (∃ id, scan md5 f = .dup id) := by
  cases h : scan md5 f with
  | done st => exact Or.inl ⟨st, rfl⟩
  | dup id => exact Or.inr ⟨id, rfl⟩
  | fuel => exact absurd h (C06_terminates md5 f)

/-! ## safety: only checksum-valid records are applied -/

/-- whatever the file contains, every group the first pass keeps is a complete record of the file
whose stored checksum equals `md5 (length ++ data)` -/
theorem C06_safety_scan (md5 : Bytes → Bytes) (f : Bytes) (st : St) (h : scan md5 f = .done st) :
    ∀ id tg, (id, some tg) ∈ st.tgData → ValidRecordIn md5 f tg :=
  scanLoop_safe md5 f f.length _ f {} st ⟨[], rfl⟩ (by intro id tg h; simp at h) h

/-- every byte that replay writes to a primary file comes from parsing such a record -/
theorem C06_safety (md5 : Bytes → Bytes) (ex : Bytes → Bool) (root f : Bytes) :
    ∀ w ∈ (replay md5 ex root f).writes, ∃ tg id sets, ValidRecordIn md5 f tg ∧
      parseTGData tg = .ok (id, sets) ∧ w ∈ setsWrites ex root sets := by
  intro w hw
  unfold replay at hw
  split at hw
  · simp at hw
  · simp at hw
  · rename_i st hs
    rcases secondPass_writes ex root _ _ w hw with h | ⟨a, ha, id, sets, hp, hmem⟩
    · simp at h
    · exact ⟨a.2, id, sets, C06_safety_scan md5 f st hs a.1 a.2 (mem_pending ha), hp, hmem⟩

/-- the same for the whole startup path of one file (`patchStatus f` = the file after its status header was rewritten) -/
theorem C06_safety_cleanup (md5 : Bytes → Bytes) (ex : Bytes → Bool) (root f : Bytes) :
    ∀ w ∈ (cleanup md5 ex root f).writes, ∃ tg id sets, ValidRecordIn md5 (patchStatus f) tg ∧
      parseTGData tg = .ok (id, sets) ∧ w ∈ setsWrites ex root sets := by
  intro w hw
  unfold cleanup at hw
  split at hw; · simp at hw
  split at hw; · simp at hw
  simp only at hw
  split at hw; · simp at hw
  exact C06_safety md5 ex root _ w hw

/-! ## damage tolerance of the first pass -/

/-- a valid status header: STATUS, OPEN, NOTREPLAYED, owner 0x0101010101010101 -/
def hdr : Bytes := [2, 1, 1, 1, 1, 1, 1, 1, 1, 1, 1]

/-- the first iteration reads the 11-byte status message -/
theorem scan_header (md5 : Bytes → Bytes) (h10 body : Bytes) (hh : h10.length = 10) :
    scan md5 (midSTATUS :: (h10 ++ body)) =
      scanLoop md5 (body.length + 11) (body.length + 11) body {} := by
  have hlen : (midSTATUS :: (h10 ++ body)).length = body.length + 11 := by
    simp only [List.length_cons, List.length_append, hh]; omega
  unfold scan
  rw [hlen]
  generalize body.length + 11 = k
  have hs : step md5 k (midSTATUS :: (h10 ++ body)) {} = .cont body {} := by
    have c0 : midSTATUS ≠ midTGDATA := by decide
    have c1 : midSTATUS ≠ midTXNINFO := by decide
    have c3 : ¬ (h10 ++ body).length < walStatusLenBytes := by simp [walStatusLenBytes, hh]
    simp only [step, c0, c1, c3, if_false, if_true]
    rw [show walStatusLenBytes = h10.length by rw [hh]; rfl, List.drop_left]
  simp only [scanLoop, hs]

/-- **Truncation.**  Let a WAL file consist of the 11-byte status message followed by any sequence of
messages the scanner reads over — intact group records (pairwise distinct ids), TXNINFO records,
unreadable group records (wrong checksum), group headers with an insane length, bytes that are no
message id.  Cut it at ANY length `n ≥ 11`: the first pass ends normally and its state is exactly
what the messages lying completely inside the first `n` bytes produce, i.e. the intact groups among
them, minus those a complete checkpoint record covers.  (`AllOk … n`: every intact or unreadable
group is shorter than `safetyFactor × n`, the sanity bound of the code.) -/
theorem C06_truncation (md5 : Bytes → Bytes) (h10 : Bytes) (hh : h10.length = 10) (ms : List Msg) (n : Nat)
    (hn : 11 ≤ n) (hn2 : n ≤ (midSTATUS :: (h10 ++ encAll md5 ms)).length) (hok : AllOk md5 n {} ms) :
    scan md5 ((midSTATUS :: (h10 ++ encAll md5 ms)).take n) = .done ((complete md5 ms (n - 11)).foldl upd {}) := by
  obtain ⟨m, rfl⟩ : ∃ m, n = m + 11 := ⟨n - 11, by omega⟩
  have e : (midSTATUS :: (h10 ++ encAll md5 ms)).take (m + 11) = midSTATUS :: (h10 ++ (encAll md5 ms).take m) := by
    rw [List.take_succ_cons, List.take_append, List.take_of_length_le (by omega), hh]
    simp
  have hl : ((encAll md5 ms).take m).length = m := by
    simp only [List.length_cons, List.length_append, hh] at hn2
    rw [List.length_take]; omega
  rw [e, scan_header md5 h10 _ hh, hl]
  simp only [Nat.add_sub_cancel]
  exact scan_truncated md5 (m + 11) ms m {} (m + 11) hok (by omega)

/-- **Damaged tail.**  The same kind of file followed by a tail at which the scanner stops — a group
header whose length field is below 8 (zero-filled or negative, the C06-F6 class) with anything
behind it, or a STATUS id with fewer than 10 bytes behind it (the C06-F6c class): the state is that of
the messages before the tail, nothing is lost and nothing is added. -/
theorem C06_damaged_tail (md5 : Bytes → Bytes) (h10 : Bytes) (hh : h10.length = 10) (ms : List Msg) (t : Bytes)
    (ht : Stops md5 ((encAll md5 ms ++ t).length + 11) t)
    (hok : AllOk md5 ((encAll md5 ms ++ t).length + 11) {} ms) :
    scan md5 (midSTATUS :: (h10 ++ (encAll md5 ms ++ t))) = .done (ms.foldl upd {}) := by
  rw [scan_header md5 h10 _ hh]
  refine scan_then_stop md5 _ t ht ms {} _ hok ?_
  have := length_le_encAll md5 ms
  simp only [List.length_append]; omega

/-- a zero-filled (or otherwise too small / negative) group length stops the scan, whatever follows -/
theorem C06_stops_small_length (md5 : Bytes → Bytes) (fsz : Nat) (lenb rest : Bytes) (hl : lenb.length = 8)
    (h : leDecodeInt lenb < 8) : Stops md5 fsz (midTGDATA :: (lenb ++ rest)) :=
  stops_small_length md5 fsz lenb rest hl h

/-- a STATUS id at (or fewer than 10 bytes before) the end of the file stops the scan -/
theorem C06_stops_status_tail (md5 : Bytes → Bytes) (fsz : Nat) (t : Bytes) (h : t.length < 10) :
    Stops md5 fsz (midSTATUS :: t) := stops_status_tail md5 fsz t h

/-! ## what is still false of the code: the second pass, and two checks made on purpose -/

/-- full statement (first half): startup replay never panics, whatever the file contains -/
def C06_full : Prop :=
  ∀ (md5 : Bytes → Bytes) (ex : Bytes → Bool) (root f : Bytes) (p : Panic),
    (cleanup md5 ex root f).outcome ≠ .panic p

/-- full statement (second half, append form): what a WAL file applies is still applied when
arbitrary bytes follow it -/
def C06_full_append : Prop :=
  ∀ (md5 : Bytes → Bytes) (ex : Bytes → Bool) (root f g : Bytes),
    (cleanup md5 ex root f).outcome = .ok →
    ∀ w ∈ (cleanup md5 ex root f).writes, w ∈ (cleanup md5 ex root (f ++ g)).writes

/-- **C06 (partial)**: startup replay of one file does not panic, provided every checksum-valid group
that survives the first pass parses and carries write buffers of at least 8 bytes (the first pass
itself cannot panic: `C06_first_pass_total`) -/
theorem C06_partial (md5 : Bytes → Bytes) (ex : Bytes → Bool) (root f : Bytes)
    (hparse : ∀ st, scan md5 (patchStatus f) = .done st → ∀ a ∈ pending st.tgData,
      ∃ id sets, parseTGData a.2 = .ok (id, sets) ∧ ∀ s ∈ sets, 8 ≤ s.buffer.length) :
    ∀ p, (cleanup md5 ex root f).outcome ≠ .panic p := by
  intro p
  unfold cleanup
  split; · simp
  split; · simp
  simp only
  split; · simp
  unfold replay
  split
  · simp
  · simp
  · rename_i st hs
    exact secondPass_no_panic ex root _ _ (by simp) (hparse st hs) p

/-! ### concrete inputs, with a toy checksum function (sixteen copies of the byte sum); the same
byte patterns with real MD5 are replayed on the implementation by `corpus/C06/*.ops`. -/

def toyCk (b : Bytes) : Bytes := List.replicate 16 (b.foldl (· + ·) 0)
def rootR : Bytes := [47, 114]                                   -- "/r"
def exF (p : Bytes) : Bool := p == [47, 114, 47, 102]            -- only "/r/f" can be opened
def cmdF (idx : Int) : WriteCommand :=
  { recordType := 0, path := [102], varRecLen := 0, offset := 37024 + 12 * (idx - 1), index := idx,
    data := [7, 7, 7, 7], shapes := [⟨[69], 4⟩] }
/-- a complete TGDATA record whose stored checksum is wrong -/
def encBad (ck : Bytes → Bytes) (body : Bytes) : Bytes :=
  midTGDATA :: (leInt 8 body.length ++ body ++ (ck (leInt 8 body.length ++ body)).map (· + 1))
def good : Bytes := encTG toyCk (serializeTG 5 [cmdF 1])
def bad6 : Bytes := encBad toyCk (serializeTG 6 [cmdF 2])
def bad7 : Bytes := encBad toyCk (serializeTG 7 [cmdF 3])
def w5 : Write := { path := [47, 114, 47, 102], off := 37024, data := leInt 8 1 ++ [7, 7, 7, 7] }

set_option maxRecDepth 100000 in
/-- non-vacuity: an intact WAL is replayed (one group, one write) -/
theorem C06_example_intact :
    (cleanup toyCk exF rootR (hdr ++ good)).outcome = .ok ∧
    (cleanup toyCk exF rootR (hdr ++ good)).writes = [w5] := by decide

set_option maxRecDepth 100000 in
/-- two unreadable records after it (was C06-F6b): the intact group is applied -/
theorem C06_example_two_bad_records :
    (cleanup toyCk exF rootR (hdr ++ good ++ bad6 ++ bad7)).outcome = .ok ∧
    (cleanup toyCk exF rootR (hdr ++ good ++ bad6 ++ bad7)).writes = [w5] := by decide

set_option maxRecDepth 100000 in
/-- a zero-filled tail, a negative length, a length of 3 (was C06-F6): the intact group is applied -/
theorem C06_example_small_lengths :
    (cleanup toyCk exF rootR (hdr ++ good ++ List.replicate 20 0)).writes = [w5] ∧
    (cleanup toyCk exF rootR (hdr ++ good ++ [0] ++ List.replicate 8 255)).writes = [w5] ∧
    (cleanup toyCk exF rootR (hdr ++ good ++ [0] ++ le 8 3 ++ [9, 9, 9])).writes = [w5] ∧
    (cleanup toyCk exF rootR (hdr ++ good ++ [0] ++ le 8 3 ++ [9, 9, 9])).outcome = .ok := by decide

set_option maxRecDepth 100000 in
/-- a STATUS id as the last byte (was C06-F6c): the intact group is applied -/
theorem C06_example_status_eof :
    (cleanup toyCk exF rootR (hdr ++ good ++ [2])).outcome = .ok ∧
    (cleanup toyCk exF rootR (hdr ++ good ++ [2])).writes = [w5] := by decide

set_option maxRecDepth 100000 in
/-- non-vacuity of `C06_truncation` / `C06_damaged_tail`: a concrete message sequence with every kind of
message satisfies `AllOk` for a 40-byte file size -/
example : AllOk toyCk 40 {} [.tg (serializeTG 5 [cmdF 1]), .info (leInt 8 5 ++ [0, 2]),
    .bad (serializeTG 6 [cmdF 2]) (List.replicate 16 1), .unknown 9, .insane (le 8 40000), .tg (serializeTG 6 [cmdF 2])] := by
  refine ⟨⟨by decide, by decide, by decide, by decide, by decide⟩,
    ⟨by show List.length _ = 10; decide,
     ⟨by decide, by decide, by decide, by decide, by decide⟩,
     ⟨by decide, by decide, by decide⟩,
     ⟨by decide, by decide, by decide⟩,
     ⟨by decide, by decide, by decide, by decide, by decide⟩, trivial⟩⟩

set_option maxRecDepth 100000 in
/-- C06-F6e: the same intact record twice: "Duplicate TG Data", nothing is applied -/
theorem C06_cex_duplicate_record :
    (cleanup toyCk exF rootR (hdr ++ good ++ good)).outcome = .moved ∧
    (cleanup toyCk exF rootR (hdr ++ good ++ good)).writes = [] := by decide

set_option maxRecDepth 100000 in
/-- C06-F6d: a checksum-valid record whose body is one byte short of what its inner lengths announce -/
theorem C06_cex_parse_panic :
    (cleanup toyCk exF rootR (hdr ++ encTG toyCk (serializeTG 5 [cmdF 1]).dropLast)).outcome = .panic .index := by
  decide

set_option maxRecDepth 100000 in
/-- C06-F6f: TXNINFO records are not checksummed. With the commit record of group 5 (`dest = WAL`) the group
is applied; with ONE bit of that later record flipped (`dest = CHECKPOINT`) it is silently discarded -/
theorem C06_cex_forged_checkpoint :
    (cleanup toyCk exF rootR (hdr ++ good ++ (midTXNINFO :: (leInt 8 5 ++ [0, 2])))).writes = [w5] ∧
    (cleanup toyCk exF rootR (hdr ++ good ++ (midTXNINFO :: (leInt 8 5 ++ [1, 2])))).outcome = .ok ∧
    (cleanup toyCk exF rootR (hdr ++ good ++ (midTXNINFO :: (leInt 8 5 ++ [1, 2])))).writes = [] := by decide

theorem C06_not_full : ¬ C06_full := by
  intro h
  exact h toyCk exF rootR _ .index C06_cex_parse_panic

theorem C06_not_full_append : ¬ C06_full_append := by
  intro h
  have h1 := h toyCk exF rootR (hdr ++ good) good C06_example_intact.1 w5
    (by rw [C06_example_intact.2]; simp)
  rw [C06_cex_duplicate_record.2] at h1
  simp at h1

end Mkts.Props.C06
