package main

// C33: CSV import.
//
//	csvload <ts|lay> <empty|invalid|zonetoken> <var 0|1> <chunk> <schema n:ty,...|-> <header hex,...> <records rec|rec...|~>
//
// The op writes the CSV text (header line + one line per record, fields joined by ',') and a loader
// control file to a temp dir, then runs the REAL loader: loader.ReadMetadata (real encoding/csv
// reader on the file) and the loop of session.(*Client).load around loader.CSVtoNumpyMulti with the
// given chunk size (the loop itself is unexported and hard-wires chunkSize = 1000000 and a running
// server; its 12 lines are transcribed below with the writer replaced by a collector).
// Result: `<status> <chunk|chunk...> N=<rows handed to the writer> R=<1 iff an error was returned>`.

import (
	"fmt"
	"os"
	"path/filepath"
	"sort"
	"strconv"
	"strings"
	"time"

	"github.com/alpacahq/marketstore/v4/cmd/connect/loader"
	mio "github.com/alpacahq/marketstore/v4/utils/io"
	mlog "github.com/alpacahq/marketstore/v4/utils/log"
)

var csvTypes = map[string]mio.EnumElementType{
	"f32": mio.FLOAT32, "f64": mio.FLOAT64, "i8": mio.BYTE, "i16": mio.INT16, "i32": mio.INT32, "i64": mio.INT64,
	"u8": mio.UINT8, "u16": mio.UINT16, "u32": mio.UINT32, "u64": mio.UINT64, "bool": mio.BOOL,
}

func showColumnValue(col interface{}, i int) string {
	switch c := col.(type) {
	case []float32:
		return f32bits(c[i])
	case []float64:
		return f64bits(c[i])
	case []int8:
		return strconv.Itoa(int(c[i]))
	case []int16:
		return strconv.Itoa(int(c[i]))
	case []int32:
		return strconv.Itoa(int(c[i]))
	case []int64:
		return strconv.FormatInt(c[i], 10)
	case []uint8:
		return strconv.Itoa(int(c[i]))
	case []uint16:
		return strconv.Itoa(int(c[i]))
	case []uint32:
		return strconv.FormatUint(uint64(c[i]), 10)
	case []uint64:
		return strconv.FormatUint(c[i], 10)
	case []bool:
		if c[i] {
			return "1"
		}
		return "0"
	case nil:
		return "nil"
	}
	return fmt.Sprintf("?%T", col)
}

func showNumpyChunk(npm *mio.NumpyMultiDataset, tbk mio.TimeBucketKey, names []string, isVar bool) string {
	csm, err := npm.ToColumnSeriesMap()
	if err != nil {
		return "bad-npm"
	}
	cs := csm[tbk]
	if cs == nil {
		return "no-cs"
	}
	ep, _ := cs.GetColumn("Epoch").([]int64)
	rows := make([]string, len(ep))
	for i := range ep {
		parts := []string{strconv.FormatInt(ep[i], 10)}
		ns := cs.GetColumn("Nanoseconds")
		switch {
		case isVar && ns != nil:
			parts = append(parts, showColumnValue(ns, i))
		case !isVar && ns == nil:
			parts = append(parts, "x")
		default:
			parts = append(parts, "bad-nanos")
		}
		for _, n := range names {
			parts = append(parts, showColumnValue(cs.GetColumn(n), i))
		}
		rows[i] = strings.Join(parts, ":")
	}
	return strings.Join(rows, ",")
}

func csvload(a []string) (res string) {
	format, tz, isVar, chunk := a[0], a[1], a[2] == "1", int(atoi(a[3]))
	shapes := []mio.DataShape{{Name: "Epoch", Type: mio.INT64}}
	var names []string
	if a[4] != "-" {
		for _, p := range strings.Split(a[4], ",") {
			nt := strings.SplitN(p, ":", 2)
			ty, ok := csvTypes[nt[1]]
			if !ok {
				panic("bad-arg type " + nt[1])
			}
			shapes = append(shapes, mio.DataShape{Name: nt[0], Type: ty})
			names = append(names, nt[0])
		}
	}
	line := func(rec string) string {
		fs := strings.Split(rec, ",")
		for i, f := range fs {
			b, err := unhx(f)
			if err != nil {
				panic("bad-arg hex " + f)
			}
			fs[i] = string(b)
		}
		return strings.Join(fs, ",")
	}
	var text strings.Builder
	text.WriteString(line(a[5]) + "\n")
	if a[6] != "~" {
		for _, r := range strings.Split(a[6], "|") {
			text.WriteString(line(r) + "\n")
		}
	}
	var ctl strings.Builder
	ctl.WriteString("firstRowHasColumnNames: true\n")
	if format == "ts" {
		ctl.WriteString("timeFormat: timestamp\n")
	} else {
		ctl.WriteString("timeFormat: \"20060102 15:04:05\"\n")
	}
	switch tz {
	case "empty":
	case "invalid":
		ctl.WriteString("timeZone: Not/AZone\n")
	default:
		ctl.WriteString("timeZone: " + strings.SplitN(tz, "|", 2)[0] + "\n")
	}

	dir, err := os.MkdirTemp("", "verifcsv")
	must(err)
	defer os.RemoveAll(dir)
	must(os.WriteFile(filepath.Join(dir, "data.csv"), []byte(text.String()), 0o600))
	must(os.WriteFile(filepath.Join(dir, "ctl.yaml"), []byte(ctl.String()), 0o600))
	dataFD, err := os.Open(filepath.Join(dir, "data.csv"))
	must(err)
	defer dataFD.Close()
	ctlFD, err := os.Open(filepath.Join(dir, "ctl.yaml"))
	must(err)

	tbk := *mio.NewTimeBucketKey("TEST/1Min/OHLCV")
	var chunks []string
	nrows := 0
	finish := func(status string) string {
		c := "-"
		if len(chunks) > 0 {
			c = strings.Join(chunks, "|")
		}
		rep := "0"
		if strings.HasPrefix(status, "err:") {
			rep = "1"
		}
		return fmt.Sprintf("%s %s N=%d R=%s", status, c, nrows, rep)
	}
	defer func() {
		if r := recover(); r != nil {
			cls := panicClass(r)
			if strings.HasPrefix(cls, "harness:") {
				res = cls
				return
			}
			lastPanic = fmt.Sprint(r)
			res = finish(cls)
		}
	}()

	csvReader, cvm, err := loader.ReadMetadata(dataFD, ctlFD, shapes)
	if err != nil {
		if strings.Contains(err.Error(), "unable to match all csv file columns") {
			return finish("err:nomatch")
		}
		return finish("err:metadata")
	}
	// ---- transcription of the loop in cmd/connect/session/load.go (chunkSize parameterised) ----
	for {
		npm, endReached, err := loader.CSVtoNumpyMulti(csvReader, tbk, cvm, chunk, isVar)
		if err != nil {
			switch {
			case strings.Contains(err.Error(), "failed to get columnSeriesMap from CSV Data"):
				return finish("err:column")
			case strings.Contains(err.Error(), "unsupported type"):
				return finish("err:unsupported")
			case strings.Contains(err.Error(), "read csv record"):
				return finish("err:reader")
			case strings.Contains(err.Error(), "time columns"):
				return finish("err:time")
			}
			return finish("err:other")
		}
		if npm != nil {
			// writeNumpy(c, npm, isVariable) replaced by a collector
			chunks = append(chunks, showNumpyChunk(npm, tbk, names, isVar))
			nrows += npm.Len()
		}
		if endReached {
			break
		}
	}
	return finish("ok")
}

func init() {
	mlog.SetLevel(mlog.FATAL)
	ops["csvload"] = csvload
	gens["C33"] = genC33
}

// ---------------------------------------------------------------- generator

func hxs(s string) string { return hx([]byte(s)) }

var csvIntBounds = map[string][2]string{
	"i8": {"-128", "127"}, "i16": {"-32768", "32767"}, "i32": {"-2147483648", "2147483647"},
	"i64": {"-9223372036854775808", "9223372036854775807"},
	"u8":  {"0", "255"}, "u16": {"0", "65535"}, "u32": {"0", "4294967295"}, "u64": {"0", "18446744073709551615"},
}
var csvIntOver = map[string][2]string{
	"i8": {"-129", "128"}, "i16": {"-32769", "32768"}, "i32": {"-2147483649", "2147483648"},
	"i64": {"-9223372036854775809", "9223372036854775808"},
	"u8":  {"-1", "256"}, "u16": {"-0", "65536"}, "u32": {"+1", "4294967296"}, "u64": {"-5", "18446744073709551616"},
}

func goodValue(g *Gen, ty string) string {
	switch ty {
	case "bool":
		return []string{"1", "t", "T", "TRUE", "true", "True", "0", "f", "F", "FALSE", "false", "False"}[g.Intn(12)]
	case "f32", "f64":
		switch g.Intn(8) {
		case 0:
			pool := []string{"0", "-0", "+0.0", ".5", "5.", "1e5", "1E-2", "+3", "-2.5e+3", "inf", "-Inf", "+INFINITY", "nan", "NaN",
				"1e-46", "1.4e-45", "7e-46", "3.4028235e38", "3.4028236e38", "1.17549435e-38", "16777217", "16777219",
				"0.1", "1_000", "1_0.2_5e1_0", "0.30000000000000004", "123456789012345678901234567890", "4.9e-324", "2.4e-324", "1.7976931348623157e308",
				"1e-400", "000001.5000", "1.00000005960464477539062500001", "1.000000059604644775390625", "9007199254740993"}
			return pool[g.Intn(len(pool))]
		case 1:
			return strconv.FormatFloat(g.R.NormFloat64()*1e3, 'g', -1, 64)
		case 2:
			return strconv.FormatFloat(g.R.ExpFloat64()*1e-30, 'e', 5+g.Intn(10), 64)
		default:
			return fmt.Sprintf("%d.%02d", g.Intn(5000), g.Intn(100))
		}
	}
	b := csvIntBounds[ty]
	switch g.Intn(6) {
	case 0:
		return b[0]
	case 1:
		return b[1]
	case 2:
		if ty[0] == 'i' {
			return []string{"+7", "-0", "007", "-1"}[g.Intn(4)]
		}
		return []string{"7", "0", "007", "1"}[g.Intn(4)]
	}
	lim := int64(100)
	if ty == "i8" || ty == "u8" {
		lim = 100
	} else {
		lim = 30000
	}
	v := int64(g.Intn(int(lim)))
	if ty[0] == 'i' && g.Intn(3) == 0 {
		v = -v
	}
	return strconv.FormatInt(v, 10)
}

func badValue(g *Gen, ty string) string {
	switch ty {
	case "bool":
		return []string{"", "2", "yes", "tRUE", " 1"}[g.Intn(5)]
	case "f32":
		return []string{"", "abc", "1.2.3", "1e", "--1", "1__000", "0x10", " 1", "1 ", "3.5e38", "-1e39", "+nan", "infin", "e5", ".", "1e+", "_1", "1_", "1_.5", "1._5", "1e_5", "in_f"}[g.Intn(22)]
	case "f64":
		return []string{"", "abc", "1.2.3", "1e", "--1", "1__000", "0x10", " 1", "1 ", "1e400", "-1.8e308", "+nan", "infin", "e5", ".", "1e+", "_1", "1_", "1_.5", "1._5", "1e_5", "in_f"}[g.Intn(22)]
	}
	o := csvIntOver[ty]
	pool := []string{"", "abc", "1.5", "1e3", " 1", "1 ", "1_000", "0x10", "--1", "+", "-", o[0], o[1]}
	return pool[g.Intn(len(pool))]
}

func caseVariant(g *Gen, s string) string {
	switch g.Intn(5) {
	case 0:
		return strings.ToLower(s)
	case 1:
		return strings.ToUpper(s)
	case 2:
		return " " + s + " "
	}
	return s
}

func genC33(g *Gen) {
	zones := []string{"UTC", "UTC", "UTC", "America/New_York", "Asia/Tokyo", "Europe/London", "Asia/Kolkata"}
	types := []string{"f32", "f64", "i8", "i16", "i32", "i64", "u8", "u16", "u32", "u64"}
	colNames := []string{"Open", "High", "Low", "Close", "Volume", "Bid", "Ask", "Flag"}
	n := g.N(2500, 30000)
	for it := 0; it < n; it++ {
		var tags []string
		format := "lay"
		if g.Intn(5) < 2 {
			format = "ts"
		}
		tags = append(tags, "format:"+format)
		// rows and their instants
		maxRows := 12
		if g.Thorough() && g.Intn(10) == 0 {
			maxRows = 60
		}
		nrows := g.Intn(maxRows + 1)
		if g.Intn(12) == 0 {
			nrows = 0
		}
		zn := zones[g.Intn(len(zones))]
		loc, _ := time.LoadLocation(zn)
		year := 2010 + g.Intn(12)
		base := time.Date(year, time.Month(1+g.Intn(12)), 1+g.Intn(28), g.Intn(24), g.Intn(60), g.Intn(60), 0, time.UTC)
		extreme := false
		if zn == "UTC" && g.Intn(25) == 0 {
			base = time.Date([]int{1, 1600, 1969, 1970, 2100, 9999}[g.Intn(6)], 1+time.Month(g.Intn(12)), 1, 0, 0, 0, 0, time.UTC)
			extreme = true
			tags = append(tags, "time:extreme_year")
		}
		dst := false
		if zn == "America/New_York" && g.Intn(3) == 0 { // local times in the DST gap / overlap
			base = time.Date(2017, 3, 12, 1, 30, 0, 0, time.UTC)
			if g.Intn(2) == 0 {
				base = time.Date(2017, 11, 5, 0, 30, 0, 0, time.UTC)
			}
			dst = true
			tags = append(tags, "time:dst_edge")
		}
		tz := "empty"
		switch r := g.Intn(20); {
		case r == 0:
			tz = "empty"
		case r == 1:
			tz = "invalid"
		default:
			tz = zoneToken(zn, base.Unix()-800*86400, base.Unix()+800*86400)
			if extreme {
				tz = "UTC|0"
			}
		}
		if tz == "empty" || tz == "invalid" {
			tags = append(tags, "tz:"+tz)
		} else {
			tags = append(tags, "tz:"+zn)
		}
		_ = loc

		// schema and header
		ncol := g.Intn(5)
		perm := g.R.Perm(len(colNames))
		var schema []string
		var stypes []string
		for i := 0; i < ncol; i++ {
			ty := types[g.Intn(len(types))]
			if g.Intn(25) == 0 {
				ty = "bool"
			}
			schema = append(schema, colNames[perm[i]]+":"+ty)
			stypes = append(stypes, ty)
		}
		schemaTok := "-"
		if ncol > 0 {
			schemaTok = strings.Join(schema, ",")
		}
		hasBool := false
		for _, t := range stypes {
			hasBool = hasBool || t == "bool"
		}
		if hasBool {
			tags = append(tags, "schema:bool")
		}
		// CSV columns: Epoch first, then the bucket columns in shuffled order, maybe extras / duplicates
		type csvCol struct {
			name string
			src  int // index into schema, -1 = unused extra column
		}
		cols := []csvCol{}
		for _, j := range g.R.Perm(ncol) {
			cols = append(cols, csvCol{colNames[perm[j]], j})
		}
		if g.Intn(4) == 0 {
			cols = append(cols, csvCol{"Extra", -1})
			tags = append(tags, "header:extra_column")
		}
		if ncol > 0 && g.Intn(12) == 0 { // duplicate header name: the LAST one wins
			j := g.Intn(ncol)
			cols = append([]csvCol{{colNames[perm[j]], -2}}, cols...)
			tags = append(tags, "header:duplicate_name")
		}
		missing := false
		if ncol > 0 && g.Intn(30) == 0 {
			k := 0
			for i, c := range cols {
				if c.src >= 0 {
					k = i
				}
			}
			cols[k].name = "Nope"
			cols[k].src = -1
			missing = true
			tags = append(tags, "header:missing_column")
		}
		hdr := []string{hxs(caseVariant(g, "Epoch"))}
		for _, c := range cols {
			hdr = append(hdr, hxs(caseVariant(g, c.name)))
		}
		nfields := len(hdr)

		// time strings
		timeStr := func(i int, t time.Time) string {
			if format == "ts" {
				switch g.Intn(6) {
				case 0:
					return fmt.Sprintf("%d.%d", t.Unix(), g.Intn(1000))
				case 1:
					return fmt.Sprintf("%d.%09d", t.Unix(), g.Intn(1000000000))
				case 2:
					return fmt.Sprintf("%d.%s", t.Unix(), []string{"5", "05", "000000001", "1234567891", "+5", "-5", "999999999"}[g.Intn(7)])
				}
				if g.Intn(20) == 0 {
					return []string{"-5", "+7", "0", "-1.5", "253402300800"}[g.Intn(5)]
				}
				return strconv.FormatInt(t.Unix(), 10)
			}
			s := t.Format("20060102 15:04:05")
			switch g.Intn(14) {
			case 0:
				return s + fmt.Sprintf(".%d", g.Intn(1000))
			case 1:
				return s + ".123456789123"
			case 2:
				return t.Format("20060102  15:04:05")
			case 3:
				return t.Format("20060102 ") + strconv.Itoa(t.Hour()) + t.Format(":04:05")
			}
			return s
		}
		var cur time.Time
		badTime0 := func() string {
			if format == "ts" {
				return []string{"abc", "", ".5", "1500000000.", "1.x", "15e8", " 1500000000", "1500000000 ", "9223372036854775808", "1500000000.-", "0x10"}[g.Intn(11)]
			}
			return []string{"garbage", "", "2016", "20161330 10:00:00", "20160230 10:00:00", "20170229 00:00:00", "20160101 24:00:00",
				"20160101 10:60:00", "20160101 10:00:60", "2016010110:00:00", "20160101 10:00:0", "20160101 10:0:00", "2016-01-01 10:00:00",
				"20160100 10:00:00", "20160001 10:00:00", "20160101T10:00:00", "x0160101 10:00:00", "20160101 10:00:00.", "20160101 10:00:00.x",
				"20160101 10:00:00Z", "20160101 10:00:00 UTC", "20160101 10:00:00 1400000", "20160101 10:00:00123456"}[g.Intn(23)]
		}
		badTime := func() string {
			// keep readings that the tuning rescues inside the zone token's window
			return strings.Replace(badTime0(), "20160101", cur.Format("20060102"), 1)
		}
		extTime := func(t time.Time) string { // the documented "nanosecond extension" and relatives
			s := t.Format("20060102 15:04:05")
			switch g.Intn(5) {
			case 0:
				return s + " 140000"
			case 1:
				return s + fmt.Sprintf(" %06d", g.Intn(1000000))
			case 2:
				return s + " 14"
			case 3:
				return s + fmt.Sprintf("%03d", g.Intn(1000))
			}
			return s + ".14000"
		}

		wellFormed := tz != "empty" && tz != "invalid" && !missing && !hasBool
		defects := map[string]bool{}
		allExt := format == "lay" && g.Intn(15) == 0 // whole file in the extended format
		if allExt {
			defects["ext_time_all_rows"] = true
		}
		// an extended (tuned) row followed later by a time field shorter than the tuned suffix
		extShortAt := -1
		if format == "lay" && nrows >= 2 && g.Intn(25) == 0 {
			extShortAt = 1 + g.Intn(nrows-1)
			defects["ext_then_short_time"] = true
		}
		malformed := g.Intn(100) < 40
		recs := make([]string, 0, nrows+2)
		cur = base
		for i := 0; i < nrows; i++ {
			step := time.Duration(1+g.Intn(120)) * time.Second
			if dst {
				step = time.Duration(5+g.Intn(20)) * time.Minute
			}
			cur = cur.Add(step)
			// the civil reading `cur` (built in UTC) is what is written; in zone zn it may be in a gap/overlap
			fields := make([]string, nfields)
			ts := timeStr(i, cur)
			if allExt {
				ts = extTime(cur)
			}
			if extShortAt > 0 && i == 0 {
				ts = cur.Format("20060102 15:04:05") + " 140000"
			}
			if i == extShortAt {
				ts = []string{"2016", "", "x", "123456", "1234567"}[g.Intn(5)]
			}
			for ci, c := range cols {
				switch {
				case c.src >= 0:
					fields[ci+1] = goodValue(g, stypes[c.src])
				case c.src == -2:
					fields[ci+1] = "shadowed"
				default:
					fields[ci+1] = []string{"", "x", "12", "free text"}[g.Intn(4)]
				}
			}
			if malformed && g.Intn(nrows+1) < 2 {
				switch d := g.Intn(9); d {
				case 0: // extra field
					fields = append(fields, "9")
					defects["field_count"] = true
				case 1: // missing field
					if len(fields) > 1 {
						fields = fields[:len(fields)-1]
						defects["field_count"] = true
					} else {
						fields = append(fields, "")
						defects["field_count"] = true
					}
				case 2: // bare quote
					k := g.Intn(len(fields))
					if k == 0 {
						ts = ts + "\"x"
					} else {
						fields[k] = "1\"2"
					}
					defects["bare_quote"] = true
				case 3, 4: // unparsable value
					var cands []int
					for ci, c := range cols {
						if c.src >= 0 {
							cands = append(cands, ci)
						}
					}
					if len(cands) > 0 {
						ci := cands[g.Intn(len(cands))]
						fields[ci+1] = badValue(g, stypes[cols[ci].src])
						defects["bad_value"] = true
					}
				case 5, 6: // unparsable time
					ts = badTime()
					defects["bad_time"] = true
				case 7: // one row in the extended time format
					if format == "lay" {
						ts = extTime(cur)
						defects["ext_time_some_rows"] = true
					}
				case 8: // blank line (not a defect: skipped by the reader)
					recs = append(recs, "-")
					tags = append(tags, "blank_line")
				}
			}
			fields[0] = ts
			hf := make([]string, len(fields))
			for k, f := range fields {
				hf[k] = hxs(f)
			}
			recs = append(recs, strings.Join(hf, ","))
		}
		recTok := "~"
		if len(recs) > 0 {
			recTok = strings.Join(recs, "|")
		}
		// chunk size
		var chunk int
		switch g.Intn(10) {
		case 0:
			chunk = 1
		case 1:
			chunk = 2
		case 2:
			chunk = 3
		case 3:
			chunk = nrows
		case 4:
			chunk = nrows + 1
		case 5:
			chunk = nrows - 1
		case 6:
			chunk = 1000000
		default:
			chunk = 1 + g.Intn(8)
		}
		if chunk < 0 {
			chunk = 1
		}
		if chunk == 0 && g.Intn(4) != 0 {
			chunk = 1
		}
		switch {
		case chunk == 0:
			tags = append(tags, "chunk:0")
		case chunk == 1:
			tags = append(tags, "chunk:1")
		case chunk < nrows:
			tags = append(tags, "chunk:<rows")
		case chunk == nrows:
			tags = append(tags, "chunk:=rows")
		default:
			tags = append(tags, "chunk:>rows")
		}
		isVar := g.Intn(2)
		tags = append(tags, fmt.Sprintf("variable:%d", isVar), sizeTag(nrows))
		var ds []string
		for d := range defects {
			ds = append(ds, d)
		}
		sort.Strings(ds)
		for _, d := range ds {
			tags = append(tags, "defect:"+d)
		}
		if len(ds) == 0 && wellFormed {
			tags = append(tags, "wellformed")
		}
		g.Emit(fmt.Sprintf("csvload %s %s %d %d %s %s %s", format, tz, isVar, chunk, schemaTok, strings.Join(hdr, ","), recTok), tags...)
	}
}
