import Mkts.Props.C02
/-!
# C35 — Restart after graceful shutdown preserves query results

Graceful shutdown makes the writer loop take its shutdown branch: a last flush of whatever is
queued, then a checkpoint (`SyncWAL`, normal form in `Props/WalSkeleton`).  In the model this is a
history that ends with a checkpoint event.  Theorem: after ANY history followed by a completed
checkpoint nothing is live in the WAL, so restart replays nothing: fixed-length content is exactly
the last-writer-wins content of all flushed groups and variable-length intervals hold every record
exactly once (no duplication — contrast C02-F2, which needs a crash before the checkpoint).
Not covered by the model: a client request racing with the shutdown (partial, see DESIGN).
-/
namespace Mkts.Props.C35
open Mkts.WalProto Mkts.Store Mkts.Bytes Mkts.Props

/-- the boundary invariant after a whole history -/
theorem bnd_after (evs : List Event) :
    ∀ (s : St) (c : Ctl) (done : List Cmd) (liveL : List (Nat × List Cmd)), Bnd s c done liveL →
      ∃ c' liveL', Bnd (run s (trace c evs)) c' (done ++ allCmds evs) liveL' ∧
        (run s (trace c evs)).acked = s.acked + flushCount evs := by
  induction evs with
  | nil => intro s c done liveL h; exact ⟨c, liveL, by simpa [trace, run, allCmds] using h, by simp [trace, run, flushCount]⟩
  | cons e rest ih =>
    intro s c done liveL h
    simp only [trace, run_append]
    cases e with
    | flush cmds =>
      obtain ⟨hb, hack⟩ := flush_full h cmds
      obtain ⟨c', l', hb', hack'⟩ := ih _ _ _ _ hb
      exact ⟨c', l', by simpa [eventEffects, allCmds, List.append_assoc] using hb',
        by simp only [eventEffects] at hack' ⊢; rw [hack', hack]; simp [flushCount]; omega⟩
    | checkpoint =>
      obtain ⟨l1, hb, hack⟩ := checkpoint_full h
      obtain ⟨c', l', hb', hack'⟩ := ih _ _ _ _ hb
      exact ⟨c', l', by simpa [eventEffects, allCmds] using hb',
        by simp only [eventEffects] at hack' ⊢; rw [hack', hack]; simp [flushCount]⟩
    | rotate =>
      obtain ⟨hb, hack⟩ := rotate_full h
      obtain ⟨c', l', hb', hack'⟩ := ih _ _ _ _ hb
      exact ⟨c', l', by simpa [eventEffects, allCmds] using hb',
        by simp only [eventEffects] at hack' ⊢; rw [hack', hack]; simp [flushCount]⟩

theorem trace_append (a b : List Event) : ∀ c : Ctl,
    ∃ c', trace c (a ++ b) = trace c a ++ trace c' b ∧
      (∀ s done liveL, Bnd s c done liveL → ∃ l', Bnd (run s (trace c a)) c' (done ++ allCmds a) l') := by
  induction a with
  | nil => intro c; exact ⟨c, by simp [trace], fun s done liveL h => ⟨liveL, by simpa [trace, run, allCmds] using h⟩⟩
  | cons e rest ih =>
    intro c
    obtain ⟨c', h1, h2⟩ := ih (eventEffects c e).2
    refine ⟨c', by simp [trace, h1, List.append_assoc], ?_⟩
    intro s done liveL h
    simp only [trace, run_append]
    cases e with
    | flush cmds =>
      obtain ⟨hb, _⟩ := flush_full h cmds
      obtain ⟨l', hb'⟩ := h2 _ _ _ hb
      exact ⟨l', by simpa [eventEffects, allCmds, List.append_assoc] using hb'⟩
    | checkpoint =>
      obtain ⟨l1, hb, _⟩ := checkpoint_full h
      obtain ⟨l', hb'⟩ := h2 _ _ _ hb
      exact ⟨l', by simpa [eventEffects, allCmds] using hb'⟩
    | rotate =>
      obtain ⟨hb, _⟩ := rotate_full h
      obtain ⟨l', hb'⟩ := h2 _ _ _ hb
      exact ⟨l', by simpa [eventEffects, allCmds] using hb'⟩

/-- C35: after any history that ends with a completed checkpoint (graceful shutdown) the WAL holds
    nothing to replay, the primary holds exactly the flushed history, and all flushes are
    acknowledged. -/
theorem C35_shutdown_clean (evs : List Event) :
    let st := run {} (trace {} (evs ++ [.checkpoint]))
    liveTGs st.wal = [] ∧ st.prim = applyCmds [] (allCmds evs) ∧ st.applied = allCmds evs ∧
      st.acked = flushCount evs := by
  obtain ⟨c', htr, hb⟩ := trace_append evs [.checkpoint] {}
  obtain ⟨l', hb1⟩ := hb {} [] [] bnd_init
  obtain ⟨_, _, _, hack⟩ := bnd_after evs {} {} [] [] bnd_init
  simp only [htr, run_append]
  have hck : trace c' [Event.checkpoint] = checkpointEffects c'.lastCommitted := by simp [trace, eventEffects]
  rw [hck]
  obtain ⟨hb2, hack2⟩ := checkpoint_full_nil hb1
  have hl : liveTGs (run (run {} (trace {} evs)) (checkpointEffects c'.lastCommitted)).wal = [] := by
    have := hb2.scan []; simpa [liveTGs, scanLive] using this
  refine ⟨hl, by simpa using hb2.prim, by simpa using hb2.appl, ?_⟩
  rw [hack2, hack]; simp

/-- restart after graceful shutdown: fixed-length content unchanged -/
theorem C35_restart_fixed (evs : List Event) :
    recover (run {} (trace {} (evs ++ [.checkpoint]))) = applyCmds [] (allCmds evs) := by
  obtain ⟨hl, hp, _, _⟩ := C35_shutdown_clean evs
  unfold recover
  rw [hl, hp]; rfl

/-- restart after graceful shutdown: every variable-length record exactly once -/
theorem C35_restart_variable (evs : List Event) (k : Int × Int) :
    C02.recoveredAppends (run {} (trace {} (evs ++ [.checkpoint]))) k = C02.appendedTo k (allCmds evs) := by
  obtain ⟨hl, _, ha, _⟩ := C35_shutdown_clean evs
  unfold C02.recoveredAppends
  rw [hl, ha]; simp [C02.appendedTo]

example : recover (run {} (trace {} ([.flush [⟨2020, 1, [7]⟩], .flush [⟨2020, 1, [8]⟩]] ++ [.checkpoint]))) = [((2020, 1), [8])] := by
  decide

end Mkts.Props.C35
