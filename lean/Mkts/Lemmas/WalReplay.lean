import Mkts.Model.WalReplay
import Mkts.Lemmas.WalCodec
/-! Helper lemmas for the WAL replay scanner (C06) -/
namespace Mkts.WalReplay
open Mkts.Bytes Mkts.WalCodec

variable (md5 : Bytes → Bytes)

/-- list-length goals: normalise lengths, then linear arithmetic -/
macro "len_omega" : tactic =>
  `(tactic| ((try simp only [List.length_cons, List.length_drop, List.length_take, List.length_append,
      List.length_nil]); omega))

/-- what a successful `readTGData` has seen in the file -/
theorem readTGData_ok {fsz : Nat} {r : Bytes} {id : Int} {tg r3 : Bytes}
    (h : readTGData md5 fsz r = .ok id tg r3) :
    ∃ lenb ck, r = lenb ++ (tg ++ (ck ++ r3)) ∧ lenb.length = 8 ∧ ck.length = 16 ∧
      leDecodeInt lenb = tg.length ∧ md5 (lenb ++ tg) = ck ∧ 7 ≤ tg.length := by
  unfold readTGData at h
  split at h; · cases h
  simp only at h
  split at h; · cases h
  split at h; · cases h
  split at h; · cases h
  split at h; · cases h
  split at h; · cases h
  split at h
  · rename_i h1 h2 h3 h4 h5 h6 h7
    injection h with hid htg hr3
    refine ⟨r.take tgLenBytes, ((r.drop tgLenBytes).drop (leDecodeInt (r.take tgLenBytes)).toNat).take checkSumBytes, ?_, ?_, ?_, ?_, ?_, ?_⟩
    · subst htg hr3
      simp only [List.take_append_drop]
    · simp only [tgLenBytes] at h1 ⊢; len_omega
    · simp only [checkSumBytes] at h6 ⊢; rw [List.length_take]; omega
    · subst htg
      simp only [List.length_take]
      omega
    · subst htg; exact h7
    · subst htg
      simp only [List.length_take, tgIDBytes] at h5 ⊢
      omega
  · cases h

theorem readTGData_ok_rest {fsz : Nat} {r : Bytes} {id : Int} {tg r3 : Bytes}
    (h : readTGData md5 fsz r = .ok id tg r3) : r3.length ≤ r.length := by
  obtain ⟨lenb, ck, hr, _⟩ := readTGData_ok md5 h
  rw [hr]; len_omega

theorem readTGData_bad_rest {fsz : Nat} {r r' : Bytes}
    (h : readTGData md5 fsz r = .bad r') : r'.length ≤ r.length := by
  unfold readTGData at h
  split at h; · cases h
  simp only at h
  split at h
  · injection h with h; subst h; len_omega
  split at h; · cases h
  split at h; · cases h
  split at h; · cases h
  split at h; · cases h
  split at h
  · cases h
  · injection h with h; subst h; len_omega

/-- every iteration of the scan loop that continues has consumed at least one byte -/
theorem step_cont_lt {fsz : Nat} {r r' : Bytes} {st st' : St}
    (h : step md5 fsz r st = .cont r' st') : r'.length < r.length := by
  unfold step at h
  cases r with
  | nil => cases h
  | cons b r1 =>
    simp only at h
    split at h
    · split at h
      · cases h
      · cases h
      · rename_i hb
        split at h
        · cases h
        · injection h with h1 h2; subst h1
          have := readTGData_bad_rest md5 hb
          len_omega
      · rename_i hb
        split at h
        · cases h
        · injection h with h1 h2; subst h1
          have := readTGData_ok_rest md5 hb
          len_omega
    · split at h
      · split at h
        · cases h
        · try simp only at h
          split at h <;> (injection h with h1 h2; subst h1; len_omega)
      · split at h
        · split at h
          · cases h
          · split at h
            · cases h
            · injection h with h1 h2; subst h1; len_omega
        · injection h with h1 h2; subst h1; len_omega

/-- with fuel above the number of remaining bytes the loop never runs out of fuel -/
theorem scanLoop_fuel (fsz : Nat) : ∀ (n : Nat) (r : Bytes) (st : St), r.length < n →
    scanLoop md5 fsz n r st ≠ .fuel := by
  intro n
  induction n with
  | zero => intro r st h; omega
  | succ n ih =>
    intro r st h
    unfold scanLoop
    split
    · simp
    · rename_i r' st' hs
      have := step_cont_lt md5 hs
      exact ih r' st' (by omega)
    · simp
    · simp
    · simp

/-! ### safety invariant of the first pass -/

/-- `tg` occurs in `f` as a complete TGDATA record: message id, 8-byte length equal to `tg.length`,
the bytes `tg`, and the checksum `md5 (length ++ tg)` -/
def ValidRecordIn (f tg : Bytes) : Prop :=
  ∃ pre lenb post, f = pre ++ midTGDATA :: (lenb ++ (tg ++ (md5 (lenb ++ tg) ++ post))) ∧
    lenb.length = 8 ∧ leDecodeInt lenb = tg.length

theorem mem_put {m : TGMap} {k : Int} {v : Option Bytes} {a : Int × Option Bytes}
    (h : a ∈ m.put k v) : a = (k, v) ∨ a ∈ m := by
  unfold TGMap.put at h
  rcases List.mem_cons.mp h with h | h
  · exact Or.inl h
  · exact Or.inr (List.mem_filter.mp h).1

theorem mem_dropUpTo {m : TGMap} {k : Int} {a : Int × Option Bytes}
    (h : a ∈ m.dropUpTo k) : a ∈ m := (List.mem_filter.mp h).1

theorem mem_failedRead {st : St} {id : Int} {tg : Bytes}
    (h : (id, some tg) ∈ st.failedRead.tgData) : (id, some tg) ∈ st.tgData := by
  unfold St.failedRead at h
  rcases mem_put h with h | h
  · cases h
  · exact h

/-- the state after one loop iteration holds only groups that were there before, or the
checksum-valid record that starts at the current position -/
theorem step_tgData {fsz : Nat} {r : Bytes} {st st' : St} {id : Int} {tg : Bytes}
    (h : (∃ r', step md5 fsz r st = .cont r' st') ∨ step md5 fsz r st = .stop st')
    (hm : (id, some tg) ∈ st'.tgData) :
    (id, some tg) ∈ st.tgData ∨
      ∃ lenb r3, r = midTGDATA :: (lenb ++ (tg ++ (md5 (lenb ++ tg) ++ r3))) ∧ lenb.length = 8 ∧
        leDecodeInt lenb = tg.length := by
  unfold step at h
  cases r with
  | nil =>
    simp only at h
    rcases h with ⟨r', h⟩ | h
    · cases h
    · injection h with h; subst h; exact Or.inl hm
  | cons b r1 =>
    simp only at h
    split at h
    · rename_i hb0
      split at h
      · rcases h with ⟨r', h⟩ | h <;> cases h
      · rcases h with ⟨r', h⟩ | h
        · cases h
        · injection h with h; subst h; exact Or.inl (mem_failedRead hm)
      · split at h
        · rcases h with ⟨r', h⟩ | h <;> cases h
        · rcases h with ⟨r', h⟩ | h
          · injection h with h1 h2; subst h2
            exact Or.inl (mem_failedRead hm)
          · cases h
      · rename_i id' tg' r3 hok
        split at h
        · rcases h with ⟨r', h⟩ | h <;> cases h
        · rcases h with ⟨r', h⟩ | h
          · injection h with h1 h2; subst h2
            simp only at hm
            rcases mem_put hm with hm | hm
            · injection hm with e1 e2
              injection e2 with e2
              subst e2
              obtain ⟨lenb, ck, hr, hl, _, hd, hck, _⟩ := readTGData_ok md5 hok
              refine Or.inr ⟨lenb, r3, ?_, hl, hd⟩
              rw [hb0, hr, hck]
            · exact Or.inl hm
          · cases h
    · split at h
      · split at h
        · rcases h with ⟨r', h⟩ | h
          · cases h
          · injection h with h; subst h; exact Or.inl hm
        · try simp only at h
          split at h
          · rcases h with ⟨r', h⟩ | h
            · injection h with h1 h2; subst h2
              exact Or.inl (mem_dropUpTo hm)
            · cases h
          · rcases h with ⟨r', h⟩ | h
            · injection h with h1 h2; subst h2; exact Or.inl hm
            · cases h
      · split at h
        · split at h
          · rcases h with ⟨r', h⟩ | h <;> cases h
          · split at h
            · rcases h with ⟨r', h⟩ | h
              · cases h
              · injection h with h; subst h; exact Or.inl hm
            · rcases h with ⟨r', h⟩ | h
              · injection h with h1 h2; subst h2; exact Or.inl hm
              · cases h
        · rcases h with ⟨r', h⟩ | h
          · injection h with h1 h2; subst h2; exact Or.inl hm
          · cases h

/-- the position after a continuing iteration is a suffix of the position before -/
theorem step_cont_suffix {fsz : Nat} {r r' : Bytes} {st st' : St}
    (h : step md5 fsz r st = .cont r' st') : ∃ pre, r = pre ++ r' := by
  unfold step at h
  cases r with
  | nil => cases h
  | cons b r1 =>
    simp only at h
    split at h
    · split at h
      · cases h
      · cases h
      · rename_i r'' hb
        split at h
        · cases h
        · injection h with h1 h2; subst h1
          unfold readTGData at hb
          split at hb; · cases hb
          simp only at hb
          split at hb
          · injection hb with hb; subst hb
            exact ⟨b :: r1.take tgLenBytes, by simp⟩
          split at hb; · cases hb
          split at hb; · cases hb
          split at hb; · cases hb
          split at hb; · cases hb
          split at hb
          · cases hb
          · injection hb with hb; subst hb
            exact ⟨b :: (r1.take tgLenBytes ++ ((r1.drop tgLenBytes).take (leDecodeInt (r1.take tgLenBytes)).toNat ++
              ((r1.drop tgLenBytes).drop (leDecodeInt (r1.take tgLenBytes)).toNat).take checkSumBytes)), by
              simp only [List.cons_append, List.append_assoc, List.take_append_drop]⟩
      · rename_i id' tg' r3 hok
        split at h
        · cases h
        · injection h with h1 h2; subst h1
          obtain ⟨lenb, ck, hr, _⟩ := readTGData_ok md5 hok
          exact ⟨b :: (lenb ++ (tg' ++ ck)), by rw [hr]; simp⟩
    · split at h
      · split at h
        · cases h
        · try simp only at h
          split at h <;> (injection h with h1 h2; subst h1; exact ⟨b :: r1.take txnInfoBytes, by simp⟩)
      · split at h
        · split at h
          · cases h
          · split at h
            · cases h
            · injection h with h1 h2; subst h1; exact ⟨b :: r1.take walStatusLenBytes, by simp⟩
        · injection h with h1 h2; subst h1; exact ⟨[b], by simp⟩

/-- invariant of the scan loop ⇒ safety of its result -/
theorem scanLoop_safe (f : Bytes) (fsz : Nat) : ∀ (n : Nat) (r : Bytes) (st st' : St),
    (∃ pre, f = pre ++ r) → (∀ id tg, (id, some tg) ∈ st.tgData → ValidRecordIn md5 f tg) →
    scanLoop md5 fsz n r st = .done st' →
    ∀ id tg, (id, some tg) ∈ st'.tgData → ValidRecordIn md5 f tg := by
  intro n
  induction n with
  | zero => intro r st st' _ _ h; cases h
  | succ n ih =>
    intro r st st' hpre hinv h id tg hm
    unfold scanLoop at h
    split at h
    · rename_i st1 hs
      injection h with h; subst h
      rcases step_tgData md5 (Or.inr hs) hm with h1 | ⟨lenb, r3, hr, hl, hd⟩
      · exact hinv id tg h1
      · obtain ⟨pre, hf⟩ := hpre
        exact ⟨pre, lenb, r3, by rw [hf, hr], hl, hd⟩
    · rename_i r1 st1 hs
      obtain ⟨pre, hf⟩ := hpre
      obtain ⟨p2, hr⟩ := step_cont_suffix md5 hs
      refine ih r1 st1 st' ⟨pre ++ p2, by rw [hf, hr, List.append_assoc]⟩ ?_ h id tg hm
      intro id2 tg2 hm2
      rcases step_tgData md5 (Or.inl ⟨r1, hs⟩) hm2 with h1 | ⟨lenb, r3, hr', hl, hd⟩
      · exact hinv id2 tg2 h1
      · exact ⟨pre, lenb, r3, by rw [hf, hr'], hl, hd⟩
    · cases h
    · cases h
    · cases h

/-! ### second pass -/

/-- the writes one group performs (in isolation) -/
def setsWrites (ex : Bytes → Bool) (root : Bytes) (sets : List WTSet) : List Write :=
  (applySets ex root sets []).2

theorem applySets_acc (ex : Bytes → Bool) (root : Bytes) : ∀ (sets : List WTSet) (acc : List Write),
    (applySets ex root sets acc).2 = acc ++ (applySets ex root sets []).2 := by
  intro sets
  induction sets with
  | nil => intro acc; simp [applySets]
  | cons w ws ih =>
    intro acc
    unfold applySets
    simp only
    split; · simp
    split
    · split; · simp
      split; · simp
      rw [ih (acc ++ _), ih ([] ++ _)]
      simp
    · split <;> simp

theorem mem_insertSorted {x a : Int × Bytes} {l : List (Int × Bytes)}
    (h : a ∈ insertSorted x l) : a = x ∨ a ∈ l := by
  induction l with
  | nil => simp [insertSorted] at h; exact Or.inl h
  | cons y ys ih =>
    unfold insertSorted at h
    split at h
    · rcases List.mem_cons.mp h with h | h
      · exact Or.inl h
      · exact Or.inr h
    · rcases List.mem_cons.mp h with h | h
      · exact Or.inr (by simp [h])
      · rcases ih h with h | h
        · exact Or.inl h
        · exact Or.inr (by simp [h])

theorem mem_pending {m : TGMap} {a : Int × Bytes} (h : a ∈ pending m) : (a.1, some a.2) ∈ m := by
  unfold pending at h
  generalize hl : m.filterMap (fun e => e.2.map (fun b => (e.1, b))) = l at h
  have hsub : ∀ b ∈ l, (b.1, some b.2) ∈ m := by
    intro b hb
    rw [← hl] at hb
    obtain ⟨e, he, hb⟩ := List.mem_filterMap.mp hb
    obtain ⟨k, v⟩ := e
    cases v with
    | none => simp at hb
    | some v => simp at hb; subst hb; exact he
  clear hl
  induction l with
  | nil => simp at h
  | cons x xs ih =>
    simp only [List.foldr_cons] at h
    rcases mem_insertSorted h with h | h
    · subst h; exact hsub _ (by simp)
    · exact ih h (fun b hb => hsub b (by simp [hb]))

theorem secondPass_writes (ex : Bytes → Bool) (root : Bytes) :
    ∀ (l : List (Int × Bytes)) (res : Result) (w : Write), w ∈ (secondPass ex root l res).writes →
      w ∈ res.writes ∨ ∃ a ∈ l, ∃ id sets, parseTGData a.2 = .ok (id, sets) ∧ w ∈ setsWrites ex root sets := by
  intro l
  induction l with
  | nil => intro res w h; exact Or.inl h
  | cons a rest ih =>
    intro res w h
    obtain ⟨aid, tg⟩ := a
    unfold secondPass at h
    split at h
    · exact Or.inl h
    · rename_i id sets hp
      have hacc := applySets_acc ex root sets res.writes
      split at h
      · rename_i c ws heq
        rcases ih _ w h with h1 | ⟨b, hb, hx⟩
        · simp only at h1
          have : ws = res.writes ++ (applySets ex root sets []).2 := by rw [← hacc, heq]
          rw [this] at h1
          rcases List.mem_append.mp h1 with h1 | h1
          · exact Or.inl h1
          · exact Or.inr ⟨(aid, tg), by simp, id, sets, hp, h1⟩
        · exact Or.inr ⟨b, by simp [hb], hx⟩
      · rename_i o c ws _ heq
        simp only at h
        have : ws = res.writes ++ (applySets ex root sets []).2 := by rw [← hacc, heq]
        rw [this] at h
        rcases List.mem_append.mp h with h1 | h1
        · exact Or.inl h1
        · exact Or.inr ⟨(aid, tg), by simp, id, sets, hp, h1⟩

/-! ### where panics come from -/

/-- the first pass panics in `readTGData` only, and only for a length field that is negative
(`makeslice`) or 0…6 with that many bytes present (`tgSerialized[:7]`) -/
theorem step_panic {fsz : Nat} {r : Bytes} {st : St} {p : Panic} (h : step md5 fsz r st = .panic p) :
    ∃ r1, r = midTGDATA :: r1 ∧ 8 ≤ r1.length ∧ leDecodeInt (r1.take 8) < safetyFactor * fsz ∧
      ((leDecodeInt (r1.take 8) < 0 ∧ p = .makeslice) ∨
       (0 ≤ leDecodeInt (r1.take 8) ∧ leDecodeInt (r1.take 8) < 7 ∧
        leDecodeInt (r1.take 8) ≤ (r1.length : Int) - 8 ∧ p = .slice)) := by
  unfold step at h
  cases r with
  | nil => cases h
  | cons b r1 =>
    simp only at h
    split at h
    · rename_i hb0
      split at h
      · rename_i p' hrd
        injection h with h; subst h
        refine ⟨r1, by rw [hb0], ?_⟩
        unfold readTGData at hrd
        split at hrd; · cases hrd
        simp only at hrd
        split at hrd; · cases hrd
        split at hrd
        · injection hrd with hrd; subst hrd
          rename_i h1 h2 h3
          simp only [tgLenBytes] at h1 h2 h3 ⊢
          exact ⟨by omega, by omega, Or.inl ⟨h3, trivial⟩⟩
        split at hrd; · cases hrd
        split at hrd
        · injection hrd with hrd; subst hrd
          rename_i h1 h2 h3 h4 h5
          simp only [tgLenBytes, tgIDBytes, List.length_drop] at h1 h2 h3 h4 h5 ⊢
          exact ⟨by omega, by omega, Or.inr ⟨by omega, by omega, by omega, trivial⟩⟩
        split at hrd; · cases hrd
        split at hrd <;> cases hrd
      · cases h
      · split at h <;> cases h
      · split at h <;> cases h
    · split at h
      · split at h
        · cases h
        · try simp only at h
          split at h <;> cases h
      · split at h
        · split at h
          · cases h
          · split at h <;> cases h
        · cases h

/-- … and in `wal.ReadStatus` only for a STATUS id that is the last byte of the file -/
theorem step_statusEof {fsz : Nat} {r : Bytes} {st : St} (h : step md5 fsz r st = .statusEof) :
    r = [midSTATUS] := by
  unfold step at h
  cases r with
  | nil => cases h
  | cons b r1 =>
    simp only at h
    split at h
    · split at h
      · cases h
      · cases h
      · split at h <;> cases h
      · split at h <;> cases h
    · split at h
      · split at h
        · cases h
        · try simp only at h
          split at h <;> cases h
      · split at h
        · rename_i hb
          split at h
          · rename_i hr; subst hr; rw [hb]
          · split at h <;> cases h
        · cases h

theorem applySets_no_panic (ex : Bytes → Bool) (root : Bytes) : ∀ (sets : List WTSet) (acc : List Write),
    (∀ s ∈ sets, 8 ≤ s.buffer.length) → ∀ p, (applySets ex root sets acc).1.1 ≠ .panic p := by
  intro sets
  induction sets with
  | nil => intro acc _ p; simp [applySets]
  | cons w ws ih =>
    intro acc hb p
    unfold applySets
    simp only
    split; · simp
    split
    · split
      · have := hb w (by simp); omega
      split; · simp
      exact ih _ (fun s hs => hb s (by simp [hs])) p
    · split <;> simp

theorem secondPass_no_panic (ex : Bytes → Bool) (root : Bytes) :
    ∀ (l : List (Int × Bytes)) (res : Result),
      (∀ p, res.outcome ≠ .panic p) →
      (∀ a ∈ l, ∃ id sets, parseTGData a.2 = .ok (id, sets) ∧ ∀ s ∈ sets, 8 ≤ s.buffer.length) →
      ∀ p, (secondPass ex root l res).outcome ≠ .panic p := by
  intro l
  induction l with
  | nil => intro res h _ p; exact h p
  | cons a rest ih =>
    intro res hres hl p
    obtain ⟨aid, tg⟩ := a
    obtain ⟨id, sets, hp, hb⟩ := hl (aid, tg) (by simp)
    unfold secondPass
    simp only at hp
    rw [hp]
    simp only
    split
    · exact ih _ (by simpa using hres) (fun b hb' => hl b (by simp [hb'])) p
    · rename_i o c ws hne heq
      simp only
      have := applySets_no_panic ex root sets res.writes hb p
      rw [heq] at this
      exact this

/-! ### truncation of a well-formed WAL -/

/-- a complete TGDATA record with a correct checksum -/
def encTG (body : Bytes) : Bytes :=
  midTGDATA :: (leInt 8 body.length ++ (body ++ md5 (leInt 8 body.length ++ body)))

theorem readTGData_enc (fsz : Nat) (body rest : Bytes) (h8 : 8 ≤ body.length)
    (hs : (body.length : Int) < safetyFactor * fsz) (h63 : (body.length : Int) < 2 ^ 63)
    (hck : (md5 (leInt 8 body.length ++ body)).length = 16) :
    readTGData md5 fsz (leInt 8 body.length ++ (body ++ (md5 (leInt 8 body.length ++ body) ++ rest))) =
      .ok (leDecodeInt (body.take 8)) body rest := by
  have hL : leDecodeInt (leInt 8 (body.length : Int)) = body.length :=
    leDecodeInt_leInt _ _ (by simp; omega) (by simp; omega)
  have ht : (leInt 8 (body.length : Int) ++ (body ++ (md5 (leInt 8 body.length ++ body) ++ rest))).take tgLenBytes
      = leInt 8 body.length := List.take_left' (leInt_length 8 _)
  have hd : (leInt 8 (body.length : Int) ++ (body ++ (md5 (leInt 8 body.length ++ body) ++ rest))).drop tgLenBytes
      = body ++ (md5 (leInt 8 body.length ++ body) ++ rest) := List.drop_left' (leInt_length 8 _)
  unfold readTGData
  simp only [ht, hd, hL]
  have c1 : ¬ (leInt 8 (body.length : Int) ++ (body ++ (md5 (leInt 8 body.length ++ body) ++ rest))).length < tgLenBytes := by
    simp [leInt_length, tgLenBytes]
  simp only [c1, if_false, Int.toNat_natCast]
  have c2 : ¬ ¬ (body.length : Int) < safetyFactor * fsz := by omega
  have c3 : ¬ (body.length : Int) < 0 := by omega
  have c4 : ¬ (body ++ (md5 (leInt 8 body.length ++ body) ++ rest)).length < body.length := by simp
  have c5 : ¬ body.length < tgIDBytes - 1 := by simp [tgIDBytes]; omega
  have c6 : ¬ body.length = 7 := by omega
  simp only [c2, c3, c4, c5, c6, if_false, List.take_left, List.drop_left, List.append_nil]
  have c7 : ¬ (md5 (leInt 8 body.length ++ body) ++ rest).length < checkSumBytes := by
    simp [checkSumBytes, hck]
  have t1 : (md5 (leInt 8 body.length ++ body) ++ rest).take checkSumBytes = md5 (leInt 8 body.length ++ body) :=
    List.take_left' hck
  have t2 : (md5 (leInt 8 body.length ++ body) ++ rest).drop checkSumBytes = rest := List.drop_left' hck
  simp only [c7, if_false, t1, t2, if_true]

/-- messages of a well-formed WAL body: a complete checksummed group, or an 11-byte TXNINFO record -/
inductive Msg where
  | tg (body : Bytes)
  | info (buf : Bytes)

def Msg.enc : Msg → Bytes
  | .tg body => encTG md5 body
  | .info buf => midTXNINFO :: buf

/-- what the first pass does with a complete message -/
def upd (st : St) : Msg → St
  | .tg body => { st with tgData := st.tgData.put (leDecodeInt (body.take 8)) (some body),
                          seen := leDecodeInt (body.take 8) :: st.seen }
  | .info buf =>
    if buf.getD 8 0 = destCHECKPOINT ∧ buf.getD 9 0 = statusCOMMITCOMPLETE ∧ st.tgData.has (leDecodeInt (buf.take 8)) then
      { st with tgData := st.tgData.dropUpTo (leDecodeInt (buf.take 8)),
                ckptDropped := st.ckptDropped ||
                  st.tgData.any (fun e => decide (e.1 ≤ leDecodeInt (buf.take 8)) && e.2.isSome) }
    else st

/-- well-formedness of a message given the file size and the ids seen so far -/
def Msg.ok (fsz : Nat) (st : St) : Msg → Prop
  | .tg body => 8 ≤ body.length ∧ (body.length : Int) < safetyFactor * fsz ∧ (body.length : Int) < 2 ^ 63 ∧
      (md5 (leInt 8 body.length ++ body)).length = 16 ∧ st.seen.contains (leDecodeInt (body.take 8)) = false
  | .info buf => buf.length = 10

theorem step_msg (fsz : Nat) (m : Msg) (rest : Bytes) (st : St) (h : m.ok md5 fsz st) :
    step md5 fsz (m.enc md5 ++ rest) st = .cont rest (upd st m) := by
  cases m with
  | tg body =>
    obtain ⟨h8, hs, h63, hck, hseen⟩ := h
    simp only [Msg.enc, encTG, List.cons_append, List.append_assoc, step, if_true]
    rw [readTGData_enc md5 fsz body rest h8 hs h63 hck]
    simp only [hseen, Bool.false_eq_true, if_false, upd]
  | info buf =>
    have hl : buf.length = 10 := h
    have hne : midTXNINFO ≠ midTGDATA := by decide
    simp only [Msg.enc, List.cons_append, step, hne, if_false, if_true]
    have c1 : ¬ (buf ++ rest).length < txnInfoBytes := by simp [txnInfoBytes, hl]
    have t1 : (buf ++ rest).take txnInfoBytes = buf := List.take_left' hl
    have t2 : (buf ++ rest).drop txnInfoBytes = rest := List.drop_left' hl
    simp only [c1, if_false, t1, t2, upd]
    split <;> rfl

/-- a file that ends inside a message: the scan stops there; a cut group leaves `tgData[0] = nil` -/
theorem step_cut (fsz : Nat) (m : Msg) (k : Nat) (st : St) (h : m.ok md5 fsz st)
    (hk : k < (m.enc md5).length) :
    step md5 fsz ((m.enc md5).take k) st = .stop st ∨
    step md5 fsz ((m.enc md5).take k) st = .stop st.failedRead := by
  cases k with
  | zero => left; simp [step]
  | succ k =>
    cases m with
    | tg body =>
      obtain ⟨h8, hs, h63, hck, hseen⟩ := h
      right
      simp only [Msg.enc, encTG, List.take_succ_cons, step, if_true]
      simp only [Msg.enc, encTG, List.length_cons, List.length_append, leInt_length, hck] at hk
      have hL : leDecodeInt (leInt 8 (body.length : Int)) = body.length :=
        leDecodeInt_leInt _ _ (by simp; omega) (by simp; omega)
      generalize hq : (leInt 8 (body.length : Int) ++ (body ++ md5 (leInt 8 body.length ++ body))).take k = q
      have hql : q.length = k := by
        rw [← hq, List.length_take]; simp [leInt_length, hck]; omega
      have hshort : readTGData md5 fsz q = .short := by
        unfold readTGData
        by_cases c1 : q.length < tgLenBytes
        · simp only [c1, if_true]
        · simp only [c1, if_false]
          simp only [tgLenBytes] at c1
          have ht : q.take tgLenBytes = leInt 8 (body.length : Int) := by
            rw [← hq, List.take_take, Nat.min_eq_left (by simp only [tgLenBytes]; omega)]
            exact List.take_left' (leInt_length 8 _)
          have hdl : (q.drop tgLenBytes).length = k - 8 := by simp [tgLenBytes, hql]
          simp only [ht, hL, Int.toNat_natCast]
          have c2 : ¬ ¬ (body.length : Int) < safetyFactor * fsz := by omega
          have c3 : ¬ (body.length : Int) < 0 := by omega
          simp only [c2, c3, if_false]
          by_cases c4 : (q.drop tgLenBytes).length < body.length
          · simp only [c4, if_true]
          · simp only [c4, if_false]
            have c5 : ¬ body.length < tgIDBytes - 1 := by simp [tgIDBytes]; omega
            simp only [c5, if_false]
            have c6 : ((q.drop tgLenBytes).drop body.length).length < checkSumBytes := by
              simp only [List.length_drop, checkSumBytes, tgLenBytes, hql]; omega
            simp only [c6, if_true]
      rw [hshort]
    | info buf =>
      left
      have hl : buf.length = 10 := h
      have hne : midTXNINFO ≠ midTGDATA := by decide
      simp only [Msg.enc, List.take_succ_cons, step, hne, if_false, if_true]
      simp only [Msg.enc, List.length_cons, hl] at hk
      have c1 : (buf.take k).length < txnInfoBytes := by simp [txnInfoBytes, hl]; omega
      simp only [c1, if_true]

def encAll (ms : List Msg) : Bytes := (ms.map (Msg.enc md5)).flatten

/-- every message is well formed with respect to the ids seen before it -/
def AllOk (fsz : Nat) : St → List Msg → Prop
  | _, [] => True
  | st, m :: ms => m.ok md5 fsz st ∧ AllOk fsz (upd st m) ms

/-- the messages that lie completely within the first `k` bytes -/
def complete : List Msg → Nat → List Msg
  | [], _ => []
  | m :: ms, k => if (m.enc md5).length ≤ k then m :: complete ms (k - (m.enc md5).length) else []

theorem enc_pos (m : Msg) : 1 ≤ (m.enc md5).length := by
  cases m <;> simp [Msg.enc, encTG]

/-- **truncation**: scanning the first `k` bytes of a well-formed message sequence ends normally in
exactly the state produced by the messages that are complete within those `k` bytes (plus the
`tgData[0] = nil` artefact when the cut falls inside a group record) -/
theorem scan_truncated (fsz : Nat) : ∀ (ms : List Msg) (k : Nat) (st : St) (fuel : Nat),
    AllOk md5 fsz st ms → k < fuel →
    scanLoop md5 fsz fuel ((encAll md5 ms).take k) st = .done ((complete md5 ms k).foldl upd st) ∨
    scanLoop md5 fsz fuel ((encAll md5 ms).take k) st = .done ((complete md5 ms k).foldl upd st).failedRead := by
  intro ms
  induction ms with
  | nil =>
    intro k st fuel _ hf
    left
    cases fuel with
    | zero => omega
    | succ n => simp [encAll, complete, scanLoop, step]
  | cons m ms ih =>
    intro k st fuel hok hf
    obtain ⟨hm, hrest⟩ := hok
    cases fuel with
    | zero => omega
    | succ n =>
      have hpos := enc_pos md5 m
      by_cases hle : (m.enc md5).length ≤ k
      · have e : (encAll md5 (m :: ms)).take k = m.enc md5 ++ (encAll md5 ms).take (k - (m.enc md5).length) := by
          simp only [encAll, List.map_cons, List.flatten_cons]
          rw [List.take_append, List.take_of_length_le hle]
        rw [e]
        unfold scanLoop
        rw [step_msg md5 fsz m _ st hm]
        simp only [complete, hle, if_true, List.foldl_cons]
        exact ih _ _ n hrest (by omega)
      · have e : (encAll md5 (m :: ms)).take k = (m.enc md5).take k := by
          simp only [encAll, List.map_cons, List.flatten_cons]
          rw [List.take_append_of_le_length (by omega)]
        rw [e]
        unfold scanLoop
        simp only [complete, hle, if_false, List.foldl_nil]
        rcases step_cut md5 fsz m k st hm (by omega) with h | h
        · left; rw [h]
        · right; rw [h]

end Mkts.WalReplay
