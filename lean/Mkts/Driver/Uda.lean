import Mkts.Proto
import Mkts.Model.Uda
/-! Driver ops for the aggregate model (C23): `aggv` (count/min/max/avg) and `gap`. -/
namespace Mkts.Driver.Uda
open Mkts.Proto Mkts.Float Mkts.Uda

def parseColType : String → Option (Option ColType)
  | "f32" => some (some .f32) | "f64" => some (some .f64) | "int" => some (some .int)
  | "i64" => some (some .i64) | "i32" => some (some .i32) | "i16" => some (some .i16)
  | "i8" => some (some .i8) | "u8" => some (some .u8) | "u16" => some (some .u16)
  | "u32" => some (some .u32) | "u64" => some (some .u64) | "bool" => some (some .other)
  | "none" => some none
  | _ => none

/-- `b1;b2;…`, each `v,v,…` or `-` -/
def parseBatches (s : String) : Option (List (List Int)) := (s.splitOn ";").mapM parseIntList

/-- protocol decoding: float bit patterns may arrive as negative (two's complement) decimals -/
def normVals (ty : Option ColType) (vs : List Int) : List Int :=
  match ty with
  | some .f64 => vs.map (· % 2 ^ 64)
  | some .f32 => vs.map (· % 2 ^ 32)
  | _ => vs

def mkBatch (ty : Option ColType) (vs : List Int) : Batch :=
  { len := vs.length, col := ty.map (fun t => ⟨t, vs⟩) }

def joinOut (l : List String) : String := "ok " ++ ";".intercalate l

def showRes {ο : Type} (sh : ο → String) : Except String (List ο) → String
  | .error e => e
  | .ok os => joinOut (os.map sh)

/-- all non-empty prefixes' concatenations: `[b1, b1++b2, …]` -/
def prefixes : List Int → List (List Int) → List (List Int)
  | _, [] => []
  | acc, b :: bs => (acc ++ b) :: prefixes (acc ++ b) bs

/-! ### the abstract specification (independent of the accumulator model) -/

def specMin (xs : List Nat) : Option Nat :=
  match xs with
  | [] => none
  | x :: t => some (t.foldl (fun m y => if key b32 y < key b32 m then y else m) x)

def specMax (xs : List Nat) : Option Nat :=
  match xs with
  | [] => none
  | x :: t => some (t.foldl (fun m y => if key b32 m < key b32 y then y else m) x)

/-- mean = (left fold of float64 `+` over the single-precision images) / count -/
def specAvg (xs : List Nat) : Nat :=
  div b64 (xs.foldl (fun s x => add b64 s (convert b32 b64 x)) 0) (ofInt b64 xs.length)

def showF (f : Fmt) (b : Nat) : String := toString (canon f b)

/-- `aggv fn mode colty batches` -/
def aggvOp : Op := fun args =>
  match args with
  | [fn, _mode, tys, bss] =>
    match parseColType tys, parseBatches bss with
    | some ty, some bs0 =>
      let bs := bs0.map (normVals ty)
      let batches := bs.map (mkBatch ty)
      let pre := prefixes [] bs
      let firstNonEmpty := match bs with | b :: _ => !b.isEmpty | [] => false
      -- no `_partial` hypothesis is left for these ops: every numeric type is in the specification
      let h := "\tH:"
      match fn with
      | "count" =>
        let m := showRes (fun (i : Int) => toString i) (runAgg countAccum id countNew batches)
        let s := joinOut (pre.map (fun p => toString p.length))
        s!"M:{m}\tS:{s}{h}"
      | "min" | "max" =>
        let isMin := fn == "min"
        let m := showRes (fun (s : MinMax) => showF b32 s.v)
          (runAgg (if isMin then minAccum else maxAccum) id minMaxNew batches)
        match ty.filter ColType.numeric with
        | some t =>
          let imgs := pre.map (fun p => p.map (toF32 t))
          let anyNaN := imgs.any (fun p => p.any (isNaN b32))
          if firstNonEmpty && !anyNaN then
            let s := joinOut (imgs.map (fun p =>
              match (if isMin then specMin p else specMax p) with | some v => showF b32 v | none => "?"))
            s!"M:{m}\tS:{s}{h}"
          else s!"M:{m}{h}"
        | none => s!"M:{m}{h}"
      | "avg" =>
        let m := showRes (fun (s : Avg) => showF b64 (avgOutput s)) (runAgg avgAccum id avgNew batches)
        match ty.filter ColType.numeric with
        | some t =>
          if firstNonEmpty then
            let s := joinOut (pre.map (fun p => showF b64 (specAvg (p.map (toF32 t)))))
            s!"M:{m}\tS:{s}{h}"
          else s!"M:{m}{h}"
        | none => s!"M:{m}{h}"
      | _ => badArgs
    | _, _ => badArgs
  | _ => badArgs

def showGaps (l : List (Int × Int × Int)) : String :=
  if l.isEmpty then "-" else ",".intercalate (l.map fun (a, b, d) => s!"{a}:{b}:{d}")

/-- the property's own reading: consecutive pairs whose (integer) time difference exceeds the threshold -/
def specGaps (thr : Int) : List Int → List (Int × Int × Int)
  | a :: b :: rest => (if b - a > thr then [(a, b, b - a)] else []) ++ specGaps thr (b :: rest)
  | _ => []

/-- `gap mode thrstr colty batches` -/
def gapOp : Op := fun args =>
  match args with
  | [_mode, thrs, tys, bss] =>
    match candleDurationSeconds thrs, parseColType tys, parseBatches bss with
    | some thr, some ty, some bs0 =>
      let bs := bs0.map (normVals ty)
      let m := showRes showGaps (runGap thr (bs.map (mkBatch ty)))
      match ty, bs with
      | some .i64, [b] =>
        if b.all (fun e => decide (e.natAbs ≤ 2 ^ 52)) then
          s!"M:{m}\tS:{joinOut [showGaps (specGaps thr b)]}\tH:"
        else s!"M:{m}\tH:"
      | _, _ => s!"M:{m}\tH:"
    | _, _, _ => badArgs
  | _ => badArgs

def ops : OpTable := [("aggv", aggvOp), ("gap", gapOp)]

end Mkts.Driver.Uda
