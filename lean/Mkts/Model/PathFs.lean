import Mkts.Model.Path
import Mkts.Model.Timeframe
import Mkts.Extracted.Skeletons
import Mkts.Model.CatalogTie
/-!
# Requests against a directory tree: `catalog.AddTimeBucket`, `RemoveTimeBucket`, `load`,
`frontend.Create/Write/Destroy`, `executor.WriteCSM` (lookup, auto-create, new-year file) — the part
that decides WHICH files and directories a request creates, writes or removes (C16).

The file system is a set of directories and a map of regular files, both keyed by absolute clean
component paths (`[]` is the top of the observed tree).  Path resolution follows the kernel's
walk: a component below a regular file gives ENOTDIR, an over-long name ENAMETOOLONG, a NUL byte is
refused by Go before the system call.  `fileExists` of catalog.go treats every error other than
ENOENT as "exists", and so does the model.

Every path that the model mutates is produced by `Mkts.Path.joinItem` / `joinKey` — the same
functions the theorems of `Props/C16` speak about.
-/
namespace Mkts.PathFs
open Mkts.Path

structure FS where
  dirs : List Path
  files : List (Path × Str)
deriving Repr

inductive St where
  | dir | file (c : Str) | enoent | err
deriving Repr, DecidableEq

def FS.isDir (fs : FS) (p : Path) : Bool := p == [] || fs.dirs.contains p
def FS.file? (fs : FS) (p : Path) : Option Str := (fs.files.find? (fun e => e.1 == p)).map (·.2)

def hasNul (p : Path) : Bool := p.any (fun c => c.contains 0)

def statGo (fs : FS) (cur : Path) : List Str → St
  | [] => if fs.isDir cur then .dir else match fs.file? cur with | some c => .file c | none => .enoent
  | c :: rest =>
    if !fs.isDir cur then (if (fs.file? cur).isSome then .err else .enoent)
    else if c.length > 255 then .err
    else statGo fs (cur ++ [c]) rest

/-- `os.Stat` (`lstat`, no symlinks here) -/
def FS.stat (fs : FS) (p : Path) : St := if hasNul p then .err else statGo fs [] p

/-- `fileExists` of catalog.go: only ENOENT counts as absent -/
def FS.exists (fs : FS) (p : Path) : Bool := fs.stat p != .enoent

def parent (p : Path) : Path := p.dropLast

def FS.mkdir (fs : FS) (p : Path) : Option FS :=
  if fs.stat p == .enoent && fs.stat (parent p) == .dir && p != [] then some { fs with dirs := fs.dirs ++ [p] } else none

/-- `OpenFile(O_CREATE|O_TRUNC)` + write + close -/
def FS.writeFile (fs : FS) (p : Path) (c : Str) : Option FS :=
  match fs.stat p with
  | .enoent => if fs.stat (parent p) == .dir && p != [] then some { fs with files := fs.files ++ [(p, c)] } else none
  | .file _ => some { fs with files := fs.files.map (fun e => if e.1 == p then (p, c) else e) }
  | _ => none

def isPrefixOf (a b : Path) : Bool := a.length ≤ b.length && b.take a.length == a

/-- `os.RemoveAll` of an existing directory (the catalog only holds paths read from disk) -/
def FS.removeAll (fs : FS) (p : Path) : FS :=
  if p == [] then fs else
  { dirs := fs.dirs.filter (fun d => !isPrefixOf p d), files := fs.files.filter (fun e => !isPrefixOf p e.1) }

def FS.childDirs (fs : FS) (p : Path) : List Str :=
  (fs.dirs.filter (fun d => d.length == p.length + 1 && isPrefixOf p d)).filterMap (·.getLast?)

def FS.childFiles (fs : FS) (p : Path) : List Str :=
  (fs.files.filter (fun e => e.1.length == p.length + 1 && isPrefixOf p e.1)).filterMap (·.1.getLast?)

def binExt : Str := ".bin".toUTF8.toList

/-- `filepath.Ext(name) == ".bin"` and the year `Atoi(name[:len-4])` (`none` = Atoi error) -/
def yearOfBin (name : Str) : Option (Option Nat) :=
  if name.length ≥ 4 && name.drop (name.length - 4) == binExt then
    some (String.fromUTF8? (ByteArray.mk (name.take (name.length - 4)).toArray) >>= (·.toNat?))
  else none

def FS.years (fs : FS) (p : Path) : List Nat :=
  (fs.childFiles p).filterMap (fun n => (yearOfBin n).join)

/-! ## catalog -/

/-- the `subDirs` tree, flat: item-name path from the root ↦ `pathToItemName`; `dmap` = keys of
    `directMap` (directories owning year files). -/
structure Cat where
  nodes : List (List Str × Path)
  dmap : List Path
deriving Repr

def metadataDb : Str := "metadata.db".toUTF8.toList

/-- `load` below directory `p` whose own name path is `np`; `none` = non-category error
    (a `.bin` file whose name is not a number).  Fuel = remaining depth. -/
def loadSub (fs : FS) : Nat → List Str → Path → Option (List (List Str × Path) × List Path)
  | 0, _, _ => some ([], [])
  | fuel + 1, np, p =>
    -- category_name unreadable ⇒ ErrCategoryFileNotFound: this node stays, without children
    match fs.file? (p ++ [catName]) with
    | none => some ([], [])
    | some _ =>
      let bins := (fs.childFiles p).filterMap yearOfBin
      if bins.any (·.isNone) then none else
      let own : List Path := if bins.isEmpty then [] else [p]
      ((fs.childDirs p).filter (· != metadataDb)).foldl (fun acc name =>
        match acc, loadSub fs fuel (np ++ [name]) (p ++ [name]) with
        | some (ns, dm), some (ns', dm') => some (ns ++ [(np ++ [name], p ++ [name])] ++ ns', dm ++ dm')
        | _, _ => none) (some ([], own))

def Cat.find (c : Cat) (np : List Str) : Option Path := (c.nodes.find? (fun e => e.1 == np)).map (·.2)

def Cat.hasSubDirs (c : Cat) (np : List Str) : Bool :=
  c.nodes.any (fun e => e.1.length == np.length + 1 && isPrefixOf np e.1)

/-- `removeSubDir`: the entry (with everything below it) leaves the tree, its path leaves directMap -/
def Cat.removeSub (c : Cat) (np : List Str) : Cat :=
  match c.find np with
  | none => c
  | some p => { c with nodes := c.nodes.filter (fun e => !isPrefixOf np e.1), dmap := c.dmap.filter (· != p) }

/-! ## which key validation the CURRENT source performs (read off the regenerated skeletons) -/

def hasSub : List String → List String → Bool
  | [], pat => pat.isEmpty
  | a :: l, pat => pat.isPrefixOf (a :: l) || hasSub l pat

/-- `if err = tbk.Validate(); err != nil { return err }` -/
def validateCall : List String := ["call:tbk.Validate", "if:err != nil{", "return", "}"]

/-- atoms with an effect on the directory tree or the catalog -/
def fsAtoms : List String :=
  ["call:filepath.Join", "call:os.Mkdir", "call:writeCategoryNameFile", "call:newTimeBucketInfoFromTemplate",
   "call:NewDirectory", "call:d.addSubdir", "call:removeDirFiles", "call:tree[i].removeSubDir", "call:d.removeSubDir"]

/-- the function calls `tbk.Validate()`, returns on its error, and does so before any effect -/
def validatesFirst (sk : List String) : Bool :=
  hasSub sk validateCall && (sk.takeWhile (· != "call:tbk.Validate")).all (fun a => !fsAtoms.contains a)

/-- `TimeBucketKey.Validate` as repaired: every item is tested for "", ".", "..", separator, NUL -/
def expValidate : List String :=
  ["call:mk.GetItems", "range:mk.GetItems(){", "call:strings.ContainsRune", "call:strings.ContainsRune",
   "if:item == \"\" || item == \".\" || item == \"..\" || strings.ContainsRune(item, filepath.Separator) || strings.ContainsRune(item, 0){",
   "call:mk.GetItemKey", "call:fmt.Errorf", "return", "}", "}", "return"]

/-- does the CURRENT source refuse keys with unsafe items in `AddTimeBucket` / `RemoveTimeBucket`?
    (`false` = the code before the repair of C16-F10: keys go to the file system unchecked) -/
def addValidates : Bool :=
  validatesFirst Mkts.Extracted.Skel.catalog_Directory_AddTimeBucket &&
  Mkts.Extracted.Skel.utils_io_TimeBucketKey_Validate == expValidate

def removeValidates : Bool :=
  validatesFirst Mkts.Extracted.Skel.catalog_Directory_RemoveTimeBucket &&
  Mkts.Extracted.Skel.utils_io_TimeBucketKey_Validate == expValidate

/-! ## requests -/

inductive Res where
  | ok | exists_ | timeframe | keyformat | catmismatch | nokey | other | panicIndex
deriving Repr, DecidableEq

def Res.show : Res → String
  | .ok => "ok" | .exists_ => "err:exists" | .timeframe => "err:timeframe" | .keyformat => "err:keyformat"
  | .catmismatch => "err:catmismatch" | .nokey => "err:nokey" | .other => "err:other" | .panicIndex => "panic:index"

def strOf (s : Str) : List Char := s.map (fun b => Char.ofNat b.toNat)

/-- `GetTimeFrame`: item at the position of category "Timeframe" -/
def getTimeFrame (k : Key) : Except Res Int :=
  match k.cats.findIdx? (· == timeframeCat) with
  | none => .error .timeframe
  | some i =>
    match k.items[i]? with
    | none => .error .panicIndex
    | some item =>
      if item == [] then .error .timeframe else
      match Mkts.Timeframe.timeframeFromString (strOf item) with
      | none => .error .timeframe
      | some d => .ok d

def yearTag : Str := "Y".toUTF8.toList

/-- `writeCategoryNameFile(catName, dir)` -/
def writeCategoryNameFile (fs : FS) (cat : Str) (dir : Path) : Except Res FS :=
  let f := dir ++ [catName]
  if fs.exists f then
    match fs.stat f with
    | .file c => if c == cat then .ok fs else .error .catmismatch
    | _ => .error .other
  else match fs.writeFile f cat with
    | some fs' => .ok fs'
    | none => .error .other

/-- the loop of `AddTimeBucket`; a failing request keeps what it has made so far -/
def addLoop (cats : List Str) : FS → Path → List Str → Nat → FS × Except Res Path
  | fs, dirname, [], _ => (fs, .ok dirname)
  | fs, dirname, item :: rest, i =>
    let sub := joinItem dirname item
    match (if fs.exists sub then some fs else fs.mkdir sub) with
    | none => (fs, .error .other)
    | some fs1 =>
      match cats[i]? with
      | none => (fs1, .error .panicIndex)
      | some cat =>
        match writeCategoryNameFile fs1 cat dirname with
        | .error e => (fs1, .error e)
        | .ok fs2 => addLoop cats fs2 sub rest (i + 1)

def yearCat : Str := "Year".toUTF8.toList

/-- `addSubdir(child, name)` after `NewDirectory(childPath)` -/
def Cat.addSubdir (c : Cat) (name : Str) (childPath : Path) (sub : List (List Str × Path) × List Path) : Cat :=
  { nodes := c.nodes.filter (fun e => !isPrefixOf [name] e.1) ++ [([name], childPath)] ++ sub.1,
    dmap := c.dmap.filter (fun p => !sub.2.contains p) ++ sub.2 }

/-- `Directory.AddTimeBucket(tbk, tbinfo)` with `tbinfo.Path = Join(GetPathToYearFiles(root), <year>.bin)` -/
def addTimeBucket (root : Path) (fs : FS) (cat : Cat) (k : Key) (year : Nat) : FS × Cat × Res :=
  let items := k.items
  if addValidates && !allSafe items then (fs, cat, .other) else
  -- `fix: AddTimeBucket checks the key before it creates directories` (C17-F2): a key whose item
  -- count differs from its category count is refused before anything is created (it used to run
  -- into an index panic after making directories); read off the regenerated skeleton
  if Mkts.CatalogTie.checkFirstInCode && k.cats.length != items.length then (fs, cat, .other) else
  match addLoop k.cats fs root items 0 with
  | (fs1, .error e) => (fs1, cat, e)
  | (fs1, .ok dirname) =>
    match writeCategoryNameFile fs1 yearCat dirname with
    | .error e => (fs1, cat, e)
    | .ok fs2 =>
      let yf := joinKey root items ++ [yearFile year]
      match fs2.stat yf with
      | .dir => (fs2, cat, .exists_)
      | .file _ => (fs2, cat, .exists_)
      | _ =>
        -- temporary file + header + truncate + rename, collapsed
        match fs2.writeFile yf yearTag with
        | none => (fs2, cat, .other)
        | some fs3 =>
          let name := items.headD []
          let childPath := joinItem root name
          match fs3.file? (childPath ++ [catName]), loadSub fs3 16 [name] childPath with
          | some _, some sub => (fs3, cat.addSubdir name childPath sub, .ok)
          | _, _ => (fs3, cat, .other)

/-- `frontend.Create` for one request: the key must be `item:cat` -/
def create (root : Path) (fs : FS) (cat : Cat) (key : Str) (nowYear : Nat) : FS × Cat × Res :=
  match splitOn colon key with
  | [a, b] =>
    let k := newTimeBucketKey a b
    match getTimeFrame k with
    | .error e => (fs, cat, e)
    | .ok _ => addTimeBucket root fs cat k nowYear
  | _ => (fs, cat, .keyformat)

def lexLt : Str → Str → Bool
  | [], [] => false
  | [], _ :: _ => true
  | _ :: _, [] => false
  | a :: as, b :: bs => a < b || (a == b && lexLt as bs)

/-- does the `Directory` object of `p` still have its `datafile` map after `load`?  (`load` resets
    it at every sub-directory entry, in `ReadDir` = byte order) -/
def datafileAlive (fs : FS) (p : Path) : Bool :=
  let dirs := (fs.childDirs p).filter (· != metadataDb)
  (fs.childFiles p).any (fun b => (yearOfBin b).isSome && dirs.all (fun d => lexLt d b))

def writeMark : UInt8 := 87

/-- the primary write of the flushed row: the file is opened by path and overwritten in place -/
def FS.touchFile (fs : FS) (p : Path) : Option FS :=
  match fs.stat p with
  | .file c => fs.writeFile p (c ++ [writeMark])
  | _ => none

/-- `frontend.Write` of one bucket with one row dated in `year` (`WriteCSM`: lookup, auto-create,
    new-year file, queue, flush) -/
def write (root : Path) (fs : FS) (cat : Cat) (key : Str) (year : Nat) : FS × Cat × Res :=
  let k := newTimeBucketKeyFromString key
  match getTimeFrame k with
  | .error e => (fs, cat, e)
  | .ok _ =>
    let dirp := joinKey root k.items
    let years := fs.years dirp
    if cat.dmap.contains dirp && datafileAlive fs dirp && !years.isEmpty then
      let latest := years.foldl max 0
      let yf := dirp ++ [yearFile year]
      let fs1 := if year == latest || fs.exists yf then some fs else fs.writeFile yf yearTag
      match fs1 with
      | none => (fs, cat, .other)
      | some fs1 =>
        match fs1.touchFile yf with
        | some fs2 => (fs2, cat, .ok)
        | none => (fs1, cat, .ok)
    else
      match addTimeBucket root fs cat k year with
      | (fs1, cat1, .ok) =>
        (match fs1.touchFile (dirp ++ [yearFile year]) with | some fs2 => (fs2, cat1, .ok) | none => (fs1, cat1, .ok))
      | (fs1, cat1, .exists_) =>
        (match fs1.touchFile (dirp ++ [yearFile year]) with | some fs2 => (fs2, cat1, .ok) | none => (fs1, cat1, .ok))
      | (fs1, cat1, .panicIndex) => (fs1, cat1, .panicIndex)
      | (fs1, cat1, _) => (fs1, cat1, .other)

/-- `tree[i]` of `RemoveTimeBucket`: the directory objects along the item names -/
def treeOf (cat : Cat) : List Str → List Str → Option (List (List Str × Path))
  | _, [] => some []
  | np, item :: rest =>
    match cat.find (np ++ [item]) with
    | none => none
    | some p => (treeOf cat (np ++ [item]) rest).map (fun t => (np ++ [item], p) :: t)

/-- `frontend.Destroy` → `RemoveTimeBucket` -/
def destroy (_root : Path) (fs : FS) (cat : Cat) (key : Str) : FS × Cat × Res :=
  let parts := splitOn colon key
  let k := newTimeBucketKey (parts.headD []) ((parts.drop 1).headD [])
  if removeValidates && !allSafe k.items then (fs, cat, .nokey) else
  match treeOf cat [] k.items with
  | none => (fs, cat, .nokey)
  | some tree =>
    match tree.reverse with
    | [] => (fs, cat, .ok)
    | leaf :: up =>
      -- leaf level
      let fs1 := fs.removeAll leaf.2
      let (fs2, cat2, del0) := removeLoopUp fs1 cat up (some leaf.1)
      match tree.head? with
      | some top => if del0 then (fs2.removeAll top.2, cat2.removeSub top.1, .ok) else (fs2, cat2, .ok)
      | none => (fs2, cat2, .ok)
where
  /-- levels above the leaf: `below` = name path of the level below if it was deleted -/
  removeLoopUp : FS → Cat → List (List Str × Path) → Option (List Str) → FS × Cat × Bool
    | fs, cat, [], below => (fs, cat, below.isSome)
    | fs, cat, (np, p) :: up, below =>
      let cat1 := match below with
        | some b => cat.removeSub b
        | none => cat
      if !cat1.hasSubDirs np then removeLoopUp (fs.removeAll p) cat1 up (some np)
      else removeLoopUp fs cat1 up none

end Mkts.PathFs
