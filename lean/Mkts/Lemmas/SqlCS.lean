import Mkts.Lemmas.Sql
/-!
ColumnSeries algebra for C20: `csOfRows`, `RestrictLength`, `Project`, the post-filter with an
empty predicate group, and the store-level effect of INSERT INTO.
-/
namespace Mkts.Sql
open Mkts.Store Mkts.Time Mkts.Bytes

theorem restrictLength_csOfRows (cols : List ColDef) (rows : List Row) (n : Nat) :
    (csOfRows cols rows).restrictLength n = csOfRows cols (rows.take n) := by
  simp [CS.restrictLength, csOfRows, List.map_take, Function.comp]

theorem postFilter_nil (cols : List ColDef) (rows : List Row) : postFilter cols [] rows = rows := by
  have h : ∀ sp, Group.get [] "Epoch" = some sp → sp.EpochStable := by intro sp h; simp [Group.get] at h
  rw [postFilter_eq_filter cols [] rows h]
  apply List.filter_eq_self.mpr
  intro r _
  simp [keepRow, keepCols, Group.get]

theorem applyHist_snoc (tf : Int) (hist : List (List Row)) (req : List Row) :
    applyCmds (applyHist tf hist) (writeRecords tf req) = applyHist tf (hist ++ [req]) := by
  simp [applyHist, List.foldl_append]

/-! ### Project -/

theorem project_names (cs : CS) (keep : List String) (h : ∀ n ∈ keep, (cs.get n).isSome) :
    (cs.project keep).names = keep := by
  simp only [CS.project]
  apply List.filter_eq_self.mpr
  intro n hn
  exact h n hn

theorem find?_filterMap_of_mem (f : String → Option (List Bytes)) (l : List String) (n : String)
    (hn : n ∈ l) (d : List Bytes) (hd : f n = some d) :
    (l.filterMap (fun m => (f m).map (fun x => (m, x)))).find? (fun e => e.1 == n) = some (n, d) := by
  induction l with
  | nil => cases hn
  | cons a t ih =>
    by_cases ha : a = n
    · subst ha
      simp [List.filterMap_cons, hd]
    · have hnt : n ∈ t := by
        rcases List.mem_cons.mp hn with h | h
        · exact absurd h.symm ha
        · exact h
      have hab : (a == n) = false := by simpa using ha
      cases hga : f a with
      | none => simp only [List.filterMap_cons, hga, Option.map_none]; exact ih hnt
      | some da =>
        simp only [List.filterMap_cons, hga, Option.map_some, List.find?_cons, hab]
        exact ih hnt

/-- projection keeps, for every requested column, exactly that column's data -/
theorem project_get (cs : CS) (keep : List String) (n : String) (hn : n ∈ keep) (d : List Bytes)
    (hd : cs.get n = some d) : (cs.project keep).get n = some d := by
  have hmem : n ∈ (keep.filter (fun n => (cs.get n).isSome)).eraseDups := by
    rw [List.mem_eraseDups]
    exact List.mem_filter.mpr ⟨hn, by simp [hd]⟩
  have := find?_filterMap_of_mem cs.get _ n hmem d hd
  simp only [CS.project, CS.get] at this ⊢
  rw [this]
  rfl

end Mkts.Sql
