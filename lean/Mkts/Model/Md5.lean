import Mkts.Model.Bytes
/-!
# MD5 (RFC 1321), executable, for the driver only.  The WAL theorems treat the checksum function as
an arbitrary parameter `md5 : Bytes → Bytes`; this implementation is what the driver passes for it
and is cross-checked against Go's crypto/md5 by the op `md5`.  Core Lean only.
-/
namespace Mkts.Md5
open Mkts.Bytes

def kTable : Array UInt32 := #[0xd76aa478, 0xe8c7b756, 0x242070db, 0xc1bdceee, 0xf57c0faf, 0x4787c62a, 0xa8304613, 0xfd469501, 0x698098d8, 0x8b44f7af, 0xffff5bb1, 0x895cd7be, 0x6b901122, 0xfd987193, 0xa679438e, 0x49b40821, 0xf61e2562, 0xc040b340, 0x265e5a51, 0xe9b6c7aa, 0xd62f105d, 0x02441453, 0xd8a1e681, 0xe7d3fbc8, 0x21e1cde6, 0xc33707d6, 0xf4d50d87, 0x455a14ed, 0xa9e3e905, 0xfcefa3f8, 0x676f02d9, 0x8d2a4c8a, 0xfffa3942, 0x8771f681, 0x6d9d6122, 0xfde5380c, 0xa4beea44, 0x4bdecfa9, 0xf6bb4b60, 0xbebfbc70, 0x289b7ec6, 0xeaa127fa, 0xd4ef3085, 0x04881d05, 0xd9d4d039, 0xe6db99e5, 0x1fa27cf8, 0xc4ac5665, 0xf4292244, 0x432aff97, 0xab9423a7, 0xfc93a039, 0x655b59c3, 0x8f0ccc92, 0xffeff47d, 0x85845dd1, 0x6fa87e4f, 0xfe2ce6e0, 0xa3014314, 0x4e0811a1, 0xf7537e82, 0xbd3af235, 0x2ad7d2bb, 0xeb86d391]
def sTable : Array UInt32 := #[7, 12, 17, 22, 7, 12, 17, 22, 7, 12, 17, 22, 7, 12, 17, 22, 5, 9, 14, 20, 5, 9, 14, 20, 5, 9, 14, 20, 5, 9, 14, 20, 4, 11, 16, 23, 4, 11, 16, 23, 4, 11, 16, 23, 4, 11, 16, 23, 6, 10, 15, 21, 6, 10, 15, 21, 6, 10, 15, 21, 6, 10, 15, 21]

def rotl (x s : UInt32) : UInt32 := (x <<< s) ||| (x >>> (32 - s))

def u32le (b : Bytes) : UInt32 :=
  match b with
  | b0 :: b1 :: b2 :: b3 :: _ =>
    b0.toUInt32 ||| (b1.toUInt32 <<< 8) ||| (b2.toUInt32 <<< 16) ||| (b3.toUInt32 <<< 24)
  | _ => 0

def u32bytes (x : UInt32) : Bytes :=
  [x.toUInt8, (x >>> 8).toUInt8, (x >>> 16).toUInt8, (x >>> 24).toUInt8]

/-- sixteen little-endian words of a 64-byte chunk -/
def words : Nat → Bytes → List UInt32
  | 0, _ => []
  | n + 1, b => u32le b :: words n (b.drop 4)

structure St where
  a : UInt32
  b : UInt32
  c : UInt32
  d : UInt32

def round (m : Array UInt32) (s : St) (i : Nat) : St :=
  let (f, g) :=
    if i < 16 then ((s.b &&& s.c) ||| (~~~ s.b &&& s.d), i)
    else if i < 32 then ((s.d &&& s.b) ||| (~~~ s.d &&& s.c), (5 * i + 1) % 16)
    else if i < 48 then (s.b ^^^ s.c ^^^ s.d, (3 * i + 5) % 16)
    else (s.c ^^^ (s.b ||| ~~~ s.d), (7 * i) % 16)
  let f := f + s.a + kTable[i]! + m[g]!
  { a := s.d, d := s.c, c := s.b, b := s.b + rotl f sTable[i]! }

def chunk (h : St) (blk : Bytes) : St :=
  let m := (words 16 blk).toArray
  let r := (List.range 64).foldl (round m) h
  { a := h.a + r.a, b := h.b + r.b, c := h.c + r.c, d := h.d + r.d }

def chunks : Nat → St → Bytes → St
  | 0, h, _ => h
  | n + 1, h, b => chunks n (chunk h (b.take 64)) (b.drop 64)

def pad (msg : Bytes) : Bytes :=
  let l := msg.length
  let z := (119 - l % 64) % 64
  msg ++ [0x80] ++ List.replicate z 0 ++ le 8 (8 * l)

def md5 (msg : Bytes) : Bytes :=
  let p := pad msg
  let h := chunks (p.length / 64) ⟨0x67452301, 0xefcdab89, 0x98badcfe, 0x10325476⟩ p
  u32bytes h.a ++ u32bytes h.b ++ u32bytes h.c ++ u32bytes h.d

end Mkts.Md5
