import Mkts.Extracted.Skeletons
/-!
Reading the generated effect skeletons (`Mkts.Extracted.Skel`, produced by go/factgen from the
Go source on every run): noise filter and the abstract effect kinds the WAL model is built from.
-/
namespace Mkts.Skel

/-- calls that carry no protocol effect (logging, formatting, hashing, metrics) -/
def noise : List String := [
  "call:fmt.Errorf", "call:fmt.Sprintf", "call:err.Error", "call:log.Error", "call:log.Info", "call:log.Warn",
  "call:log.Debug", "call:zap.Error", "call:zap.String", "call:zap.Int", "call:io.Serialize", "call:md5.New",
  "call:hash.Write", "call:hash.Sum", "call:io.GetCallerFileContext", "call:errors.New", "call:time.Since",
  "call:time.Since(start).Seconds", "call:metrics.WriteCSMDuration.Observe", "call:time.NewTicker",
  "call:errors.As", "call:errors.Is"]

def dropNoise (sk : List String) : List String := sk.filter (fun a => !noise.contains a)

/-- `pat` occurs as a contiguous block of `l` -/
def hasSub : List String → List String → Bool
  | [], pat => pat.isEmpty
  | a :: l, pat => pat.isPrefixOf (a :: l) || hasSub l pat

end Mkts.Skel
