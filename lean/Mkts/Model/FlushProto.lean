/-!
# The write/flush rendez-vous (executor/wal.go: RequestFlush, the flushChannel and timer arms of
SyncWAL; executor/writer.go: WriteCSM queues its commands and calls RequestFlush)

Small-step transition system.  Writers are threads that (1) queue their commands on the write
channel, (2) call `RequestFlush`: if `earlyReturn` is enabled (as in the code) and a flush request
is already queued they return at once, otherwise they queue a request and wait for its answer.
The WAL writer loop either takes a queued request or fires its timer; in both cases it snapshots
the write channel (`WTCount := len(writeChannel)`), makes that snapshot durable (WAL write, fsync,
primary write — `Mkts.WalProto`), and then answers the request if there was one.
Any interleaving of these atomic steps is a schedule.  Core Lean only.
-/
namespace Mkts.FlushProto

/-- a writer's program counter -/
inductive WPc where
  | start                 -- nothing done yet
  | queued                -- commands are on the write channel, RequestFlush not yet entered
  | waiting (req : Nat)   -- flush request `req` queued, blocked on its answer
  | returned              -- WriteCSM returned success to the client
deriving DecidableEq, Repr

/-- the writer loop -/
inductive LPc where
  | idle
  | flushing (snapshot : List Nat) (req : Option Nat)   -- between the snapshot and the fsync/answer
deriving DecidableEq, Repr

structure St where
  writers : List WPc            -- indexed by writer id; writer `w` writes the single command `w`
  queue : List Nat := []        -- write channel
  flushCh : List Nat := []      -- flush channel (request ids)
  loop : LPc := .idle
  durable : List Nat := []      -- commands fsynced to the WAL and applied
  nextReq : Nat := 0
deriving DecidableEq, Repr

inductive Step where
  | enqueue (w : Nat)       -- writer w puts its commands on the write channel
  | request (w : Nat)       -- writer w executes RequestFlush up to its blocking point / early return
  | take                    -- loop: `f := <-flushChannel` then snapshot of the write channel
  | timer                   -- loop: tickerWAL fires, snapshot of the write channel
  | finish                  -- loop: WAL written + fsynced + applied; answer the request
deriving DecidableEq, Repr

def setW (ws : List WPc) (w : Nat) (p : WPc) : List WPc := ws.set w p

/-- the loop answers request `req`: the writers blocked on it return -/
def answer (req : Option Nat) (p : WPc) : WPc :=
  match p, req with
  | .waiting r, some r' => if r = r' then .returned else p
  | _, _ => p

/-- one atomic step (`none` = not enabled) -/
def step (early : Bool) (s : St) : Step → Option St
  | .enqueue w =>
    if s.writers[w]? = some .start then
      some { s with writers := setW s.writers w .queued, queue := s.queue ++ [w] }
    else none
  | .request w =>
    if s.writers[w]? = some .queued then
      if early && !s.flushCh.isEmpty then
        -- "if there's already a queued flush, no need to queue another": return immediately
        some { s with writers := setW s.writers w .returned }
      else
        some { s with writers := setW s.writers w (.waiting s.nextReq), flushCh := s.flushCh ++ [s.nextReq],
                      nextReq := s.nextReq + 1 }
    else none
  | .take =>
    match s.loop, s.flushCh with
    | .idle, r :: rest => some { s with loop := .flushing s.queue (some r), queue := [], flushCh := rest }
    | _, _ => none
  | .timer =>
    match s.loop with
    | .idle => some { s with loop := .flushing s.queue none, queue := [] }
    | _ => none
  | .finish =>
    match s.loop with
    | .flushing snap req =>
      some { s with loop := .idle, durable := s.durable ++ snap,
                    writers := s.writers.map (answer req) }
    | .idle => none

def run (early : Bool) : St → List Step → Option St
  | s, [] => some s
  | s, st :: rest => match step early s st with | some s' => run early s' rest | none => none

def init (n : Nat) : St := { writers := List.replicate n .start }

/-- the property: a writer that has returned has its command durable -/
def ackSafe (s : St) : Prop := ∀ w, s.writers[w]? = some .returned → w ∈ s.durable

/-- executable form used by the driver -/
def ackSafeB (s : St) : Bool :=
  (List.range s.writers.length).all (fun w => s.writers[w]? != some .returned || s.durable.contains w)

end Mkts.FlushProto
