// Correspondence / oracle harness for the Lean model of marketstore.
//
// Every case is ONE line "<op> <args...>".  The same line is executed here against the real
// implementation (built from /repo's working tree) and by the Lean driver `mktsdrv` against the
// model; ./check diffs the two result streams.  Generators are seeded from VERIF_SEED only.
package main

import (
	"time"
	"bufio"
	"encoding/hex"
	"encoding/json"
	"fmt"
	"math/rand"
	"os"
	"os/exec"
	"path/filepath"
	"runtime"
	"runtime/debug"
	"sort"
	"strconv"
	"strings"
	"sync"
)

// OpFn executes one op line (arguments after the op name) against the implementation and
// returns the canonical result line.
type OpFn func(args []string) string

var ops = map[string]OpFn{}

// Gen is handed to a property's generator.
type Gen struct {
	R     *rand.Rand
	Tier  string
	lines []string
	tags  [][]string
}

func (g *Gen) Thorough() bool { return g.Tier == "thorough" }

// N picks a case count by tier.
func (g *Gen) N(quick, thorough int) int {
	if g.Thorough() {
		return thorough
	}
	return quick
}

// Emit records one case; tags feed the input-distribution histogram in the evidence.
func (g *Gen) Emit(line string, tags ...string) {
	g.lines = append(g.lines, line)
	g.tags = append(g.tags, tags)
}

func (g *Gen) Intn(n int) int { return g.R.Intn(n) }
func (g *Gen) Pick(xs ...int64) int64 { return xs[g.R.Intn(len(xs))] }
func (g *Gen) Bytes(n int) []byte {
	b := make([]byte, n)
	g.R.Read(b)
	return b
}

var gens = map[string]func(g *Gen){}

func hx(b []byte) string {
	if len(b) == 0 {
		return "-"
	}
	return hex.EncodeToString(b)
}

func unhx(s string) ([]byte, error) {
	if s == "-" || s == "" {
		return nil, nil
	}
	return hex.DecodeString(s)
}

func atoi(s string) int64 {
	v, err := strconv.ParseInt(s, 10, 64)
	if err != nil {
		panic("bad-int:" + s)
	}
	return v
}

func ints(s string) []int64 {
	if s == "-" || s == "" {
		return nil
	}
	var out []int64
	for _, p := range strings.Split(s, ",") {
		out = append(out, atoi(p))
	}
	return out
}

func showInts(xs []int64) string {
	if len(xs) == 0 {
		return "-"
	}
	ss := make([]string, len(xs))
	for i, x := range xs {
		ss[i] = strconv.FormatInt(x, 10)
	}
	return strings.Join(ss, ",")
}

// panicClass maps a recovered panic to a small stable enum (never the full message).
func panicClass(r interface{}) string {
	s := fmt.Sprint(r)
	switch {
	case strings.HasPrefix(s, "bad-int:"), strings.HasPrefix(s, "bad-arg"):
		return "harness:" + s
	case strings.Contains(s, "slice bounds out of range"):
		return "panic:slice"
	case strings.Contains(s, "index out of range"):
		return "panic:index"
	case strings.Contains(s, "nil pointer"), strings.Contains(s, "invalid memory address"):
		return "panic:nil"
	case strings.Contains(s, "makeslice"):
		return "panic:makeslice"
	case strings.Contains(s, "divide by zero"):
		return "panic:div0"
	case strings.Contains(s, "closed channel"):
		return "panic:closedchan"
	}
	return "panic:other"
}

var lastPanic string

// slowOps marks ops that are expensive and keep global state (an in-process server): their
// cases are sharded over worker processes (`harness exec`), results are re-assembled in order.
var slowOps = map[string]bool{}

func runAll(lines []string, workdir string) []string {
	impl := make([]string, len(lines))
	var slowIdx, fastIdx []int
	for i, l := range lines {
		if slowOps[strings.SplitN(l, " ", 2)[0]] {
			slowIdx = append(slowIdx, i)
		} else {
			fastIdx = append(fastIdx, i)
		}
	}
	workers := runtime.NumCPU() - 2
	if workers < 1 {
		workers = 1
	}
	// Every op runs in a worker process (`harness exec`): a fatal runtime error, an out-of-memory
	// kill or a hang in the code under test costs one op (reported as crash:… / hang:…), not the run.
	var wg sync.WaitGroup
	shard := func(name string, mine []int) {
		defer wg.Done()
		sub := make([]string, len(mine))
		for k, i := range mine {
			sub[k] = lines[i]
		}
		res := runShard(sub, workdir, name)
		for k, i := range mine {
			impl[i] = res[k]
		}
	}
	for w := 0; w < workers; w++ {
		var mine []int
		for k := w; k < len(slowIdx); k += workers {
			mine = append(mine, slowIdx[k])
		}
		if len(mine) > 0 {
			wg.Add(1)
			go shard(fmt.Sprintf("s%d", w), mine)
		}
	}
	// cheap ops: contiguous chunks keep process start-up negligible
	fw := workers
	if len(fastIdx) < 64 {
		fw = 1
	}
	for w := 0; w < fw; w++ {
		lo, hi := w*len(fastIdx)/fw, (w+1)*len(fastIdx)/fw
		if hi > lo {
			wg.Add(1)
			go shard(fmt.Sprintf("f%d", w), fastIdx[lo:hi])
		}
	}
	wg.Wait()
	return impl
}

// runShard executes the lines in a worker process; when the worker dies before it has answered
// every line, the first unanswered line is the one that killed it: it is reported as
// crash:process-died (or hang:timeout, written by the worker's watchdog) and a new worker
// continues with the rest.
func runShard(sub []string, workdir, name string) []string {
	in := filepath.Join(workdir, "shard-"+name+".ops")
	outf := filepath.Join(workdir, "shard-"+name+".out")
	wdir := filepath.Join(workdir, "w-"+name)
	var results []string
	rest := sub
	for len(rest) > 0 {
		writeLines(in, rest)
		os.Remove(outf)
		os.MkdirAll(wdir, 0o755)
		cmd := exec.Command(os.Args[0], "exec", in, outf)
		cmd.Env = append(os.Environ(), "VERIF_WORK="+wdir)
		err := cmd.Run()
		res := readLinesRaw(outf)
		if len(res) > len(rest) {
			res = res[:len(rest)]
		}
		results = append(results, res...)
		rest = rest[len(res):]
		if len(res) > 0 && res[len(res)-1] == "hang:timeout" {
			continue // the watchdog answered for the hanging line
		}
		if len(rest) > 0 {
			results = append(results, fmt.Sprintf("crash:process-died %s", crashClass(err)))
			rest = rest[1:]
		}
		os.RemoveAll(wdir)
	}
	os.Remove(in)
	os.Remove(outf)
	return results
}

func crashClass(err error) string {
	if err == nil {
		return "exit0"
	}
	if ee, ok := err.(*exec.ExitError); ok {
		if ee.ExitCode() == -1 {
			return "signal"
		}
		return fmt.Sprintf("exit%d", ee.ExitCode())
	}
	return "error"
}

func readLinesRaw(path string) []string {
	b, err := os.ReadFile(path)
	if err != nil {
		return nil
	}
	ls := strings.Split(string(b), "\n")
	if len(ls) > 0 && ls[len(ls)-1] == "" {
		ls = ls[:len(ls)-1]
	}
	return ls
}

func runOp(line string) (res string) {
	defer func() {
		if r := recover(); r != nil {
			lastPanic = fmt.Sprint(r) + "\n" + string(debug.Stack())
			res = panicClass(r)
		}
	}()
	parts := strings.Split(line, " ")
	f, ok := ops[parts[0]]
	if !ok {
		return "unknown-op " + parts[0]
	}
	return f(parts[1:])
}

func readLines(path string) []string {
	f, err := os.Open(path)
	if err != nil {
		return nil
	}
	defer f.Close()
	var out []string
	sc := bufio.NewScanner(f)
	sc.Buffer(make([]byte, 1<<20), 1<<28)
	for sc.Scan() {
		l := strings.TrimRight(sc.Text(), "\r\n")
		if l == "" || strings.HasPrefix(l, "#") {
			continue
		}
		out = append(out, l)
	}
	return out
}

func must(err error) {
	if err != nil {
		panic(err)
	}
}

func writeLines(path string, lines []string) {
	f, err := os.Create(path)
	must(err)
	w := bufio.NewWriterSize(f, 1<<20)
	for _, l := range lines {
		w.WriteString(l)
		w.WriteByte('\n')
	}
	must(w.Flush())
	must(f.Close())
}

// usage:
//   harness gen  <prop> <seed> <tier> <outdir> [corpus files...]   -> ops.txt impl.txt tags.json
//   harness exec <opsfile> <outfile>                                -> impl results for given op lines
func main() {
	if len(os.Args) < 2 {
		fmt.Fprintln(os.Stderr, "usage: harness gen|exec ...")
		os.Exit(2)
	}
	switch os.Args[1] {
	case "gen":
		prop, tier, out := os.Args[2], os.Args[4], os.Args[5]
		seed := atoi(os.Args[3])
		gen, ok := gens[prop]
		if !ok {
			fmt.Fprintln(os.Stderr, "no generator for", prop)
			os.Exit(2)
		}
		g := &Gen{R: rand.New(rand.NewSource(seed)), Tier: tier}
		for _, cf := range os.Args[6:] {
			for _, l := range readLines(cf) {
				g.Emit(l, "corpus:"+filepath.Base(cf))
			}
		}
		gen(g)
		impl := runAll(g.lines, out)
		hist := map[string]int{}
		for i, l := range g.lines {
			for _, t := range g.tags[i] {
				hist[t]++
			}
			hist["op:"+strings.SplitN(l, " ", 2)[0]]++
			cls := impl[i]
			if j := strings.IndexAny(cls, " \t"); j >= 0 {
				cls = cls[:j]
			}
			if strings.HasPrefix(cls, "err:") || strings.HasPrefix(cls, "panic:") || strings.HasPrefix(cls, "harness:") {
				hist["result:"+cls]++
			}
		}
		writeLines(filepath.Join(out, "ops.txt"), g.lines)
		writeLines(filepath.Join(out, "impl.txt"), impl)
		tagLines := make([]string, len(g.tags))
		for i, t := range g.tags {
			tagLines[i] = strings.Join(t, ",")
		}
		writeLines(filepath.Join(out, "tags.txt"), tagLines)
		keys := make([]string, 0, len(hist))
		for k := range hist {
			keys = append(keys, k)
		}
		sort.Strings(keys)
		b, _ := json.Marshal(map[string]interface{}{"cases": len(g.lines), "histogram": hist})
		must(os.WriteFile(filepath.Join(out, "stats.json"), b, 0o644))
	case "exec":
		lines := readLines(os.Args[2])
		f, err := os.Create(os.Args[3])
		must(err)
		opTimeout := 240 * time.Second
		if v := os.Getenv("VERIF_OP_TIMEOUT_S"); v != "" {
			opTimeout = time.Duration(atoi(v)) * time.Second
		}
		for _, l := range lines {
			done := make(chan string, 1)
			go func() { done <- runOp(l) }()
			var r string
			select {
			case r = <-done:
			case <-time.After(opTimeout):
				// the code under test hangs: answer for this line and let the parent restart us
				f.WriteString("hang:timeout\n")
				f.Close()
				os.Exit(3)
			}
			if strings.HasPrefix(r, "panic:") && os.Getenv("VERIF_SHOW_PANIC") != "" {
				fmt.Fprintln(os.Stderr, lastPanic)
			}
			f.WriteString(r + "\n")
		}
		must(f.Close())
	case "workload":
		os.Exit(walWorkload(os.Args[2:]))
	case "restart":
		os.Exit(walRestart(os.Args[2:]))
	default:
		os.Exit(2)
	}
}

func init() {
	ops["echo"] = func(a []string) string { return strings.Join(a, " ") }
	// self-test of the crash / hang isolation (SELFTEST only)
	ops["selfdie"] = func(a []string) string { os.Exit(7); return "" }
	ops["selfhang"] = func(a []string) string { select {} }
	gens["SELFTEST"] = func(g *Gen) { g.Emit("echo a b", "self") }
}
