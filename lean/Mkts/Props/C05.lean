import Mkts.Props.C02
import Mkts.Props.WalSkeleton
/-!
# C05 — WAL protocol: replay, checkpoint and rotation never lose commits

The writer loop is a sequence of events — flush, checkpoint, rotation — in ANY order and number
(`Mkts.WalProto.Event`); a crash is any prefix of the resulting system-call trace; restart is
`scanLive` + `replay`.  `C05_no_commit_lost` is the crash-recovery theorem read for this
property; `C05_commit_order` shows that the transaction groups replay finds are in ascending id
order in the file, so that the code's `sort.Sort(TGIDlist)` leaves them in commit order;
`C05_only_complete_groups` that nothing is applied from a group whose checksum record is missing.
-/
namespace Mkts.Props.C05
open Mkts.WalProto Mkts.Store Mkts.Bytes Mkts.Props

/-- every acknowledged transaction is in the recovered content; at most the one in flight more -/
theorem C05_no_commit_lost (evs : List Event) (es : List Effect) (hes : es <+: trace {} evs) :
    ∃ evs1, evs1 <+: evs ∧
      Equiv (recover (run {} es)) (applyCmds [] (allCmds evs1)) ∧
      (run {} es).acked ≤ flushCount evs1 ∧ flushCount evs1 ≤ (run {} es).acked + 1 :=
  C01.C01_crash_recovery evs es hes

/-! ## commit order -/

/-- ids of the checksum records of a WAL, in file order -/
def sumIds (recs : List Rec) : List Nat :=
  recs.filterMap (fun r => match r with | .tgSum id => some id | _ => none)

theorem sumIds_append (a b : List Rec) : sumIds (a ++ b) = sumIds a ++ sumIds b := by
  simp [sumIds, List.filterMap_append]

/-- the groups the scanner keeps are, in order, among the checksum records it has seen -/
theorem scanLive_sublist (recs : List Rec) :
    ∀ (live : List (Nat × List Cmd)) (pend : Option (Nat × List Cmd)),
      ((scanLive recs live pend).map (·.1)).Sublist (live.map (·.1) ++ sumIds recs) := by
  induction recs with
  | nil => intro live pend; simp [scanLive, sumIds]
  | cons r rest ih =>
    intro live pend
    cases r with
    | tgSum id =>
      simp only [scanLive]
      have e : sumIds (Rec.tgSum id :: rest) = id :: sumIds rest := by simp [sumIds]
      rw [e]
      cases pend with
      | none =>
        refine (ih live none).trans ?_
        exact List.Sublist.append (List.Sublist.refl _) (List.sublist_cons_self _ _)
      | some p =>
        obtain ⟨id', cmds⟩ := p
        simp only
        split
        · refine (ih _ none).trans ?_
          simp
        · refine (ih live none).trans ?_
          exact List.Sublist.append (List.Sublist.refl _) (List.sublist_cons_self _ _)
    | ckDone id =>
      simp only [scanLive]
      have e : sumIds (Rec.ckDone id :: rest) = sumIds rest := by simp [sumIds]
      rw [e]
      split
      · refine (ih _ pend).trans ?_
        exact List.Sublist.append (List.Sublist.map _ List.filter_sublist) (List.Sublist.refl _)
      · exact ih live pend
    | tgData id cmds =>
      simp only [scanLive]
      have e : sumIds (Rec.tgData id cmds :: rest) = sumIds rest := by simp [sumIds]
      rw [e]; exact ih live _
    | tgPrep id => simp only [scanLive]; have e : sumIds (Rec.tgPrep id :: rest) = sumIds rest := by simp [sumIds]
                   rw [e]; exact ih live pend
    | tgMid id => simp only [scanLive]; have e : sumIds (Rec.tgMid id :: rest) = sumIds rest := by simp [sumIds]
                  rw [e]; exact ih live pend
    | tgLen id => simp only [scanLive]; have e : sumIds (Rec.tgLen id :: rest) = sumIds rest := by simp [sumIds]
                  rw [e]; exact ih live pend
    | tgCommit id => simp only [scanLive]; have e : sumIds (Rec.tgCommit id :: rest) = sumIds rest := by simp [sumIds]
                     rw [e]; exact ih live pend
    | ckPrep id => simp only [scanLive]; have e : sumIds (Rec.ckPrep id :: rest) = sumIds rest := by simp [sumIds]
                   rw [e]; exact ih live pend
    | status => simp only [scanLive]; have e : sumIds (Rec.status :: rest) = sumIds rest := by simp [sumIds]
                rw [e]; exact ih live pend

/-- checksum-record ids written by an effect list, in order -/
def effSumIds (es : List Effect) : List Nat :=
  es.filterMap (fun e => match e with | .walAppend (.tgSum id) => some id | _ => none)

/-- what is in the WAL after running effects is a suffix of what was there plus what was written -/
theorem wal_sumIds_suffix (es : List Effect) : ∀ s : St,
    sumIds (run s es).wal <:+ (sumIds s.wal ++ effSumIds es) := by
  induction es with
  | nil => intro s; simp [run, effSumIds]
  | cons e rest ih =>
    intro s
    have h := ih (exec s e)
    simp only [run, List.foldl_cons] at h ⊢
    refine h.trans ?_
    cases e with
    | walAppend r =>
      cases r <;> simp [exec, sumIds_append, sumIds, effSumIds, List.append_assoc]
    | walTruncate =>
      simp only [exec, sumIds, List.filterMap_nil, List.nil_append, effSumIds, List.filterMap_cons]
      exact List.suffix_append _ _
    | walFsync => simp [exec, effSumIds]
    | prim c => simp [exec, effSumIds]
    | sync => simp [exec, effSumIds]
    | ack => simp [exec, effSumIds]

theorem effSumIds_append (a b : List Effect) : effSumIds (a ++ b) = effSumIds a ++ effSumIds b := by
  simp [effSumIds, List.filterMap_append]

/-- the writer hands out transaction-group ids in ascending order -/
theorem trace_sumIds_ascending (evs : List Event) : ∀ c : Ctl,
    (effSumIds (trace c evs)).Pairwise (· < ·) ∧ ∀ id ∈ effSumIds (trace c evs), c.tgid ≤ id := by
  induction evs with
  | nil => intro c; simp [trace, effSumIds]
  | cons e rest ih =>
    intro c
    cases e with
    | flush cmds =>
      have h := ih { tgid := c.tgid + 1, lastCommitted := some c.tgid }
      have e1 : effSumIds (flushEffects c.tgid cmds) = [c.tgid] := by
        simp [flushEffects, effSumIds, List.filterMap_append, List.filterMap_map]
      simp only [trace, eventEffects, effSumIds_append, e1, List.singleton_append, List.pairwise_cons,
        List.mem_cons, forall_eq_or_imp]
      refine ⟨⟨fun id hid => Nat.lt_of_succ_le (h.2 id hid), h.1⟩, Nat.le_refl _, fun id hid => ?_⟩
      exact Nat.le_of_succ_le (h.2 id hid)
    | checkpoint =>
      have h := ih { c with lastCommitted := none }
      have e1 : effSumIds (checkpointEffects c.lastCommitted) = [] := by
        cases c.lastCommitted <;> simp [checkpointEffects, effSumIds]
      simpa [trace, eventEffects, effSumIds_append, e1] using h
    | rotate =>
      have h := ih { c with lastCommitted := none }
      have e1 : effSumIds (rotateEffects c.lastCommitted) = [] := by
        cases c.lastCommitted <;> simp [rotateEffects, checkpointEffects, effSumIds]
      simpa [trace, eventEffects, effSumIds_append, e1] using h

/-- COMMIT ORDER: at every crash point the transaction groups found by replay's first pass are in
    strictly ascending id order in the file: sorting them by id (as the code does) changes
    nothing, and applying them in that order is applying them in commit order. -/
theorem C05_commit_order (evs : List Event) (es : List Effect) (hes : es <+: trace {} evs) :
    ((liveTGs (run {} es).wal).map (·.1)).Pairwise (· < ·) := by
  have h1 := scanLive_sublist (run {} es).wal [] none
  have h2 := wal_sumIds_suffix es {}
  have h3 : (effSumIds es).Sublist (effSumIds (trace {} evs)) := by
    obtain ⟨t, ht⟩ := hes
    rw [← ht, effSumIds_append]
    exact List.sublist_append_left _ _
  have h4 := (trace_sumIds_ascending evs {}).1
  simp only [List.map_nil, List.nil_append] at h1
  have h5 : (sumIds (run {} es).wal).Sublist (effSumIds (trace {} evs)) := by
    have : sumIds ({} : St).wal = [] := rfl
    rw [this, List.nil_append] at h2
    exact h2.sublist.trans h3
  exact List.Pairwise.sublist (h1.trans h5) h4

/-- nothing is applied from a group whose checksum record is missing: every group replay applies
    has its checksum record in the file -/
theorem C05_only_complete_groups (recs : List Rec) (t : Nat × List Cmd) (ht : t ∈ liveTGs recs) :
    t.1 ∈ sumIds recs := by
  have h := scanLive_sublist recs [] none
  simp only [List.map_nil, List.nil_append] at h
  exact h.subset (List.mem_map_of_mem ht)

example : ((liveTGs (run {} (trace {} C01.demoEvs)).wal).map (·.1)) = [2] := by decide

end Mkts.Props.C05
