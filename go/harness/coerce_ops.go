package main

// C14: writes are validated against the bucket schema.
//
//   conv <src> <dst> <hexvals>     CoerceColumnType on one column (wire type strings)
//   gm <required> <available>      GetMissingAndTypeCoercionColumns (shapes hexname=type,...)
//   c14 <nowYear> <expect> <step>...   scenario against a real server, 1Min fixed buckets:
//        C:key:cols  W:key:cols:rows  M:key1,key2:cols:rows1|rows2 (ONE request, two buckets)  Q:key
//        The scenario is re-run on fresh instances until <expect> distinct outcome lines have been
//        seen (Go map iteration order decides which bucket of an M request is handled first); the
//        result is the sorted set of lines joined by " || ".

import (
	"fmt"
	"math"
	"os"
	"sort"
	"strconv"
	"strings"
	"time"

	"github.com/alpacahq/marketstore/v4/frontend"
	mio "github.com/alpacahq/marketstore/v4/utils/io"
)

func elemType(s string) mio.EnumElementType {
	t, ok := mio.TypeStrToElemType(s)
	if !ok {
		panic("bad-arg type " + s)
	}
	return t
}

func canonFloats(t mio.EnumElementType, b []byte) []byte {
	out := append([]byte(nil), b...)
	switch t {
	case mio.FLOAT32:
		for i := 0; i+4 <= len(out); i += 4 {
			u := uint32(out[i]) | uint32(out[i+1])<<8 | uint32(out[i+2])<<16 | uint32(out[i+3])<<24
			if f := math.Float32frombits(u); f != f {
				u = 0x7fc00000
				out[i], out[i+1], out[i+2], out[i+3] = byte(u), byte(u>>8), byte(u>>16), byte(u>>24)
			}
		}
	case mio.FLOAT64:
		for i := 0; i+8 <= len(out); i += 8 {
			var u uint64
			for k := 0; k < 8; k++ {
				u |= uint64(out[i+k]) << (8 * k)
			}
			if f := math.Float64frombits(u); f != f {
				u = 0x7ff8000000000000
				for k := 0; k < 8; k++ {
					out[i+k] = byte(u >> (8 * k))
				}
			}
		}
	}
	return out
}

func convOp(a []string) string {
	src, dst := elemType(a[0]), elemType(a[1])
	b, err := unhx(a[2])
	if err != nil {
		panic("bad-arg hex")
	}
	col, err := src.ConvertByteSliceInto(b)
	if err != nil {
		return "harness:convert " + err.Error()
	}
	cs := mio.NewColumnSeries()
	cs.AddColumn("v", col)
	if err := cs.CoerceColumnType("v", dst); err != nil {
		if strings.Contains(err.Error(), "can not cast") {
			return "err:caststring"
		}
		return "err:other"
	}
	return hx(canonFloats(dst, mio.CastToByteSlice(cs.GetColumn("v"))))
}

func parseShapesCoerce(s string) []mio.DataShape {
	if s == "-" || s == "" {
		return nil
	}
	var out []mio.DataShape
	for _, p := range strings.Split(s, ",") {
		nt := strings.SplitN(p, "=", 2)
		out = append(out, mio.DataShape{Name: unhxs(nt[0]), Type: elemType(nt[1])})
	}
	return out
}

func showShapes(l []mio.DataShape) string {
	if len(l) == 0 {
		return "-"
	}
	var p []string
	for _, d := range l {
		ts, _ := mio.ToTypeStr(d.Type)
		p = append(p, hx([]byte(d.Name))+"="+ts)
	}
	return strings.Join(p, ",")
}

func gmOp(a []string) string {
	m, c, err := mio.GetMissingAndTypeCoercionColumns(parseShapesCoerce(a[0]), parseShapesCoerce(a[1]))
	if err != nil {
		return "err:emptyset"
	}
	return "missing=" + showShapes(m) + " coercion=" + showShapes(c)
}

func hexCols(s string) []strCol { return parseStrCols(s) }

func step14(in *Inst, step string) (res string) {
	f := strings.Split(step, ":")
	defer func() {
		if r := recover(); r != nil {
			lastPanic = fmt.Sprint(r)
			res = f[0] + "=" + fatalOr(r)
		}
	}()
	const cat = ":Symbol/Timeframe/AttributeGroup"
	switch f[0] {
	case "C":
		req := frontend.CreateRequest{Key: f[1] + cat}
		for _, c := range hexCols(f[2]) {
			req.ColumnNames = append(req.ColumnNames, c.name)
			req.ColumnTypes = append(req.ColumnTypes, c.typ)
		}
		var resp frontend.MultiServerResponse
		in.ds.Create(nil, &frontend.MultiCreateRequest{Requests: []frontend.CreateRequest{req}}, &resp)
		if len(resp.Responses) == 0 {
			return "C=noresp"
		}
		return "C=" + errClass15(resp.Responses[0].Error)
	case "W", "M":
		keys := strings.Split(f[1], ",")
		rowSets := strings.Split(f[3], "|")
		var ks []string
		var rs [][]rowIn
		for i, k := range keys {
			ks = append(ks, k+cat)
			rs = append(rs, parseRows2(rowSets[i]))
		}
		ds := rawDataset(ks, hexCols(f[2]), rs, false)
		var resp frontend.MultiServerResponse
		in.ds.Write(nil, &frontend.MultiWriteRequest{Requests: []frontend.WriteRequest{{Data: ds}}}, &resp)
		if len(resp.Responses) == 0 {
			return f[0] + "=ok"
		}
		return f[0] + "=" + errClass15(resp.Responses[0].Error)
	case "Q":
		return in.runStoreStep("Q:" + f[1] + ":-:-:-:-:-:F:-")
	}
	panic("bad-arg step " + step)
}

func runScenario14(steps []string) string {
	root := scratchDir("c14")
	defer os.RemoveAll(root)
	in := startInst(root, nil)
	defer in.abandon()
	var out []string
	for _, st := range steps {
		out = append(out, step14(in, st))
	}
	return strings.Join(out, " ")
}

func c14Op(a []string) string {
	quietFatal()
	if a[0] != strconv.Itoa(time.Now().UTC().Year()) {
		return "harness:bad-arg now-year " + a[0]
	}
	expect := int(atoi(a[1]))
	seen := map[string]bool{}
	minRuns, maxRuns := 1, 40
	hasMulti := false
	for _, s := range a[2:] {
		if strings.HasPrefix(s, "M:") {
			hasMulti = true
		}
	}
	if hasMulti {
		minRuns = 6
	}
	for i := 0; i < maxRuns; i++ {
		seen[runScenario14(a[2:])] = true
		if i+1 >= minRuns && len(seen) >= expect {
			break
		}
	}
	var lines []string
	for l := range seen {
		lines = append(lines, l)
	}
	sort.Strings(lines)
	return strings.Join(lines, " || ")
}

func init() {
	ops["conv"] = convOp
	ops["gm"] = gmOp
	ops["c14"] = c14Op
	slowOps["c14"] = true

	gens["C14"] = func(g *Gen) {
		ny := strconv.Itoa(time.Now().UTC().Year())
		num := []string{"i1", "i2", "i4", "i8", "u1", "u2", "u4", "u8", "f4", "f8"}
		size := map[string]int{"i1": 1, "i2": 2, "i4": 4, "i8": 8, "u1": 1, "u2": 2, "u4": 4, "u8": 8, "f4": 4, "f8": 8, "U16": 64}
		le := func(v uint64, n int) []byte {
			b := make([]byte, n)
			for i := 0; i < n; i++ {
				b[i] = byte(v >> (8 * i))
			}
			return b
		}
		// boundary values of a source type, as element bytes
		values := func(t string, dst string) [][]byte {
			var out [][]byte
			n := size[t]
			switch t[0] {
			case 'i', 'u':
				bits := uint(8 * n)
				for _, v := range []uint64{0, 1, 2, 127, 128, 255, 256, 32767, 32768, 65535, 65536, 1<<31 - 1, 1 << 31, 1<<32 - 1, 1 << 32,
					1<<53 - 1, 1 << 53, 1<<53 + 1, 1<<63 - 1, 1 << 63, 1<<64 - 1, 1<<24 + 1, 1<<62 + 1, uint64(g.R.Int63()), uint64(g.R.Int63()) << 1} {
					if bits < 64 {
						v &= 1<<bits - 1
					}
					out = append(out, le(v, n))
					out = append(out, le(-v, n))
				}
			case 'f':
				fl := []float64{0, math.Copysign(0, -1), 0.5, -0.5, 0.999, 1, -1, 1.5, -1.5, 2.5, 127, 127.9, 128, 255.5, 256, -128.9, 32767.5, 65535.9,
					2147483647, 2147483648, 4294967295.5, 1 << 53, 1<<62 + 1e3, 9.2e18, 1e-300, 5e-324, 3.4e38, 1e39, 16777217, 1e10, -1e10, float64(g.R.Int63()) / 7}
				for _, f := range fl {
					intDst := dst[0] == 'i' || dst[0] == 'u'
					if intDst {
						tr := math.Trunc(f)
						if t == "f4" {
							tr = math.Trunc(float64(float32(f)))
						}
						// implementation-defined conversions are outside the model: excluded here
						if dst[0] == 'i' && !(tr >= -9.2e18 && tr <= 9.2e18) {
							continue
						}
						if dst[0] == 'u' && !(tr >= 0 && tr <= 1.8e19) {
							continue
						}
					}
					if t == "f4" {
						out = append(out, le(uint64(math.Float32bits(float32(f))), 4))
					} else {
						out = append(out, le(math.Float64bits(f), 8))
					}
				}
				if dst[0] == 'f' {
					if t == "f4" {
						out = append(out, le(0x7fc00000, 4), le(0x7f800000, 4), le(0xff800000, 4), le(1, 4), le(0x00800000, 4))
					} else {
						out = append(out, le(0x7ff8000000000000, 8), le(0x7ff0000000000000, 8), le(0xfff0000000000000, 8), le(1, 8),
							le(0x36a0000000000000, 8), le(0x47efffffffffffff, 8), le(0x47effffff0000000, 8), le(0x3690000000000001, 8))
					}
				}
			}
			return out
		}
		// --- every (from, to) pair on boundary values
		for _, s := range num {
			for _, d := range num {
				if s == d {
					continue
				}
				vs := values(s, d)
				var b []byte
				for _, v := range vs {
					b = append(b, v...)
				}
				g.Emit("conv "+s+" "+d+" "+hx(b), "conv:"+s[:1]+"->"+d[:1])
			}
			g.Emit("conv "+s+" U16 "+hx(values(s, "f8")[0]), "conv:to-string")
		}
		g.Emit("conv U16 i4 "+hx(make([]byte, 64)), "conv:from-string")
		// --- set algebra
		nm := []string{"A", "B", "C", "D", "Epoch", "a", ""}
		shapes := func(n int) string {
			if n == 0 {
				return "-"
			}
			var p []string
			for i := 0; i < n; i++ {
				p = append(p, hxs(nm[g.Intn(len(nm))])+"="+num[g.Intn(4)*3])
			}
			return strings.Join(p, ",")
		}
		for i := 0; i < g.N(600, 6000); i++ {
			cnt := func() int {
				if g.Intn(12) == 0 {
					return 0
				}
				return 1 + g.Intn(4)
			}
			r, a := shapes(cnt()), shapes(cnt())
			tag := "gm:random"
			if r == "-" || a == "-" {
				tag = "gm:empty"
			}
			g.Emit("gm "+r+" "+a, tag)
		}
		// --- scenarios
		val := func(t string, seed int) []byte {
			switch t {
			case "f4":
				return le(uint64(math.Float32bits(float32(seed)+0.25)), 4)
			case "f8":
				return le(math.Float64bits(float64(seed)*1.5), 8)
			}
			v := uint64(seed)
			if seed%3 == 0 && t[0] == 'i' {
				v = uint64(-int64(seed))
			}
			return le(v, size[t])
		}
		base := time.Date(2020, 3, 2, 10, 0, 0, 0, time.UTC).Unix()
		rowsFor := func(types []string, n int, seed int) string {
			var rs []string
			for i := 0; i < n; i++ {
				var p []byte
				for k, t := range types {
					p = append(p, val(t, seed+10*i+k+1)...)
				}
				rs = append(rs, fmt.Sprintf("%d,%s", base+int64(60*(seed%50+i)), hx(p)))
			}
			return strings.Join(rs, "+")
		}
		cols := func(names, types []string) string {
			var p []string
			for i := range names {
				p = append(p, hxs(names[i])+"="+types[i])
			}
			return strings.Join(p, ",")
		}
		emit := func(tag string, expect int, steps ...string) {
			g.Emit("c14 "+ny+" "+strconv.Itoa(expect)+" "+strings.Join(steps, " "), tag)
		}
		oc, ot := []string{"Open", "Close"}, []string{"f4", "f4"}
		emit("seq:plain", 1, "C:A/1Min/OHLC:"+cols(oc, ot), "W:A/1Min/OHLC:"+cols(oc, ot)+":"+rowsFor(ot, 2, 1), "Q:A/1Min/OHLC")
		emit("seq:F8-reordered", 1, "C:A/1Min/OHLC:"+cols(oc, ot), "W:A/1Min/OHLC:"+cols([]string{"Close", "Open"}, ot)+":"+rowsFor(ot, 2, 1), "Q:A/1Min/OHLC")
		emit("seq:reordered-retyped", 1, "C:A/1Min/X:"+cols([]string{"P", "Q"}, []string{"i8", "i2"}), "W:A/1Min/X:"+cols([]string{"Q", "P"}, []string{"i4", "f8"})+":"+rowsFor([]string{"i4", "f8"}, 2, 4), "Q:A/1Min/X")
		emit("seq:renamed", 1, "C:A/1Min/OHLC:"+cols(oc, ot), "W:A/1Min/OHLC:"+cols([]string{"Open", "Last"}, ot)+":"+rowsFor(ot, 1, 1), "Q:A/1Min/OHLC")
		emit("seq:missing", 1, "C:A/1Min/OHLC:"+cols(oc, ot), "W:A/1Min/OHLC:"+cols(oc[:1], ot[:1])+":"+rowsFor(ot[:1], 1, 1), "Q:A/1Min/OHLC")
		emit("seq:extra", 1, "C:A/1Min/OHLC:"+cols(oc, ot), "W:A/1Min/OHLC:"+cols([]string{"Open", "Close", "Vol"}, []string{"f4", "f4", "i4"})+":"+rowsFor([]string{"f4", "f4", "i4"}, 1, 1), "Q:A/1Min/OHLC")
		emit("seq:retyped", 1, "C:A/1Min/OHLC:"+cols(oc, ot), "W:A/1Min/OHLC:"+cols(oc, []string{"i4", "f8"})+":"+rowsFor([]string{"i4", "f8"}, 2, 1), "Q:A/1Min/OHLC")
		emit("seq:to-string-col", 1, "C:A/1Min/S:"+cols([]string{"S"}, []string{"U16"}), "W:A/1Min/S:"+cols([]string{"S"}, []string{"i4"})+":"+rowsFor([]string{"i4"}, 1, 1), "Q:A/1Min/S")
		emit("seq:from-string-col", 1, "C:A/1Min/S:"+cols([]string{"S"}, []string{"i4"}), "W:A/1Min/S:"+cols([]string{"S"}, []string{"U16"})+":"+fmt.Sprintf("%d,%s", base, hx(make([]byte, 64))), "Q:A/1Min/S")
		// F8b: one valid and one mismatching bucket in ONE request; then an unrelated write flushes
		xa, xt := []string{"X"}, []string{"i4"}
		emit("seq:F8b-multi", 1, "C:A/1Min/G:"+cols(xa, xt), "C:B/1Min/G:"+cols([]string{"Y"}, xt), "C:C/1Min/G:"+cols(xa, xt),
			"M:A/1Min/G,B/1Min/G:"+cols(xa, xt)+":"+rowsFor(xt, 1, 1)+"|"+rowsFor(xt, 1, 2), "Q:A/1Min/G", "Q:B/1Min/G",
			"W:C/1Min/G:"+cols(xa, xt)+":"+rowsFor(xt, 1, 3), "Q:A/1Min/G", "Q:B/1Min/G")
		emit("seq:multi-both-valid", 1, "C:A/1Min/G:"+cols(xa, xt), "C:B/1Min/G:"+cols(xa, xt),
			"M:A/1Min/G,B/1Min/G:"+cols(xa, xt)+":"+rowsFor(xt, 1, 1)+"|"+rowsFor(xt, 2, 2), "Q:A/1Min/G", "Q:B/1Min/G")
		emit("seq:multi-both-invalid", 1, "C:A/1Min/G:"+cols([]string{"Y"}, xt), "C:B/1Min/G:"+cols([]string{"Z"}, xt),
			"M:A/1Min/G,B/1Min/G:"+cols(xa, xt)+":"+rowsFor(xt, 1, 1)+"|"+rowsFor(xt, 1, 2), "Q:A/1Min/G", "Q:B/1Min/G")
		emit("seq:multi-autocreate-then-fail", 2, "C:B/1Min/G:"+cols([]string{"Y"}, xt), "C:C/1Min/G:"+cols(xa, xt),
			"M:N/1Min/G,B/1Min/G:"+cols(xa, xt)+":"+rowsFor(xt, 1, 1)+"|"+rowsFor(xt, 1, 2), "Q:N/1Min/G",
			"W:C/1Min/G:"+cols(xa, xt)+":"+rowsFor(xt, 1, 3), "Q:N/1Min/G")
		pool := []string{"P", "Q", "R", "S"}
		for i := 0; i < g.N(50, 500); i++ {
			n := 1 + g.Intn(3)
			names := append([]string(nil), pool[:n]...)
			var types []string
			for k := 0; k < n; k++ {
				types = append(types, num[g.Intn(len(num))])
			}
			key := fmt.Sprintf("S%d/1Min/G", i)
			steps := []string{"C:" + key + ":" + cols(names, types)}
			tag := "seq:random"
			expect := 1
			nw := 1 + g.Intn(3)
			multiDone := false
			for w := 0; w < nw; w++ {
				wn := append([]string(nil), names...)
				wt := append([]string(nil), types...)
				valid := true
				switch g.Intn(8) {
				case 0: // reorder
					g.R.Shuffle(len(wn), func(a, b int) { wn[a], wn[b] = wn[b], wn[a]; wt[a], wt[b] = wt[b], wt[a] })
					tag = "seq:random:reorder"
				case 1: // retype (integers only: float -> int range hazards are excluded)
					for k := range wt {
						if g.Intn(2) == 0 {
							wt[k] = num[g.Intn(8)]
						}
					}
					tag = "seq:random:retype"
				case 2: // int -> float / float -> float
					for k := range wt {
						if types[k][0] == 'f' {
							wt[k] = num[g.Intn(len(num))]
						}
					}
					tag = "seq:random:retype-float"
				case 3:
					wn[g.Intn(len(wn))] = "ZZ"
					tag = "seq:random:rename"
					valid = false
				case 4:
					wn, wt = append(wn, "EX"), append(wt, "i4")
					tag = "seq:random:extra"
					valid = false
				case 5:
					if len(wn) > 1 {
						wn, wt = wn[1:], wt[1:]
						tag = "seq:random:missing"
						valid = false
					}
				}
				// two buckets in one request, the second one mismatching (at most one such request per
				// scenario: the op must observe every combination of iteration orders)
				if !multiDone && g.Intn(6) == 0 {
					multiDone = true
					k2 := fmt.Sprintf("T%d/1Min/G", i)
					steps = append([]string{"C:" + k2 + ":" + cols([]string{"OTHER"}, []string{"i4"})}, steps...)
					steps = append(steps, "M:"+key+","+k2+":"+cols(wn, wt)+":"+rowsFor(wt, 1, w)+"|"+rowsFor(wt, 1, w+5))
					tag = "seq:random:multi"
					if valid {
						tag = "seq:random:multi-one-valid"
					}
				} else {
					steps = append(steps, "W:"+key+":"+cols(wn, wt)+":"+rowsFor(wt, 1+g.Intn(2), w*3))
				}
				steps = append(steps, "Q:"+key)
			}
			emit(tag, expect, steps...)
		}
	}
}
