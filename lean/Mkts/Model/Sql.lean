import Mkts.Model.Store
import Mkts.Model.Float
import Mkts.Model.ExceptDec
/-!
# SQL layer model (`sqlparser/selectrelation.go`, `executablestatement.go`,
`insertintostatement.go`, `utils/io/generics.go`, `restrictcolumn.go`, `columnseries.go`)

What is modelled, one definition per Go function, quirks included:

* literals after `CoerceToNumeric` (`int64` / `float64` payloads; datetime strings become
  `UnixNano`), `GetValueAsInt64`, `GetValueAsFloat64`, `GenericComparison` (always compares through
  `float64`, because `GetValueAsFloat64` succeeds for integers too);
* `StaticPredicate.AddComparison` (a second bound on the same side keeps the TIGHTER of the two in
  `GenericComparison`'s float64 order, with its own inclusiveness; two different equalities set
  `contradiction`), `StaticPredicateGroup.Merge`, `VisitComparisonParse` / `VisitBetweenParse`
  (BETWEEN ⇒ strict `GT`/`LT`), `IsFalse`;
* `SelectRelation.Materialize`: early empty result for a contradictory predicate, catalog lookup,
  `SourceValidator`, Epoch push-down (literal through `convertUnitToNanosec`, one nanosecond inwards
  for EXCLUSIVE bounds), LIMIT push-down only without predicates, the post-filter per Go slice type
  (`[]float32 []float64 []int32 []int64`; int8/int16/unsigned columns widened to `[]int64` by
  `widenIntegerColumn`; int32 values compared in 64 bits), the Epoch branch with the bound converted
  once before the loop, `RestrictViaBitmap`, the one-pass projection/alias step with `AddColumn`'s
  collision renaming, `RestrictLength` (also for `LIMIT 0`: `hasLimit`);
* `InsertIntoStatement.Materialize` → `WriteCSM` → the Store model's `writeRecords`.

Fixed-length buckets, zone UTC (inherited from `Mkts.Store`).  The ANTLR lexer/parser and the
parse-tree → `SelectRelation` visitor glue are not modelled: the harness feeds the real parser with
SQL text and the driver checks that the structured statement given to the model prints to exactly
that text (`renderSql`).
-/
namespace Mkts.Sql
open Mkts.Store Mkts.Time Mkts.Bytes

/-! ## literals and generic comparison -/

/-- payload of a `Literal` after `CoerceToNumeric` -/
inductive Lit where
  | int (v : Int)        -- INTEGER_LITERAL (`int64`), or a datetime string turned into UnixNano
  | flt (bits : Nat)     -- DECIMAL_LITERAL (`float64` bit pattern)
deriving DecidableEq, Repr

inductive CmpOp where
  | eq | lt | le | gt | ge
deriving DecidableEq, Repr

def wrapN (w : Nat) (i : Int) : Int :=
  let m := i % ((2 ^ w : Nat) : Int)
  if m < ((2 ^ (w - 1) : Nat) : Int) then m else m - ((2 ^ w : Nat) : Int)

/-- Go conversion to `int64` / `int32` of an integer value (two's complement wrap) -/
def wrap64 (i : Int) : Int := wrapN 64 i
def wrap32 (i : Int) : Int := wrapN 32 i

/-- `GetValueAsFloat64` -/
def Lit.asF64 : Lit → Nat
  | .int v => Float.ofInt Float.b64 v
  | .flt b => b

/-- Go `int64(x)` for a float64 `x` on amd64 (CVTTSD2SI): truncation toward zero; NaN, ±Inf and
    out-of-range values give `-2^63`. -/
def f64ToI64 (bits : Nat) : Int :=
  match Float.decode Float.b64 bits with
  | .nan => -(2 ^ 63 : Nat)
  | .inf _ => -(2 ^ 63 : Nat)
  | .fin neg m e =>
    let mag : Nat := if e < 0 then m / 2 ^ e.natAbs else m * 2 ^ e.toNat
    let v : Int := if neg then -(mag : Int) else mag
    if v < -(2 ^ 63 : Nat) ∨ v ≥ (2 ^ 63 : Nat) then -(2 ^ 63 : Nat) else v

/-- `GetValueAsInt64` -/
def Lit.asI64 : Lit → Int
  | .int v => v
  | .flt b => f64ToI64 b

def feq (f : Float.Fmt) (a b : Nat) : Bool :=
  !Float.isNaN f a && !Float.isNaN f b && decide (Float.key f a = Float.key f b)
def fle (f : Float.Fmt) (a b : Nat) : Bool :=
  !Float.isNaN f a && !Float.isNaN f b && decide (Float.key f a ≤ Float.key f b)

/-- Go float comparison `a op b` -/
def fcmp (f : Float.Fmt) (op : CmpOp) (a b : Nat) : Bool :=
  match op with
  | .eq => feq f a b
  | .lt => Float.lt f a b
  | .le => fle f a b
  | .gt => Float.lt f b a
  | .ge => fle f b a

/-- `GenericComparison(left, right, op)` for numeric payloads: `EQ` is `reflect.DeepEqual`, every
    other operator goes through the `float64` branch (it is tried first and never fails). -/
def genericComparison (l r : Lit) (op : CmpOp) : Bool :=
  match op with
  | .eq => decide (l = r)
  | _ => fcmp Float.b64 op l.asF64 r.asF64

/-! ## StaticPredicate -/

def threshold : Int := 32503680000

/-- `convertUnitToNanosec` (with the `int64` product wrapping like Go) -/
def convUnit (x : Int) : Int := if x > threshold then x else wrap64 (x * 1000000000)



/-- `StaticPredicate`: `MINBOUND`/`MAXBOUND`/`EQUALITY` are set exactly when the value is present;
    `INCLUSIVEMIN`/`INCLUSIVEMAX` are separate flags; `contradiction` = two different equalities. -/
structure SP where
  min : Option Lit := none
  max : Option Lit := none
  equal : Option Lit := none
  inclMin : Bool := false
  inclMax : Bool := false
  contradiction : Bool := false
  /-- `sp.Column.GetName() == "Epoch"` -/
  epoch : Bool := false
deriving DecidableEq, Repr

/-- `sp.comparable(v)`: the scale on which the bounds of one predicate are compared — an Epoch
    literal (epoch seconds or nanoseconds) goes through `convertUnitToNanosec` -/
def SP.cmpLit (sp : SP) (l : Lit) : Lit :=
  match sp.epoch, l with
  | true, .int v => .int (convUnit v)
  | _, l => l

def SP.setMin (sp : SP) (v : Lit) (incl : Bool) : SP := { sp with min := some v, inclMin := sp.inclMin || incl }
def SP.setMax (sp : SP) (v : Lit) (incl : Bool) : SP := { sp with max := some v, inclMax := sp.inclMax || incl }

/-- `(*StaticPredicate).AddComparison`: a second bound on one side replaces the stored one when it
    is below (above) it, or equal to it and strict — the tighter bound with its own inclusiveness
    (`DelOption` then `SetMax`/`SetMin`) -/
def SP.addComparison (sp : SP) (op : CmpOp) (v : Lit) : SP :=
  match op with
  | .eq =>
    let c := match sp.equal with
      | none => false
      | some e => genericComparison (sp.cmpLit v) (sp.cmpLit e) .lt || genericComparison (sp.cmpLit v) (sp.cmpLit e) .gt
    { sp with equal := some v, contradiction := sp.contradiction || c }
  | .lt | .le =>
    match sp.max with
    | none => sp.setMax v (op == .le)
    | some m =>
      let below := genericComparison (sp.cmpLit v) (sp.cmpLit m) .lt
      let above := genericComparison (sp.cmpLit v) (sp.cmpLit m) .gt
      if below || (!above && op == .lt) then { sp with max := some v, inclMax := (op == .le) } else sp
  | .gt | .ge =>
    match sp.min with
    | none => sp.setMin v (op == .ge)
    | some m =>
      let above := genericComparison (sp.cmpLit v) (sp.cmpLit m) .gt
      let below := genericComparison (sp.cmpLit v) (sp.cmpLit m) .lt
      if above || (!below && op == .gt) then { sp with min := some v, inclMin := (op == .ge) } else sp

/-- the body of `StaticPredicateGroup.Merge` for the target predicate of the column -/
def SP.merge (tgt sp : SP) : SP :=
  let t1 := match sp.min with
    | none => tgt
    | some m => tgt.addComparison (if sp.inclMin then .ge else .gt) m
  let t2 := match sp.max with
    | none => t1
    | some m => t1.addComparison (if sp.inclMax then .le else .lt) m
  match sp.equal with
  | none => t2
  | some e => t2.addComparison .eq e

/-- `IsFalse`: `contradiction`, or `GenericComparison(min, max, GT)` (an absent bound is a nil
    comparison = false) -/
def SP.isFalse (sp : SP) : Bool :=
  sp.contradiction ||
  match sp.min, sp.max with
  | some a, some b => genericComparison (sp.cmpLit a) (sp.cmpLit b) .gt
  | _, _ => false

/-- one conjunct of the WHERE clause: `col op literal` or `col BETWEEN lo AND hi` -/
inductive Conj where
  | cmp (col : String) (op : CmpOp) (v : Lit)
  | between (col : String) (lo hi : Lit)
deriving DecidableEq, Repr

def Conj.col : Conj → String
  | .cmp c _ _ => c
  | .between c _ _ => c

/-- the `pendingSP` built by `VisitComparisonParse` / `VisitBetweenParse` for one conjunct -/
def Conj.pending : Conj → SP
  | .cmp c op v => ({ epoch := c == "Epoch" } : SP).addComparison op v
  | .between c lo hi => (({ epoch := c == "Epoch" } : SP).addComparison .gt lo).addComparison .lt hi

/-- `StaticPredicateGroup` (a Go map; association list in insertion order) -/
abbrev Group := List (String × SP)

def Group.get (g : Group) (c : String) : Option SP := (g.find? (fun e => e.1 == c)).map (·.2)

/-- `spg.Merge(sp, false)`: `Add` the column if absent, then merge into it -/
def Group.mergeCol (g : Group) (c : String) (sp : SP) : Group :=
  match g with
  | [] => [(c, ({ epoch := c == "Epoch" } : SP).merge sp)]
  | (c', t) :: rest => if c' == c then (c', t.merge sp) :: rest else (c', t) :: Group.mergeCol rest c sp

/-- `VisitBooleanExpressionParse` over the conjunction, left to right -/
def buildGroup (cs : List Conj) : Group := cs.foldl (fun g c => g.mergeCol c.col c.pending) []

/-! ## columns -/

inductive ColTy where
  | i32 | i64 | f32 | f64
  /-- every other fixed-width integer type (`int8 int16 uint8 uint16 uint32 uint64`): widened to
      `[]int64` by `widenIntegerColumn` before the post-filter switch -/
  | other (size : Nat) (signed : Bool)
deriving DecidableEq, Repr

def ColTy.size : ColTy → Nat
  | .i32 => 4 | .i64 => 8 | .f32 => 4 | .f64 => 8 | .other s _ => s

structure ColDef where
  name : String
  ty : ColTy
deriving DecidableEq, Repr

/-- the bytes of column `name` inside a row payload (columns concatenated in schema order) -/
def colBytes : List ColDef → String → Bytes → Option Bytes
  | [], _, _ => none
  | c :: rest, name, p =>
    if c.name == name then some (p.take c.ty.size) else colBytes rest name (p.drop c.ty.size)

/-- the post-filter test of ONE row value against a bound, in the column's Go type:
    `keepBound ty op bound bytes` = the row is NOT flagged by the comparison `val op bound`
    (`op` is the predicate's operator: the code removes on the negated test). -/
def keepVal (ty : ColTy) (op : CmpOp) (lit : Lit) (b : Bytes) : Bool :=
  match ty with
  | .i32 =>
    let v := leDecodeInt b              -- `int64(val)`: the value is widened, the literal is not narrowed
    let l := lit.asI64
    (match op with
     | .eq => !(v != l) | .lt => !(decide (v ≥ l)) | .le => !(decide (v > l))
     | .gt => !(decide (v ≤ l)) | .ge => !(decide (v < l)))
  | .i64 =>
    let v := leDecodeInt b
    let l := lit.asI64
    (match op with
     | .eq => !(v != l) | .lt => !(decide (v ≥ l)) | .le => !(decide (v > l))
     | .gt => !(decide (v ≤ l)) | .ge => !(decide (v < l)))
  | .f32 =>
    let v := leDecode b
    let l := Float.convert Float.b64 Float.b32 lit.asF64
    (match op with
     | .eq => feq Float.b32 v l           -- removed when `val != float32(eqval)`
     | .lt => !(fle Float.b32 l v)        -- removed when `val >= max`
     | .le => !(Float.lt Float.b32 l v)   -- removed when `val > max`
     | .gt => !(fle Float.b32 v l)        -- removed when `val <= min`
     | .ge => !(Float.lt Float.b32 v l))  -- removed when `val < min`
  | .f64 =>
    let v := leDecode b
    let l := lit.asF64
    (match op with
     | .eq => feq Float.b64 v l
     | .lt => !(fle Float.b64 l v)
     | .le => !(Float.lt Float.b64 l v)
     | .gt => !(fle Float.b64 v l)
     | .ge => !(Float.lt Float.b64 v l))
  | .other _ signed =>
    -- `toInt64s`: Go conversion of the element to int64 (a uint64 above 2^63-1 wraps)
    let v := wrap64 (if signed then leDecodeInt b else (leDecode b : Int))
    let l := lit.asI64
    (match op with
     | .eq => !(v != l) | .lt => !(decide (v ≥ l)) | .le => !(decide (v > l))
     | .gt => !(decide (v ≤ l)) | .ge => !(decide (v < l)))

/-- the three `if sp.ContentsEnum.IsSet(...)` blocks of one value column for one row -/
def keepSP (ty : ColTy) (sp : SP) (b : Bytes) : Bool :=
  (match sp.equal with | none => true | some e => keepVal ty .eq e b) &&
  (match sp.min with | none => true | some m => keepVal ty (if sp.inclMin then .ge else .gt) m b) &&
  (match sp.max with | none => true | some m => keepVal ty (if sp.inclMax then .le else .lt) m b)

/-- integer test `val op bound` of the Epoch branch (keep = not removed) -/
def keepInt (op : CmpOp) (v l : Int) : Bool :=
  match op with
  | .eq => v == l | .lt => decide (v < l) | .le => decide (v ≤ l)
  | .gt => decide (v > l) | .ge => decide (v ≥ l)

/-- one Epoch test of one row: the bound is converted ONCE before the loop, the row value inside -/
def optKeep (op : CmpOp) (l : Option Lit) (sec : Int) : Bool :=
  match l with
  | none => true
  | some l => keepInt op (convUnit sec) (convUnit l.asI64)

/-- the three `if sp.ContentsEnum.IsSet(…)` blocks of the Epoch branch for one row
    (fixed-length bucket: no Nanoseconds column) -/
def keepEpoch (sp : SP) (sec : Int) : Bool :=
  optKeep .eq sp.equal sec &&
  (optKeep (if sp.inclMin then .ge else .gt) sp.min sec && optKeep (if sp.inclMax then .le else .lt) sp.max sec)

/-- keep flags of the Epoch column -/
def epochKeep (sp : SP) (secs : List Int) : List Bool := secs.map (keepEpoch sp)

/-- `RestrictViaBitmap` on rows -/
def restrict {α} : List α → List Bool → List α
  | a :: as, k :: ks => if k then a :: restrict as ks else restrict as ks
  | _, _ => []

/-- keep flag of one row w.r.t. all value columns that carry a predicate -/
def keepCols (cols : List ColDef) (g : Group) (payload : Bytes) : Bool :=
  cols.all (fun c => match g.get c.name with
    | none => true
    | some sp => match colBytes cols c.name payload with
      | none => true
      | some b => keepSP c.ty sp b)

/-- the whole post-filter: Epoch loops, value columns, `RestrictViaBitmap` -/
def postFilter (cols : List ColDef) (g : Group) (rows : List Row) : List Row :=
  let ek := match g.get "Epoch" with
    | none => rows.map (fun _ => true)
    | some sp => epochKeep sp (rows.map (·.sec))
  restrict rows (List.zipWith (· && ·) ek (rows.map (fun r => keepCols cols g r.payload)))

/-! ## ColumnSeries -/

/-- `io.ColumnSeries`: ordered names + map name ↦ column data (one byte string per row) -/
structure CS where
  names : List String
  cols : List (String × List Bytes)
deriving Repr, DecidableEq

def CS.get (cs : CS) (n : String) : Option (List Bytes) := (cs.cols.find? (fun e => e.1 == n)).map (·.2)

/-- `Len()`: length of the first ordered column -/
def CS.len (cs : CS) : Nat :=
  match cs.names with
  | [] => 0
  | n :: _ => ((cs.get n).getD []).length

/-- `Project(keepList)`: requested order, unknown names skipped, duplicates kept in the name list -/
def CS.project (cs : CS) (keep : List String) : CS :=
  let present := keep.filter (fun n => (cs.get n).isSome)
  { names := present,
    cols := present.eraseDups.filterMap (fun n => (cs.get n).map (fun d => (n, d))) }

structure Item where
  name : String
  alias : Option String
deriving Repr, DecidableEq

/-- a ColumnSeries under construction (`io.NewColumnSeries()` + `AddColumn`s): ordered names, the
    column map, and the `nameIncrement` collision counters -/
structure CSB where
  names : List String := []
  cols : List (String × List Bytes) := []
  incr : List (String × Nat) := []
deriving Repr, DecidableEq

/-- `AddColumn`: a name that is already a key of the column map is made unique by appending its
    collision counter (0 for the first collision, then 1, …); the entry is stored under the final
    name (overwriting a map entry of that name, if any) -/
def CSB.addColumn (b : CSB) (name : String) (d : List Bytes) : CSB :=
  if b.cols.any (fun e => e.1 == name) then
    let n := match b.incr.find? (fun e => e.1 == name) with
      | none => 0
      | some e => e.2 + 1
    let name' := name ++ toString n
    { names := b.names ++ [name'], cols := b.cols.filter (fun e => e.1 != name') ++ [(name', d)],
      incr := (name, n) :: b.incr.filter (fun e => e.1 != name) }
  else { b with names := b.names ++ [name], cols := b.cols ++ [(name, d)] }

def CSB.toCS (b : CSB) : CS := ⟨b.names, b.cols⟩

/-- output name of a select item -/
def Item.out (it : Item) : String := it.alias.getD it.name

/-- one iteration of the projection loop -/
def projectStep (cs : CS) (acc : Option CSB) (it : Item) : Option CSB :=
  match acc with
  | none => none
  | some b => match cs.get it.name with
    | none => none
    | some d => some (b.addColumn it.out d)

/-- the projection / alias step of `Materialize`: ONE pass over the select list, every output column
    taken from the unmodified input series under its alias or its own name; `none` = the error
    "Source column named … does not exist" -/
def projectOnePass (cs : CS) (items : List Item) : Option CS :=
  (items.foldl (projectStep cs) (some ({} : CSB))).map CSB.toCS

/-- `RestrictLength(n, FIRST)` via `DownSizeSlice` -/
def CS.restrictLength (cs : CS) (n : Nat) : CS :=
  { cs with cols := cs.cols.map (fun e => (e.1, e.2.take n)) }

/-- the ColumnSeries a fixed-length read returns: Epoch (int64 LE) then the schema's columns -/
def csOfRows (cols : List ColDef) (rows : List Row) : CS :=
  { names := "Epoch" :: cols.map (·.name),
    cols := ("Epoch", rows.map (fun r => leInt 8 r.sec)) ::
      cols.map (fun c => (c.name, rows.map (fun r => (colBytes cols c.name r.payload).getD []))) }

/-! ## SELECT -/

structure Select where
  star : Bool
  items : List Item
  table : String
  conj : List Conj
  /-- `sr.Limit`: 0 when there is no LIMIT clause — and also for `LIMIT 0` -/
  limit : Nat
  /-- `sr.hasLimit`: a LIMIT clause is present -/
  hasLimit : Bool
deriving Repr

structure Table where
  key : String
  tf : Int
  cols : List ColDef
  slots : Slots
deriving Repr, DecidableEq

inductive Err where
  | nokey | colnotfound | rename | insertcols | colmismatch | unsupported
deriving Repr, DecidableEq

def findTable (db : List Table) (k : String) : Option Table := db.find? (fun t => t.key == k)

/-- Epoch push-down: the literal goes through `convertUnitToNanosec`, an EXCLUSIVE bound is moved one
    nanosecond inwards; `time.Unix(val/1e9, val%1e9)` is the instant `val` ns -/
def pushdown (g : Group) : Option Int × Option Int :=
  match g.get "Epoch" with
  | none => (none, none)
  | some sp =>
    (sp.min.map (fun m => convUnit m.asI64 + (if sp.inclMin then 0 else 1)),
     sp.max.map (fun m => convUnit m.asI64 - (if sp.inclMax then 0 else 1)))

/-- the planner/reader call: Epoch bounds pushed down; LIMIT pushed down only when there is no
    static predicate at all -/
def readRows (t : Table) (g : Group) (limit : Nat) : List Row :=
  let pd := pushdown g
  let lim := if g.isEmpty && limit != 0 then some (limit, true) else none
  query t.tf t.slots ⟨pd.1, pd.2, lim⟩

/-- rows read and post-filtered for `SELECT … FROM t WHERE conj` (before projection / LIMIT) -/
def selectRows (t : Table) (g : Group) (limit : Nat) : List Row :=
  postFilter t.cols g (readRows t g limit)

/-- `(*SelectRelation).Materialize` for a primary relation without function calls -/
def materializeSelect (db : List Table) (s : Select) : Except Err CS :=
  let g := buildGroup s.conj
  if g.any (fun e => e.2.isFalse) then .ok ⟨[], []⟩ else
  match findTable db s.table with
  | none => .error .nokey
  | some t =>
    let keep := s.items.map (·.name)   -- `SourceValidator`'s keepList
    if !s.star && keep.any (fun n => n != "Epoch" && !(t.cols.any (fun c => c.name == n))) then .error .colnotfound else
    -- `if outputColumnSeries.Len() == 0 { return }` sits BEFORE the post-filter
    if (readRows t g s.limit).isEmpty then .ok (csOfRows t.cols []) else
    let cs := csOfRows t.cols (selectRows t g s.limit)
    let projected : Except Err CS :=
      if s.star then .ok cs else
        match projectOnePass cs s.items with
        | none => .error .rename
        | some c => .ok c
    match projected with
    | .error e => .error e
    | .ok c => .ok (if s.hasLimit || s.limit != 0 then c.restrictLength s.limit else c)

/-! ## INSERT INTO … SELECT -/

structure Insert where
  target : String
  aliases : Option (List String)
  sel : Select
deriving Repr

inductive InsResult where
  | nothing                 -- `return nil, nil` (the select returned no rows)
  | written (n : Nat)
deriving Repr, DecidableEq

/-- rows of a projected ColumnSeries as the writer sees them (`ToRowSeries`: columns in series
    order, Epoch taken from the Epoch column) -/
def rowsOfCS (cs : CS) : List Row :=
  let ep := (cs.get "Epoch").getD []
  let others := (cs.names.filter (· != "Epoch")).map (fun n => (cs.get n).getD [])
  (List.range ep.length).map (fun i =>
    ⟨leDecodeInt (ep.getD i []), (others.map (fun col => col.getD i [])).flatten⟩)

/-- `(*InsertIntoStatement).Materialize`; `none` = outside the modelled fragment (type coercion
    between different column types, target list without a leading Epoch) -/
def materializeInsert (db : List Table) (ins : Insert) : Option (Except Err (InsResult × List Table)) :=
  match materializeSelect db ins.sel with
  | .error e => some (.error e)
  | .ok cs =>
    if cs.len == 0 then some (.ok (.nothing, db)) else
    match findTable db ins.target with
    | none => some (.error .nokey)
    | some tgt =>
      let targetNames := match ins.aliases with
        | some a => a
        | none => "Epoch" :: tgt.cols.map (·.name)
      if !(targetNames.all (fun n => cs.names.contains n)) then some (.error .insertcols) else
      let p := cs.project targetNames
      if p.names.head? != some "Epoch" then none else
      let dbNames := "Epoch" :: tgt.cols.map (·.name)
      if p.names.length != dbNames.length || !(dbNames.all (fun n => p.names.contains n)) then
        some (.error .colmismatch) else
      -- same names: the model covers identical column types only
      let src := findTable db ins.sel.table
      let tyOf (t : Table) (n : String) : Option ColTy := (t.cols.find? (fun c => c.name == n)).map (·.ty)
      let origin (n : String) : String :=   -- source column behind an output name
        match ins.sel.items.find? (fun it => it.alias == some n) with
        | some it => it.name
        | none => n
      match src with
      | none => none
      | some st =>
        if !((p.names.filter (· != "Epoch")).all (fun n => tyOf st (origin n) == tyOf tgt n && (tyOf tgt n).isSome)) then none
        else if p.names != dbNames then none
        else
          let rows := rowsOfCS p
          let tgt' := { tgt with slots := applyCmds tgt.slots (writeRecords tgt.tf rows) }
          some (.ok (.written rows.length, db.map (fun t => if t.key == tgt.key then tgt' else t)))

/-! ## the abstract meaning of a conjunct (specification side) -/

/-- exact meaning of `v op literal` for an integer `v` (a decimal literal is compared as the real
    number it denotes: `m·2^e` with both sides scaled to integers) -/
def satIntLit (op : CmpOp) (v : Int) : Lit → Option Bool
  | .int x => some (keepInt op v x)
  | .flt b =>
    match Float.decode Float.b64 b with
    | .fin neg m e =>
      let x : Int := if neg then -(m : Int) else m
      if e < 0 then some (keepInt op (v * ((2 ^ e.natAbs : Nat) : Int)) x)
      else some (keepInt op v (x * ((2 ^ e.toNat : Nat) : Int)))
    | _ => none

/-- Epoch literal in nanoseconds: integers above the year-3000 threshold are nanoseconds already,
    smaller ones are epoch seconds (the server's own convention, `isNanosec`) -/
def epochLitNs (l : Lit) : Option Int :=
  match l with
  | .int v => some (if v > threshold then v else v * 1000000000)
  | .flt _ => none

/-- usual meaning of `value op literal` for a column value; `none` = the property is silent
    (NaN involved, decimal Epoch literal) -/
def satVal (ty : ColTy) (op : CmpOp) (l : Lit) (b : Bytes) : Option Bool :=
  match ty with
  | .i32 | .i64 => satIntLit op (leDecodeInt b) l
  | .other _ signed => satIntLit op (if signed then leDecodeInt b else (leDecode b : Int)) l
  | .f32 =>
    let v := leDecode b
    if Float.isNaN Float.b32 v then none else
    some (fcmp Float.b32 op v (Float.convert Float.b64 Float.b32 l.asF64))
  | .f64 =>
    let v := leDecode b
    if Float.isNaN Float.b64 v then none else some (fcmp Float.b64 op v l.asF64)

/-- meaning of one conjunct on one row; `none` = silent (unknown column, NaN, …) -/
def satConj (cols : List ColDef) (c : Conj) (r : Row) : Option Bool :=
  let one (col : String) (op : CmpOp) (l : Lit) : Option Bool :=
    if col == "Epoch" then (epochLitNs l).map (fun e => keepInt op (r.sec * 1000000000) e)
    else match cols.find? (fun d => d.name == col), colBytes cols col r.payload with
      | some d, some b => satVal d.ty op l b
      | _, _ => none
  match c with
  | .cmp col op l => one col op l
  | .between col lo hi => do
    let a ← one col .gt lo
    let b ← one col .lt hi
    pure (a && b)

/-- the conjunction; `none` as soon as one conjunct is silent on the row -/
def satAll (cols : List ColDef) (cs : List Conj) (r : Row) : Option Bool :=
  cs.foldl (fun acc c => do let a ← acc; let b ← satConj cols c r; pure (a && b)) (some true)

end Mkts.Sql
