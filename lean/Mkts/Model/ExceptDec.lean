/-! Decidable equality for `Except` (not provided by core), so that concrete model results can be
    compared by `decide`. -/
instance Mkts.instDecidableEqExcept {ε α : Type} [DecidableEq ε] [DecidableEq α] : DecidableEq (Except ε α)
  | .ok a, .ok b => if h : a = b then isTrue (by rw [h]) else isFalse (fun h' => h (by cases h'; rfl))
  | .error a, .error b => if h : a = b then isTrue (by rw [h]) else isFalse (fun h' => h (by cases h'; rfl))
  | .ok _, .error _ => isFalse (fun h => by cases h)
  | .error _, .ok _ => isFalse (fun h => by cases h)
