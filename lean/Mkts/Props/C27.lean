import Mkts.Lemmas.Numpy
/-!
# C27 — Query/write wire format round-trips

Model: `Mkts.Numpy` (`NewNumpyDataset`, `NewNumpyMultiDataset`, `Append`, `ToColumnSeries(start,len)`,
both `ToColumnSeriesMap` decoders, the composition loop of `executeQuery`); msgpack is the identity
on the dataset's exported fields (trusted; exercised for real by the correspondence run).  Column
values are opaque byte strings of the element type's size.

The full statement is false of the code for zero-length series and for buckets whose column
types differ (`Append` compares names only): counterexample theorems below, and `C27_partial`
proves the round trip for any number of buckets of any lengths ≥ 1 with these classes excluded.
-/
namespace Mkts.Props.C27
open Mkts.Rows Mkts.Numpy Mkts.Bytes

/-- bucket lists the property speaks about: at least one bucket, distinct normalised keys
(`TimeBucketKey.String()` is always normalised), and per series distinct column names
(invariant of `AddColumn`), wire-supported element types, columns of the series' length,
elements of their type's size; all series of one dataset have the same column names in the
same order (otherwise `Append` refuses, which is the designed behaviour) -/
def ValidBuckets (bs : List (String × ColumnSeries)) : Prop :=
  bs ≠ [] ∧ (bs.map (·.1)).Nodup ∧ (∀ b ∈ bs, ValidBucket b) ∧
  ∀ b ∈ bs, ∀ b' ∈ bs, b.2.cols.map (·.name) = b'.2.cols.map (·.name)

/-- hypothesis `nonempty_series`: every series has at least one row (hence one column) -/
def nonempty_series (bs : List (String × ColumnSeries)) : Prop := ∀ b ∈ bs, 0 < b.2.len
/-- hypothesis `same_types`: columns of the same position have the same element type in all series -/
def same_types (bs : List (String × ColumnSeries)) : Prop :=
  ∀ b ∈ bs, ∀ b' ∈ bs, b.2.cols.map (·.typ) = b'.2.cols.map (·.typ)

instance (bs : List (String × ColumnSeries)) : Decidable (ValidBuckets bs) := by
  unfold ValidBuckets ValidBucket; infer_instance
instance (bs : List (String × ColumnSeries)) : Decidable (nonempty_series bs) := by
  unfold nonempty_series; infer_instance
instance (bs : List (String × ColumnSeries)) : Decidable (same_types bs) := by
  unfold same_types; infer_instance

/-- composing the dataset succeeds and both decoders return exactly the original buckets
(keys, column names, column order, element types, values) -/
def RoundTrips (bs : List (String × ColumnSeries)) : Prop :=
  ∃ n, compose bs = .ok (some n) ∧ n.toColumnSeriesMap = .ok (expectCSM bs) ∧
    n.toColumnSeriesMapClient = .ok (expectCSM bs)

/-- The property at full strength. -/
def C27_full : Prop := ∀ bs, ValidBuckets bs → RoundTrips bs

/-- Round trip for any number of buckets and any lengths ≥ 1, all wire types, all values. -/
theorem C27_partial (bs : List (String × ColumnSeries)) (hv : ValidBuckets bs)
    (h1 : nonempty_series bs) (h2 : same_types bs) : RoundTrips bs := by
  obtain ⟨hne, hk, hb, hn⟩ := hv
  cases bs with
  | nil => exact absurd rfl hne
  | cons b0 rest =>
    obtain ⟨n, h, ha, hb', _, _⟩ := compose_roundtrip b0 rest hk hb h1
      (fun b hb' => shapes_of_names_types _ _ (hn b hb' b0 (by simp)) (h2 b hb' b0 (by simp)))
    exact ⟨n, h, ha, hb'⟩

/-- Single-dataset view: inside the composed dataset every bucket's row range
`[StartIndex, StartIndex+Length)` decodes to that bucket's columns, and the bookkeeping maps hold
the running offsets and the lengths. -/
theorem C27_bookkeeping (bs : List (String × ColumnSeries)) (hv : ValidBuckets bs)
    (h1 : nonempty_series bs) (h2 : same_types bs) :
    ∃ n, compose bs = .ok (some n) ∧ n.startIndex = starts 0 bs ∧ n.lengths = lens bs := by
  obtain ⟨hne, hk, hb, hn⟩ := hv
  cases bs with
  | nil => exact absurd rfl hne
  | cons b0 rest =>
    obtain ⟨n, h, _, _, hs, hl⟩ := compose_roundtrip b0 rest hk hb h1
      (fun b hb' => shapes_of_names_types _ _ (hn b hb' b0 (by simp)) (h2 b hb' b0 (by simp)))
    exact ⟨n, h, hs, hl⟩

/-! ## counterexamples (replayed on the implementation: corpus/C27/known_*.ops) -/

def b8 (x : UInt8) : Bytes := [x, 0, 0, 0, 0, 0, 0, 0]
def keyA : String := "A/1Min/V:Symbol/Timeframe/AttributeGroup"
def keyB : String := "B/1Min/V:Symbol/Timeframe/AttributeGroup"

/-- bucket A with one row, bucket B with the same columns and no rows -/
def cexEmpty : List (String × ColumnSeries) :=
  [(keyA, ⟨[⟨"Epoch", INT64, [b8 1]⟩, ⟨"X", INT32, [[5, 0, 0, 0]]⟩], []⟩),
   (keyB, ⟨[⟨"Epoch", INT64, []⟩, ⟨"X", INT32, []⟩], []⟩)]

/-- F13: the zero-length bucket B is missing from the server-side decoder's map
(the client-side decoder keeps it) -/
theorem C27_cex_empty :
    ValidBuckets cexEmpty ∧ same_types cexEmpty ∧
    (∃ n, compose cexEmpty = .ok (some n) ∧
      n.toColumnSeriesMap = .ok [(keyA, ⟨[⟨"Epoch", INT64, [b8 1]⟩, ⟨"X", INT32, [[5, 0, 0, 0]]⟩], []⟩)] ∧
      n.toColumnSeriesMapClient = .ok (expectCSM cexEmpty)) := by
  refine ⟨by decide, by decide, ?_⟩
  exact ⟨_, rfl, by decide, by decide⟩

/-- only zero-length series: both decoders lose the columns (names and types) -/
def cexAllEmpty : List (String × ColumnSeries) := [(keyB, ⟨[⟨"Epoch", INT64, []⟩, ⟨"X", INT32, []⟩], []⟩)]

theorem C27_cex_all_empty :
    ValidBuckets cexAllEmpty ∧ same_types cexAllEmpty ∧
    (∃ n, compose cexAllEmpty = .ok (some n) ∧ n.toColumnSeriesMap = .ok [] ∧
      n.toColumnSeriesMapClient = .ok [(keyB, ⟨[], []⟩)]) := by
  refine ⟨by decide, by decide, ?_⟩
  exact ⟨_, rfl, by decide, by decide⟩

/-- `X` is int32 in bucket A and float32 in bucket B: `Append` accepts it -/
def cexTypes : List (String × ColumnSeries) :=
  [(keyA, ⟨[⟨"Epoch", INT64, [b8 1]⟩, ⟨"X", INT32, [[5, 0, 0, 0]]⟩], []⟩),
   (keyB, ⟨[⟨"Epoch", INT64, [b8 2]⟩, ⟨"X", FLOAT32, [[0, 0, 128, 63]]⟩], []⟩)]

/-- bucket B's float32 column comes back typed int32 (the first bucket's type) -/
theorem C27_cex_types :
    ValidBuckets cexTypes ∧ nonempty_series cexTypes ∧
    (∃ n, compose cexTypes = .ok (some n) ∧
      n.toColumnSeriesMapClient = .ok
        [(keyA, ⟨[⟨"Epoch", INT64, [b8 1]⟩, ⟨"X", INT32, [[5, 0, 0, 0]]⟩], []⟩),
         (keyB, ⟨[⟨"Epoch", INT64, [b8 2]⟩, ⟨"X", INT32, [[0, 0, 128, 63]]⟩], []⟩)]) := by
  refine ⟨by decide, by decide, ?_⟩
  exact ⟨_, rfl, by decide⟩

/-- with element sizes that differ (int32 vs int64) the second bucket's range is sliced with the
first bucket's size: here the decoder panics -/
def cexSizes : List (String × ColumnSeries) :=
  [(keyA, ⟨[⟨"Epoch", INT64, [b8 1]⟩, ⟨"X", INT64, [b8 5]⟩], []⟩),
   (keyB, ⟨[⟨"Epoch", INT64, [b8 2]⟩, ⟨"X", INT32, [[7, 0, 0, 0]]⟩], []⟩)]

theorem C27_cex_sizes :
    ValidBuckets cexSizes ∧ nonempty_series cexSizes ∧
    (∃ n, compose cexSizes = .ok (some n) ∧ n.toColumnSeriesMapClient = .error "panic:slice") := by
  refine ⟨by decide, by decide, ?_⟩
  exact ⟨_, rfl, by decide⟩

theorem C27_not_full : ¬ C27_full := by
  intro h
  obtain ⟨n, hc, ha, _⟩ := h cexEmpty C27_cex_empty.1
  obtain ⟨n', hc', ha', _⟩ := C27_cex_empty.2.2
  rw [hc] at hc'
  have : n = n' := by injection hc' with h; injection h
  rw [this, ha'] at ha
  exact absurd ha (by decide)

/-! ## non-vacuity -/

def sample : List (String × ColumnSeries) :=
  [(keyA, ⟨[⟨"Epoch", INT64, [b8 1, b8 2]⟩, ⟨"X", FLOAT32, [[5, 0, 0, 0], [6, 0, 0, 0]]⟩], []⟩),
   (keyB, ⟨[⟨"Epoch", INT64, [b8 3]⟩, ⟨"X", FLOAT32, [[7, 0, 0, 0]]⟩], []⟩)]

example : ValidBuckets sample ∧ nonempty_series sample ∧ same_types sample := by decide
example : RoundTrips sample := C27_partial sample (by decide) (by decide) (by decide)
example : ∃ n, compose sample = .ok (some n) ∧ n.startIndex = [(keyA, 0), (keyB, 2)] ∧ n.nds.length = 3 :=
  ⟨_, rfl, by decide, by decide⟩

end Mkts.Props.C27
