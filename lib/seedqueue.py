#!/usr/bin/env python3
"""Background pipeline for seeded changes: for every delivered /work/seed/Cxx/SEED/<V>/ that has no
result yet: confirm it (lib/seedverify.py), keep it (lib/seedkeep.py), run the property's check
against it (lib/seedrun_par.sh). usage: seedqueue.py <workers>   (stops when /work/sv/STOP exists)"""
import glob, json, os, subprocess, sys, time
from concurrent.futures import ThreadPoolExecutor
N = int(sys.argv[1]) if len(sys.argv) > 1 else 3
claimed = set()

def todo():
    out = []
    for mp in sorted(glob.glob("/work/seed/C*/SEED/*/meta.json")):
        parts = mp.split("/")
        pid, var = parts[3], parts[5]
        sid = pid + var
        if sid in claimed:
            continue
        if not os.path.exists(os.path.join(os.path.dirname(mp), "patch.diff")):
            continue
        out.append((pid, var, sid))
    out.sort(key=lambda t: (t[1] != 'A', t[0]))   # one seed per property first
    return out

def work(pid, var, sid):
    try:
        rj = "/work/sv/results/%s.json" % sid
        if not os.path.exists(rj):
            subprocess.run(["python3", "/verif/lib/seedverify.py", pid, var], cwd="/verif", capture_output=True, timeout=3 * 3600)
        r = json.load(open(rj))
        if not r.get("confirmed"):
            return sid + " not confirmed"
        if not os.path.exists("/verif/seeded/%s/meta.json" % sid):
            subprocess.run(["python3", "/verif/lib/seedkeep.py", pid, var], cwd="/verif", capture_output=True)
        lf = "/verif/.work/sr_%s.log" % sid
        if not os.path.exists(lf) or "VIOLATION" not in open(lf).read() and "OK property" not in open(lf).read():
            with open(lf, "w") as f:
                subprocess.run(["/verif/lib/seedrun_par.sh", sid, pid], cwd="/verif", stdout=f, stderr=subprocess.STDOUT, timeout=4 * 3600)
        return sid + " done"
    except Exception as e:
        return sid + " error " + repr(e)

with ThreadPoolExecutor(N) as ex:
    futs = []
    while not os.path.exists("/work/sv/STOP"):
        for pid, var, sid in todo():
            claimed.add(sid)
            futs.append(ex.submit(work, pid, var, sid))
        for f in [f for f in futs if f.done()]:
            print(f.result(), flush=True)
            futs.remove(f)
        time.sleep(30)
