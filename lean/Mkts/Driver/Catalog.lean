import Mkts.Proto
import Mkts.Model.Catalog
import Mkts.Model.CatalogTie
/-!
Driver for the `cat` op (C17): one line = a scenario against one server instance
(`cat <nowYear> <step> …`, Go side: go/harness/catalog_ops.go):
  C:items:cats:schema        frontend.Create  (items `A/1Min/X`, cats `Symbol/Timeframe/AttributeGroup`)
  W:items:schema:y1,y2,…     frontend.Write of one row per listed year (request order)
  D:items                    frontend.Destroy
  R                          abrupt restart
  I:items  Y:items           GetInfo (directMap view: latest year, schema) / years in the directMap view
  L  F  S  K                 tbk listing / catalog file listing / symbol listing / disk walk
Mutating steps append `/1` or `/0`: is the catalog consistent with the disk after the step
(catalog listings = listings of a fresh `NewDirectory(root)`, catalog files = `.bin` files on disk,
directMap view = tree view for every 3-item key of the scenario).  Last token `P=1` iff all were.
-/
namespace Mkts.Driver.Catalog
open Mkts.Proto Mkts.Catalog Mkts.CatalogTie

def sortS (l : List String) : List String := l.mergeSort (fun a b => !(decide (b < a)))

def dedup : List String → List String
  | [] => []
  | a :: rest => if rest.contains a then dedup rest else a :: dedup rest

def joinOr (l : List String) : String := if l.isEmpty then "-" else ",".intercalate l

def pathStr (p : Path) : String := "/".intercalate p

def splitItems (s : String) : List String := if s == "" then [""] else s.splitOn "/"

/-- `ListTimeBucketKeyNames` -/
def listTbk (t : Dir) : List String :=
  sortS (dedup ((t.filter (fun e => e.1.length == 3)).map (fun e => pathStr e.1)))

/-- `GatherFilePaths` relative to the root -/
def listFiles (t : Dir) : List String :=
  sortS ((yearsOf t).map (fun e => pathStr e.1 ++ "/" ++ toString e.2 ++ ".bin"))

/-- `GatherCategoriesAndItems()["Symbol"]` -/
def listSymbols (t : Dir) : List String :=
  let dirs := t.filter (fun e => e.2.cat == some "Symbol")
  let subs := dirs.flatMap (fun e => (t.filter (fun f => f.1.length == e.1.length + 1 && isPre e.1 f.1)).map
                 (fun f => f.1.getLastD ""))
  let ys := dirs.flatMap (fun e => e.2.files.map (fun f => toString f.1))
  sortS (dedup (subs ++ ys))

def diskDirs (d : Dir) : List String :=
  sortS (d.map (fun e => (if e.1.isEmpty then "." else pathStr e.1) ++ "=" ++ (e.2.cat.getD "-")))

def yearsView (st : St) (p : Path) : String :=
  match dlookup st p with
  | none => "err:nokey"
  | some r => joinOr (sortS (r.files.map (fun f => toString f.1)))

def treeYears (t : Dir) (p : Path) : List String :=
  sortS ((yearsOf (t.filter (fun e => e.1 == p))).map (fun e => toString e.2))

def dmapAgree (st : St) (p : Path) : Bool :=
  let ty := treeYears st.tree p
  match dlookup st p with
  | none => ty.isEmpty
  | some r => !ty.isEmpty && sortS (r.files.map (fun f => toString f.1)) == ty

def consistent (st : St) (keys : List Path) : Bool :=
  let fresh := load st.disk
  listTbk st.tree == listTbk fresh && listFiles st.tree == listFiles fresh &&
  listSymbols st.tree == listSymbols fresh && listFiles st.tree == listFiles st.disk &&
  keys.all (dmapAgree st)

inductive Step
  | op (tag : String) (o : Mkts.Catalog.Op)
  | info (p : Path) | years (p : Path) | l | f | s | k

def parseStep (s : String) : Option Step :=
  match s.splitOn ":" with
  | ["C", items, cats, sch] => do
    let n ← parseNat sch
    pure (.op "C" (.create (splitItems items) (splitItems cats) n))
  | ["W", items, sch, ys] => do
    let n ← parseNat sch
    let yl ← parseIntList ys
    pure (.op "W" (.write (splitItems items) n yl))
  | ["D", items] => some (.op "D" (.destroy (splitItems items)))
  | ["R"] => some (.op "R" .restart)
  | ["I", items] => some (.info (splitItems items))
  | ["Y", items] => some (.years (splitItems items))
  | ["L"] => some .l
  | ["F"] => some .f
  | ["S"] => some .s
  | ["K"] => some .k
  | _ => none

def stepKeys : Step → List Path
  | .op _ (.create i _ _) => [i]
  | .op _ (.write i _ _) => [i]
  | .op _ (.destroy i) => [i]
  | .info p => [p]
  | .years p => [p]
  | _ => []

/-- hypothesis of `C17_code` that is false for an operation: the key space of the property is
    three-item bucket keys for Create / Write (other depths are other directory layouts) -/
def opHyps (o : Mkts.Catalog.Op) : List String :=
  match o with
  | .create items _ _ => if items.length == 3 then [] else ["key_depth_outside_model"]
  | .write items _ _ => if items.length == 3 then [] else ["key_depth_outside_model"]
  | _ => []

def runSteps (nowYear : Int) (keys : List Path) :
    List Step → St → Bool × List String → List String → List String × Bool × List String
  | [], _, allc, acc => (acc.reverse, allc)
  | stp :: rest, st, allc, acc =>
    match stp with
    | .op tag o =>
      let r := step codeVariant nowYear st o
      let c := consistent r.1 keys
      runSteps nowYear keys rest r.1 (allc.1 && c, allc.2 ++ opHyps o)
        ((tag ++ "=" ++ r.2.str ++ "/" ++ (if c then "1" else "0")) :: acc)
    | .info p =>
      let out := match info st p with
        | none => "I=err:nokey"
        | some (y, sch) => "I=" ++ toString y ++ ":c" ++ toString sch
      runSteps nowYear keys rest st allc (out :: acc)
    | .years p => runSteps nowYear keys rest st allc (("Y=" ++ yearsView st p) :: acc)
    | .l => runSteps nowYear keys rest st allc (("L=" ++ joinOr (listTbk st.tree)) :: acc)
    | .f => runSteps nowYear keys rest st allc (("F=" ++ joinOr (listFiles st.tree)) :: acc)
    | .s => runSteps nowYear keys rest st allc (("S=" ++ joinOr (listSymbols st.tree)) :: acc)
    | .k => runSteps nowYear keys rest st allc
              (("K=" ++ joinOr (diskDirs st.disk) ++ "|" ++ joinOr (listFiles st.disk)) :: acc)

def catOp : Mkts.Proto.Op := fun args =>
  match args with
  | ny :: steps =>
    match parseInt ny, steps.mapM parseStep with
    | some nowYear, some sl =>
      let keys := (sl.flatMap stepKeys).filter (fun p => p.length == 3)
      let (toks, allc, hs) := runSteps nowYear keys sl St.init (true, []) []
      let hyps := dedup hs
      let line := " ".intercalate (toks ++ ["P=" ++ (if allc then "1" else "0")])
      s!"M:{line}\tS:~P=1\tH:{",".intercalate hyps}"
    | _, _ => badArgs
  | _ => badArgs

def ops : OpTable := [("cat", catOp)]

end Mkts.Driver.Catalog
