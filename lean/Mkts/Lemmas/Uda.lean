import Mkts.Model.Uda
/-! Helper lemmas for C23 (folds of the accumulators; the abstract gap specification). -/
namespace Mkts.Uda
open Mkts.Float

/-! ## order on non-NaN single-precision values -/

/-- no NaN among single-precision values -/
def NoNaN (xs : List Nat) : Prop := ∀ x ∈ xs, isNaN b32 x = false

instance (xs : List Nat) : Decidable (NoNaN xs) := inferInstanceAs (Decidable (∀ x ∈ xs, isNaN b32 x = false))

theorem lt_of_noNaN {a b : Nat} (ha : isNaN b32 a = false) (hb : isNaN b32 b = false) :
    lt b32 a b = decide (key b32 a < key b32 b) := by
  simp [lt, ha, hb]

theorem minStep_self (x : Nat) : minStep x x = x := by
  unfold minStep; split <;> rfl

theorem maxStep_self (x : Nat) : maxStep x x = x := by
  unfold maxStep; split <;> rfl

theorem minStep_sel (m x : Nat) : minStep m x = m ∨ minStep m x = x := by
  unfold minStep; split
  · exact Or.inr rfl
  · exact Or.inl rfl

theorem maxStep_sel (m x : Nat) : maxStep m x = m ∨ maxStep m x = x := by
  unfold maxStep; split
  · exact Or.inr rfl
  · exact Or.inl rfl

/-- a fold of a step that always returns one of its arguments returns the seed or a list element -/
theorem foldl_sel_mem (step : Nat → Nat → Nat) (hsel : ∀ m x, step m x = m ∨ step m x = x)
    (xs : List Nat) (m : Nat) : xs.foldl step m = m ∨ xs.foldl step m ∈ xs := by
  induction xs generalizing m with
  | nil => exact Or.inl rfl
  | cons x xs ih =>
    rw [List.foldl_cons]
    rcases ih (step m x) with h | h
    · rcases hsel m x with h2 | h2
      · left; rw [h, h2]
      · right; rw [h, h2]; exact List.mem_cons_self
    · right; exact List.mem_cons_of_mem _ h

theorem foldl_minStep_le (xs : List Nat) (m : Nat) (hm : isNaN b32 m = false) (hxs : NoNaN xs) :
    isNaN b32 (xs.foldl minStep m) = false ∧ key b32 (xs.foldl minStep m) ≤ key b32 m ∧
    ∀ y ∈ xs, key b32 (xs.foldl minStep m) ≤ key b32 y := by
  induction xs generalizing m with
  | nil => exact ⟨hm, Int.le_refl _, fun y hy => by cases hy⟩
  | cons x xs ih =>
    have hx : isNaN b32 x = false := hxs x List.mem_cons_self
    have hxs' : NoNaN xs := fun y hy => hxs y (List.mem_cons_of_mem _ hy)
    rw [List.foldl_cons]
    have hstep : isNaN b32 (minStep m x) = false ∧ key b32 (minStep m x) ≤ key b32 m ∧
        key b32 (minStep m x) ≤ key b32 x := by
      unfold minStep
      rw [lt_of_noNaN hx hm]
      by_cases h : key b32 x < key b32 m
      · simp only [h, decide_true, if_true]; exact ⟨hx, by omega, by omega⟩
      · simp only [h, decide_false, Bool.false_eq_true, if_false]; exact ⟨hm, by omega, by omega⟩
    obtain ⟨h1, h2, h3⟩ := ih (minStep m x) hstep.1 hxs'
    refine ⟨h1, by omega, fun y hy => ?_⟩
    rcases List.mem_cons.mp hy with rfl | hy
    · omega
    · exact h3 y hy

theorem foldl_maxStep_ge (xs : List Nat) (m : Nat) (hm : isNaN b32 m = false) (hxs : NoNaN xs) :
    isNaN b32 (xs.foldl maxStep m) = false ∧ key b32 m ≤ key b32 (xs.foldl maxStep m) ∧
    ∀ y ∈ xs, key b32 y ≤ key b32 (xs.foldl maxStep m) := by
  induction xs generalizing m with
  | nil => exact ⟨hm, Int.le_refl _, fun y hy => by cases hy⟩
  | cons x xs ih =>
    have hx : isNaN b32 x = false := hxs x List.mem_cons_self
    have hxs' : NoNaN xs := fun y hy => hxs y (List.mem_cons_of_mem _ hy)
    rw [List.foldl_cons]
    have hstep : isNaN b32 (maxStep m x) = false ∧ key b32 m ≤ key b32 (maxStep m x) ∧
        key b32 x ≤ key b32 (maxStep m x) := by
      unfold maxStep gt
      rw [lt_of_noNaN hm hx]
      by_cases h : key b32 m < key b32 x
      · simp only [h, decide_true, if_true]; exact ⟨hx, by omega, by omega⟩
      · simp only [h, decide_false, Bool.false_eq_true, if_false]; exact ⟨hm, by omega, by omega⟩
    obtain ⟨h1, h2, h3⟩ := ih (maxStep m x) hstep.1 hxs'
    refine ⟨h1, by omega, fun y hy => ?_⟩
    rcases List.mem_cons.mp hy with rfl | hy
    · omega
    · exact h3 y hy

/-! ## NaN: a comparison with a NaN is false, so the step keeps the accumulator -/

theorem minStep_nan (m x : Nat) (h : isNaN b32 x = true ∨ isNaN b32 m = true) : minStep m x = m := by
  unfold minStep lt
  rcases h with h | h <;> simp [h]

theorem maxStep_nan (m x : Nat) (h : isNaN b32 x = true ∨ isNaN b32 m = true) : maxStep m x = m := by
  unfold maxStep gt lt
  rcases h with h | h <;> simp [h]

/-- a NaN accumulator never changes -/
theorem foldl_step_nan_acc (step : Nat → Nat → Nat)
    (hnan : ∀ m x, isNaN b32 x = true ∨ isNaN b32 m = true → step m x = m)
    (xs : List Nat) (m : Nat) (hm : isNaN b32 m = true) : xs.foldl step m = m := by
  induction xs with
  | nil => rfl
  | cons x xs ih => rw [List.foldl_cons, hnan m x (Or.inr hm), ih]

/-- NaN elements are skipped -/
theorem foldl_step_filter_nan (step : Nat → Nat → Nat)
    (hnan : ∀ m x, isNaN b32 x = true ∨ isNaN b32 m = true → step m x = m)
    (xs : List Nat) (m : Nat) :
    xs.foldl step m = (xs.filter (fun x => !isNaN b32 x)).foldl step m := by
  induction xs generalizing m with
  | nil => rfl
  | cons x xs ih =>
    by_cases hx : isNaN b32 x = true
    · rw [List.foldl_cons, hnan m x (Or.inl hx), ih]
      simp [hx]
    · have hx' : isNaN b32 x = false := by simpa using hx
      rw [List.foldl_cons, ih]
      simp [hx']

/-! ## outputs after every `Accum` = final states of the prefixes -/

theorem runAgg_prefix {σ ο : Type} (accum : σ → Batch → Except String σ) (out : σ → ο)
    (bs : List Batch) (s : σ) (os : List ο) (h : runAgg accum out s bs = .ok os) :
    os.length = bs.length ∧
    ∀ i, i < bs.length → ∃ si, finalState accum s (bs.take (i + 1)) = .ok si ∧ os[i]? = some (out si) := by
  induction bs generalizing s os with
  | nil =>
    simp only [runAgg, Except.ok.injEq] at h
    subst h
    exact ⟨rfl, fun i hi => by cases hi⟩
  | cons b bs ih =>
    rw [runAgg] at h
    cases ha : accum s b with
    | error e => rw [ha] at h; cases h
    | ok s1 =>
      rw [ha] at h
      simp only [] at h
      cases hr : runAgg accum out s1 bs with
      | error e => rw [hr] at h; cases h
      | ok os' =>
        rw [hr] at h
        simp only [Except.ok.injEq] at h
        subst h
        obtain ⟨hl, hi⟩ := ih s1 os' hr
        refine ⟨by simp [hl], fun i hlt => ?_⟩
        cases i with
        | zero => exact ⟨s1, by simp [finalState, ha], by simp⟩
        | succ i =>
          obtain ⟨si, h1, h2⟩ := hi i (by simpa using hlt)
          exact ⟨si, by simp only [List.take_succ_cons, finalState, ha]; exact h1, by simpa using h2⟩

/-! ## the accumulators over a split into batches -/

def images (ty : ColType) (vss : List (List Int)) : List Nat := vss.flatten.map (toF32 ty)

theorem images_cons (ty : ColType) (vs : List Int) (vss : List (List Int)) :
    images ty (vs :: vss) = vs.map (toF32 ty) ++ images ty vss := by
  simp [images]

theorem columnToFloat32_handled {ty : ColType} (h : ty.handled = true) (vs : List Int) :
    columnToFloat32 ⟨ty, vs⟩ = some (vs.map (toF32 ty)) := by
  simp [columnToFloat32, h]

theorem columnToFloat64_handled {ty : ColType} (h : ty.handled64 = true) (vs : List Int) :
    columnToFloat64 ⟨ty, vs⟩ = some (vs.map (toF64 ty)) := by
  simp [columnToFloat64, h]

theorem minMaxAccum_init (step : Nat → Nat → Nat) {ty : ColType} (h : ty.handled = true) (v : Nat)
    (vs : List Int) :
    minMaxAccum step ⟨true, v⟩ (Batch.ofVals ty vs) = .ok ⟨true, (vs.map (toF32 ty)).foldl step v⟩ := by
  cases vs with
  | nil => simp [minMaxAccum, Batch.ofVals]
  | cons a t => simp [minMaxAccum, Batch.ofVals, columnToFloat32_handled h, h]

theorem finalState_minMax_init (step : Nat → Nat → Nat) {ty : ColType} (h : ty.handled = true)
    (vss : List (List Int)) (v : Nat) :
    finalState (minMaxAccum step) ⟨true, v⟩ (vss.map (Batch.ofVals ty)) =
      .ok ⟨true, (images ty vss).foldl step v⟩ := by
  induction vss generalizing v with
  | nil => simp [finalState, images]
  | cons vs vss ih =>
    rw [List.map_cons, finalState, minMaxAccum_init step h]
    simp only []
    rw [ih, images_cons, List.foldl_append]

/-- the state `New` + any sequence of `Accum` calls ends in -/
def minMaxOf (step : Nat → Nat → Nat) (xs : List Nat) : MinMax :=
  match xs with
  | [] => minMaxNew
  | x :: t => ⟨true, t.foldl step x⟩

theorem finalState_minMax_new (step : Nat → Nat → Nat) (hself : ∀ x, step x x = x) {ty : ColType}
    (h : ty.handled = true) (vss : List (List Int)) :
    finalState (minMaxAccum step) minMaxNew (vss.map (Batch.ofVals ty)) =
      .ok (minMaxOf step (images ty vss)) := by
  induction vss with
  | nil => simp [finalState, images, minMaxOf]
  | cons vs vss ih =>
    cases vs with
    | nil =>
      rw [List.map_cons, finalState]
      have : minMaxAccum step minMaxNew (Batch.ofVals ty []) = .ok minMaxNew := by
        simp [minMaxAccum, Batch.ofVals]
      rw [this]; simp only []
      rw [ih, images_cons]; simp
    | cons a t =>
      rw [List.map_cons, finalState]
      have : minMaxAccum step minMaxNew (Batch.ofVals ty (a :: t)) =
          .ok ⟨true, (t.map (toF32 ty)).foldl step (toF32 ty a)⟩ := by
        simp [minMaxAccum, Batch.ofVals, columnToFloat32_handled h, h, minMaxNew, hself]
      rw [this]; simp only []
      rw [finalState_minMax_init step h, images_cons]
      simp [minMaxOf, List.foldl_append]

/-! ## avg -/

/-- the float64 running sum of `avg`: a left fold of float64 `+` over the float64 images of the
    single-precision values, in input order -/
def fsum (acc : Nat) (xs : List Nat) : Nat := xs.foldl (fun a x => add b64 a (convert b32 b64 x)) acc

theorem foldl_avgStep (xs : List Nat) (s : Avg) :
    xs.foldl avgStep s = ⟨fsum s.avg xs, s.count + xs.length⟩ := by
  induction xs generalizing s with
  | nil => simp [fsum]
  | cons x xs ih =>
    rw [List.foldl_cons, ih]
    simp only [avgStep, fsum, List.foldl_cons, List.length_cons, Avg.mk.injEq, true_and]
    omega

theorem avgAccum_ofVals {ty : ColType} (h : ty.handled = true) (s : Avg) (vs : List Int) :
    avgAccum s (Batch.ofVals ty vs) = .ok ((vs.map (toF32 ty)).foldl avgStep s) := by
  cases vs with
  | nil => simp [avgAccum, Batch.ofVals]
  | cons a t => simp [avgAccum, Batch.ofVals, columnToFloat32_handled h, h]

theorem finalState_avg {ty : ColType} (h : ty.handled = true) (vss : List (List Int)) (s : Avg) :
    finalState avgAccum s (vss.map (Batch.ofVals ty)) = .ok ((images ty vss).foldl avgStep s) := by
  induction vss generalizing s with
  | nil => simp [finalState, images]
  | cons vs vss ih =>
    rw [List.map_cons, finalState, avgAccum_ofVals h]
    simp only []
    rw [ih, images_cons, List.foldl_append]

/-! ## count -/

def totalLen (bs : List Batch) : Nat := (bs.map (·.len)).sum

theorem finalState_count (bs : List Batch) (s : Int) :
    finalState countAccum s bs = .ok (s + totalLen bs) := by
  induction bs generalizing s with
  | nil => simp [finalState, totalLen]
  | cons b bs ih =>
    rw [finalState]
    simp only [countAccum]
    rw [ih]
    simp only [totalLen, List.map_cons, List.sum_cons]
    congr 1
    omega

/-! ## gap: the abstract specification -/

/-- consecutive pairs of a list -/
def pairs {α : Type} : List α → List (α × α)
  | a :: b :: rest => (a, b) :: pairs (b :: rest)
  | _ => []

/-- what the property demands: for exactly the consecutive row pairs whose time difference exceeds
    the threshold, the triple (start, end, length) -/
def specGaps (thr : Int) (es : List Int) : List (Int × Int × Int) :=
  ((pairs es).filter (fun p => decide (p.2 - p.1 > thr))).map (fun p => (p.1, p.2, p.2 - p.1))

/-- the test the code performs on one pair: float64 images, float64 subtraction, float64 `>` -/
def gapTest (thr a b : Int) : Bool := gt b64 (sub b64 (ofInt b64 b) (ofInt b64 a)) (ofInt b64 thr)

/-- float64 arithmetic is exact on this input (true whenever all magnitudes are below 2^52) and
    the int64 difference does not wrap -/
def FloatExactOn (thr : Int) (es : List Int) : Prop :=
  ∀ p ∈ pairs es, gapTest thr p.1 p.2 = decide (p.2 - p.1 > thr) ∧ wrap64 (p.2 - p.1) = p.2 - p.1

theorem bigGaps_eq_spec (thr : Int) (es : List Int) (h : FloatExactOn thr es) :
    bigGaps (ofInt b64 thr) (es.zip (es.map (toF64 .i64))) = specGaps thr es := by
  induction es with
  | nil => simp [bigGaps, specGaps, pairs]
  | cons a t ih =>
    cases t with
    | nil => simp [bigGaps, specGaps, pairs]
    | cons b rest =>
      have hp := h (a, b) (by simp [pairs])
      have hrest : FloatExactOn thr (b :: rest) := fun p hp' => h p (by simp [pairs, hp'])
      have ih' := ih hrest
      simp only [List.map_cons, List.zip_cons_cons] at ih' ⊢
      rw [bigGaps, ih']
      have e1 : gt b64 (sub b64 (toF64 .i64 b) (toF64 .i64 a)) (ofInt b64 thr) = decide (b - a > thr) := hp.1
      rw [e1, hp.2]
      by_cases hc : b - a > thr <;> simp [specGaps, pairs, hc]

end Mkts.Uda
