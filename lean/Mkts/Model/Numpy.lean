import Mkts.Model.Rows
import Mkts.Extracted.Numpy
/-!
# Wire dataset model (C27)

Mirrors `utils/io/numpy.go`: `NewNumpyDataset`, `NewNumpyMultiDataset`,
`NumpyMultiDataset.Append`, `NumpyDataset.buildDataShapes`, `NumpyDataset.ToColumnSeries(start,len)`,
`NumpyMultiDataset.ToColumnSeriesMap` (used for write requests), plus the two frontend loops
around them: the composition loop of `frontend/query.go executeQuery` and the client-side
`MultiQueryResponse.ToColumnSeriesMap`.  msgpack is the identity on the exported fields
(types, names, data, length, startindex, lengths); the hidden `dataShapes` field is not
transmitted, so the decoder always rebuilds the shapes from the type strings — the model has
no such field.  Go maps are association lists in insertion order (key order is irrelevant for
the results as long as the normalised bucket keys are distinct).  Core Lean only.
-/
namespace Mkts.Numpy
open Mkts.Rows Mkts.Bytes

/-! ## which variant of the code the CURRENT source implements (read off the regenerated
skeletons, see `Mkts.Rows.hasSub`; pinned by the `code_*` theorems of `Props/C27.lean`) -/

/-- `Append` also compares every column's type string with the dataset's (repair of C27-F27) -/
def appendChecksTypes : Bool :=
  hasSub Mkts.Extracted.Skel.utils_io_NumpyMultiDataset_Append
    ["if:name != colSeriesNames[idx]{", "call:errors.New", "return", "}",
     "if:!ok || typeStr != nmds.ColumnTypes[idx]{", "call:errors.New", "return", "}"]

/-- `ToColumnSeries` returns early only for a dataset without columns; before the repair of
C27-F13 it indexed `ColumnData[0]` and returned a series without columns when that blob was empty -/
def guardsNoColumns : Bool :=
  hasSub Mkts.Extracted.Skel.utils_io_NumpyDataset_ToColumnSeries
    ["call:NewColumnSeries", "if:len(nds.ColumnData) == 0{", "return", "}"]

/-- `ToColumnSeriesMap` decodes a bucket of length ≤ 0 with `ToColumnSeries(0, 0)` (its empty
columns); before the repair of C27-F13 it used `NewColumnSeries()` -/
def emptyBucketDecoded : Bool :=
  hasSub Mkts.Extracted.Skel.utils_io_NumpyMultiDataset_ToColumnSeriesMap
    ["else{", "call:nmds.ToColumnSeries", "if:err != nil{", "return", "}", "}", "call:NewTimeBucketKeyFromString"]

/-- `typeMap[t]` -/
def typeStrOf (t : Nat) : Option String := Mkts.Extracted.typeMap.lookup t

/-- `typeStrMap[s]` (inverse of `typeMap`, whose strings are distinct) -/
def elemTypeOf (s : String) : Option Nat := (Mkts.Extracted.typeMap.find? (fun e => e.2 == s)).map (·.1)

structure NumpyDataset where
  columnTypes : List String
  columnNames : List String
  columnData : List Bytes
  length : Int
deriving DecidableEq, Repr

/-- Go `map[string]int` with `m[k] = v` -/
def mapSet (m : List (String × Int)) (k : String) (v : Int) : List (String × Int) :=
  if m.any (fun p => p.1 == k) then m.map (fun p => if p.1 == k then (k, v) else p) else m ++ [(k, v)]

structure NumpyMultiDataset where
  nds : NumpyDataset
  startIndex : List (String × Int)
  lengths : List (String × Int)
deriving DecidableEq, Repr

/-- `strings.Split(s, ":")` on characters (structural, so that the kernel can evaluate it) -/
def splitColon : List Char → List Char → List (List Char)
  | acc, [] => [acc.reverse]
  | acc, c :: r => if c == ':' then acc.reverse :: splitColon [] r else splitColon (c :: acc) r

/-- `NewTimeBucketKeyFromString(s).String()`: item key, ":" and the category key (second piece,
or the default schema when it is missing or empty); further pieces are dropped -/
def normKey (s : String) : String :=
  let dflt := "Symbol/Timeframe/AttributeGroup".toList
  match splitColon [] s.toList with
  | [] => String.ofList (':' :: dflt)
  | [a] => String.ofList (a ++ ':' :: dflt)
  | a :: b :: _ => String.ofList (a ++ ':' :: (if b.isEmpty then dflt else b))

/-- the type strings of a series' columns (`typeMap[dataShapes[i].Type]`, error when absent) -/
def typeStrings (cols : List Column) : Res (List String) :=
  cols.mapM (fun c => match typeStrOf c.typ with
    | some s => (pure s : Res String)
    | none => throw "err:unsupported")

/-- `NewNumpyDataset(cs)` -/
def newNumpyDataset (cs : ColumnSeries) : Res NumpyDataset := do
  let types ← typeStrings cs.cols
  pure ⟨types, cs.cols.map (·.name), cs.cols.map (fun c => c.elems.flatten), cs.len⟩

/-- `NewNumpyMultiDataset(nds, tbk)` -/
def newNumpyMultiDataset (nds : NumpyDataset) (key : String) : NumpyMultiDataset :=
  ⟨nds, [(key, 0)], [(key, nds.length)]⟩

/-- the comparison loop of `Append` over `nmds.ColumnNames`: the name, then (since the repair of
C27-F27) the type string of the series' column against `nmds.ColumnTypes[idx]`
(`colSeriesNames[idx]` / `ColumnTypes[idx]` panic when the list is shorter) -/
def shapesMatch : List String → List String → List Column → Res Unit
  | [], _, _ => .ok ()
  | _ :: _, _, [] => .error "panic:index"
  | a :: as, ts, c :: cs =>
    if a != c.name then .error "err:append-names"
    else if appendChecksTypes then
      match typeStrOf c.typ with
      | none => .error "err:append-types"
      | some str =>
        match ts with
        | [] => .error "panic:index"
        | t :: ts' => if str != t then .error "err:append-types" else shapesMatch as ts' cs
    else shapesMatch as ts.tail cs

/-- `nmds.ColumnData[idx] = append(nmds.ColumnData[idx], bytes...)` for every series column -/
def appendData : List Bytes → List Bytes → Res (List Bytes)
  | ds, [] => .ok ds
  | [], _ :: _ => .error "panic:index"
  | d :: ds, b :: bs => do
    let rest ← appendData ds bs
    pure ((d ++ b) :: rest)

/-- `NumpyMultiDataset.Append(cs, tbk)`: column count, names and type strings are compared -/
def NumpyMultiDataset.append (n : NumpyMultiDataset) (cs : ColumnSeries) (key : String) : Res NumpyMultiDataset := do
  if n.nds.columnData.length != cs.cols.length then throw "err:append-colcount"
  shapesMatch n.nds.columnNames n.nds.columnTypes cs.cols
  let data ← appendData n.nds.columnData (cs.cols.map (fun c => c.elems.flatten))
  pure ⟨⟨n.nds.columnTypes, n.nds.columnNames, data, n.nds.length + cs.len⟩,
        mapSet n.startIndex key n.nds.length, mapSet n.lengths key cs.len⟩

/-- the composition loop of `executeQuery` (frontend/query.go): the first bucket makes the
dataset, the others are appended.  The loop tests the outer `err` instead of `err2`, so a
failing `NewNumpyDataset` is not reported: for the first bucket the nil dataset is dereferenced,
for later buckets the series is appended regardless. -/
def composeLoop : Option NumpyMultiDataset → List (String × ColumnSeries) → Res (Option NumpyMultiDataset)
  | acc, [] => .ok acc
  | none, (k, cs) :: rest =>
    match newNumpyDataset cs with
    | .ok nds => composeLoop (some (newNumpyMultiDataset nds (normKey k))) rest
    | .error _ => .error "panic:nil"
  | some n, (k, cs) :: rest => do
    let n' ← n.append cs (normKey k)
    composeLoop (some n') rest

def compose (buckets : List (String × ColumnSeries)) : Res (Option NumpyMultiDataset) :=
  composeLoop none buckets

/-! ## decoding -/

/-- `buildDataShapes`: unknown type string ⇒ error; more names than types ⇒ index panic -/
def elemTypes (types : List String) : Res (List Nat) :=
  types.mapM (fun s => match elemTypeOf s with
    | some t => (pure t : Res Nat)
    | none => throw "err:type")

def buildDataShapes (nds : NumpyDataset) : Res (List DataShape) := do
  let etypes ← elemTypes nds.columnTypes
  if etypes.length < nds.columnNames.length then throw "panic:index"
  pure ((nds.columnNames.zip etypes).map (fun p => ⟨p.1, p.2⟩))

/-- Go `b[start:end]` with signed bounds -/
def sliceI (b : Bytes) (start stop : Int) : Res Bytes :=
  if 0 ≤ start ∧ start ≤ stop ∧ stop ≤ b.length then .ok ((b.drop start.toNat).take (stop - start).toNat)
  else .error "panic:slice"

/-- `SwapSliceByte`: a blob as `len/size` elements -/
def chunk (sz : Nat) : Nat → Bytes → List Bytes
  | 0, _ => []
  | fuel + 1, bs => if bs.length < sz || sz == 0 then [] else bs.take sz :: chunk sz fuel (bs.drop sz)

/-- the column loop of `ToColumnSeries` -/
def convertLoop (start len : Int) : List DataShape → List Bytes → ColumnSeries → Res ColumnSeries
  | [], _, cs => .ok cs
  | _ :: _, [], _ => .error "panic:index"
  | s :: ss, d :: ds, cs => do
    let size := (typeSize s.typ : Int)
    let b ← sliceI d (start * size) (start * size + len * size)
    convertLoop start len ss ds (cs.addColumn s.name s.typ (chunk (typeSize s.typ) b.length b))

/-- `NumpyDataset.ToColumnSeries(startIndex, length)` -/
def NumpyDataset.toColumnSeries (nds : NumpyDataset) (start len : Int) : Res ColumnSeries :=
  match nds.columnData with
  | [] => if guardsNoColumns then .ok ColumnSeries.empty else .error "panic:index"
  | d0 :: _ =>
    if !guardsNoColumns && d0.isEmpty then .ok ColumnSeries.empty
    else do
      let shapes ← buildDataShapes nds
      convertLoop start len shapes nds.columnData ColumnSeries.empty

abbrev CSM := List (String × ColumnSeries)

/-- `csm.AddColumnSeries(key, cs)`: one `AddColumn` per column; without columns no entry is made -/
def addColumnSeries (csm : CSM) (key : String) (cs : ColumnSeries) : CSM :=
  cs.cols.foldl (fun m c =>
    if m.any (fun p => p.1 == key) then m.map (fun p => if p.1 == key then (key, p.2.addColumn c.name c.typ c.elems) else p)
    else m ++ [(key, ColumnSeries.empty.addColumn c.name c.typ c.elems)]) csm

def mapGet (m : List (String × Int)) (k : String) : Int := (m.lookup k).getD 0

/-- `NumpyMultiDataset.ToColumnSeriesMap` (numpy.go; write requests): a bucket of length ≤ 0 is
decoded to its empty columns (before the repair of C27-F13: to a series without columns, which
`AddColumnSeries` then dropped) -/
def NumpyMultiDataset.bucketSeries (n : NumpyMultiDataset) (p : String × Int) : Res ColumnSeries :=
  let len := mapGet n.lengths p.1
  if len > 0 then n.nds.toColumnSeries p.2 len
  else if emptyBucketDecoded then n.nds.toColumnSeries 0 0 else .ok ColumnSeries.empty

def NumpyMultiDataset.toColumnSeriesMap (n : NumpyMultiDataset) : Res CSM :=
  n.startIndex.foldlM (fun csm (p : String × Int) => do
    let cs ← n.bucketSeries p
    pure (addColumnSeries csm (normKey p.1) cs)) []

/-- `csm[key] = cs` -/
def csmSet (csm : CSM) (key : String) (cs : ColumnSeries) : CSM :=
  if csm.any (fun p => p.1 == key) then csm.map (fun p => if p.1 == key then (key, cs) else p) else csm ++ [(key, cs)]

/-- `MultiQueryResponse.ToColumnSeriesMap` (frontend/query.go; query responses, one dataset) -/
def NumpyMultiDataset.toColumnSeriesMapClient (n : NumpyMultiDataset) : Res CSM :=
  n.startIndex.foldlM (fun csm (p : String × Int) => do
    let cs ← n.nds.toColumnSeries p.2 (mapGet n.lengths p.1)
    pure (csmSet csm (normKey p.1) cs)) []

/-- what a csm looks like after storing series built with `AddColumn` -/
def expectCSM (buckets : List (String × ColumnSeries)) : CSM :=
  buckets.map (fun p => (normKey p.1, (⟨p.2.cols, []⟩ : ColumnSeries)))

end Mkts.Numpy
