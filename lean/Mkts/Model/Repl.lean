import Mkts.Model.Store
import Mkts.Model.Ticks
import Mkts.Extracted.Skeletons
/-!
# Replication replay model (C25)

Mirrors, for the configured zone UTC:

* `replication/replay.go`: `ReplayerImpl.Replay` (the `isVariableLength` flag of EVERY `writeFunc` call is
  `wtsets[0].RecordType == VARIABLE`), `WTSetToCSM` / `wtSetToCS` (epoch = `IndexToTime(index, tf, year)`;
  FIXED: one row `epoch ++ payload`; VARIABLE: `serializeVariableRecords`: every record gets the interval
  start as Epoch and `GetTimeFromTicks(...)`'s NANOSECOND result as Nanoseconds — the seconds result is
  discarded; NOTYPE / VarRecLen 0: error), `replication/receiver.go`: the first replay error ends `Run`;
* `executor/writer.go`: `Writer.WriteCSM` for one bucket (time from Epoch+Nanoseconds, `Nanoseconds`
  removed only when the flag is set, bucket auto-created with the record type of the FLAG, column
  count/name check against the bucket, record type of the BUCKET used for writing) and `WriteRecords`
  (fixed: `Mkts.Store.writeRecords`; variable: same grouping, records accumulate, ticks appended by
  `GetIntervalTicks32Bit`);
* `executor/wal.go`: a flush = one transaction group = the queued commands in order; primary write per
  command (fixed: overwrite the slot; variable: `WriteBufferToFileIndirect` = append, `sort.Stable` by ticks);
* reading a bucket back (`executor/readvariable.go`, `RewriteBuffer`): slots in (year, index) order,
  variable records stamped `GetTimeFromTicks(intervalStart, intervalsPerDay, ticks)`.

Keys are abstract (`κ`); the timeframe of a key is given by `tfOf` (the code parses it from the key).
Value columns are opaque byte strings (`Mkts.Store` convention); a column list is (name, type) pairs.
Floating point: `Mkts.Ticks` with `rne` (IEEE binary64 round-to-nearest-even on exact rationals).
Not modelled: type coercion of columns (same name, other type ⇒ the op answers `unsupported`), empty
requests, zones other than UTC, `int16(year)` wrap-around, query range trimming (queries here are
bounded two days outside the data).
-/
namespace Mkts.Repl
open Mkts.Time Mkts.Bytes Mkts.Store

/-- `io.EnumRecordType` -/
inductive RT
  | fixed | variable | notype
deriving DecidableEq, Repr

abbrev Cols := List (String × String)

/-- a write command of a transaction group = a `wal.WTSet` on the replica -/
structure WSet (κ : Type) where
  rt : RT
  key : κ
  year : Int
  index : Int
  varRecLen : Nat
  /-- payload: fixed = one record; variable = records of `varRecLen` bytes, each ending in 4 bytes ticks -/
  data : Bytes
  /-- the bucket's value columns (DataShapes without Epoch) -/
  cols : Cols
deriving Repr, DecidableEq

/-- one bucket of a ColumnSeriesMap -/
structure CS (κ : Type) where
  key : κ
  cols : Cols
  /-- a column named `Nanoseconds` (int32) is present -/
  hasNanos : Bool
  /-- (Epoch, Nanoseconds value, value-column bytes) -/
  rows : List (Int × Int × Bytes)
deriving Repr, DecidableEq

abbrev VSlots := List ((Int × Int) × List (Int × Bytes))

structure Bucket (κ : Type) where
  key : κ
  tf : Int
  isVar : Bool
  cols : Cols
  fslots : Slots
  /-- variable bucket: (year, index) ↦ records (ticks, payload), stably sorted by ticks -/
  vslots : VSlots
deriving Repr, DecidableEq

def nanosCol : String × String := ("Nanoseconds", "int32")

/-- `TimeBucketInfo.GetIntervals` / `uint32(Day.Seconds() / tf.Seconds())` (exact for catalog timeframes) -/
def ipdOf (tf : Int) : Int := Mkts.Ticks.intervalsPerDay tf

/-! ## replica side: `wtSetToCS` -/

/-- chunks of `n` bytes (`n > 0`), Go's `len(payload) / varRecLen` whole records -/
def chunks (n : Nat) : Nat → Bytes → List Bytes
  | 0, _ => []
  | k + 1, b => b.take n :: chunks n k (b.drop n)

/-- Which `executor.GetTimeFromTicks` is in the tree (read off the regenerated skeleton): the original one
    (second = `math.Round(fs*1e8)/1e8`, finding C10-F5) or the repaired one (second = floor, a nanosecond
    field of 1e9 carries into the second). The model follows the source. -/
def decodeIsOriginal : Bool := Mkts.Extracted.Skel.executor_GetTimeFromTicks.contains "call:math.Round"

/-- `GetTimeFromTicks(start, intervalsPerDay, k)` -/
def decodeTicks (start ipd k : Int) : Mkts.Ticks.Decoded :=
  if decodeIsOriginal then Mkts.Ticks.getTimeFromTicksOld Mkts.Ticks.rne start ipd k
  else Mkts.Ticks.getTimeFromTicksFixed Mkts.Ticks.rne start ipd k

/-- whole seconds from the interval start that `GetTimeFromTicks` reports for ticks `k` -/
def secOffset (tf k : Int) : Int := (decodeTicks 0 (ipdOf tf) k).sec

/-- nanosecond field written by `serializeVariableRecords` for a record with ticks `k`:
    `int32(nanosecond)` of `GetTimeFromTicks(epoch, intervalsPerDay, k)`; the seconds are dropped -/
def replicaNanos (tf k : Int) : Int :=
  let n := (decodeTicks 0 (ipdOf tf) k).nanos
  if n < 2147483648 then n else n - 4294967296

/-- `wtSetToCS`; `none` = error return -/
def wtSetToCS {κ} (tfOf : κ → Option Int) (w : WSet κ) : Option (CS κ) :=
  match tfOf w.key with
  | none => none
  | some tf =>
    let epoch := indexToTime utc w.index tf w.year / nsPerSec
    match w.rt with
    | .fixed => some ⟨w.key, w.cols, false, [(epoch, 0, w.data)]⟩
    | .variable =>
      if w.varRecLen = 0 then none else
      let recs := chunks w.varRecLen (w.data.length / w.varRecLen) w.data
      some ⟨w.key, w.cols, true, recs.map (fun r =>
        let ticks : Int := leDecode (r.drop (r.length - 4))
        (epoch, replicaNanos tf ticks, r.take (r.length - 4)))⟩
    | .notype => none

/-! ## `Writer.WriteCSM` for one bucket + `WriteRecords` -/

inductive WErr
  | colmismatch
  | timeframe
  /-- outside the model (type coercion, empty request) -/
  | unsupported
deriving DecidableEq, Repr

def findB {κ} [DecidableEq κ] (bs : List (Bucket κ)) (k : κ) : Option (Bucket κ) := bs.find? (fun b => b.key = k)

def replaceB {κ} [DecidableEq κ] (bs : List (Bucket κ)) (b : Bucket κ) : List (Bucket κ) :=
  if (findB bs b.key).isSome then bs.map (fun x => if x.key = b.key then b else x) else bs ++ [b]

/-- `WriteRecords` on a variable bucket: consecutive rows of one (index, year) accumulate in one command.
    Rows are (time ns, payload). -/
def writeRecordsVarAux (tf : Int) : List (Int × Bytes) → Option (Int × Int × Bytes) → List (Int × Int × Bytes) →
    List (Int × Int × Bytes)
  | [], cc, acc => match cc with | none => acc.reverse | some c => (c :: acc).reverse
  | (t, p) :: rest, cc, acc =>
    let year := localYear utc t
    let index := timeToIndex utc t tf
    let ticks := Mkts.Ticks.getIntervalTicks32Bit Mkts.Ticks.rne t index (ipdOf tf)
    let rec_ := p ++ le 4 ticks.toNat
    match cc with
    | none => writeRecordsVarAux tf rest (some (year, index, rec_)) acc
    | some (cy, ci, cd) =>
      if index = ci ∧ year = cy then writeRecordsVarAux tf rest (some (cy, ci, cd ++ rec_)) acc
      else writeRecordsVarAux tf rest (some (year, index, rec_)) ((cy, ci, cd) :: acc)

/-- the commands one bucket of a `WriteCSM` call queues, and the (possibly created) bucket list -/
def writeOne {κ} [DecidableEq κ] (tfOf : κ → Option Int) (bs : List (Bucket κ)) (cs : CS κ) (flag : Bool) :
    Except WErr (List (Bucket κ) × List (WSet κ)) :=
  match tfOf cs.key with
  | none => .error .timeframe
  | some tf =>
    if cs.rows.isEmpty then .error .unsupported else
    -- `cs.GetTime()` is taken BEFORE the Nanoseconds column is removed
    let keepNanos := cs.hasNanos && !flag
    let effCols := cs.cols ++ (if keepNanos then [nanosCol] else [])
    let rows : List (Int × Bytes) := cs.rows.map (fun r =>
      (r.1 * nsPerSec + (if cs.hasNanos then r.2.1 else 0),
       r.2.2 ++ (if keepNanos then leInt 4 r.2.1 else [])))
    let (bs1, b) := match findB bs cs.key with
      | some b => (bs, b)
      | none =>
        let b : Bucket κ := ⟨cs.key, tf, flag, effCols, [], []⟩
        (bs ++ [b], b)
    if b.cols.length ≠ effCols.length then .error .colmismatch
    else if b.cols.any (fun c => !(effCols.map (·.1)).contains c.1) then .error .colmismatch
    else if b.cols.any (fun c => effCols.any (fun e => e.1 == c.1 && e.2 != c.2)) then .error .unsupported
    else
      let recLen := (rows.head?.map (fun r => r.2.length)).getD 0
      if b.isVar then
        .ok (bs1, (writeRecordsVarAux tf rows none []).map (fun c =>
          ⟨.variable, cs.key, c.1, c.2.1, recLen + 4, c.2.2, b.cols⟩))
      else
        .ok (bs1, (writeRecords tf (rows.map (fun r => ⟨r.1 / nsPerSec, r.2⟩))).map (fun c =>
          ⟨.fixed, cs.key, c.year, c.index, 0, c.payload, b.cols⟩))

/-! ## primary write of a flushed transaction group -/

def vput (s : VSlots) (k : Int × Int) (f : List (Int × Bytes) → List (Int × Bytes)) : VSlots :=
  match s with
  | [] => [(k, f [])]
  | (k', v) :: rest => if k' = k then (k, f v) :: rest else (k', v) :: vput rest k f

/-- stable insertion sort by ticks (`sort.Stable(NewByIntervalTicks(...))`, unsigned compare) -/
def insertByTicks (x : Int × Bytes) : List (Int × Bytes) → List (Int × Bytes)
  | [] => [x]
  | y :: rest => if x.1 < y.1 then x :: y :: rest else y :: insertByTicks x rest

def sortByTicks (l : List (Int × Bytes)) : List (Int × Bytes) :=
  l.foldl (fun acc x => insertByTicks x acc) []

def applySet {κ} [DecidableEq κ] (bs : List (Bucket κ)) (w : WSet κ) : List (Bucket κ) :=
  bs.map (fun b =>
    if b.key = w.key then
      (if b.isVar then
        let recs := (chunks w.varRecLen (if w.varRecLen = 0 then 0 else w.data.length / w.varRecLen) w.data).map
          (fun r => ((leDecode (r.drop (r.length - 4)) : Int), r.take (r.length - 4)))
        { b with vslots := vput b.vslots (w.year, w.index) (fun old => sortByTicks (old ++ recs)) }
      else { b with fslots := applyCmds b.fslots [⟨w.year, w.index, w.data⟩] })
    else b)

def applyTG {κ} [DecidableEq κ] (bs : List (Bucket κ)) (tg : List (WSet κ)) : List (Bucket κ) := tg.foldl applySet bs

/-! ## master: one `WriteCSM` call = one transaction group -/

/-- all buckets of the call in map-iteration order (fixed by the op line); `none` = a multi-bucket call
    failed part-way (queue contents then depend on the map order: outside the model) -/
def masterWrite {κ} [DecidableEq κ] (tfOf : κ → Option Int) (bs : List (Bucket κ)) (css : List (CS κ)) (flag : Bool) :
    Option (List (Bucket κ) × Except WErr (List (WSet κ))) :=
  let r := css.foldl (fun (st : Except WErr (List (Bucket κ) × List (WSet κ))) cs =>
    match st with
    | .error e => .error e
    | .ok (bs, acc) => match writeOne tfOf bs cs flag with
      | .error e => .error e
      | .ok (bs', cmds) => .ok (bs', acc ++ cmds)) (.ok (bs, []))
  match r with
  | .ok (bs', tg) => some (applyTG bs' tg, .ok tg)
  | .error .unsupported => none
  -- a failed check happens before anything of that bucket is queued (and only for an existing bucket)
  | .error e => if css.length = 1 then some (bs, .error e) else none

/-! ## replica: `Replay` of one transaction group -/

/-- `Replay`: every set is converted and written by its own `WriteCSM` call (= its own flush) with the
    flag of the FIRST set; the first error aborts (the sets before it stay applied). -/
def replayAux {κ} [DecidableEq κ] (tfOf : κ → Option Int) (flag : Bool) :
    List (Bucket κ) → List (WSet κ) → List (Bucket κ) × Bool
  | bs, [] => (bs, true)
  | bs, w :: rest =>
    match wtSetToCS tfOf w with
    | none => (bs, false)
    | some cs =>
      match writeOne tfOf bs cs flag with
      | .error _ => (bs, false)
      | .ok (bs', cmds) => replayAux tfOf flag (applyTG bs' cmds) rest

def replay {κ} [DecidableEq κ] (tfOf : κ → Option Int) (bs : List (Bucket κ)) (tg : List (WSet κ)) :
    List (Bucket κ) × Bool :=
  match tg with
  | [] => (bs, true)
  | w :: _ => replayAux tfOf (w.rt == .variable) bs tg

/-- `Receiver.Run`: transaction groups in order until the first replay error;
    result: state and `none` (all applied) or the index of the failing group -/
def receive {κ} [DecidableEq κ] (tfOf : κ → Option Int) : List (Bucket κ) → List (List (WSet κ)) → Nat →
    List (Bucket κ) × Option Nat
  | bs, [], _ => (bs, none)
  | bs, tg :: rest, i =>
    match replay tfOf bs tg with
    | (bs', true) => receive tfOf bs' rest (i + 1)
    | (bs', false) => (bs', some i)

/-- a whole history on the master: the buckets and the transaction groups handed to `ReplicationSender.Send`;
    `none` = outside the model -/
def masterRun {κ} [DecidableEq κ] (tfOf : κ → Option Int) (steps : List (List (CS κ) × Bool)) :
    Option (List (Bucket κ) × List (List (WSet κ))) :=
  steps.foldl (fun acc st =>
    match acc with
    | none => none
    | some (bs, tgs) =>
      match masterWrite tfOf bs st.1 st.2 with
      | none => none
      | some (bs', .ok tg) => some (bs', if tg.isEmpty then tgs else tgs ++ [tg])
      | some (bs', .error _) => some (bs', tgs)) (some ([], []))

/-! ## reading a bucket back -/

structure OutRow where
  sec : Int
  nanos : Int
  payload : Bytes
deriving Repr, DecidableEq

def vinsertSorted (k : Int × Int) (v : List (Int × Bytes)) : VSlots → VSlots
  | [] => [(k, v)]
  | (k', v') :: rest =>
    if k.1 < k'.1 ∨ (k.1 = k'.1 ∧ k.2 ≤ k'.2) then (k, v) :: (k', v') :: rest
    else (k', v') :: vinsertSorted k v rest

def vsorted (s : VSlots) : VSlots := s.foldr (fun kv acc => vinsertSorted kv.1 kv.2 acc) []

/-- the timestamp the reader (`RewriteBuffer`) gives a variable record: BOTH results of `GetTimeFromTicks` -/
def masterStamp (tf year index ticks : Int) : Int × Int :=
  let start := indexToTime utc index tf year / nsPerSec
  let d := decodeTicks start (ipdOf tf) ticks
  (d.sec, d.nanos)

/-- query with bounds `[start, stop]` (ns) far outside the data -/
def readBucket {κ} (b : Bucket κ) (start stop : Int) : List OutRow :=
  let q : Query := ⟨some start, some stop, none⟩
  if b.isVar then
    ((vsorted b.vslots).filter (fun kv => inRange b.tf q kv.1.1 kv.1.2)).flatMap (fun kv =>
      kv.2.map (fun r =>
        let st := masterStamp b.tf kv.1.1 kv.1.2 r.1
        ⟨st.1, st.2, r.2⟩))
  else
    let hasN := b.cols.getLast? == some nanosCol
    (query b.tf b.fslots q).map (fun r =>
      if hasN then ⟨r.sec, leDecodeInt (r.payload.drop (r.payload.length - 4)), r.payload.take (r.payload.length - 4)⟩
      else ⟨r.sec, 0, r.payload⟩)

/-- the C25 predicate on two answers: same rows; for variable-length buckets timestamps may differ by
    one tick (`tf / 2^32` ns rounded up: decode → encode → decode on the replica loses at most one tick) -/
def sameAnswer (tf : Int) (m r : List OutRow) : Bool :=
  m == r ||
  (m.length == r.length &&
   (m.zip r).all (fun p =>
     let d := (p.1.sec * nsPerSec + p.1.nanos) - (p.2.sec * nsPerSec + p.2.nanos)
     let res := max 1 ((tf + 4294967295) / 4294967296)
     p.1.payload == p.2.payload && decide (d ≤ res) && decide (-d ≤ res)))

end Mkts.Repl
