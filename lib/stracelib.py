"""strace log -> ordered list of file-mutating operations; disk images of prefixes.

Used by the trace-level checks (C01-C05, C07, C34, C35): the workload process (go/harness
`workload`) runs the real server code under
  strace -f -y -xx -s <big> -e trace=openat,read,write,pwrite64,lseek,ftruncate,fsync,fdatasync,sync,syncfs,rename,renameat,renameat2,unlink,unlinkat,mkdir,mkdirat,close
File positions of write(2) are reconstructed from lseek/read/write return values per open file
description; `<unfinished ...>`/`<... resumed>` pairs are re-joined (the operation is placed
where it *finished*).
"""
import os, re, shutil, subprocess

TRACE_SET = "openat,read,write,pwrite64,lseek,ftruncate,fsync,fdatasync,sync,syncfs,rename,renameat,renameat2,unlink,unlinkat,mkdir,mkdirat,close"


def unhex(s):
    """decode a strace -xx string body (\\xNN sequences, possibly mixed with plain chars)"""
    out = bytearray()
    i = 0
    n = len(s)
    while i < n:
        if s[i] == "\\" and i + 3 < n + 1 and s[i + 1] == "x":
            out.append(int(s[i + 2:i + 4], 16))
            i += 4
        elif s[i] == "\\" and i + 1 < n:
            c = s[i + 1]
            out.append({"n": 10, "t": 9, "r": 13, "\\": 92, '"': 34, "0": 0}.get(c, ord(c)))
            i += 2
        else:
            out.append(ord(s[i]))
            i += 1
    return bytes(out)


_fd_re = re.compile(r'^(\d+)<(.*)>$')


def parse_fd(tok):
    m = _fd_re.match(tok.strip())
    if not m:
        return None, None
    return int(m.group(1)), unhex(m.group(2)).decode(errors="replace")


def split_args(s):
    """split a syscall argument string on top-level commas (strings in double quotes, <...> fd decorations)"""
    args, cur, depth, inq = [], [], 0, False
    i = 0
    while i < len(s):
        c = s[i]
        if inq:
            cur.append(c)
            if c == "\\" and i + 1 < len(s):
                cur.append(s[i + 1]); i += 1
            elif c == '"':
                inq = False
        elif c == '"':
            inq = True; cur.append(c)
        elif c in "<{[(":
            depth += 1; cur.append(c)
        elif c in ">}])":
            depth -= 1; cur.append(c)
        elif c == "," and depth == 0:
            args.append("".join(cur).strip()); cur = []
        else:
            cur.append(c)
        i += 1
    if cur:
        args.append("".join(cur).strip())
    return args


def parse_log(path):
    """returns list of (pid, name, args(list of str), ret(str)) in completion order"""
    pending = {}
    out = []
    line_re = re.compile(r'^(\d+)\s+(.*)$')
    with open(path, errors="replace") as f:
        for raw in f:
            raw = raw.rstrip("\n")
            m = line_re.match(raw)
            if not m:
                continue
            pid, rest = int(m.group(1)), m.group(2)
            if rest.startswith("+++") or rest.startswith("---"):
                continue
            if rest.endswith("<unfinished ...>"):
                pending[pid] = rest[:-len("<unfinished ...>")].rstrip()
                continue
            mr = re.match(r'^<\.\.\. (\w+) resumed>(.*)$', rest)
            if mr:
                head = pending.pop(pid, mr.group(1) + "(")
                rest = head + mr.group(2)
            mc = re.match(r'^(\w+)\((.*)\)\s+=\s+(.*)$', rest)
            if not mc:
                continue
            out.append((pid, mc.group(1), split_args(mc.group(2)), mc.group(3).strip()))
    return out


def strbody(tok):
    tok = tok.strip()
    if tok.endswith("..."):
        raise ValueError("truncated string in strace output; raise -s")
    if tok.startswith('"') and tok.endswith('"'):
        return unhex(tok[1:-1])
    return None


def mutations(calls, root, markers):
    """Turn syscalls into mutating operations on paths under `root`, plus ack markers.
    Each op: dict(kind=..., path=..., off=..., data=..., len=...)."""
    pos = {}     # fd -> position (fds are process-wide; threads share them)
    ops = []
    root = os.path.realpath(root)
    markers = os.path.realpath(markers)

    def under(p):
        return p is not None and (p == root or p.startswith(root + "/"))

    for pid, name, a, ret in calls:
        rv = ret.split(" ")[0]
        failed = rv.startswith("-1") or rv == "?"
        if name == "openat":
            if failed:
                continue
            fd, p = parse_fd(ret.split(" ")[0] if "<" in ret else ret)
            if fd is None:
                m = re.match(r'^(\d+)<(.*)>', ret)
                if m:
                    fd, p = int(m.group(1)), unhex(m.group(2)).decode(errors="replace")
            if fd is None:
                continue
            flags = a[2] if len(a) > 2 else ""
            pos[fd] = 0
            if under(p) and "O_CREAT" in flags:
                ops.append(dict(kind="create", path=p, trunc=("O_TRUNC" in flags)))
            elif under(p) and "O_TRUNC" in flags:
                ops.append(dict(kind="truncate", path=p, len=0))
            if "O_APPEND" in flags:
                pos[fd] = None   # position unknown/append: handled at write time
        elif name in ("write", "read"):
            fd, p = parse_fd(a[0])
            if failed or fd is None:
                continue
            n = int(rv)
            if name == "write":
                if p == markers:
                    data = strbody(a[1])
                    ops.append(dict(kind="ack", text=data.decode(errors="replace").strip()))
                elif under(p):
                    data = strbody(a[1])[:n]
                    ops.append(dict(kind="write", path=p, off=pos.get(fd), data=data))
            if pos.get(fd) is not None:
                pos[fd] = pos.get(fd, 0) + n
        elif name == "pwrite64":
            fd, p = parse_fd(a[0])
            if failed or not under(p):
                continue
            n = int(rv)
            ops.append(dict(kind="write", path=p, off=int(a[3]), data=strbody(a[1])[:n]))
        elif name == "lseek":
            fd, p = parse_fd(a[0])
            if failed or fd is None:
                continue
            pos[fd] = int(rv)
        elif name == "ftruncate":
            fd, p = parse_fd(a[0])
            if failed or not under(p):
                continue
            ops.append(dict(kind="truncate", path=p, len=int(a[1])))
        elif name in ("fsync", "fdatasync"):
            fd, p = parse_fd(a[0])
            if failed or not under(p):
                continue
            ops.append(dict(kind="fsync", path=p))
        elif name in ("sync", "syncfs"):
            ops.append(dict(kind="sync"))
        elif name in ("unlink", "unlinkat"):
            if failed:
                continue
            ptok = a[0] if name == "unlink" else a[1]
            p = strbody(ptok).decode(errors="replace")
            if under(p):
                ops.append(dict(kind="unlink", path=p))
        elif name in ("mkdir", "mkdirat"):
            if failed:
                continue
            ptok = a[0] if name == "mkdir" else a[1]
            p = strbody(ptok).decode(errors="replace")
            if under(p):
                ops.append(dict(kind="mkdir", path=p))
        elif name in ("rename", "renameat", "renameat2"):
            if failed:
                continue
            if name == "rename":
                s, d = a[0], a[1]
            else:
                s, d = a[1], a[3]
            s, d = strbody(s).decode(errors="replace"), strbody(d).decode(errors="replace")
            if under(s) or under(d):
                ops.append(dict(kind="rename", path=s, dst=d))
        elif name == "close":
            fd, p = parse_fd(a[0])
            if fd is not None:
                pos.pop(fd, None)
    return ops


def run_traced(cmd, logfile, timeout=600, env=None):
    full = ["strace", "-f", "-y", "-xx", "-s", "4000000", "-e", "trace=" + TRACE_SET, "-o", logfile] + cmd
    p = subprocess.run(full, stdout=subprocess.DEVNULL, stderr=subprocess.PIPE, timeout=timeout, env=env)
    return p.returncode, p.stderr.decode(errors="replace")[-2000:]


class Image:
    """Materialises the directory tree produced by a prefix of mutating operations.
    Keeps the data of every file in memory as a list of (offset, bytes) extents plus a length,
    so that thousands of prefixes can be written out cheaply (sparse)."""

    def __init__(self, root):
        self.root = os.path.realpath(root)
        self.files = {}    # rel path -> dict(len=int, ext=[(off, data)])
        self.dirs = set()

    def rel(self, p):
        return os.path.relpath(p, self.root)

    def apply(self, op):
        k = op["kind"]
        if k == "create":
            r = self.rel(op["path"])
            if r not in self.files or op.get("trunc"):
                self.files[r] = dict(len=0, ext=[])
        elif k == "write":
            r = self.rel(op["path"])
            f = self.files.setdefault(r, dict(len=0, ext=[]))
            off = op["off"] if op["off"] is not None else f["len"]
            f["ext"].append((off, op["data"]))
            f["len"] = max(f["len"], off + len(op["data"]))
        elif k == "truncate":
            r = self.rel(op["path"])
            f = self.files.setdefault(r, dict(len=0, ext=[]))
            n = op["len"]
            if n < f["len"]:
                ne = []
                for off, d in f["ext"]:
                    if off >= n:
                        continue
                    ne.append((off, d[:max(0, n - off)]))
                f["ext"] = ne
            f["len"] = n
        elif k == "unlink":
            r = self.rel(op["path"])
            self.files.pop(r, None)
            self.dirs.discard(r)
        elif k == "mkdir":
            self.dirs.add(self.rel(op["path"]))
        elif k == "rename":
            s, d = self.rel(op["path"]), self.rel(op["dst"])
            if s in self.files:
                self.files[d] = self.files.pop(s)

    def clone(self):
        im = Image(self.root)
        im.files = {k: dict(len=v["len"], ext=list(v["ext"])) for k, v in self.files.items()}
        im.dirs = set(self.dirs)
        return im

    def materialise(self, dest):
        shutil.rmtree(dest, ignore_errors=True)
        os.makedirs(dest)
        for d in sorted(self.dirs):
            os.makedirs(os.path.join(dest, d), exist_ok=True)
        for r, f in self.files.items():
            p = os.path.join(dest, r)
            os.makedirs(os.path.dirname(p), exist_ok=True)
            with open(p, "wb") as fh:
                for off, data in f["ext"]:
                    fh.seek(off)
                    fh.write(data)
                fh.truncate(f["len"])
