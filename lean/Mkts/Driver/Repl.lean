import Mkts.Proto
import Mkts.Model.Repl
/-!
Driver for the C25 ops (go/harness/repl_ops.go):

  repl <nowYear> M:<f|v>:<key>;<cols>;<rows>~<key>;<cols>;<rows>…  …
  wtset <tf> <year> <rt> <index> <varRecLen> <payloadhex> <ncols>
-/
namespace Mkts.Driver.Repl
open Mkts.Proto Mkts.Repl Mkts.Time Mkts.Bytes

def parseTf (s : String) : Option Int :=
  let ds := s.toList.takeWhile Char.isDigit
  let suffix := String.ofList (s.toList.drop ds.length)
  match (String.ofList ds).toNat?, suffix with
  | some n, "Sec" => some (n * 1000000000)
  | some n, "Min" => some (n * 60000000000)
  | some n, "H" => some (n * 3600000000000)
  | some n, "D" => some (n * 86400000000000)
  | _, _ => none

def tfOf (key : String) : Option Int :=
  match key.splitOn "/" with
  | [_, tf, _] => parseTf tf
  | _ => none

def typeSize (ty : String) : Option Nat :=
  (Mkts.Extracted.attributeMap.find? (fun e => e.2.1 == ty)).map (fun e => e.2.2)

def parseCols (s : String) : Option Cols :=
  if s == "-" || s == "" then some [] else
  (s.splitOn ",").mapM (fun p => match p.splitOn "=" with
    | [n, t] => if (typeSize t).isSome then some (n, t) else none
    | _ => none)

def parseRows (s : String) : Option (List (Int × Int × Bytes)) :=
  if s == "-" || s == "" then some [] else
  (s.splitOn "+").mapM (fun r => match r.splitOn "," with
    | [a, b, c] => do pure ((← parseInt a), (← parseInt b), (← hexToBytes c))
    | _ => none)

structure Step where
  flag : Bool
  subs : List (CS String)

def parseStep (st : String) : Option Step :=
  match st.splitOn ":" with
  | ["M", fl, body] =>
    if fl != "f" && fl != "v" then none else do
    let subs ← (body.splitOn "~").mapM (fun sub => match sub.splitOn ";" with
      | [key, cols, rows] => do
        let cs ← parseCols cols
        let rs ← parseRows rows
        -- the wire dataset of a variable-length write carries a Nanoseconds column
        pure (⟨key, cs, fl == "v", rs.map (fun r => (r.1, (if fl == "v" then
          (let n := r.2.1 % 4294967296; if n < 2147483648 then n else n - 4294967296) else 0), r.2.2))⟩ : CS String)
      | _ => none)
    pure ⟨fl == "v", subs⟩
  | _ => none

def errName : WErr → String
  | .colmismatch => "err:colmismatch"
  | .timeframe => "err:timeframe"
  | .unsupported => "err:unsupported"

def hdrOf (b : Bucket String) : List String :=
  (b.cols.filter (fun (c : String × String) => c.1 != "Nanoseconds")).map (fun c => c.1)

def render (b : Bucket String) (rows : List OutRow) : String :=
  if rows.isEmpty then "0[]" else
  let hdr := hdrOf b
  s!"{rows.length}[{",".intercalate hdr}]" ++
    "+".intercalate (rows.map (fun r => s!"{r.sec},{r.nanos},{bytesToHex r.payload}"))

def sortStrings (l : List String) : List String := (l.toArray.qsort (· < ·)).toList

def ticksOf (w : WSet String) : List Int :=
  if w.varRecLen = 0 then [] else
  (chunks w.varRecLen (w.data.length / w.varRecLen) w.data).map (fun r => (leDecode (r.drop (r.length - 4)) : Int))

def replOp : Op := fun args =>
  match args with
  | [] => badArgs
  | _ :: steps =>
    match steps.mapM parseStep with
    | none => badArgs
    | some sts =>
      -- master
      let r := sts.foldl (fun (acc : Option (List (Bucket String) × List (List (WSet String)) × List String)) st =>
        match acc with
        | none => none
        | some (bs, tgs, out) =>
          match masterWrite tfOf bs st.subs st.flag with
          | none => none
          | some (bs', .ok tg) => some (bs', (if tg.isEmpty then tgs else tgs ++ [tg]), out ++ ["M=ok"])
          | some (bs', .error e) => some (bs', tgs, out ++ ["M=" ++ errName e])) (some ([], [], []))
      match r with
      | none => "M:unsupported"
      | some (mbs, tgs, out) =>
        let (rbs, failed) := receive tfOf [] tgs 0
        let ptok := match failed with
          | none => s!"P=eof@{tgs.length}"
          | some i => s!"P=err:replay@{i}"
        let allRows := sts.flatMap (fun st => st.subs.map (fun cs => (cs.key, cs.rows.map (·.1))))
        let keys := sortStrings ((allRows.map (·.1)).eraseDups)
        let per := keys.map (fun k =>
          let secs := (allRows.filter (fun kr => kr.1 == k)).flatMap (·.2)
          let lo := (secs.foldl min (secs.headD 0) - 172800) * nsPerSec
          let hi := (secs.foldl max (secs.headD 0) + 172800) * nsPerSec
          let m := (findB mbs k).map (fun b => (b, readBucket b lo hi))
          let rr := (findB rbs k).map (fun b => (b, readBucket b lo hi))
          let ms := match m with | some (b, rows) => render b rows | none => "err:nofiles"
          let rs := match rr with | some (b, rows) => render b rows | none => "err:nofiles"
          let ok := match m, rr with
            | some (b, mrows), some (b2, rrows) =>
              ms == rs || ((hdrOf b == hdrOf b2 || mrows.isEmpty || rrows.isEmpty) &&
                (if mrows.isEmpty || rrows.isEmpty then mrows.isEmpty && rrows.isEmpty else sameAnswer b.tf mrows rrows))
            | none, none => true
            | _, _ => false
          (s!"K={k} m={ms} r={rs}", ok))
        let v := if per.isEmpty then "-" else String.join (per.map (fun p => if p.2 then "1" else "0"))
        let vs := if per.isEmpty then "-" else String.join (per.map (fun _ => "1"))
        let line := " ".intercalate (out ++ [s!"T={tgs.length}", ptok] ++ per.map (·.1) ++ [s!"V={v}"])
        let mixed := tgs.any (fun tg => match tg with
          | [] => false
          | w :: rest => rest.any (fun x => x.rt != w.rt))
        let offs := tgs.any (fun tg => tg.any (fun w => w.rt == .variable &&
          (match tfOf w.key with
           | some tf => (ticksOf w).any (fun k => secOffset tf k != 0)
           | none => false)))
        let hy := (if mixed then ["tg_homogeneous"] else []) ++ (if offs then ["var_offset_lt_1s"] else [])
        s!"M:{line}\tS:~V={vs}\tH:{",".intercalate hy}"

def wtsetOp : Op := fun args =>
  match args with
  | [tf, year, rt, index, vrl, payload, ncols] =>
    match parseInt year, parseNat rt, parseInt index, parseNat vrl, hexToBytes payload, parseNat ncols with
    | some year, some rt, some index, some vrl, some payload, some ncols =>
      let key := s!"SYM/{tf}/AG"
      let rtv : RT := if rt == 0 then .fixed else if rt == 1 then .variable else .notype
      let cols : Cols := (List.range ncols).map (fun i => (s!"c{i}", "byte"))
      match tfOf key with
      | none => "M:err:timeframe"
      | some _ =>
        match wtSetToCS tfOf (⟨rtv, key, year, index, vrl, payload, cols⟩ : WSet String) with
        | none => if rtv == .notype then "M:err:notype" else "M:err:varreclen0"
        | some cs =>
          let rows := cs.rows.map (fun r => s!"{r.1},{r.2.1},{bytesToHex r.2.2}")
          let hdr := ",".intercalate (cols.map (·.1))
          if rows.isEmpty then s!"M:{key}=0[]" else s!"M:{key}={rows.length}[{hdr}]{"+".intercalate rows}"
    | _, _, _, _, _, _ => badArgs
  | _ => badArgs

def tkOp : Op := fun args =>
  match args with
  | ["enc", ts, tf] =>
    (match parseInt ts, parseInt tf with
     | some ts, some tf =>
       s!"M:{Mkts.Ticks.getIntervalTicks32Bit Mkts.Ticks.rne ts (timeToIndex utc ts tf) (ipdOf tf)}"
     | _, _ => badArgs)
  | ["dec", st, tf, k] =>
    (match parseInt st, parseInt tf, parseInt k with
     | some st, some tf, some k => let d := decodeTicks st (ipdOf tf) k; s!"M:{d.sec},{d.nanos}"
     | _, _, _ => badArgs)
  | _ => badArgs

def ops : OpTable := [("repl", replOp), ("wtset", wtsetOp), ("tk", tkOp)]

end Mkts.Driver.Repl
