#!/usr/bin/env python3
"""Copies a CONFIRMED seed (see lib/seedverify.py) into /verif/seeded/<Cxx><variant>/:
patch.diff, demo/, meta.json (agent's meta + my confirmation record)."""
import json, os, shutil, sys
pid, var = sys.argv[1], sys.argv[2]
r = json.load(open("/work/sv/results/%s%s.json" % (pid, var)))
if not r.get("confirmed"):
    print("not confirmed:", pid, var); sys.exit(1)
src = "/work/seed/%s/SEED/%s" % (pid, var)
dst = "/verif/seeded/%s%s" % (pid, var)
if os.path.exists(dst):
    shutil.rmtree(dst)
os.makedirs(dst)
shutil.copy(os.path.join(src, "patch.diff"), dst)
shutil.copytree(os.path.join(src, "demo"), os.path.join(dst, "demo"))
for f in os.listdir(os.path.join(dst, "demo")):   # keep `go test ./...`-style tools away from the demos
    if f.endswith("_test.go") or f.endswith(".go"):
        os.rename(os.path.join(dst, "demo", f), os.path.join(dst, "demo", f + ".txt"))
m = json.load(open(os.path.join(src, "meta.json")))
m["confirmed_by_me"] = {"demo_on_head_rc": r["demo_on_head"]["rc"], "demo_with_change_rc": r["demo_with_change"]["rc"],
                        "demo_with_change_tail": r["demo_with_change"]["tail"][-600:],
                        "suite_failed_packages_with_change": r.get("suite", {}).get("failed_packages", []),
                        "note": "demo files are stored with a .txt suffix; strip it when copying them into the package named in demo_cmd"}
m.setdefault("checks_run", {})
json.dump(m, open(os.path.join(dst, "meta.json"), "w"), indent=1)
print("kept", dst)
