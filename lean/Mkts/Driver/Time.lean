import Mkts.Proto
import Mkts.Model.Time
/-! Driver ops for the time/index model (C30, and shared zone parsing). -/
namespace Mkts.Driver.Time
open Mkts.Proto Mkts.Time

/-- zone token: `<name>|<init>;<t>:<off>;<t>:<off>...` (the name is for the Go side only) -/
def parseZone (s : String) : Option Zone :=
  match s.splitOn "|" with
  | [_, tbl] =>
    match tbl.splitOn ";" with
    | [] => none
    | i :: rest => do
      let init ← parseInt i
      let trans ← rest.mapM (fun p => match p.splitOn ":" with
        | [a, b] => do pure ((← parseInt a), (← parseInt b))
        | _ => none)
      pure { init := init, trans := trans }
  | _ => none

def b2s (b : Bool) : String := if b then "1" else "0"

/-- `slot t tf rec zoneCfg zoneLocal` -/
def slotOp : Op := fun args =>
  match args with
  | [ts, tfs, recs, zc, zl] =>
    match parseInt ts, parseInt tfs, parseInt recs, parseZone zc, parseZone zl with
    | some t, some tf, some rec, some z, some zl =>
      let y := localYear z t
      let idx := timeToIndex z t tf
      let start := indexToTime z idx tf y
      let next := indexToTime z (idx + 1) tf y
      let off := indexToOffset idx rec
      let fsz := fileSize zl tf y rec
      let back := timeToIndex z start tf
      let p := b2s (decide (start ≤ t)) ++ b2s (decide (t < next)) ++ b2s (back == idx) ++
               b2s (decide (headersize ≤ off)) ++ b2s (decide (off + rec ≤ fsz))
      let ylen := yearStart z (y + 1) - yearStart z y
      let ylenL := yearStart zl (y + 1) - yearStart zl y
      let hyps : List String :=
        (if tf == dayNs && idx == 0 then ["oneD_jan1"] else []) ++
        (if tf == dayNs && (localDays z start != jan1 y + idx || localDays z next != jan1 y + idx + 1)
          then ["oneD_day_start_missing"] else []) ++
        (if ylen % tf != 0 then ["tf_not_dividing_year"] else []) ++
        (if ylen > ylenL then ["local_year_shorter"] else []) ++
        (if !(decide (yearStart z y ≤ t) && decide (t < yearStart z (y + 1))) then ["zone_incoherent"] else [])
      s!"M:idx={idx} year={y} start={start} next={next} off={off} fsize={fsz} back={back} P={p}\tS:~P=11111\tH:{",".intercalate hyps}"
    | _, _, _, _, _ => badArgs
  | _ => badArgs

def ops : OpTable := [("slot", slotOp)]

end Mkts.Driver.Time
