import Mkts.Model.Float
import Mkts.Model.ExceptDec
import Mkts.Extracted.Skeletons
/-!
# Scalar aggregates and gap detection (uda/count, uda/min, uda/max, uda/avg, uda/gap, uda/uda.go)

One definition per Go function.  A column is its Go slice type plus the values (integers for the
integer types, IEEE bit patterns for `[]float32` / `[]float64`).  Which slice types `ColumnToFloat32/64`
convert, and what happens to any other type, is READ OFF THE REGENERATED SKELETON of the two
functions (`Mkts.Extracted.Skel.uda_ColumnToFloat32/64`: one `case:<type>{` atom per clause of the
type switch): a type without a clause falls through — to the `default:` clause returning an error
if there is one (`err:unsupported`), else to `return outCol, nil` with the nil slice (`none`).  In the
current source every numeric slice type has a clause and the default clause reports an error
(pinned in Props/C23.lean); if a clause is removed the model follows the code.  Go errors / panics are explicit (`Except String`, the string is
the canonical result class of the harness: `err:nocolumn`, `err:cast`, `panic:index`).
-/
namespace Mkts.Uda
open Mkts.Float

inductive ColType where
  | f32 | f64 | int | i64 | i32
  | i16 | i8 | u8 | u16 | u32 | u64      -- (with the five above) every numeric column type of the database
  | other                                -- a non-numeric column (`[]bool`)
deriving DecidableEq, Repr

def ColType.numeric : ColType → Bool
  | .other => false
  | _ => true

/-- the atom the skeleton shows for the clause of the type switch that handles this slice type -/
def ColType.caseAtom : ColType → String
  | .f32 => "case:[]float32{" | .f64 => "case:[]float64{" | .int => "case:[]int{"
  | .i64 => "case:[]int64{" | .i32 => "case:[]int32{" | .i16 => "case:[]int16{"
  | .i8 => "case:[]int8{" | .u8 => "case:[]uint8{" | .u16 => "case:[]uint16{"
  | .u32 => "case:[]uint32{" | .u64 => "case:[]uint64{" | .other => "case:[]bool{"

def hasSub : List String → List String → Bool
  | [], pat => pat.isEmpty
  | a :: l, pat => pat.isPrefixOf (a :: l) || hasSub l pat

/-- does the type switch of the CURRENT `uda.ColumnToFloat32` have a clause for this slice type? -/
def ColType.handled (ty : ColType) : Bool := Mkts.Extracted.Skel.uda_ColumnToFloat32.contains ty.caseAtom
/-- the same for `uda.ColumnToFloat64` -/
def ColType.handled64 (ty : ColType) : Bool := Mkts.Extracted.Skel.uda_ColumnToFloat64.contains ty.caseAtom

def defaultClause : List String := ["case:default{", "call:fmt.Errorf", "return", "}"]
/-- does the CURRENT `uda.ColumnToFloat32` report a slice type it has no clause for as an error? -/
def defaultIsError : Bool := hasSub Mkts.Extracted.Skel.uda_ColumnToFloat32 defaultClause
def defaultIsError64 : Bool := hasSub Mkts.Extracted.Skel.uda_ColumnToFloat64 defaultClause

structure Column where
  ty : ColType
  vals : List Int
deriving DecidableEq, Repr

/-- what the aggregate is handed on one `Accum` call: `cols.Len()` and `cols.GetColumn(name)`
    (`none` = no column of that name) -/
structure Batch where
  len : Nat
  col : Option Column
deriving DecidableEq, Repr

/-- the batch holding the column `vs` of type `ty` (all columns of a ColumnSeries have one length) -/
def Batch.ofVals (ty : ColType) (vs : List Int) : Batch := ⟨vs.length, some ⟨ty, vs⟩⟩

/-- the single-precision image of one column value (Go `float32(v)`), for EVERY numeric type:
    this is what the property calls "the column's values as single-precision numbers" -/
def toF32 (ty : ColType) (v : Int) : Nat :=
  match ty with
  | .f32 => v.toNat
  | .f64 => convert b64 b32 v.toNat
  | _ => ofInt b32 v

def toF64 (ty : ColType) (v : Int) : Nat :=
  match ty with
  | .f64 => v.toNat
  | .f32 => convert b32 b64 v.toNat
  | _ => ofInt b64 v

/-- uda.ColumnToFloat32 after the nil test: `none` = no clause for the type (the caller below
    turns it into the default clause's error or the nil slice of the fall-through) -/
def columnToFloat32 (c : Column) : Option (List Nat) :=
  if c.ty.handled then some (c.vals.map (toF32 c.ty)) else none

/-- uda.ColumnToFloat64 -/
def columnToFloat64 (c : Column) : Option (List Nat) :=
  if c.ty.handled64 then some (c.vals.map (toF64 c.ty)) else none

/-- run an aggregate over successive `Accum` calls, collecting the output after each call -/
def runAgg {σ ο : Type} (accum : σ → Batch → Except String σ) (out : σ → ο) :
    σ → List Batch → Except String (List ο)
  | _, [] => .ok []
  | s, b :: bs =>
    match accum s b with
    | .error e => .error e
    | .ok s' =>
      match runAgg accum out s' bs with
      | .error e => .error e
      | .ok os => .ok (out s' :: os)

/-- the state after all `Accum` calls -/
def finalState {σ : Type} (accum : σ → Batch → Except String σ) : σ → List Batch → Except String σ
  | s, [] => .ok s
  | s, b :: bs =>
    match accum s b with
    | .error e => .error e
    | .ok s' => finalState accum s' bs

/-! ## count -/

/-- Count.Accum: `c.Sum += int64(cols.Len())` -/
def countAccum (s : Int) (b : Batch) : Except String Int := .ok (s + b.len)
def countNew : Int := 0

/-! ## min / max -/

structure MinMax where
  isInitialized : Bool
  v : Nat
deriving DecidableEq, Repr

def minMaxNew : MinMax := ⟨false, 0⟩

/-- loop body of Min.Accum: `if value < m.Min { m.Min = value }` -/
def minStep (m x : Nat) : Nat := if lt b32 x m then x else m
/-- loop body of Max.Accum: `if value > m.Max { m.Max = value }` -/
def maxStep (m x : Nat) : Nat := if gt b32 x m then x else m

/-- Min.Accum / Max.Accum (identical up to the comparison) -/
def minMaxAccum (step : Nat → Nat → Nat) (s : MinMax) (b : Batch) : Except String MinMax :=
  if b.len == 0 then .ok s else
  match b.col with
  | none => .error "err:nocolumn"
  | some c =>
    if !c.ty.handled && defaultIsError then .error "err:unsupported" else
    let xs := (columnToFloat32 c).getD []      -- nil slice when a type falls through without default clause
    if !s.isInitialized then
      match xs with
      | [] => .error "panic:index"             -- inputCol[0] on the nil slice
      | x :: _ => .ok ⟨true, xs.foldl step x⟩
    else .ok ⟨true, xs.foldl step s.v⟩

def minAccum := minMaxAccum minStep
def maxAccum := minMaxAccum maxStep

/-! ## avg -/

structure Avg where
  /-- float64 running sum (bits) -/
  avg : Nat
  count : Int
deriving DecidableEq, Repr

def avgNew : Avg := ⟨0, 0⟩

/-- `a.Avg += float64(value); a.Count++` -/
def avgStep (s : Avg) (x : Nat) : Avg := ⟨add b64 s.avg (convert b32 b64 x), s.count + 1⟩

def avgAccum (s : Avg) (b : Batch) : Except String Avg :=
  if b.len == 0 then .ok s else
  match b.col with
  | none => .error "err:nocolumn"
  | some c =>
    if !c.ty.handled && defaultIsError then .error "err:unsupported"
    else .ok (((columnToFloat32 c).getD []).foldl avgStep s)

/-- Avg.Output: `a.Avg / float64(a.Count)` (0/0 = NaN when nothing was accumulated) -/
def avgOutput (s : Avg) : Nat := div b64 s.avg (ofInt b64 s.count)

/-! ## gap -/

def negate (f : Fmt) (a : Nat) : Nat := if isNeg f a then a - f.signBit else a + f.signBit
/-- float subtraction `a - b` -/
def sub (f : Fmt) (a b : Nat) : Nat := add f a (negate f b)

def wrap64 (i : Int) : Int := (i + 2 ^ 63) % 2 ^ 64 - 2 ^ 63

/-- seconds of `utils.CandleDurationFromString(s)` for strings `<digits><suffix>`;
    the suffix `M` is accepted by the regular expression but has no entry in `suffixDefs` ⇒ 0 -/
def suffixSeconds : String → Option Int
  | "Sec" => some 1 | "Min" => some 60 | "H" => some 3600 | "D" => some 86400
  | "W" => some 604800 | "Y" => some 31536000 | "M" => some 0
  | _ => none

def candleDurationSeconds (s : String) : Option Int :=
  let ds := s.toList.takeWhile Char.isDigit
  let suf := String.ofList (s.toList.dropWhile Char.isDigit)
  if ds.isEmpty then none else
  match (String.ofList ds).toNat?, suffixSeconds suf with
  | some n, some k => some ((n : Int) * k)
  | _, _ => none

/-- `floats.SubTo` + `bigGapIdxsByThreshold` + the loop of `Output`, fused: walk the epochs (value,
    float64 image) and emit `(start, end, length)` for each consecutive pair whose float64
    difference is `> threshold`; `length` is the int64 (wrapping) difference. -/
def bigGaps (thr : Nat) : List (Int × Nat) → List (Int × Int × Int)
  | (a, fa) :: (b, fb) :: rest =>
    (if gt b64 (sub b64 fb fa) thr then [(a, b, wrap64 (b - a))] else []) ++ bigGaps thr ((b, fb) :: rest)
  | _ => []

/-- Gap.Accum followed by Gap.Output for an explicit threshold of `thrSec ≥ 0` seconds.
    `BigGapIdxs` is reset on every call, so the result depends on this batch only.
    The epochs are converted with ColumnToFloat64; `Output` then insists on `[]int64`. -/
def gapAccum (thrSec : Int) (b : Batch) : Except String (List (Int × Int × Int)) :=
  if b.len == 0 then .ok [] else
  match b.col with
  | none => .ok []                                   -- ColumnToFloat64 error ⇒ empty output
  | some c =>
    match columnToFloat64 c with
    | none => .ok []                                 -- nil slice
    | some fs =>
      let gs := bigGaps (ofInt b64 thrSec) (c.vals.zip fs)
      if gs.isEmpty then .ok []
      else if c.ty == .i64 then .ok gs
      else .error "err:cast"

/-- successive `Accum` calls on one Gap value: every call returns the gaps of ITS batch -/
def runGap (thrSec : Int) : List Batch → Except String (List (List (Int × Int × Int)))
  | [] => .ok []
  | b :: bs =>
    match gapAccum thrSec b with
    | .error e => .error e
    | .ok o =>
      match runGap thrSec bs with
      | .error e => .error e
      | .ok os => .ok (o :: os)

end Mkts.Uda
