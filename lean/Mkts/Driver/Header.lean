import Mkts.Proto
import Mkts.Model.HeaderStore
/-!
Driver ops for C15.
* `hdr <tfNs> <recType> <year> <hexdesc> <cols>` cols = `hexname=typenum,…` (`-` = none):
  `NewTimeBucketInfo` → `WriteHeader` → re-read.  Result `enc=<non-zero runs off:hex;…> dec=<fields> P=<0|1>`
  (P = what was read back equals what was written, the free-text description apart: it is not part
  of the schema and the server only ever writes two fixed descriptions).
* `c15 <nowYear> <step>…` steps `C:<key>:<f|v>:<cols>` (cols `hexname=typestr,…`), `W:<key>:<f|v>:<cols>:<rows>`
  (rows `sec,payloadhex` joined by `+`), `R` (abrupt restart), `I:<key>` against a real server.
-/
namespace Mkts.Driver.Header
open Mkts.Proto Mkts.Bytes Mkts.Header Mkts.HeaderStore

def parseNumCols (s : String) : Option (List (Str × Nat)) :=
  if s == "-" || s == "" then some [] else
  (s.splitOn ",").mapM (fun p => match p.splitOn "=" with
    | [n, t] => do pure ((← hexToBytes n), (← parseNat t))
    | _ => none)

def parseStrCols (s : String) : Option (List Col) :=
  if s == "-" || s == "" then some [] else
  (s.splitOn ",").mapM (fun p => match p.splitOn "=" with
    | [n, t] => do pure ⟨(← hexToBytes n), t⟩
    | _ => none)

def showRuns (b : Bytes) : String :=
  let r := runs b
  if r.isEmpty then "-" else ";".intercalate (r.map (fun e => s!"{e.1}:{hexStr e.2}"))

def showTBI (t : TBI) : String :=
  s!"v{t.version},{hexStr t.description},y{t.year},tf{t.timeframe},rt{t.recordType},rl{t.recordLength}" ++
    String.join ((t.names.zip t.types).map (fun c => "," ++ hexStr c.1 ++ "=" ++ toString c.2))

def edgeNul (s : Str) : Bool := s.head? == some 0 || s.getLast? == some 0

/-- names of the `WF` conjuncts that fail -/
def wfHyps (t : TBI) : List String :=
  (if t.types.length > maxElems then ["too_many_columns"] else []) ++
  (if t.names.any (fun s => s.length > nameBytes) then ["name_too_long"] else []) ++
  (if t.names.any edgeNul then ["name_edge_nul"] else [])

def hdrOp : Op := fun args =>
  match args with
  | [tfs, rts, ys, ds, cs] =>
    match parseNat tfs, parseNat rts, parseNat ys, hexToBytes ds, parseNumCols cs with
    | some tf, some rt, some y, some desc, some cols =>
      let t := newTimeBucketInfo typeSize tf desc y cols rt
      -- V = `TimeBucketInfo.Validate() == nil` (`-` = the source has no such method)
      let v := if hasInfoValidate then (if validSchema methodFlags t then "1" else "0") else "-"
      -- the property speaks about schemas that can be created: `Validate` accepts them
      let dailyTooLong := t.recordType == 0 && t.timeframe == dayNs && t.recordLength + t.types.length > headersize - typesOffset
      let sp := if (wfHyps t).isEmpty && !dailyTooLong then "\tS:~P=1 V=1" else "\tS:~V=0"
      match encode t with
      | none => s!"M:panic:index V={v}{sp}"
      | some b =>
        match decode b with
        | none => s!"M:enc={showRuns b} dec=fatal P=0 V={v}{sp}"
        | some t' =>
          s!"M:enc={showRuns b} dec={showTBI t'} P={if { t' with description := [] } == { t with description := [] } then 1 else 0} V={v}{sp}"
    | _, _, _, _, _ => badArgs
  | _ => badArgs

def parseRows (s : String) : Option (List RowIn) :=
  if s == "-" || s == "" then some [] else
  (s.splitOn "+").mapM (fun r => match r.splitOn "," with
    | [a, c] => do pure ⟨(← parseInt a), (← hexToBytes c)⟩
    | _ => none)

/-- what the client asked for, per bucket (for the spec) -/
structure Asked where
  key : String
  tf : Nat
  isVar : Bool
  cols : List (Str × Nat)
  storable : Bool

structure Run where
  st : State
  asked : List Asked
  out : List String
  spec : List String
  hyps : List String

/-- why a schema cannot be stored faithfully (must then be REJECTED at creation): too many
    columns, a name that does not fit or loses a NUL, or — fixed-length daily bucket — a record
    whose slot 0 (January 1) reaches back into the used part of the header -/
def storableHyps (tf : Nat) (isVar : Bool) (cols : List (Str × Nat)) : List String :=
  let cs := cols.filter (fun c => c.1 != epochName)
  let recLen := alignedSize ((cs.map (fun c => typeSize c.2)).foldl (· + ·) 0) + 8
  (if cs.length > maxElems then ["too_many_columns"] else []) ++
  (if cs.any (fun c => c.1.length > nameBytes) then ["name_too_long"] else []) ++
  (if cs.any (fun c => edgeNul c.1) then ["name_edge_nul"] else []) ++
  (if !isVar && tf == dayNs && recLen + cs.length > headersize - typesOffset then ["daily_record_too_long"] else [])

def askedInfo (a : Asked) : String :=
  showInfo a.tf (if a.isVar then 1 else 0) (a.cols.filter (fun c => c.1 != epochName))

def recLenOf (a : Asked) : Nat :=
  alignedSize (((a.cols.filter (fun c => c.1 != epochName)).map (fun c => typeSize c.2)).foldl (· + ·) 0) + 8

def step (nowYear : Nat) (r : Run) (s : String) : Option Run :=
  match s.splitOn ":" with
  | ["C", key, rt, cs] => do
    let cols ← parseStrCols cs
    let (st, res) := create r.st nowYear key (rt == "v") cols
    let out := "C=" ++ res
    match resolveCols cols, keyTf key with
    | some dsv, some tf =>
      if res == "err:exists" then pure { r with st := st, out := r.out ++ [out], spec := r.spec ++ [out] } else
      let hy := storableHyps tf (rt == "v") dsv
      if !hy.isEmpty then
        -- must be refused, and nothing of it may exist afterwards
        pure { r with st := st, out := r.out ++ [out], spec := r.spec ++ ["C=err:other"] }
      else
      let a : Asked := ⟨key, tf, rt == "v", dsv, true⟩
      pure { r with st := st, asked := r.asked ++ [a], out := r.out ++ [out], spec := r.spec ++ ["C=ok"] }
    | _, _ => pure { r with st := st, out := r.out ++ [out], spec := r.spec ++ [out] }
  | ["W", key, rt, cs, rws] => do
    let cols ← parseStrCols cs
    let rows ← parseRows rws
    let known := (find r.st key).isSome
    let (st, res) ← write r.st key (rt == "v") cols rows
    let out := "W=" ++ res
    let dsv := (resolveCols cols).getD []
    match r.asked.find? (·.key == key) with
    | some a =>
      -- the client writes the schema it created ⇒ must be accepted; a 1D record dated in slot 0
      -- whose slot reaches back into the used part of the header is the January-1 hazard
      let same := a.cols.filter (fun c => c.1 != epochName) == dsv
      pure { r with st := st, out := r.out ++ [out], spec := r.spec ++ [if same && a.storable then "W=ok" else out] }
    | none =>
      if known then pure { r with st := st, out := r.out ++ [out], spec := r.spec ++ [out] } else
      -- auto-create by the writer
      match keyTf key with
      | none => pure { r with st := st, out := r.out ++ [out], spec := r.spec ++ [out] }
      | some tf =>
        let hy := storableHyps tf (rt == "v") dsv
        if !hy.isEmpty then
          pure { r with st := st, out := r.out ++ [out], spec := r.spec ++ ["W=err:other"] }
        else
        let a : Asked := ⟨key, tf, rt == "v", dsv, true⟩
        pure { r with st := st, asked := r.asked ++ [a], out := r.out ++ [out], spec := r.spec ++ ["W=ok"] }
  | ["R"] => pure { r with st := restart r.st, out := r.out ++ ["R=ok"], spec := r.spec ++ ["R=ok"] }
  | ["I", key] =>
    let (st, res) := info r.st key
    let out := "I=" ++ res
    match r.asked.find? (·.key == key) with
    | some a => pure { r with st := st, out := r.out ++ [out], spec := r.spec ++ [if a.storable then "I=" ++ askedInfo a else out] }
    | none => pure { r with st := st, out := r.out ++ [out], spec := r.spec ++ [out] }
  | _ => none

def c15Op : Op := fun args =>
  match args with
  | ny :: steps =>
    match parseNat ny with
    | none => badArgs
    | some nowYear =>
      match steps.foldlM (step nowYear) ⟨[], [], [], [], []⟩ with
      | none => "M:unsupported"
      | some r => s!"M:{" ".intercalate r.out}\tS:{" ".intercalate r.spec}\tH:{",".intercalate r.hyps.eraseDups}"
  | _ => badArgs

def ops : OpTable := [("hdr", hdrOp), ("c15", c15Op)]

end Mkts.Driver.Header
