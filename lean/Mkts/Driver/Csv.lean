import Mkts.Proto
import Mkts.Model.Csv
import Mkts.Driver.Time
/-! Driver op for the CSV loader model (C33):
`csvload <ts|lay> <empty|invalid|zonetoken> <var 0|1> <chunk> <schema n:ty,…|-> <header hex,…> <records rec|rec… or ~>` -/
namespace Mkts.Driver.Csv
open Mkts.Proto Mkts.Csv

def parseTy : String → Option Ty
  | "f32" => some .f32 | "f64" => some .f64 | "i8" => some .i8 | "i16" => some .i16
  | "i32" => some .i32 | "i64" => some .i64 | "u8" => some .u8 | "u16" => some .u16
  | "u32" => some .u32 | "u64" => some .u64 | "bool" => some .bool
  | _ => none

def parseSchema (s : String) : Option (List (Str × Ty)) :=
  if s == "-" then some [] else
  (s.splitOn ",").mapM (fun p => match p.splitOn ":" with
    | [n, t] => (parseTy t).map (fun ty => (n.toList, ty))
    | _ => none)

def hexStr (s : String) : Option Str := (hexToBytes s).map (·.map (fun b => Char.ofNat b.toNat))

def parseRec (s : String) : Option Rec := (s.splitOn ",").mapM hexStr

def parseRecords (s : String) : Option (List Rec) :=
  if s == "~" then some [] else (s.splitOn "|").mapM parseRec

def parseTz (s : String) : Option TzCfg :=
  if s == "empty" then some .empty else if s == "invalid" then some .invalid
  else (Mkts.Driver.Time.parseZone s).map .zone

def showStatus : Status → String
  | .ok => "ok" | .errNoMatch => "err:nomatch" | .errColumn => "err:column"
  | .errUnsupported => "err:unsupported" | .errReader => "err:reader" | .errTime => "err:time" | .panicNil => "panic:nil" | .panicSlice => "panic:slice"
  | .panicOther => "panic:other" | .fuel => "model:fuel" | .unmodelled => "model:unmodelled"

def isFloatTy : Ty → Bool
  | .f32 | .f64 => true
  | _ => false

def showVal (ty : Ty) (v : Int) : String :=
  match ty with
  | .f32 => toString (Mkts.Float.canon Mkts.Float.b32 v.toNat)
  | .f64 => toString (Mkts.Float.canon Mkts.Float.b64 v.toNat)
  | _ => toString v

def showRow (cfg : Config) (r : Row) : String :=
  ":".intercalate ([toString r.epoch, if cfg.isVariable then toString r.nanos else "x"] ++
    (cfg.schema.zip r.vals).map (fun (c, v) => showVal c.2 v))

def showChunks (cfg : Config) (cs : List (List Row)) : String :=
  if cs.isEmpty then "-" else "|".intercalate (cs.map (fun c => ",".intercalate (c.map (showRow cfg))))

def showResult (cfg : Config) (r : LoadResult) : String :=
  let n := (r.chunks.map List.length).sum
  let rep := match r.status with
    | .errNoMatch | .errColumn | .errUnsupported | .errReader | .errTime => "1"
    | _ => "0"
  s!"{showStatus r.status} {showChunks cfg r.chunks} N={n} R={rep}"

/-! ### the specification, computed row by row (no reader, no chunk loop, no tuning state) -/

def isBlank (r : Rec) : Bool := r == [[]]

def timeOf (cfg : Config) (dt : Str) : Option Int :=
  match parseTime cfg dt 0 with
  | .ok (some t) => some t
  | _ => none

/-- the parsed row demanded by the property, if the record is well-formed -/
def specRow (cfg : Config) (n : Nat) (idx : List Nat) (r : Rec) : Option Row :=
  if r.length != n || hasBareQuote r then none else
  match timeOf cfg (r.getD 0 []), (cfg.schema.zip idx).mapM (fun (c, i) => parseVal c.2 (r.getD i [])) with
  | some t, some vs => some ⟨t / 1000000000, t % 1000000000, vs⟩
  | _, _ => none

def chunked {α : Type} (k : Nat) (fuel : Nat) (l : List α) : List (List α) :=
  match fuel with
  | 0 => []
  | f + 1 => if l.isEmpty then [] else l.take k :: chunked k f (l.drop k)

def csvloadOp : Op := fun args =>
  match args with
  | [fmts, tzs, vars, ks, schemas, hdrs, recs] =>
    let fmt? : Option TimeFormat := if fmts == "ts" then some .timestamp else if fmts == "lay" then some .layout else none
    match fmt?, parseTz tzs, parseNat ks, parseSchema schemas, parseRec hdrs, parseRecords recs with
    | some fmt, some tz, some k, some schema, some header, some records =>
      let cfg : Config := { fmt := fmt, tz := tz, schema := schema, isVariable := vars == "1" }
      let res := load cfg header records k
      let m := showResult cfg res
      match readMetadata cfg header with
      | some (0, idx) =>
        let n := header.length
        let data := records.filter (fun r => !isBlank r)
        let readerBad := data.any (fun r => r.length != n || hasBareQuote r)
        -- no zone configured means UTC (for both time formats)
        let tzOk := match tz with | .zone _ => true | .empty => true | .invalid => false
        let hasBool := schema.any (fun c => c.2 == .bool)
        let rows := data.map (specRow cfg n idx)
        if k == 0 then s!"M:{m}\tH:"
        -- no data row: nothing to load and nothing to report, whatever the zone or the column types
        else if data.isEmpty then s!"M:{m}\tS:ok - N=0 R=0\tH:"
        else if rows.all Option.isSome && !hasBool && tzOk then
          let want := chunked k (data.length + 1) (rows.filterMap id)
          let tot := data.length
          s!"M:{m}\tS:ok {showChunks cfg want} N={tot} R=0\tH:"
        else
          -- some record is malformed (or the zone unusable): an error must be reported, unless the
          -- documented extended time format (tuning) made the rows readable: then the property is silent
          if res.status == .ok && !readerBad && !hasBool && tzOk then s!"M:{m}\tH:"
          else s!"M:{m}\tS:~R=1\tH:"
      | _ => s!"M:{m}\tH:"
    | _, _, _, _, _, _ => badArgs
  | _ => badArgs

def ops : OpTable := [("csvload", csvloadOp)]

end Mkts.Driver.Csv
