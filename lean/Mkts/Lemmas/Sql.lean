import Mkts.Model.Sql
import Mkts.Lemmas.Store
/-!
Helper lemmas for C19 / C20: the predicate compiler under "one predicate per column", the
post-filter as a `List.filter`, ColumnSeries algebra.
-/
namespace Mkts.Sql
open Mkts.Store Mkts.Time Mkts.Bytes

/-! ### the predicate compiler -/

/-- merging a conjunct's pending predicate into a fresh `StaticPredicate` reproduces it -/
theorem merge_empty_pending (c : Conj) : ({ epoch := c.col == "Epoch" } : SP).merge c.pending = c.pending := by
  cases c with
  | cmp col op v => cases op <;> rfl
  | between col lo hi => rfl

theorem get_eq_none_iff (g : Group) (c : String) : g.get c = none ↔ ∀ e ∈ g, e.1 ≠ c := by
  induction g with
  | nil => simp [Group.get]
  | cons hd tl ih =>
    simp only [Group.get, List.find?_cons] at *
    by_cases h : hd.1 = c
    · simp [h]
    · have : (hd.1 == c) = false := by simpa using h
      simp only [this, List.mem_cons, forall_eq_or_imp]
      rw [ih]
      simp [h]

theorem mergeCol_absent (g : Group) (c : String) (sp : SP) (h : ∀ e ∈ g, e.1 ≠ c) :
    g.mergeCol c sp = g ++ [(c, ({ epoch := c == "Epoch" } : SP).merge sp)] := by
  induction g with
  | nil => rfl
  | cons hd tl ih =>
    obtain ⟨c', t⟩ := hd
    have h1 : c' ≠ c := h (c', t) (by simp)
    have h2 : (c' == c) = false := by simpa using h1
    simp only [Group.mergeCol, h2, List.cons_append]
    rw [ih (fun e he => h e (List.mem_cons_of_mem _ he))]
    simp

theorem buildGroup_aux (cs : List Conj) (g : Group)
    (hnd : (cs.map Conj.col).Nodup) (hdis : ∀ e ∈ g, ∀ c ∈ cs, e.1 ≠ c.col) :
    cs.foldl (fun g c => g.mergeCol c.col c.pending) g = g ++ cs.map (fun c => (c.col, c.pending)) := by
  induction cs generalizing g with
  | nil => simp
  | cons c rest ih =>
    simp only [List.foldl_cons, List.map_cons]
    rw [mergeCol_absent g c.col c.pending (fun e he => hdis e he c (by simp)), merge_empty_pending]
    simp only [List.map_cons, List.nodup_cons] at hnd
    rw [ih _ hnd.2]
    · simp
    · intro e he c' hc'
      rcases List.mem_append.mp he with h | h
      · exact hdis e h c' (List.mem_cons_of_mem _ hc')
      · simp only [List.mem_singleton] at h
        subst h
        intro heq
        exact hnd.1 (List.mem_map.mpr ⟨c', hc', heq.symm⟩)

/-- with one predicate per column the compiled group is just the list of the conjuncts' own
    predicates: nothing is merged, nothing is lost -/
theorem buildGroup_nodup (cs : List Conj) (hnd : (cs.map Conj.col).Nodup) :
    buildGroup cs = cs.map (fun c => (c.col, c.pending)) := by
  unfold buildGroup
  rw [buildGroup_aux cs [] hnd (by simp)]
  simp

theorem get_map_pending (cs : List Conj) (name : String) :
    Group.get (cs.map (fun c => (c.col, c.pending))) name =
      (cs.find? (fun c => c.col == name)).map Conj.pending := by
  induction cs with
  | nil => rfl
  | cons c rest ih =>
    simp only [Group.get, List.map_cons, List.find?_cons] at *
    by_cases h : (c.col == name) = true
    · simp [h]
    · have : (c.col == name) = false := by simpa using h
      simp only [this]
      exact ih

/-! ### the post-filter as a filter -/

theorem restrict_map {α} (l : List α) (p : α → Bool) : restrict l (l.map p) = l.filter p := by
  induction l with
  | nil => rfl
  | cons a t ih =>
    simp only [List.map_cons, restrict, List.filter_cons]
    split <;> simp_all

theorem zipWith_and_map {α} (l : List α) (p q : α → Bool) :
    List.zipWith (· && ·) (l.map p) (l.map q) = l.map (fun a => p a && q a) := by
  induction l with
  | nil => rfl
  | cons a t ih => simp [ih]

/-- keep flag of a whole row -/
def keepRow (cols : List ColDef) (g : Group) (r : Row) : Bool :=
  (match g.get "Epoch" with | none => true | some sp => keepEpoch sp r.sec) && keepCols cols g r.payload

/-- the post-filter (Epoch tests, the per-type switch, the bitmap and `RestrictViaBitmap`) is a
    plain `filter` by a per-row predicate -/
theorem postFilter_eq_filter (cols : List ColDef) (g : Group) (rows : List Row) :
    postFilter cols g rows = rows.filter (keepRow cols g) := by
  unfold postFilter keepRow
  cases hg : g.get "Epoch" with
  | none =>
    simp only
    rw [zipWith_and_map, restrict_map]
  | some sp =>
    simp only
    rw [epochKeep, List.map_map, zipWith_and_map, restrict_map]
    rfl

end Mkts.Sql
