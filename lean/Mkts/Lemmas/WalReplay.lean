import Mkts.Model.WalReplay
import Mkts.Lemmas.WalCodec
/-! Helper lemmas for the WAL replay scanner (C06) -/
namespace Mkts.WalReplay
open Mkts.Bytes Mkts.WalCodec

variable (md5 : Bytes → Bytes)

/-- list-length goals: normalise lengths, then linear arithmetic -/
macro "len_omega" : tactic =>
  `(tactic| ((try simp only [List.length_cons, List.length_drop, List.length_take, List.length_append,
      List.length_nil]); omega))

/-- does `pat` occur as a contiguous block in a skeleton? -/
def hasSub : List String → List String → Bool
  | [], pat => pat.isEmpty
  | a :: l, pat => pat.isPrefixOf (a :: l) || hasSub l pat

/-- what a successful `readTGData` has seen in the file -/
theorem readTGData_ok {fsz : Nat} {r : Bytes} {id : Int} {tg r3 : Bytes}
    (h : readTGData md5 fsz r = .ok id tg r3) :
    ∃ lenb ck, r = lenb ++ (tg ++ (ck ++ r3)) ∧ lenb.length = 8 ∧ ck.length = 16 ∧
      leDecodeInt lenb = tg.length ∧ md5 (lenb ++ tg) = ck ∧ 8 ≤ tg.length := by
  unfold readTGData at h
  split at h; · cases h
  simp only at h
  split at h; · cases h
  split at h; · cases h
  split at h; · cases h
  split at h; · cases h
  split at h
  · rename_i h1 h2 h3 h4 h5 h6
    injection h with hid htg hr3
    refine ⟨r.take tgLenBytes, ((r.drop tgLenBytes).drop (leDecodeInt (r.take tgLenBytes)).toNat).take checkSumBytes, ?_, ?_, ?_, ?_, ?_, ?_⟩
    · subst htg hr3
      simp only [List.take_append_drop]
    · simp only [tgLenBytes] at h1 ⊢; len_omega
    · simp only [checkSumBytes] at h5 ⊢; rw [List.length_take]; omega
    · subst htg
      simp only [List.length_take, tgIDBytes] at h2 ⊢
      omega
    · subst htg; exact h6
    · subst htg
      simp only [List.length_take, tgIDBytes] at h2 h4 ⊢
      omega
  · cases h

theorem readTGData_ok_rest {fsz : Nat} {r : Bytes} {id : Int} {tg r3 : Bytes}
    (h : readTGData md5 fsz r = .ok id tg r3) : r3.length ≤ r.length := by
  obtain ⟨lenb, ck, hr, _⟩ := readTGData_ok md5 h
  rw [hr]; len_omega

/-- an unreadable record: the position afterwards is a proper suffix (at least the 8 length bytes are consumed) -/
theorem readTGData_bad_suffix {fsz : Nat} {r r' : Bytes}
    (h : readTGData md5 fsz r = .bad r') : ∃ pre, r = pre ++ r' := by
  unfold readTGData at h
  split at h; · cases h
  simp only at h
  split at h; · cases h
  split at h
  · injection h with h; subst h
    exact ⟨r.take tgLenBytes, by simp⟩
  split at h; · cases h
  split at h; · cases h
  split at h
  · cases h
  · injection h with h; subst h
    exact ⟨r.take tgLenBytes ++ ((r.drop tgLenBytes).take (leDecodeInt (r.take tgLenBytes)).toNat ++
      ((r.drop tgLenBytes).drop (leDecodeInt (r.take tgLenBytes)).toNat).take checkSumBytes), by
        simp only [List.append_assoc, List.take_append_drop]⟩

/-- the position after a continuing iteration is a suffix of the position before, and shorter -/
theorem step_cont_suffix {fsz : Nat} {r r' : Bytes} {st st' : St}
    (h : step md5 fsz r st = .cont r' st') : ∃ pre, r = pre ++ r' ∧ 1 ≤ pre.length := by
  unfold step at h
  cases r with
  | nil => cases h
  | cons b r1 =>
    simp only at h
    split at h
    · split at h
      · cases h
      · rename_i r'' hb
        injection h with h1 h2; subst h1
        obtain ⟨pre, hp⟩ := readTGData_bad_suffix md5 hb
        exact ⟨b :: pre, by rw [hp]; simp, by simp⟩
      · rename_i id' tg' r3 hok
        split at h
        · cases h
        · injection h with h1 h2; subst h1
          obtain ⟨lenb, ck, hr, _⟩ := readTGData_ok md5 hok
          exact ⟨b :: (lenb ++ (tg' ++ ck)), by rw [hr]; simp, by simp⟩
    · split at h
      · split at h
        · cases h
        · try simp only at h
          split at h <;> (injection h with h1 h2; subst h1; exact ⟨b :: r1.take txnInfoBytes, by simp, by simp⟩)
      · split at h
        · split at h
          · cases h
          · injection h with h1 h2; subst h1; exact ⟨b :: r1.take walStatusLenBytes, by simp, by simp⟩
        · injection h with h1 h2; subst h1; exact ⟨[b], by simp, by simp⟩

/-- every iteration of the scan loop that continues has consumed at least one byte -/
theorem step_cont_lt {fsz : Nat} {r r' : Bytes} {st st' : St}
    (h : step md5 fsz r st = .cont r' st') : r'.length < r.length := by
  obtain ⟨pre, hr, hp⟩ := step_cont_suffix md5 h
  rw [hr]; len_omega

/-- with fuel above the number of remaining bytes the loop never runs out of fuel -/
theorem scanLoop_fuel (fsz : Nat) : ∀ (n : Nat) (r : Bytes) (st : St), r.length < n →
    scanLoop md5 fsz n r st ≠ .fuel := by
  intro n
  induction n with
  | zero => intro r st h; omega
  | succ n ih =>
    intro r st h
    unfold scanLoop
    split
    · simp
    · rename_i r' st' hs
      have := step_cont_lt md5 hs
      exact ih r' st' (by omega)
    · simp

/-! ### safety invariant of the first pass -/

/-- `tg` occurs in `f` as a complete TGDATA record: message id, 8-byte length equal to `tg.length`,
the bytes `tg`, and the checksum `md5 (length ++ tg)` -/
def ValidRecordIn (f tg : Bytes) : Prop :=
  ∃ pre lenb post, f = pre ++ midTGDATA :: (lenb ++ (tg ++ (md5 (lenb ++ tg) ++ post))) ∧
    lenb.length = 8 ∧ leDecodeInt lenb = tg.length

theorem mem_put {m : TGMap} {k : Int} {v : Option Bytes} {a : Int × Option Bytes}
    (h : a ∈ m.put k v) : a = (k, v) ∨ a ∈ m := by
  unfold TGMap.put at h
  rcases List.mem_cons.mp h with h | h
  · exact Or.inl h
  · exact Or.inr (List.mem_filter.mp h).1

theorem mem_dropUpTo {m : TGMap} {k : Int} {a : Int × Option Bytes}
    (h : a ∈ m.dropUpTo k) : a ∈ m := (List.mem_filter.mp h).1

/-- the state after one loop iteration holds only groups that were there before, or the
checksum-valid record that starts at the current position -/
theorem step_tgData {fsz : Nat} {r : Bytes} {st st' : St} {id : Int} {tg : Bytes}
    (h : (∃ r', step md5 fsz r st = .cont r' st') ∨ step md5 fsz r st = .stop st')
    (hm : (id, some tg) ∈ st'.tgData) :
    (id, some tg) ∈ st.tgData ∨
      ∃ lenb r3, r = midTGDATA :: (lenb ++ (tg ++ (md5 (lenb ++ tg) ++ r3))) ∧ lenb.length = 8 ∧
        leDecodeInt lenb = tg.length := by
  unfold step at h
  cases r with
  | nil =>
    simp only at h
    rcases h with ⟨r', h⟩ | h
    · cases h
    · injection h with h; subst h; exact Or.inl hm
  | cons b r1 =>
    simp only at h
    split at h
    · rename_i hb0
      split at h
      · rcases h with ⟨r', h⟩ | h
        · cases h
        · injection h with h; subst h; exact Or.inl hm
      · rcases h with ⟨r', h⟩ | h
        · injection h with h1 h2; subst h2; exact Or.inl hm
        · cases h
      · rename_i id' tg' r3 hok
        split at h
        · rcases h with ⟨r', h⟩ | h <;> cases h
        · rcases h with ⟨r', h⟩ | h
          · injection h with h1 h2; subst h2
            simp only at hm
            rcases mem_put hm with hm | hm
            · injection hm with e1 e2
              injection e2 with e2
              subst e2
              obtain ⟨lenb, ck, hr, hl, _, hd, hck, _⟩ := readTGData_ok md5 hok
              refine Or.inr ⟨lenb, r3, ?_, hl, hd⟩
              rw [hb0, hr, hck]
            · exact Or.inl hm
          · cases h
    · split at h
      · split at h
        · rcases h with ⟨r', h⟩ | h
          · cases h
          · injection h with h; subst h; exact Or.inl hm
        · try simp only at h
          split at h
          · rcases h with ⟨r', h⟩ | h
            · injection h with h1 h2; subst h2
              exact Or.inl (mem_dropUpTo hm)
            · cases h
          · rcases h with ⟨r', h⟩ | h
            · injection h with h1 h2; subst h2; exact Or.inl hm
            · cases h
      · split at h
        · split at h
          · rcases h with ⟨r', h⟩ | h
            · cases h
            · injection h with h; subst h; exact Or.inl hm
          · rcases h with ⟨r', h⟩ | h
            · injection h with h1 h2; subst h2; exact Or.inl hm
            · cases h
        · rcases h with ⟨r', h⟩ | h
          · injection h with h1 h2; subst h2; exact Or.inl hm
          · cases h

/-- invariant of the scan loop ⇒ safety of its result -/
theorem scanLoop_safe (f : Bytes) (fsz : Nat) : ∀ (n : Nat) (r : Bytes) (st st' : St),
    (∃ pre, f = pre ++ r) → (∀ id tg, (id, some tg) ∈ st.tgData → ValidRecordIn md5 f tg) →
    scanLoop md5 fsz n r st = .done st' →
    ∀ id tg, (id, some tg) ∈ st'.tgData → ValidRecordIn md5 f tg := by
  intro n
  induction n with
  | zero => intro r st st' _ _ h; cases h
  | succ n ih =>
    intro r st st' hpre hinv h id tg hm
    unfold scanLoop at h
    split at h
    · rename_i st1 hs
      injection h with h; subst h
      rcases step_tgData md5 (Or.inr hs) hm with h1 | ⟨lenb, r3, hr, hl, hd⟩
      · exact hinv id tg h1
      · obtain ⟨pre, hf⟩ := hpre
        exact ⟨pre, lenb, r3, by rw [hf, hr], hl, hd⟩
    · rename_i r1 st1 hs
      obtain ⟨pre, hf⟩ := hpre
      obtain ⟨p2, hr, _⟩ := step_cont_suffix md5 hs
      refine ih r1 st1 st' ⟨pre ++ p2, by rw [hf, hr, List.append_assoc]⟩ ?_ h id tg hm
      intro id2 tg2 hm2
      rcases step_tgData md5 (Or.inl ⟨r1, hs⟩) hm2 with h1 | ⟨lenb, r3, hr', hl, hd⟩
      · exact hinv id2 tg2 h1
      · exact ⟨pre, lenb, r3, by rw [hf, hr'], hl, hd⟩
    · cases h

/-! ### second pass -/

/-- the writes one group performs (in isolation) -/
def setsWrites (ex : Bytes → Bool) (root : Bytes) (sets : List WTSet) : List Write :=
  (applySets ex root sets []).2

theorem applySets_acc (ex : Bytes → Bool) (root : Bytes) : ∀ (sets : List WTSet) (acc : List Write),
    (applySets ex root sets acc).2 = acc ++ (applySets ex root sets []).2 := by
  intro sets
  induction sets with
  | nil => intro acc; simp [applySets]
  | cons w ws ih =>
    intro acc
    unfold applySets
    simp only
    split; · simp
    split
    · split; · simp
      split; · simp
      rw [ih (acc ++ _), ih ([] ++ _)]
      simp
    · split <;> simp

theorem mem_insertSorted {x a : Int × Bytes} {l : List (Int × Bytes)}
    (h : a ∈ insertSorted x l) : a = x ∨ a ∈ l := by
  induction l with
  | nil => simp [insertSorted] at h; exact Or.inl h
  | cons y ys ih =>
    unfold insertSorted at h
    split at h
    · rcases List.mem_cons.mp h with h | h
      · exact Or.inl h
      · exact Or.inr h
    · rcases List.mem_cons.mp h with h | h
      · exact Or.inr (by simp [h])
      · rcases ih h with h | h
        · exact Or.inl h
        · exact Or.inr (by simp [h])

theorem mem_pending {m : TGMap} {a : Int × Bytes} (h : a ∈ pending m) : (a.1, some a.2) ∈ m := by
  unfold pending at h
  generalize hl : m.filterMap (fun e => e.2.map (fun b => (e.1, b))) = l at h
  have hsub : ∀ b ∈ l, (b.1, some b.2) ∈ m := by
    intro b hb
    rw [← hl] at hb
    obtain ⟨e, he, hb⟩ := List.mem_filterMap.mp hb
    obtain ⟨k, v⟩ := e
    cases v with
    | none => simp at hb
    | some v => simp at hb; subst hb; exact he
  clear hl
  induction l with
  | nil => simp at h
  | cons x xs ih =>
    simp only [List.foldr_cons] at h
    rcases mem_insertSorted h with h | h
    · subst h; exact hsub _ (by simp)
    · exact ih h (fun b hb => hsub b (by simp [hb]))

theorem secondPass_writes (ex : Bytes → Bool) (root : Bytes) :
    ∀ (l : List (Int × Bytes)) (res : Result) (w : Write), w ∈ (secondPass ex root l res).writes →
      w ∈ res.writes ∨ ∃ a ∈ l, ∃ id sets, parseTGData a.2 = .ok (id, sets) ∧ w ∈ setsWrites ex root sets := by
  intro l
  induction l with
  | nil => intro res w h; exact Or.inl h
  | cons a rest ih =>
    intro res w h
    obtain ⟨aid, tg⟩ := a
    unfold secondPass at h
    split at h
    · exact Or.inl h
    · rename_i id sets hp
      have hacc := applySets_acc ex root sets res.writes
      split at h
      · rename_i c ws heq
        rcases ih _ w h with h1 | ⟨b, hb, hx⟩
        · simp only at h1
          have : ws = res.writes ++ (applySets ex root sets []).2 := by rw [← hacc, heq]
          rw [this] at h1
          rcases List.mem_append.mp h1 with h1 | h1
          · exact Or.inl h1
          · exact Or.inr ⟨(aid, tg), by simp, id, sets, hp, h1⟩
        · exact Or.inr ⟨b, by simp [hb], hx⟩
      · rename_i o c ws _ heq
        simp only at h
        have : ws = res.writes ++ (applySets ex root sets []).2 := by rw [← hacc, heq]
        rw [this] at h
        rcases List.mem_append.mp h with h1 | h1
        · exact Or.inl h1
        · exact Or.inr ⟨(aid, tg), by simp, id, sets, hp, h1⟩

theorem applySets_no_panic (ex : Bytes → Bool) (root : Bytes) : ∀ (sets : List WTSet) (acc : List Write),
    (∀ s ∈ sets, 8 ≤ s.buffer.length) → ∀ p, (applySets ex root sets acc).1.1 ≠ .panic p := by
  intro sets
  induction sets with
  | nil => intro acc _ p; simp [applySets]
  | cons w ws ih =>
    intro acc hb p
    unfold applySets
    simp only
    split; · simp
    split
    · split
      · have := hb w (by simp); omega
      split; · simp
      exact ih _ (fun s hs => hb s (by simp [hs])) p
    · split <;> simp

theorem secondPass_no_panic (ex : Bytes → Bool) (root : Bytes) :
    ∀ (l : List (Int × Bytes)) (res : Result),
      (∀ p, res.outcome ≠ .panic p) →
      (∀ a ∈ l, ∃ id sets, parseTGData a.2 = .ok (id, sets) ∧ ∀ s ∈ sets, 8 ≤ s.buffer.length) →
      ∀ p, (secondPass ex root l res).outcome ≠ .panic p := by
  intro l
  induction l with
  | nil => intro res h _ p; exact h p
  | cons a rest ih =>
    intro res hres hl p
    obtain ⟨aid, tg⟩ := a
    obtain ⟨id, sets, hp, hb⟩ := hl (aid, tg) (by simp)
    unfold secondPass
    simp only at hp
    rw [hp]
    simp only
    split
    · exact ih _ (by simpa using hres) (fun b hb' => hl b (by simp [hb'])) p
    · rename_i o c ws hne heq
      simp only
      have := applySets_no_panic ex root sets res.writes hb p
      rw [heq] at this
      exact this

/-! ### damaged and truncated logs: messages the scanner reads over -/

/-- a complete TGDATA record with a correct checksum -/
def encTG (body : Bytes) : Bytes :=
  midTGDATA :: (leInt 8 body.length ++ (body ++ md5 (leInt 8 body.length ++ body)))

/-- what the scanner can meet in a log and reads over: a complete checksummed group, an 11-byte
TXNINFO record, an unreadable group record (complete, checksum wrong), a group header whose length
fails the sanity check, a byte that is no message id -/
inductive Msg where
  | tg (body : Bytes)
  | info (buf : Bytes)
  | bad (body ck : Bytes)
  | insane (lenb : Bytes)
  | unknown (b : UInt8)

def Msg.enc : Msg → Bytes
  | .tg body => encTG md5 body
  | .info buf => midTXNINFO :: buf
  | .bad body ck => midTGDATA :: (leInt 8 body.length ++ (body ++ ck))
  | .insane lenb => midTGDATA :: lenb
  | .unknown b => [b]

/-- what the first pass does with a complete message: only intact groups and TXNINFO records
change the state -/
def upd (st : St) : Msg → St
  | .tg body => { st with tgData := st.tgData.put (leDecodeInt (body.take 8)) (some body),
                          seen := leDecodeInt (body.take 8) :: st.seen }
  | .info buf =>
    if buf.getD 8 0 = destCHECKPOINT ∧ buf.getD 9 0 = statusCOMMITCOMPLETE ∧ st.tgData.has (leDecodeInt (buf.take 8)) then
      { st with tgData := st.tgData.dropUpTo (leDecodeInt (buf.take 8)),
                ckptDropped := st.ckptDropped ||
                  st.tgData.any (fun e => decide (e.1 ≤ leDecodeInt (buf.take 8)) && e.2.isSome) }
    else st
  | .bad _ _ => st
  | .insane _ => st
  | .unknown _ => st

/-- well-formedness of a message given the file size and the ids seen so far -/
def Msg.ok (fsz : Nat) (st : St) : Msg → Prop
  | .tg body => 8 ≤ body.length ∧ (body.length : Int) < safetyFactor * fsz ∧ (body.length : Int) < 2 ^ 63 ∧
      (md5 (leInt 8 body.length ++ body)).length = 16 ∧ st.seen.contains (leDecodeInt (body.take 8)) = false
  | .info buf => buf.length = 10
  | .bad body ck => 8 ≤ body.length ∧ (body.length : Int) < safetyFactor * fsz ∧ (body.length : Int) < 2 ^ 63 ∧
      ck.length = 16 ∧ md5 (leInt 8 body.length ++ body) ≠ ck
  | .insane lenb => lenb.length = 8 ∧ 8 ≤ leDecodeInt lenb ∧ ¬ leDecodeInt lenb < safetyFactor * fsz
  | .unknown b => b ≠ midTGDATA ∧ b ≠ midTXNINFO ∧ b ≠ midSTATUS

/-- `readTGData` on a complete record with sane length: `.ok` iff the stored checksum matches -/
theorem readTGData_record (fsz : Nat) (body ck rest : Bytes) (h8 : 8 ≤ body.length)
    (hs : (body.length : Int) < safetyFactor * fsz) (h63 : (body.length : Int) < 2 ^ 63)
    (hck : ck.length = 16) :
    readTGData md5 fsz (leInt 8 body.length ++ (body ++ (ck ++ rest))) =
      if md5 (leInt 8 body.length ++ body) = ck then .ok (leDecodeInt (body.take 8)) body rest else .bad rest := by
  have hL : leDecodeInt (leInt 8 (body.length : Int)) = body.length :=
    leDecodeInt_leInt _ _ (by simp; omega) (by simp; omega)
  have ht : (leInt 8 (body.length : Int) ++ (body ++ (ck ++ rest))).take tgLenBytes
      = leInt 8 body.length := List.take_left' (leInt_length 8 _)
  have hd : (leInt 8 (body.length : Int) ++ (body ++ (ck ++ rest))).drop tgLenBytes
      = body ++ (ck ++ rest) := List.drop_left' (leInt_length 8 _)
  unfold readTGData
  simp only [ht, hd, hL]
  have c1 : ¬ (leInt 8 (body.length : Int) ++ (body ++ (ck ++ rest))).length < tgLenBytes := by
    simp [leInt_length, tgLenBytes]
  simp only [c1, if_false, Int.toNat_natCast]
  have c0 : ¬ (body.length : Int) < (tgIDBytes : Int) := by simp only [tgIDBytes]; omega
  have c2 : ¬ ¬ (body.length : Int) < safetyFactor * fsz := by omega
  have c4 : ¬ (body ++ (ck ++ rest)).length < body.length := by simp
  simp only [c0, c2, c4, if_false, List.take_left, List.drop_left]
  have c7 : ¬ (ck ++ rest).length < checkSumBytes := by simp [checkSumBytes, hck]
  have t1 : (ck ++ rest).take checkSumBytes = ck := List.take_left' hck
  have t2 : (ck ++ rest).drop checkSumBytes = rest := List.drop_left' hck
  simp only [c7, if_false, t1, t2]

theorem step_msg (fsz : Nat) (m : Msg) (rest : Bytes) (st : St) (h : m.ok md5 fsz st) :
    step md5 fsz (m.enc md5 ++ rest) st = .cont rest (upd st m) := by
  cases m with
  | tg body =>
    obtain ⟨h8, hs, h63, hck, hseen⟩ := h
    simp only [Msg.enc, encTG, List.cons_append, List.append_assoc, step, if_true]
    rw [readTGData_record md5 fsz body _ rest h8 hs h63 hck]
    simp only [if_true, hseen, Bool.false_eq_true, if_false, upd]
  | info buf =>
    have hl : buf.length = 10 := h
    have hne : midTXNINFO ≠ midTGDATA := by decide
    simp only [Msg.enc, List.cons_append, step, hne, if_false, if_true]
    have c1 : ¬ (buf ++ rest).length < txnInfoBytes := by simp [txnInfoBytes, hl]
    have t1 : (buf ++ rest).take txnInfoBytes = buf := List.take_left' hl
    have t2 : (buf ++ rest).drop txnInfoBytes = rest := List.drop_left' hl
    simp only [c1, if_false, t1, t2, upd]
    split <;> rfl
  | bad body ck =>
    obtain ⟨h8, hs, h63, hck, hne⟩ := h
    simp only [Msg.enc, List.cons_append, List.append_assoc, step, if_true]
    rw [readTGData_record md5 fsz body ck rest h8 hs h63 hck]
    simp only [hne, if_false, upd]
  | insane lenb =>
    obtain ⟨hl, h8, hins⟩ := h
    simp only [Msg.enc, List.cons_append, step, if_true]
    have hrd : readTGData md5 fsz (lenb ++ rest) = .bad rest := by
      unfold readTGData
      have c1 : ¬ (lenb ++ rest).length < tgLenBytes := by simp [tgLenBytes, hl]
      have t1 : (lenb ++ rest).take tgLenBytes = lenb := List.take_left' hl
      have t2 : (lenb ++ rest).drop tgLenBytes = rest := List.drop_left' hl
      have c0 : ¬ leDecodeInt lenb < (tgIDBytes : Int) := by simp only [tgIDBytes]; omega
      simp only [c1, if_false, t1, t2, c0, hins, not_false_eq_true, if_true]
    rw [hrd]
    simp only [upd]
  | unknown b =>
    obtain ⟨h0, h1, h2⟩ := h
    simp only [Msg.enc, List.cons_append, List.nil_append, step, h0, h1, h2, if_false, upd]

/-- a file that ends inside a message: the scan stops there and the state is untouched -/
theorem step_cut (fsz : Nat) (m : Msg) (k : Nat) (st : St) (h : m.ok md5 fsz st)
    (hk : k < (m.enc md5).length) :
    step md5 fsz ((m.enc md5).take k) st = .stop st := by
  cases k with
  | zero => simp [step]
  | succ k =>
    -- a cut TGDATA record (complete or not, any checksum) is a short read
    have tgcut : ∀ (body ck : Bytes), 8 ≤ body.length → (body.length : Int) < safetyFactor * fsz →
        (body.length : Int) < 2 ^ 63 → ck.length = 16 → k + 1 < 1 + (8 + (body.length + 16)) →
        step md5 fsz ((midTGDATA :: (leInt 8 body.length ++ (body ++ ck))).take (k + 1)) st = .stop st := by
      intro body ck h8 hs h63 hck hk
      simp only [List.take_succ_cons, step, if_true]
      have hL : leDecodeInt (leInt 8 (body.length : Int)) = body.length :=
        leDecodeInt_leInt _ _ (by simp; omega) (by simp; omega)
      generalize hq : (leInt 8 (body.length : Int) ++ (body ++ ck)).take k = q
      have hql : q.length = k := by
        rw [← hq, List.length_take]; simp [leInt_length, hck]; omega
      have hshort : readTGData md5 fsz q = .short := by
        unfold readTGData
        by_cases c1 : q.length < tgLenBytes
        · simp only [c1, if_true]
        · simp only [c1, if_false]
          simp only [tgLenBytes] at c1
          have ht : q.take tgLenBytes = leInt 8 (body.length : Int) := by
            rw [← hq, List.take_take, Nat.min_eq_left (by simp only [tgLenBytes]; omega)]
            exact List.take_left' (leInt_length 8 _)
          simp only [ht, hL, Int.toNat_natCast]
          have c0 : ¬ (body.length : Int) < (tgIDBytes : Int) := by simp only [tgIDBytes]; omega
          have c2 : ¬ ¬ (body.length : Int) < safetyFactor * fsz := by omega
          simp only [c0, c2, if_false]
          by_cases c4 : (q.drop tgLenBytes).length < body.length
          · simp only [c4, if_true]
          · simp only [c4, if_false]
            have c6 : ((q.drop tgLenBytes).drop body.length).length < checkSumBytes := by
              simp only [List.length_drop, checkSumBytes, tgLenBytes, hql] at c4 ⊢; omega
            simp only [c6, if_true]
      rw [hshort]
    cases m with
    | tg body =>
      obtain ⟨h8, hs, h63, hck, _⟩ := h
      simp only [Msg.enc, encTG, List.length_cons, List.length_append, leInt_length, hck] at hk
      simp only [Msg.enc, encTG]
      exact tgcut body _ h8 hs h63 hck (by omega)
    | bad body ck =>
      obtain ⟨h8, hs, h63, hck, _⟩ := h
      simp only [Msg.enc, List.length_cons, List.length_append, leInt_length, hck] at hk
      simp only [Msg.enc]
      exact tgcut body ck h8 hs h63 hck (by omega)
    | info buf =>
      have hl : buf.length = 10 := h
      have hne : midTXNINFO ≠ midTGDATA := by decide
      simp only [Msg.enc, List.take_succ_cons, step, hne, if_false, if_true]
      simp only [Msg.enc, List.length_cons, hl] at hk
      have c1 : (buf.take k).length < txnInfoBytes := by simp [txnInfoBytes, hl]; omega
      simp only [c1, if_true]
    | insane lenb =>
      obtain ⟨hl, _, _⟩ := h
      simp only [Msg.enc, List.length_cons, hl] at hk
      simp only [Msg.enc, List.take_succ_cons, step, if_true]
      have : readTGData md5 fsz (lenb.take k) = .short := by
        unfold readTGData
        have c1 : (lenb.take k).length < tgLenBytes := by simp [tgLenBytes, hl]; omega
        simp only [c1, if_true]
      rw [this]
    | unknown b =>
      simp only [Msg.enc, List.length_cons, List.length_nil] at hk
      omega

def encAll (ms : List Msg) : Bytes := (ms.map (Msg.enc md5)).flatten

/-- every message is well formed with respect to the ids seen before it -/
def AllOk (fsz : Nat) : St → List Msg → Prop
  | _, [] => True
  | st, m :: ms => m.ok md5 fsz st ∧ AllOk fsz (upd st m) ms

/-- the messages that lie completely within the first `k` bytes -/
def complete : List Msg → Nat → List Msg
  | [], _ => []
  | m :: ms, k => if (m.enc md5).length ≤ k then m :: complete ms (k - (m.enc md5).length) else []

theorem enc_pos (m : Msg) : 1 ≤ (m.enc md5).length := by
  cases m <;> simp [Msg.enc, encTG]

/-- **truncation**: scanning the first `k` bytes of a message sequence ends normally in exactly the
state produced by the messages that are complete within those `k` bytes -/
theorem scan_truncated (fsz : Nat) : ∀ (ms : List Msg) (k : Nat) (st : St) (fuel : Nat),
    AllOk md5 fsz st ms → k < fuel →
    scanLoop md5 fsz fuel ((encAll md5 ms).take k) st = .done ((complete md5 ms k).foldl upd st) := by
  intro ms
  induction ms with
  | nil =>
    intro k st fuel _ hf
    cases fuel with
    | zero => omega
    | succ n => simp [encAll, complete, scanLoop, step]
  | cons m ms ih =>
    intro k st fuel hok hf
    obtain ⟨hm, hrest⟩ := hok
    cases fuel with
    | zero => omega
    | succ n =>
      have hpos := enc_pos md5 m
      by_cases hle : (m.enc md5).length ≤ k
      · have e : (encAll md5 (m :: ms)).take k = m.enc md5 ++ (encAll md5 ms).take (k - (m.enc md5).length) := by
          simp only [encAll, List.map_cons, List.flatten_cons]
          rw [List.take_append, List.take_of_length_le hle]
        rw [e]
        unfold scanLoop
        rw [step_msg md5 fsz m _ st hm]
        simp only [complete, hle, if_true, List.foldl_cons]
        exact ih _ _ n hrest (by omega)
      · have e : (encAll md5 (m :: ms)).take k = (m.enc md5).take k := by
          simp only [encAll, List.map_cons, List.flatten_cons]
          rw [List.take_append_of_le_length (by omega)]
        rw [e]
        unfold scanLoop
        simp only [complete, hle, if_false, List.foldl_nil]
        rw [step_cut md5 fsz m k st hm (by omega)]

theorem length_le_encAll (ms : List Msg) : ms.length ≤ (encAll md5 ms).length := by
  induction ms with
  | nil => simp [encAll]
  | cons m ms ih =>
    have := enc_pos md5 m
    simp only [encAll, List.map_cons, List.flatten_cons, List.length_append, List.length_cons] at ih ⊢
    omega

/-- a tail at which the scanner stops whatever its state -/
def Stops (fsz : Nat) (t : Bytes) : Prop := ∀ st, step md5 fsz t st = .stop st

/-- messages followed by a stopping tail: the state of the messages, nothing else -/
theorem scan_then_stop (fsz : Nat) (t : Bytes) (ht : Stops md5 fsz t) : ∀ (ms : List Msg) (st : St) (fuel : Nat),
    AllOk md5 fsz st ms → ms.length < fuel →
    scanLoop md5 fsz fuel (encAll md5 ms ++ t) st = .done (ms.foldl upd st) := by
  intro ms
  induction ms with
  | nil =>
    intro st fuel _ hf
    cases fuel with
    | zero => omega
    | succ n => simp [encAll, scanLoop, ht st]
  | cons m ms ih =>
    intro st fuel hok hf
    obtain ⟨hm, hrest⟩ := hok
    cases fuel with
    | zero => omega
    | succ n =>
      have e : encAll md5 (m :: ms) ++ t = m.enc md5 ++ (encAll md5 ms ++ t) := by
        simp only [encAll, List.map_cons, List.flatten_cons, List.append_assoc]
      rw [e]
      unfold scanLoop
      rw [step_msg md5 fsz m _ st hm]
      simp only [List.foldl_cons]
      exact ih _ n hrest (by simp only [List.length_cons] at hf; omega)

/-- a TGDATA id followed by a length field below `tgIDBytes` (zero, small, negative) stops the scan,
whatever follows -/
theorem stops_small_length (fsz : Nat) (lenb rest : Bytes) (hl : lenb.length = 8) (h : leDecodeInt lenb < 8) :
    Stops md5 fsz (midTGDATA :: (lenb ++ rest)) := by
  intro st
  simp only [step, if_true]
  have : readTGData md5 fsz (lenb ++ rest) = .short := by
    unfold readTGData
    have c1 : ¬ (lenb ++ rest).length < tgLenBytes := by simp [tgLenBytes, hl]
    have t1 : (lenb ++ rest).take tgLenBytes = lenb := List.take_left' hl
    have c0 : leDecodeInt lenb < (tgIDBytes : Int) := by simp only [tgIDBytes]; omega
    simp only [c1, if_false, t1, c0, if_true]
  rw [this]

/-- a STATUS id with fewer than 10 bytes behind it (in particular as the last byte) stops the scan -/
theorem stops_status_tail (fsz : Nat) (t : Bytes) (h : t.length < 10) : Stops md5 fsz (midSTATUS :: t) := by
  intro st
  have c0 : midSTATUS ≠ midTGDATA := by decide
  have c1 : midSTATUS ≠ midTXNINFO := by decide
  have c2 : t.length < walStatusLenBytes := by simp only [walStatusLenBytes]; omega
  simp only [step, c0, c1, c2, if_false, if_true]

end Mkts.WalReplay
