import Mkts.Model.CatalogConc
/-! Lemmas for the two-thread catalog model: a set of states that contains the initial state and
is closed under the step relation contains the result of EVERY schedule. -/
namespace Mkts.CatalogConc
open Mkts.Catalog

theorem step_mem_succs {v : Variant} {s s' : Sys} {t : Nat} (h : s.step v t = some s') : s' ∈ succs v s := by
  unfold succs
  rw [List.mem_filterMap]
  refine ⟨t, ?_, h⟩
  rw [List.mem_range]
  unfold Sys.step at h
  cases hth : s.threads[t]? with
  | none => simp [hth] at h
  | some th =>
    rcases Nat.lt_or_ge t s.threads.length with hlt | hge
    · exact hlt
    · have : s.threads[t]? = none := List.getElem?_eq_none_iff.2 hge
      rw [this] at hth; cases hth

theorem run_mem_of_closed {v : Variant} {vis : List Sys} (hc : closed v vis = true) :
    ∀ (sched : List Nat) (s fin : Sys), s ∈ vis → Sys.run v s sched = some fin → fin ∈ vis := by
  intro sched
  induction sched with
  | nil => intro s fin hs h; simp [Sys.run] at h; rw [← h]; exact hs
  | cons t ts ih =>
    intro s fin hs h
    simp only [Sys.run] at h
    cases hst : s.step v t with
    | none => simp [hst] at h
    | some s' =>
      simp only [hst] at h
      apply ih s' fin _ h
      unfold closed at hc
      rw [List.all_eq_true] at hc
      have h1 := hc s hs
      rw [List.all_eq_true] at h1
      have h2 := h1 s' (step_mem_succs hst)
      simpa using h2

theorem mem_addNew_of_mem {x : Sys} : ∀ (cand vis : List Sys), x ∈ vis → x ∈ addNew cand vis := by
  intro cand
  induction cand with
  | nil => intro vis h; simpa [addNew] using h
  | cons c rest ih =>
    intro vis h
    simp only [addNew]
    split
    · exact ih vis h
    · exact ih _ (List.mem_append_left _ h)

theorem mem_bfs_of_mem {v : Variant} {x : Sys} : ∀ (f : Nat) (fr vis : List Sys), x ∈ vis → x ∈ bfs v f fr vis := by
  intro f
  induction f with
  | zero => intro fr vis h; simpa [bfs] using h
  | succ f ih =>
    intro fr vis h
    simp only [bfs]
    split
    · exact h
    · exact ih _ _ (mem_addNew_of_mem _ _ h)

end Mkts.CatalogConc
