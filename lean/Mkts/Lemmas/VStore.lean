import Mkts.Model.VStore
/-! Lemmas about the variable-length store model: the per-interval list is a sorted permutation
of everything written to the interval. -/
namespace Mkts.VStore
open Mkts.Time Mkts.Bytes Mkts.Store

theorem perm_insertByTicks (r : VRec) (l : List VRec) : (insertByTicks r l).Perm (r :: l) := by
  induction l with
  | nil => simp [insertByTicks]
  | cons x xs ih =>
    simp only [insertByTicks]
    split
    · exact List.Perm.refl _
    · exact (List.Perm.cons _ ih).trans (List.Perm.swap _ _ _)

theorem perm_sortByTicks_aux (l acc : List VRec) :
    (l.foldl (fun acc r => insertByTicks r acc) acc).Perm (acc ++ l) := by
  induction l generalizing acc with
  | nil => simp
  | cons x xs ih =>
    simp only [List.foldl_cons]
    refine (ih _).trans ?_
    have h1 : (insertByTicks x acc ++ xs).Perm ((x :: acc) ++ xs) := List.Perm.append_right _ (perm_insertByTicks x acc)
    refine h1.trans ?_
    simp only [List.cons_append]
    exact (List.perm_middle).symm

theorem perm_sortByTicks (l : List VRec) : (sortByTicks l).Perm l := by
  simpa [sortByTicks] using perm_sortByTicks_aux l []

def SortedT (l : List VRec) : Prop := l.Pairwise (fun a b => a.ticks ≤ b.ticks)

theorem sorted_insertByTicks (r : VRec) (l : List VRec) (h : SortedT l) : SortedT (insertByTicks r l) := by
  induction l with
  | nil => simp [insertByTicks, SortedT]
  | cons x xs ih =>
    simp only [SortedT, List.pairwise_cons] at h
    simp only [insertByTicks]
    split
    · rename_i hlt
      simp only [SortedT, List.pairwise_cons, List.mem_cons]
      refine ⟨?_, h.1, h.2⟩
      rintro y (rfl | hy)
      · omega
      · have := h.1 y hy; omega
    · rename_i hge
      simp only [SortedT, List.pairwise_cons]
      refine ⟨?_, ih h.2⟩
      intro y hy
      have hy' := (perm_insertByTicks r xs).mem_iff.mp hy
      simp only [List.mem_cons] at hy'
      rcases hy' with rfl | hy'
      · omega
      · exact h.1 y hy'

theorem sorted_sortByTicks (l : List VRec) : SortedT (sortByTicks l) := by
  unfold sortByTicks
  suffices h : ∀ acc, SortedT acc → SortedT (l.foldl (fun acc r => insertByTicks r acc) acc) from
    h [] (by simp [SortedT])
  induction l with
  | nil => intro acc h; simpa
  | cons x xs ih => intro acc h; exact ih _ (sorted_insertByTicks x acc h)

theorem vget_put_same (s : VSlots) (k : Int × Int) (v : List VRec) : (s.put k v).get k = v := by
  induction s with
  | nil => simp [VSlots.put, VSlots.get]
  | cons h t ih =>
    obtain ⟨k', v'⟩ := h
    by_cases hk : k' = k
    · simp [VSlots.put, VSlots.get, hk]
    · simp [VSlots.put, VSlots.get, hk, ih]

theorem vget_put_other (s : VSlots) (k k2 : Int × Int) (v : List VRec) (h : k2 ≠ k) :
    (s.put k v).get k2 = s.get k2 := by
  induction s with
  | nil => simp [VSlots.put, VSlots.get, Ne.symm h]
  | cons hd t ih =>
    obtain ⟨k', v'⟩ := hd
    by_cases hk : k' = k
    · subst hk; simp [VSlots.put, VSlots.get, Ne.symm h]
    · by_cases hk2 : k' = k2
      · subst hk2; simp [VSlots.put, VSlots.get, hk]
      · simp [VSlots.put, VSlots.get, hk, hk2, ih]

/-- records of the commands addressed to slot `k`, in order -/
def recsFor (k : Int × Int) (cs : List VCmd) : List VRec :=
  (cs.filter (fun c => (c.year, c.index) = k)).flatMap (·.recs)

theorem get_applyCmd (s : VSlots) (c : VCmd) (k : Int × Int) :
    ((applyCmd s c).get k).Perm (s.get k ++ (if (c.year, c.index) = k then c.recs else [])) := by
  unfold applyCmd
  by_cases hk : (c.year, c.index) = k
  · subst hk
    rw [vget_put_same]
    simpa using perm_sortByTicks _
  · rw [vget_put_other _ _ _ _ (Ne.symm hk)]
    simp [hk]

theorem get_applyCmds (cs : List VCmd) (s : VSlots) (k : Int × Int) :
    ((applyCmds s cs).get k).Perm (s.get k ++ recsFor k cs) := by
  induction cs generalizing s with
  | nil => simp [applyCmds, recsFor]
  | cons c rest ih =>
    simp only [applyCmds, List.foldl_cons] at ih ⊢
    refine (ih (applyCmd s c)).trans ?_
    have h1 := get_applyCmd s c k
    refine (List.Perm.append_right _ h1).trans ?_
    by_cases hk : (c.year, c.index) = k
    · simp [recsFor, hk, List.filter_cons, List.append_assoc]
    · simp [recsFor, hk, List.filter_cons]

/-- every slot of a store built by `applyCmds` from sorted slots is sorted by ticks -/
theorem sorted_applyCmds (cs : List VCmd) (s : VSlots) (hs : ∀ k, SortedT (s.get k)) :
    ∀ k, SortedT ((applyCmds s cs).get k) := by
  induction cs generalizing s with
  | nil => intro k; simpa [applyCmds] using hs k
  | cons c rest ih =>
    simp only [applyCmds, List.foldl_cons] at ih ⊢
    apply ih
    intro k
    unfold applyCmd
    by_cases hk : (c.year, c.index) = k
    · subst hk; rw [vget_put_same]; exact sorted_sortByTicks _
    · rw [vget_put_other _ _ _ _ (Ne.symm hk)]; exact hs k

/-- the record a row is stored as -/
def recOf (F : TickFns) (tf : Int) (r : VRow) : VRec :=
  ⟨r.payload, F.enc r.ns (timeToIndex utc r.ns tf) (Mkts.Ticks.intervalsPerDay tf)⟩

def rowKey (tf : Int) (r : VRow) : Int × Int := (localYear utc r.ns, timeToIndex utc r.ns tf)

/-- keyed records of a command list, in order -/
def keyed (cs : List VCmd) : List ((Int × Int) × VRec) :=
  cs.flatMap (fun c => c.recs.map (fun r => ((c.year, c.index), r)))

/-- command grouping keeps the keyed record sequence of the request -/
theorem keyed_writeRecordsAux (F : TickFns) (tf : Int) (rows : List VRow) :
    ∀ (cc : Option VCmd) (acc : List VCmd),
      keyed (writeRecordsAux F tf rows cc acc) =
        keyed (acc.reverse ++ (match cc with | none => [] | some c => [c])) ++
          rows.map (fun r => (rowKey tf r, recOf F tf r)) := by
  induction rows with
  | nil => intro cc acc; cases cc <;> simp [writeRecordsAux]
  | cons r rest ih =>
    intro cc acc
    cases cc with
    | none =>
      simp only [writeRecordsAux]
      rw [ih]
      simp [keyed, rowKey, recOf]
    | some c =>
      simp only [writeRecordsAux]
      split
      · rename_i hsame
        rw [ih]
        simp only [keyed, List.flatMap_append, List.flatMap_cons, List.flatMap_nil, List.append_nil,
          List.map_append, List.map_cons, List.map_nil, List.append_assoc, rowKey, recOf]
        rw [hsame.1, hsame.2]
        simp
      · rw [ih]
        simp [keyed, rowKey, recOf]

theorem keyed_writeRecords (F : TickFns) (tf : Int) (rows : List VRow) :
    keyed (writeRecords F tf rows) = rows.map (fun r => (rowKey tf r, recOf F tf r)) := by
  unfold writeRecords
  rw [keyed_writeRecordsAux]
  simp [keyed]

theorem recsFor_eq_keyed (k : Int × Int) (cs : List VCmd) :
    recsFor k cs = ((keyed cs).filter (fun p => p.1 = k)).map (·.2) := by
  induction cs with
  | nil => simp [recsFor, keyed]
  | cons c rest ih =>
    have hcons : recsFor k (c :: rest) = (if (c.year, c.index) = k then c.recs else []) ++ recsFor k rest := by
      by_cases hk : (c.year, c.index) = k <;> simp [recsFor, List.filter_cons, hk]
    have hkeyed : keyed (c :: rest) = c.recs.map (fun r => ((c.year, c.index), r)) ++ keyed rest := by
      simp [keyed]
    rw [hcons, hkeyed, List.filter_append, List.map_append, ← ih]
    congr 1
    by_cases hk : (c.year, c.index) = k
    · simp [hk, List.filter_map, Function.comp_def]
      exact (List.filter_eq_self.mpr (by intro a _; rfl)).symm
    · simp [hk, List.filter_map, Function.comp_def]

end Mkts.VStore
