import Mkts.Lemmas.Ticks
import Mathlib.Algebra.Order.Field.Power
import Mathlib.Tactic.Linarith
/-!
# The executable rounding operator `rne` satisfies the interface `Rnd`

`Mkts.Ticks.rne` (Model/Ticks.lean: round to nearest, ties to even, 53 significant bits,
unbounded exponent) is the operator the driver runs and the correspondence compares with the
hardware.  Here: `pow2 e = 2^e`, `ilog2` is the binary exponent, `roundEven` is a nearest integer,
monotone, odd and exact on integers; from these `rne` has relative error `2^-53`, is monotone, odd
and exact on integers up to `2^53`: `rneRnd : Rnd`.
-/
namespace Mkts.Ticks

theorem pow2_eq (e : ℤ) : pow2 e = (2:ℚ) ^ e := by
  unfold pow2
  split
  · rename_i h
    have : e = (e.toNat : ℤ) := (Int.toNat_of_nonneg h).symm
    conv_rhs => rw [this]
    rw [zpow_natCast]; push_cast; rfl
  · rename_i h
    have h' : 0 ≤ -e := by omega
    have : e = -((-e).toNat : ℤ) := by rw [Int.toNat_of_nonneg h']; ring
    conv_rhs => rw [this]
    rw [zpow_neg, zpow_natCast, Rat.mkRat_eq_div]; push_cast; simp

theorem two_zpow_pos (e : ℤ) : (0:ℚ) < (2:ℚ) ^ e := zpow_pos (by norm_num) e

theorem two_zpow_succ (e : ℤ) : (2:ℚ) ^ (e + 1) = 2 ^ e * 2 := by
  rw [zpow_add₀ (by norm_num : (2:ℚ) ≠ 0), zpow_one]

/-- `ilog2` is the binary exponent: `2^(ilog2 a) ≤ a < 2^(ilog2 a + 1)` for `a > 0` -/
theorem ilog2_spec (a : ℚ) (ha : 0 < a) : (2:ℚ) ^ (ilog2 a) ≤ a ∧ a < (2:ℚ) ^ (ilog2 a + 1) := by
  have hnum : 0 < a.num := Rat.num_pos.mpr ha
  have hden : a.den ≠ 0 := a.den_nz
  set n := a.num.natAbs with hn
  have hn0 : n ≠ 0 := by rw [hn]; omega
  have hnq : (a.num : ℚ) = (n : ℚ) := by
    have : a.num = (n : ℤ) := by rw [hn]; omega
    rw [this]; push_cast; rfl
  have ha_eq : a = (n : ℚ) / (a.den : ℚ) := by rw [← hnq]; exact (Rat.num_div_den a).symm
  have hdq : (0:ℚ) < (a.den : ℚ) := by exact_mod_cast Nat.pos_of_ne_zero hden
  -- bounds from Nat.log2
  have h1 : ((2 ^ n.log2 : ℕ) : ℚ) ≤ n := by exact_mod_cast Nat.log2_self_le hn0
  have h2 : (n : ℚ) < ((2 ^ (n.log2 + 1) : ℕ) : ℚ) := by exact_mod_cast (Nat.lt_log2_self (n := n))
  have h3 : ((2 ^ a.den.log2 : ℕ) : ℚ) ≤ a.den := by exact_mod_cast Nat.log2_self_le hden
  have h4 : (a.den : ℚ) < ((2 ^ (a.den.log2 + 1) : ℕ) : ℚ) := by exact_mod_cast (Nat.lt_log2_self (n := a.den))
  push_cast at h1 h2 h3 h4
  set ln := n.log2
  set ld := a.den.log2
  have hpl : (0:ℚ) < 2 ^ ln := by positivity
  have hpd : (0:ℚ) < 2 ^ ld := by positivity
  -- e0
  have he0 : (2:ℚ) ^ ((ln : ℤ) - (ld : ℤ)) = 2 ^ ln / 2 ^ ld := by
    rw [zpow_sub₀ (by norm_num : (2:ℚ) ≠ 0), zpow_natCast, zpow_natCast]
  -- a < 2^(e0+1)
  have hup : a < (2:ℚ) ^ ((ln : ℤ) - (ld : ℤ) + 1) := by
    rw [two_zpow_succ, he0, ha_eq, div_lt_iff₀ hdq]
    have : 2 ^ ln / 2 ^ ld * 2 * (a.den : ℚ) = 2 ^ (ln + 1) * ((a.den : ℚ) / 2 ^ ld) := by
      rw [pow_succ]; field_simp
    rw [this]
    have : (1:ℚ) ≤ (a.den : ℚ) / 2 ^ ld := by rw [le_div_iff₀ hpd]; linarith
    nlinarith
  -- 2^(e0-1) < a
  have hlo : (2:ℚ) ^ ((ln : ℤ) - (ld : ℤ) - 1) < a := by
    have hs : (2:ℚ) ^ ((ln : ℤ) - (ld : ℤ) - 1) * 2 = 2 ^ ((ln : ℤ) - (ld : ℤ)) := by
      have := two_zpow_succ ((ln : ℤ) - (ld : ℤ) - 1)
      rw [show (ln : ℤ) - (ld : ℤ) - 1 + 1 = (ln : ℤ) - (ld : ℤ) by ring] at this
      exact this.symm
    have : (2:ℚ) ^ ((ln : ℤ) - (ld : ℤ)) < 2 * a := by
      rw [he0, ha_eq, div_lt_iff₀ hpd]
      have : 2 * ((n : ℚ) / (a.den : ℚ)) * 2 ^ ld = (n : ℚ) * (2 ^ (ld + 1) / (a.den : ℚ)) := by
        rw [pow_succ]; field_simp
      rw [this]
      have : (1:ℚ) < 2 ^ (ld + 1) / (a.den : ℚ) := by rw [lt_div_iff₀ hdq]; linarith
      nlinarith
    linarith
  unfold ilog2
  simp only [pow2_eq]
  show (2:ℚ) ^ (if (2:ℚ) ^ ((ln : ℤ) - (ld : ℤ)) ≤ a then (ln : ℤ) - (ld : ℤ) else (ln : ℤ) - (ld : ℤ) - 1) ≤ a ∧
    a < (2:ℚ) ^ ((if (2:ℚ) ^ ((ln : ℤ) - (ld : ℤ)) ≤ a then (ln : ℤ) - (ld : ℤ) else (ln : ℤ) - (ld : ℤ) - 1) + 1)
  split
  · rename_i h; exact ⟨h, hup⟩
  · rename_i h
    rw [not_le] at h
    refine ⟨hlo.le, ?_⟩
    rw [show (ln : ℤ) - (ld : ℤ) - 1 + 1 = (ln : ℤ) - (ld : ℤ) by ring]
    exact h


/-! ## `roundEven` -/

theorem roundEven_def (y : ℚ) : roundEven y =
    if y - (⌊y⌋ : ℚ) < 1/2 then ⌊y⌋ else if 1/2 < y - (⌊y⌋ : ℚ) then ⌊y⌋ + 1
    else if ⌊y⌋ % 2 = 0 then ⌊y⌋ else ⌊y⌋ + 1 := rfl

/-- `roundEven y` is `⌊y⌋` or `⌊y⌋ + 1`, within 1/2 of `y` -/
theorem roundEven_near (y : ℚ) : (roundEven y : ℚ) ≤ y + 1/2 ∧ y - 1/2 ≤ (roundEven y : ℚ) := by
  have h1 := Int.floor_le y
  have h2 := Int.lt_floor_add_one y
  rw [roundEven_def]
  split
  · constructor <;> linarith
  · split
    · push_cast; constructor <;> linarith
    · split
      · constructor <;> linarith
      · push_cast; constructor <;> linarith

theorem roundEven_int (m : ℤ) : roundEven (m : ℚ) = m := by
  rw [roundEven_def, Int.floor_intCast]; simp

theorem roundEven_mono {y1 y2 : ℚ} (h : y1 ≤ y2) : roundEven y1 ≤ roundEven y2 := by
  have hf : ⌊y1⌋ ≤ ⌊y2⌋ := Int.floor_le_floor h
  have a1 := Int.floor_le y1
  have a2 := Int.lt_floor_add_one y1
  have b1 := Int.floor_le y2
  have b2 := Int.lt_floor_add_one y2
  have hle1 : roundEven y1 ≤ ⌊y1⌋ + 1 := by rw [roundEven_def]; split_ifs <;> omega
  have hge2 : ⌊y2⌋ ≤ roundEven y2 := by rw [roundEven_def]; split_ifs <;> omega
  by_cases hlt : ⌊y1⌋ < ⌊y2⌋
  · omega
  · have he : ⌊y1⌋ = ⌊y2⌋ := by omega
    rw [roundEven_def, roundEven_def, he]
    have ht : y1 - (⌊y2⌋ : ℚ) ≤ y2 - (⌊y2⌋ : ℚ) := by linarith
    split_ifs <;> first | omega | (exfalso; linarith)

theorem roundEven_neg (y : ℚ) : roundEven (-y) = -roundEven y := by
  by_cases hint : (⌊y⌋ : ℚ) = y
  · rw [← hint, ← Int.cast_neg, roundEven_int, roundEven_int]
  · have a1 := Int.floor_le y
    have a2 := Int.lt_floor_add_one y
    have hlt : (⌊y⌋ : ℚ) < y := lt_of_le_of_ne a1 hint
    have hfl : ⌊-y⌋ = -⌊y⌋ - 1 := by
      rw [Int.floor_eq_iff]; push_cast; constructor <;> linarith
    rw [roundEven_def (-y), roundEven_def y, hfl]
    push_cast
    split_ifs <;> first | omega | (exfalso; linarith)


/-! ## `rne` -/

theorem rne_zero : rne 0 = 0 := by unfold rne; simp

theorem rne_pos_form (x : ℚ) (hx : 0 < x) :
    rne x = (roundEven (x / (2:ℚ) ^ (ilog2 x - 52)) : ℚ) * (2:ℚ) ^ (ilog2 x - 52) := by
  unfold rne
  rw [if_neg hx.ne']
  simp only [if_pos hx.le, pow2_eq]

theorem rne_neg (x : ℚ) : rne (-x) = -rne x := by
  by_cases h0 : x = 0
  · subst h0; simp [rne_zero]
  · have hn0 : -x ≠ 0 := neg_ne_zero.mpr h0
    have habs : (if 0 ≤ -x then -x else - -x) = (if 0 ≤ x then x else -x) := by
      rcases lt_or_gt_of_ne h0 with h | h
      · rw [if_pos (by linarith), if_neg (by linarith)]
      · rw [if_neg (by linarith), if_pos (by linarith)]; ring
    unfold rne
    rw [if_neg hn0, if_neg h0]
    simp only [habs]
    rw [neg_div, roundEven_neg]; push_cast; ring

theorem two_zpow_sub52 (e : ℤ) : (2:ℚ) ^ (e - 52) = 2 ^ e / 4503599627370496 := by
  rw [zpow_sub₀ (by norm_num : (2:ℚ) ≠ 0)]; norm_num

/-- everything about `rne` on a positive argument, with `e = ilog2 x` -/
theorem rne_pos_core (x : ℚ) (hx : 0 < x) :
    (2:ℚ) ^ (ilog2 x) ≤ x ∧ x < (2:ℚ) ^ (ilog2 x + 1) ∧
    (2:ℚ) ^ (ilog2 x) ≤ rne x ∧ rne x ≤ (2:ℚ) ^ (ilog2 x + 1) ∧
    rne x ≤ x + (2:ℚ) ^ (ilog2 x) * u ∧ x - (2:ℚ) ^ (ilog2 x) * u ≤ rne x := by
  obtain ⟨hlo, hhi⟩ := ilog2_spec x hx
  set e := ilog2 x
  have hp : (0:ℚ) < 2 ^ e := two_zpow_pos e
  have hs : (2:ℚ) ^ (e - 52) = 2 ^ e / 4503599627370496 := two_zpow_sub52 e
  have hs0 : (0:ℚ) < 2 ^ (e - 52) := two_zpow_pos _
  have hsucc := two_zpow_succ e
  -- y = x / s in [2^52, 2^53)
  have hy_eq : x / (2:ℚ) ^ (e - 52) = x / 2 ^ e * 4503599627370496 := by rw [hs]; field_simp
  have hq1 : 1 ≤ x / 2 ^ e := by rw [le_div_iff₀ hp]; linarith
  have hq2 : x / 2 ^ e < 2 := by rw [div_lt_iff₀ hp]; linarith
  have hy1 : ((4503599627370496 : ℤ) : ℚ) ≤ x / (2:ℚ) ^ (e - 52) := by rw [hy_eq]; push_cast; linarith
  have hy2 : x / (2:ℚ) ^ (e - 52) ≤ ((9007199254740992 : ℤ) : ℚ) := by rw [hy_eq]; push_cast; linarith
  have hn1 := roundEven_mono hy1
  have hn2 := roundEven_mono hy2
  rw [roundEven_int] at hn1 hn2
  obtain ⟨hnear1, hnear2⟩ := roundEven_near (x / (2:ℚ) ^ (e - 52))
  rw [rne_pos_form x hx]
  set n := roundEven (x / (2:ℚ) ^ (e - 52))
  have hn1q : (4503599627370496 : ℚ) ≤ (n : ℚ) := by exact_mod_cast hn1
  have hn2q : (n : ℚ) ≤ 9007199254740992 := by exact_mod_cast hn2
  have hxs : x = x / (2:ℚ) ^ (e - 52) * 2 ^ (e - 52) := by field_simp
  have hu : u = 1 / 9007199254740992 := rfl
  refine ⟨hlo, hhi, ?_, ?_, ?_, ?_⟩
  · rw [hs]
    have : (n : ℚ) * (2 ^ e / 4503599627370496) = (n : ℚ) / 4503599627370496 * 2 ^ e := by ring
    rw [this]
    have : 1 ≤ (n : ℚ) / 4503599627370496 := by rw [le_div_iff₀ (by norm_num)]; linarith
    nlinarith
  · rw [hsucc, hs]
    have : (n : ℚ) * (2 ^ e / 4503599627370496) = (n : ℚ) / 4503599627370496 * 2 ^ e := by ring
    rw [this]
    have : (n : ℚ) / 4503599627370496 ≤ 2 := by rw [div_le_iff₀ (by norm_num)]; linarith
    nlinarith
  · have h1 : (n : ℚ) * 2 ^ (e - 52) ≤ (x / (2:ℚ) ^ (e - 52) + 1/2) * 2 ^ (e - 52) :=
      mul_le_mul_of_nonneg_right hnear1 hs0.le
    have h2 : (x / (2:ℚ) ^ (e - 52) + 1/2) * 2 ^ (e - 52) = x + 1/2 * 2 ^ (e - 52) := by
      rw [add_mul, ← hxs]
    have h3 : (1:ℚ)/2 * 2 ^ (e - 52) = 2 ^ e * u := by rw [hs, hu]; ring
    linarith
  · have h1 : (x / (2:ℚ) ^ (e - 52) - 1/2) * 2 ^ (e - 52) ≤ (n : ℚ) * 2 ^ (e - 52) :=
      mul_le_mul_of_nonneg_right hnear2 hs0.le
    have h2 : (x / (2:ℚ) ^ (e - 52) - 1/2) * 2 ^ (e - 52) = x - 1/2 * 2 ^ (e - 52) := by
      rw [sub_mul, ← hxs]
    have h3 : (1:ℚ)/2 * 2 ^ (e - 52) = 2 ^ e * u := by rw [hs, hu]; ring
    linarith


theorem rne_nonneg {x : ℚ} (hx : 0 ≤ x) : 0 ≤ rne x := by
  rcases hx.eq_or_lt with h | h
  · rw [← h, rne_zero]
  · obtain ⟨_, _, h3, _⟩ := rne_pos_core x h
    exact le_trans (two_zpow_pos _).le h3

theorem rne_lo (x : ℚ) (hx : 0 ≤ x) : x * (1 - u) ≤ rne x := by
  rcases hx.eq_or_lt with h | h
  · rw [← h, rne_zero]; simp
  · obtain ⟨h1, _, _, _, _, h6⟩ := rne_pos_core x h
    have : (2:ℚ) ^ (ilog2 x) * u ≤ x * u := mul_le_mul_of_nonneg_right h1 u_pos.le
    linarith

theorem rne_hi (x : ℚ) (hx : 0 ≤ x) : rne x ≤ x * (1 + u) := by
  rcases hx.eq_or_lt with h | h
  · rw [← h, rne_zero]; simp
  · obtain ⟨h1, _, _, _, h5, _⟩ := rne_pos_core x h
    have : (2:ℚ) ^ (ilog2 x) * u ≤ x * u := mul_le_mul_of_nonneg_right h1 u_pos.le
    linarith

theorem rne_mono_pos {x y : ℚ} (hx : 0 < x) (hxy : x ≤ y) : rne x ≤ rne y := by
  have hy : 0 < y := lt_of_lt_of_le hx hxy
  obtain ⟨a1, _, _, a4, _, _⟩ := rne_pos_core x hx
  obtain ⟨_, b2, b3, _, _, _⟩ := rne_pos_core y hy
  have hlt : (2:ℚ) ^ (ilog2 x) < (2:ℚ) ^ (ilog2 y + 1) := lt_of_le_of_lt (le_trans a1 hxy) b2
  have he : ilog2 x < ilog2 y + 1 := (zpow_lt_zpow_iff_right₀ (by norm_num : (1:ℚ) < 2)).mp hlt
  by_cases heq : ilog2 x = ilog2 y
  · rw [rne_pos_form x hx, rne_pos_form y hy, heq]
    have hs0 : (0:ℚ) < 2 ^ (ilog2 y - 52) := two_zpow_pos _
    apply mul_le_mul_of_nonneg_right _ hs0.le
    have : x / (2:ℚ) ^ (ilog2 y - 52) ≤ y / (2:ℚ) ^ (ilog2 y - 52) :=
      div_le_div_of_nonneg_right hxy hs0.le
    exact_mod_cast roundEven_mono this
  · have hle : ilog2 x + 1 ≤ ilog2 y := by omega
    have : (2:ℚ) ^ (ilog2 x + 1) ≤ (2:ℚ) ^ (ilog2 y) := zpow_le_zpow_right₀ (by norm_num) hle
    linarith

theorem rne_mono (x y : ℚ) (hxy : x ≤ y) : rne x ≤ rne y := by
  rcases lt_trichotomy 0 x with hx | hx | hx
  · exact rne_mono_pos hx hxy
  · rw [← hx, rne_zero]; exact rne_nonneg (by linarith)
  · -- x < 0
    have hnx : rne x ≤ 0 := by
      have := rne_nonneg (show (0:ℚ) ≤ -x by linarith)
      rw [rne_neg] at this; linarith
    rcases le_or_gt 0 y with hy | hy
    · exact le_trans hnx (rne_nonneg hy)
    · have := rne_mono_pos (show (0:ℚ) < -y by linarith) (show -y ≤ -x by linarith)
      rw [rne_neg, rne_neg] at this; linarith

theorem rne_int_pos (n : ℤ) (h0 : 0 < n) (h1 : n ≤ 9007199254740992) : rne (n : ℚ) = n := by
  have hx : (0:ℚ) < (n : ℚ) := by exact_mod_cast h0
  obtain ⟨hlo, hhi⟩ := ilog2_spec (n : ℚ) hx
  set e := ilog2 (n : ℚ) with he
  have hnq1 : (1:ℚ) ≤ (n : ℚ) := by exact_mod_cast h0
  have hnq2 : (n : ℚ) ≤ 9007199254740992 := by exact_mod_cast h1
  -- 0 ≤ e ≤ 53
  have he0 : 0 ≤ e := by
    have : (2:ℚ) ^ (0:ℤ) < (2:ℚ) ^ (e + 1) := by rw [zpow_zero]; linarith
    have := (zpow_lt_zpow_iff_right₀ (by norm_num : (1:ℚ) < 2)).mp this
    omega
  have he53 : e ≤ 53 := by
    by_contra hc
    have h54 : (54:ℤ) ≤ e := by omega
    have : (2:ℚ) ^ (54:ℤ) ≤ (2:ℚ) ^ e := zpow_le_zpow_right₀ (by norm_num) h54
    have h54v : (2:ℚ) ^ (54:ℤ) = 18014398509481984 := by norm_num
    linarith
  rw [rne_pos_form _ hx, ← he]
  -- n / s is an integer
  have hex : ∃ m : ℤ, (n : ℚ) / (2:ℚ) ^ (e - 52) = (m : ℚ) := by
    by_cases h52 : e ≤ 52
    · refine ⟨n * 2 ^ (52 - e).toNat, ?_⟩
      have hk : ((52 - e).toNat : ℤ) = 52 - e := Int.toNat_of_nonneg (by omega)
      have : (2:ℚ) ^ (e - 52) = ((2:ℚ) ^ ((52 - e).toNat))⁻¹ := by
        rw [← zpow_natCast, hk, ← zpow_neg]; congr 1; ring
      rw [this]; push_cast; field_simp
    · have h53 : e = 53 := by omega
      have hv : (2:ℚ) ^ e = 9007199254740992 := by rw [h53]; norm_num
      have hn : (n : ℚ) = 9007199254740992 := le_antisymm hnq2 (by rw [← hv]; exact hlo)
      refine ⟨4503599627370496, ?_⟩
      rw [hn, h53]; norm_num
  obtain ⟨m, hm⟩ := hex
  rw [hm, roundEven_int, ← hm]
  have hs0 : (0:ℚ) < 2 ^ (e - 52) := two_zpow_pos _
  field_simp

theorem rne_int (n : ℤ) (h : |n| ≤ 2 ^ 53) : rne (n : ℚ) = n := by
  have h' : |n| ≤ 9007199254740992 := by norm_num at h; exact h
  rcases lt_trichotomy 0 n with hn | hn | hn
  · exact rne_int_pos n hn (by rw [abs_of_pos hn] at h'; exact h')
  · rw [← hn]; simp [rne_zero]
  · have := rne_int_pos (-n) (by omega) (by rw [abs_of_neg hn] at h'; exact h')
    push_cast at this
    rw [rne_neg] at this
    linarith

/-- **the executable IEEE operator of the driver is an `Rnd`** -/
def rneRnd : Rnd where
  r := rne
  lo := rne_lo
  hi := rne_hi
  mono := rne_mono
  int := rne_int

theorem rneRnd_r : rneRnd.r = rne := rfl


end Mkts.Ticks
