package main

// C23: scalar aggregates (count/min/max/avg) and gap detection.
//
//	aggv <count|min|max|avg> <run|acc> <colty|none> <b1;b2;...>
//	gap  <run|acc> <thr e.g. 5Min> <colty|none> <b1;b2;...>
//
// `run` = the real SQL pipeline entry sqlparser.AggRunner.Run (one Accum on the whole input);
// `acc` = registry lookup + New + one Accum per batch on the same aggregate value.
// Result: `ok o1;o2;...` (the aggregate's output after each Accum; float outputs as decimal IEEE
// bit patterns, every NaN printed as the canonical quiet NaN) or `err:<class>` / `panic:<class>`.

import (
	"fmt"
	"math"
	"strconv"
	"strings"

	"github.com/alpacahq/marketstore/v4/sqlparser"
	"github.com/alpacahq/marketstore/v4/utils/functions"
	mio "github.com/alpacahq/marketstore/v4/utils/io"
)

func parseBatches(s string) [][]int64 {
	var out [][]int64
	for _, p := range strings.Split(s, ";") {
		out = append(out, ints(p))
	}
	return out
}

// goColumn builds the Go slice of the named element type (float types from bit patterns).
func goColumn(ty string, vs []int64) interface{} {
	n := len(vs)
	switch ty {
	case "f32":
		c := make([]float32, n)
		for i, v := range vs {
			c[i] = math.Float32frombits(uint32(v))
		}
		return c
	case "f64":
		c := make([]float64, n)
		for i, v := range vs {
			c[i] = math.Float64frombits(uint64(v))
		}
		return c
	case "int":
		c := make([]int, n)
		for i, v := range vs {
			c[i] = int(v)
		}
		return c
	case "i64":
		c := make([]int64, n)
		copy(c, vs)
		return c
	case "i32":
		c := make([]int32, n)
		for i, v := range vs {
			c[i] = int32(v)
		}
		return c
	case "i16":
		c := make([]int16, n)
		for i, v := range vs {
			c[i] = int16(v)
		}
		return c
	case "i8":
		c := make([]int8, n)
		for i, v := range vs {
			c[i] = int8(v)
		}
		return c
	case "u8":
		c := make([]uint8, n)
		for i, v := range vs {
			c[i] = uint8(v)
		}
		return c
	case "u16":
		c := make([]uint16, n)
		for i, v := range vs {
			c[i] = uint16(v)
		}
		return c
	case "u32":
		c := make([]uint32, n)
		for i, v := range vs {
			c[i] = uint32(v)
		}
		return c
	case "u64":
		c := make([]uint64, n)
		for i, v := range vs {
			c[i] = uint64(v)
		}
		return c
	case "bool":
		c := make([]bool, n)
		for i, v := range vs {
			c[i] = v != 0
		}
		return c
	}
	panic("bad-arg colty " + ty)
}

func f32bits(x float32) string {
	if x != x {
		return "2143289344"
	}
	return strconv.FormatUint(uint64(math.Float32bits(x)), 10)
}

func f64bits(x float64) string {
	if x != x {
		return "9221120237041090560"
	}
	return strconv.FormatUint(math.Float64bits(x), 10)
}

func aggErrClass(err error) string {
	s := err.Error()
	switch {
	case strings.Contains(s, "unable to retrieve column"):
		return "err:nocolumn"
	case strings.Contains(s, "cast Epoch column"):
		return "err:cast"
	case strings.Contains(s, "unsupported type"):
		return "err:unsupported"
	}
	return "err:other"
}

// showAggOutput renders the aggregate's output ColumnSeries (the Epoch column of the scalar
// aggregates is time.Now() and is only checked for presence).
func showAggOutput(fn string, cs *mio.ColumnSeries) string {
	if cs == nil {
		return "nil"
	}
	switch fn {
	case "count":
		if len(cs.GetColumn("Epoch").([]int64)) != 1 {
			return "bad-epoch"
		}
		return strconv.FormatInt(cs.GetColumn("Count").([]int64)[0], 10)
	case "min":
		return f32bits(cs.GetColumn("Min").([]float32)[0])
	case "max":
		return f32bits(cs.GetColumn("Max").([]float32)[0])
	case "avg":
		return f64bits(cs.GetColumn("Avg").([]float64)[0])
	case "gap":
		st, en, ln := cs.GetColumn("Epoch").([]int64), cs.GetColumn("End").([]int64), cs.GetColumn("Length").([]int64)
		if len(st) == 0 {
			return "-"
		}
		parts := make([]string, len(st))
		for i := range st {
			parts[i] = fmt.Sprintf("%d:%d:%d", st[i], en[i], ln[i])
		}
		return strings.Join(parts, ",")
	}
	return "?"
}

var aggRunner = sqlparser.NewDefaultAggRunner(nil)

// runAggregate drives the real aggregate: inputs[i] is the ColumnSeries of the i-th Accum.
func runAggregate(fn, mode, call string, params, literals []string, inputs []*mio.ColumnSeries) string {
	tbk := *mio.NewTimeBucketKey("TEST/1Min/OHLCV")
	if mode == "run" {
		if len(inputs) != 1 {
			panic("bad-arg run mode needs one batch")
		}
		cs, err := aggRunner.Run([]string{call}, inputs[0], tbk)
		if err != nil {
			return aggErrClass(err)
		}
		return "ok " + showAggOutput(fn, cs)
	}
	agg := aggRunner.GetFunc(fn)
	argMap := functions.NewArgumentMap(agg.GetRequiredArgs(), agg.GetOptionalArgs()...)
	if err := argMap.PrepareArguments(params); err != nil {
		return "err:args"
	}
	aggfunc, err := agg.New(argMap, literals)
	if err != nil {
		return "err:new"
	}
	outs := make([]string, len(inputs))
	for i, in := range inputs {
		cs, err := aggfunc.Accum(tbk, argMap, in)
		if err != nil {
			return aggErrClass(err)
		}
		outs[i] = showAggOutput(fn, cs)
	}
	return "ok " + strings.Join(outs, ";")
}

func init() {
	ops["aggv"] = func(a []string) string {
		fn, mode, ty := a[0], a[1], a[2]
		var inputs []*mio.ColumnSeries
		for _, b := range parseBatches(a[3]) {
			cs := mio.NewColumnSeries()
			ep := make([]int64, len(b))
			for i := range ep {
				ep[i] = int64(1500000000 + i)
			}
			cs.AddColumn("Epoch", ep)
			if ty != "none" {
				cs.AddColumn("V", goColumn(ty, b))
			}
			inputs = append(inputs, cs)
		}
		return runAggregate(fn, mode, fn+"(V)", []string{"V"}, nil, inputs)
	}

	ops["gap"] = func(a []string) string {
		mode, thr, ty := a[0], a[1], a[2]
		var inputs []*mio.ColumnSeries
		for _, b := range parseBatches(a[3]) {
			cs := mio.NewColumnSeries()
			if ty != "none" {
				cs.AddColumn("Epoch", goColumn(ty, b))
			} else {
				cs.AddColumn("V", make([]int64, len(b)))
			}
			inputs = append(inputs, cs)
		}
		return runAggregate("gap", mode, "gap('"+thr+"')", nil, []string{thr}, inputs)
	}

	gens["C23"] = genC23
}

var f32Boundary = []int64{0, 0x80000000, 1, 0x80000001, 0x007fffff, 0x00800000, 0x7f7fffff, 0xff7fffff,
	0x7f800000, 0xff800000, 0x3f800000, 0xbf800000, 0x3f800001, 0x3f7fffff, 0x42f6e979, 0x4b800000}
var f32NaNs = []int64{0x7fc00000, 0xffc00000, 0x7f800001, 0x7fffffff, 0xff800001}

var f64Boundary = []uint64{0, 0x8000000000000000, 1, 0x3ff0000000000000, 0xbff0000000000000,
	0x3ff0000010000000,                     // 1 + 2^-24: tie between two float32 (rounds to even = 1)
	0x3ff0000010000001, 0x3ff000000fffffff, // just above / below the tie
	0x3ff0000030000000,                     // 1 + 3*2^-24: tie, rounds up to even
	0x47efffffe0000000,                     // MaxFloat32
	0x47effffff0000000,                     // MaxFloat32 + half ulp: tie, rounds to +Inf
	0x47efffffefffffff,                     // just below: rounds to MaxFloat32
	0x47f0000000000000,                     // 2^128
	0x7fefffffffffffff, 0xffefffffffffffff, // +-MaxFloat64
	0x36a0000000000000,                     // 2^-149 = smallest float32 subnormal
	0x3690000000000000,                     // 2^-150: tie, rounds to 0
	0x3690000000000001,                     // just above: rounds to 2^-149
	0x36b8000000000000,                     // 1.5 * 2^-148 : subnormal tie
	0x380fffffffffffff,                     // just below the smallest normal float32
	0x3810000000000000,                     // 2^-126
	0x7ff0000000000000, 0xfff0000000000000, // +-Inf
	0x405edd2f1a9fbe77,                     // 123.456
}
var f64NaNs = []uint64{0x7ff8000000000000, 0xfff8000000000000, 0x7ff0000000000001, 0x7fffffffffffffff}

var intBoundary = []int64{0, 1, -1, 2, 16777216, 16777217, 16777218, 16777219, -16777217, 33554434, 33554438,
	math.MaxInt32, math.MinInt32, math.MaxInt64, math.MinInt64, 1 << 53, 1<<53 + 1, 9007199791611905,
	0x7fffffbfffffffff, 0x7fffffc000000000, 0x7fffff4000000000, 1234567, -7654321}

func genValue(g *Gen, ty string) (int64, bool) {
	nan := false
	switch ty {
	case "f32":
		switch g.Intn(10) {
		case 0:
			nan = true
			return f32NaNs[g.Intn(len(f32NaNs))], nan
		case 1, 2, 3:
			return f32Boundary[g.Intn(len(f32Boundary))], false
		case 4, 5:
			v := int64(g.R.Uint32())
			if v&0x7f800000 == 0x7f800000 && v&0x7fffff != 0 {
				nan = true
			}
			return v, nan
		default: // prices
			return int64(math.Float32bits(float32(g.Intn(20000)-2000) / 100)), false
		}
	case "f64":
		switch g.Intn(10) {
		case 0:
			return int64(f64NaNs[g.Intn(len(f64NaNs))]), true
		case 1, 2, 3:
			return int64(f64Boundary[g.Intn(len(f64Boundary))]), false
		case 4, 5:
			v := g.R.Uint64()
			if v&0x7ff0000000000000 == 0x7ff0000000000000 && v&0xfffffffffffff != 0 {
				nan = true
			}
			return int64(v), nan
		case 6: // float32-range magnitudes with random low bits (rounding paths)
			e := uint64(1023 - 160 + g.Intn(300))
			return int64(uint64(g.Intn(2))<<63 | e<<52 | g.R.Uint64()&0xfffffffffffff), false
		default:
			return int64(math.Float64bits(float64(g.Intn(2000000)-200000) / 100)), false
		}
	}
	var v int64
	switch g.Intn(3) {
	case 0:
		v = intBoundary[g.Intn(len(intBoundary))]
	case 1:
		v = int64(g.R.Uint64()) >> uint(g.Intn(64))
	default:
		v = int64(g.Intn(2001) - 1000)
	}
	switch ty {
	case "i32":
		v = int64(int32(v))
	case "i16":
		v = int64(int16(v))
	case "i8":
		v = int64(int8(v))
	case "u8":
		v = int64(uint8(v))
	case "u16":
		v = int64(uint16(v))
	case "u32":
		v = int64(uint32(v))
	case "u64":
		if v < 0 {
			v = -(v + 1)
		}
	}
	return v, false
}

func genBatchSizes(g *Gen, single bool) []int {
	size := func() int {
		switch g.Intn(8) {
		case 0:
			return 0
		case 1:
			return 1
		case 2:
			return 2
		case 3:
			return 3 + g.Intn(40)
		}
		return 1 + g.Intn(8)
	}
	if single {
		return []int{size()}
	}
	n := 1 + g.Intn(4)
	out := make([]int, n)
	for i := range out {
		out[i] = size()
	}
	return out
}

func joinBatches(bs [][]int64) string {
	parts := make([]string, len(bs))
	for i, b := range bs {
		parts[i] = showInts(b)
	}
	return strings.Join(parts, ";")
}

func sizeTag(n int) string {
	switch {
	case n == 0:
		return "rows:0"
	case n == 1:
		return "rows:1"
	case n < 10:
		return "rows:2-9"
	}
	return "rows:10+"
}

func genC23(g *Gen) {
	handled := []string{"f32", "f64", "int", "i64", "i32"}
	narrow := []string{"i16", "i8", "u8", "u16", "u32", "u64"} // converted since the type switch was completed
	fns := []string{"count", "min", "max", "avg"}
	n := g.N(2500, 40000)
	for i := 0; i < n; i++ {
		fn := fns[g.Intn(len(fns))]
		mode := "acc"
		if g.Intn(2) == 0 {
			mode = "run"
		}
		var ty string
		switch r := g.Intn(20); {
		case r < 11:
			ty = handled[g.Intn(len(handled))]
		case r < 18:
			ty = narrow[g.Intn(len(narrow))]
		case r < 19:
			ty = "none"
		default:
			ty = "bool" // a non-numeric column: rejected with an error
		}
		sizes := genBatchSizes(g, mode == "run")
		total, anyNaN := 0, false
		vty := ty
		if ty == "none" {
			vty = "i64"
		}
		if ty == "bool" {
			vty = "u8"
		}
		bs := make([][]int64, len(sizes))
		dup := g.Intn(4) == 0 // many equal values (ties, first-wins)
		for k, sz := range sizes {
			bs[k] = make([]int64, sz)
			for j := range bs[k] {
				v, isNaN := genValue(g, vty)
				if dup && j > 0 && g.Intn(2) == 0 {
					v = bs[k][g.Intn(j)]
					isNaN = false
				}
				bs[k][j] = v
				anyNaN = anyNaN || isNaN
			}
			total += sz
		}
		tags := []string{"fn:" + fn, "mode:" + mode, "type:" + ty, sizeTag(total), fmt.Sprintf("batches:%d", len(sizes))}
		if anyNaN {
			tags = append(tags, "has_nan")
		}
		if len(sizes) > 0 && sizes[0] == 0 {
			tags = append(tags, "first_batch_empty")
		}
		g.Emit(fmt.Sprintf("aggv %s %s %s %s", fn, mode, ty, joinBatches(bs)), tags...)
	}

	// gap detection
	thrs := []struct {
		s   string
		sec int64
	}{{"0Sec", 0}, {"1Sec", 1}, {"5Sec", 5}, {"1Min", 60}, {"5Min", 300}, {"1H", 3600}, {"4H", 14400},
		{"1D", 86400}, {"1W", 604800}, {"1Y", 31536000}, {"1M", 0}, {"90Sec", 90}, {"15Min", 900}}
	m := g.N(1500, 25000)
	for i := 0; i < m; i++ {
		th := thrs[g.Intn(len(thrs))]
		thrTag := "thr:" + th.s
		if g.Intn(6) == 0 {
			thrTag = "thr:random_Sec"
			k := int64(1 + g.Intn(5000))
			th = struct {
				s   string
				sec int64
			}{fmt.Sprintf("%dSec", k), k}
		}
		mode := "acc"
		if g.Intn(2) == 0 {
			mode = "run"
		}
		ty := "i64"
		switch g.Intn(16) {
		case 0:
			ty = "i32"
		case 1:
			ty = "int"
		case 2:
			ty = []string{"u32", "i16", "u64", "bool"}[g.Intn(4)]
		case 3:
			ty = "none"
		case 4:
			ty = "f64"
		}
		sizes := genBatchSizes(g, mode == "run")
		bs := make([][]int64, len(sizes))
		kind := "seconds"
		base := int64(1500000000 + g.Intn(100000000))
		switch g.Intn(12) {
		case 0:
			kind, base = "near_2^53", 1<<53-int64(g.Intn(50))
		case 1:
			kind, base = "int64_extreme", math.MinInt64+int64(g.Intn(10))
		case 2:
			kind, base = "small", int64(g.Intn(10))
		}
		if ty != "i64" && ty != "int" && ty != "u64" && ty != "f64" {
			kind, base = "small", int64(g.Intn(10))
		}
		cur := base
		total, ngaps := 0, 0
		for k, sz := range sizes {
			bs[k] = make([]int64, sz)
			for j := range bs[k] {
				var step int64
				switch g.Intn(10) {
				case 0:
					step = th.sec - 1
				case 1:
					step = th.sec
				case 2:
					step = th.sec + 1
				case 3:
					step = 0
				case 4:
					step = -int64(g.Intn(100)) // unsorted input
				case 5:
					step = th.sec * int64(2+g.Intn(50))
				default:
					step = 1 + int64(g.Intn(int(th.sec)+2))
				}
				if kind == "int64_extreme" && g.Intn(3) == 0 {
					step = math.MaxInt64 / 2
				}
				if kind == "near_2^53" && g.Intn(3) == 0 {
					step = int64(g.Intn(3))
				}
				if j > 0 || k > 0 {
					next := cur + step // int64 wrap-around is fine: still an int64 epoch
					if step > th.sec {
						ngaps++
					}
					cur = next
				}
				v := cur
				switch ty {
				case "i32":
					v = int64(int32(v))
				case "i16":
					v = int64(int16(v))
				case "u32":
					v = int64(uint32(v))
				case "u64":
					if v < 0 {
						v = -(v + 1)
					}
				case "f64":
					v = int64(math.Float64bits(float64(v)))
				}
				bs[k][j] = v
			}
			total += sz
		}
		gt := "gaps:0"
		if ngaps == 1 {
			gt = "gaps:1"
		} else if ngaps > 1 {
			gt = "gaps:2+"
		}
		g.Emit(fmt.Sprintf("gap %s %s %s %s", mode, th.s, ty, joinBatches(bs)),
			"fn:gap", "mode:"+mode, "epochtype:"+ty, "epochs:"+kind, sizeTag(total), fmt.Sprintf("batches:%d", len(sizes)), gt, thrTag)
	}
}
