import Mkts.Lemmas.Uda
/-!
# C23 — Scalar aggregates and gap detection are correct

Model: `Mkts.Uda` (uda/count, uda/min, uda/max, uda/avg, uda/gap, uda/uda.go) over the
bit-level float model `Mkts.Float`.  An aggregate is `New` followed by any number of `Accum` calls
(`finalState accum new batches`); the SQL pipeline (`AggRunner.Run`, `SelectRelation.Materialize`)
makes exactly one call with the whole input.  `vss : List (List Int)` is an arbitrary split of the
input column into batches, `images ty vss` the single-precision images (Go `float32(v)`) of all its
values in order.

* count / min / max / avg: proved for every split, every length (empty input included) and every
  numeric column type (`C23_full`, `C23_avg_full`).  Which slice types `ColumnToFloat32/64` convert is
  read off the regenerated skeletons of the two functions (`ColType.handled`), pinned by
  `skel_ColumnToFloat32/64`; a non-numeric column is an error (`C23_non_numeric_rejected`).
  (Before the repair "fix: convert every numeric column type in uda.ColumnToFloat32/64" only five
  slice types had a clause: min/max panicked and avg returned NaN for the other six.)
* min / max are stated on the total order of non-NaN floats (`key`); `avg` is "the same left fold of
  float64 `+`" divided by the count — nothing is claimed about rounding.
* gap: exact for an int64 Epoch column under `FloatExactOn` (float64 arithmetic exact on the
  occurring values — the IEEE assumption for magnitudes < 2^52 — evaluated pointwise by the driver).
-/
namespace Mkts.Props.C23
open Mkts.Float Mkts.Uda

/-! ## count -/

/-- count = number of input rows, for every sequence of batches whatsoever (any column type,
    missing column, empty batches, empty input) -/
theorem C23_count (bs : List Batch) : finalState countAccum countNew bs = .ok (totalLen bs : Int) := by
  rw [finalState_count]; simp [countNew]

theorem C23_count_rows (ty : ColType) (vss : List (List Int)) :
    finalState countAccum countNew (vss.map (Batch.ofVals ty)) = .ok (vss.flatten.length : Int) := by
  rw [C23_count]
  congr 2
  induction vss with
  | nil => rfl
  | cons vs vss ih =>
    simp only [totalLen, List.map_cons, List.sum_cons, List.flatten_cons, List.length_append] at ih ⊢
    rw [ih]; rfl

/-! ## min / max -/

/-- `r` is a minimum of `xs` that is attained -/
def IsMinOf (r : Nat) (xs : List Nat) : Prop := r ∈ xs ∧ ∀ y ∈ xs, key b32 r ≤ key b32 y
def IsMaxOf (r : Nat) (xs : List Nat) : Prop := r ∈ xs ∧ ∀ y ∈ xs, key b32 y ≤ key b32 r

/-- splitting the input into `Accum` batches does not matter -/
theorem C23_min_batches (ty : ColType) (h : ty.handled = true) (vss : List (List Int)) :
    finalState minAccum minMaxNew (vss.map (Batch.ofVals ty)) = .ok (minMaxOf minStep (images ty vss)) :=
  finalState_minMax_new minStep minStep_self h vss

theorem C23_max_batches (ty : ColType) (h : ty.handled = true) (vss : List (List Int)) :
    finalState maxAccum minMaxNew (vss.map (Batch.ofVals ty)) = .ok (minMaxOf maxStep (images ty vss)) :=
  finalState_minMax_new maxStep maxStep_self h vss

theorem minMaxOf_min (x : Nat) (t : List Nat) (hn : NoNaN (x :: t)) :
    IsMinOf (minMaxOf minStep (x :: t)).v (x :: t) := by
  have hx := hn x List.mem_cons_self
  have ht : NoNaN t := fun y hy => hn y (List.mem_cons_of_mem _ hy)
  obtain ⟨_, h2, h3⟩ := foldl_minStep_le t x hx ht
  refine ⟨?_, fun y hy => ?_⟩
  · rcases foldl_sel_mem minStep minStep_sel t x with h | h
    · simp only [minMaxOf]; rw [h]; exact List.mem_cons_self
    · exact List.mem_cons_of_mem _ h
  · rcases List.mem_cons.mp hy with rfl | hy
    · exact h2
    · exact h3 y hy

theorem minMaxOf_max (x : Nat) (t : List Nat) (hn : NoNaN (x :: t)) :
    IsMaxOf (minMaxOf maxStep (x :: t)).v (x :: t) := by
  have hx := hn x List.mem_cons_self
  have ht : NoNaN t := fun y hy => hn y (List.mem_cons_of_mem _ hy)
  obtain ⟨_, h2, h3⟩ := foldl_maxStep_ge t x hx ht
  refine ⟨?_, fun y hy => ?_⟩
  · rcases foldl_sel_mem maxStep maxStep_sel t x with h | h
    · simp only [minMaxOf]; rw [h]; exact List.mem_cons_self
    · exact List.mem_cons_of_mem _ h
  · rcases List.mem_cons.mp hy with rfl | hy
    · exact h2
    · exact h3 y hy

/-- the statement of the property for one aggregate `accum`: on a non-empty NaN-free column of type
    `ty`, split in any way, the aggregate succeeds with a value satisfying `P` w.r.t. the
    single-precision images of the column -/
def MinMaxCorrect (accum : MinMax → Batch → Except String MinMax) (P : Nat → List Nat → Prop)
    (ty : ColType) (vss : List (List Int)) : Prop :=
  images ty vss ≠ [] → NoNaN (images ty vss) →
  ∃ r, finalState accum minMaxNew (vss.map (Batch.ofVals ty)) = .ok ⟨true, r⟩ ∧ P r (images ty vss)

/-- min is the minimum of the column's single-precision images and is attained (handled types) -/
theorem C23_min (ty : ColType) (h : ty.handled = true) (vss : List (List Int)) :
    MinMaxCorrect minAccum IsMinOf ty vss := by
  intro hne hn
  rw [C23_min_batches ty h]
  cases hi : images ty vss with
  | nil => exact absurd hi hne
  | cons x t =>
    rw [hi] at hn
    exact ⟨_, rfl, minMaxOf_min x t hn⟩

theorem C23_max (ty : ColType) (h : ty.handled = true) (vss : List (List Int)) :
    MinMaxCorrect maxAccum IsMaxOf ty vss := by
  intro hne hn
  rw [C23_max_batches ty h]
  cases hi : images ty vss with
  | nil => exact absurd hi hne
  | cons x t =>
    rw [hi] at hn
    exact ⟨_, rfl, minMaxOf_max x t hn⟩

/-- empty input (any number of empty batches): the zero aggregate, no error -/
theorem C23_min_empty (ty : ColType) (h : ty.handled = true) (vss : List (List Int))
    (he : images ty vss = []) :
    finalState minAccum minMaxNew (vss.map (Batch.ofVals ty)) = .ok minMaxNew := by
  rw [C23_min_batches ty h, he]; rfl

/-! ### what happens with NaN (outside the property's order, modelled and cross-checked) -/

/-- a NaN in FIRST position sticks: min (max) stays that NaN whatever follows -/
theorem C23_nan_first (x : Nat) (t : List Nat) (hx : isNaN b32 x = true) :
    (minMaxOf minStep (x :: t)).v = x ∧ (minMaxOf maxStep (x :: t)).v = x :=
  ⟨foldl_step_nan_acc minStep minStep_nan t x hx, foldl_step_nan_acc maxStep maxStep_nan t x hx⟩

/-- NaNs in later positions are ignored: the result is the min (max) of the non-NaN values, so the
    result depends on where the NaN stands -/
theorem C23_nan_later (x : Nat) (t : List Nat) :
    minMaxOf minStep (x :: t) = minMaxOf minStep (x :: t.filter (fun y => !isNaN b32 y)) ∧
    minMaxOf maxStep (x :: t) = minMaxOf maxStep (x :: t.filter (fun y => !isNaN b32 y)) := by
  simp only [minMaxOf]
  rw [foldl_step_filter_nan minStep minStep_nan t x, foldl_step_filter_nan maxStep maxStep_nan t x]
  exact ⟨rfl, rfl⟩

/-! ### the output returned by every single `Accum` call -/

/-- the i-th `Accum` call returns the aggregate of the first i+1 batches (any aggregate `accum`):
    together with the `_batches` theorems this gives the value of every intermediate output -/
theorem C23_outputs {σ ο : Type} (accum : σ → Batch → Except String σ) (out : σ → ο)
    (bs : List Batch) (s : σ) (os : List ο) (h : runAgg accum out s bs = .ok os) :
    os.length = bs.length ∧
    ∀ i, i < bs.length → ∃ si, finalState accum s (bs.take (i + 1)) = .ok si ∧ os[i]? = some (out si) :=
  runAgg_prefix accum out bs s os h

/-! ## avg -/

/-- avg = (left fold of float64 `+` over the images, from +0) / float64(number of rows), for every
    split into batches -/
theorem C23_avg (ty : ColType) (h : ty.handled = true) (vss : List (List Int)) :
    ∃ s, finalState avgAccum avgNew (vss.map (Batch.ofVals ty)) = .ok s ∧
      s.avg = fsum 0 (images ty vss) ∧ s.count = (images ty vss).length ∧
      avgOutput s = div b64 (fsum 0 (images ty vss)) (ofInt b64 (images ty vss).length) := by
  refine ⟨_, finalState_avg h vss avgNew, ?_⟩
  rw [foldl_avgStep]
  simp [avgNew, avgOutput]

/-! ## the tie to the source, and the full statement over all numeric column types -/

/-- the type switches of the CURRENT `uda.ColumnToFloat32/64` (regenerated from the source on every
    run): one converting clause per numeric slice type, and a default clause returning an error -/
def expColumnToFloat (clauses : List String) : List String :=
  ["call:cols.GetColumn", "if:ccol == nil{", "call:fmt.Errorf", "return", "}", "typeswitch{"] ++
  clauses ++ ["case:default{", "call:fmt.Errorf", "return", "}", "}", "return"]

def convClause (ty : ColType) : List String := [ty.caseAtom, "range:cc{", "setidx:outCol", "}", "}"]

def numericTypes : List ColType := [.int, .i64, .i32, .i16, .i8, .u8, .u16, .u32, .u64]

theorem skel_ColumnToFloat32 :
    Mkts.Extracted.Skel.uda_ColumnToFloat32 =
      expColumnToFloat (["case:[]float32{", "}"] ++ convClause .f64 ++ (numericTypes.map convClause).flatten) := by
  decide

theorem skel_ColumnToFloat64 :
    Mkts.Extracted.Skel.uda_ColumnToFloat64 =
      expColumnToFloat (["case:[]float64{", "}"] ++ convClause .f32 ++ (numericTypes.map convClause).flatten) := by
  decide

/-- every numeric slice type has a clause in both functions; anything else is an error -/
theorem code_handles_all_numeric (ty : ColType) (h : ty.numeric = true) :
    ty.handled = true ∧ ty.handled64 = true := by
  cases ty <;> first | (exact ⟨by decide, by decide⟩) | (cases h)

theorem code_default_is_error : defaultIsError = true ∧ defaultIsError64 = true := by decide

/-- C23 as the property states it ("all input columns of any numeric type"): min and max are the
    attained minimum / maximum of the single-precision images, for every numeric column type, every
    length and every split into batches -/
theorem C23_full (ty : ColType) (hnum : ty.numeric = true) (vss : List (List Int)) :
    MinMaxCorrect minAccum IsMinOf ty vss ∧ MinMaxCorrect maxAccum IsMaxOf ty vss :=
  ⟨C23_min ty (code_handles_all_numeric ty hnum).1 vss, C23_max ty (code_handles_all_numeric ty hnum).1 vss⟩

/-- avg for every numeric column type -/
theorem C23_avg_full (ty : ColType) (hnum : ty.numeric = true) (vss : List (List Int)) :
    ∃ s, finalState avgAccum avgNew (vss.map (Batch.ofVals ty)) = .ok s ∧
      avgOutput s = div b64 (fsum 0 (images ty vss)) (ofInt b64 (images ty vss).length) := by
  obtain ⟨s, h1, _, _, h4⟩ := C23_avg ty (code_handles_all_numeric ty hnum).1 vss
  exact ⟨s, h1, h4⟩

/-- a column that is not numeric (e.g. `[]bool`) is rejected with an error by min, max and avg:
    no panic, no silent NaN -/
theorem C23_non_numeric_rejected (vs : List Int) (hne : vs ≠ []) :
    minAccum minMaxNew (Batch.ofVals .other vs) = .error "err:unsupported" ∧
    maxAccum minMaxNew (Batch.ofVals .other vs) = .error "err:unsupported" ∧
    avgAccum avgNew (Batch.ofVals .other vs) = .error "err:unsupported" := by
  have h1 : ColType.handled .other = false := by decide
  have h2 : defaultIsError = true := code_default_is_error.1
  cases vs with
  | nil => exact absurd rfl hne
  | cons a t => simp [minAccum, maxAccum, minMaxAccum, avgAccum, Batch.ofVals, h1, h2]

/-- the statement restricted to the types with a clause (what the proofs above instantiate) -/
theorem C23_partial (ty : ColType) (h : ty.handled = true) (vss : List (List Int)) :
    MinMaxCorrect minAccum IsMinOf ty vss ∧ MinMaxCorrect maxAccum IsMaxOf ty vss :=
  ⟨C23_min ty h vss, C23_max ty h vss⟩

/-! ## gap -/

/-- gap with an explicit threshold, one `Accum` on an int64 Epoch column (what the pipeline does):
    exactly the consecutive pairs whose difference exceeds the threshold -/
theorem C23_gap_exact (thr : Int) (es : List Int) (h : FloatExactOn thr es) :
    gapAccum thr (Batch.ofVals .i64 es) = .ok (specGaps thr es) := by
  cases es with
  | nil => simp [gapAccum, Batch.ofVals, specGaps, pairs]
  | cons a t =>
    have hb := bigGaps_eq_spec thr (a :: t) h
    simp only [gapAccum, Batch.ofVals, List.length_cons, columnToFloat64_handled (ty := .i64) (by decide)]
    rw [hb]
    by_cases he : (specGaps thr (a :: t)).isEmpty
    · simp [List.isEmpty_iff.mp he]
    · simp [he]

/-- every `Accum` call reports the gaps of its own batch only (`BigGapIdxs` is reset) -/
theorem C23_gap_batches (thr : Int) (ess : List (List Int)) (h : ∀ es ∈ ess, FloatExactOn thr es) :
    runGap thr (ess.map (Batch.ofVals .i64)) = .ok (ess.map (specGaps thr)) := by
  induction ess with
  | nil => rfl
  | cons es ess ih =>
    rw [List.map_cons, runGap, C23_gap_exact thr es (h es List.mem_cons_self)]
    simp only []
    rw [ih (fun e he => h e (List.mem_cons_of_mem _ he))]
    rfl

/-- consequently gap is NOT incremental: a gap that straddles two batches (or lies in an earlier
    batch) is not in the final output, although it is in the output for the concatenated input -/
theorem C23_gap_not_incremental :
    runGap 5 ([[0, 1], [100, 101]].map (Batch.ofVals .i64)) = .ok [[], []] ∧
    gapAccum 5 (Batch.ofVals .i64 [0, 1, 100, 101]) = .ok [(1, 100, 99)] := by
  decide +kernel

/-! ## non-vacuity -/
example : FloatExactOn 300 [1500000000, 1500000060, 1500000361, 1500000661] := by
  intro p hp
  simp only [pairs, List.mem_cons, List.not_mem_nil, or_false] at hp
  rcases hp with rfl | rfl | rfl <;> decide +kernel
example : specGaps 300 [1500000000, 1500000060, 1500000361, 1500000661] =
    [(1500000060, 1500000361, 301)] := by decide
example : (ColType.f64).handled = true ∧ images .f64 [[0x3FF0000000000000], [], [0xC000000000000000]] ≠ [] ∧
    NoNaN (images .f64 [[0x3FF0000000000000], [], [0xC000000000000000]]) := by decide
example : minMaxOf minStep (images .f64 [[0x3FF0000000000000], [], [0xC000000000000000]]) = ⟨true, 0xC0000000⟩ := by
  decide

end Mkts.Props.C23
