import Mkts.Lemmas.Rows
/-!
# C29 — Row serialization round-trips with alignment

Model: `Mkts.Rows` (`ColumnSeries.ToRowSeries`, `SerializeColumnsToRows`, `NewRowSeries`,
`Rows.GetColumn`, `RowSeries.ToColumnSeries`, `Rows.ToColumnSeries`; utils/io/columnseries.go,
rowseries.go, datatypes.go).  Column values are opaque byte strings of the element type's size
(`Extracted.attributeMap`), so every statement covers all element types and all values.

Three defects found by this check have been repaired in the code and the model moved with it
(the model reads each variant off the regenerated skeletons, `Mkts.Rows.epochExact`,
`byteTyped`, `toRowSeriesReorders`; the `code_*` theorems below pin the repaired variants):
* C29-F1 `ToRowSeries` now lists the Epoch shape first, as the records are laid out;
* C29-F2 `GetColumn` returns int8 columns as `[]int8`;
* C29-F3 `SerializeColumnsToRows` matches the Epoch column by its exact name.
What remains false of the code: BOOL columns are read back as `[]byte` (kept: bool has no
wire type) — counterexample `C29_cex_bool`, excluded class `no_bool` in `C29_partial`.

Column order: both readers add the Epoch column first, so the result is the series with its
Epoch column moved to the front (`epochFront`; the identity when Epoch already is the first
column, `C29_order`).
-/
namespace Mkts.Props.C29
open Mkts.Rows Mkts.Bytes

/-- The property at full strength: every valid series comes back from `ToRowSeries` followed by
either reader with the same names, element types and values, the Epoch column in front and the
other columns in their order, with and without alignment. -/
def C29_full : Prop :=
  ∀ (cs : ColumnSeries) (align : Bool), ValidSeries cs →
    roundTrip cs align = .ok ⟨epochFront cs.cols, []⟩ ∧ roundTripRows cs align = .ok ⟨epochFront cs.cols, []⟩

/-- Names and values of every valid series survive, wherever its Epoch column is and whatever
the other columns are called; element types come back as `GetColumn` types them (`retype`:
only BOOL changes, to UINT8). -/
theorem C29_values (cs : ColumnSeries) (align : Bool) (hv : ValidSeries cs) :
    roundTrip cs align = .ok ⟨(epochFront cs.cols).map retype, []⟩ ∧
    roundTripRows cs align = .ok ⟨(epochFront cs.cols).map retype, []⟩ := by
  obtain ⟨pre, e, post, hcols, hef, hty, hfront, _⟩ := valid_split cs hv
  have hcs : cs = ⟨pre ++ e :: post, cs.incr⟩ := by cases cs; simp_all
  have hnd : ((pre ++ e :: post).map (·.name)).Nodup := by rw [← hcols]; exact hv.1
  rw [hfront, hcs]
  exact ⟨roundTrip_valid pre post e _ align hef hnd hty, roundTripRows_valid pre post e _ align hef hnd hty⟩

/-- The round trip of C29 for every valid series without a BOOL column. -/
theorem C29_partial (cs : ColumnSeries) (align : Bool) (hv : ValidSeries cs) (h2 : no_bool cs) :
    roundTrip cs align = .ok ⟨epochFront cs.cols, []⟩ ∧ roundTripRows cs align = .ok ⟨epochFront cs.cols, []⟩ := by
  have hmap : (epochFront cs.cols).map retype = epochFront cs.cols := by
    have hid : ∀ c ∈ epochFront cs.cols, retype c = c := by   -- every column keeps its type
      intro c hc
      have hc' : c ∈ cs.cols := by
        simp only [epochFront, List.mem_append, List.mem_filter] at hc
        rcases hc with h | h <;> exact h.1
      have := readType_eq c.typ (hv.2.2 c hc').1 (h2 c hc')
      simp [retype, this]
    rw [List.map_congr_left hid, List.map_id']
  have := C29_values cs align hv
  rw [hmap] at this
  exact this

/-- With the Epoch column in front (every bucket schema) the column order is unchanged. -/
theorem C29_order (cs : ColumnSeries) (hv : ValidSeries cs) (h : epoch_first cs) :
    epochFront cs.cols = cs.cols := epochFront_of_first cs hv h

/-- Record layout: `recordLen` is the sum of the element sizes, rounded up to a multiple of 8
with alignment (less than 8 bytes of padding), and the data is exactly one record per row. -/
theorem C29_record_layout (cs : ColumnSeries) (align : Bool) (hv : ValidSeries cs) :
    ∃ data recordLen, serializeColumnsToRows cs (toRowSeriesShapes cs) align = .ok (data, recordLen) ∧
      data.length = cs.len * recordLen ∧
      shapesLen cs.getDataShapes ≤ recordLen ∧
      (align = false → recordLen = shapesLen cs.getDataShapes) ∧
      (align = true → recordLen % 8 = 0 ∧ recordLen < shapesLen cs.getDataShapes + 8) := by
  obtain ⟨pre, e, post, hcols, hef, _, _, hlen⟩ := valid_split cs hv
  have hcs : cs = ⟨pre ++ e :: post, cs.incr⟩ := by cases cs; simp_all
  have hnd : ((pre ++ e :: post).map (·.name)).Nodup := by rw [← hcols]; exact hv.1
  have hsub : ∀ c ∈ e :: (pre ++ post), c ∈ pre ++ e :: post := by
    intro c hc; simp only [List.mem_cons, List.mem_append] at hc ⊢
    rcases hc with h | h | h
    · exact Or.inr (Or.inl h)
    · exact Or.inl h
    · exact Or.inr (Or.inr h)
  have hsl : shapesLen cs.getDataShapes = 8 + sizesOf (pre ++ post) := by
    have h1 : cs.getDataShapes = (pre ++ e :: post).map toShape := by rw [hcs]; rfl
    rw [h1, sizesOf_eq, sizesOf_append]
    simp only [sizesOf, List.map_cons, List.sum_cons, hef.etyp, typeSize_INT64, List.map_append, List.sum_append]
    omega
  refine ⟨(rowsOf e (pre ++ post) align).data, recLen (pre ++ post) align, ?_, ?_, ?_, ?_, ?_⟩
  · rw [hcs, toRowSeriesShapes_split pre post e _ hef.ename hnd]
    exact serialize_ok _ _ e (pre ++ post) align hef hnd hsub
  · rw [hlen]; exact flatten_rows_length e _ align hef
  · rw [hsl]; exact recLen_ge _ align
  · intro h; rw [hsl, h]; rfl
  · intro h
    rw [hsl, h]
    simp only [recLen, alignedSize, if_true]
    split <;> rename_i hm <;> simp only [beq_iff_eq] at hm <;> omega

/-! ## the repaired variants are the ones in the source (regenerated skeletons) -/

theorem code_epoch_exact : epochExact = true := by decide
theorem code_byte_typed : byteTyped = true := by decide
theorem code_torowseries_reorders : toRowSeriesReorders = true := by decide

/-! ## the former counterexamples now round-trip (witnesses corpus/C29/fixed_*.ops) -/

def b8 (x : UInt8) : Bytes := [x, 0, 0, 0, 0, 0, 0, 0]

/-- `A` int64 before `Epoch` (C29-F1 before the repair: A came back holding the epochs) -/
def exEpochSecond : ColumnSeries := ⟨[⟨"A", INT64, [b8 1, b8 2]⟩, ⟨"Epoch", INT64, [b8 7, b8 8]⟩], []⟩
/-- an int8 column (C29-F2 before the repair: came back as `[]uint8`) -/
def exInt8 : ColumnSeries := ⟨[⟨"Epoch", INT64, [b8 7]⟩, ⟨"B", BYTE, [[0xff]]⟩], []⟩
/-- a column `EPOCH` next to `Epoch` (C29-F3 before the repair: shifted garbage, one row lost) -/
def exAlias : ColumnSeries := ⟨[⟨"Epoch", INT64, [b8 7, b8 8]⟩, ⟨"EPOCH", INT32, [[1, 0, 0, 0], [2, 0, 0, 0]]⟩], []⟩

example : roundTrip exEpochSecond false =
    .ok ⟨[⟨"Epoch", INT64, [b8 7, b8 8]⟩, ⟨"A", INT64, [b8 1, b8 2]⟩], []⟩ := by decide
example : roundTrip exInt8 false = .ok ⟨exInt8.cols, []⟩ := by decide
example : roundTrip exAlias false = .ok ⟨exAlias.cols, []⟩ := by decide

/-! ## what is still false: BOOL columns -/

/-- a bool column: comes back as `[]uint8` -/
def cexBool : ColumnSeries := ⟨[⟨"Epoch", INT64, [b8 7]⟩, ⟨"F", BOOL, [[1]]⟩], []⟩

theorem C29_cex_bool :
    ValidSeries cexBool ∧ epoch_first cexBool ∧
    roundTrip cexBool false = .ok ⟨[⟨"Epoch", INT64, [b8 7]⟩, ⟨"F", UINT8, [[1]]⟩], []⟩ := by decide

theorem C29_not_full : ¬ C29_full := by
  intro h
  have h1 := (h cexBool false C29_cex_bool.1).1
  rw [C29_cex_bool.2.2] at h1
  exact absurd h1 (by decide)

/-! ## non-vacuity: the hypotheses of `C29_partial` hold for non-trivial series -/

def sample : ColumnSeries :=
  ⟨[⟨"Open", FLOAT32, [[1, 2, 3, 4], [5, 6, 7, 8], [9, 10, 11, 12]]⟩, ⟨"Epoch", INT64, [b8 1, b8 2, b8 3]⟩,
    ⟨"Flag", BYTE, [[1], [0xff], [1]]⟩, ⟨"epoch", UINT8, [[1], [0], [1]]⟩], []⟩

example : ValidSeries sample ∧ no_bool sample := by decide
example : roundTrip sample true = .ok ⟨epochFront sample.cols, []⟩ := (C29_partial sample true (by decide) (by decide)).1
example : (serializeColumnsToRows sample (toRowSeriesShapes sample) true).map (fun p => (p.1.length, p.2)) = .ok (48, 16) := by decide

end Mkts.Props.C29
