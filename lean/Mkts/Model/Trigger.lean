import Mkts.Model.Bytes
import Mkts.Extracted.Skeletons
/-!
# Trigger dispatch (mirrors `executor/written.go`, `plugins/trigger/trigger.go: Matcher.Match,
Record.Index/Payload`, and the tail of `executor/wal.go: FlushCommandsToWAL` / `serializeTG`)

* A written record handed to triggers is `buffer.IndexAndPayload()`: the 8-byte little-endian slot
  index followed by the row bytes without the Epoch column.
* `serializeTG` groups the write commands of one transaction group per WAL key path
  (`<symbol>/<timeframe>/<attrgroup>/<year>.bin`) in command order; `FlushCommandsToWAL` walks that
  Go map (any order) and calls `AppendRecord(keyPath, record)` per command, and - deferred -
  `DispatchRecords()`, which sends one `writtenRecords{key, records}` per key of `tpd.m` (any order)
  to the channel and resets `tpd.m = nil`.
* `run` receives the channel in FIFO order and, per element, walks the matchers in configuration
  order; `Match` is `regexp.MatchString("^" + strings.Replace(On, "*", "[^/]+", -1), keyPath)`: the
  translated pattern must match a PREFIX of the key path (repair of C32-F1; before it the pattern was
  searched anywhere in the path).  Which of the two the CURRENT source does is read off the
  regenerated skeleton of `Matcher.Match` (`anchoredInCode`), so the model follows the code.

Go maps are association lists here; wherever Go iterates a map the theorems quantify over every
order.  Core Lean only.
-/
namespace Mkts.Trigger
open Mkts.Bytes

/-- Go strings (key paths, patterns) as character lists, one `Char` per byte (ASCII) -/
abbrev Str := List Char

/-! ## `Matcher.Match` -/

/-- regexp atoms produced by the translation: a literal character or `[^/]+` -/
inductive Tok
  | lit (c : Char)
  | plus
deriving DecidableEq, Repr

/-- characters of `On` that the model covers: they stand for themselves in RE2 syntax -/
def plainChar (c : Char) : Bool := c.isAlphanum || c == '/' || c == '_' || c == '-'

/-- `strings.Replace(tm.On, "*", "[^/]+", -1)` read as a regexp (for `On` over `plainChar ∪ {*}`) -/
def translate (on : List Char) : List Tok := on.map (fun c => if c = '*' then Tok.plus else Tok.lit c)

def inAlphabet (on : List Char) : Bool := on.all (fun c => plainChar c || c == '*')

/-- `[^/]+` followed by the continuation `k`: one or more non-slash characters, every split tried -/
def matchPlus (k : List Char → Bool) : List Char → Bool
  | [] => false
  | x :: s => x != '/' && (k s || matchPlus k s)

/-- does some PREFIX of the text match the token sequence? (backtracking matcher) -/
def matchHere : List Tok → List Char → Bool
  | [] => fun _ => true
  | Tok.lit c :: p => fun s =>
    match s with
    | [] => false
    | x :: s' => x == c && matchHere p s'
  | Tok.plus :: p => fun s => matchPlus (matchHere p) s

/-- `regexp.MatchString`: does the pattern match at some position of the text? -/
def matchAny (p : List Tok) : List Char → Bool
  | [] => matchHere p []
  | x :: s => matchHere p (x :: s) || matchAny p s

/-- the body of `Matcher.Match` after the repair (skeleton with assignments and returned expressions) -/
def expMatchAnchored : List String :=
  ["call:strings.Replace", "assign:pattern=\"^\" + strings.Replace(tm.On, \"*\", \"[^/]+\", -1)",
   "call:regexp.MatchString", "assign:matched,_=regexp.MatchString(pattern, keyPath)", "ret:matched", "return"]

/-- does `Matcher.Match` of the CURRENT source anchor the pattern at the start of the key path?
    (regenerated from the repository on every run; any other body counts as the unanchored search) -/
def anchoredInCode : Bool := Mkts.Extracted.Skel.plugins_trigger_Matcher_Match == expMatchAnchored

/-- `tm.Match(keyPath)` for either form of the source -/
def matchWith (anchored : Bool) (on key : Str) : Bool :=
  if anchored then matchHere (translate on) key else matchAny (translate on) key

/-- `tm.Match(keyPath)` of the current source -/
def «match» (on key : Str) : Bool := matchWith anchoredInCode on key

/-! ### specification of the match: regular-language semantics and component-wise globbing -/

/-- the language of a token sequence (what a regexp engine must implement) -/
inductive Denote : List Tok → List Char → Prop
  | nil : Denote [] []
  | lit {c p s} : Denote p s → Denote (Tok.lit c :: p) (c :: s)
  | plus {p w s} : w ≠ [] → (∀ x ∈ w, x ≠ '/') → Denote p s → Denote (Tok.plus :: p) (w ++ s)

/-- unanchored search: some substring is in the language -/
def Matches (p : List Tok) (s : List Char) : Prop := ∃ a m b, s = a ++ m ++ b ∧ Denote p m

/-- anchored at the start: some prefix is in the language -/
def PrefixMatches (p : List Tok) (s : List Char) : Prop := ∃ m b, s = m ++ b ∧ Denote p m

/-- a pattern component over `{*, literal}` -/
inductive Comp
  | star
  | word (w : List Char)
deriving DecidableEq, Repr

def Comp.toks : Comp → List Tok
  | .star => [Tok.plus]
  | .word w => w.map Tok.lit

/-- token sequence of `c1/c2/…/cn` -/
def patToks : List Comp → List Tok
  | [] => []
  | [c] => c.toks
  | c :: cs => c.toks ++ Tok.lit '/' :: patToks cs

def joinSlash : List (List Char) → List Char
  | [] => []
  | [k] => k
  | k :: ks => k ++ '/' :: joinSlash ks

def isInfixOfB (w : List Char) : List Char → Bool
  | [] => w.isEmpty
  | x :: s => w.isPrefixOf (x :: s) || isInfixOfB w s

/-- component matched in full / at its end / at its start / somewhere inside -/
def Comp.full : Comp → List Char → Bool
  | .star, k => !k.isEmpty
  | .word w, k => k == w
def Comp.suffixOK : Comp → List Char → Bool
  | .star, k => !k.isEmpty
  | .word w, k => w.isSuffixOf k
def Comp.prefixOK : Comp → List Char → Bool
  | .star, k => !k.isEmpty
  | .word w, k => w.isPrefixOf k
def Comp.infixOK : Comp → List Char → Bool
  | .star, k => !k.isEmpty
  | .word w, k => isInfixOfB w k

/-- components after the first: all but the last in full, the last as a prefix -/
def compRest : List Comp → List (List Char) → Bool
  | [], _ => true
  | [c], k :: _ => c.prefixOK k
  | c :: cs, k :: ks => c.full k && compRest cs ks
  | _ :: _, [] => false

/-- the pattern's components laid over the key's components starting at the first one -/
def compAt : List Comp → List (List Char) → Bool
  | [], _ => true
  | [c], k :: _ => c.infixOK k
  | c :: cs, k :: ks => c.suffixOK k && compRest cs ks
  | _ :: _, [] => false

/-- component-wise reading of the unanchored match: at some component offset -/
def compMatch (pcs : List Comp) : List (List Char) → Bool
  | [] => compAt pcs []
  | k :: ks => compAt pcs (k :: ks) || compMatch pcs ks

/-- what the documentation promises (`On` "is the prefix of file path", `*` a wildcard): the
    pattern laid over the key FROM ITS START, every component in full except the last (prefix) -/
def compAnchored (pcs : List Comp) (kcs : List (List Char)) : Bool := compRest pcs kcs

def splitSlashAux : List Char → List Char → List (List Char)
  | [], cur => [cur.reverse]
  | x :: s, cur => if x = '/' then cur.reverse :: splitSlashAux s [] else splitSlashAux s (x :: cur)

/-- `strings.Split(s, "/")` -/
def splitSlash (s : List Char) : List (List Char) := splitSlashAux s []

def parseComp (c : List Char) : Option Comp :=
  if c = ['*'] then some .star
  else if c.all (fun x => plainChar x && x != '/') then some (.word c) else none

/-- `On` as a list of `{*, literal}` components; `none` for mixed components such as `A*` -/
def parsePattern (on : List Char) : Option (List Comp) := (splitSlash on).mapM parseComp

/-! ## records -/

/-- `IndexAndPayload()` of a fixed-length write command -/
def mkRecord (index : Int) (payload : Bytes) : Bytes := leInt 8 index ++ payload

/-- `Record.Index()`: `io.ToInt64(r[0:8])`; `none` = slice panic on a short record -/
def recIndex (r : Bytes) : Option Int := if 8 ≤ r.length then some (leDecodeInt (r.take 8)) else none

/-- `Record.Payload()` -/
def recPayload (r : Bytes) : Option Bytes := if 8 ≤ r.length then some (r.drop 8) else none

/-! ## the dispatcher -/

abbrev RMap := List (Str × List Bytes)

def RMap.append : RMap → Str → Bytes → RMap
  | [], k, r => [(k, [r])]
  | (k', rs) :: rest, k, r => if k' = k then (k', rs ++ [r]) :: rest else (k', rs) :: RMap.append rest k r

def RMap.get (m : RMap) (k : Str) : List Bytes :=
  match m with
  | [] => []
  | (k', rs) :: rest => if k' = k then rs else RMap.get rest k

structure Wr where
  key : Str
  records : List Bytes
deriving DecidableEq, Repr

/-- the dispatcher: `tpd.m` (`none` = nil map) and the channel `tpd.c` -/
structure Tpd where
  m : Option RMap
  c : List Wr
deriving Repr

def Tpd.init : Tpd := ⟨none, []⟩

/-- `AppendRecord(keyPath, record)` -/
def appendRecord (t : Tpd) (key : Str) (r : Bytes) : Tpd :=
  { t with m := some ((t.m.getD []).append key r) }

/-- `DispatchRecords()`; ranging over a nil map does nothing -/
def dispatchRecords (t : Tpd) : Tpd :=
  { m := none, c := t.c ++ (t.m.getD []).map (fun kv => ⟨kv.1, kv.2⟩) }

/-- a write command as far as triggers are concerned -/
structure Cmd where
  key : Str
  record : Bytes
deriving DecidableEq, Repr

/-- `writesPerFile` of `serializeTG` -/
def groupByKey (cmds : List Cmd) : RMap := cmds.foldl (fun m c => m.append c.key c.record) []

/-- the trigger part of `FlushCommandsToWAL`: per file (in the order `files` of the map walk) append
    each buffer, finally dispatch -/
def flushFiles (t : Tpd) (files : RMap) : Tpd :=
  dispatchRecords (files.foldl (fun t kv => kv.2.foldl (fun t r => appendRecord t kv.1 r) t) t)

def flushCommands (t : Tpd) (cmds : List Cmd) : Tpd := flushFiles t (groupByKey cmds)

/-- one call of a trigger: matcher position, key path, records -/
structure Fired where
  matcher : Nat
  key : Str
  records : List Bytes
deriving DecidableEq, Repr

/-- body of `run` for one channel element: matchers in order, `go fire(...)` for each match -/
def runOne (matchers : List Str) (wr : Wr) : List Fired :=
  (matchers.zipIdx.filter (fun mi => «match» mi.1 wr.key)).map (fun mi => ⟨mi.2, wr.key, wr.records⟩)

/-- `run`: drain the channel -/
def run (matchers : List Str) (c : List Wr) : List Fired := c.flatMap (runOne matchers)

/-- a history of flushed transaction groups through one flusher, the channel drained at the end -/
def runHistory (matchers : List Str) (tgs : List (List Cmd)) : List Fired :=
  run matchers (tgs.foldl flushCommands Tpd.init).c

/-- `(matcher, key, record)` triples delivered -/
def delivered (fs : List Fired) : List (Nat × Str × Bytes) :=
  fs.flatMap (fun f => f.records.map (fun r => (f.matcher, f.key, r)))

/-- the specification: every record of every flushed command, for every matcher matching its key -/
def expected (matchers : List Str) (tgs : List (List Cmd)) : List (Nat × Str × Bytes) :=
  tgs.flatten.flatMap (fun c => (matchers.zipIdx.filter (fun mi => «match» mi.1 c.key)).map (fun mi => (mi.2, c.key, c.record)))

/-! ## concurrent flushers (no lock around `tpd.m`)

Two or more goroutines run `FlushCommandsToWAL` (BackgroundSync off: every writer flushes in its
own goroutine; a trigger that writes - the on-disk aggregator - flushes from the trigger
goroutine).  Granularity: `AppendRecord` is ONE atomic step (optimistic; the pessimistic split into
map read / map write only adds behaviours), `DispatchRecords` is two steps: the `range` loop sending
the current map, and `tpd.m = nil`. -/

inductive PC
  | appending (todo : List Cmd)
  | clearing
  | done
deriving DecidableEq, Repr

structure CState where
  tpd : Tpd
  pcs : List PC
deriving Repr

/-- thread `i` performs its next atomic step -/
def cstep (s : CState) (i : Nat) : Option CState :=
  match s.pcs[i]? with
  | some (.appending (c :: rest)) =>
    some { tpd := appendRecord s.tpd c.key c.record, pcs := s.pcs.set i (.appending rest) }
  | some (.appending []) =>
    -- the `range tpd.m` loop: every entry is sent
    some { tpd := { s.tpd with c := s.tpd.c ++ (s.tpd.m.getD []).map (fun kv => ⟨kv.1, kv.2⟩) },
           pcs := s.pcs.set i .clearing }
  | some .clearing => some { tpd := { s.tpd with m := none }, pcs := s.pcs.set i .done }
  | _ => none

/-- run a schedule (list of thread ids); `none` if it asks a finished thread to step -/
def runSchedule (s : CState) : List Nat → Option CState
  | [] => some s
  | i :: rest => match cstep s i with
    | some s' => runSchedule s' rest
    | none => none

def CState.start (flushers : List (List Cmd)) : CState := ⟨Tpd.init, flushers.map PC.appending⟩

def CState.finished (s : CState) : Bool := s.pcs.all (· == PC.done)

end Mkts.Trigger
