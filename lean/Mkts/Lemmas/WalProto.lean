import Mkts.Model.WalProto
import Mkts.Lemmas.Store
/-! Lemmas for the WAL protocol model: last-writer-wins algebra of command lists, idempotent
replay, scanner composition, and the event-boundary invariant. -/
namespace Mkts.WalProto
open Mkts.Store Mkts.Bytes

/-- observational equality of slot maps -/
def Equiv (a b : Slots) : Prop := ∀ k, a.get k = b.get k

theorem Equiv.refl (a : Slots) : Equiv a a := fun _ => rfl
theorem Equiv.symm {a b : Slots} (h : Equiv a b) : Equiv b a := fun k => (h k).symm
theorem Equiv.trans {a b c : Slots} (h1 : Equiv a b) (h2 : Equiv b c) : Equiv a c :=
  fun k => (h1 k).trans (h2 k)

theorem applyCmds_nil (s : Slots) : applyCmds s [] = s := rfl
theorem applyCmds_cons (s : Slots) (c : Cmd) (cs : List Cmd) :
    applyCmds s (c :: cs) = applyCmds (s.put (c.year, c.index) c.payload) cs := rfl

/-- value of a key after applying commands: the last command for that key, else the old value -/
theorem get_applyCmds (cs : List Cmd) (s : Slots) (k : Int × Int) :
    (applyCmds s cs).get k =
      match cs.reverse.find? (fun c => (c.year, c.index) = k) with
      | some c => some c.payload
      | none => s.get k := by
  induction cs generalizing s with
  | nil => simp [applyCmds]
  | cons c rest ih =>
    rw [applyCmds_cons, ih]
    simp only [List.reverse_cons, List.find?_append]
    cases hfind : List.find? (fun c => decide ((c.year, c.index) = k)) rest.reverse with
    | some r' => simp
    | none =>
      simp only [Option.none_or, List.find?_cons, List.find?_nil]
      by_cases hk : (c.year, c.index) = k
      · simp [hk, get_put_same]
      · simp [hk, get_put_other _ _ _ _ (Ne.symm hk)]

theorem applyCmds_congr {a b : Slots} (h : Equiv a b) (cs : List Cmd) :
    Equiv (applyCmds a cs) (applyCmds b cs) := by
  intro k
  rw [get_applyCmds, get_applyCmds, h k]

/-- IDEMPOTENT REPLAY: re-applying a command list `l` over a state in which a prefix of `l` was
    already applied (after anything else) gives the same map as applying `l` once. -/
theorem replay_idem (s0 : Slots) (pre l : List Cmd) (i : Nat) :
    Equiv (applyCmds (applyCmds s0 (pre ++ l.take i)) l) (applyCmds s0 (pre ++ l)) := by
  intro k
  rw [get_applyCmds, get_applyCmds (pre ++ l), get_applyCmds (pre ++ l.take i)]
  simp only [List.reverse_append, List.find?_append]
  cases h1 : List.find? (fun c => decide ((c.year, c.index) = k)) l.reverse with
  | some c => simp
  | none =>
    have h2 : List.find? (fun c => decide ((c.year, c.index) = k)) (l.take i).reverse = none := by
      rw [List.find?_eq_none] at h1 ⊢
      intro c hc
      exact h1 c (by
        rw [List.mem_reverse] at hc ⊢
        exact List.mem_of_mem_take hc)
    simp [h2]

theorem replay_eq_applyCmds (prim : Slots) (live : List (Nat × List Cmd)) :
    replay prim live = applyCmds prim (live.map (·.2)).flatten := by
  induction live generalizing prim with
  | nil => rfl
  | cons t rest ih =>
    simp only [replay, List.foldl_cons, List.map_cons, List.flatten_cons] at ih ⊢
    rw [ih, applyCmds_append]

/-! ## scanner composition -/

theorem scanLive_append_noTG (pre : List Rec) (more : List Rec) (live : List (Nat × List Cmd))
    (pend : Option (Nat × List Cmd))
    (h : ∀ r ∈ pre, (∀ id cmds, r ≠ .tgData id cmds) ∧ (∀ id, r ≠ .tgSum id) ∧ (∀ id, r ≠ .ckDone id)) :
    scanLive (pre ++ more) live pend = scanLive more live pend := by
  induction pre generalizing live pend with
  | nil => rfl
  | cons r rest ih =>
    have hr := h r (List.mem_cons_self)
    have hrest : ∀ r ∈ rest, _ := fun r' hr' => h r' (List.mem_cons_of_mem _ hr')
    cases r with
    | tgData id cmds => exact absurd rfl (hr.1 id cmds)
    | tgSum id => exact absurd rfl (hr.2.1 id)
    | ckDone id => exact absurd rfl (hr.2.2 id)
    | tgPrep id => simp only [List.cons_append, scanLive]; exact ih live pend hrest
    | tgMid id => simp only [List.cons_append, scanLive]; exact ih live pend hrest
    | tgLen id => simp only [List.cons_append, scanLive]; exact ih live pend hrest
    | tgCommit id => simp only [List.cons_append, scanLive]; exact ih live pend hrest
    | ckPrep id => simp only [List.cons_append, scanLive]; exact ih live pend hrest
    | status => simp only [List.cons_append, scanLive]; exact ih live pend hrest

theorem scanLive_nil_pend (live : List (Nat × List Cmd)) (pend : Option (Nat × List Cmd)) :
    scanLive [] live pend = live := rfl

end Mkts.WalProto

namespace Mkts.WalProto
open Mkts.Store Mkts.Bytes

/-! ## prefixes -/

def inits {α} : List α → List (List α)
  | [] => [[]]
  | x :: xs => [] :: (inits xs).map (x :: ·)

theorem mem_inits {α} (l es : List α) : es ∈ inits l ↔ es <+: l := by
  induction l generalizing es with
  | nil => simp [inits]
  | cons x xs ih =>
    simp only [inits, List.mem_cons, List.mem_map]
    constructor
    · rintro (rfl | ⟨t, ht, rfl⟩)
      · exact List.nil_prefix
      · exact (List.cons_prefix_cons).mpr ⟨rfl, (ih t).mp ht⟩
    · intro h
      cases es with
      | nil => exact Or.inl rfl
      | cons y ys =>
        have := (List.cons_prefix_cons).mp h
        exact Or.inr ⟨ys, (ih ys).mpr this.2, by rw [this.1]⟩

theorem prefix_append_cases {α} (a b es : List α) (h : es <+: a ++ b) :
    es <+: a ∨ ∃ t, t <+: b ∧ es = a ++ t := by
  induction a generalizing es with
  | nil => exact Or.inr ⟨es, by simpa using h, by simp⟩
  | cons x xs ih =>
    cases es with
    | nil => exact Or.inl List.nil_prefix
    | cons y ys =>
      have := (List.cons_prefix_cons).mp (by simpa using h)
      rcases ih ys this.2 with h1 | ⟨t, ht, rfl⟩
      · exact Or.inl ((List.cons_prefix_cons).mpr ⟨this.1, h1⟩)
      · exact Or.inr ⟨t, ht, by rw [this.1]; rfl⟩

theorem prefix_map_prim (cmds : List Cmd) (es : List Effect) (h : es <+: cmds.map Effect.prim) :
    ∃ i, es = (cmds.take i).map Effect.prim := by
  refine ⟨es.length, ?_⟩
  rw [List.prefix_iff_eq_take] at h
  rw [h, List.map_take]
  simp

/-! ## running effects -/

theorem run_append (s : St) (a b : List Effect) : run s (a ++ b) = run (run s a) b := by
  simp [run, List.foldl_append]

theorem run_prims (s : St) (cs : List Cmd) :
    run s (cs.map Effect.prim) = { s with prim := applyCmds s.prim cs, applied := s.applied ++ cs } := by
  induction cs generalizing s with
  | nil => simp [run, applyCmds]
  | cons c rest ih =>
    simp only [List.map_cons, run, List.foldl_cons] at ih ⊢
    rw [ih]
    simp [exec, applyCmds_cons]

/-! ## the event-boundary invariant -/

structure Bnd (s : St) (c : Ctl) (done : List Cmd) (liveL : List (Nat × List Cmd)) : Prop where
  prim : s.prim = applyCmds [] done
  appl : s.applied = done
  scan : ∀ more, scanLive (s.wal ++ more) [] none = scanLive more liveL none
  split : ∃ pre, done = pre ++ (liveL.map (·.2)).flatten
  ids : ∀ t ∈ liveL, t.1 < c.tgid
  last : ∀ id, c.lastCommitted = some id → liveL.any (fun t => t.1 = id) = true ∧ ∀ t ∈ liveL, t.1 ≤ id
  noneLive : c.lastCommitted = none → liveL = []
  sorted : (liveL.map (·.1)).Pairwise (· < ·)

theorem bnd_init : Bnd {} {} [] [] :=
  ⟨rfl, rfl, fun _ => rfl, ⟨[], rfl⟩, by simp, (by intro id h; cases h), fun _ => rfl, by simp⟩

theorem take_len_add {α} (a b : List α) (i : Nat) : (a ++ b).take (a.length + i) = a ++ b.take i := by
  induction a with
  | nil => simp
  | cons x xs ih => simp [List.take_succ_cons, Nat.succ_add, ih]

/-- CRASH SHAPE: the primary holds everything before the live (non-checkpointed, complete)
    transaction groups plus a prefix of the live groups' own commands; `all` is the command
    sequence of the history recovered. -/
def Shape (st : St) (all : List Cmd) : Prop :=
  ∃ (liveL : List (Nat × List Cmd)) (pre : List Cmd) (i : Nat),
    liveTGs st.wal = liveL ∧
    st.prim = applyCmds [] (pre ++ ((liveL.map (·.2)).flatten).take i) ∧
    st.applied = pre ++ ((liveL.map (·.2)).flatten).take i ∧
    all = pre ++ (liveL.map (·.2)).flatten

theorem recover_equiv (st : St) (liveL : List (Nat × List Cmd)) (hl : liveTGs st.wal = liveL)
    (pre : List Cmd) (i : Nat)
    (hp : st.prim = applyCmds [] (pre ++ ((liveL.map (·.2)).flatten).take i))
    (ha : st.applied = pre ++ ((liveL.map (·.2)).flatten).take i) :
    Shape st (pre ++ (liveL.map (·.2)).flatten) := ⟨liveL, pre, i, hl, hp, ha, rfl⟩

/-- replaying the live groups over a crash-shaped primary yields the whole history once -/
theorem shape_recover {st : St} {all : List Cmd} (h : Shape st all) :
    Equiv (recover st) (applyCmds [] all) := by
  obtain ⟨liveL, pre, i, hl, hp, _, hall⟩ := h
  unfold recover
  rw [hl, replay_eq_applyCmds, hp, hall]
  exact replay_idem [] pre _ i

theorem recover_of_bnd {s c done liveL} (h : Bnd s c done liveL) : Shape s done := by
  obtain ⟨pre, hpre⟩ := h.split
  have hl : liveTGs s.wal = liveL := by
    have := h.scan []; simpa [liveTGs, scanLive] using this
  rw [hpre]
  exact recover_equiv s liveL hl pre ((liveL.map (·.2)).flatten.length)
    (by rw [h.prim, hpre, List.take_length]) (by rw [h.appl, hpre, List.take_length])

end Mkts.WalProto

namespace Mkts.WalProto
open Mkts.Store Mkts.Bytes

theorem run_walAppends (s : St) (rs : List Rec) :
    run s (rs.map Effect.walAppend) = { s with wal := s.wal ++ rs } := by
  induction rs generalizing s with
  | nil => simp [run]
  | cons r rest ih =>
    simp only [List.map_cons, run, List.foldl_cons] at ih ⊢
    rw [ih]
    simp [exec]

/-- the six WAL records of one transaction group, in write order -/
def tgRecs (id : Nat) (cmds : List Cmd) : List Rec :=
  [.tgPrep id, .tgMid id, .tgLen id, .tgData id cmds, .tgSum id, .tgCommit id]

theorem flushEffects_eq (id : Nat) (cmds : List Cmd) :
    flushEffects id cmds = (tgRecs id cmds).map Effect.walAppend ++ ([Effect.walFsync] ++ (cmds.map Effect.prim ++ [Effect.ack])) := by
  simp [flushEffects, tgRecs]

theorem scan_tgRecs (id : Nat) (cmds : List Cmd) (more : List Rec) (live : List (Nat × List Cmd)) :
    scanLive (tgRecs id cmds ++ more) live none = scanLive more (live ++ [(id, cmds)]) none := by
  simp [tgRecs, scanLive]

/-- scanning a strict prefix of the TG records that does not contain the checksum record leaves
    the live set unchanged; with the checksum record the TG becomes live -/
theorem scan_tgRecs_take (id : Nat) (cmds : List Cmd) (live : List (Nat × List Cmd)) (i : Nat) :
    scanLive ((tgRecs id cmds).take i) live none = if i ≤ 4 then live else live ++ [(id, cmds)] := by
  match i with
  | 0 => simp [tgRecs, scanLive]
  | 1 => simp [tgRecs, scanLive]
  | 2 => simp [tgRecs, scanLive]
  | 3 => simp [tgRecs, scanLive]
  | 4 => simp [tgRecs, scanLive]
  | 5 => simp [tgRecs, scanLive]
  | n + 6 => simp [tgRecs, scanLive]

theorem flatten_map_append (liveL : List (Nat × List Cmd)) (id : Nat) (cmds : List Cmd) :
    ((liveL ++ [(id, cmds)]).map (·.2)).flatten = (liveL.map (·.2)).flatten ++ cmds := by
  simp

/-- state after a whole flush -/
theorem flush_full {s c done liveL} (h : Bnd s c done liveL) (cmds : List Cmd) :
    Bnd (run s (flushEffects c.tgid cmds)) { tgid := c.tgid + 1, lastCommitted := some c.tgid }
      (done ++ cmds) (liveL ++ [(c.tgid, cmds)]) ∧
    (run s (flushEffects c.tgid cmds)).acked = s.acked + 1 := by
  rw [flushEffects_eq, run_append, run_walAppends, run_append, run_append, run_prims]
  simp only [run, List.foldl_cons, List.foldl_nil, exec]
  refine ⟨⟨?_, ?_, ?_, ?_, ?_, ?_, (by intro hn; cases hn), ?_⟩, by simp⟩
  rotate_left 6
  · rw [List.map_append, List.pairwise_append]
    refine ⟨h.sorted, by simp, ?_⟩
    intro a ha b hb
    simp only [List.map_cons, List.map_nil, List.mem_singleton] at hb
    subst hb
    obtain ⟨t, ht, rfl⟩ := List.mem_map.mp ha
    exact h.ids t ht
  · simp only [h.prim, applyCmds_append]
  · simp only [h.appl]
  · intro more
    simp only [List.append_assoc]
    rw [h.scan, scan_tgRecs]
  · obtain ⟨pre, hpre⟩ := h.split
    exact ⟨pre, by rw [flatten_map_append, hpre, List.append_assoc]⟩
  · intro t ht
    simp only [List.mem_append, List.mem_singleton] at ht
    rcases ht with ht | rfl
    · have := h.ids t ht; simp; omega
    · simp
  · intro id hid
    simp only [Option.some.injEq] at hid
    subst hid
    refine ⟨by simp, ?_⟩
    intro t ht
    simp only [List.mem_append, List.mem_singleton] at ht
    rcases ht with ht | rfl
    · exact Nat.le_of_lt (h.ids t ht)
    · exact Nat.le_refl _

/-- state after any prefix of a flush: recovery yields the history without or with this TG -/
theorem flush_step {s c done liveL} (h : Bnd s c done liveL) (cmds : List Cmd) (es : List Effect)
    (hes : es <+: flushEffects c.tgid cmds) :
    (Shape (run s es) done ∧ (run s es).acked = s.acked) ∨
    (Shape (run s es) (done ++ cmds) ∧
      ((run s es).acked = s.acked ∨ (es = flushEffects c.tgid cmds ∧ (run s es).acked = s.acked + 1))) := by
  obtain ⟨pre, hpre⟩ := h.split
  rw [flushEffects_eq] at hes
  rcases prefix_append_cases _ _ _ hes with h1 | ⟨t, ht, rfl⟩
  · -- inside the WAL records
    have : ∃ i, es = ((tgRecs c.tgid cmds).take i).map Effect.walAppend := by
      refine ⟨es.length, ?_⟩
      rw [List.prefix_iff_eq_take] at h1
      rw [h1, List.map_take]; simp
    obtain ⟨i, rfl⟩ := this
    rw [run_walAppends]
    have hl : liveTGs (s.wal ++ (tgRecs c.tgid cmds).take i) =
        if i ≤ 4 then liveL else liveL ++ [(c.tgid, cmds)] := by
      have := h.scan ((tgRecs c.tgid cmds).take i)
      unfold liveTGs; rw [this, scan_tgRecs_take]
    by_cases hi : i ≤ 4
    · left
      simp only [hi, if_true] at hl
      refine ⟨?_, rfl⟩
      rw [hpre]
      exact recover_equiv _ liveL hl pre ((liveL.map (·.2)).flatten.length)
        (by show s.prim = _; rw [h.prim, hpre, List.take_length])
        (by show s.applied = _; rw [h.appl, hpre, List.take_length])
    · right
      simp only [hi, if_false] at hl
      refine ⟨?_, Or.inl rfl⟩
      rw [hpre, List.append_assoc, ← flatten_map_append]
      refine recover_equiv _ _ hl pre ((liveL.map (·.2)).flatten.length + 0) ?_ ?_
      · show s.prim = _
        rw [h.prim, hpre, flatten_map_append, take_len_add]; simp
      · show s.applied = _
        rw [h.appl, hpre, flatten_map_append, take_len_add]; simp
  · -- all WAL records written
    rw [run_append, run_walAppends]
    have hl : liveTGs (s.wal ++ tgRecs c.tgid cmds) = liveL ++ [(c.tgid, cmds)] := by
      have := h.scan (tgRecs c.tgid cmds ++ [])
      unfold liveTGs
      rw [List.append_nil] at this
      rw [this]
      have := scan_tgRecs c.tgid cmds [] liveL
      simpa [scanLive] using this
    right
    rcases prefix_append_cases _ _ _ ht with h2 | ⟨t2, ht2, rfl⟩
    · -- before or at the fsync
      have hcases : t = [] ∨ t = [Effect.walFsync] := by
        have := (mem_inits [Effect.walFsync] t).mpr h2
        simpa [inits] using this
      refine ⟨?_, Or.inl ?_⟩
      · rw [hpre, List.append_assoc, ← flatten_map_append]
        rcases hcases with rfl | rfl
        · refine recover_equiv _ _ hl pre ((liveL.map (·.2)).flatten.length + 0) ?_ ?_
          · show s.prim = _
            rw [h.prim, hpre, flatten_map_append, take_len_add]; simp
          · show s.applied = _
            rw [h.appl, hpre, flatten_map_append, take_len_add]; simp
        · refine recover_equiv _ _ hl pre ((liveL.map (·.2)).flatten.length + 0) ?_ ?_
          · show s.prim = _
            rw [h.prim, hpre, flatten_map_append, take_len_add]; simp
          · show s.applied = _
            rw [h.appl, hpre, flatten_map_append, take_len_add]; simp
      · rcases hcases with rfl | rfl <;> rfl
    · rw [run_append]
      simp only [run, List.foldl_cons, List.foldl_nil, exec]
      rcases prefix_append_cases _ _ _ ht2 with h3 | ⟨t3, ht3, rfl⟩
      · -- in the middle of the primary writes
        obtain ⟨i, rfl⟩ := prefix_map_prim cmds t2 h3
        have := run_prims { s with wal := s.wal ++ tgRecs c.tgid cmds, walDurable := s.wal ++ tgRecs c.tgid cmds } (cmds.take i)
        simp only [run] at this
        rw [this]
        refine ⟨?_, Or.inl rfl⟩
        rw [hpre, List.append_assoc, ← flatten_map_append]
        refine recover_equiv _ _ hl pre ((liveL.map (·.2)).flatten.length + i) ?_ ?_
        · show applyCmds s.prim (cmds.take i) = _
          rw [h.prim, hpre, flatten_map_append, take_len_add, ← applyCmds_append, List.append_assoc]
        · show s.applied ++ cmds.take i = _
          rw [h.appl, hpre, flatten_map_append, take_len_add, List.append_assoc]
      · -- all primary writes done, possibly acknowledged
        have hcases : t3 = [] ∨ t3 = [Effect.ack] := by
          have := (mem_inits [Effect.ack] t3).mpr ht3
          simpa [inits] using this
        have hprims := run_prims { s with wal := s.wal ++ tgRecs c.tgid cmds, walDurable := s.wal ++ tgRecs c.tgid cmds } cmds
        simp only [run] at hprims
        have hfin : ∀ st : St, st.prim = applyCmds s.prim cmds → st.applied = s.applied ++ cmds →
            st.wal = s.wal ++ tgRecs c.tgid cmds → Shape st (done ++ cmds) := by
          intro st hp hap hw
          rw [hpre, List.append_assoc, ← flatten_map_append]
          refine recover_equiv st _ (by rw [hw]; exact hl) pre ((liveL.map (·.2)).flatten.length + cmds.length) ?_ ?_
          · rw [hp, h.prim, hpre, flatten_map_append, take_len_add, List.take_length, ← applyCmds_append,
              List.append_assoc]
          · rw [hap, h.appl, hpre, flatten_map_append, take_len_add, List.take_length, List.append_assoc]
        rcases hcases with rfl | rfl
        · simp only [List.append_nil, List.foldl_append]
          rw [hprims]
          exact ⟨hfin _ rfl rfl rfl, Or.inl rfl⟩
        · simp only [List.foldl_append, List.foldl_cons, List.foldl_nil]
          rw [hprims]
          refine ⟨hfin _ rfl rfl rfl, Or.inr ⟨?_, rfl⟩⟩
          simp [flushEffects, tgRecs]

end Mkts.WalProto

namespace Mkts.WalProto
open Mkts.Store Mkts.Bytes

theorem filter_all_le (liveL : List (Nat × List Cmd)) (id : Nat) (h : ∀ t ∈ liveL, t.1 ≤ id) :
    liveL.filter (fun t => ¬ t.1 ≤ id) = [] := by
  rw [List.filter_eq_nil_iff]
  intro t ht
  simp [h t ht]

/-- a state with an empty live set recovers to its own primary content -/
theorem recover_no_live (st : St) (done : List Cmd) (hl : liveTGs st.wal = []) (hp : st.prim = applyCmds [] done)
    (ha : st.applied = done) :
    Shape st done := ⟨[], done, 0, hl, by simpa using hp, by simpa using ha, by simp⟩

theorem checkpoint_full {s c done liveL} (h : Bnd s c done liveL) :
    ∃ liveL', Bnd (run s (checkpointEffects c.lastCommitted)) { c with lastCommitted := none } done liveL' ∧
      (run s (checkpointEffects c.lastCommitted)).acked = s.acked := by
  cases hc : c.lastCommitted with
  | none =>
    refine ⟨liveL, ⟨h.prim, h.appl, h.scan, h.split, h.ids, (by intro id hid; cases hid), fun _ => h.noneLive hc, h.sorted⟩, rfl⟩
  | some id =>
    have hl := h.last id hc
    refine ⟨[], ⟨?_, ?_, ?_, ⟨done, by simp⟩, by simp, (by intro id' hid; cases hid), fun _ => rfl, by simp⟩, rfl⟩
    · simp [checkpointEffects, run, exec, h.prim]
    · simp [checkpointEffects, run, exec, h.appl]
    · intro more
      simp only [checkpointEffects, run, List.foldl_cons, List.foldl_nil, exec, List.append_assoc]
      rw [h.scan]
      simp only [List.cons_append, List.nil_append, scanLive, hl.1, if_true]
      rw [filter_all_le liveL id hl.2]

/-- after a completed checkpoint nothing is live -/
theorem checkpoint_full_nil {s c done liveL} (h : Bnd s c done liveL) :
    Bnd (run s (checkpointEffects c.lastCommitted)) { c with lastCommitted := none } done [] ∧
      (run s (checkpointEffects c.lastCommitted)).acked = s.acked := by
  obtain ⟨liveL', hb, hack⟩ := checkpoint_full h
  have : liveL' = [] := hb.noneLive rfl
  subst this
  exact ⟨hb, hack⟩

theorem checkpoint_step {s c done liveL} (h : Bnd s c done liveL) (es : List Effect)
    (hes : es <+: checkpointEffects c.lastCommitted) :
    Shape (run s es) done ∧ (run s es).acked = s.acked := by
  cases hc : c.lastCommitted with
  | none =>
    rw [hc] at hes
    have : es = [] := by simpa [checkpointEffects] using hes
    subst this
    exact ⟨recover_of_bnd h, rfl⟩
  | some id =>
    rw [hc] at hes
    have hl := h.last id hc
    have hmem := (mem_inits _ es).mpr hes
    obtain ⟨pre, hpre⟩ := h.split
    have hlive0 : liveTGs s.wal = liveL := by
      have := h.scan []; simpa [liveTGs, scanLive] using this
    have hlive1 : liveTGs (s.wal ++ [Rec.ckPrep id]) = liveL := by
      have := h.scan [Rec.ckPrep id]; simpa [liveTGs, scanLive] using this
    have hlive2 : liveTGs (s.wal ++ [Rec.ckPrep id] ++ [Rec.ckDone id]) = [] := by
      have := h.scan [Rec.ckPrep id, Rec.ckDone id]
      simp only [liveTGs, List.append_assoc, List.cons_append, List.nil_append]
      rw [this]
      simp only [scanLive, hl.1, if_true]
      exact filter_all_le liveL id hl.2
    have hrec : ∀ st : St, st.prim = s.prim → st.applied = s.applied → liveTGs st.wal = liveL → Shape st done := by
      intro st hp hap hw
      rw [hpre]
      exact recover_equiv st liveL hw pre ((liveL.map (·.2)).flatten.length)
        (by rw [hp, h.prim, hpre, List.take_length]) (by rw [hap, h.appl, hpre, List.take_length])
    simp only [checkpointEffects, inits, List.map_cons, List.map_nil, List.mem_cons, List.mem_nil_iff, or_false] at hmem
    rcases hmem with rfl | rfl | rfl | rfl
    · exact ⟨hrec _ rfl rfl hlive0, rfl⟩
    · exact ⟨hrec _ rfl rfl hlive1, rfl⟩
    · exact ⟨hrec _ rfl rfl hlive1, rfl⟩
    · refine ⟨recover_no_live _ done ?_ ?_ ?_, rfl⟩
      · simpa [run, exec] using hlive2
      · simp [run, exec, h.prim]
      · simp [run, exec, h.appl]

theorem rotate_full {s c done liveL} (h : Bnd s c done liveL) :
    Bnd (run s (rotateEffects c.lastCommitted)) { c with lastCommitted := none } done [] ∧
      (run s (rotateEffects c.lastCommitted)).acked = s.acked := by
  obtain ⟨liveL', hb, hack⟩ := checkpoint_full h
  unfold rotateEffects
  rw [run_append]
  generalize run s (checkpointEffects c.lastCommitted) = s1 at hb hack ⊢
  refine ⟨⟨?_, ?_, ?_, ⟨done, by simp⟩, by simp, (by intro id hid; cases hid), fun _ => rfl, by simp⟩, ?_⟩
  · simp [run, exec, hb.prim]
  · simp [run, exec, hb.appl]
  · intro more
    simp [run, exec, scanLive]
  · simp [run, exec, hack]

theorem rotate_step {s c done liveL} (h : Bnd s c done liveL) (es : List Effect)
    (hes : es <+: rotateEffects c.lastCommitted) :
    Shape (run s es) done ∧ (run s es).acked = s.acked := by
  unfold rotateEffects at hes
  rcases prefix_append_cases _ _ _ hes with h1 | ⟨t, ht, rfl⟩
  · exact checkpoint_step h es h1
  · obtain ⟨liveL', hb, hack⟩ := checkpoint_full h
    rw [run_append]
    generalize run s (checkpointEffects c.lastCommitted) = s1 at hb hack ⊢
    have hmem := (mem_inits _ t).mpr ht
    simp only [inits, List.map_cons, List.map_nil, List.mem_cons, List.mem_nil_iff, or_false] at hmem
    rcases hmem with rfl | rfl | rfl | rfl
    · exact ⟨recover_of_bnd hb, hack⟩
    · exact ⟨recover_no_live _ done (by simp [run, exec, liveTGs, scanLive]) (by simp [run, exec, hb.prim]) (by simp [run, exec, hb.appl]),
        by simp [run, exec, hack]⟩
    · exact ⟨recover_no_live _ done (by simp [run, exec, liveTGs, scanLive]) (by simp [run, exec, hb.prim]) (by simp [run, exec, hb.appl]),
        by simp [run, exec, hack]⟩
    · exact ⟨recover_no_live _ done (by simp [run, exec, liveTGs, scanLive]) (by simp [run, exec, hb.prim]) (by simp [run, exec, hb.appl]),
        by simp [run, exec, hack]⟩

end Mkts.WalProto
