package main

// C26: the REAL replication.GRPCReplicationServer (and, for `fanq`, the real replication.Sender)
// driven in-process with fake gRPC stream objects.  A fake stream's Send announces the message and
// then waits at a gate, so that the harness decides when a replica's `stream.Send` returns and
// whether it fails (replica disconnected).  The harness goroutine steps the events of one op line
// deterministically; the only waits are bounded waits for another goroutine to reach its next
// blocking point.
//
//	fanout <ev>,<ev>,...     o<r> open replica r | x<r> disconnect r | s[*n] SendReplicationMessage(next tg)
//	                         r<r>[*n] let one stream.Send of r return
//	fanq <n>                 real Sender.Run + one replica whose stream.Send never returns; n commits
//
// Result: one token per event, then the final observation (see Mkts/Driver/Fanout.lean).

import (
	"context"
	"errors"
	"fmt"
	"net"
	"runtime"
	"sort"
	"strconv"
	"strings"
	"sync"
	"time"

	"google.golang.org/grpc/metadata"
	"google.golang.org/grpc/peer"

	pb "github.com/alpacahq/marketstore/v4/proto"
	"github.com/alpacahq/marketstore/v4/replication"
	"github.com/alpacahq/marketstore/v4/utils/log"
)

type fakeAddr string

func (a fakeAddr) Network() string { return "fake" }
func (a fakeAddr) String() string  { return string(a) }

var _ net.Addr = fakeAddr("")

type fakeStream struct {
	rid      int
	ctx      context.Context
	ctxSeen  chan struct{}
	arrived  chan int64 // id of the message Send was called with
	gate     chan struct{}
	returned chan struct{} // Send has returned (after the gate)
	mu       sync.Mutex
	dead     bool // from now on Send fails
	got      []int64
	done     chan struct{} // GetWALStream returned
	inSend   bool          // harness view: a Send is waiting at the gate
	cur      int64
	queued   int  // harness view: messages in the stream channel
	reg      bool // harness view: entry in the map
	openedAt int64
	everDead bool
	capacity int
}

func (f *fakeStream) Send(r *pb.GetWALStreamResponse) error {
	id := tgID(r.TransactionGroup)
	f.arrived <- id
	<-f.gate
	f.mu.Lock()
	defer f.mu.Unlock()
	defer func() {
		select {
		case f.returned <- struct{}{}:
		default:
		}
	}()
	if f.dead {
		return errors.New("transport is closing")
	}
	f.got = append(f.got, id)
	return nil
}
func (f *fakeStream) SetHeader(metadata.MD) error  { return nil }
func (f *fakeStream) SendHeader(metadata.MD) error { return nil }
func (f *fakeStream) SetTrailer(metadata.MD)       {}
func (f *fakeStream) Context() context.Context {
	select {
	case f.ctxSeen <- struct{}{}:
	default:
	}
	return f.ctx
}
func (f *fakeStream) SendMsg(interface{}) error { return nil }
func (f *fakeStream) RecvMsg(interface{}) error { return nil }

func tgBytes(id int64) []byte { return []byte(strconv.FormatInt(id, 10)) }
func tgID(b []byte) int64 {
	v, err := strconv.ParseInt(string(b), 10, 64)
	if err != nil {
		return -1
	}
	return v
}

const fanLong = 20 * time.Second

// blockedIn counts the goroutines that are parked on a channel operation inside a function whose name
// contains fn (read off the runtime's stack dump: exact, no timing assumption).
var stackBuf = make([]byte, 4<<20)

func blockedIn(fn string) int {
	buf := stackBuf
	n := runtime.Stack(buf, true)
	cnt := 0
	for _, g := range strings.Split(string(buf[:n]), "\n\n") {
		i := strings.IndexByte(g, '\n')
		if i < 0 {
			continue
		}
		hdr := g[:i]
		if strings.Contains(g[i:], fn) && (strings.Contains(hdr, "[chan receive") || strings.Contains(hdr, "[chan send") ||
			strings.Contains(hdr, "[select")) {
			cnt++
		}
	}
	return cnt
}

// waitSender waits until the goroutine running SendReplicationMessage has either returned (result on
// res) or is parked in its channel send.
func waitSender(res chan string) (string, bool) {
	// fast path: the call normally returns at once
	select {
	case r := <-res:
		return r, true
	case <-time.After(3 * time.Millisecond):
	}
	deadline := time.Now().Add(fanLong)
	for time.Now().Before(deadline) {
		select {
		case r := <-res:
			return r, true
		default:
		}
		if blockedIn("SendReplicationMessage") > 0 {
			// re-check the result once: the goroutine may have finished in between
			select {
			case r := <-res:
				return r, true
			default:
			}
			return "blocked", false
		}
		time.Sleep(200 * time.Microsecond)
	}
	return "harness:sender-timeout", false
}

type fanHarness struct {
	rs      *replication.GRPCReplicationServer
	fakes   map[int]*fakeStream
	order   []int
	nextTG  int64
	pending chan string // result of a SendReplicationMessage that did not return in time
	blockedRid int
	mode    string      // "" | "blocked" | "dead"
}

func newFake(rid int, openedAt int64) *fakeStream {
	f := &fakeStream{rid: rid, ctxSeen: make(chan struct{}, 1), arrived: make(chan int64, 1),
		gate: make(chan struct{}), returned: make(chan struct{}, 1), done: make(chan struct{}), openedAt: openedAt}
	f.ctx = peer.NewContext(context.Background(), &peer.Peer{Addr: fakeAddr(fmt.Sprintf("replica-%d:1", rid))})
	return f
}

func (h *fanHarness) open(rid int) string {
	if _, ok := h.fakes[rid]; ok {
		return "dup"
	}
	f := newFake(rid, h.nextTG)
	h.fakes[rid] = f
	h.order = append(h.order, rid)
	go func() {
		defer close(f.done)
		defer func() { recover() }()
		_ = h.rs.GetWALStream(&pb.GetWALStreamRequest{}, f)
	}()
	select {
	case <-f.ctxSeen:
	case <-time.After(fanLong):
		return "harness:open-timeout"
	}
	// the goroutine is between getClientAddr and `<-streamChannel`: wait until it is parked in the receive
	// (every other stream goroutine of this case is parked at its receive or at its gate)
	key := fmt.Sprintf("replica-%d:1", rid)
	live := 0
	for _, g := range h.fakes {
		select {
		case <-g.done:
		default:
			live++
		}
	}
	deadline := time.Now().Add(fanLong)
	for time.Now().Before(deadline) {
		if blockedIn("GetWALStream") >= live {
			if ch, ok := h.rs.StreamChannels[key]; ok {
				f.reg = true
				f.capacity = cap(ch)
				return "ok"
			}
			return "harness:open-not-registered"
		}
		time.Sleep(200 * time.Microsecond)
	}
	return "harness:open-timeout"
}

// settle: every registered replica whose goroutine is idle and whose channel is non-empty takes the
// next message and arrives at the gate.
func (h *fanHarness) settle() string {
	for _, rid := range h.order {
		f := h.fakes[rid]
		if f.reg && !f.inSend && f.queued > 0 {
			select {
			case id := <-f.arrived:
				f.inSend, f.cur = true, id
				f.queued--
			case <-time.After(fanLong):
				return "harness:settle-timeout"
			}
		}
	}
	return ""
}

func (h *fanHarness) send() string {
	if h.mode != "" {
		return "skipped"
	}
	id := h.nextTG
	h.nextTG++
	res := make(chan string, 1)
	go func() {
		defer func() {
			if r := recover(); r != nil {
				res <- panicClass(r)
			}
		}()
		h.rs.SendReplicationMessage(tgBytes(id))
		res <- "ok"
	}()
	r, finished := waitSender(res)
	if strings.HasPrefix(r, "harness:") {
		return r
	}
	if finished {
		if r != "ok" {
			h.mode = "dead"
			return r
		}
		for _, rid := range h.order {
			if f := h.fakes[rid]; f.reg {
				f.queued++
			}
		}
		if e := h.settle(); e != "" {
			return e
		}
		return "ok"
	}
	h.pending = res
	h.mode = "blocked"
	// the blocking replica: the only registered one whose channel was full before this call
	var full []int
	for _, rid := range h.order {
		if f := h.fakes[rid]; f.reg && f.queued >= f.capacity {
			full = append(full, rid)
		}
	}
	if len(full) != 1 {
		return "unsupported"
	}
	h.blockedRid = full[0]
	return "blocked"
}

// release lets one stream.Send of replica rid return.
func (h *fanHarness) release(rid int) string {
	f, ok := h.fakes[rid]
	if !ok || !f.inSend {
		return "noop"
	}
	f.mu.Lock()
	dead := f.dead
	f.mu.Unlock()
	f.gate <- struct{}{}
	f.inSend = false
	select {
	case <-f.returned:
	case <-time.After(fanLong):
		return "harness:return-timeout"
	}
	if dead {
		select {
		case <-f.done:
		case <-time.After(fanLong):
			return "harness:exit-timeout"
		}
		f.reg = false
		if h.mode == "blocked" {
			r, finished := waitSender(h.pending)
			if finished && strings.HasPrefix(r, "panic:") {
				h.mode = "dead"
				return r
			}
			if strings.HasPrefix(r, "harness:") {
				return r
			}
			return "unsupported"
		}
		return "closed"
	}
	// the goroutine loops: it takes the next queued message, if any
	if f.queued > 0 {
		select {
		case id := <-f.arrived:
			f.inSend, f.cur = true, id
			f.queued--
		case <-time.After(fanLong):
			return "harness:release-timeout"
		}
	}
	if h.mode == "blocked" {
		r, finished := waitSender(h.pending)
		if strings.HasPrefix(r, "harness:") {
			return r
		}
		if !finished {
			return "unsupported"
		}
		if r != "ok" {
			h.mode = "dead"
			return r
		}
		h.mode = ""
		for _, r2 := range h.order {
			if g := h.fakes[r2]; g.reg {
				g.queued++
			}
		}
		if e := h.settle(); e != "" {
			return e
		}
		return "ok+unblocked"
	}
	return "ok"
}

func (h *fanHarness) disconnect(rid int) string {
	f, ok := h.fakes[rid]
	if !ok {
		return "noop"
	}
	f.mu.Lock()
	defer f.mu.Unlock()
	if f.dead {
		return "noop"
	}
	f.dead = true
	f.everDead = true
	return "ok"
}

// drain: every connected replica receives everything that is queued for it.
func (h *fanHarness) drain() string {
	for _, rid := range h.order {
		f := h.fakes[rid]
		f.mu.Lock()
		dead := f.dead
		f.mu.Unlock()
		if dead || !f.reg {
			continue
		}
		for f.inSend {
			if r := h.release(rid); strings.HasPrefix(r, "harness:") {
				return r
			}
		}
	}
	return ""
}

func (h *fanHarness) observe() string {
	var parts []string
	for _, rid := range h.order {
		f := h.fakes[rid]
		f.mu.Lock()
		got := showInts(f.got)
		f.mu.Unlock()
		if h.mode != "" {
			parts = append(parts, fmt.Sprintf("%d:g=%s", rid, got))
			continue
		}
		key := fmt.Sprintf("replica-%d:1", rid)
		ch, inMap := h.rs.StreamChannels[key]
		q, m, p := 0, 0, "-"
		if inMap {
			q, m = len(ch), 1
		}
		if f.inSend {
			p = strconv.FormatInt(f.cur, 10)
		}
		parts = append(parts, fmt.Sprintf("%d:g=%s:q=%d:m=%d:p=%s", rid, got, q, m, p))
	}
	return strings.Join(parts, "|")
}

// cleanup ends every goroutine started for this case, ONE stream at a time: two stream goroutines leaving
// GetWALStream at the same moment both execute `delete(rs.StreamChannels, …)` on the unsynchronised map,
// which the Go runtime answers with `fatal error: concurrent map writes` (observed with an earlier version
// of this cleanup; see notes/C26.md).
func (h *fanHarness) cleanup() {
	endOne := func(f *fakeStream) {
		select {
		case <-f.done:
			return
		default:
		}
		f.mu.Lock()
		f.dead = true
		f.mu.Unlock()
		stop := make(chan struct{})
		go func() { // keep the gate open and the announcements drained until the goroutine has left
			for {
				select {
				case f.gate <- struct{}{}:
				case <-f.arrived:
				case <-f.returned:
				case <-stop:
					return
				}
			}
		}()
		if !f.inSend && f.queued == 0 {
			// idle in `<-streamChannel`: a nil message makes it leave the loop
			if ch, ok := h.rs.StreamChannels[fmt.Sprintf("replica-%d:1", f.rid)]; ok {
				select {
				case ch <- nil:
				case <-time.After(fanLong):
				}
			}
		}
		select {
		case <-f.done:
		case <-time.After(fanLong):
		}
		close(stop)
	}
	if h.mode == "blocked" {
		// first the replica the sender is blocked on: its exit closes the channel, the pending call panics
		if f, ok := h.fakes[h.blockedRid]; ok {
			endOne(f)
		}
		select {
		case <-h.pending:
		case <-time.After(fanLong):
		}
	}
	for _, rid := range h.order {
		endOne(h.fakes[rid])
	}
}

func splitEv(ev string) (kind byte, rid int, count int, ok bool) {
	count = 1
	if i := strings.IndexByte(ev, '*'); i >= 0 {
		c, err := strconv.Atoi(ev[i+1:])
		if err != nil || c < 1 {
			return 0, 0, 0, false
		}
		count, ev = c, ev[:i]
	}
	if ev == "" {
		return 0, 0, 0, false
	}
	kind = ev[0]
	if kind == 's' {
		return kind, 0, count, len(ev) == 1
	}
	r, err := strconv.Atoi(ev[1:])
	if err != nil {
		return 0, 0, 0, false
	}
	return kind, r, count, true
}

func fanoutOp(a []string) string {
	log.SetLevel(log.FATAL)
	if len(a) != 1 {
		return "bad-op"
	}
	h := &fanHarness{rs: replication.NewGRPCReplicationServer(), fakes: map[int]*fakeStream{}}
	defer h.cleanup()
	var out []string
	for _, ev := range strings.Split(a[0], ",") {
		kind, rid, count, ok := splitEv(ev)
		if !ok {
			return "bad-op"
		}
		res := "ok"
		for i := 0; i < count; i++ {
			var r string
			switch {
			case h.mode == "dead":
				r = "dead"
			case h.mode == "blocked":
				switch {
				case kind == 's':
					r = "skipped"
				case kind == 'x' && rid == h.blockedRid:
					r = h.disconnect(rid)
				case kind == 'r' && rid == h.blockedRid:
					r = h.release(rid)
				default:
					return "unsupported"
				}
			case kind == 'o':
				r = h.open(rid)
			case kind == 'x':
				r = h.disconnect(rid)
			case kind == 's':
				r = h.send()
			case kind == 'r':
				r = h.release(rid)
			default:
				return "bad-op"
			}
			if strings.HasPrefix(r, "harness:") || r == "unsupported" {
				return r
			}
			if r != "ok" {
				if count == 1 {
					res = r
				} else {
					res = fmt.Sprintf("%s@%d", r, i)
				}
				break
			}
		}
		out = append(out, ev+"="+res)
	}
	// verdict: V = <no panic><no block><every connected replica got everything since it connected, in order>
	noPanic, noBlock, complete := 1, 1, 1
	for _, t := range out {
		if strings.Contains(t, "panic:") {
			noPanic = 0
		}
		if strings.Contains(t, "=blocked") {
			noBlock = 0
		}
	}
	if h.mode == "" {
		if e := h.drain(); e != "" {
			return e
		}
	}
	obs := h.observe()
	if h.mode == "" {
		for _, rid := range h.order {
			f := h.fakes[rid]
			if f.everDead {
				continue
			}
			f.mu.Lock()
			want := h.nextTG - f.openedAt
			if int64(len(f.got)) != want {
				complete = 0
			}
			for i, g := range f.got {
				if g != f.openedAt+int64(i) {
					complete = 0
				}
			}
			f.mu.Unlock()
		}
	} else {
		complete = 0
	}
	st := "run"
	if h.mode != "" {
		st = h.mode
	}
	return strings.Join(out, " ") + " |" + st + "|" + obs + " V=" + fmt.Sprintf("%d%d%d", noPanic, noBlock, complete)
}

// fanq <n>: the real Sender (channel of defaultSenderChannelSize) in front of the real server, one
// replica whose stream.Send never returns.  Reports how many Sender.Send calls returned.
func fanqOp(a []string) string {
	log.SetLevel(log.FATAL)
	if len(a) != 1 {
		return "bad-op"
	}
	n := int(atoi(a[0]))
	h := &fanHarness{rs: replication.NewGRPCReplicationServer(), fakes: map[int]*fakeStream{}}
	if r := h.open(1); r != "ok" {
		return r
	}
	sender := replication.NewSender(h.rs)
	ctx, cancel := context.WithCancel(context.Background())
	sender.Run(ctx)
	sent, blocked := 0, 0
	for i := 0; i < n; i++ {
		d := make(chan struct{})
		go func(i int) {
			sender.Send(tgBytes(int64(i)))
			close(d)
		}(i)
		select {
		case <-d:
			sent++
			continue
		case <-time.After(3 * time.Millisecond):
		}
		deadline := time.Now().Add(fanLong)
	wait:
		for {
			select {
			case <-d:
				sent++
				break wait
			default:
			}
			// Sender.Send parked in `s.channel <- tg` while the sender goroutine is parked in its own send
			if blockedIn("replication.(*Sender).Send") > 0 && blockedIn("SendReplicationMessage") > 0 {
				select {
				case <-d:
					sent++
				default:
					blocked = 1
				}
				break wait
			}
			if time.Now().After(deadline) {
				return "harness:fanq-timeout"
			}
			time.Sleep(200 * time.Microsecond)
		}
		if blocked == 1 {
			break
		}
	}
	res := fmt.Sprintf("sent=%d blocked=%d", sent, blocked)
	// cleanup: the replica disconnects; everything drains (the sender goroutine may panic on the
	// closed channel: that panic would kill a real master; here it is not recoverable either, so
	// the stream is kept open and only drained).
	f := h.fakes[1]
	stop := make(chan struct{})
	go func() {
		for {
			select {
			case <-f.arrived:
			case <-stop:
				return
			}
		}
	}()
	go func() {
		for {
			select {
			case f.gate <- struct{}{}:
			case <-stop:
				return
			}
		}
	}()
	// wait until everything has been delivered, then stop the sender and end the stream
	deadline := time.Now().Add(fanLong)
	for time.Now().Before(deadline) {
		f.mu.Lock()
		g := len(f.got)
		f.mu.Unlock()
		if g >= sent+blocked {
			break
		}
		time.Sleep(2 * time.Millisecond)
	}
	cancel()
	time.Sleep(5 * time.Millisecond)
	func() {
		defer func() { recover() }()
		h.rs.SendReplicationMessage(nil)
	}()
	select {
	case <-f.done:
	case <-time.After(fanLong):
	}
	close(stop)
	return res
}

func init() {
	ops["fanout"] = fanoutOp
	ops["fanq"] = fanqOp
	gens["C26"] = genC26
}

// ---- generator --------------------------------------------------------------------------------

func genC26(g *Gen) {
	capN := 500
	// directed: the two findings and their neighbourhood
	g.Emit(fmt.Sprintf("fanout o1,s*%d,s,x1,r1", capN+1), "directed:close_while_blocked", "finding:F1")
	g.Emit(fmt.Sprintf("fanout o1,s*%d,s", capN+1), "directed:slow_blocks", "finding:F2")
	g.Emit(fmt.Sprintf("fanout o1,s*%d,s,r1", capN+1), "directed:slow_then_unblocked", "finding:F2")
	g.Emit(fmt.Sprintf("fanout o1,s*%d,x1,r1,s", capN+1), "directed:full_then_closed_before_send")
	g.Emit(fmt.Sprintf("fanout o1,s*%d", capN+1), "directed:exactly_full")
	g.Emit(fmt.Sprintf("fanout o1,o2,s*%d,r2*%d,s,x1,r1", capN+1, capN+1), "directed:two_replicas_one_slow", "finding:F1")
	g.Emit("fanq 1002", "fanq:at_capacity")
	g.Emit("fanq 1003", "fanq:over_capacity", "finding:F2")
	g.Emit("fanq 10", "fanq:small")
	if g.Thorough() {
		g.Emit("fanq 1001", "fanq:below")
		g.Emit("fanq 1010", "fanq:over_capacity", "finding:F2")
		g.Emit("fanq 501", "fanq:stream_full")
		g.Emit("fanq 502", "fanq:sender_holding")
	}
	// random schedules: up to 4 replicas, opens / disconnects / sends / releases in any order
	n := g.N(250, 2500)
	for i := 0; i < n; i++ {
		var evs []string
		tags := map[string]bool{}
		nrep := 0
		var open []int
		dead := map[int]bool{}
		sends := 0
		inflight := map[int]int{} // rough count of messages a replica can still release
		steps := 3 + g.Intn(22)
		for k := 0; k < steps; k++ {
			c := g.Intn(10)
			switch {
			case (c == 0 || len(open) == 0) && nrep < 4:
				nrep++
				open = append(open, nrep)
				evs = append(evs, fmt.Sprintf("o%d", nrep))
				if sends > 0 {
					tags["open_after_sends"] = true
				}
			case c <= 4:
				m := 1
				if g.Intn(4) == 0 {
					m = 2 + g.Intn(5)
				}
				if m == 1 {
					evs = append(evs, "s")
				} else {
					evs = append(evs, fmt.Sprintf("s*%d", m))
				}
				sends += m
				for _, r := range open {
					inflight[r] += m
				}
			case c <= 7 && len(open) > 0:
				r := open[g.Intn(len(open))]
				m := 1
				if g.Intn(3) == 0 {
					m = 2 + g.Intn(4)
				}
				if m == 1 {
					evs = append(evs, fmt.Sprintf("r%d", r))
				} else {
					evs = append(evs, fmt.Sprintf("r%d*%d", r, m))
				}
				if dead[r] {
					tags["release_after_disconnect"] = true
				}
				if inflight[r] == 0 {
					tags["release_noop"] = true
				}
			case c == 8 && len(open) > 0:
				r := open[g.Intn(len(open))]
				evs = append(evs, fmt.Sprintf("x%d", r))
				if dead[r] {
					tags["disconnect_twice"] = true
				}
				dead[r] = true
				tags["disconnect"] = true
			default:
				r := 1 + g.Intn(5)
				evs = append(evs, fmt.Sprintf("r%d", r))
				tags["release_any"] = true
			}
		}
		tl := []string{fmt.Sprintf("replicas:%d", nrep)}
		for t := range tags {
			tl = append(tl, t)
		}
		sort.Strings(tl)
		g.Emit("fanout "+strings.Join(evs, ","), tl...)
	}
	// schedules that fill a channel: one slow replica among several, then release or disconnect it
	m := g.N(6, 40)
	for i := 0; i < m; i++ {
		nrep := 1 + g.Intn(3)
		slow := 1 + g.Intn(nrep)
		var evs []string
		for r := 1; r <= nrep; r++ {
			evs = append(evs, fmt.Sprintf("o%d", r))
		}
		pre := g.Intn(3)
		if pre > 0 {
			evs = append(evs, fmt.Sprintf("s*%d", pre), fmt.Sprintf("r%d*%d", slow, pre))
		}
		evs = append(evs, fmt.Sprintf("s*%d", capN+1))
		for r := 1; r <= nrep; r++ {
			if r != slow {
				evs = append(evs, fmt.Sprintf("r%d*%d", r, capN+1+g.Intn(2)))
			}
		}
		tag := "fill:"
		switch g.Intn(4) {
		case 0:
			evs = append(evs, "s", fmt.Sprintf("x%d", slow), fmt.Sprintf("r%d", slow))
			tag += "block_disconnect_release"
		case 1:
			evs = append(evs, "s", fmt.Sprintf("r%d", slow), "s")
			tag += "block_release_block"
		case 2:
			evs = append(evs, fmt.Sprintf("x%d", slow), "s", fmt.Sprintf("r%d", slow))
			tag += "disconnect_block_release"
		default:
			evs = append(evs, fmt.Sprintf("r%d", slow), "s", "s")
			tag += "release_send_block"
		}
		g.Emit("fanout "+strings.Join(evs, ","), tag, fmt.Sprintf("replicas:%d", nrep))
	}
}
