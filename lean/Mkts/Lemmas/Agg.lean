import Mkts.Model.Agg
import Mkts.Lemmas.Timeframe
/-! Lemmas about the candler model (core Lean). -/
namespace Mkts.Agg
open Mkts.Time Mkts.Timeframe

variable {P S : Type}

theorem inj_of_nodup_map {α β : Type} (f : α → β) (l : List α) (h : (l.map f).Nodup) :
    ∀ a ∈ l, ∀ b ∈ l, f a = f b → a = b := by
  induction l with
  | nil => intro a ha; simp at ha
  | cons x xs ih =>
    simp only [List.map_cons, List.nodup_cons] at h
    intro a ha b hb e
    simp only [List.mem_cons] at ha hb
    rcases ha with ha | ha <;> rcases hb with hb | hb
    · rw [ha, hb]
    · subst ha; exact absurd (List.mem_map.mpr ⟨b, hb, e.symm⟩) h.1
    · subst hb; exact absurd (List.mem_map.mpr ⟨a, ha, e⟩) h.1
    · exact ih h.2 a ha b hb e

/-! ## the association-list map -/

theorem CMap.get?_upd (m : CMap P S) (k s : Int) (f : Candle P S → Candle P S) (init : Candle P S) :
    (m.upd k f init).get? s = if k = s then some (f ((m.get? k).getD init)) else m.get? s := by
  induction m with
  | nil => simp [CMap.upd, CMap.get?]
  | cons x rest ih =>
    obtain ⟨k', c⟩ := x
    simp only [CMap.upd]
    by_cases h : k' = k
    · subst h
      by_cases h2 : k' = s
      · simp [CMap.get?, h2]
      · simp [CMap.get?, h2]
    · by_cases h2 : k' = s
      · subst h2
        have : ¬ k = k' := fun e => h e.symm
        simp [CMap.get?, h, this]
      · simp only [h, if_false, CMap.get?, h2, ih]

def CMap.keys (m : CMap P S) : List Int := m.map (·.1)

theorem CMap.keys_upd (m : CMap P S) (k : Int) (f : Candle P S → Candle P S) (init : Candle P S) :
    (m.upd k f init).keys = if k ∈ m.keys then m.keys else m.keys ++ [k] := by
  induction m with
  | nil => simp [CMap.upd, CMap.keys]
  | cons x rest ih =>
    obtain ⟨k', c⟩ := x
    simp only [CMap.upd]
    by_cases h : k' = k
    · subst h; simp [CMap.keys]
    · have hne : ¬ k = k' := fun e => h e.symm
      simp only [h, if_false]
      simp only [CMap.keys] at ih ⊢
      simp only [List.map_cons, List.mem_cons, hne, false_or, ih]
      split <;> simp [*]

theorem CMap.get?_isSome_iff (m : CMap P S) (s : Int) : (m.get? s).isSome ↔ s ∈ m.keys := by
  induction m with
  | nil => simp [CMap.get?, CMap.keys]
  | cons x rest ih =>
    obtain ⟨k', c⟩ := x
    simp only [CMap.get?, CMap.keys, List.map_cons, List.mem_cons]
    by_cases h : k' = s
    · simp [h]
    · have : ¬ s = k' := fun e => h e.symm
      simp only [h, if_false, this, false_or]
      exact ih

theorem CMap.mem_of_get? (m : CMap P S) (s : Int) (c : Candle P S) (h : m.get? s = some c) : (s, c) ∈ m := by
  induction m with
  | nil => simp [CMap.get?] at h
  | cons x rest ih =>
    obtain ⟨k', c'⟩ := x
    simp only [CMap.get?] at h
    by_cases hk : k' = s
    · simp only [hk, if_true, Option.some.injEq] at h
      subst h; subst hk; simp
    · simp only [hk, if_false] at h
      exact List.mem_cons_of_mem _ (ih h)

theorem CMap.get?_of_mem (m : CMap P S) (hn : m.keys.Nodup) (s : Int) (c : Candle P S) (h : (s, c) ∈ m) :
    m.get? s = some c := by
  induction m with
  | nil => simp at h
  | cons x rest ih =>
    obtain ⟨k', c'⟩ := x
    simp only [CMap.keys, List.map_cons, List.nodup_cons] at hn
    simp only [List.mem_cons, Prod.mk.injEq] at h
    simp only [CMap.get?]
    rcases h with ⟨h1, h2⟩ | h
    · simp [h1, h2]
    · have : k' ≠ s := by
        intro e; subst e
        exact hn.1 (List.mem_map.mpr ⟨(k', c), h, rfl⟩)
      simp only [this, if_false]
      exact ih hn.2 h

theorem CMap.keys_upd_nodup (m : CMap P S) (k : Int) (f : Candle P S → Candle P S) (init : Candle P S)
    (hn : m.keys.Nodup) : (m.upd k f init).keys.Nodup := by
  rw [CMap.keys_upd]
  split
  · exact hn
  · rename_i h
    rw [List.nodup_append]
    refine ⟨hn, by simp, ?_⟩
    intro a ha b hb
    simp only [List.mem_singleton] at hb
    subst hb
    intro e; subst e; exact h ha

/-! ## `addCandle` / `addRow` keep the start, the sums are independent of the prices -/

theorem addCandle_start (po : PriceOps P) (cd : CandleDuration) (z : Zone) (ca : Candle P S) (ts : Int) (o h l c : P) :
    (addCandle po cd z ca ts o h l c).start = ca.start := by
  unfold addCandle
  split
  · rfl
  · simp only []
    repeat' split
    all_goals rfl

theorem addCandle_sums (po : PriceOps P) (cd : CandleDuration) (z : Zone) (ca : Candle P S) (ts : Int) (o h l c : P) :
    (addCandle po cd z ca ts o h l c).sums = ca.sums ∧ (addCandle po cd z ca ts o h l c).count = ca.count := by
  unfold addCandle
  split
  · exact ⟨rfl, rfl⟩
  · simp only []
    repeat' split
    all_goals exact ⟨rfl, rfl⟩

theorem addRow_start (po : PriceOps P) (so : SumOps S) (cd : CandleDuration) (z : Zone) (ca : Candle P S) (r : Row P S) :
    (addRow po so cd z ca r).start = ca.start := by
  simp only [addRow, addCandle_start]

theorem addRow_sums (po : PriceOps P) (so : SumOps S) (cd : CandleDuration) (z : Zone) (ca : Candle P S) (r : Row P S) :
    (addRow po so cd z ca r).sums = addSums so ca.sums r.sums ∧ (addRow po so cd z ca r).count = ca.count + 1 := by
  have h := addCandle_sums po cd z ca r.t r.o r.h r.l r.c
  simp only [addRow, h.1, h.2, and_self]

/-! ## removing the candle cache (needs an idempotent `Truncate`) -/

section simple
variable (po : PriceOps P) (so : SumOps S) (cd : CandleDuration) (z : Zone) (nsums : Nat)

/-- the loop body without the "previous candle" shortcut -/
def stepS (m : CMap P S) (r : Row P S) : CMap P S :=
  m.upd (truncate cd z r.t) (fun c => addRow po so cd z c r) (newCandle po so cd z nsums (truncate cd z r.t))

/-- every candle is stored under its own start time -/
def KeyInv (m : CMap P S) : Prop := ∀ k c, m.get? k = some c → c.start = k

theorem keyInv_nil : KeyInv ([] : CMap P S) := by
  intro k c h; simp [CMap.get?] at h

theorem keyInv_stepS (hid : ∀ t, truncate cd z (truncate cd z t) = truncate cd z t)
    (m : CMap P S) (r : Row P S) (h : KeyInv m) : KeyInv (stepS po so cd z nsums m r) := by
  intro k c hk
  unfold stepS at hk
  rw [CMap.get?_upd] at hk
  split at hk
  · rename_i e
    simp only [Option.some.injEq] at hk
    subst hk
    rw [addRow_start]
    cases hg : m.get? (truncate cd z r.t) with
    | none => simp only [Option.getD_none, newCandle, hid]; exact e
    | some c0 => simp only [Option.getD_some]; rw [h _ _ hg]; exact e
  · exact h k c hk

theorem getCandleKey_eq (st : State P S) (t : Int) (h : KeyInv st.cmap) :
    getCandleKey cd z st t = truncate cd z t := by
  unfold getCandleKey
  simp only []
  split
  · rename_i kc _
    split
    · rename_i c hc
      have := h _ _ hc
      split
      · rename_i e; rw [← this]; exact e.symm ▸ rfl
      · rfl
    · rfl
  · rfl

theorem step_cmap (st : State P S) (r : Row P S) (h : KeyInv st.cmap) :
    (step po so cd z nsums st r).cmap = stepS po so cd z nsums st.cmap r := by
  simp only [step, stepS, getCandleKey_eq cd z st r.t h]

theorem foldl_step (hid : ∀ t, truncate cd z (truncate cd z t) = truncate cd z t)
    (rows : List (Row P S)) (st : State P S) (h : KeyInv st.cmap) :
    (rows.foldl (step po so cd z nsums) st).cmap = rows.foldl (stepS po so cd z nsums) st.cmap ∧
    KeyInv (rows.foldl (stepS po so cd z nsums) st.cmap) := by
  induction rows generalizing st with
  | nil => exact ⟨rfl, h⟩
  | cons r rest ih =>
    simp only [List.foldl_cons]
    have e := step_cmap po so cd z nsums st r h
    have hi := keyInv_stepS po so cd z nsums hid st.cmap r h
    have := ih (step po so cd z nsums st r) (by rw [e]; exact hi)
    rw [e] at this
    exact this

theorem accum_eq (hid : ∀ t, truncate cd z (truncate cd z t) = truncate cd z t)
    (chunks : List (List (Row P S))) (m : CMap P S) (h : KeyInv m) :
    chunks.foldl (accumChunk po so cd z nsums) m = chunks.flatten.foldl (stepS po so cd z nsums) m ∧
    KeyInv (chunks.flatten.foldl (stepS po so cd z nsums) m) := by
  induction chunks generalizing m with
  | nil => exact ⟨rfl, h⟩
  | cons ch rest ih =>
    simp only [List.foldl_cons, List.flatten_cons, List.foldl_append]
    have := foldl_step po so cd z nsums hid ch { cmap := m, cached := none } h
    simp only [accumChunk]
    rw [this.1]
    exact ih _ this.2

/-! ## per-window decomposition -/

/-- the candle of window `s` after folding `rows` into a map: only the rows of that window matter -/
theorem get?_foldl_stepS (rows : List (Row P S)) (m : CMap P S) (s : Int) :
    (rows.foldl (stepS po so cd z nsums) m).get? s =
      (rows.filter (fun r => truncate cd z r.t == s)).foldl
        (fun oc r => some (addRow po so cd z (oc.getD (newCandle po so cd z nsums s)) r)) (m.get? s) := by
  induction rows generalizing m with
  | nil => rfl
  | cons r rest ih =>
    simp only [List.foldl_cons, List.filter_cons]
    rw [ih]
    unfold stepS
    rw [CMap.get?_upd]
    by_cases h : truncate cd z r.t = s
    · simp [h]
    · simp [h]

theorem foldl_some (f : Candle P S → Row P S → Candle P S) (nc : Candle P S) (g : List (Row P S)) (oc : Option (Candle P S)) :
    g.foldl (fun oc r => some (f (oc.getD nc) r)) oc =
      match g with
      | [] => oc
      | _ :: _ => some (g.foldl f (oc.getD nc)) := by
  induction g generalizing oc with
  | nil => rfl
  | cons r rest ih =>
    simp only [List.foldl_cons]
    rw [ih]
    cases rest <;> simp

theorem keys_foldl_stepS (rows : List (Row P S)) (m : CMap P S) (hn : m.keys.Nodup) :
    (rows.foldl (stepS po so cd z nsums) m).keys.Nodup ∧
    ∀ s, s ∈ (rows.foldl (stepS po so cd z nsums) m).keys ↔ s ∈ m.keys ∨ ∃ r ∈ rows, truncate cd z r.t = s := by
  induction rows generalizing m with
  | nil => simp [hn]
  | cons r rest ih =>
    simp only [List.foldl_cons]
    have hn' : (stepS po so cd z nsums m r).keys.Nodup := CMap.keys_upd_nodup _ _ _ _ hn
    have := ih _ hn'
    refine ⟨this.1, fun s => ?_⟩
    rw [this.2 s]
    unfold stepS
    rw [CMap.keys_upd]
    constructor
    · rintro (h | ⟨r', hr', e⟩)
      · split at h
        · exact Or.inl h
        · simp only [List.mem_append, List.mem_singleton] at h
          rcases h with h | h
          · exact Or.inl h
          · exact Or.inr ⟨r, by simp, h.symm⟩
      · exact Or.inr ⟨r', by simp [hr'], e⟩
    · rintro (h | ⟨r', hr', e⟩)
      · left; split
        · exact h
        · simp [h]
      · simp only [List.mem_cons] at hr'
        rcases hr' with e2 | hr'
        · subst e2; left; split
          · rename_i hm; rw [← e]; exact hm
          · simp [e]
        · exact Or.inr ⟨r', hr', e⟩

end simple

/-! ## sorting by key -/

section sort
variable {α : Type}

theorem mem_insertByKey (x y : Int × α) (l : List (Int × α)) : y ∈ insertByKey x l ↔ y = x ∨ y ∈ l := by
  induction l with
  | nil => simp [insertByKey]
  | cons a as ih =>
    simp only [insertByKey]
    split
    · simp
    · simp only [List.mem_cons, ih]
      constructor
      · rintro (h | h | h) <;> simp [h]
      · rintro (h | h | h) <;> simp [h]

theorem mem_sortByKey (y : Int × α) (l : List (Int × α)) : y ∈ sortByKey l ↔ y ∈ l := by
  induction l with
  | nil => simp [sortByKey]
  | cons a as ih =>
    simp only [sortByKey, List.foldr_cons] at ih ⊢
    rw [mem_insertByKey, ih]; simp

theorem strict_insertByKey (x : Int × α) (l : List (Int × α))
    (hs : l.Pairwise (fun a b => a.1 < b.1)) (hx : ∀ y ∈ l, y.1 ≠ x.1) :
    (insertByKey x l).Pairwise (fun a b => a.1 < b.1) := by
  induction l with
  | nil => simp [insertByKey]
  | cons a as ih =>
    simp only [insertByKey]
    rw [List.pairwise_cons] at hs
    split
    · rename_i hle
      have hne := hx a (by simp)
      have hlt : x.1 < a.1 := by omega
      rw [List.pairwise_cons]
      refine ⟨?_, List.pairwise_cons.mpr hs⟩
      intro b hb
      simp only [List.mem_cons] at hb
      rcases hb with e | hb
      · subst e; exact hlt
      · have := hs.1 b hb; omega
    · rename_i hle
      rw [List.pairwise_cons]
      refine ⟨?_, ih hs.2 (fun y hy => hx y (List.mem_cons_of_mem _ hy))⟩
      intro b hb
      rw [mem_insertByKey] at hb
      rcases hb with e | hb
      · subst e; omega
      · exact hs.1 b hb

theorem strict_sortByKey (l : List (Int × α)) (hn : (l.map (·.1)).Nodup) :
    (sortByKey l).Pairwise (fun a b => a.1 < b.1) := by
  induction l with
  | nil => simp [sortByKey]
  | cons a as ih =>
    simp only [List.map_cons, List.nodup_cons] at hn
    simp only [sortByKey, List.foldr_cons]
    apply strict_insertByKey
    · exact ih hn.2
    · intro y hy
      have : y ∈ as := (mem_sortByKey y as).mp hy
      intro e
      exact hn.1 (List.mem_map.mpr ⟨y, this, e⟩)

end sort

/-! ## what a fold of `addRow` over the rows of one window computes -/

section fold
variable (po : PriceOps P) (so : SumOps S) (cd : CandleDuration) (z : Zone) (nsums : Nat)
variable (key : P → Int)

/-- candle `c` summarises the non-empty row list `L` as the property demands -/
structure Good (c : Candle P S) (L : List (Row P S)) : Prop where
  latched : c.openTime ≠ goZero
  openRow : ∃ r ∈ L, r.t = c.openTime ∧ r.o = c.op
  openMin : ∀ r ∈ L, c.openTime ≤ r.t
  closeRow : ∃ r ∈ L, r.t = c.closeTime ∧ r.c = c.cl
  closeMax : ∀ r ∈ L, r.t ≤ c.closeTime
  hiRow : ∃ r ∈ L, r.h = c.hi
  hiMax : ∀ r ∈ L, key r.h ≤ key c.hi
  loRow : ∃ r ∈ L, r.l = c.lo
  loMin : ∀ r ∈ L, key c.lo ≤ key r.l

variable (hgt : ∀ a b, po.gt a b = decide (key a > key b)) (hlt : ∀ a b, po.lt a b = decide (key a < key b))
include hgt hlt

theorem good_first (s : Int) (r : Row P S)
    (hw : isWithin cd z r.t (truncate cd z s) = true) (hz : r.t ≠ goZero) :
    Good key (addRow po so cd z (newCandle po so cd z nsums s) r) [r] := by
  have e : addCandle po cd z (newCandle po so cd z nsums s) r.t r.o r.h r.l r.c =
      { (newCandle po so cd z nsums s) with op := r.o, hi := r.h, lo := r.l, cl := r.c, openTime := r.t, closeTime := r.t } := by
    unfold addCandle
    simp only [newCandle, hw, Bool.not_true, Bool.false_eq_true, if_false, if_true, Int.lt_irrefl, gt_iff_lt,
      hgt, hlt, decide_false]
  unfold addRow
  rw [e]
  refine ⟨hz, ⟨r, by simp, rfl, rfl⟩, ?_, ⟨r, by simp, rfl, rfl⟩, ?_, ⟨r, by simp, rfl⟩, ?_, ⟨r, by simp, rfl⟩, ?_⟩ <;>
    (intro r' hr'; simp only [List.mem_singleton] at hr'; subst hr'; exact Int.le_refl _)

omit hgt hlt in
/-- the fields of `AddCandle`'s result once the candle has its first row and the row is within -/
theorem addCandle_within (ca : Candle P S) (ts : Int) (o h l c : P)
    (hw : isWithin cd z ts ca.start = true) (h0 : ca.openTime ≠ goZero) :
    (addCandle po cd z ca ts o h l c).openTime = (if ts < ca.openTime then ts else ca.openTime) ∧
    (addCandle po cd z ca ts o h l c).op = (if ts < ca.openTime then o else ca.op) ∧
    (addCandle po cd z ca ts o h l c).closeTime = (if ts > ca.closeTime then ts else ca.closeTime) ∧
    (addCandle po cd z ca ts o h l c).cl = (if ts > ca.closeTime then c else ca.cl) ∧
    (addCandle po cd z ca ts o h l c).hi = (if po.gt h ca.hi then h else ca.hi) ∧
    (addCandle po cd z ca ts o h l c).lo = (if po.lt l ca.lo then l else ca.lo) := by
  unfold addCandle
  simp only [hw, Bool.not_true, Bool.false_eq_true, if_false, h0]
  by_cases h1 : ts < ca.openTime <;> by_cases h2 : ts > ca.closeTime <;>
    by_cases h3 : po.gt h ca.hi = true <;> by_cases h4 : po.lt l ca.lo = true <;> simp [h1, h2, h3, h4]

theorem good_snoc (c : Candle P S) (L : List (Row P S)) (r : Row P S) (hg : Good key c L)
    (hw : isWithin cd z r.t c.start = true) (hz : r.t ≠ goZero) :
    Good key (addRow po so cd z c r) (L ++ [r]) := by
  obtain ⟨h0, ⟨ro, hro, hro1, hro2⟩, hmin, ⟨rc, hrc, hrc1, hrc2⟩, hmax, ⟨rh, hrh, hrh1⟩, hhi, ⟨rl, hrl, hrl1⟩, hlo⟩ := hg
  obtain ⟨e1, e2, e3, e4, e5, e6⟩ := addCandle_within po cd z c r.t r.o r.h r.l r.c hw h0
  have mem_old : ∀ x, x ∈ L → x ∈ L ++ [r] := fun x hx => List.mem_append_left _ hx
  have mem_new : r ∈ L ++ [r] := List.mem_append_right _ (by simp)
  have all_snoc : ∀ (p : Row P S → Prop), (∀ x ∈ L, p x) → p r → ∀ x ∈ L ++ [r], p x := by
    intro p h1 h2 x hx
    rcases List.mem_append.mp hx with h | h
    · exact h1 x h
    · simp only [List.mem_singleton] at h; subst h; exact h2
  have hmin0 := hmin ro hro
  have hmax0 := hmax rc hrc
  refine ⟨?_, ?_, ?_, ?_, ?_, ?_, ?_, ?_, ?_⟩ <;> simp only [addRow, e1, e2, e3, e4, e5, e6, hgt, hlt, decide_eq_true_eq]
  · split
    · exact hz
    · exact h0
  · by_cases hc : r.t < c.openTime
    · exact ⟨r, mem_new, by simp [hc], by simp [hc]⟩
    · exact ⟨ro, mem_old _ hro, by simp [hc, hro1], by simp [hc, hro2]⟩
  · apply all_snoc
    · intro x hx; have := hmin x hx; split <;> omega
    · split <;> omega
  · by_cases hc : r.t > c.closeTime
    · exact ⟨r, mem_new, by simp [hc], by simp [hc]⟩
    · exact ⟨rc, mem_old _ hrc, by simp [hc, hrc1], by simp [hc, hrc2]⟩
  · apply all_snoc
    · intro x hx; have := hmax x hx; split <;> omega
    · split <;> omega
  · by_cases hc : key r.h > key c.hi
    · exact ⟨r, mem_new, by simp [hc]⟩
    · exact ⟨rh, mem_old _ hrh, by simp [hc, hrh1]⟩
  · apply all_snoc
    · intro x hx; have := hhi x hx; split <;> omega
    · split <;> omega
  · by_cases hc : key r.l < key c.lo
    · exact ⟨r, mem_new, by simp [hc]⟩
    · exact ⟨rl, mem_old _ hrl, by simp [hc, hrl1]⟩
  · apply all_snoc
    · intro x hx; have := hlo x hx; split <;> omega
    · split <;> omega

omit hgt hlt in
theorem foldl_addRow_start (c : Candle P S) (L : List (Row P S)) :
    (L.foldl (addRow po so cd z) c).start = c.start := by
  induction L generalizing c with
  | nil => rfl
  | cons r rest ih => simp only [List.foldl_cons, ih, addRow_start]

/-- folding the rows of one window (each within it) from a good state stays good -/
theorem good_foldl (rest : List (Row P S)) (c : Candle P S) (L : List (Row P S)) (hg : Good key c L)
    (hw : ∀ r ∈ rest, isWithin cd z r.t c.start = true) (hz : ∀ r ∈ rest, r.t ≠ goZero) :
    Good key (rest.foldl (addRow po so cd z) c) (L ++ rest) := by
  induction rest generalizing c L with
  | nil => simpa using hg
  | cons r rs ih =>
    simp only [List.foldl_cons]
    have h1 := good_snoc po so cd z key hgt hlt c L r hg (hw r (by simp)) (hz r (by simp))
    have := ih (addRow po so cd z c r) (L ++ [r]) h1
      (fun x hx => by rw [addRow_start]; exact hw x (List.mem_cons_of_mem _ hx))
      (fun x hx => hz x (List.mem_cons_of_mem _ hx))
    simpa using this

/-- **the candle of a non-empty window**: fold from a fresh candle -/
theorem good_window (s : Int) (G : List (Row P S)) (hne : G ≠ [])
    (hid : truncate cd z s = s)
    (hw : ∀ r ∈ G, isWithin cd z r.t s = true) (hz : ∀ r ∈ G, r.t ≠ goZero) :
    Good key (G.foldl (addRow po so cd z) (newCandle po so cd z nsums s)) G := by
  cases G with
  | nil => exact absurd rfl hne
  | cons r rs =>
    simp only [List.foldl_cons]
    have h1 := good_first po so cd z nsums key hgt hlt s r (by rw [hid]; exact hw r (by simp)) (hz r (by simp))
    have hs : (addRow po so cd z (newCandle po so cd z nsums s) r).start = s := by
      rw [addRow_start]; simp [newCandle, hid]
    have := good_foldl po so cd z key hgt hlt rs _ [r] h1
      (fun x hx => by rw [hs]; exact hw x (List.mem_cons_of_mem _ hx))
      (fun x hx => hz x (List.mem_cons_of_mem _ hx))
    simpa using this

omit hgt hlt in
/-- counts and sums: a left fold in input order -/
theorem foldl_addRow_sums (c : Candle P S) (L : List (Row P S)) :
    (L.foldl (addRow po so cd z) c).sums = L.foldl (fun acc r => addSums so acc r.sums) c.sums ∧
    (L.foldl (addRow po so cd z) c).count = c.count + L.length := by
  induction L generalizing c with
  | nil => simp
  | cons r rest ih =>
    simp only [List.foldl_cons, List.length_cons]
    have h := addRow_sums po so cd z c r
    have := ih (addRow po so cd z c r)
    rw [h.1, h.2] at this
    refine ⟨this.1, ?_⟩
    rw [this.2]; omega

end fold

/-! ## characterisation of the output -/

section out
variable (po : PriceOps P) (so : SumOps S) (cd : CandleDuration) (z : Zone) (nsums : Nat)

/-- rows of window `s`, in input order -/
def windowRows (rows : List (Row P S)) (s : Int) : List (Row P S) :=
  rows.filter (fun r => truncate cd z r.t == s)

theorem accum_get? (hid : ∀ t, truncate cd z (truncate cd z t) = truncate cd z t)
    (chunks : List (List (Row P S))) (s : Int) :
    (accum po so cd z nsums chunks).get? s =
      match windowRows cd z chunks.flatten s with
      | [] => none
      | r :: rs => some ((r :: rs).foldl (addRow po so cd z) (newCandle po so cd z nsums s)) := by
  unfold accum
  rw [(accum_eq po so cd z nsums hid chunks [] keyInv_nil).1, get?_foldl_stepS, foldl_some]
  unfold windowRows
  split <;> rename_i h <;> simp [h, CMap.get?]

theorem accum_keys (hid : ∀ t, truncate cd z (truncate cd z t) = truncate cd z t)
    (chunks : List (List (Row P S))) :
    (accum po so cd z nsums chunks).keys.Nodup ∧ KeyInv (accum po so cd z nsums chunks) ∧
    ∀ s, s ∈ (accum po so cd z nsums chunks).keys ↔ ∃ r ∈ chunks.flatten, truncate cd z r.t = s := by
  have a := accum_eq po so cd z nsums hid chunks [] keyInv_nil
  have k := keys_foldl_stepS po so cd z nsums chunks.flatten [] (by simp [CMap.keys])
  unfold accum
  rw [a.1]
  refine ⟨k.1, a.2, fun s => ?_⟩
  rw [k.2 s]; simp [CMap.keys]

theorem mem_output_iff (m : CMap P S) (hn : m.keys.Nodup) (hk : KeyInv m) (c : Candle P S) :
    c ∈ output m ↔ m.get? c.start = some c := by
  unfold output
  rw [List.mem_map]
  constructor
  · rintro ⟨⟨k, c'⟩, hmem, e⟩
    simp only at e; subst e
    have hm := (mem_sortByKey _ _).mp hmem
    have hg := CMap.get?_of_mem m hn k c' hm
    rw [hk k c' hg]; exact hg
  · intro h
    exact ⟨(c.start, c), (mem_sortByKey _ _).mpr (CMap.mem_of_get? m _ _ h), rfl⟩

theorem output_sorted (m : CMap P S) (hn : m.keys.Nodup) (hk : KeyInv m) :
    ((output m).map (·.start)).Pairwise (· < ·) := by
  unfold output
  rw [List.map_map, List.pairwise_map]
  have hs := strict_sortByKey m hn
  refine List.Pairwise.imp_of_mem ?_ hs
  intro a b ha hb hab
  have ea := hk a.1 a.2 (CMap.get?_of_mem m hn a.1 a.2 ((mem_sortByKey _ _).mp ha))
  have eb := hk b.1 b.2 (CMap.get?_of_mem m hn b.1 b.2 ((mem_sortByKey _ _).mp hb))
  simp only [Function.comp]
  omega

end out

end Mkts.Agg
