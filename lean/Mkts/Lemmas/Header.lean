import Mkts.Model.Header
/-! Lemmas for the header round trip (C15). Core Lean only. -/
namespace Mkts.Header
open Mkts.Bytes

theorem descBytes_eq : descBytes = 256 := by decide
theorem nameBytes_eq : nameBytes = 32 := by decide
theorem maxElems_eq : maxElems = 1024 := by decide
theorem reserved2Bytes_eq : reserved2Bytes = 2920 := by decide
theorem headersize_eq : headersize = 37024 := by decide

/-- the concatenation order of `encode` is the struct layout extracted from the Go source -/
theorem layout_matches : layout = Mkts.Extracted.headerLayout := by decide

theorem fld_mid (pre s post : Bytes) (off len : Nat) (h1 : pre.length = off) (h2 : s.length = len) :
    ((pre ++ s ++ post).drop off).take len = s := by
  subst h1 h2
  simp [List.append_assoc]

theorem drop_pre (pre post : Bytes) (off : Nat) (h1 : pre.length = off) : (pre ++ post).drop off = post := by
  subst h1; simp

/-! ### `bytes.Trim` -/

theorem dropWhile_zeros (k : Nat) (t : Bytes) (h : t.head? ≠ some 0) :
    (zeros k ++ t).dropWhile (· == 0) = t := by
  induction k with
  | zero =>
    simp only [zeros, List.replicate_zero, List.nil_append]
    cases t with
    | nil => rfl
    | cons x xs =>
      have : x ≠ 0 := by intro hx; simp [hx] at h
      simp [List.dropWhile_cons, this]
  | succ k ih =>
    simp only [zeros, List.replicate_succ, List.cons_append, List.dropWhile_cons] at ih ⊢
    simpa using ih

theorem zeros_reverse (k : Nat) : (zeros k).reverse = zeros k := by simp [zeros]

theorem trimNul_pad (s : Str) (k : Nat) (h : noEdgeNul s) : trimNul (s ++ zeros k) = s := by
  unfold trimNul
  cases s with
  | nil =>
    have := dropWhile_zeros k [] (by simp)
    simp only [List.append_nil] at this
    simp [this]
  | cons x xs =>
    have hx : x ≠ 0 := by intro hx; exact h.1 (by simp [hx])
    have h1 : ((x :: xs) ++ zeros k).dropWhile (· == 0) = (x :: xs) ++ zeros k := by
      simp [hx]
    rw [h1, List.reverse_append, zeros_reverse]
    have h2 : (x :: xs).reverse.head? ≠ some 0 := by
      rw [List.head?_reverse]; exact h.2
    rw [dropWhile_zeros k _ h2, List.reverse_reverse]

theorem padTo_of_le (n : Nat) (s : Str) (h : s.length ≤ n) : padTo n s = s ++ zeros (n - s.length) := by
  simp [padTo, List.take_of_length_le h]

theorem trimNul_padTo (n : Nat) (s : Str) (h : s.length ≤ n) (hn : noEdgeNul s) : trimNul (padTo n s) = s := by
  rw [padTo_of_le n s h, trimNul_pad s _ hn]

theorem decNames_enc (names : List Str) (rest : Bytes)
    (h : ∀ s ∈ names, s.length ≤ nameBytes ∧ noEdgeNul s) :
    decNames names.length (encNames names ++ rest) = names := by
  induction names with
  | nil => rfl
  | cons s t ih =>
    have hs := h s (by simp)
    have hl : (padTo nameBytes s).length = nameBytes := padTo_length _ _
    simp only [encNames, List.flatMap_cons, List.length_cons, decNames, List.append_assoc]
    rw [List.take_left' hl, List.drop_left' hl, trimNul_padTo _ _ hs.1 hs.2]
    have := ih (fun x hx => h x (by simp [hx]))
    simp only [encNames] at this
    rw [this]

theorem encNames_length (names : List Str) : (encNames names).length = names.length * nameBytes := by
  induction names with
  | nil => rfl
  | cons s t ih =>
    simp only [encNames, List.flatMap_cons, List.length_append, List.length_cons] at ih ⊢
    rw [ih, padTo_length]; rw [Nat.add_mul]; omega

theorem decTypes_enc (types : List Nat) (h : ∀ t ∈ types, t < 256) :
    (encTypes types).map (·.toNat) = types := by
  induction types with
  | nil => rfl
  | cons t ts ih =>
    have ht := h t (by simp)
    simp only [encTypes, List.map_cons, List.map_map] at ih ⊢
    rw [ih (fun x hx => h x (by simp [hx]))]
    simp [UInt8.toNat_ofNat', Nat.mod_eq_of_lt ht]

theorem fld_at (pre s post : Bytes) (off len : Nat) (h1 : pre.length = off) (h2 : s.length = len) :
    ((pre ++ (s ++ post)).drop off).take len = s := by
  subst h1 h2; simp

/-- `decode` of eleven segments with the field sizes of the struct -/
theorem decode_segments (s0 s1 s2 s3 s4 s5 s6 s7 s8 s9 s10 : Bytes)
    (h0 : s0.length = 8) (h1 : s1.length = 256) (h2 : s2.length = 8) (h3 : s3.length = 8) (h4 : s4.length = 8)
    (h5 : s5.length = 8) (h6 : s6.length = 8) (h7 : s7.length = 8) (h8 : s8.length = 32768) (h9 : s9.length = 1024)
    (h10 : s10.length = 2920) (hn : leDecode s5 ≤ maxElems) :
    decode (s0 ++ (s1 ++ (s2 ++ (s3 ++ (s4 ++ (s5 ++ (s6 ++ (s7 ++ (s8 ++ (s9 ++ s10)))))))))) =
      some { version := leDecode s0, description := trimNul s1, year := leDecode s2, timeframe := leDecode s3,
             recordType := leDecode s4, recordLength := leDecode s6,
             names := decNames (leDecode s5) (s8 ++ (s9 ++ s10)),
             types := ((s9 ++ s10).take (leDecode s5)).map (·.toNat) } := by
  have e0 := fld_at [] s0 (s1 ++ (s2 ++ (s3 ++ (s4 ++ (s5 ++ (s6 ++ (s7 ++ (s8 ++ (s9 ++ s10))))))))) 0 8 rfl h0
  have e1 := fld_at s0 s1 (s2 ++ (s3 ++ (s4 ++ (s5 ++ (s6 ++ (s7 ++ (s8 ++ (s9 ++ s10)))))))) 8 256 h0 h1
  have e2 := fld_at (s0 ++ s1) s2 (s3 ++ (s4 ++ (s5 ++ (s6 ++ (s7 ++ (s8 ++ (s9 ++ s10))))))) 264 8 (by simp [h0, h1]) h2
  have e3 := fld_at (s0 ++ s1 ++ s2) s3 (s4 ++ (s5 ++ (s6 ++ (s7 ++ (s8 ++ (s9 ++ s10)))))) 272 8 (by simp [h0, h1, h2]) h3
  have e4 := fld_at (s0 ++ s1 ++ s2 ++ s3) s4 (s5 ++ (s6 ++ (s7 ++ (s8 ++ (s9 ++ s10))))) 280 8 (by simp [h0, h1, h2, h3]) h4
  have e5 := fld_at (s0 ++ s1 ++ s2 ++ s3 ++ s4) s5 (s6 ++ (s7 ++ (s8 ++ (s9 ++ s10)))) 288 8 (by simp [h0, h1, h2, h3, h4]) h5
  have e6 := fld_at (s0 ++ s1 ++ s2 ++ s3 ++ s4 ++ s5) s6 (s7 ++ (s8 ++ (s9 ++ s10))) 296 8 (by simp [h0, h1, h2, h3, h4, h5]) h6
  have e8 := drop_pre (s0 ++ s1 ++ s2 ++ s3 ++ s4 ++ s5 ++ s6 ++ s7) (s8 ++ (s9 ++ s10)) 312 (by simp [h0, h1, h2, h3, h4, h5, h6, h7])
  have e9 := drop_pre (s0 ++ s1 ++ s2 ++ s3 ++ s4 ++ s5 ++ s6 ++ s7 ++ s8) (s9 ++ s10) 33080 (by simp [h0, h1, h2, h3, h4, h5, h6, h7, h8])
  simp only [List.append_assoc, List.nil_append] at e0 e1 e2 e3 e4 e5 e6 e8 e9
  have hlen : ¬ (s0 ++ (s1 ++ (s2 ++ (s3 ++ (s4 ++ (s5 ++ (s6 ++ (s7 ++ (s8 ++ (s9 ++ s10)))))))))).length < headersize := by
    simp [h0, h1, h2, h3, h4, h5, h6, h7, h8, h9, h10, headersize_eq]
  unfold decode
  rw [if_neg hlen]
  simp only [descBytes_eq, maxElems_eq, nameBytes_eq, e0, e1, e2, e3, e4, e5, e6, e8]
  have : 312 + 1024 * 32 = 33080 := rfl
  rw [this, e9, if_neg (by rw [maxElems_eq] at hn; omega)]

theorem two64 : 256 ^ 8 = 2 ^ 64 := by decide

theorem encode_eq (f : TBI) (h : f.types.length ≤ maxElems) :
    encode f = some (le 8 f.version ++ (padTo descBytes f.description ++ (le 8 f.year ++ (le 8 f.timeframe ++
      (le 8 f.recordType ++ (le 8 f.types.length ++ (le 8 f.recordLength ++ (zeros 8 ++
      ((encNames (f.names.take f.types.length) ++ zeros ((maxElems - f.types.length) * nameBytes)) ++
      ((encTypes f.types ++ zeros (maxElems - f.types.length)) ++ zeros reserved2Bytes)))))))))) := by
  unfold encode
  simp only [if_neg (Nat.not_lt.mpr h), List.append_assoc]

theorem header_roundtrip (f : TBI) (h : WF f) :
    ∃ b, encode f = some b ∧ b.length = headersize ∧ decode b = some f := by
  have hc := h.count
  have hn : f.names.take f.types.length = f.names := by rw [← h.lenEq]; exact List.take_length
  have hN : leDecode (le 8 f.types.length) = f.types.length :=
    leDecode_le_of_lt 8 _ (by rw [two64]; rw [maxElems_eq] at hc; omega)
  have hs8 : (encNames (f.names.take f.types.length) ++ zeros ((maxElems - f.types.length) * nameBytes)).length = 32768 := by
    rw [hn, List.length_append, encNames_length, zeros_length, h.lenEq, maxElems_eq, nameBytes_eq]
    rw [maxElems_eq] at hc; omega
  have hs9 : (encTypes f.types ++ zeros (maxElems - f.types.length)).length = 1024 := by
    simp only [encTypes, List.length_append, List.length_map, zeros_length, maxElems_eq]
    rw [maxElems_eq] at hc; omega
  have hdec := decode_segments (le 8 f.version) (padTo descBytes f.description) (le 8 f.year) (le 8 f.timeframe)
    (le 8 f.recordType) (le 8 f.types.length) (le 8 f.recordLength) (zeros 8)
    (encNames (f.names.take f.types.length) ++ zeros ((maxElems - f.types.length) * nameBytes))
    (encTypes f.types ++ zeros (maxElems - f.types.length)) (zeros reserved2Bytes)
    (le_length _ _) (by rw [padTo_length, descBytes_eq]) (le_length _ _) (le_length _ _) (le_length _ _) (le_length _ _)
    (le_length _ _) (zeros_length _) hs8 hs9 (by rw [zeros_length, reserved2Bytes_eq]) (by rw [hN]; exact hc)
  refine ⟨_, encode_eq f hc, ?_, ?_⟩
  · simp only [List.length_append, le_length, padTo_length, zeros_length, hs8, hs9, descBytes_eq, reserved2Bytes_eq,
      headersize_eq]
  · rw [hdec, hN]
    have e1 : trimNul (padTo descBytes f.description) = f.description := trimNul_padTo _ _ h.desc.1 h.desc.2
    have e2 : decNames f.types.length ((encNames (f.names.take f.types.length) ++ zeros ((maxElems - f.types.length) * nameBytes)) ++
        ((encTypes f.types ++ zeros (maxElems - f.types.length)) ++ zeros reserved2Bytes)) = f.names := by
      rw [hn, List.append_assoc]
      have := decNames_enc f.names (zeros ((maxElems - f.types.length) * nameBytes) ++
        ((encTypes f.types ++ zeros (maxElems - f.types.length)) ++ zeros reserved2Bytes)) h.names
      rw [h.lenEq] at this; exact this
    have e3 : (((encTypes f.types ++ zeros (maxElems - f.types.length)) ++ zeros reserved2Bytes).take f.types.length).map (·.toNat)
        = f.types := by
      have hl : (encTypes f.types).length = f.types.length := by simp [encTypes]
      rw [List.append_assoc, List.take_left' hl, decTypes_enc _ h.types]
    rw [e1, e2, e3,
      leDecode_le_of_lt 8 _ (by rw [two64]; exact h.version), leDecode_le_of_lt 8 _ (by rw [two64]; exact h.year),
      leDecode_le_of_lt 8 _ (by rw [two64]; exact h.timeframe), leDecode_le_of_lt 8 _ (by rw [two64]; exact h.recordType),
      leDecode_le_of_lt 8 _ (by rw [two64]; exact h.recordLength)]

/-! ### what `decode` can return (necessity of the well-formedness conditions) -/

theorem dropWhile_head_ne (l : Bytes) : (l.dropWhile (· == 0)).head? ≠ some 0 := by
  induction l with
  | nil => simp
  | cons x xs ih =>
    by_cases hx : x = 0
    · simp only [List.dropWhile_cons, hx, beq_self_eq_true, if_true]; exact ih
    · simp [List.dropWhile_cons, hx]

theorem dropWhile_length_le (l : Bytes) : (l.dropWhile (· == 0)).length ≤ l.length := by
  induction l with
  | nil => simp
  | cons x xs ih => simp only [List.dropWhile_cons]; split <;> simp <;> omega

theorem dropWhile_getLast (l : Bytes) (h : l.getLast? ≠ some 0) : (l.dropWhile (· == 0)).getLast? ≠ some 0 := by
  induction l with
  | nil => simp
  | cons x xs ih =>
    simp only [List.dropWhile_cons]
    split
    · apply ih
      intro hx
      apply h
      cases xs with
      | nil => simp at hx
      | cons y ys => simpa [List.getLast?_cons_cons] using hx
    · exact h

theorem trimNul_noEdge (b : Bytes) : noEdgeNul (trimNul b) := by
  unfold trimNul noEdgeNul
  constructor
  · rw [List.head?_reverse]
    apply dropWhile_getLast
    rw [List.getLast?_reverse]
    exact dropWhile_head_ne b
  · rw [List.getLast?_reverse]
    exact dropWhile_head_ne _

theorem trimNul_length_le (b : Bytes) : (trimNul b).length ≤ b.length := by
  unfold trimNul
  rw [List.length_reverse]
  have h1 := dropWhile_length_le (b.dropWhile (· == 0)).reverse
  have h2 := dropWhile_length_le b
  rw [List.length_reverse] at h1
  omega

theorem decNames_props (n : Nat) (b : Bytes) :
    (decNames n b).length = n ∧ ∀ s ∈ decNames n b, s.length ≤ nameBytes ∧ noEdgeNul s := by
  induction n generalizing b with
  | zero => simp [decNames]
  | succ n ih =>
    obtain ⟨h1, h2⟩ := ih (b.drop nameBytes)
    refine ⟨by simp [decNames, h1], ?_⟩
    intro s hs
    simp only [decNames, List.mem_cons] at hs
    rcases hs with rfl | hs
    · refine ⟨?_, trimNul_noEdge _⟩
      have := trimNul_length_le (b.take nameBytes)
      have := List.length_take_le nameBytes b
      omega
    · exact h2 s hs

/-- whatever `decode` returns has at most 1024 columns, names of at most 32 bytes without NUL at
    either end, and a description of at most 256 bytes without NUL at either end -/
theorem decode_props (b : Bytes) (f : TBI) (h : decode b = some f) :
    f.names.length ≤ maxElems ∧ (∀ s ∈ f.names, s.length ≤ nameBytes ∧ noEdgeNul s) ∧
    f.description.length ≤ descBytes ∧ noEdgeNul f.description := by
  unfold decode at h
  split at h
  · exact absurd h (by simp)
  · simp only at h
    split at h
    · exact absurd h (by simp)
    · rename_i hn
      injection h with h
      subst h
      simp only
      obtain ⟨h1, h2⟩ := decNames_props (leDecode ((b.drop 288).take 8)) (b.drop 312)
      refine ⟨by rw [h1]; omega, h2, ?_, trimNul_noEdge _⟩
      have := trimNul_length_le ((b.drop 8).take descBytes)
      have := List.length_take_le descBytes (b.drop 8)
      omega

/-! ### a write inside the header, behind the used part of the type array, is harmless -/

theorem overwrite_length (b w : Bytes) (off : Nat) (h : off + w.length ≤ b.length) :
    (overwrite b off w).length = b.length := by
  simp only [overwrite, List.length_append, List.length_take, List.length_drop]
  omega

theorem take_overwrite (b w : Bytes) (off k : Nat) (hk : k ≤ off) (ho : off ≤ b.length) :
    (overwrite b off w).take k = b.take k := by
  unfold overwrite
  rw [List.append_assoc, List.take_append_of_le_length (by simp [List.length_take]; omega), List.take_take]
  congr 1
  omega

/-- a field that ends at or before `off` -/
theorem fld_overwrite (b w : Bytes) (off o l : Nat) (h : o + l ≤ off) (ho : off ≤ b.length) :
    ((overwrite b off w).drop o).take l = (b.drop o).take l := by
  have e : ∀ x : Bytes, (x.drop o).take l = ((x.take (o + l)).drop o) := by
    intro x; rw [List.drop_take]; congr 1; omega
  rw [e, e, take_overwrite b w off (o + l) h ho]

theorem decNames_congr (n : Nat) (x y : Bytes) (h : x.take (n * nameBytes) = y.take (n * nameBytes)) :
    decNames n x = decNames n y := by
  induction n generalizing x y with
  | zero => rfl
  | succ n ih =>
    have h32 : nameBytes ≤ (n + 1) * nameBytes := by rw [Nat.add_mul]; omega
    have e1 : x.take nameBytes = y.take nameBytes := by
      have := congrArg (List.take nameBytes) h
      rwa [List.take_take, List.take_take, Nat.min_eq_left h32] at this
    have e2 : (x.drop nameBytes).take (n * nameBytes) = (y.drop nameBytes).take (n * nameBytes) := by
      have := congrArg (List.drop nameBytes) h
      rw [List.drop_take, List.drop_take] at this
      have hh : (n + 1) * nameBytes - nameBytes = n * nameBytes := by rw [Nat.add_mul]; omega
      rwa [hh] at this
    simp only [decNames, e1, ih _ _ e2]

theorem decode_overwrite (b w : Bytes) (off : Nat) (hb : b.length = headersize) (hw : off + w.length ≤ headersize)
    (hoff : 312 + maxElems * nameBytes + leDecode ((b.drop 288).take 8) ≤ off) :
    decode (overwrite b off w) = decode b := by
  have ho : off ≤ b.length := by omega
  have hl := overwrite_length b w off (by omega)
  have hmn : maxElems * nameBytes = 32768 := by decide
  rw [hmn] at hoff
  unfold decode
  rw [hl]
  split
  · rfl
  · simp only
    have f0 := fld_overwrite b w off 0 8 (by omega) ho
    have f1 := fld_overwrite b w off 8 descBytes (by rw [descBytes_eq]; omega) ho
    have f2 := fld_overwrite b w off 264 8 (by omega) ho
    have f3 := fld_overwrite b w off 272 8 (by omega) ho
    have f4 := fld_overwrite b w off 280 8 (by omega) ho
    have f5 := fld_overwrite b w off 288 8 (by omega) ho
    have f6 := fld_overwrite b w off 296 8 (by omega) ho
    rw [f0, f1, f2, f3, f4, f5, f6]
    split
    · rfl
    · rename_i hn
      have hn' : leDecode ((b.drop 288).take 8) ≤ 1024 := by rw [maxElems_eq] at hn; omega
      have fn : decNames (leDecode ((b.drop 288).take 8)) ((overwrite b off w).drop 312) =
          decNames (leDecode ((b.drop 288).take 8)) (b.drop 312) := by
        apply decNames_congr
        apply fld_overwrite b w off 312 _ _ ho
        rw [nameBytes_eq]; omega
      have ft := fld_overwrite b w off (312 + maxElems * nameBytes) (leDecode ((b.drop 288).take 8)) (by rw [hmn]; omega) ho
      rw [fn, ft]

/-! ### … and a write that starts before the end of the used type array is not -/

theorem drop_overwrite (b w : Bytes) (off k : Nat) (h1 : off ≤ k) (h2 : k ≤ off + w.length)
    (h3 : off + w.length ≤ b.length) :
    (overwrite b off w).drop k = w.drop (k - off) ++ b.drop (off + w.length) := by
  unfold overwrite
  have hw : w.take (b.length - off) = w := List.take_of_length_le (by omega)
  rw [hw, List.append_assoc]
  have hl : (b.take off).length = off := by simp [List.length_take]; omega
  have : k = off + (k - off) := by omega
  rw [this, ← List.drop_drop, List.drop_left' hl, List.drop_append_of_le_length (by omega)]
  congr 2
  omega

theorem decode_types (b : Bytes) (f : TBI) (h : decode b = some f) :
    f.types = ((b.drop (312 + maxElems * nameBytes)).take (leDecode ((b.drop 288).take 8))).map (·.toNat) := by
  unfold decode at h
  split at h
  · exact absurd h (by simp)
  · simp only at h
    split at h
    · exact absurd h (by simp)
    · injection h with h; subst h; rfl

/-! ### what `TimeBucketInfo.Validate` (all three tests) guarantees -/

theorem noEdgeNul_of_trimNul_fix (s : Str) (h : trimNul s = s) : noEdgeNul s := by
  have := trimNul_noEdge s
  rwa [h] at this

/-- everything `Validate` does not look at: one name per type, byte-sized type numbers, a
    description that fits (the server only writes two fixed ones), 64-bit integer fields -/
structure Bounds (f : TBI) : Prop where
  lenEq : f.names.length = f.types.length
  types : ∀ t ∈ f.types, t < 256
  desc : f.description.length ≤ descBytes ∧ noEdgeNul f.description
  version : f.version < 2 ^ 64
  year : f.year < 2 ^ 64
  timeframe : f.timeframe < 2 ^ 64
  recordType : f.recordType < 2 ^ 64
  recordLength : f.recordLength < 2 ^ 64

theorem validSchema_wf (f : TBI) (hv : validSchema ⟨true, true, true⟩ f = true) (hb : Bounds f) : WF f := by
  simp only [validSchema, Bool.not_true, Bool.false_or, Bool.and_eq_true, decide_eq_true_eq, List.all_eq_true,
    beq_iff_eq] at hv
  obtain ⟨⟨hc, hn⟩, _⟩ := hv
  exact { lenEq := hb.lenEq, count := hc,
          names := fun s hs => ⟨(hn s hs).1, noEdgeNul_of_trimNul_fix s (hn s hs).2⟩,
          types := hb.types, desc := hb.desc, version := hb.version, year := hb.year,
          timeframe := hb.timeframe, recordType := hb.recordType, recordLength := hb.recordLength }

theorem validSchema_daily (f : TBI) (hv : validSchema ⟨true, true, true⟩ f = true) (h0 : f.recordType = 0)
    (hd : f.timeframe = dayNs) : f.recordLength + f.types.length ≤ headersize - (312 + maxElems * nameBytes) := by
  simp only [validSchema, Bool.not_true, Bool.false_or, Bool.and_eq_true, decide_eq_true_eq, List.all_eq_true,
    beq_iff_eq, h0, hd, typesOffset] at hv
  obtain ⟨⟨hc, _⟩, hday⟩ := hv
  have hmn : maxElems * nameBytes = 32768 := by decide
  have hday' : (f.recordLength : Int) ≤ (headersize : Int) - ((312 + maxElems * nameBytes : Nat) : Int) - f.types.length := by
    have h2 := hday
    simp only [beq_self_eq_true, Bool.and_self, Bool.not_true, Bool.false_or] at h2
    exact of_decide_eq_true h2
  rw [hmn, headersize_eq] at hday' ⊢
  omega

/-! ### the witness of the January-1 counterexample (C15_cex_jan1) -/

def wideCols : List (Str × Nat) := List.replicate 62 ([97], 14)
/-- 62 STRING16 columns in a 1D bucket: record length 3976 -/
def wide : TBI := newTimeBucketInfo (fun t => if t = 14 then 64 else 0) 86400000000000 [68] 2020 wideCols 0
def junk : Bytes := List.replicate 8 0 ++ List.replicate 3968 255

set_option maxRecDepth 100000 in
theorem wide_wf : WF wide := by
  constructor <;> decide

set_option maxRecDepth 100000 in
theorem wide_recLen : wide.recordLength = 3976 := by decide

set_option maxRecDepth 100000 in
theorem wide_type0 : wide.types.head? = some 14 := by decide

theorem junk_length : junk.length = 3976 := by
  unfold junk; rw [List.length_append, List.length_replicate, List.length_replicate]

theorem junk_drop : ∃ t, junk.drop 32 = 255 :: t := by
  refine ⟨List.replicate 3943 255, ?_⟩
  have : junk.drop 32 = List.replicate (3943 + 1) 255 := by
    unfold junk
    rw [List.drop_append, List.length_replicate, List.drop_replicate, List.drop_replicate]
    rfl
  rw [this, List.replicate_succ]


end Mkts.Header
