import Mkts.Model.Coerce
import Mkts.Extracted.Skeletons
/-! Which variant of `WriteCSM` the CURRENT source implements (C14-F8, C14-F8b): read off the
regenerated skeleton `executor_Writer_WriteCSM`. Core Lean only. -/
namespace Mkts.Coerce

def skWriteCSM : List String := Mkts.Extracted.Skel.executor_Writer_WriteCSM

def hasSub : List String → List String → Bool
  | [], pat => pat.isEmpty
  | a :: l, pat => pat.isPrefixOf (a :: l) || hasSub l pat

/-- `cs.Project(io.GetNamesFromDSV(dbDSV))` comes before `cs.ToRowSeries` -/
def orderedInCode : Bool :=
  hasSub (skWriteCSM.takeWhile (· != "call:cs.ToRowSeries")) ["call:io.GetNamesFromDSV", "call:cs.Project"]

/-- `WriteRecords` is only called in a second loop, after the loop over the request's buckets -/
def atomicInCode : Bool :=
  hasSub skWriteCSM ["range:pending{", "call:w.WriteRecords"] &&
  !(skWriteCSM.takeWhile (· != "range:pending{")).contains "call:w.WriteRecords"

def codeVariant : Variant := ⟨orderedInCode, atomicInCode⟩

end Mkts.Coerce
