package main

// C16: no request can touch files outside the data root.
//
//   pclean <hex>              filepath.Clean
//   pjoin <hexroot> <hexkey>  filepath.Join(root, key) (printed twice: the Lean side computes it at
//                             string level and at component level)
//   c16 <nowYear> <step>...   a REAL server instance whose root is <sentinel>/p1/p2/p3/data; the
//                             sentinel tree (which also holds a foreign data directory
//                             p1/p2/p3/other) is snapshotted (kind, size, sha1 of every entry
//                             outside the root) before and after the steps:
//                               C:<hexkey>  W:<hexkey>:<year>  D:<hexkey>  Q:<hexkey>
//                             -> "<class per step> outside=<hexpath>{+|-|~},..."

import (
	"crypto/sha1"
	"encoding/hex"
	"fmt"
	"io"
	"io/fs"
	"os"
	"path/filepath"
	"sort"
	"strconv"
	"strings"
	"sync"
	"time"

	"github.com/alpacahq/marketstore/v4/frontend"
	mio "github.com/alpacahq/marketstore/v4/utils/io"
	"go.uber.org/zap"
	"go.uber.org/zap/zapcore"
)

var quietOnce sync.Once

// quietFatal: marketstore's log.Fatal (zap) would os.Exit the harness; turn it into a panic that
// the op recovers, and drop all log output.
func quietFatal() {
	quietOnce.Do(func() {
		core := zapcore.NewCore(zapcore.NewJSONEncoder(zap.NewProductionEncoderConfig()), zapcore.AddSync(io.Discard),
			zap.LevelEnablerFunc(func(l zapcore.Level) bool { return l >= zapcore.FatalLevel }))
		zap.ReplaceGlobals(zap.New(core, zap.Hooks(func(e zapcore.Entry) error {
			if e.Level == zapcore.FatalLevel {
				panic("log.Fatal: " + e.Message)
			}
			return nil
		})))
	})
}

func unhxs(s string) string {
	b, err := unhx(s)
	if err != nil {
		panic("bad-arg hex " + s)
	}
	return string(b)
}

func errClass16(msg string) string {
	if strings.Contains(msg, "category name does not match") {
		return "err:catmismatch"
	}
	return errClass(msg)
}

type snapEntry struct{ kind, sum string }

func snapshot(top, skip string) map[string]snapEntry {
	out := map[string]snapEntry{}
	filepath.WalkDir(top, func(p string, d fs.DirEntry, err error) error {
		if err != nil {
			return nil
		}
		if p == top {
			return nil
		}
		if p == skip {
			return filepath.SkipDir
		}
		rel, _ := filepath.Rel(top, p)
		if d.IsDir() {
			out[rel] = snapEntry{"d", ""}
			return nil
		}
		h := sha1.New()
		var size int64
		if f, err := os.Open(p); err == nil {
			size, _ = io.Copy(h, f)
			f.Close()
		}
		out[rel] = snapEntry{"f", fmt.Sprintf("%d:%x", size, h.Sum(nil))}
		return nil
	})
	return out
}

func diffSnap(a, z map[string]snapEntry) string {
	var ds []string
	for p, e := range z {
		if o, ok := a[p]; !ok {
			ds = append(ds, hex.EncodeToString([]byte(p))+"+")
		} else if o != e {
			ds = append(ds, hex.EncodeToString([]byte(p))+"~")
		}
	}
	for p := range a {
		if _, ok := z[p]; !ok {
			ds = append(ds, hex.EncodeToString([]byte(p))+"-")
		}
	}
	if len(ds) == 0 {
		return "-"
	}
	sort.Strings(ds)
	return strings.Join(ds, ",")
}

func copyTree(src, dst string) {
	must(filepath.WalkDir(src, func(p string, d fs.DirEntry, err error) error {
		if err != nil {
			return err
		}
		rel, _ := filepath.Rel(src, p)
		t := filepath.Join(dst, rel)
		if d.IsDir() {
			return os.MkdirAll(t, 0o770)
		}
		if strings.HasSuffix(p, ".walfile") {
			return nil
		}
		b, err := os.ReadFile(p)
		if err != nil {
			return err
		}
		return os.WriteFile(t, b, 0o660)
	}))
}

func oneRowDataset(rawKey string, year int, val int32) *mio.NumpyMultiDataset {
	ep := time.Date(year, 6, 1, 0, 0, 0, 0, time.UTC).Unix()
	v := make([]byte, 4)
	for i := 0; i < 4; i++ {
		v[i] = byte(uint32(val) >> (8 * i))
	}
	return &mio.NumpyMultiDataset{
		NumpyDataset: mio.NumpyDataset{ColumnTypes: []string{"i8", "i4"}, ColumnNames: []string{"Epoch", "A"},
			ColumnData: [][]byte{le64(ep), v}, Length: 1},
		StartIndex: map[string]int{rawKey: 0},
		Lengths:    map[string]int{rawKey: 1},
	}
}

var decoyTemplate string

// decoy: a foreign marketstore data directory with bucket BBB/1D/OHLC (auto-created by a write of
// one 2020 row), built once per process with the real code.
func decoy() string {
	if decoyTemplate != "" {
		return decoyTemplate
	}
	d := scratchDir("c16tmpl")
	in := startInst(d, nil)
	var resp frontend.MultiServerResponse
	in.ds.Write(nil, &frontend.MultiWriteRequest{Requests: []frontend.WriteRequest{{Data: oneRowDataset("BBB/1D/OHLC", 2020, 7)}}}, &resp)
	if len(resp.Responses) != 0 {
		panic("bad-arg decoy write failed: " + resp.Responses[0].Error)
	}
	in.abandon()
	decoyTemplate = d
	return d
}

func step16(in *Inst, idx int, step string) (res string) {
	f := strings.Split(step, ":")
	defer func() {
		if r := recover(); r != nil {
			lastPanic = fmt.Sprint(r)
			if f[0] == "Q" {
				res = "Q=x"
			} else {
				res = f[0] + "=" + panicClass(r)
			}
		}
	}()
	key := unhxs(f[1])
	switch f[0] {
	case "C":
		req := frontend.CreateRequest{Key: key, ColumnNames: []string{"A"}, ColumnTypes: []string{"i4"}}
		var resp frontend.MultiServerResponse
		in.ds.Create(nil, &frontend.MultiCreateRequest{Requests: []frontend.CreateRequest{req}}, &resp)
		if len(resp.Responses) == 0 {
			return "C=noresp"
		}
		return "C=" + errClass16(resp.Responses[0].Error)
	case "W":
		year, _ := strconv.Atoi(f[2])
		var resp frontend.MultiServerResponse
		in.ds.Write(nil, &frontend.MultiWriteRequest{Requests: []frontend.WriteRequest{{Data: oneRowDataset(key, year, int32(100+idx))}}}, &resp)
		if len(resp.Responses) == 0 {
			return "W=ok"
		}
		return "W=" + errClass16(resp.Responses[0].Error)
	case "D":
		var resp frontend.MultiServerResponse
		in.ds.Destroy(nil, &frontend.MultiKeyRequest{Requests: []frontend.KeyRequest{{Key: key}}}, &resp)
		if len(resp.Responses) == 0 {
			return "D=noresp"
		}
		return "D=" + errClass16(resp.Responses[0].Error)
	case "Q":
		parts := strings.SplitN(key, ":", 2)
		req := frontend.QueryRequest{Destination: parts[0]}
		if len(parts) == 2 {
			req.KeyCategory = parts[1]
		}
		var resp frontend.MultiQueryResponse
		in.ds.Query(nil, &frontend.MultiQueryRequest{Requests: []frontend.QueryRequest{req}}, &resp)
		return "Q=x"
	}
	panic("bad-arg step " + step)
}

func c16Op(a []string) string {
	quietFatal()
	nowYear := time.Now().UTC().Year()
	if a[0] != strconv.Itoa(nowYear) {
		return "harness:bad-arg now-year " + a[0]
	}
	tmpl := decoy()
	sentinel := scratchDir("c16")
	defer os.RemoveAll(sentinel)
	p3 := filepath.Join(sentinel, "p1", "p2", "p3")
	root := filepath.Join(p3, "data")
	must(os.MkdirAll(root, 0o770))
	copyTree(tmpl, filepath.Join(p3, "other"))
	in := startInst(root, nil)
	defer in.abandon()
	if r := step16(in, 0, "C:"+hex.EncodeToString([]byte("AAA/1D/OHLC:Symbol/Timeframe/AttributeGroup"))); r != "C=ok" {
		return "harness:setup " + r
	}
	before := snapshot(sentinel, root)
	var out []string
	for i, st := range a[1:] {
		out = append(out, step16(in, i+1, st))
	}
	after := snapshot(sentinel, root)
	return strings.Join(out, " ") + " outside=" + diffSnap(before, after)
}

func hostileItem(g *Gen) string {
	pool := []string{"..", "..", "..", ".", "", "AAA", "1D", "1D", "OHLC", "BBB", "other", "data", "p3", "p2",
		"category_name", "2020.bin", "x\x00y", strings.Repeat("a", 256), strings.Repeat("b", 255), "...", " ", "a b",
		"\xc3\xa9", "\xff\xfe", "..\x00", "-", "*", "1Dx", "..1D", "1H", "4H", "1Min", "ZZZ", "~", "\\", "..\\", "%2e%2e"}
	return pool[g.Intn(len(pool))]
}

// staysInSentinel: the walk never leaves the observed tree (root is 4 levels below its top).
func staysInSentinel(items []string) bool {
	d := 4
	for _, it := range items {
		switch it {
		case "", ".":
		case "..":
			d--
			if d < 0 {
				return false
			}
		default:
			d++
		}
	}
	return true
}

func init() {
	ops["pclean"] = func(a []string) string { return hx([]byte(filepath.Clean(unhxs(a[0])))) }
	ops["pjoin"] = func(a []string) string {
		j := hx([]byte(filepath.Join(unhxs(a[0]), unhxs(a[1]))))
		return j + " " + j
	}
	ops["c16"] = c16Op
	slowOps["c16"] = true

	gens["C16"] = func(g *Gen) {
		ny := strconv.Itoa(time.Now().UTC().Year())
		h := func(s string) string { return hex.EncodeToString([]byte(s)) }
		// --- lexical functions
		alphabet := []string{"/", "/", ".", "..", "a", "b", "//", "./", "../", "/..", "x.y", "\x00", " ", "...", "\xff"}
		for i := 0; i < g.N(400, 4000); i++ {
			n := 1 + g.Intn(8)
			var sb strings.Builder
			for k := 0; k < n; k++ {
				sb.WriteString(alphabet[g.Intn(len(alphabet))])
			}
			s := sb.String()
			tag := "clean:rel"
			if strings.HasPrefix(s, "/") {
				tag = "clean:rooted"
			}
			if strings.Contains(s, "..") {
				tag += ":dotdot"
			}
			g.Emit("pclean "+hx([]byte(s)), tag)
		}
		g.Emit("pclean -", "clean:empty")
		roots := []string{"/", "/data", "/srv/mkts/data", "/a/b/c/d"}
		for i := 0; i < g.N(300, 3000); i++ {
			n := g.Intn(6)
			var items []string
			for k := 0; k < n; k++ {
				items = append(items, []string{"..", ".", "", "a", "bb", "1Min", "...", "..a"}[g.Intn(8)])
			}
			key := strings.Join(items, "/")
			tag := "join:safe"
			for _, it := range items {
				if it == ".." {
					tag = "join:dotdot"
				}
			}
			g.Emit("pjoin "+hx([]byte(roots[g.Intn(len(roots))]))+" "+hx([]byte(key)), tag)
		}
		// --- requests against a real instance
		emit := func(tag string, steps ...string) {
			g.Emit("c16 "+ny+" "+strings.Join(steps, " "), tag)
		}
		dflt := ":Symbol/Timeframe/AttributeGroup"
		// well-formed keys (the property must hold with nothing outside)
		emit("req:wellformed", "C:"+h("XYZ/1D/OHLC"+dflt), "W:"+h("XYZ/1D/OHLC")+":2020", "Q:"+h("XYZ/1D/OHLC"), "D:"+h("XYZ/1D/OHLC"))
		emit("req:wellformed", "W:"+h("NEW/1H/TICK")+":2019", "W:"+h("AAA/1D/OHLC")+":2020", "D:"+h("AAA/1D/OHLC"))
		// the attack families
		emit("req:attack:F10", "C:"+h("../1D/OHLC"+dflt))
		emit("req:attack:F10write", "W:"+h("../1D/OHLC")+":2020")
		emit("req:attack:two-items", "C:"+h("../1D:Symbol/Timeframe"))
		foreign := "../other/BBB/1D/OHLC:Symbol/X/Symbol/Timeframe/AttributeGroup"
		emit("req:attack:foreign-create", "C:"+h(foreign))
		emit("req:attack:foreign-overwrite", "W:"+h(foreign)+":2020")
		emit("req:attack:foreign-newyear", "W:"+h(foreign)+":2019")
		emit("req:attack:reentry", "W:"+h("../data/AAA/1D/OHLC:Symbol/X/Symbol/Timeframe/AttributeGroup")+":2020")
		emit("req:attack:create-destroy", "C:"+h("../1D/OHLC"+dflt), "D:"+h("../1D/OHLC"))
		emit("req:attack:destroy-parent", "C:"+h("../1D:Symbol/Timeframe"), "D:"+h(".."))
		emit("req:attack:destroy-only", "D:"+h("../other/BBB/1D/OHLC"), "D:"+h(".."), "D:"+h("../other"))
		emit("req:attack:query", "Q:"+h("../other/BBB/1D/OHLC"), "Q:"+h("../../*/1D/OHLC"), "Q:"+h(".."))
		emit("req:harmless-dots", "C:"+h("./QQQ//1D/./OHLC:Symbol/A/B/Timeframe/C/AttributeGroup"), "W:"+h("AAA/./1D/OHLC:Symbol/X/Timeframe/AttributeGroup")+":2020")
		emit("req:abs-looking", "C:"+h("/etc/1D/OHLC:X/Symbol/Timeframe/AttributeGroup"), "C:"+h("/etc/1D/OHLC"+dflt))
		catsPool := []string{"", "Symbol/Timeframe/AttributeGroup", "Symbol/Timeframe", "Timeframe/Symbol/AttributeGroup",
			"Symbol/X/Timeframe/AttributeGroup", "Symbol/X/Symbol/Timeframe/AttributeGroup", "Symbol/Symbol/Timeframe",
			"X/Y/Z", "Timeframe", "Symbol/A/B/Timeframe/C/AttributeGroup"}
		for i := 0; i < g.N(150, 1500); i++ {
			nsteps := 1 + g.Intn(3)
			var steps []string
			tags := map[string]bool{}
			var lastKey string
			for s := 0; s < nsteps; s++ {
				var key string
				if lastKey != "" && g.Intn(3) == 0 {
					key = lastKey
				} else {
					smart := g.Intn(10) < 7
					var items []string
					for {
						n := 1 + g.Intn(5)
						items = nil
						for k := 0; k < n; k++ {
							if g.Intn(3) == 0 {
								items = append(items, hostileItem(g))
							} else {
								items = append(items, []string{"..", "..", "1D", "OHLC", "AAA", "other", "BBB", "NEW", "data"}[g.Intn(9)])
							}
						}
						if staysInSentinel(items) {
							break
						}
					}
					if smart {
						// a category list that lines "Timeframe" up with a valid timeframe item and
						// mostly agrees with the category_name files already on disk
						j := g.Intn(len(items))
						items[j] = []string{"1D", "1D", "1H", "4H"}[g.Intn(4)]
						if !staysInSentinel(items) {
							items[j] = "1D"
						}
						cats := make([]string, len(items))
						for k := range cats {
							cats[k] = []string{"Symbol", "Symbol", "AttributeGroup", "X", "Year", "Timeframe"}[g.Intn(6)]
						}
						if g.Intn(5) != 0 {
							cats[0] = "Symbol"
						}
						cats[j] = "Timeframe"
						for k := 0; k < j; k++ {
							if cats[k] == "Timeframe" {
								cats[k] = "X"
							}
						}
						if g.Intn(8) == 0 {
							cats = cats[:len(cats)-1]
						}
						key = strings.Join(items, "/") + ":" + strings.Join(cats, "/")
						if !staysInSentinel(items) {
							key = "AAA/1D/OHLC"
						}
						tags["req:smart-cats"] = true
					} else {
						key = strings.Join(items, "/")
						if c := catsPool[g.Intn(len(catsPool))]; c != "" || g.Intn(2) == 0 {
							key += ":" + c
						}
					}
				}
				lastKey = key
				if strings.Contains(key, "..") {
					tags["req:has-dotdot"] = true
				}
				if strings.Contains(key, "\x00") {
					tags["req:nul"] = true
				}
				switch g.Intn(6) {
				case 0, 1:
					steps = append(steps, "C:"+h(key))
					tags["req:create"] = true
				case 2, 3:
					steps = append(steps, "W:"+h(key)+":"+[]string{"2019", "2020", ny}[g.Intn(3)])
					tags["req:write"] = true
				case 4:
					steps = append(steps, "D:"+h(key))
					tags["req:destroy"] = true
				default:
					steps = append(steps, "Q:"+h(key))
					tags["req:query"] = true
				}
			}
			var tl []string
			for t := range tags {
				tl = append(tl, t)
			}
			sort.Strings(tl)
			tl = append(tl, "req:random")
			g.Emit("c16 "+ny+" "+strings.Join(steps, " "), tl...)
		}
	}
}
