import Mkts.Lemmas.Catalog
import Mkts.Lemmas.CatalogConc
import Mkts.Model.Skel
/-!
# C17 — the catalog stays consistent with the disk

Sequential part.  `Consistent s`: the catalog tree is what a restart would load from the directory
tree (`load s.disk`), it holds the same `(bucket, year)` pairs as the disk, and the root's
`directMap` resolves no Directory object that is not in the tree.

* `C17_full` (every history of create / write / destroy / restart keeps `Consistent`) is FALSE of
  the code: `C17_cex_prefix_destroy` (Destroy with a one- or two-item key leaves the deeper
  Directory objects in the `directMap`: a destroyed bucket still answers GetInfo / accepts
  writes) and `C17_cex_failed_create` (a Create whose category names do not match the on-disk
  `category_name` has already made the symbol's directory: a restart lists a symbol the running
  server does not).
* `C17_partial` / `C17_seq`: for ALL histories whose keys have three items and in which no
  creation fails half-way, `Consistent` holds after every operation (induction over the history).

Concurrent part: see the second half of this file (two-thread step relation).
-/
namespace Mkts.Props.C17
open Mkts.Catalog

/-- the year files a tree holds for a bucket path -/
def HasYear (d : Dir) (p : Path) (y : Int) : Prop := ∃ r, find p d = some r ∧ ∃ f ∈ r.files, f.1 = y

structure Consistent (s : St) : Prop where
  /-- a fresh restart lists the same: every path resolves to the same Directory content -/
  restart_same : ∀ p, find p (restart s).tree = find p s.tree
  /-- the catalog's set of (bucket, year) equals the disk's -/
  years_same : ∀ p y, HasYear s.tree p y ↔ HasYear s.disk p y
  /-- the directMap view is the tree view -/
  dmap_same : ∀ p, dlookup s p = (find p s.tree).bind (fun r => if r.files.isEmpty then none else some r)

theorem consistent_of_inv {s : St} (I : Inv s) : Consistent s where
  restart_same := fun p => by simp only [restart]; rw [find_load_wf I.wf, I.same]
  years_same := fun p y => by simp only [HasYear, I.same]
  dmap_same := fun p => by
    simp only [dlookup, I.stale, find]
    cases find p s.tree <;> simp

/-- The full-strength statement: after EVERY sequential history the catalog is consistent. -/
def C17_full : Prop := ∀ (now : Int) (ops : List Op), Consistent (run now St.init ops)

/-- Histories covered: three-item keys, no creation failing half-way
    (results `err:catmismatch`, `panic:index`, or a write whose auto-creation failed). -/
theorem C17_partial (now : Int) (ops : List Op) (hk : ∀ op ∈ ops, op.key3)
    (hm : ∀ r ∈ results now St.init ops, ¬ r.midway) : Consistent (run now St.init ops) :=
  consistent_of_inv (run_inv now ops St.init Inv_init hk hm)

/-- …and after every prefix of such a history (consistency holds after EVERY operation). -/
theorem C17_seq (now : Int) (ops : List Op) (hk : ∀ op ∈ ops, op.key3)
    (hm : ∀ r ∈ results now St.init ops, ¬ r.midway) (n : Nat) :
    Consistent (run now St.init (ops.take n)) := by
  apply C17_partial
  · intro op ho; exact hk op (List.mem_of_mem_take ho)
  · intro r hr; apply hm r
    have : ∀ (st : St) (l : List Op) (n : Nat), ∀ r ∈ results now st (l.take n), r ∈ results now st l := by
      intro st l
      induction l generalizing st with
      | nil => intro n r hr; simpa using hr
      | cons o l ih =>
        intro n r hr
        cases n with
        | zero => simp [results] at hr
        | succ n =>
          simp only [List.take, results, List.mem_cons] at hr ⊢
          rcases hr with h | h
          · exact Or.inl h
          · exact Or.inr (ih _ n r h)
    exact this _ _ n r hr

/-- a restart of a consistent server lists the same buckets and years -/
theorem C17_restart_lists_same (now : Int) (ops : List Op) (hk : ∀ op ∈ ops, op.key3)
    (hm : ∀ r ∈ results now St.init ops, ¬ r.midway) (p : Path) (y : Int) :
    HasYear (restart (run now St.init ops)).tree p y ↔ HasYear (run now St.init ops).disk p y := by
  have C := C17_partial now ops hk hm
  simp only [HasYear, C.restart_same]
  exact C.years_same p y

def defaultCats' : List String := ["Symbol", "Timeframe", "AttributeGroup"]

/-- Destroy "A" (one item) after Create A/1Min/X: the bucket is gone from disk and from the
    listing, but the directMap still resolves it (GetInfo answers, writes are accepted). -/
def cexPrefix : List Op := [.create ["A", "1Min", "X"] defaultCats' 0, .destroy ["A"]]

theorem C17_cex_prefix_destroy :
    (run 2026 St.init cexPrefix).disk = [([], ⟨some "Symbol", []⟩)] ∧
    find ["A", "1Min", "X"] (run 2026 St.init cexPrefix).tree = none ∧
    dlookup (run 2026 St.init cexPrefix) ["A", "1Min", "X"] = some ⟨some "Year", [(2026, 0)]⟩ := by
  decide

/-- Create B/1D/Y with root category "Sym" on a root whose category is "Symbol": error, but the
    directory B exists; the running catalog does not list B, a restarted one does. -/
def cexCreate : List Op :=
  [.create ["A", "1Min", "X"] defaultCats' 0, .create ["B", "1D", "Y"] ["Sym", "Timeframe", "AttributeGroup"] 0]

theorem C17_cex_failed_create :
    results 2026 St.init cexCreate = [.ok, .catMismatch] ∧
    find ["B"] (run 2026 St.init cexCreate).tree = none ∧
    find ["B"] (restart (run 2026 St.init cexCreate)).tree = some ⟨none, []⟩ := by
  decide

theorem C17_not_full : ¬ C17_full := by
  intro h
  have := (h 2026 cexCreate).restart_same ["B"]
  rw [C17_cex_failed_create.2.2, C17_cex_failed_create.2.1] at this
  cases this

/-- the prefix-destroy history violates `dmap_same` -/
theorem C17_not_full' : ¬ (Consistent (run 2026 St.init cexPrefix)) := by
  intro h
  have := h.dmap_same ["A", "1Min", "X"]
  rw [C17_cex_prefix_destroy.2.2, C17_cex_prefix_destroy.2.1] at this
  cases this

/-! non-vacuity: a history satisfying the hypotheses of `C17_partial`, with a recreation under
another schema, a new-year write, an auto-creating write and a restart -/
def demo : List Op :=
  [.create ["A", "1Min", "X"] defaultCats' 0, .write ["A", "1Min", "X"] 0 [2026, 2020],
   .destroy ["A", "1Min", "X"], .create ["A", "1Min", "X"] defaultCats' 1,
   .write ["A", "1Min", "X"] 0 [2021], .write ["B", "1D", "Y"] 1 [2019, 2020], .restart]

example : (∀ op ∈ demo, op.key3) ∧ (∀ r ∈ results 2026 St.init demo, ¬ r.midway) := by
  constructor
  · decide
  · have : results 2026 St.init demo = [.ok, .ok, .ok, .ok, .colMismatch, .ok, .ok] := by decide
    rw [this]; intro r hr; simp at hr
    rcases hr with h | h | h <;> subst h <;> simp [Res.midway]

example : yearsOf (run 2026 St.init demo).tree
    = [(["A", "1Min", "X"], 2026), (["B", "1D", "Y"], 2019), (["B", "1D", "Y"], 2020)] := by decide

/-! # Concurrent part

## Tie: the lock atoms of the Go source (regenerated skeletons)

The step relation of `Mkts.CatalogConc` assumes: `AddTimeBucket` and `GetSubDirectoryAndAddFile`
hold the root's write lock from their first statement to their return and take no other lock
themselves; `RemoveTimeBucket` takes no lock itself and is the sequence descent → (removeDirFiles |
removeSubDir) → DirHasSubDirs → removeDirFiles per level → removeDirFiles → root.removeSubDir;
the helpers lock exactly one Directory for their whole body.  These are `decide`d on the constants
factgen regenerates from `catalog/catalog.go` on every run. -/
section Skeleton
open Mkts.Extracted.Skel

def lockCalls (recv : String) : List String :=
  ["call:" ++ recv ++ ".Lock", "call:" ++ recv ++ ".Unlock", "call:" ++ recv ++ ".RLock", "call:" ++ recv ++ ".RUnlock"]

/-- `recv.<lock>(); defer recv.<unlock>()` are the first statements and no other lock call follows -/
def holdsThroughout (recv lock unlock : String) (sk : List String) : Bool :=
  sk.take 4 == ["call:" ++ recv ++ "." ++ lock, "defer{", "call:" ++ recv ++ "." ++ unlock, "}"] &&
  (sk.drop 4).all (fun a => !((lockCalls recv).contains a))

theorem C17_skel_AddTimeBucket_holds_root_lock :
    holdsThroughout "d" "Lock" "Unlock" catalog_Directory_AddTimeBucket = true := by decide

theorem C17_skel_GetSubDirectoryAndAddFile_holds_root_lock :
    holdsThroughout "d" "Lock" "Unlock" catalog_Directory_GetSubDirectoryAndAddFile = true ∧
    catalog_Directory_GetSubDirectoryAndAddFile.contains "call:dir2.AddFile" = true := by decide

theorem C17_skel_helpers_lock_one_directory :
    holdsThroughout "td" "Lock" "Unlock" catalog_removeDirFiles = true ∧
    catalog_removeDirFiles.contains "call:os.RemoveAll" = true ∧
    holdsThroughout "d" "Lock" "Unlock" catalog_Directory_removeSubDir = true ∧
    catalog_Directory_removeSubDir.contains "call:directMap.Delete" = true ∧
    holdsThroughout "d" "RLock" "RUnlock" catalog_Directory_GetSubDirWithItemName = true ∧
    holdsThroughout "d" "RLock" "RUnlock" catalog_Directory_DirHasSubDirs = true := by decide

/-- `RemoveTimeBucket` takes no lock of its own; its calls, in source order -/
theorem C17_skel_RemoveTimeBucket_sections :
    catalog_Directory_RemoveTimeBucket.all (fun a => !((lockCalls "d").contains a)) = true ∧
    catalog_Directory_RemoveTimeBucket.filter (fun a =>
        ["call:current.GetSubDirWithItemName", "call:removeDirFiles", "call:tree[i].removeSubDir",
         "call:tree[i].DirHasSubDirs", "call:d.removeSubDir"].contains a) =
      ["call:current.GetSubDirWithItemName", "call:removeDirFiles",
       "call:tree[i].removeSubDir", "call:tree[i].DirHasSubDirs", "call:removeDirFiles",
       "call:removeDirFiles", "call:d.removeSubDir"] := by decide

/-- effect order of `AddTimeBucket`: mkdir BEFORE the parent's category check, year file after the
    chain, subtree reload + replacement last -/
theorem C17_skel_AddTimeBucket_effects :
    catalog_Directory_AddTimeBucket.filter (fun a =>
        ["call:os.Mkdir", "call:writeCategoryNameFile", "call:newTimeBucketInfoFromTemplate",
         "call:NewDirectory", "call:d.addSubdir", "set:d.category"].contains a) =
      ["call:os.Mkdir", "call:writeCategoryNameFile", "call:writeCategoryNameFile",
       "call:newTimeBucketInfoFromTemplate", "set:d.category", "call:NewDirectory", "call:d.addSubdir"] := by
  decide

/-- `AddFile`: the file is created outside any lock section, the catalog insert is its own section -/
theorem C17_skel_AddFile_sections :
    catalog_Directory_AddFile.filter (fun a => (lockCalls "d").contains a ||
        a == "call:newTimeBucketInfoFromTemplate" || a == "setidx:d.datafile") =
      ["call:d.RLock", "call:d.RUnlock", "call:d.RUnlock", "call:d.RLock", "call:d.RUnlock",
       "call:newTimeBucketInfoFromTemplate", "call:d.Lock", "setidx:d.datafile", "call:d.Unlock"] := by decide

end Skeleton

/-! ## Reachable inconsistency: Destroy ‖ Create on the same symbol

(The race DESIGN §7 F20 guessed — `AddFile` inserting into a Directory that `AddTimeBucket` has
just replaced — is NOT reachable: both run under the root's write lock, see
`C17_addfile_vs_create_all_schedules`.)  What is reachable: `RemoveTimeBucket` removes the symbol's
directory from disk, `AddTimeBucket` of another bucket of that symbol then re-creates it and
installs a fresh subtree, and `RemoveTimeBucket`'s last section `root.removeSubDir(symbol)` drops
that fresh subtree: both requests succeed, the new bucket is on disk, the catalog does not list it. -/
section Race
open Mkts.CatalogConc

/-- catalog after `Create A/1Min/X` -/
def sh0 : Shared := (runSeq 0 40 ⟨[.mkCreate ["A", "1Min", "X"] defaultCats' 2026 0], Shared.init⟩).sh

def raceSys : Sys := ⟨[.mkDestroy ["A", "1Min", "X"], .mkCreate ["A", "1H", "Z"] defaultCats' 2026 0], sh0⟩

/-- Destroy: descent (3), levels 2,1,0 (3 sections each), removeDirFiles(A) = 13 atoms;
    Create: lock, 3×(mkdir, category), Year, file, reload, unlock = 11 atoms; Destroy: root.removeSubDir -/
def raceSched : List Nat := List.replicate 13 0 ++ List.replicate 11 1 ++ [0]

theorem C17_cex_race :
    ∃ fin, raceSys.run raceSched = some fin ∧
      fin.threads = [.done .ok, .done .ok] ∧
      diskYears fin.sh = [(["A", "1H", "Z"], 2026)] ∧
      catalogYears fin.sh = [] ∧
      CatalogConc.consistent fin.sh = false := by
  refine ⟨(raceSys.run raceSched).get (by decide), by simp, ?_, ?_, ?_, ?_⟩ <;> decide

/-- the sequential orders of the same two requests are consistent (the defect is the interleaving) -/
theorem C17_race_pair_sequential_ok :
    CatalogConc.consistent (runSeq 1 40 (runSeq 0 40 raceSys)).sh = true ∧
    CatalogConc.consistent (runSeq 0 40 (runSeq 1 40 raceSys)).sh = true := by decide

/-- The pair DESIGN F20 was about — a write adding a new year file (`GetSubDirectoryAndAddFile`)
    against `AddTimeBucket` on the same symbol: under EVERY enabled interleaving both succeed and
    the catalog is consistent (the root lock serialises them: there are exactly two runs). -/
def f20Sys : Sys := ⟨[.mkAddYear ["A", "1Min", "X"] 2020, .mkCreate ["A", "1H", "Z"] defaultCats' 2026 0], sh0⟩

theorem C17_addfile_vs_create_all_schedules :
    (explore 40 f20Sys).length = 2 ∧
    (explore 40 f20Sys).all (fun s => s.finished && CatalogConc.consistent s.sh &&
        s.threads == [.done .ok, .done .ok]) = true := by decide

/-! ## All schedules (reachable state graph, closed under the step relation) -/

/-- Destroy A/1Min/X ‖ Create B/1H/Z: requests on DIFFERENT symbols -/
def diffSys : Sys := ⟨[.mkDestroy ["A", "1Min", "X"], .mkCreate ["B", "1H", "Z"] defaultCats' 2026 0], sh0⟩
def diffReach : List Sys := bfs 60 [diffSys] [diffSys]
def sameReach : List Sys := bfs 60 [raceSys] [raceSys]

set_option maxRecDepth 100000 in
theorem diffReach_ok : closed diffReach = true ∧
    (diffReach.filter terminal).all (fun s => s.finished && CatalogConc.consistent s.sh &&
      s.threads == [.done .ok, .done .ok]) = true := by decide +kernel

/-- the only inconsistent terminal state of Destroy ‖ Create on the same symbol is the finding -/
def raceOutcome (s : Sys) : Bool :=
  s.threads == [.done .ok, .done .ok] && catalogYears s.sh == [] && diskYears s.sh == [(["A", "1H", "Z"], 2026)]

set_option maxRecDepth 100000 in
theorem sameReach_ok : closed sameReach = true ∧
    (sameReach.filter terminal).all (fun s => s.finished && (CatalogConc.consistent s.sh || raceOutcome s)) = true ∧
    (sameReach.filter terminal).any raceOutcome = true := by decide +kernel

/-- partial theorem, concurrent: for EVERY schedule (any length) of a Destroy and a Create on
    different symbols, when no step is enabled any more both requests have succeeded and the
    catalog is consistent with the disk (no deadlock, no inconsistency). -/
theorem C17_conc_partial_different_symbols (sched : List Nat) (fin : Sys)
    (h : diffSys.run sched = some fin) (ht : terminal fin = true) :
    fin.finished = true ∧ CatalogConc.consistent fin.sh = true ∧ fin.threads = [.done .ok, .done .ok] := by
  have hmem : fin ∈ diffReach :=
    run_mem_of_closed diffReach_ok.1 sched diffSys fin (mem_bfs_of_mem _ _ _ (by simp)) h
  have := (List.all_eq_true.1 diffReach_ok.2) fin (List.mem_filter.2 ⟨hmem, ht⟩)
  simp only [Bool.and_eq_true, beq_iff_eq] at this
  exact ⟨this.1.1, this.1.2, this.2⟩

/-- same symbol: every schedule terminates with both requests finished, and the ONLY way to end
    inconsistent is the outcome of `C17_cex_race` (both succeeded, bucket on disk, not in the catalog) -/
theorem C17_conc_same_symbol_outcomes (sched : List Nat) (fin : Sys)
    (h : raceSys.run sched = some fin) (ht : terminal fin = true) :
    fin.finished = true ∧ (CatalogConc.consistent fin.sh = true ∨ raceOutcome fin = true) := by
  have hmem : fin ∈ sameReach :=
    run_mem_of_closed sameReach_ok.1 sched raceSys fin (mem_bfs_of_mem _ _ _ (by simp)) h
  have := (List.all_eq_true.1 sameReach_ok.2.1) fin (List.mem_filter.2 ⟨hmem, ht⟩)
  simp only [Bool.and_eq_true, Bool.or_eq_true] at this
  exact this

end Race

end Mkts.Props.C17
