import Mkts.Lemmas.Sql
/-!
ColumnSeries algebra for C20: `csOfRows`, `RestrictLength`, `Project`, the post-filter with an
empty predicate group, and the store-level effect of INSERT INTO.
-/
namespace Mkts.Sql
open Mkts.Store Mkts.Time Mkts.Bytes

theorem restrictLength_csOfRows (cols : List ColDef) (rows : List Row) (n : Nat) :
    (csOfRows cols rows).restrictLength n = csOfRows cols (rows.take n) := by
  simp [CS.restrictLength, csOfRows, List.map_take, Function.comp]

theorem postFilter_nil (cols : List ColDef) (rows : List Row) : postFilter cols [] rows = rows := by
  rw [postFilter_eq_filter cols [] rows]
  apply List.filter_eq_self.mpr
  intro r _
  simp [keepRow, keepCols, Group.get]

theorem applyHist_snoc (tf : Int) (hist : List (List Row)) (req : List Row) :
    applyCmds (applyHist tf hist) (writeRecords tf req) = applyHist tf (hist ++ [req]) := by
  simp [applyHist, List.foldl_append]

/-! ### Project -/

theorem project_names (cs : CS) (keep : List String) (h : ∀ n ∈ keep, (cs.get n).isSome) :
    (cs.project keep).names = keep := by
  simp only [CS.project]
  apply List.filter_eq_self.mpr
  intro n hn
  exact h n hn

theorem find?_filterMap_of_mem (f : String → Option (List Bytes)) (l : List String) (n : String)
    (hn : n ∈ l) (d : List Bytes) (hd : f n = some d) :
    (l.filterMap (fun m => (f m).map (fun x => (m, x)))).find? (fun e => e.1 == n) = some (n, d) := by
  induction l with
  | nil => cases hn
  | cons a t ih =>
    by_cases ha : a = n
    · subst ha
      simp [List.filterMap_cons, hd]
    · have hnt : n ∈ t := by
        rcases List.mem_cons.mp hn with h | h
        · exact absurd h.symm ha
        · exact h
      have hab : (a == n) = false := by simpa using ha
      cases hga : f a with
      | none => simp only [List.filterMap_cons, hga, Option.map_none]; exact ih hnt
      | some da =>
        simp only [List.filterMap_cons, hga, Option.map_some, List.find?_cons, hab]
        exact ih hnt

/-- projection keeps, for every requested column, exactly that column's data -/
theorem project_get (cs : CS) (keep : List String) (n : String) (hn : n ∈ keep) (d : List Bytes)
    (hd : cs.get n = some d) : (cs.project keep).get n = some d := by
  have hmem : n ∈ (keep.filter (fun n => (cs.get n).isSome)).eraseDups := by
    rw [List.mem_eraseDups]
    exact List.mem_filter.mpr ⟨hn, by simp [hd]⟩
  have := find?_filterMap_of_mem cs.get _ n hmem d hd
  simp only [CS.project, CS.get] at this ⊢
  rw [this]
  rfl

/-! ### one-pass projection with aliases -/

def CSB.get (b : CSB) (n : String) : Option (List Bytes) := (b.cols.find? (fun e => e.1 == n)).map (·.2)

theorem csb_any_false (b : CSB) (name : String) (hk : b.cols.map (·.1) = b.names) (hn : name ∉ b.names) :
    b.cols.any (fun e => e.1 == name) = false := by
  rw [List.any_eq_false]
  intro e he
  have : e.1 ∈ b.names := hk ▸ List.mem_map.mpr ⟨e, he, rfl⟩
  have hne : e.1 ≠ name := fun h => hn (h ▸ this)
  simpa using hne

theorem csb_find_none (b : CSB) (name : String) (hk : b.cols.map (·.1) = b.names) (hn : name ∉ b.names) :
    b.cols.find? (fun e => e.1 == name) = none := by
  rw [List.find?_eq_none]
  intro e he
  have : e.1 ∈ b.names := hk ▸ List.mem_map.mpr ⟨e, he, rfl⟩
  have hne : e.1 ≠ name := fun h => hn (h ▸ this)
  simpa using hne

/-- adding a column under a name that is not yet present: appended, nothing else changes -/
theorem addColumn_fresh (b : CSB) (name : String) (d : List Bytes)
    (hk : b.cols.map (·.1) = b.names) (hn : name ∉ b.names) :
    b.addColumn name d = { b with names := b.names ++ [name], cols := b.cols ++ [(name, d)] } := by
  unfold CSB.addColumn
  rw [csb_any_false b name hk hn]
  simp

theorem projectFold_spec (cs : CS) (items : List Item) (b : CSB)
    (hk : b.cols.map (·.1) = b.names)
    (hnd : (b.names ++ items.map Item.out).Nodup)
    (hsrc : ∀ it ∈ items, (cs.get it.name).isSome) :
    ∃ b', items.foldl (projectStep cs) (some b) = some b' ∧
      b'.names = b.names ++ items.map Item.out ∧ b'.cols.map (·.1) = b'.names ∧
      (∀ n, n ∈ b.names → b'.get n = b.get n) ∧
      (∀ it ∈ items, b'.get it.out = cs.get it.name) := by
  induction items generalizing b with
  | nil => exact ⟨b, rfl, by simp, hk, fun _ _ => rfl, by simp⟩
  | cons it rest ih =>
    have hsome := hsrc it (by simp)
    cases hd : cs.get it.name with
    | none => simp [hd] at hsome
    | some d =>
      have hfresh : it.out ∉ b.names := by
        intro hin
        simp only [List.map_cons] at hnd
        have := (List.nodup_append.mp hnd).2.2 it.out hin it.out (by simp)
        exact this rfl
      have hb1 := addColumn_fresh b it.out d hk hfresh
      have hk1 : (b.addColumn it.out d).cols.map (·.1) = (b.addColumn it.out d).names := by
        rw [hb1]; simp [hk]
      have hnd1 : ((b.addColumn it.out d).names ++ rest.map Item.out).Nodup := by
        rw [hb1]; simpa [List.append_assoc] using hnd
      obtain ⟨b', hfold, hnames, hkeys, hold, hnew⟩ :=
        ih (b.addColumn it.out d) hk1 hnd1 (fun x hx => hsrc x (List.mem_cons_of_mem _ hx))
      refine ⟨b', ?_, ?_, hkeys, ?_, ?_⟩
      · simp only [List.foldl_cons, projectStep, hd]; exact hfold
      · rw [hnames, hb1]; simp
      · intro n hn
        rw [hold n (by rw [hb1]; simp [hn])]
        rw [hb1]
        simp only [CSB.get, List.find?_append]
        cases hf : b.cols.find? (fun e => e.1 == n) with
        | some e => simp
        | none =>
          exfalso
          rw [List.find?_eq_none] at hf
          have : n ∈ b.cols.map (·.1) := hk ▸ hn
          obtain ⟨e, he, hen⟩ := List.mem_map.mp this
          exact hf e he (by simp [hen])
      · intro x hx
        rcases List.mem_cons.mp hx with h | h
        · subst h
          rw [hold x.out (by rw [hb1]; simp), hb1]
          simp only [CSB.get, List.find?_append, csb_find_none b x.out hk hfresh]
          simp [hd]
        · exact hnew x h

/-- **one-pass projection law**: when the output names (alias or own name) are pairwise distinct
    and every item names an existing column, the result lists exactly the output names in select-list
    order and each output column carries the data of its source column — also when an alias is the
    name of another selected column. -/
theorem projectOnePass_spec (cs : CS) (items : List Item)
    (hnd : (items.map Item.out).Nodup) (hsrc : ∀ it ∈ items, (cs.get it.name).isSome) :
    ∃ out, projectOnePass cs items = some out ∧ out.names = items.map Item.out ∧
      ∀ it ∈ items, out.get it.out = cs.get it.name := by
  obtain ⟨b', hfold, hnames, _, _, hnew⟩ := projectFold_spec cs items ({} : CSB) rfl (by simpa using hnd) hsrc
  refine ⟨b'.toCS, ?_, ?_, ?_⟩
  · unfold projectOnePass; rw [hfold]; rfl
  · simpa [CSB.toCS] using hnames
  · intro it hit; exact hnew it hit

end Mkts.Sql
