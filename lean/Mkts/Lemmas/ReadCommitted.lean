import Mkts.Model.ReadCommitted
/-! Lemmas for C18: the writer machine only ever appends to the data area unless it is in the
middle of a continuation write; slices inside the old bounds survive appends. -/
namespace Mkts.RC

variable (c : Codec) (recLen : Nat)

theorem iter_succ' (n : Nat) (s : WState) : iter c recLen (n + 1) s = wstep c recLen (iter c recLen n s) := by
  induction n generalizing s with
  | zero => rfl
  | succ n ih => simp only [iter] at ih ⊢; exact ih (wstep c recLen s)

theorem iter_add (a d : Nat) (s : WState) : iter c recLen (a + d) s = iter c recLen d (iter c recLen a s) := by
  induction a generalizing s with
  | zero => simp [iter]
  | succ a ih =>
    have : a + 1 + d = (a + d) + 1 := by omega
    rw [this]; simp only [iter]; exact ih (wstep c recLen s)

/-- every slot triple points inside the data area -/
def InB (f : VFile) : Prop := ∀ e ∈ f.idx, e.off + e.len ≤ f.data.length

def WInv (s : WState) : Prop :=
  InB s.file ∧ ∀ e ip, s.pending = some (e, ip) → e.off + e.len ≤ s.file.data.length

theorem pwrite_length_ge (d : Bytes) (off : Nat) (b : Bytes) (h : off ≤ d.length) :
    d.length ≤ (pwrite d off b).length ∧ off + b.length ≤ (pwrite d off b).length := by
  unfold pwrite
  simp only [List.length_append, List.length_take, List.length_drop, Nat.min_eq_left h]
  omega

theorem pwrite_at_end (d b : Bytes) : pwrite d d.length b = d ++ b := by
  unfold pwrite
  simp [List.drop_eq_nil_of_le]

theorem mem_upsert {e x : Entry} {l : List Entry} (h : x ∈ upsert e l) : x = e ∨ x ∈ l := by
  induction l with
  | nil => simp [upsert] at h; exact Or.inl h
  | cons y rest ih =>
    simp only [upsert] at h
    split at h
    · simp at h; rcases h with h | h
      · exact Or.inl h
      · exact Or.inr (List.mem_cons_of_mem _ h)
    · split at h
      · simp at h; rcases h with h | h | h
        · exact Or.inl h
        · exact Or.inr (by simp [h])
        · exact Or.inr (List.mem_cons_of_mem _ h)
      · simp at h; rcases h with h | h
        · exact Or.inr (by simp [h])
        · rcases ih h with h' | h'
          · exact Or.inl h'
          · exact Or.inr (List.mem_cons_of_mem _ h')

theorem lookup_mem {slot : Nat} {l : List Entry} {e : Entry} (h : lookup slot l = some e) : e ∈ l := by
  induction l with
  | nil => simp [lookup] at h
  | cons x rest ih =>
    simp only [lookup] at h
    split at h
    · injection h with h; simp [h]
    · exact List.mem_cons_of_mem _ (ih h)

/-- what the data write does to the file -/
theorem varWriteData_spec {f f' : VFile} {w : Write} {e : Entry} {ip : Bool} (hb : InB f)
    (h : varWriteData c recLen f w = some (f', e, ip)) :
    f'.idx = f.idx ∧ f.data.length ≤ f'.data.length ∧ e.off + e.len ≤ f'.data.length ∧
    (ip = false → f.data <+: f'.data) := by
  unfold varWriteData at h
  cases hcur : lookup w.slot f.idx with
  | none =>
    simp only [hcur] at h
    injection h with h; injection h with h1 h2; injection h2 with h2 h3
    subst h1; subst h2; subst h3
    refine ⟨rfl, ?_, ?_, fun _ => ?_⟩
    · simp [pwrite_at_end]
    · simp [pwrite_at_end]
    · simp [pwrite_at_end]
  | some cur =>
    simp only [hcur] at h
    cases hdec : c.dec (slice f.data cur.off cur.len) with
    | none => simp [hdec] at h
    | some o =>
      simp only [hdec] at h
      injection h with h; injection h with h1 h2; injection h2 with h2 h3
      subst h1; subst h2; subst h3
      have hin := hb cur (lookup_mem hcur)
      by_cases heq : (cur.off + cur.len == f.data.length) = true
      · simp only [heq, if_true]
        have hoff : cur.off ≤ f.data.length := by omega
        have := pwrite_length_ge f.data cur.off (c.enc (sortRecs recLen (o ++ w.recs))) hoff
        exact ⟨trivial, this.1, this.2, fun hf => by simp at hf⟩
      · have heq' : (cur.off + cur.len == f.data.length) = false := by simpa using heq
        simp only [heq', Bool.false_eq_true, if_false]
        refine ⟨trivial, ?_, ?_, fun _ => ?_⟩ <;> simp [pwrite_at_end]

theorem WInv_wstep {s : WState} (h : WInv s) : WInv (wstep c recLen s) := by
  unfold wstep
  cases hp : s.pending with
  | some p =>
    obtain ⟨e, ip⟩ := p
    refine ⟨?_, by simp⟩
    intro x hx
    simp only [varWriteIdx] at hx
    rcases mem_upsert hx with h1 | h1
    · subst h1; exact h.2 _ _ hp
    · exact h.1 x h1
  | none =>
    cases hq : s.queue with
    | nil => simp only [hp, hq]; exact h
    | cons w rest =>
      cases hv : varWriteData c recLen s.file w with
      | none => simp only [hv]; exact ⟨h.1, by simp [hp]⟩
      | some r =>
        obtain ⟨f', e, ip⟩ := r
        simp only [hv]
        obtain ⟨h1, h2, h3, _⟩ := varWriteData_spec c recLen h.1 hv
        refine ⟨?_, ?_⟩
        · intro x hx; simp only [h1] at hx; exact Nat.le_trans (h.1 x hx) h2
        · intro e' ip' he; simp at he; rw [← he.1]; exact h3

theorem WInv_iter (n : Nat) {s : WState} (h : WInv s) : WInv (iter c recLen n s) := by
  induction n generalizing s with
  | zero => exact h
  | succ n ih => simp only [iter]; exact ih (WInv_wstep c recLen h)

/-- a step that does not end in the middle of a continuation write only appends to the data area -/
theorem wstep_prefix {s : WState} (h : WInv s) (hm : (wstep c recLen s).inPlaceMid = false) :
    s.file.data <+: (wstep c recLen s).file.data ∧
    ((wstep c recLen s).pending.isSome = true → s.pending = none ∧ (wstep c recLen s).file.idx = s.file.idx) := by
  unfold wstep at hm ⊢
  cases hp : s.pending with
  | some p =>
    obtain ⟨e, ip⟩ := p
    simp only [varWriteIdx]
    exact ⟨List.prefix_refl _, by simp⟩
  | none =>
    cases hq : s.queue with
    | nil => simp only [hp]; exact ⟨List.prefix_refl _, by simp [hp]⟩
    | cons w rest =>
      cases hv : varWriteData c recLen s.file w with
      | none => simp only [hv]; exact ⟨List.prefix_refl _, by simp [hp]⟩
      | some r =>
        obtain ⟨f', e, ip⟩ := r
        simp only [hp, hq, hv, WState.inPlaceMid] at hm
        simp only [hv]
        obtain ⟨h1, _, _, h4⟩ := varWriteData_spec c recLen h.1 hv
        exact ⟨h4 hm, fun _ => ⟨trivial, h1⟩⟩

theorem window_prefix (n : Nat) {s : WState} (h : WInv s)
    (hm : ∀ m, 1 ≤ m → m ≤ n → (iter c recLen m s).inPlaceMid = false) :
    s.file.data <+: (iter c recLen n s).file.data := by
  induction n with
  | zero => exact List.prefix_refl _
  | succ n ih =>
    have h1 := ih (fun m h1 h2 => hm m h1 (by omega))
    rw [iter_succ']
    have h2 := (wstep_prefix c recLen (WInv_iter c recLen n h)
      (by rw [← iter_succ']; exact hm (n + 1) (by omega) (by omega))).1
    exact List.IsPrefix.trans h1 h2

theorem slice_prefix {d d' : Bytes} (hp : d <+: d') {off len : Nat} (h : off + len ≤ d.length) :
    slice d' off len = slice d off len := by
  obtain ⟨t, rfl⟩ := hp
  unfold slice
  rw [List.drop_append_of_le_length (by omega), List.take_append_of_le_length (by simp; omega)]

theorem readBlob_prefix {d d' : Bytes} (hp : d <+: d') {e : Entry} (h : e.off + e.len ≤ d.length) :
    readBlob c recLen d' e = readBlob c recLen d e := by
  have hl : d.length ≤ d'.length := hp.length_le
  unfold readBlob
  rw [slice_prefix hp h]
  have h1 : ¬ (e.off + e.len > d.length) := by omega
  have h2 : ¬ (e.off + e.len > d'.length) := by omega
  simp [h1, h2]

theorem readWith_congr (base : Bytes) (datas : Nat → Bytes) (hd : ∀ j, base <+: datas j) :
    ∀ (entries : List Entry) (j0 : Nat), (∀ e ∈ entries, e.off + e.len ≤ base.length) →
      readWith c recLen datas j0 entries = readWith c recLen (fun _ => base) j0 entries := by
  intro entries
  induction entries with
  | nil => intro j0 _; rfl
  | cons e rest ih =>
    intro j0 hb
    simp only [readWith]
    rw [readBlob_prefix c recLen (hd j0) (hb e (by simp)), ih (j0 + 1) (fun x hx => hb x (by simp [hx]))]

end Mkts.RC
