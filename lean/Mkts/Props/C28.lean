import Mkts.Lemmas.WalCodec
import Mkts.Extracted.Facts
/-!
# C28 — WAL transaction records round-trip

Model: `Mkts.WalCodec.serializeTG / parseTGData / dsvToBytes / dsvFromBytes` (executor/wal.go,
utils/io/datashape.go).  The round trip holds exactly when every length fits the Go conversion
type at its `Serialize` call site (`WidthOk`); outside it the code wraps and the decoder
mis-parses or panics (counterexample theorems, reproduced on the real code by the harness).
-/
namespace Mkts.Props.C28
open Mkts.Bytes Mkts.WalCodec

/-- what Go's static types guarantee about a transaction group handed to `serializeTG` -/
def TGTypeOk (tgID : Int) (cs : List WriteCommand) : Prop :=
  (-2 ^ 63 ≤ tgID ∧ tgID < 2 ^ 63) ∧ (∀ c ∈ cs, TypeOk c) ∧ (cs.length : Int) * wtSetSize ≤ maxAlloc

/-- the property at full strength: every transaction group the types admit round-trips -/
def C28_full : Prop :=
  ∀ (tgID : Int) (cs : List WriteCommand), TGTypeOk tgID cs →
    parseTGData (serializeTG tgID cs) = .ok (tgID, cs.map toWTSet)

/-- **C28 (partial)**: round trip for every transaction group whose lengths fit the field widths -/
theorem C28_partial (tgID : Int) (cs : List WriteCommand) (ht : TGTypeOk tgID cs)
    (hw : ∀ c ∈ cs, WidthOk c) :
    parseTGData (serializeTG tgID cs) = .ok (tgID, cs.map toWTSet) := by
  obtain ⟨hid, htc, hcnt⟩ := ht
  have hidr : leDecodeInt (leInt tgIDLenBytes tgID) = tgID :=
    leDecodeInt_leInt _ _ (by simp [tgIDLenBytes]; omega) (by simp [tgIDLenBytes]; omega)
  have hmax : (cs.length : Int) * 88 ≤ 281474976710656 := by simpa [wtSetSize, maxAlloc] using hcnt
  have hcr : leDecodeInt (leInt wtCountLenBytes cs.length) = cs.length :=
    leDecodeInt_leInt _ _ (by simp [wtCountLenBytes]; omega) (by simp [wtCountLenBytes]; omega)
  unfold parseTGData serializeTG
  rw [List.append_assoc, takeN_append' (leInt tgIDLenBytes tgID) _ _ (by simp [leInt_length])]
  simp only
  rw [takeN_append' (leInt wtCountLenBytes _) _ _ (by simp [leInt_length])]
  simp only
  rw [hcr, hidr]
  have hmk : makeWTSetsPanics (cs.length : Int) = false := by
    simp only [makeWTSetsPanics, wtSetSize, maxAlloc, Bool.or_eq_false_iff, decide_eq_false_iff_not]
    exact ⟨by omega, decide_eq_false (by omega)⟩
  rw [hmk]
  simp only [Bool.false_eq_true, if_false, Int.toNat_natCast]
  have := parseWTSets_serialize cs [] (fun c hc => ⟨htc c hc, hw c hc⟩)
  rw [List.append_nil] at this
  rw [this]

/-- each decoded field is the original one: record type, key (hence target file, for every root),
offset, index, payload, data length, variable record length and column schema -/
theorem C28_fields (c : WriteCommand) (ht : TypeOk c) (root : Bytes) :
    (toWTSet c).recordType = c.recordType ∧
    fullPath root (toWTSet c).key = fullPath root c.path ∧
    oibOffset (toWTSet c).buffer = c.offset ∧
    oibIndex (toWTSet c).buffer = c.index ∧
    oibPayload (toWTSet c).buffer = c.data ∧
    (toWTSet c).dataLen = c.data.length ∧
    (toWTSet c).varRecLen = c.varRecLen ∧
    (toWTSet c).shapes = c.shapes := by
  have ho : leDecodeInt (leInt 8 c.offset) = c.offset :=
    leDecodeInt_leInt _ _ (by have := ht.off; simp; omega) (by have := ht.off; simp; omega)
  have hi : leDecodeInt (leInt 8 c.index) = c.index :=
    leDecodeInt_leInt _ _ (by have := ht.idx; simp; omega) (by have := ht.idx; simp; omega)
  refine ⟨rfl, rfl, ?_, ?_, ?_, rfl, rfl, rfl⟩
  · simp only [toWTSet, cmdBuffer, oibOffset, offsetBytes, indexBytes, List.append_assoc]
    rw [List.take_left' (leInt_length 8 _), ho]
  · simp only [toWTSet, cmdBuffer, oibIndex, offsetBytes, indexBytes, List.append_assoc]
    rw [List.drop_left' (leInt_length 8 _), List.take_left' (leInt_length 8 _), hi]
  · simp only [toWTSet, cmdBuffer, oibPayload, offsetBytes, indexBytes]
    rw [List.drop_left' (by simp [leInt_length])]

/-- the buffers handed to the primary-store writer (`writesPerFile`) are exactly the decoded
`(key, buffer)` pairs: replaying the WAL record performs the same writes as the original flush -/
theorem C28_primary_equals_wal (tgID : Int) (cs : List WriteCommand) (ht : TGTypeOk tgID cs)
    (hw : ∀ c ∈ cs, WidthOk c) :
    (parseTGData (serializeTG tgID cs)).map (fun r => r.2.map (fun w => (w.key, w.buffer))) =
      .ok (writesPerFile cs) := by
  rw [C28_partial tgID cs ht hw]
  simp [Except.map, writesPerFile, toWTSet, Function.comp_def]

/-- the field widths used by the model are the constants of `ParseTGData` in the source tree -/
theorem C28_widths_extracted :
    (recordTypeBytes : Int) = Mkts.Extracted.executor_recordLenLenBytes ∧
    (fpLenBytes : Int) = Mkts.Extracted.executor_fpLenLenBytes ∧
    (dataLenBytes : Int) = Mkts.Extracted.executor_dataLenLenBytes ∧
    (varRecLenBytes : Int) = Mkts.Extracted.executor_varRecLenLenBytes ∧
    (offsetBytes : Int) = Mkts.Extracted.executor_offsetLenBytes ∧
    (indexBytes : Int) = Mkts.Extracted.executor_indexLenBytes ∧
    (tgIDLenBytes : Int) = Mkts.Extracted.executor_tgIDLenBytes ∧
    (wtCountLenBytes : Int) = Mkts.Extracted.executor_wtCountLenBytes := by decide

/-! ## non-vacuity -/

def okCmd : WriteCommand :=
  { recordType := 0, path := [65, 47, 49, 77, 47, 79, 47, 50, 48, 50, 48, 46, 98, 105, 110],
    varRecLen := 0, offset := 37024, index := 1, data := [1, 2, 3, 4],
    shapes := [⟨[69, 112, 111, 99, 104], 4⟩, ⟨[79], 0⟩] }

theorem okCmd_type : TypeOk okCmd := by
  refine ⟨by decide, by decide, by decide, by decide, ?_⟩
  intro d hd; simp [okCmd] at hd; rcases hd with rfl | rfl <;> decide

theorem okCmd_width : WidthOk okCmd := by
  refine ⟨by decide, by decide, by decide, by decide, by decide, ?_⟩
  intro d hd; simp [okCmd] at hd; rcases hd with rfl | rfl <;> decide

example : parseTGData (serializeTG 7 [okCmd, okCmd]) = .ok (7, [toWTSet okCmd, toWTSet okCmd]) :=
  C28_partial 7 [okCmd, okCmd]
    ⟨by decide, by intro c hc; simp at hc; subst hc; exact okCmd_type, by decide⟩
    (by intro c hc; simp at hc; subst hc; exact okCmd_width)

/-! ## counterexamples: the widths wrap -/

def sh (n : Nat) : DataShape := ⟨List.replicate n 65, 0⟩
def cmdWith (shapes : List DataShape) : WriteCommand := { okCmd with shapes := shapes }

/-- a command without column schema: nothing is written for it, the decoder reads past the end -/
theorem C28_cex_cols0 :
    parseTGData (serializeTG 7 [cmdWith []]) = .error .slice := by decide

set_option maxRecDepth 8000 in
/-- … and when another command follows, its record-type byte is consumed as a column count -/
theorem C28_cex_cols0_shift :
    parseTGData (serializeTG 7 [cmdWith [], okCmd]) ≠ .ok (7, [toWTSet (cmdWith []), toWTSet okCmd]) := by
  decide

/-- `VarRecLen` is a Go `int` but is written as `int32`: 2^32+5 decodes as 5 -/
theorem C28_cex_varreclen :
    parseTGData (serializeTG 7 [{ okCmd with varRecLen := 4294967301 }]) =
      .ok (7, [{ toWTSet okCmd with varRecLen := 5 }]) := by decide

set_option maxRecDepth 100000 in
/-- a 300-byte column name: its length byte is 44, the rest of the name is parsed as further fields -/
theorem C28_cex_name300 :
    parseTGData (serializeTG 7 [cmdWith [sh 300]]) = .ok (7, [{ toWTSet okCmd with shapes := [⟨List.replicate 44 65, 65⟩] }]) := by
  decide

set_option maxRecDepth 100000 in
/-- 256 columns: `uint8(256) = 0`, so no schema at all is written (as for 0 columns) -/
theorem C28_cex_cols256 :
    parseTGData (serializeTG 7 [cmdWith (List.replicate 256 (sh 1))]) = .error .slice := by
  decide

set_option maxRecDepth 100000 in
/-- 300 columns: the count byte is 44, so 44 columns are decoded and 256 are left over … -/
theorem C28_cex_cols300 :
    parseTGData (serializeTG 7 [cmdWith (List.replicate 300 (sh 1))]) =
      .ok (7, [{ toWTSet okCmd with shapes := List.replicate 44 (sh 1) }]) := by
  decide

/-- every transaction group whose first command has a key path of 32768…65535 bytes makes
`ParseTGData` panic (negative `int16` length) -/
theorem C28_cex_longpath (tgID : Int) (c : WriteCommand) (cs : List WriteCommand)
    (hn : ((c :: cs).length : Int) * wtSetSize ≤ maxAlloc)
    (h1 : 2 ^ 15 ≤ c.path.length) (h2 : c.path.length < 2 ^ 16) :
    parseTGData (serializeTG tgID (c :: cs)) = .error .slice := by
  have hmax : ((cs.length : Int) + 1) * 88 ≤ 281474976710656 := by simpa [wtSetSize, maxAlloc] using hn
  have hcr : leDecodeInt (leInt wtCountLenBytes (c :: cs).length) = (c :: cs).length :=
    leDecodeInt_leInt _ _ (by simp [wtCountLenBytes]; omega) (by simp [wtCountLenBytes]; omega)
  have hl : (((c :: cs).length : Nat) : Int) = (cs.length : Int) + 1 := by simp
  unfold parseTGData serializeTG
  rw [List.append_assoc, takeN_append' (leInt tgIDLenBytes tgID) _ _ (by simp [leInt_length])]
  simp only
  rw [takeN_append' (leInt wtCountLenBytes _) _ _ (by simp [leInt_length])]
  simp only
  rw [hcr]
  have hmk : makeWTSetsPanics ((c :: cs).length : Int) = false := by
    simp only [makeWTSetsPanics, wtSetSize, maxAlloc, Bool.or_eq_false_iff, decide_eq_false_iff_not]
    rw [hl]
    exact ⟨by omega, decide_eq_false (by omega)⟩
  rw [hmk]
  simp only [Bool.false_eq_true, if_false, Int.toNat_natCast, List.length_cons, List.map_cons,
    List.flatten_cons, parseWTSets]
  rw [parseWTSet_longpath c _ h1 h2]

theorem cmdWith_type (l : List DataShape) (h : ∀ d ∈ l, d.typ < 256) : TypeOk (cmdWith l) :=
  ⟨by simp [cmdWith, okCmd], by simp [cmdWith, okCmd], by simp [cmdWith, okCmd], by simp [cmdWith, okCmd], h⟩

set_option maxRecDepth 100000 in
/-- the full statement is false of the code (witness: one write with 300 one-letter columns) -/
theorem C28_not_full : ¬ C28_full := by
  intro h
  have := h 7 [cmdWith (List.replicate 300 (sh 1))] ⟨by decide, by
    intro c hc; rw [List.mem_singleton] at hc; subst hc
    exact cmdWith_type _ (by intro d hd; obtain ⟨_, rfl⟩ := List.mem_replicate.mp hd; decide), by decide⟩
  rw [C28_cex_cols300] at this
  exact absurd this (by decide)

end Mkts.Props.C28
