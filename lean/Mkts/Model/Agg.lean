import Mkts.Model.Timeframe
/-!
# Candle aggregation (mirrors `contrib/candler/candler.go`, `tickcandler.go`, `candlecandler.go`)

The model is parametric in the price type `P` (Go: `float32`) and the sum type `S` (Go: `float64`):
* `PriceOps.gt/lt` are Go's `>` / `<` on `float32` (false if either side is NaN);
* `SumOps.add` is Go's `+=` on `float64`, `divCount` is `sum / float64(count)`.
Theorems instantiate the comparisons with a linear order given by a key function; the driver
instantiates them with IEEE bit patterns.

Quirks kept: `AddCandle`'s result (`IsWithin`) is ignored by `Accum`, which still adds the row to the sums
and the count; the "first row" test is `OpenTime.IsZero()` (a row at Go's zero time does not latch);
open/close are replaced only on strictly earlier/later timestamps; `GetCandle` first tries the candle
of the previous row (`StartTime == Truncate(t)`), and `NewCandle` truncates the start a second time;
`Output` sorts by the map key and prints `StartTime.Unix()`.
-/
namespace Mkts.Agg
open Mkts.Time Mkts.Timeframe

structure PriceOps (P : Type) where
  gt : P → P → Bool
  lt : P → P → Bool
  zero : P

structure SumOps (S : Type) where
  zero : S
  add : S → S → S
  divCount : S → Int → S

/-- one input row: instant, the four prices handed to `AddCandle` (a tick has the same price four
    times) and the values of the summed / averaged columns (already widened to `float64`) -/
structure Row (P S : Type) where
  t : Int
  o : P
  h : P
  l : P
  c : P
  sums : List S

structure Candle (P S : Type) where
  start : Int
  op : P
  hi : P
  lo : P
  cl : P
  openTime : Int
  closeTime : Int
  sums : List S
  count : Int

/-- `NewCandle(startTime, cd, sumCols, avgCols)`; `nsums` accumulated columns start at 0 -/
def newCandle {P S : Type} (po : PriceOps P) (so : SumOps S) (cd : CandleDuration) (z : Zone) (nsums : Nat)
    (startTime : Int) : Candle P S :=
  { start := truncate cd z startTime, op := po.zero, hi := po.zero, lo := po.zero, cl := po.zero,
    openTime := goZero, closeTime := goZero, sums := List.replicate nsums so.zero, count := 0 }

/-- `Candle.AddCandle(ts, prices...)` (the boolean result is dropped by both callers) -/
def addCandle {P S : Type} (po : PriceOps P) (cd : CandleDuration) (z : Zone) (ca : Candle P S)
    (ts : Int) (o h l c : P) : Candle P S :=
  if !isWithin cd z ts ca.start then ca
  else
    let ca := if ca.openTime = goZero then { ca with op := o, hi := h, lo := l, cl := c, openTime := ts, closeTime := ts } else ca
    let ca := if ts < ca.openTime then { ca with op := o, openTime := ts } else ca
    let ca := if ts > ca.closeTime then { ca with cl := c, closeTime := ts } else ca
    let ca := if po.gt h ca.hi then { ca with hi := h } else ca
    let ca := if po.lt l ca.lo then { ca with lo := l } else ca
    ca

def addSums {S : Type} (so : SumOps S) : List S → List S → List S
  | a :: as, b :: bs => so.add a b :: addSums so as bs
  | as, [] => as
  | [], _ => []

/-- body of the `for i, t := range ts` loop of `Accum` for a candle already chosen -/
def addRow {P S : Type} (po : PriceOps P) (so : SumOps S) (cd : CandleDuration) (z : Zone)
    (ca : Candle P S) (r : Row P S) : Candle P S :=
  let ca := addCandle po cd z ca r.t r.o r.h r.l r.c
  { ca with sums := addSums so ca.sums r.sums, count := ca.count + 1 }

/-- `CandleMap` as an association list in insertion order -/
abbrev CMap (P S : Type) := List (Int × Candle P S)

def CMap.get? {P S : Type} : CMap P S → Int → Option (Candle P S)
  | [], _ => none
  | (k, c) :: rest, s => if k = s then some c else CMap.get? rest s

/-- apply `f` to the candle stored under `k`, inserting `init` first if the key is new -/
def CMap.upd {P S : Type} (m : CMap P S) (k : Int) (f : Candle P S → Candle P S) (init : Candle P S) : CMap P S :=
  match m with
  | [] => [(k, f init)]
  | (k', c) :: rest => if k' = k then (k', f c) :: rest else (k', c) :: CMap.upd rest k f init

structure State (P S : Type) where
  cmap : CMap P S
  /-- map key of the candle used for the previous row of the current `Accum` call -/
  cached : Option Int

/-- `GetCandle(t, candle)`: the map key of the candle that receives the row -/
def getCandleKey {P S : Type} (cd : CandleDuration) (z : Zone) (st : State P S) (t : Int) : Int :=
  let k := truncate cd z t
  match st.cached with
  | some kc =>
    match st.cmap.get? kc with
    | some c => if c.start = k then kc else k
    | none => k
  | none => k

/-- one iteration of the loop in `Accum` -/
def step {P S : Type} (po : PriceOps P) (so : SumOps S) (cd : CandleDuration) (z : Zone) (nsums : Nat)
    (st : State P S) (r : Row P S) : State P S :=
  let k := getCandleKey cd z st r.t
  { cmap := st.cmap.upd k (fun c => addRow po so cd z c r) (newCandle po so cd z nsums k), cached := some k }

/-- one call of `Accum` (the candle pointer starts as nil) -/
def accumChunk {P S : Type} (po : PriceOps P) (so : SumOps S) (cd : CandleDuration) (z : Zone) (nsums : Nat)
    (m : CMap P S) (rows : List (Row P S)) : CMap P S :=
  (rows.foldl (step po so cd z nsums) { cmap := m, cached := none }).cmap

/-- successive `Accum` calls on one candler -/
def accum {P S : Type} (po : PriceOps P) (so : SumOps S) (cd : CandleDuration) (z : Zone) (nsums : Nat)
    (chunks : List (List (Row P S))) : CMap P S :=
  chunks.foldl (accumChunk po so cd z nsums) []

/-- insertion into a list sorted by key (`sort.Sort(OrderedTime)`; map keys are distinct) -/
def insertByKey {α : Type} (x : Int × α) : List (Int × α) → List (Int × α)
  | [] => [x]
  | y :: ys => if x.1 ≤ y.1 then x :: y :: ys else y :: insertByKey x ys

def sortByKey {α : Type} (l : List (Int × α)) : List (Int × α) := l.foldr insertByKey []

/-- `Output()`: the candles in ascending order of their map key -/
def output {P S : Type} (m : CMap P S) : List (Candle P S) := (sortByKey m).map (·.2)

/-- `EOHLC.Epoch` = `StartTime.Unix()` -/
def Candle.epoch {P S : Type} (c : Candle P S) : Int := c.start / 1000000000

/-- averages as written by `SerializeToRowData`: `SumMap[name] / float64(Count)` -/
def Candle.avgs {P S : Type} (so : SumOps S) (c : Candle P S) : List S := c.sums.map (fun s => so.divCount s c.count)

/-- the row a `CandleCandler` reads back from an output candle (`Epoch` seconds only) -/
def candleToRow {P S : Type} (c : Candle P S) : Row P S :=
  { t := c.epoch * 1000000000, o := c.op, h := c.hi, l := c.lo, c := c.cl, sums := [] }

/-! ## composition across timeframes (C22) -/

/-- ticks → `TickCandler(cdC)` -/
def direct {P S : Type} (po : PriceOps P) (so : SumOps S) (cdC : CandleDuration) (z : Zone)
    (rows : List (Row P S)) : List (Candle P S) :=
  output (accum po so cdC z 0 [rows])

/-- ticks → `TickCandler(cdF)` → output rows → `CandleCandler(cdC)` -/
def composed {P S : Type} (po : PriceOps P) (so : SumOps S) (cdF cdC : CandleDuration) (z : Zone)
    (rows : List (Row P S)) : List (Candle P S) :=
  output (accum po so cdC z 0 [(output (accum po so cdF z 0 [rows])).map candleToRow])

/-- the duration a candle duration's windows are multiples of, when they are fixed-length blocks counted
    from Go's zero time (in UTC a `D` window is such a block of 24 h); `none` for months -/
def blockDur (cd : CandleDuration) : Option Int :=
  match cd.suffix with
  | .M => none
  | .D => some day
  | _ => some cd.duration

/-- "the fine timeframe divides the coarse one" -/
def divides (f c : CandleDuration) : Bool :=
  match blockDur f, blockDur c with
  | some df, some dc => decide (0 < df) && decide (0 < dc) && dc % df == 0
  | some df, none => decide (0 < df) && day % df == 0
  | none, _ => false

end Mkts.Agg
