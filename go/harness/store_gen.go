package main

// Scenario generators for the `store` op (fixed-length buckets): C08 (last-writer-wins),
// C11 (ranges), C12 (limits), C13 (multi-symbol / projection).

import (
	"fmt"
	"sort"
	"strings"
	"time"
)

var catalogTFs = []struct {
	name string
	ns   int64
}{
	{"1Sec", 1e9}, {"10Sec", 10e9}, {"30Sec", 30e9}, {"1Min", 60e9}, {"5Min", 300e9}, {"15Min", 900e9},
	{"30Min", 1800e9}, {"1H", 3600e9}, {"4H", 4 * 3600e9}, {"2H", 2 * 3600e9}, {"1D", 86400e9},
}

var storeFixedTypes = []struct {
	name string
	size int
}{
	{"float32", 4}, {"int32", 4}, {"float64", 8}, {"int64", 8}, {"byte", 1}, {"int16", 2},
	{"uint8", 1}, {"uint16", 2}, {"uint32", 4}, {"uint64", 8},
}

type genSchema struct {
	cols  string
	names []string
	size  int
}

func (g *Gen) schema() genSchema {
	n := 1 + g.Intn(4)
	var parts, names []string
	size := 0
	for i := 0; i < n; i++ {
		t := storeFixedTypes[g.Intn(len(storeFixedTypes))]
		nm := fmt.Sprintf("c%d", i)
		parts = append(parts, nm+"="+t.name)
		names = append(names, nm)
		size += t.size
	}
	return genSchema{strings.Join(parts, ","), names, size}
}

// timePool draws boundary-biased instants (unix seconds) for a timeframe: first/last slots of a
// year, leap day, Dec 31 -> Jan 1, interval edges, plus random instants, over 2-3 years.
func (g *Gen) timePool(tfNs int64, n int) ([]int64, []string) {
	tfS := tfNs / 1e9
	years := []int{2019, 2020, 2021}
	if g.Intn(3) == 0 {
		years = []int{1999 + g.Intn(40), 2000 + g.Intn(40)}
	}
	var pool []int64
	tags := map[string]bool{}
	for len(pool) < n {
		y := years[g.Intn(len(years))]
		ys := time.Date(y, 1, 1, 0, 0, 0, 0, time.UTC).Unix()
		ye := time.Date(y+1, 1, 1, 0, 0, 0, 0, time.UTC).Unix()
		var t int64
		switch g.Intn(9) {
		case 0:
			t = ys + g.Pick(0, 1, tfS-1, tfS, tfS+1, 2*tfS)
			tags["year_first_slots"] = true
		case 1:
			t = ye - g.Pick(1, 2, tfS, tfS+1, 2*tfS)
			tags["year_last_slots"] = true
		case 2:
			t = time.Date(y-y%4, 2, 29, g.Intn(24), g.Intn(60), g.Intn(60), 0, time.UTC).Unix()
			tags["leap_day"] = true
		case 3:
			if len(pool) > 0 { // same interval as an earlier instant (duplicate interval)
				p := pool[g.Intn(len(pool))]
				t = p - p%tfS + g.Pick(0, 1, tfS-1)
				if tfS == 86400 {
					t = p
				}
				tags["dup_interval"] = true
			} else {
				t = ys + int64(g.Intn(int(ye-ys)))
			}
		case 4: // around the 8192-record read chunk of the scanner
			t = ys + tfS*(int64(8192*(1+g.Intn(3)))+g.Pick(-2, -1, 0, 1))
			if t >= ye {
				t = ys + int64(g.Intn(int(ye-ys)))
			}
			tags["chunk_edge"] = true
		default:
			t = ys + int64(g.Intn(int(ye-ys)))
			tags["random"] = true
		}
		pool = append(pool, t)
	}
	var tl []string
	for k := range tags {
		tl = append(tl, k)
	}
	sort.Strings(tl)
	return pool, tl
}

func (g *Gen) rowsFrom(pool []int64, n int, psize int) (string, []int64) {
	var parts []string
	var ts []int64
	for i := 0; i < n; i++ {
		t := pool[g.Intn(len(pool))]
		ts = append(ts, t)
		parts = append(parts, fmt.Sprintf("%d,0,%s", t, hx(g.Bytes(psize))))
	}
	return strings.Join(parts, "+"), ts
}

func optS(v *int64) string {
	if v == nil {
		return "-"
	}
	return fmt.Sprint(*v)
}

// boundNear picks a query bound around a stored instant: (sec, nanos)
func (g *Gen) boundNear(ts []int64, tfNs int64) (int64, int64) {
	t := ts[g.Intn(len(ts))]
	tfS := tfNs / 1e9
	base := t - t%tfS
	switch g.Intn(8) {
	case 0:
		return base, 0
	case 1:
		return base - 1, 999999999
	case 2:
		return base, 1
	case 3:
		return base + tfS - 1, 999999999
	case 4:
		return base + tfS, 0
	case 5:
		y := time.Unix(t, 0).UTC().Year()
		return time.Date(y+g.Intn(2), 1, 1, 0, 0, 0, 0, time.UTC).Unix() - int64(g.Intn(2)), 0
	case 6:
		return t + int64(g.Intn(int(3*tfS+1))) - tfS, int64(g.Intn(1e9))
	}
	return t, int64(g.Intn(1e9))
}

func (g *Gen) storeScenario(focus string) (string, []string) {
	// full scans of 1Sec/10Sec/30Sec year files read hundreds of MB of holes: keep them rare
	tfi := 3 + g.Intn(len(catalogTFs)-3)
	if g.Intn(12) == 0 {
		tfi = g.Intn(3)
	} else if g.Intn(3) == 0 {
		tfi = []int{3, 10, 7}[g.Intn(3)] // 1Min, 1D, 1H more often
	}
	tf := catalogTFs[tfi]
	sc := g.schema()
	nowYear := time.Now().UTC().Year()
	key := fmt.Sprintf("S%d/%s/AG", g.Intn(3), tf.name)
	pool, tags := g.timePool(tf.ns, 4+g.Intn(10))
	tags = append(tags, "tf:"+tf.name, "focus:"+focus)
	steps := []string{fmt.Sprint(nowYear)}
	if g.Intn(4) != 0 {
		steps = append(steps, fmt.Sprintf("C:%s:f:%s", key, sc.cols))
	} else {
		tags = append(tags, "autocreate")
	}
	var all []int64
	nreq := 1 + g.Intn(4)
	qAll := fmt.Sprintf("Q:%s:-:-:-:-:-:-:-", key)
	for r := 0; r < nreq; r++ {
		nrows := 1 + g.Intn(10)
		if g.Intn(5) == 0 {
			// a large request: many commands to one file, non-adjacent duplicate intervals
			// (anything that reorders or batches the commands of one flush shows here)
			nrows = 13 + g.Intn(40)
			tags = append(tags, "bigreq")
		}
		rows, ts := g.rowsFrom(pool, nrows, sc.size)
		all = append(all, ts...)
		steps = append(steps, fmt.Sprintf("W:%s:f:%s:%s", key, sc.cols, rows))
		if g.Intn(6) == 0 {
			steps = append(steps, "R")
			tags = append(tags, "restart")
		}
		if focus == "lww" && g.Intn(2) == 0 {
			steps = append(steps, qAll)
		}
	}
	heavy := tf.ns <= 10e9 // full scans of 1Sec/10Sec year files are slow: fewer queries
	nq := 3 + g.Intn(4)
	if heavy {
		nq = 1 + g.Intn(2)
	}
	if focus == "lww" {
		steps = append(steps, qAll, "I:"+key, "L")
		nq = 1
	}
	for i := 0; i < nq; i++ {
		ss, sn, es, en, lim, dir, cols := "-", "-", "-", "-", "-", "-", "-"
		if focus == "range" || g.Intn(2) == 0 {
			if g.Intn(5) != 0 {
				a, b := g.boundNear(all, tf.ns)
				ss, sn = fmt.Sprint(a), fmt.Sprint(b)
			}
			if g.Intn(5) != 0 {
				a, b := g.boundNear(all, tf.ns)
				es, en = fmt.Sprint(a), fmt.Sprint(b)
			}
			tags = append(tags, "q:range")
		}
		if focus == "limit" || g.Intn(3) == 0 {
			lim = fmt.Sprint(1 + g.Intn(len(all)+2))
			dir = []string{"F", "L"}[g.Intn(2)]
			tags = append(tags, "q:limit"+dir)
		}
		if focus == "project" || g.Intn(5) == 0 {
			var cs []string
			for _, n := range sc.names {
				if g.Intn(2) == 0 {
					cs = append(cs, n)
				}
			}
			if g.Intn(3) == 0 {
				cs = append(cs, "nosuch")
			}
			g.R.Shuffle(len(cs), func(i, j int) { cs[i], cs[j] = cs[j], cs[i] })
			if len(cs) > 0 {
				cols = strings.Join(cs, ",")
				tags = append(tags, "q:project")
			}
		}
		steps = append(steps, fmt.Sprintf("Q:%s:%s:%s:%s:%s:%s:%s:%s", key, ss, sn, es, en, lim, dir, cols))
	}
	return "store " + strings.Join(steps, " "), tags
}

func init() {
	mk := func(focus string, quick, thorough int) func(g *Gen) {
		return func(g *Gen) {
			n := g.N(quick, thorough)
			for i := 0; i < n; i++ {
				line, tags := g.storeScenario(focus)
				g.Emit(line, tags...)
			}
		}
	}
	gens["C08"] = mk("lww", 160, 4000)
	gens["C11"] = mk("range", 250, 4000)
	gens["C12"] = mk("limit", 250, 4000)
}

// ---- variable-length buckets (C09; variable halves of C11/C12) ------------------------------

func (g *Gen) varScenario(focus string) (string, []string) {
	tfi := 3 + g.Intn(len(catalogTFs)-3)
	if g.Intn(6) == 0 {
		tfi = g.Intn(3)
	}
	tf := catalogTFs[tfi]
	sc := g.schema()
	nowYear := time.Now().UTC().Year()
	key := fmt.Sprintf("V%d/%s/TICK", g.Intn(3), tf.name)
	tags := []string{"var", "tf:" + tf.name, "focus:" + focus}
	steps := []string{fmt.Sprint(nowYear)}
	if g.Intn(4) != 0 {
		steps = append(steps, fmt.Sprintf("C:%s:v:%s", key, sc.cols))
	} else {
		tags = append(tags, "autocreate")
	}
	tfS := tf.ns / 1e9
	// a few intervals over one or two years
	years := []int{2020}
	if g.Intn(3) == 0 {
		years = append(years, 2021)
	}
	var bases []int64
	for i := 0; i < 1+g.Intn(4); i++ {
		y := years[g.Intn(len(years))]
		ys := time.Date(y, 1, 1, 0, 0, 0, 0, time.UTC).Unix()
		ye := time.Date(y+1, 1, 1, 0, 0, 0, 0, time.UTC).Unix()
		var b int64
		switch g.Intn(4) {
		case 0:
			b = ys
		case 1:
			b = ye - tfS
		default:
			b = ys + tfS*int64(g.Intn(int((ye-ys)/tfS)))
		}
		if tf.name == "1D" && b == ys { // January 1 in a 1D bucket: C08-F1
			b += tfS
		}
		bases = append(bases, b)
	}
	nanosPick := func() int64 {
		switch g.Intn(6) {
		case 0:
			return 0
		case 1:
			return 999999999 - int64(g.Intn(8))
		case 2:
			return int64(g.Intn(20))
		case 3:
			return int64(g.Intn(1000)) * 1000000
		}
		return int64(g.Intn(1e9))
	}
	constPayload := g.Bytes(sc.size)
	type wr struct{ sec, ns int64 }
	var all []wr
	nreq := 1 + g.Intn(4)
	qAll := fmt.Sprintf("Q:%s:-:-:-:-:-:-:-", key)
	big := focus == "order" && g.Intn(25) == 0
	for r := 0; r < nreq; r++ {
		n := 1 + g.Intn(12)
		if big && r == 0 {
			n = g.N(3000, 25000) // very compressible: many identical records in one interval
			tags = append(tags, "compressible_many")
		}
		var parts []string
		for i := 0; i < n; i++ {
			b := bases[g.Intn(len(bases))]
			if big && r == 0 {
				b = bases[0]
			}
			sec := b + int64(g.Intn(int(tfS)))
			ns := nanosPick()
			if len(all) > 0 && g.Intn(6) == 0 { // exact duplicate timestamp
				p := all[g.Intn(len(all))]
				sec, ns = p.sec, p.ns
				tags = append(tags, "dup_time")
			}
			pay := g.Bytes(sc.size)
			if (big && r == 0) || g.Intn(5) == 0 {
				pay = constPayload
			}
			all = append(all, wr{sec, ns})
			parts = append(parts, fmt.Sprintf("%d,%d,%s", sec, ns, hx(pay)))
		}
		steps = append(steps, fmt.Sprintf("W:%s:v:%s:%s", key, sc.cols, strings.Join(parts, "+")))
		if focus == "order" && g.Intn(2) == 0 {
			steps = append(steps, qAll)
		}
	}
	steps = append(steps, qAll)
	nq := 0
	if focus != "order" {
		nq = 3 + g.Intn(4)
	}
	for i := 0; i < nq; i++ {
		ss, sn, es, en, lim, dir, cols := "-", "-", "-", "-", "-", "-", "-"
		pick := func() (int64, int64) {
			p := all[g.Intn(len(all))]
			switch g.Intn(6) {
			case 0:
				return p.sec, p.ns
			case 1:
				return p.sec, p.ns + 1
			case 2:
				if p.ns > 0 {
					return p.sec, p.ns - 1
				}
				return p.sec - 1, 999999999
			case 3:
				return p.sec - p.sec%tfS, 0
			case 4:
				return p.sec - p.sec%tfS + tfS, 0
			}
			return p.sec + int64(g.Intn(int(2*tfS+1))) - tfS, int64(g.Intn(1e9))
		}
		if focus == "range" || g.Intn(2) == 0 {
			if g.Intn(5) != 0 {
				a, b := pick()
				ss, sn = fmt.Sprint(a), fmt.Sprint(b)
			}
			if g.Intn(5) != 0 {
				a, b := pick()
				es, en = fmt.Sprint(a), fmt.Sprint(b)
			}
			tags = append(tags, "q:range")
		}
		if focus == "limit" || g.Intn(3) == 0 {
			lim = fmt.Sprint(1 + g.Intn(len(all)+2))
			dir = []string{"F", "L"}[g.Intn(2)]
			tags = append(tags, "q:limit"+dir)
		}
		steps = append(steps, fmt.Sprintf("Q:%s:%s:%s:%s:%s:%s:%s:%s", key, ss, sn, es, en, lim, dir, cols))
	}
	return "store " + strings.Join(steps, " "), tags
}

func init() {
	gens["C09"] = func(g *Gen) {
		n := g.N(150, 4000)
		for i := 0; i < n; i++ {
			line, tags := g.varScenario("order")
			g.Emit(line, tags...)
		}
	}
	mix := func(focus string, quick, thorough int) func(g *Gen) {
		return func(g *Gen) {
			n := g.N(quick, thorough)
			for i := 0; i < n; i++ {
				if i%3 == 2 {
					line, tags := g.varScenario(focus)
					g.Emit(line, tags...)
				} else {
					line, tags := g.storeScenario(focus)
					g.Emit(line, tags...)
				}
			}
		}
	}
	gens["C11"] = mix("range", 180, 4500)
	gens["C12"] = mix("limit", 180, 4500)
}

// ---- C13: multi-symbol and column-projected queries ------------------------------------------

func (g *Gen) multiScenario() (string, []string) {
	tfi := 3 + g.Intn(len(catalogTFs)-3)
	tf := catalogTFs[tfi]
	sc := g.schema()
	nowYear := time.Now().UTC().Year()
	tags := []string{"multi", "tf:" + tf.name}
	steps := []string{fmt.Sprint(nowYear)}
	isVar := g.Intn(3) == 0
	rt, ag := "f", "AG"
	if isVar {
		rt, ag = "v", "TICK"
		tags = append(tags, "var")
	}
	nsym := 2 + g.Intn(3)
	var syms []string
	pool, _ := g.timePool(tf.ns, 6)
	if tf.name == "1D" { // keep January 1 out (C08-F1)
		for i := range pool {
			if time.Unix(pool[i], 0).UTC().YearDay() == 1 {
				pool[i] += 86400
			}
		}
	}
	var all []int64
	for i := 0; i < nsym; i++ {
		s := fmt.Sprintf("S%d", i)
		syms = append(syms, s)
		key := fmt.Sprintf("%s/%s/%s", s, tf.name, ag)
		steps = append(steps, fmt.Sprintf("C:%s:%s:%s", key, rt, sc.cols))
		if g.Intn(5) == 0 {
			tags = append(tags, "empty_symbol")
			continue // a symbol without rows
		}
		for r := 0; r < 1+g.Intn(2); r++ {
			var parts []string
			for j := 0; j < 1+g.Intn(6); j++ {
				t := pool[g.Intn(len(pool))]
				ns := int64(0)
				if isVar {
					t += int64(g.Intn(int(tf.ns / 1e9)))
					ns = int64(g.Intn(1e9))
				}
				all = append(all, t)
				parts = append(parts, fmt.Sprintf("%d,%d,%s", t, ns, hx(g.Bytes(sc.size))))
			}
			steps = append(steps, fmt.Sprintf("W:%s:%s:%s:%s", key, rt, sc.cols, strings.Join(parts, "+")))
		}
	}
	// a bucket of the same symbols under another attribute group / timeframe (must not leak in)
	steps = append(steps, fmt.Sprintf("C:S0/%s/OTHER:f:z=int64", tf.name))
	steps = append(steps, fmt.Sprintf("W:S0/%s/OTHER:f:z=int64:%d,0,%s", tf.name, pool[0], hx(g.Bytes(8))))
	if g.Intn(4) == 0 { // a symbol with other column names in the same attribute group
		steps = append(steps, fmt.Sprintf("C:SZ/%s/%s:%s:other=int32", tf.name, ag, rt))
		steps = append(steps, fmt.Sprintf("W:SZ/%s/%s:%s:other=int32:%d,0,%s", tf.name, ag, rt, pool[0], hx(g.Bytes(4))))
		syms = append(syms, "SZ")
		tags = append(tags, "schema_mismatch_symbol")
	}
	if len(all) == 0 {
		all = append(all, pool[0])
	}
	for q := 0; q < 4+g.Intn(4); q++ {
		var list []string
		switch g.Intn(5) {
		case 0:
			list = []string{"*"}
			tags = append(tags, "q:star")
		default:
			for _, s := range syms {
				if s != "SZ" && g.Intn(3) != 0 {
					list = append(list, s)
				}
			}
			if g.Intn(4) == 0 {
				list = append(list, "SX") // missing symbol
				tags = append(tags, "q:missing_symbol")
			}
			if g.Intn(8) == 0 && !isVar && len(list) > 0 {
				list = append(list, list[0]) // listed twice
				tags = append(tags, "q:dup_symbol")
			}
			if g.Intn(6) == 0 && len(syms) > 0 && syms[len(syms)-1] == "SZ" {
				list = append(list, "SZ")
			}
			g.R.Shuffle(len(list), func(i, j int) { list[i], list[j] = list[j], list[i] })
			if len(list) == 0 {
				list = []string{syms[0]}
			}
		}
		ss, sn, es, en, lim, dir, cols := "-", "-", "-", "-", "-", "-", "-"
		if g.Intn(3) == 0 {
			a, b := g.boundNear(all, tf.ns)
			ss, sn = fmt.Sprint(a), fmt.Sprint(b)
			tags = append(tags, "q:range")
		}
		if g.Intn(3) == 0 {
			a, b := g.boundNear(all, tf.ns)
			es, en = fmt.Sprint(a), fmt.Sprint(b)
		}
		if g.Intn(4) == 0 && !isVar {
			lim = fmt.Sprint(1 + g.Intn(6))
			dir = []string{"F", "L"}[g.Intn(2)]
			tags = append(tags, "q:limit")
		}
		if g.Intn(2) == 0 {
			var cs []string
			for _, n := range sc.names {
				if g.Intn(2) == 0 {
					cs = append(cs, n)
				}
			}
			if g.Intn(4) == 0 {
				cs = append(cs, "nosuch")
			}
			if g.Intn(6) == 0 && len(cs) > 0 {
				cs = append(cs, cs[0]) // duplicate column name
				tags = append(tags, "q:dup_column")
			}
			g.R.Shuffle(len(cs), func(i, j int) { cs[i], cs[j] = cs[j], cs[i] })
			if len(cs) > 0 {
				cols = strings.Join(cs, ",")
				tags = append(tags, "q:project")
			}
		}
		steps = append(steps, fmt.Sprintf("Q:%s/%s/%s:%s:%s:%s:%s:%s:%s:%s", strings.Join(list, ","), tf.name, ag, ss, sn, es, en, lim, dir, cols))
	}
	return "store " + strings.Join(steps, " "), tags
}

func init() {
	gens["C13"] = func(g *Gen) {
		n := g.N(160, 3000)
		for i := 0; i < n; i++ {
			line, tags := g.multiScenario()
			g.Emit(line, tags...)
		}
	}
}
