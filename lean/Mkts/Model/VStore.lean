import Mkts.Model.Store
import Mkts.Model.Ticks
/-!
# Storage-engine model for variable-length buckets
(`executor/writer.go` WriteRecords/formatRecord/appendIntervalTicks, WriteBufferToFileIndirect;
`executor/scanner.go` read + trimResultsToRange/Limit; `executor/readvariable.go`
readSecondStage; `executor/rewritebuffer.go` RewriteBuffer), configured zone UTC.

A bucket maps `(year file, slot index)` to the list of records of that interval, each record the
opaque payload (value columns) followed by its 32-bit interval ticks; every write to an interval
appends and re-sorts stably by ticks.  The tick encoder/decoder are parameters (`TickFns`); the
driver instantiates them with `Mkts.Ticks` (`getIntervalTicks32Bit rne`, `getTimeFromTicksFixed rne`).
Snappy is `dec ∘ enc = id` (trusted) and therefore invisible here.
-/
namespace Mkts.VStore
open Mkts.Time Mkts.Bytes Mkts.Store

structure TickFns where
  /-- `GetIntervalTicks32Bit(ts, index, intervalsPerDay)`; `ts` in unix ns -/
  enc : Int → Int → Int → Int
  /-- `GetTimeFromTicks(intervalStartEpochSeconds, intervalsPerDay, ticks)` = (second, nanosecond) -/
  dec : Int → Int → Int → Int × Int

/-- a row of a write request / of a query result -/
structure VRow where
  sec : Int
  nanos : Int
  payload : Bytes
deriving Repr, DecidableEq, BEq

def VRow.ns (r : VRow) : Int := r.sec * nsPerSec + r.nanos

/-- a stored record: payload and interval ticks -/
structure VRec where
  payload : Bytes
  ticks : Int
deriving Repr, DecidableEq, BEq

abbrev VSlots := List ((Int × Int) × List VRec)

def VSlots.get (s : VSlots) (k : Int × Int) : List VRec :=
  match s with
  | [] => []
  | (k', v) :: rest => if k' = k then v else VSlots.get rest k

def VSlots.put (s : VSlots) (k : Int × Int) (v : List VRec) : VSlots :=
  match s with
  | [] => [(k, v)]
  | (k', v') :: rest => if k' = k then (k, v) :: rest else (k', v') :: VSlots.put rest k v

/-- stable insertion by ticks (`sort.Stable(ByIntervalTicks)`): after every element with ticks ≤ -/
def insertByTicks (r : VRec) : List VRec → List VRec
  | [] => [r]
  | x :: xs => if r.ticks < x.ticks then r :: x :: xs else x :: insertByTicks r xs

def sortByTicks (l : List VRec) : List VRec := l.foldl (fun acc r => insertByTicks r acc) []

/-- a queued write command of a variable-length file: year file, slot, records in request order -/
structure VCmd where
  year : Int
  index : Int
  recs : List VRec
deriving Repr

/-- `WriteRecords` for a variable-length bucket: consecutive rows of one interval share a command -/
def writeRecordsAux (F : TickFns) (tf : Int) : List VRow → Option VCmd → List VCmd → List VCmd
  | [], cc, acc => match cc with | none => acc.reverse | some c => (c :: acc).reverse
  | r :: rest, cc, acc =>
    let t := r.ns
    let year := localYear utc t
    let index := timeToIndex utc t tf
    let rec_ : VRec := ⟨r.payload, F.enc t index (Mkts.Ticks.intervalsPerDay tf)⟩
    match cc with
    | none => writeRecordsAux F tf rest (some ⟨year, index, [rec_]⟩) acc
    | some c =>
      if index = c.index ∧ year = c.year then
        writeRecordsAux F tf rest (some { c with recs := c.recs ++ [rec_] }) acc
      else writeRecordsAux F tf rest (some ⟨year, index, [rec_]⟩) (c :: acc)

def writeRecords (F : TickFns) (tf : Int) (rows : List VRow) : List VCmd := writeRecordsAux F tf rows none []

/-- `WriteBufferToFileIndirect`: previous records of the interval ++ new ones, stably sorted by ticks -/
def applyCmd (s : VSlots) (c : VCmd) : VSlots :=
  s.put (c.year, c.index) (sortByTicks (s.get (c.year, c.index) ++ c.recs))

def applyCmds (s : VSlots) (cs : List VCmd) : VSlots := cs.foldl applyCmd s

/-! ## reading -/

def insertSortedV (k : Int × Int) (v : List VRec) : List ((Int × Int) × List VRec) → List ((Int × Int) × List VRec)
  | [] => [(k, v)]
  | (k', v') :: rest =>
    if k.1 < k'.1 ∨ (k.1 = k'.1 ∧ k.2 ≤ k'.2) then (k, v) :: (k', v') :: rest
    else (k', v') :: insertSortedV k v rest

def sortedSlotsV (s : VSlots) : List ((Int × Int) × List VRec) :=
  s.foldr (fun kv acc => insertSortedV kv.1 kv.2 acc) []

/-- second stage: the records of one interval as result rows (`RewriteBuffer`) -/
def expandSlot (F : TickFns) (tf : Int) (kv : (Int × Int) × List VRec) : List VRow :=
  let start := (indexToTime utc kv.1.2 tf kv.1.1) / nsPerSec
  kv.2.map (fun r => let d := F.dec start (Mkts.Ticks.intervalsPerDay tf) r.ticks; ⟨d.1, d.2, r.payload⟩)

/-- `trimResultsToRange` (after the repair): drop everything before the first record at or after
    `start`, and everything after the last record not after `stop` -/
def dropBefore (st : Int) : List VRow → List VRow
  | [] => []
  | r :: rest => if st ≤ r.ns then r :: rest else dropBefore st rest

def cutAfter (en : Int) (l : List VRow) : List VRow :=
  (dropBefore' en l.reverse).reverse
where
  dropBefore' (en : Int) : List VRow → List VRow
    | [] => []
    | r :: rest => if r.ns ≤ en then r :: rest else dropBefore' en rest

def trimRange (q : Query) (l : List VRow) : List VRow :=
  let l1 := match q.start with | none => l | some st => dropBefore st l
  match q.stop with | none => l1 | some en => cutAfter en l1

/-- `ExecuteQuery` on a variable-length bucket: the row limit is applied to the *index records*
    (one per interval) by the scanner, then the intervals are expanded, then the result is trimmed
    to the range and finally to the limit. -/
def query (F : TickFns) (tf : Int) (s : VSlots) (q : Query) : List VRow :=
  let inr := (sortedSlotsV s).filter (fun kv => inRange tf q kv.1.1 kv.1.2)
  let picked := match q.limit with
    | none => inr
    | some (n, true) => inr.take n
    | some (n, false) => takeLast n inr
  let rows := (picked.map (expandSlot F tf)).flatten
  let ranged := trimRange q rows
  match q.limit with
  | none => ranged
  | some (n, true) => ranged.take n
  | some (n, false) => takeLast n ranged

def applyHist (F : TickFns) (tf : Int) (hist : List (List VRow)) : VSlots :=
  hist.foldl (fun s req => applyCmds s (writeRecords F tf req)) []

/-! ## property-level checks (C09) -/

/-- one returned row can stand for one written row: same values, same interval, not later than
    written and early by less than one resolution step (+1 ns of rounding) -/
def rowMatches (tf : Int) (w o : VRow) : Bool :=
  w.payload == o.payload &&
  localYear utc w.ns == localYear utc o.ns && timeToIndex utc w.ns tf == timeToIndex utc o.ns tf &&
  decide (o.ns ≤ w.ns) && decide ((w.ns - o.ns) * 4294967296 < tf + 2 * 4294967296)

def sortedByNs : List VRow → Bool
  | [] => true
  | [_] => true
  | a :: b :: rest => decide (a.ns ≤ b.ns) && sortedByNs (b :: rest)

/-- remove the first element matching `p` -/
def removeFirst {α} (p : α → Bool) : List α → Option (List α)
  | [] => none
  | x :: xs => if p x then some xs else (removeFirst p xs).map (x :: ·)

/-- greedy bijection: every returned row consumes one written row it matches, the earliest
    written one (sufficient for interval constraints of the form `t_out ∈ (t_in − res, t_in]`) -/
def matchAll (tf : Int) : List VRow → List VRow → Bool
  | written, [] => written.isEmpty
  | written, o :: os =>
    match removeFirst (fun w => rowMatches tf w o) written with
    | none => false
    | some rest => matchAll tf rest os

def insertByNs (r : VRow) : List VRow → List VRow
  | [] => [r]
  | x :: xs => if r.ns < x.ns then r :: x :: xs else x :: insertByNs r xs

/-- C09's demand on the unrestricted query result -/
def c09ok (tf : Int) (written out : List VRow) : Bool :=
  sortedByNs out && matchAll tf (written.foldl (fun acc r => insertByNs r acc) []) out

end Mkts.VStore
