import Mkts.Props.C09
import Mkts.Props.C10
import Mkts.Props.C30
/-!
# C09 ∘ C10 ∘ C30 — the time-order clause of C09 for the tick functions of the code

`Props/C09` proves time order inside an interval for every decoder that is monotone in the ticks.
Here the hypothesis is discharged for the code's own functions (`GetIntervalTicks32Bit` and the
repaired `GetTimeFromTicks`, for every rounding operator `R : Rnd`): the ticks the encoder stores
are in `[0, 2^32)` because every row lies inside its interval (C30) and the encoder maps interval
offsets into that range (C10), and on that range the decoder is monotone (C10_decode_mono).
-/
namespace Mkts.Props.C09code
open Mkts.Props.C09 Mkts.VStore Mkts.Store Mkts.Time Mkts.Ticks

/-- the tick functions of the code for rounding operator `r` (the driver uses `r = rne`) -/
def codeF (r : ℚ → ℚ) : TickFns :=
  { enc := fun ts index ipd => getIntervalTicks32Bit r ts index ipd,
    dec := fun start ipd k => ((getTimeFromTicksFixed r start ipd k).sec, (getTimeFromTicksFixed r start ipd k).nanos) }

/-- TIME ORDER inside an interval for the code's decoder: ticks in range and sorted ⇒ the expanded
    rows are in non-decreasing time order -/
theorem C09_slot_time_order_code (R : Rnd) (tf : Int) (kv : (Int × Int) × List VRec)
    (hipd : 1 ≤ intervalsPerDay tf)
    (hs0 : 0 ≤ indexToTime utc kv.1.2 tf kv.1.1 / nsPerSec)
    (hs1 : indexToTime utc kv.1.2 tf kv.1.1 / nsPerSec + 86402 < 18446744073709551616)
    (hr : ∀ r ∈ kv.2, 0 ≤ r.ticks ∧ r.ticks < 4294967296)
    (hs : SortedT kv.2) :
    (expandSlot (codeF R.r) tf kv).Pairwise (fun a b => a.ns ≤ b.ns) := by
  unfold expandSlot
  simp only [List.pairwise_map]
  refine List.Pairwise.imp_of_mem ?_ hs
  intro a b ha hb hab
  have := C10.C10_decode_mono R _ (intervalsPerDay tf) a.ticks b.ticks hipd hs0 hs1 (hr a ha).1 hab (hr b hb).2
  simpa [VRow.ns, codeF, nsPerSec] using this

theorem jan1_succ_le (y : Int) : jan1 (y + 1) ≤ jan1 y + 366 := by unfold jan1; omega

/-- the ticks stored for a written row are in `[0, 2^32)` (sub-day timeframe of whole seconds
    dividing the day, zone UTC) -/
theorem ticks_in_range (R : Rnd) (tfs : Int) (r : VRow) (h1 : 1 ≤ tfs) (hdiv : ∃ ipd, ipd * tfs = 86400)
    (hsub : tfs * 1000000000 ≠ dayNs) :
    0 ≤ (recOf (codeF R.r) (tfs * 1000000000) r).ticks ∧
    (recOf (codeF R.r) (tfs * 1000000000) r).ticks < 4294967296 := by
  obtain ⟨ipd, hday⟩ := hdiv
  have hipd1 : 1 ≤ ipd := by nlinarith
  have htfpos : 0 < tfs * 1000000000 := by omega
  have hipd : intervalsPerDay (tfs * 1000000000) = ipd := by
    unfold intervalsPerDay dayNs
    have : ((86400 : Int) * 1000000000) = ipd * (tfs * 1000000000) := by nlinarith
    rw [this, Int.mul_tdiv_cancel _ (by omega)]
  obtain ⟨hle, hlt, hi1⟩ := C30.C30_interval utc C30.utc_coherent r.ns (tfs * 1000000000) htfpos hsub
  -- index ≤ 366 * ipd: the year has at most 366 days
  have hi2 : timeToIndex utc r.ns (tfs * 1000000000) ≤ 366 * ipd := by
    have hD : ipd * (tfs * 1000000000) = 86400000000000 := by nlinarith
    have hlen := lt_jan1_succ_yearOfDays (r.ns / 86400000000000)
    have hge := jan1_le_yearOfDays (r.ns / 86400000000000)
    have hlen2 := jan1_succ_le (yearOfDays (r.ns / 86400000000000))
    have hys := utc_yearStart (localYear utc r.ns)
    have hcoh := C30.utc_coherent.le r.ns
    have hrem := Int.lt_ediv_add_one_mul_self r.ns (show (0:Int) < 86400000000000 by omega)
    simp only [timeToIndex, beq_iff_eq, hsub, if_false]
    rw [tdiv_eq_ediv (by omega) htfpos]
    have hlt366 : r.ns - yearStart utc (localYear utc r.ns) < 366 * ipd * (tfs * 1000000000) := by
      rw [Int.mul_assoc, hD, hys]
      simp only [localYear, utc_localDays]
      omega
    have := Int.ediv_lt_of_lt_mul htfpos hlt366
    omega
  have e := C10.C10_ticks_of_offset R r.ns (timeToIndex utc r.ns (tfs * 1000000000)) ipd tfs hipd1 hday hsub hi1 hi2
    (by omega) (by omega)
  obtain ⟨_, _, _, hk0, hk1, _⟩ := encode_core R ipd tfs
    (r.ns - indexToTime utc (timeToIndex utc r.ns (tfs * 1000000000)) (tfs * 1000000000) (localYear utc r.ns)) hipd1 hday (by omega) (by omega)
  simp only [recOf, codeF, hipd]
  rw [e]
  exact ⟨hk0, hk1⟩

/-- **C09 time order for the code's tick functions, all histories**: after any sequence of write
    requests to a variable-length bucket (sub-day timeframe of whole seconds dividing the day, UTC,
    interval start representable), the rows of every interval come back in non-decreasing time order. -/
theorem C09_time_order_all (R : Rnd) (tfs : Int) (h1 : 1 ≤ tfs) (hdiv : ∃ ipd, ipd * tfs = 86400)
    (hsub : tfs * 1000000000 ≠ dayNs) (hist : List (List VRow)) (k : Int × Int)
    (hs0 : 0 ≤ indexToTime utc k.2 (tfs * 1000000000) k.1 / nsPerSec)
    (hs1 : indexToTime utc k.2 (tfs * 1000000000) k.1 / nsPerSec + 86402 < 18446744073709551616) :
    (expandSlot (codeF R.r) (tfs * 1000000000)
        (k, (VStore.applyHist (codeF R.r) (tfs * 1000000000) hist).get k)).Pairwise (fun a b => a.ns ≤ b.ns) := by
  obtain ⟨ipd, hday⟩ := hdiv
  have hipd1 : 1 ≤ ipd := by nlinarith
  have hipd : intervalsPerDay (tfs * 1000000000) = ipd := by
    unfold intervalsPerDay dayNs
    have : ((86400 : Int) * 1000000000) = ipd * (tfs * 1000000000) := by nlinarith
    rw [this, Int.mul_tdiv_cancel _ (by omega)]
  apply C09_slot_time_order_code R (tfs * 1000000000) (k, _) (by rw [hipd]; exact hipd1) hs0 hs1
  · intro r hr
    have hp := C09_slot_content (codeF R.r) (tfs * 1000000000) hist k
    have hm := hp.mem_iff.mp hr
    simp only [writtenTo, List.mem_map, List.mem_filter] at hm
    obtain ⟨row, _, rfl⟩ := hm
    exact ticks_in_range R tfs row h1 ⟨ipd, hday⟩ hsub
  · exact C09_slot_sorted (codeF R.r) (tfs * 1000000000) hist k

/-- non-vacuity: 1Min bucket, exact arithmetic -/
example : (1:Int) ≤ 60 ∧ (∃ ipd : Int, ipd * 60 = 86400) ∧ (60 : Int) * 1000000000 ≠ dayNs := by
  refine ⟨by omega, ⟨1440, by omega⟩, by decide⟩

end Mkts.Props.C09code
