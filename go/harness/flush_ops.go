package main

// C07: the write/flush rendez-vous on the REAL code.
//
//	flushsched <n> <tok>…   directed schedule: the harness plays the WAL writer loop itself
//	                        (verif hooks), so every step happens exactly where the line says
//	flushstress <writers> <rounds> <seed>   real goroutines against the real SyncWAL goroutine;
//	                        every write is followed by a read of the same row

import (
	"context"
	"fmt"
	"math/rand"
	"os"
	"strings"
	"sync"
	"sync/atomic"
	"time"

	"github.com/alpacahq/marketstore/v4/executor"
)

const flushBase = int64(1600000020) // a minute boundary in 2020

// parkSender is a ReplicationSender that parks the flush that calls it: FlushCommandsToWAL hands
// the transaction group to the sender after the WAL write + fsync and before the primary write,
// i.e. in the middle of the model's `flushing` state.
type parkSender struct{ entered, release chan struct{} }

func (p *parkSender) Run(context.Context) {}
func (p *parkSender) Send([]byte) {
	p.entered <- struct{}{}
	<-p.release
}

func flushRowStep(w int) string {
	return fmt.Sprintf("W:FS/1Min/V:f:V=int32:%d,0,%s", flushBase+60*int64(w), hx([]byte{byte(w + 1), 0, 0, 0}))
}

// visibleWriters queries the bucket and returns which writers' rows a client can see
func (in *Inst) visibleWriters(n int) []bool {
	vis := make([]bool, n)
	q := in.runStoreStep("Q:FS/1Min/V:-:-:-:-:-:-:-")
	for w := 0; w < n; w++ {
		if strings.Contains(q, fmt.Sprintf("%d,0,%s", flushBase+60*int64(w), hx([]byte{byte(w + 1), 0, 0, 0}))) {
			vis[w] = true
		}
	}
	return vis
}

func flushSchedOp(a []string) string {
	n := int(atoi(a[0]))
	if n < 0 || n > 64 {
		return "harness:bad-arg n"
	}
	root := scratchDir("fs")
	defer os.RemoveAll(root)
	in := startInst(root, nil)
	defer in.abandon()
	if r := in.runStoreStep("C:FS/1Min/V:f:V=int32"); r != "C=ok" {
		return "harness:create " + r
	}
	executor.VerifSetHaveWALWriter(true)
	defer executor.VerifSetHaveWALWriter(false)
	ps := &parkSender{make(chan struct{}), make(chan struct{})}
	in.wf.ReplicationSender = ps
	var inflight chan error // result of the flush that is under way
	parked, parkedReq := false, false
	// begin runs one arm of the writer loop until it is parked at the sender or has finished
	begin := func(f func() error) (finished bool, err error) {
		done := make(chan error, 1)
		go func() { done <- f() }()
		select {
		case <-ps.entered:
			inflight, parked = done, true
			return false, nil
		case e := <-done:
			return true, e
		}
	}
	finish := func() error {
		ps.release <- struct{}{}
		e := <-inflight
		inflight, parked = nil, false
		return e
	}
	started := make([]bool, n)
	returned := make([]atomic.Bool, n)
	results := make([]string, n)
	nReturned := func() int {
		c := 0
		for i := range returned {
			if returned[i].Load() {
				c++
			}
		}
		return c
	}
	var out []string
	bad := false
	snapshot := func() string {
		var sb strings.Builder
		for w := 0; w < n; w++ {
			switch {
			case !started[w]:
				sb.WriteByte('S')
			case returned[w].Load():
				sb.WriteByte('R')
			default:
				sb.WriteByte('B')
			}
		}
		vis := in.visibleWriters(n)
		var v []string
		for w := 0; w < n; w++ {
			if vis[w] {
				v = append(v, fmt.Sprint(w))
			}
			if started[w] && returned[w].Load() && !vis[w] {
				bad = true // acknowledged and not visible
			}
		}
		if len(v) == 0 {
			return sb.String() + "/-"
		}
		return sb.String() + "/" + strings.Join(v, ",")
	}
	defer func() {
		// release writers that are still blocked so that their goroutines end
		if parked {
			finish()
		}
		in.wf.ReplicationSender = &executor.NopReplicationSender{}
		for in.wf.VerifFlushChannelLen() > 0 {
			in.wf.VerifServeOneFlush()
		}
	}()
	settle := func(before int, expectReturn bool) {
		// an answered writer needs a moment to get from `<-f` to its caller
		if expectReturn {
			for i := 0; i < 4000 && nReturned() == before; i++ {
				time.Sleep(500 * time.Microsecond)
			}
		}
		time.Sleep(2 * time.Millisecond)
	}
	for _, tok := range a[1:] {
		switch {
		case tok == "F" || tok == "Ft":
			if parked || in.wf.VerifFlushChannelLen() == 0 {
				out = append(out, "disabled")
				continue
			}
			before := nReturned()
			fin, err := begin(in.wf.VerifServeOneFlush)
			parkedReq = true
			if !fin && tok == "F" {
				err = finish()
				fin = true
			}
			if err != nil {
				out = append(out, "flusherr")
				continue
			}
			settle(before, fin)
			out = append(out, snapshot())
		case tok == "T" || tok == "Tt":
			if parked {
				out = append(out, "disabled")
				continue
			}
			fin, err := begin(in.wf.FlushToWAL)
			parkedReq = false
			if !fin && tok == "T" {
				err = finish()
			}
			if err != nil {
				out = append(out, "flusherr")
				continue
			}
			settle(0, false)
			out = append(out, snapshot())
		case tok == "Ff" || tok == "Tf":
			if !parked {
				out = append(out, "disabled")
				continue
			}
			before := nReturned()
			if err := finish(); err != nil {
				out = append(out, "flusherr")
				continue
			}
			// the request arm answers its requester after the flush; the timer arm answers nobody
			settle(before, parkedReq)
			out = append(out, snapshot())
		case strings.HasPrefix(tok, "W"):
			w := int(atoi(tok[1:]))
			if w < 0 || w >= n || started[w] {
				out = append(out, "disabled")
				continue
			}
			started[w] = true
			before := in.wf.VerifFlushChannelLen()
			go func(w int) {
				defer func() {
					if r := recover(); r != nil {
						results[w] = "W=" + panicClass(r)
					}
					returned[w].Store(true)
				}()
				results[w] = in.runStoreStep(flushRowStep(w))
			}(w)
			// until the writer either blocks on its flush request or returns
			for i := 0; i < 20000 && !returned[w].Load() && in.wf.VerifFlushChannelLen() == before; i++ {
				time.Sleep(200 * time.Microsecond)
			}
			if !returned[w].Load() {
				time.Sleep(time.Millisecond) // it has queued its request; give an (incorrect) early return time to show
			}
			out = append(out, snapshot())
		default:
			return "harness:bad-arg " + tok
		}
	}
	for w := 0; w < n; w++ {
		if returned[w].Load() && results[w] != "W=ok" {
			out = append(out, fmt.Sprintf("w%d:%s", w, results[w]))
		}
	}
	if bad {
		out = append(out, "V=bad")
	}
	if len(out) == 0 {
		return ""
	}
	return strings.Join(out, " ")
}

// flushRealOp: the protocol through the REAL SyncWAL goroutine (timers out of reach, so only its
// flushChannel arm runs). The harness parks the flush in progress at the replication hand-off and
// releases it (`Ff`); everything else is the real loop. Tokens: W<w>, Ff.
func flushRealOp(a []string) string {
	n := int(atoi(a[0]))
	if n < 0 || n > 64 {
		return "harness:bad-arg n"
	}
	root := scratchDir("fr")
	defer os.RemoveAll(root)
	in := startInst(root, nil)
	defer in.abandon()
	if r := in.runStoreStep("C:FS/1Min/V:f:V=int32"); r != "C=ok" {
		return "harness:create " + r
	}
	ps := &parkSender{make(chan struct{}, 1), make(chan struct{})}
	in.wf.ReplicationSender = ps
	in.wf.IncrementWaitGroup()
	go in.wf.SyncWAL(1000*time.Hour, 1000*time.Hour, 1000)
	for i := 0; i < 20000 && !executor.VerifHaveWALWriter(); i++ {
		time.Sleep(100 * time.Microsecond)
	}
	started := make([]bool, n)
	returned := make([]atomic.Bool, n)
	results := make([]string, n)
	parked := false
	nReturned := func() int {
		c := 0
		for i := range returned {
			if returned[i].Load() {
				c++
			}
		}
		return c
	}
	nStarted := func() int {
		c := 0
		for _, st := range started {
			if st {
				c++
			}
		}
		return c
	}
	// quiesce: every started writer is accounted for — it has returned, its request waits in the
	// flush channel, or it is the requester of the flush parked at the sender. While the loop is
	// between taking a request and parking/answering, the sum is one short. No timing assumption.
	quiesce := func() {
		for round := 0; round < 2; round++ {
			for i := 0; i < 40000; i++ {
				if !parked {
					select {
					case <-ps.entered:
						parked = true
					default:
					}
				}
				p := 0
				if parked {
					p = 1
				}
				if nReturned()+in.wf.VerifFlushChannelLen()+p >= nStarted() {
					break
				}
				time.Sleep(250 * time.Microsecond)
			}
			time.Sleep(2 * time.Millisecond) // let a wrong extra answer show
		}
	}
	var out []string
	bad := false
	snapshot := func() string {
		var sb strings.Builder
		for w := 0; w < n; w++ {
			switch {
			case !started[w]:
				sb.WriteByte('S')
			case returned[w].Load():
				sb.WriteByte('R')
			default:
				sb.WriteByte('B')
			}
		}
		vis := in.visibleWriters(n)
		var v []string
		for w := 0; w < n; w++ {
			if vis[w] {
				v = append(v, fmt.Sprint(w))
			}
			if started[w] && returned[w].Load() && !vis[w] {
				bad = true
			}
		}
		if len(v) == 0 {
			return sb.String() + "/-"
		}
		return sb.String() + "/" + strings.Join(v, ",")
	}
	defer func() {
		// let everything drain, then stop the loop
		for i := 0; i < 200; i++ {
			quiesce()
			if !parked {
				break
			}
			parked = false
			ps.release <- struct{}{}
		}
		in.wf.ReplicationSender = &executor.NopReplicationSender{}
		// the loop sleeps in its select (timers are out of reach): wake it with flush requests until
		// it has seen the shutdown flag
		done := make(chan struct{})
		go func() { in.wf.Shutdown(); close(done) }()
		for stop := false; !stop; {
			select {
			case <-done:
				stop = true
			case <-time.After(2 * time.Millisecond):
				if executor.VerifHaveWALWriter() {
					// wake the loop with a bare flush request (a real write would leave a command in the
					// write channel after the loop's last flush and keep finishAndWait from returning)
					go in.wf.RequestFlush()
				}
			}
		}
		executor.VerifSetHaveWALWriter(false)
	}()
	for _, tok := range a[1:] {
		switch {
		case tok == "Ff":
			if !parked {
				out = append(out, "disabled")
				continue
			}
			parked = false
			ps.release <- struct{}{}
			quiesce()
			out = append(out, snapshot())
		case strings.HasPrefix(tok, "W"):
			w := int(atoi(tok[1:]))
			if w < 0 || w >= n || started[w] {
				out = append(out, "disabled")
				continue
			}
			started[w] = true
			go func(w int) {
				defer func() {
					if r := recover(); r != nil {
						results[w] = "W=" + panicClass(r)
					}
					returned[w].Store(true)
				}()
				results[w] = in.runStoreStep(flushRowStep(w))
			}(w)
			quiesce()
			out = append(out, snapshot())
		default:
			return "harness:bad-arg " + tok
		}
	}
	for w := 0; w < n; w++ {
		if returned[w].Load() && results[w] != "W=ok" {
			out = append(out, fmt.Sprintf("w%d:%s", w, results[w]))
		}
	}
	if bad {
		out = append(out, "V=bad")
	}
	return strings.Join(out, " ")
}

func flushStressOp(a []string) string {
	nw, rounds, seed := int(atoi(a[0])), int(atoi(a[1])), atoi(a[2])
	root := scratchDir("fst")
	defer os.RemoveAll(root)
	in := startInst(root, nil)
	defer in.abandon()
	for w := 0; w < nw; w++ {
		if r := in.runStoreStep(fmt.Sprintf("C:S%d/1Min/V:f:V=int32", w)); r != "C=ok" {
			return "harness:create " + r
		}
	}
	in.wf.IncrementWaitGroup()
	go in.wf.SyncWAL(3*time.Millisecond, 50*time.Millisecond, 1000)
	for i := 0; i < 2000 && !executor.VerifHaveWALWriter(); i++ {
		time.Sleep(100 * time.Microsecond)
	}
	var wg sync.WaitGroup
	var missing atomic.Int64
	var werr atomic.Int64
	for w := 0; w < nw; w++ {
		wg.Add(1)
		go func(w int) {
			defer wg.Done()
			defer func() {
				if r := recover(); r != nil {
					werr.Add(1)
				}
			}()
			r := rand.New(rand.NewSource(seed*1000 + int64(w)))
			for i := 0; i < rounds; i++ {
				ep := flushBase + 60*int64(i)
				val := hx([]byte{byte(i), byte(w), 1, 0})
				if res := in.runStoreStep(fmt.Sprintf("W:S%d/1Min/V:f:V=int32:%d,0,%s", w, ep, val)); res != "W=ok" {
					werr.Add(1)
					continue
				}
				q := in.runStoreStep(fmt.Sprintf("Q:S%d/1Min/V:%d:-:%d:-:-:-:-", w, ep, ep))
				if !strings.Contains(q, fmt.Sprintf("%d,0,%s", ep, val)) {
					missing.Add(1)
				}
				if r.Intn(3) == 0 {
					time.Sleep(time.Duration(r.Intn(300)) * time.Microsecond)
				}
			}
		}(w)
	}
	wg.Wait()
	in.wf.Shutdown()
	executor.VerifSetHaveWALWriter(false)
	if werr.Load() > 0 {
		return fmt.Sprintf("err:write n=%d", werr.Load())
	}
	if missing.Load() > 0 {
		return fmt.Sprintf("missing=%d V=bad", missing.Load())
	}
	return "ok"
}

func init() {
	ops["flushsched"] = flushSchedOp
	slowOps["flushsched"] = true
	ops["flushreal"] = flushRealOp
	slowOps["flushreal"] = true
	ops["flushstress"] = flushStressOp
	slowOps["flushstress"] = true
	gens["C07"] = func(g *Gen) {
		for i := 0; i < g.N(60, 600); i++ {
			n := 1 + g.Intn(5)
			if g.Intn(6) == 0 {
				n = 1 + g.Intn(12)
			}
			var toks []string
			perm := g.R.Perm(n)
			next := 0
			queued := 0
			steps := 2 + g.Intn(3*n+2)
			fine := g.Intn(3) > 0 // split the loop's arms at the replication hand-off
			parkedG := false
			for s := 0; s < steps; s++ {
				r := g.Intn(10)
				switch {
				case r < 5 && next < n:
					toks = append(toks, fmt.Sprintf("W%d", perm[next]))
					next++
					queued++
				case r < 8 && (queued > 0 || g.Intn(8) == 0):
					switch {
					case fine && !parkedG:
						toks = append(toks, "Ft")
						parkedG = true
					case fine:
						toks = append(toks, "Ff")
						parkedG = false
					default:
						toks = append(toks, "F")
					}
					if queued > 0 {
						queued--
					}
				default:
					switch {
					case fine && !parkedG:
						toks = append(toks, "Tt")
						parkedG = true
					case fine:
						toks = append(toks, "Tf")
						parkedG = false
					default:
						toks = append(toks, "T")
					}
				}
			}
			if fine {
				steps += 2
			}
			kind := "mixed"
			if fine {
				kind = "fine"
			}
			if n == 1 {
				kind = "single"
			}
			g.Emit(fmt.Sprintf("flushsched %d %s", n, strings.Join(toks, " ")), "writers="+fmt.Sprint(n), kind)
		}
		for i := 0; i < g.N(25, 250); i++ {
			n := 2 + g.Intn(5)
			var toks []string
			perm := g.R.Perm(n)
			next, parkedG, waiting := 0, false, 0
			for s := 0; s < 2+g.Intn(3*n); s++ {
				if next < n && (g.Intn(3) > 0 || !parkedG) {
					toks = append(toks, fmt.Sprintf("W%d", perm[next]))
					next++
					if parkedG {
						waiting++
					}
					parkedG = true
				} else {
					toks = append(toks, "Ff")
					parkedG = waiting > 0
					waiting = 0
				}
			}
			g.Emit(fmt.Sprintf("flushreal %d %s", n, strings.Join(toks, " ")), "writers="+fmt.Sprint(n), "realloop")
		}
		for i := 0; i < g.N(3, 30); i++ {
			g.Emit(fmt.Sprintf("flushstress %d %d %d", 2+g.Intn(6), 20+g.Intn(60), g.Intn(1<<30)), "stress")
		}
	}
}
