import Mkts.Model.Store
/-! Helper lemmas about the slot map and the write path of the fixed-length store model. -/
namespace Mkts.Store
open Mkts.Time Mkts.Bytes

theorem put_put_same (s : Slots) (k : Int × Int) (v w : Bytes) : (s.put k v).put k w = s.put k w := by
  induction s with
  | nil => simp [Slots.put]
  | cons h t ih =>
    obtain ⟨k', v'⟩ := h
    by_cases hk : k' = k
    · simp [Slots.put, hk]
    · simp [Slots.put, hk, ih]

theorem get_put_same (s : Slots) (k : Int × Int) (v : Bytes) : (s.put k v).get k = some v := by
  induction s with
  | nil => simp [Slots.put, Slots.get]
  | cons h t ih =>
    obtain ⟨k', v'⟩ := h
    by_cases hk : k' = k
    · simp [Slots.put, Slots.get, hk]
    · simp [Slots.put, Slots.get, hk, ih]

theorem get_put_other (s : Slots) (k k2 : Int × Int) (v : Bytes) (h : k2 ≠ k) :
    (s.put k v).get k2 = s.get k2 := by
  induction s with
  | nil => simp [Slots.put, Slots.get, Ne.symm h]
  | cons hd t ih =>
    obtain ⟨k', v'⟩ := hd
    by_cases hk : k' = k
    · subst hk; simp [Slots.put, Slots.get, Ne.symm h]
    · by_cases hk2 : k' = k2
      · subst hk2; simp [Slots.put, Slots.get, hk]
      · simp [Slots.put, Slots.get, hk, hk2, ih]

/-- keys of a slot map -/
def keys (s : Slots) : List (Int × Int) := s.map (·.1)

theorem keys_put (s : Slots) (k : Int × Int) (v : Bytes) :
    keys (s.put k v) = if k ∈ keys s then keys s else keys s ++ [k] := by
  induction s with
  | nil => simp [Slots.put, keys]
  | cons h t ih =>
    obtain ⟨k', v'⟩ := h
    by_cases hk : k' = k
    · subst hk; simp [Slots.put, keys]
    · have ih' := ih
      simp only [keys] at ih' ⊢
      simp only [Slots.put, hk, if_false, List.map_cons, ih', List.mem_cons]
      have hk' : ¬ k = k' := fun e => hk e.symm
      simp only [hk', false_or]
      split <;> rename_i hm <;> simp [hm]

theorem nodup_keys_put (s : Slots) (k : Int × Int) (v : Bytes) (h : (keys s).Nodup) :
    (keys (s.put k v)).Nodup := by
  rw [keys_put]
  split
  · exact h
  · rename_i hk
    exact List.nodup_append.mpr ⟨h, by simp, by
      intro a ha b hb
      simp at hb; subst hb
      intro e; subst e; exact hk ha⟩

/-- the loop invariant of `WriteRecords`: queued commands then the pending one, applied in order,
    equal putting every consumed row in order. -/
theorem applyCmds_append (s : Slots) (a b : List Cmd) : applyCmds s (a ++ b) = applyCmds (applyCmds s a) b := by
  simp [applyCmds, List.foldl_append]

def putRows (tf : Int) (s : Slots) (rows : List Row) : Slots :=
  rows.foldl (fun s r => s.put (slotKey tf r) r.payload) s

theorem writeRecordsAux_spec (tf : Int) (rows : List Row) :
    ∀ (s : Slots) (cc : Option Cmd) (pi py : Int) (acc : List Cmd),
      (∀ c, cc = some c → c.index = pi ∧ c.year = py) →
      applyCmds s (writeRecordsAux tf rows cc pi py acc) =
        putRows tf (applyCmds s (acc.reverse ++ (match cc with | none => [] | some c => [c]))) rows := by
  induction rows with
  | nil =>
    intro s cc pi py acc _
    cases cc <;> simp [writeRecordsAux, putRows]
  | cons r rest ih =>
    intro s cc pi py acc hcc
    cases cc with
    | none =>
      simp only [writeRecordsAux]
      rw [ih s _ _ _ acc (by intro c hc; cases hc; exact ⟨rfl, rfl⟩)]
      simp [putRows, applyCmds_append, applyCmds, slotKey]
    | some c =>
      obtain ⟨hi, hy⟩ := hcc c rfl
      simp only [writeRecordsAux]
      split
      · rename_i hsame
        rw [ih s _ _ _ acc (by intro c' hc'; cases hc'; exact ⟨hi, hy⟩)]
        simp only [putRows, List.foldl_cons, applyCmds_append]
        congr 1
        simp only [applyCmds, List.foldl_cons, List.foldl_nil, slotKey]
        have e1 : timeToIndex utc (nsOfSec r.sec) tf = c.index := by rw [hsame.1, hi]
        have e2 : localYear utc (nsOfSec r.sec) = c.year := by rw [hsame.2, hy]
        rw [e1, e2, put_put_same]
      · rw [ih s _ _ _ (c :: acc) (by intro c' hc'; cases hc'; exact ⟨rfl, rfl⟩)]
        simp [putRows, applyCmds_append, applyCmds, slotKey]

theorem applyCmds_writeRecords (tf : Int) (s : Slots) (rows : List Row) :
    applyCmds s (writeRecords tf rows) = putRows tf s rows := by
  unfold writeRecords
  rw [writeRecordsAux_spec tf rows s none 0 0 [] (by intro c h; cases h)]
  simp [applyCmds]

theorem nodup_keys_putRows (tf : Int) (rows : List Row) (s : Slots) (h : (keys s).Nodup) :
    (keys (putRows tf s rows)).Nodup := by
  induction rows generalizing s with
  | nil => simpa [putRows]
  | cons r rest ih =>
    simp only [putRows, List.foldl_cons]
    exact ih _ (nodup_keys_put _ _ _ h)

end Mkts.Store

namespace Mkts.Store
open Mkts.Time Mkts.Bytes

/-- lexicographic order on (year, index) used by `insertSorted` -/
def keyLe (a b : Int × Int) : Prop := a.1 < b.1 ∨ (a.1 = b.1 ∧ a.2 ≤ b.2)

instance (a b : Int × Int) : Decidable (keyLe a b) := by unfold keyLe; infer_instance

theorem keyLe_total (a b : Int × Int) : keyLe a b ∨ keyLe b a := by unfold keyLe; omega
theorem keyLe_trans {a b c : Int × Int} (h1 : keyLe a b) (h2 : keyLe b c) : keyLe a c := by
  unfold keyLe at *; omega

theorem mem_insertSorted (k : Int × Int) (v : Bytes) (l : List ((Int × Int) × Bytes)) (x : (Int × Int) × Bytes) :
    x ∈ insertSorted k v l ↔ x = (k, v) ∨ x ∈ l := by
  induction l with
  | nil => simp [insertSorted]
  | cons h t ih =>
    obtain ⟨k', v'⟩ := h
    simp only [insertSorted]
    split
    · simp
    · simp only [List.mem_cons, ih]
      constructor
      · rintro (h | h | h) <;> simp [h]
      · rintro (h | h | h) <;> simp [h]

theorem mem_sortedSlots (s : Slots) (x : (Int × Int) × Bytes) : x ∈ sortedSlots s ↔ x ∈ s := by
  induction s with
  | nil => simp [sortedSlots]
  | cons h t ih =>
    simp only [sortedSlots, List.foldr_cons] at ih ⊢
    rw [mem_insertSorted, ih]
    simp

theorem perm_insertSorted (k : Int × Int) (v : Bytes) (l : List ((Int × Int) × Bytes)) :
    (insertSorted k v l).Perm ((k, v) :: l) := by
  induction l with
  | nil => simp [insertSorted]
  | cons h t ih =>
    obtain ⟨k', v'⟩ := h
    simp only [insertSorted]
    split
    · exact List.Perm.refl _
    · exact (List.Perm.cons _ ih).trans (List.Perm.swap _ _ _)

theorem perm_sortedSlots (s : Slots) : (sortedSlots s).Perm s := by
  induction s with
  | nil => simp [sortedSlots]
  | cons h t ih =>
    simp only [sortedSlots, List.foldr_cons] at ih ⊢
    exact (perm_insertSorted _ _ _).trans (List.Perm.cons _ ih)

def Sorted (l : List ((Int × Int) × Bytes)) : Prop := l.Pairwise (fun a b => keyLe a.1 b.1)

theorem sorted_insertSorted (k : Int × Int) (v : Bytes) (l : List ((Int × Int) × Bytes)) (h : Sorted l) :
    Sorted (insertSorted k v l) := by
  induction l with
  | nil => simp [insertSorted, Sorted]
  | cons hd t ih =>
    obtain ⟨k', v'⟩ := hd
    simp only [Sorted, List.pairwise_cons] at h
    simp only [insertSorted]
    split
    · rename_i hle
      simp only [Sorted, List.pairwise_cons, List.mem_cons]
      refine ⟨?_, h.1, h.2⟩
      rintro x (rfl | hx)
      · exact hle
      · exact keyLe_trans hle (h.1 x hx)
    · rename_i hnle
      have hge : keyLe k' k := by
        rcases keyLe_total k k' with h' | h'
        · exact absurd h' hnle
        · exact h'
      simp only [Sorted, List.pairwise_cons]
      refine ⟨?_, ih h.2⟩
      intro x hx
      rw [mem_insertSorted] at hx
      rcases hx with rfl | hx
      · exact hge
      · exact h.1 x hx

theorem sorted_sortedSlots (s : Slots) : Sorted (sortedSlots s) := by
  induction s with
  | nil => simp [sortedSlots, Sorted]
  | cons h t ih =>
    simp only [sortedSlots, List.foldr_cons] at ih ⊢
    exact sorted_insertSorted _ _ _ ih

theorem nodup_keys_sortedSlots (s : Slots) (h : (keys s).Nodup) : (keys (sortedSlots s)).Nodup := by
  have hp : (keys (sortedSlots s)).Perm (keys s) := (perm_sortedSlots s).map _
  exact hp.nodup_iff.mpr h

/-- value found for a key after putting a list of rows: the payload of the LAST row of that
    interval, else what was there before -/
theorem get_putRows (tf : Int) (rows : List Row) (s : Slots) (k : Int × Int) :
    (putRows tf s rows).get k =
      match rows.reverse.find? (fun r => slotKey tf r = k) with
      | some r => some r.payload
      | none => s.get k := by
  induction rows generalizing s with
  | nil => simp [putRows]
  | cons r rest ih =>
    simp only [putRows, List.foldl_cons] at ih ⊢
    rw [ih]
    simp only [List.reverse_cons, List.find?_append]
    cases hfind : List.find? (fun r => decide (slotKey tf r = k)) rest.reverse with
    | some r' => simp
    | none =>
      simp only [Option.none_or, List.find?_cons, List.find?_nil]
      by_cases hk : slotKey tf r = k
      · simp [hk, get_put_same]
      · simp [hk, get_put_other _ _ _ _ (Ne.symm hk)]

end Mkts.Store
