#!/usr/bin/env python3
"""findings whose "commit" is still a fix commit's SUBJECT line get the hash it has in /repo main."""
import json, glob, subprocess
log = subprocess.run(['git', '-C', '/repo', 'log', '--format=%h %s', '-80'], capture_output=True, text=True).stdout.strip().splitlines()
bysub = {l.split(' ', 1)[1]: l.split(' ', 1)[0] for l in log}
for p in glob.glob('/verif/findings.d/*.json') + ['/verif/known_findings.json']:
    d = json.load(open(p)); ch = False
    for f in d['findings']:
        c = f.get('commit')
        if f.get('status') == 'fixed' and c in bysub:
            f['commit'] = bysub[c]; ch = True
            if f['what'].startswith('fixed: property=') and bysub[c] not in f['what']:
                parts = f['what'].split(' ', 2)
                f['what'] = ' '.join(parts[:2]) + ' ' + bysub[c] + ' ' + (parts[2] if len(parts) > 2 else '')
        elif f.get('status') == 'fixed' and c and len(c) > 12:
            print('UNRESOLVED commit subject in', p, f['id'], c)
    if ch:
        json.dump(d, open(p, 'w'), indent=1); print('updated', p)
