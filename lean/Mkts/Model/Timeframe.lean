import Mkts.Model.Calendar
/-!
# Timeframes and candle durations (mirrors `utils/timeframe.go`)

One definition per Go function, quirks included:

* Go strings are byte strings; here `List Char` with one `Char` per byte.
* `time.Duration` is `int64` nanoseconds: products wrap (`wrap64`), exactly like Go.
* `TimeframeFromString` scans `timeframeDefs` *in table order* with `strings.Contains`, so `"1Sec"`
  is recognised through the entry `"S"`; the multiplier is `strconv.ParseInt(prefix, 10, 32)`.
* `TimeframeFromDuration` prints `"1" ++ name` of the first entry of equal duration (1 s ↦ `"1S"`,
  1 min ↦ `"1T"`), otherwise `tf / lower` (truncated!) with the last smaller entry's name.
* `CandleDurationFromString` uses the *unanchored* regexp `(\d+)(Sec|Min|H|D|W|M|Y)`, ignores the
  `Atoi` error (a too-long digit run clamps to `MaxInt64`), accepts multiplier 0, and looks the
  suffix up in `suffixDefs`, which has no `"M"` (duration 0).
* `Truncate`/`Ceil`/`IsWithin` ignore the multiplier for `D` and `M`; `IsWithin` ignores it for `W`
  (ISO week equality) and is one-sided for `Y`.
* `Time.Truncate(d)` works on absolute time since 0001-01-01T00:00:00Z and returns `t` for `d ≤ 0`.

Instants are `Int` ns since the Unix epoch, a `Zone` is the location carried by the `time.Time`.
Core Lean only.
-/
namespace Mkts.Timeframe
open Mkts.Time

/-! ## int64 / strings -/

def two63 : Int := 9223372036854775808
def two64 : Int := 18446744073709551616
def maxInt64 : Int := 9223372036854775807

/-- two's-complement wrap of an exact integer into `int64` -/
def wrap64 (x : Int) : Int := (x + two63) % two64 - two63

abbrev Str := List Char

def isDigit (c : Char) : Bool := '0' ≤ c && c ≤ '9'
def digitVal (c : Char) : Int := ((c.toNat - 48 : Nat) : Int)

/-- value of a run of decimal digits (no validation) -/
def digitsVal (s : Str) : Int := s.foldl (fun acc c => acc * 10 + digitVal c) 0

def isPrefix : Str → Str → Bool
  | [], _ => true
  | _ :: _, [] => false
  | a :: as, b :: bs => a == b && isPrefix as bs

/-- `strings.Split(s, sep)[0]` when `strings.Contains(s, sep)`, else `none` (`sep` non-empty) -/
def splitFirst (sep : Str) : Str → Option Str
  | [] => none
  | c :: cs => if isPrefix sep (c :: cs) then some [] else (splitFirst sep cs).map (c :: ·)

/-- decimal digits of a natural number, least significant first; `fuel` ≥ number of digits -/
def natDigitsRev : Nat → Nat → List Char
  | 0, _ => []
  | fuel + 1, n => Char.ofNat (48 + n % 10) :: (if n / 10 = 0 then [] else natDigitsRev fuel (n / 10))

/-- `fmt.Sprintf("%v", n)` for `n ≥ 0` -/
def showNat (n : Nat) : Str := (natDigitsRev (n + 1) n).reverse

/-- `strconv.ParseInt(s, 10, 32)` restricted to what `TimeframeFromString` keeps: `some t` iff there
    is no error and `t > 0` (optional `+`, non-empty digits, value ≤ 2^31-1) -/
def parsePos32 (s : Str) : Option Int :=
  let body := match s with
    | '+' :: r => r
    | _ => s
  if body.isEmpty || !(body.all isDigit) then none
  else
    let v := digitsVal body
    if v ≤ 0 || v > 2147483647 then none else some v

/-! ## tables -/

def second : Int := 1000000000
def minute : Int := 60 * second
def hour : Int := 60 * minute
def day : Int := Mkts.Extracted.utils_Day
def week : Int := Mkts.Extracted.utils_Week
def year : Int := Mkts.Extracted.utils_Year

/-- `timeframeDefs` -/
def timeframeDefs : List (Str × Int) :=
  [(['S'], second), (['S','e','c'], second), (['T'], minute), (['M','i','n'], minute),
   (['H'], hour), (['D'], day), (['W'], week), (['Y'], year)]

/-- `utils.Timeframes`, in SOURCE ORDER: regenerated from /repo on every run
    (`Mkts.Extracted.utils_Timeframes`, factgen `tables`) -/
def timeframes : List (Str × Int) :=
  Mkts.Extracted.utils_Timeframes.map (fun p => (p.1.toList, p.2))

/-! ## Timeframe -/

/-- `TimeframeFromString(tf)`: the duration (the `String` field is `tf` itself); `none` = nil -/
def timeframeFromStringAux (tf : Str) : List (Str × Int) → Option Int
  | [] => none
  | (name, dur) :: rest =>
    match splitFirst name tf with
    | some pre =>
      match parsePos32 pre with
      | some t => some (wrap64 (dur * t))
      | none => none
    | none => timeframeFromStringAux tf rest

def timeframeFromString (tf : Str) : Option Int := timeframeFromStringAux tf timeframeDefs

/-- loop of `TimeframeFromDuration` with the running `lowerDur`, `lowerStr` -/
def timeframeFromDurationAux (tf : Int) : List (Str × Int) → Int → Str → Option (Str × Int)
  | [], _, _ => none
  | (name, dur) :: rest, lowerDur, lowerStr =>
    if dur = tf then some ('1' :: name, tf)
    else if dur > tf then some (showNat (tf.tdiv lowerDur).toNat ++ lowerStr, tf)
    else timeframeFromDurationAux tf rest dur name

/-- `TimeframeFromDuration(tf)`: `(String, Duration)`; `none` = nil -/
def timeframeFromDuration (tf : Int) : Option (Str × Int) :=
  if tf < second then none else timeframeFromDurationAux tf timeframeDefs second ['S','e','c']

/-- print a duration and parse the text back: is the duration reproduced? -/
def roundTripOK (d : Int) : Bool :=
  match timeframeFromDuration d with
  | some (s, d') => d' == d && timeframeFromString s == some d
  | none => false

/-- ladder unit used by `TimeframeFromDuration` for `d` -/
def lowerUnit (d : Int) : Int :=
  if d < minute then second else if d < hour then minute else if d < day then hour
  else if d < week then day else if d < year then week else year


/-! ## CandleDuration -/

inductive Suffix | Sec | Min | H | D | W | M | Y
deriving DecidableEq, Repr

def Suffix.name : Suffix → String
  | .Sec => "Sec" | .Min => "Min" | .H => "H" | .D => "D" | .W => "W" | .M => "M" | .Y => "Y"

/-- `suffixDefs[suffix]` (a missing key reads as 0: there is no `"M"`) -/
def suffixDur : Suffix → Int
  | .Sec => second | .Min => minute | .H => hour | .D => day | .W => week | .M => 0 | .Y => year

/-- first alternative of `Sec|Min|H|D|W|M|Y` that is a prefix -/
def matchSuffix (s : Str) : Option Suffix :=
  if isPrefix ['S','e','c'] s then some .Sec
  else if isPrefix ['M','i','n'] s then some .Min
  else if isPrefix ['H'] s then some .H
  else if isPrefix ['D'] s then some .D
  else if isPrefix ['W'] s then some .W
  else if isPrefix ['M'] s then some .M
  else if isPrefix ['Y'] s then some .Y
  else none

structure CandleDuration where
  str : Str
  duration : Int
  suffix : Suffix
  mult : Int
deriving Repr, DecidableEq

/-- leftmost match of `(\d+)(Sec|Min|H|D|W|M|Y)`: `run` holds the digits of the maximal digit run
    that ends just before the current position (most recent first) -/
def findMatch : Str → Str → Option (Str × Suffix)
  | [], _ => none
  | c :: cs, run =>
    if isDigit c then findMatch cs (c :: run)
    else if run.isEmpty then findMatch cs []
    else match matchSuffix (c :: cs) with
      | some sf => some (run.reverse, sf)
      | none => findMatch cs []

/-- `strconv.Atoi` of a digit run with the error ignored: clamps at `MaxInt64` -/
def atoiClamp (ds : Str) : Int := min (digitsVal ds) maxInt64

/-- `CandleDurationFromString`; `none` = the "timeframe not found" error -/
def candleDurationFromString (tf : Str) : Option CandleDuration :=
  match findMatch tf [] with
  | none => none
  | some (ds, sf) =>
    let m := atoiClamp ds
    some { str := tf, duration := wrap64 (m * suffixDur sf), suffix := sf, mult := m }

/-! ## windows -/

/-- 0001-01-01T00:00:00Z in ns relative to the Unix epoch (Go's zero `time.Time`) -/
def goZero : Int := -62135596800 * 1000000000

/-- `t.Truncate(d)` -/
def goTruncate (t d : Int) : Int := if d ≤ 0 then t else t - (t - goZero) % d

/-- instant of local midnight starting local day number `days` (`time.Date(y,m,d,0,0,0,0,loc)`) -/
def dayStart (z : Zone) (days : Int) : Int := z.dateToUnix (days * secPerDay) * nsPerSec

/-- `t.In(z).Month()` -/
def localMonth (z : Zone) (t : Int) : Int := monthOfDays (localDays z t)

/-- `cd.Truncate(ts)` -/
def truncate (cd : CandleDuration) (z : Zone) (ts : Int) : Int :=
  match cd.suffix with
  | .D => dayStart z (localDays z ts)
  | .M => dayStart z (monthFloorDays (localDays z ts))
  | _ => goTruncate ts cd.duration

/-- `cd.Ceil(ts)` -/
def ceil (cd : CandleDuration) (z : Zone) (ts : Int) : Int :=
  match cd.suffix with
  | .D => dayStart z (localDays z (ts + dayNs))
  | .M => dayStart z (monthCeilDays (localDays z ts))
  | _ => goTruncate (ts + cd.duration) cd.duration

/-- `cd.IsWithin(ts, start)`, both instants carrying location `z` -/
def isWithin (cd : CandleDuration) (z : Zone) (ts start : Int) : Bool :=
  match cd.suffix with
  | .D => localDays z ts == localDays z start
  | .W => isoWeek (localDays z ts) == isoWeek (localDays z start)
  | .M =>
    let y0 := localYear z ts
    let y1 := localYear z start
    let m0 := localMonth z ts
    let m1 := localMonth z start
    if y0 = y1 then
      if m0 = m1 then true
      else if m0 < m1 then false
      else decide (m0 - m1 < cd.mult)
    else if y0 > y1 then decide (m0 - (12 - m1) < cd.mult)
    else false
  | .Y => decide (localYear z ts - localYear z start ≤ cd.mult)
  | _ => goTruncate ts cd.duration == start

/-- `cd.QueryableTimeframe()`: `(String, Duration)` of the chosen entry of `Timeframes` -/
def queryableTimeframe (cd : CandleDuration) : Str × Int :=
  if cd.suffix ≠ .M then
    match timeframes.reverse.find? (fun tf => cd.duration.tmod tf.2 == 0) with
    | some tf => tf
    | none => (['1','D'], day)
  else (['1','D'], day)

/-- `cd.QueryableNrecords(tf, n)`; `none` = nil-pointer panic (`tf` does not parse) or division by
    zero; the result is Go's `int` (wraps) -/
def queryableNrecords (cd : CandleDuration) (tf : Str) (n : Int) : Option Int :=
  if cd.str = tf then some n
  else if cd.suffix = .M then some (wrap64 (31 * n))
  else match timeframeFromString tf with
    | none => none
    | some d => if d = 0 then none else some (wrap64 (n * cd.duration.tdiv d))

end Mkts.Timeframe
