import Mkts.Model.Csv
/-! Helper lemmas for C33: the loader on well-formed records. -/
namespace Mkts.Csv

/-! ## the four statements of the current source (regenerated skeletons, `decide`) -/

theorem code_reports_reader_errors : readerErrorReported = true := by decide
theorem code_reports_time_errors : timeErrorReported = true := by decide
theorem code_timestamp_default_zone : timestampUsesDefaultZone = true := by decide
theorem code_checks_fixup_bounds : fixupBoundsChecked = true := by decide

/-- the instant (ns) of a record's time field read with the configured format, no tuning -/
def timeNs (cfg : Config) (r : Rec) : Int :=
  match parseTime cfg (r.getD 0 []) 0 with
  | .ok (some t) => t
  | _ => 0

/-- the row the property demands for a record: its time field parsed in the configured format and
    zone, every bucket column parsed from the CSV field the header maps it to -/
def rowOf (cfg : Config) (idx : List Nat) (r : Rec) : Row :=
  ⟨timeNs cfg r / 1000000000, timeNs cfg r % 1000000000,
   (cfg.schema.zip idx).map (fun ci => (parseVal ci.1.2 (r.getD ci.2 [])).getD 0)⟩

/-- a well-formed data record (for field count `n` and column mapping `idx`) -/
structure GoodRec (cfg : Config) (n : Nat) (idx : List Nat) (r : Rec) : Prop where
  notBlank : r ≠ [[]]
  noQuote : hasBareQuote r = false
  len : r.length = n
  time : ∃ t, parseTime cfg (r.getD 0 []) 0 = .ok (some t)
  vals : ∀ ci ∈ cfg.schema.zip idx, (parseVal ci.1.2 (r.getD ci.2 [])).isSome = true

theorem mapOpt_all_some {α β : Type} (f : α → Option β) (d : β) (l : List α)
    (h : ∀ a ∈ l, (f a).isSome = true) : mapOpt f l = some (l.map (fun a => (f a).getD d)) := by
  induction l with
  | nil => rfl
  | cons a t ih =>
    have ha := h a List.mem_cons_self
    have ht := ih (fun b hb => h b (List.mem_cons_of_mem _ hb))
    cases hfa : f a with
    | none => rw [hfa] at ha; cases ha
    | some b => simp [mapOpt, hfa, ht]

theorem read_good {cfg : Config} {n : Nat} {idx : List Nat} {r : Rec} (h : GoodRec cfg n idx r)
    (rest : List Rec) : read n (r :: rest) = .row r rest := by
  have h1 : (r == [[]]) = false := beq_eq_false_iff_ne.mpr h.notBlank
  simp [read, h1, h.noQuote, h.len]

theorem readChunk_good {cfg : Config} {n : Nat} {idx : List Nat} (k : Nat) (rs : List Rec)
    (h : ∀ r ∈ rs, GoodRec cfg n idx r) :
    readChunk n k rs = (rs.take k, if rs.length < k then ChunkEnd.eof else ChunkEnd.more, rs.drop k) := by
  induction k generalizing rs with
  | zero => simp [readChunk]
  | succ k ih =>
    cases rs with
    | nil => simp [readChunk, read]
    | cons r rest =>
      rw [readChunk, read_good (h r List.mem_cons_self)]
      simp only []
      rw [ih rest (fun x hx => h x (List.mem_cons_of_mem _ hx))]
      simp

theorem timeRow_good (cfg : Config) (st : Int × Bool) (dt : Str) (t : Int) (hst : st.1 = 0)
    (h : parseTime cfg dt 0 = .ok (some t)) : timeRow cfg st dt = .ok (some (t, st)) := by
  simp [timeRow, hst, h]

theorem timeLoop_good (cfg : Config) (st : Int × Bool) (hst : st.1 = 0) (rows : List Rec)
    (h : ∀ r ∈ rows, ∃ t, parseTime cfg (r.getD 0 []) 0 = .ok (some t)) :
    timeLoop cfg st (rows.map (·.getD 0 [])) = .ok (some (rows.map (timeNs cfg))) := by
  induction rows with
  | nil => simp [timeLoop]
  | cons r rest ih =>
    obtain ⟨t, ht⟩ := h r List.mem_cons_self
    have ih' := ih (fun x hx => h x (List.mem_cons_of_mem _ hx))
    have e : timeNs cfg r = t := by unfold timeNs; rw [ht]
    simp only [List.map_cons, timeLoop]
    rw [timeRow_good cfg st _ t hst ht]
    simp only []
    rw [ih', e]

theorem assemble_map {ρ ι : Type} (rows : List ρ) (cs : List ι) (ft : ρ → Int) (fv : ι → ρ → Int) :
    assemble (rows.map ft) (cs.map (fun c => rows.map (fv c))) =
      rows.map (fun r => ⟨ft r / 1000000000, ft r % 1000000000, cs.map (fun c => fv c r)⟩) := by
  induction rows with
  | nil => simp [assemble]
  | cons r rest ih =>
    simp only [List.map_cons, assemble, List.map_map]
    have e1 : (List.tail ∘ fun c => fv c r :: List.map (fv c) rest) = fun c => rest.map (fv c) := by
      funext c; rfl
    have e2 : ((fun x => x.headD 0) ∘ fun c => fv c r :: List.map (fv c) rest) = fun c => fv c r := by
      funext c; rfl
    rw [e1, e2, ih]

theorem convertChunk_good (cfg : Config) (n : Nat) (idx : List Nat) (rows : List Rec)
    (htz : ∀ h : cfg.tz = .invalid, False) (hb : cfg.schema.any (fun c => c.2 == .bool) = false)
    (h : ∀ r ∈ rows, GoodRec cfg n idx r) :
    convertChunk cfg 0 idx rows = .ok (rows.map (rowOf cfg idx)) := by
  have ht : readTimeColumns cfg 0 rows = .ok (some (rows.map (timeNs cfg))) := by
    unfold readTimeColumns
    have := timeLoop_good cfg (0, true) rfl rows (fun r hr => (h r hr).time)
    cases hz : cfg.tz with
    | invalid => exact absurd hz (fun h' => htz h')
    | empty => simpa using this
    | zone z => simpa using this
  have hc : parseColumns cfg.schema idx rows =
      some ((cfg.schema.zip idx).map (fun ci => rows.map (fun r => (parseVal ci.1.2 (r.getD ci.2 [])).getD 0))) := by
    unfold parseColumns
    have inner : ∀ ci ∈ cfg.schema.zip idx,
        mapOpt (fun r => parseVal ci.1.2 (r.getD ci.2 [])) rows =
          some (rows.map (fun r => (parseVal ci.1.2 (r.getD ci.2 [])).getD 0)) :=
      fun ci hci => mapOpt_all_some _ 0 rows (fun r hr => (h r hr).vals ci hci)
    have hs : ∀ ci ∈ cfg.schema.zip idx,
        (mapOpt (fun r => parseVal ci.1.2 (r.getD ci.2 [])) rows).isSome = true := by
      intro ci hci; rw [inner ci hci]; rfl
    rw [mapOpt_all_some _ [] _ hs]
    congr 1
    apply List.map_congr_left
    intro ci hci
    rw [inner ci hci]; rfl
  unfold convertChunk
  rw [ht]; simp only []
  rw [hc]; simp only [hb]
  rw [assemble_map rows (cfg.schema.zip idx) (timeNs cfg) (fun ci r => (parseVal ci.1.2 (r.getD ci.2 [])).getD 0)]
  rfl

/-- the load loop on well-formed records: status ok and the chunks, concatenated, are all rows -/
theorem loadLoop_good (cfg : Config) (n : Nat) (idx : List Nat) (k : Nat) (hk : 1 ≤ k)
    (htz : ∀ h : cfg.tz = .invalid, False) (hb : cfg.schema.any (fun c => c.2 == .bool) = false)
    (fuel : Nat) (rs : List Rec) (hf : rs.length < fuel) (h : ∀ r ∈ rs, GoodRec cfg n idx r) :
    (loadLoop cfg n 0 idx k fuel rs).status = .ok ∧
    (loadLoop cfg n 0 idx k fuel rs).chunks.flatten = rs.map (rowOf cfg idx) ∧
    ∀ c ∈ (loadLoop cfg n 0 idx k fuel rs).chunks, c.length ≤ k ∧ c ≠ [] := by
  induction fuel generalizing rs with
  | zero => omega
  | succ fuel ih =>
    rw [loadLoop, readChunk_good k rs h]
    simp only []
    have hnr : ((if rs.length < k then ChunkEnd.eof else ChunkEnd.more) == ChunkEnd.readerErr) = false := by
      split <;> rfl
    rw [hnr]
    simp only [Bool.false_and, Bool.false_eq_true, if_false]
    cases rs with
    | nil => simp
    | cons r rest =>
      have hne : ((r :: rest).take k).isEmpty = false := by
        cases k with
        | zero => omega
        | succ k => simp
      rw [hne]
      simp only [Bool.false_eq_true, if_false]
      rw [convertChunk_good cfg n idx _ htz hb (fun x hx => h x (List.mem_of_mem_take hx))]
      simp only []
      have hlen : ((r :: rest).take k).length ≤ k := by simp [List.length_take]; omega
      have hne' : ((r :: rest).take k).map (rowOf cfg idx) ≠ [] := by
        cases k with
        | zero => omega
        | succ k => simp
      by_cases hend : (r :: rest).length < k
      · have hm' : (ChunkEnd.eof != ChunkEnd.more) = true := by decide
        simp only [hend, if_true, hm']
        have : (r :: rest).take k = r :: rest := List.take_of_length_le (by omega)
        refine ⟨by simp, by simp [this], ?_⟩
        intro c hc
        have hc' : c = ((r :: rest).take k).map (rowOf cfg idx) := by simpa using hc
        subst hc'
        exact ⟨by simpa using hlen, hne'⟩
      · simp only [hend, if_false]
        have hdrop : ((r :: rest).drop k).length < fuel := by
          simp only [List.length_drop, List.length_cons] at hf ⊢; omega
        obtain ⟨h1, h2, h3⟩ := ih ((r :: rest).drop k) hdrop (fun x hx => h x (List.mem_of_mem_drop hx))
        have hm : (ChunkEnd.more != ChunkEnd.more) = false := by decide
        simp only [hm, Bool.false_eq_true, if_false]
        refine ⟨h1, ?_, ?_⟩
        · simp only [List.flatten_cons, h2]
          rw [← List.map_append, List.take_append_drop]
        · intro c hc
          rcases List.mem_cons.mp hc with rfl | hc
          · exact ⟨by simpa using hlen, hne'⟩
          · exact h3 c hc

/-! ## a malformed record in the middle is reported -/

/-- a record the csv reader returns with an error (wrong field count or bare quote) -/
structure BadRec (n : Nat) (r : Rec) : Prop where
  notBlank : r ≠ [[]]
  bad : hasBareQuote r = true ∨ r.length ≠ n

theorem read_bad {n : Nat} {r : Rec} (h : BadRec n r) (rest : List Rec) : read n (r :: rest) = .err rest := by
  have h1 : (r == [[]]) = false := beq_eq_false_iff_ne.mpr h.notBlank
  rcases h.bad with hq | hl
  · simp [read, h1, hq]
  · by_cases hq : hasBareQuote r = true
    · simp [read, h1, hq]
    · simp [read, h1, hq, hl]

theorem readChunk_prefix_bad {cfg : Config} {n : Nat} {idx : List Nat} (k : Nat) (p : List Rec) (bad : Rec)
    (rest : List Rec) (hp : ∀ r ∈ p, GoodRec cfg n idx r) (hbad : BadRec n bad) :
    readChunk n k (p ++ bad :: rest) =
      if p.length < k then (p, ChunkEnd.readerErr, rest) else (p.take k, ChunkEnd.more, p.drop k ++ bad :: rest) := by
  induction k generalizing p with
  | zero => simp [readChunk]
  | succ k ih =>
    cases p with
    | nil => simp [readChunk, read_bad hbad]
    | cons r p' =>
      rw [List.cons_append, readChunk, read_good (hp r List.mem_cons_self)]
      simp only []
      rw [ih p' (fun x hx => hp x (List.mem_cons_of_mem _ hx))]
      by_cases h : p'.length < k
      · simp [h]
      · simp [h]

/-- good records, then a malformed one, then anything: the load ends with the reader error; what
    was handed to the writer before is a prefix of the good rows (the complete chunks before the
    chunk that contains the malformed record) -/
theorem loadLoop_malformed (cfg : Config) (n : Nat) (idx : List Nat) (k : Nat) (hk : 1 ≤ k)
    (htz : ∀ h : cfg.tz = .invalid, False) (hb : cfg.schema.any (fun c => c.2 == .bool) = false)
    (bad : Rec) (rest : List Rec) (hbad : BadRec n bad)
    (fuel : Nat) (p : List Rec) (hf : (p ++ bad :: rest).length < fuel) (hp : ∀ r ∈ p, GoodRec cfg n idx r) :
    (loadLoop cfg n 0 idx k fuel (p ++ bad :: rest)).status = .errReader ∧
    ∃ m, m ≤ p.length ∧
      (loadLoop cfg n 0 idx k fuel (p ++ bad :: rest)).chunks.flatten = (p.take m).map (rowOf cfg idx) := by
  induction fuel generalizing p with
  | zero => omega
  | succ fuel ih =>
    rw [loadLoop, readChunk_prefix_bad k p bad rest hp hbad]
    by_cases hlt : p.length < k
    · have hb' : (ChunkEnd.readerErr == ChunkEnd.readerErr && readerErrorReported) = true := by
        simp [code_reports_reader_errors]
      simp only [hlt, if_true, hb']
      exact ⟨by simp, 0, by omega, by simp⟩
    · simp only [hlt, if_false]
      have hm : (ChunkEnd.more == ChunkEnd.readerErr) = false := by decide
      simp only [hm, Bool.false_and, Bool.false_eq_true, if_false]
      cases p with
      | nil => simp at hlt; omega
      | cons r p' =>
        have hne : ((r :: p').take k).isEmpty = false := by
          cases k with
          | zero => omega
          | succ k => simp
        rw [hne]
        simp only [Bool.false_eq_true, if_false]
        rw [convertChunk_good cfg n idx _ htz hb (fun x hx => hp x (List.mem_of_mem_take hx))]
        have hm2 : (ChunkEnd.more != ChunkEnd.more) = false := by decide
        simp only [hm2, Bool.false_eq_true, if_false]
        have hlen : (((r :: p').drop k) ++ bad :: rest).length < fuel := by
          simp only [List.length_append, List.length_drop, List.length_cons] at hf ⊢; omega
        obtain ⟨h1, m, hm3, h2⟩ := ih ((r :: p').drop k) hlen (fun x hx => hp x (List.mem_of_mem_drop hx))
        refine ⟨h1, k + m, ?_, ?_⟩
        · simp only [List.length_drop] at hm3; omega
        · simp only [List.flatten_cons, h2]
          rw [← List.map_append]
          congr 1
          rw [List.take_add, List.take_drop]

/-! ## arbitrary input: never a panic; `ok` only when every data row was handed to the writer -/

def isBlank (r : Rec) : Bool := r == [[]]
/-- number of data rows (non-blank records) -/
def dataRows (rs : List Rec) : Nat := (rs.filter (fun r => !isBlank r)).length

theorem parseTime_ok (cfg : Config) (dt : Str) (adj : Int) : ∃ o, parseTime cfg dt adj = .ok o := by
  unfold parseTime
  simp only [code_checks_fixup_bounds, code_timestamp_default_zone, if_true]
  repeat' split
  all_goals exact ⟨_, rfl⟩

theorem timeRow_ok (cfg : Config) (st : Int × Bool) (dt : Str) : ∃ o, timeRow cfg st dt = .ok o := by
  unfold timeRow
  obtain ⟨o, ho⟩ := parseTime_ok cfg dt st.1
  rw [ho]
  cases o with
  | some t => exact ⟨_, rfl⟩
  | none =>
    simp only []
    split
    · split
      · obtain ⟨o2, ho2⟩ := parseTime_ok cfg dt ((dt.length : Int) - fmtLen cfg.fmt)
        rw [ho2]
        cases o2 <;> exact ⟨_, rfl⟩
      · exact ⟨_, rfl⟩
    · exact ⟨_, rfl⟩

theorem timeLoop_ok (cfg : Config) (dts : List Str) (st : Int × Bool) :
    ∃ o, timeLoop cfg st dts = .ok o ∧ ∀ ts, o = some ts → ts.length = dts.length := by
  induction dts generalizing st with
  | nil => exact ⟨some [], rfl, fun ts h => by cases h; rfl⟩
  | cons dt rest ih =>
    obtain ⟨o, ho⟩ := timeRow_ok cfg st dt
    rw [timeLoop, ho]
    cases o with
    | none => exact ⟨none, rfl, fun ts h => by cases h⟩
    | some p =>
      obtain ⟨t, st'⟩ := p
      obtain ⟨o2, ho2, hl⟩ := ih st'
      simp only []
      rw [ho2]
      cases o2 with
      | none => exact ⟨none, rfl, fun ts h => by cases h⟩
      | some ts => exact ⟨some (t :: ts), rfl, fun ts' h => by cases h; simp [hl ts rfl]⟩

theorem assemble_length (ts : List Int) (cols : List (List Int)) : (assemble ts cols).length = ts.length := by
  induction ts generalizing cols with
  | nil => rfl
  | cons t ts ih => simp [assemble, ih]

/-- one chunk: the conversion yields one row per record, or one of the three reported errors -/
theorem convertChunk_cases (cfg : Config) (e : Nat) (idx : List Nat) (rows : List Rec) :
    (∃ out, convertChunk cfg e idx rows = .ok out ∧ out.length = rows.length) ∨
    convertChunk cfg e idx rows = .error .errTime ∨ convertChunk cfg e idx rows = .error .errColumn ∨
    convertChunk cfg e idx rows = .error .errUnsupported := by
  unfold convertChunk
  have ht : ∃ o, readTimeColumns cfg e rows = .ok o ∧ ∀ ts, o = some ts → ts.length = rows.length := by
    unfold readTimeColumns
    obtain ⟨o, h1, h2⟩ := timeLoop_ok cfg (rows.map (·.getD e [])) (0, true)
    cases cfg.tz with
    | invalid => exact ⟨none, rfl, fun ts h => by cases h⟩
    | empty => exact ⟨o, h1, fun ts h => by simpa using h2 ts h⟩
    | zone z => exact ⟨o, h1, fun ts h => by simpa using h2 ts h⟩
  obtain ⟨o, h1, h2⟩ := ht
  rw [h1]
  cases o with
  | none => simp [code_reports_time_errors]
  | some ts =>
    simp only []
    cases parseColumns cfg.schema idx rows with
    | none => simp
    | some cols =>
      simp only []
      split
      · simp
      · left
        exact ⟨_, rfl, by rw [assemble_length, h2 ts rfl]⟩

theorem read_facts (n : Nat) (rs : List Rec) :
    match read n rs with
    | .eof => dataRows rs = 0
    | .err rest => rest.length < rs.length
    | .row _ rest => dataRows rs = 1 + dataRows rest ∧ rest.length < rs.length := by
  induction rs with
  | nil => simp [read, dataRows]
  | cons r rest ih =>
    unfold read
    by_cases hb : (r == [[]]) = true
    · simp only [hb, if_true]
      have e : dataRows (r :: rest) = dataRows rest := by simp [dataRows, isBlank, hb]
      cases hr : read n rest with
      | eof => rw [hr] at ih; simpa [e] using ih
      | err rest' => rw [hr] at ih; simp only [List.length_cons] at ih ⊢; omega
      | row r' rest' =>
        rw [hr] at ih
        simp only [List.length_cons, e] at ih ⊢
        exact ⟨ih.1, by omega⟩
    · have hb' : (r == [[]]) = false := by simpa using hb
      simp only [hb', Bool.false_eq_true, if_false]
      have e : dataRows (r :: rest) = 1 + dataRows rest := by
        simp [dataRows, isBlank, hb']; omega
      by_cases hq : hasBareQuote r = true
      · simp [hq]
      · by_cases hl : (r.length != n) = true
        · simp [hq, hl]
        · simp [hq, hl, e]

/-- the read loop on arbitrary input -/
theorem readChunk_facts (n : Nat) (k : Nat) (rs rows : List Rec) (ce : ChunkEnd) (rest : List Rec)
    (h : readChunk n k rs = (rows, ce, rest)) :
    (ce ≠ .readerErr → dataRows rs = rows.length + dataRows rest) ∧
    (ce = .eof → rest = []) ∧
    rest.length + rows.length ≤ rs.length ∧
    (1 ≤ k → rows = [] → ce ≠ .more) := by
  induction k generalizing rs rows ce rest with
  | zero =>
    simp only [readChunk, Prod.mk.injEq] at h
    obtain ⟨rfl, rfl, rfl⟩ := h
    refine ⟨?_, ?_, ?_, ?_⟩
    · intro _; simp
    · intro h; cases h
    · simp
    · intro h; omega
  | succ k ih =>
    have hr := read_facts n rs
    rw [readChunk] at h
    cases hrd : read n rs with
    | eof =>
      rw [hrd] at h hr
      simp only [Prod.mk.injEq] at h hr
      obtain ⟨rfl, rfl, rfl⟩ := h
      refine ⟨?_, ?_, ?_, ?_⟩
      · intro _; rw [hr]; rfl
      · intro _; rfl
      · simp
      · intro _ _ h; cases h
    | err rest0 =>
      rw [hrd] at h hr
      simp only [Prod.mk.injEq] at h hr
      obtain ⟨rfl, rfl, rfl⟩ := h
      refine ⟨?_, ?_, ?_, ?_⟩
      · intro h; exact absurd rfl h
      · intro h; cases h
      · simp only [List.length_nil]; omega
      · intro _ _ h; cases h
    | row r rest0 =>
      rw [hrd] at h hr
      simp only [] at h hr
      generalize ht : readChunk n k rest0 = t at h
      obtain ⟨rows', ce', rest'⟩ := t
      simp only [Prod.mk.injEq] at h
      obtain ⟨rfl, rfl, rfl⟩ := h
      obtain ⟨i1, i2, i3, _⟩ := ih rest0 rows' ce' rest' ht
      refine ⟨fun hne => ?_, i2, ?_, fun _ h => by simp at h⟩
      · have := i1 hne
        simp only [List.length_cons]; omega
      · simp only [List.length_cons]; omega

/-- the load loop on ARBITRARY records (current source): never a panic, and status ok only when
    every data row is in a dataset handed to the writer -/
theorem loadLoop_any (cfg : Config) (n e : Nat) (idx : List Nat) (k : Nat) (hk : 1 ≤ k) (fuel : Nat)
    (rs : List Rec) :
    (loadLoop cfg n e idx k fuel rs).status.isPanic = false ∧
    ((loadLoop cfg n e idx k fuel rs).status = .ok →
      ((loadLoop cfg n e idx k fuel rs).chunks.map List.length).sum = dataRows rs) := by
  induction fuel generalizing rs with
  | zero => exact ⟨rfl, fun h => by cases h⟩
  | succ fuel ih =>
    rw [loadLoop]
    generalize hrc : readChunk n k rs = t
    obtain ⟨rows, ce, rest⟩ := t
    obtain ⟨f1, f2, f3, f4⟩ := readChunk_facts n k rs rows ce rest hrc
    simp only []
    simp only [code_reports_reader_errors, Bool.and_true]
    by_cases hre : ce = .readerErr
    · subst hre
      simp only [beq_self_eq_true, if_true]
      exact ⟨rfl, fun h => by cases h⟩
    · have hre' : (ce == ChunkEnd.readerErr) = false := by simpa using hre
      simp only [hre', Bool.false_eq_true, if_false]
      cases rows with
      | nil =>
        simp only [List.isEmpty_nil, if_true]
        refine ⟨rfl, fun _ => ?_⟩
        have hce : ce = .eof := by
          have := f4 hk rfl
          cases ce <;> simp_all
        have := f1 hre
        rw [f2 hce] at this
        simpa [dataRows] using this.symm
      | cons r rows' =>
        simp only [List.isEmpty_cons, Bool.false_eq_true, if_false]
        rcases convertChunk_cases cfg e idx (r :: rows') with ⟨out, ho, hl⟩ | he | he | he
        · rw [ho]
          simp only []
          by_cases hmore : ce = .more
          · subst hmore
            have hm : (ChunkEnd.more != ChunkEnd.more) = false := by decide
            simp only [hm, Bool.false_eq_true, if_false]
            obtain ⟨i1, i2⟩ := ih rest
            refine ⟨i1, fun hok => ?_⟩
            have := i2 hok
            have h1 := f1 hre
            simp only [List.map_cons, List.sum_cons, this, hl]
            omega
          · have hm : (ce != ChunkEnd.more) = true := by simpa using hmore
            simp only [hm, if_true]
            refine ⟨rfl, fun _ => ?_⟩
            have hce : ce = .eof := by cases ce <;> simp_all
            have h1 := f1 hre
            rw [f2 hce] at h1
            simp only [List.map_cons, List.map_nil, List.sum_cons, List.sum_nil, hl]
            simp [dataRows] at h1 ⊢
            omega
        · rw [he]; exact ⟨rfl, fun h => by cases h⟩
        · rw [he]; exact ⟨rfl, fun h => by cases h⟩
        · rw [he]; exact ⟨rfl, fun h => by cases h⟩

end Mkts.Csv
