import Mkts.Lemmas.VStore
/-!
# C09 — Variable-length buckets keep every record in time order

Model: `Mkts.VStore` (WriteRecords grouping, append + stable sort by ticks per interval, index
scan, second-stage expansion), for EVERY tick encoder/decoder `F` (the code's are
`GetIntervalTicks32Bit` / the repaired `GetTimeFromTicks`, whose precision and monotonicity are
C10's theorems).  Theorems: every written record is stored exactly once in the slot of its
interval (multiset equality), every slot is sorted by ticks, the unrestricted query returns the
slots in (year, slot) order — so every record comes back exactly once; the time-order clause holds
for every decoder that is monotone in the ticks.
-/
namespace Mkts.Props.C09
open Mkts.VStore Mkts.Store Mkts.Time Mkts.Bytes

def allRows (hist : List (List VRow)) : List VRow := hist.flatten

/-- the records written to interval `k`, in write order -/
def writtenTo (F : TickFns) (tf : Int) (k : Int × Int) (rows : List VRow) : List VRec :=
  (rows.filter (fun r => rowKey tf r = k)).map (recOf F tf)

theorem recsFor_writeRecords (F : TickFns) (tf : Int) (k : Int × Int) (rows : List VRow) :
    recsFor k (VStore.writeRecords F tf rows) = writtenTo F tf k rows := by
  rw [recsFor_eq_keyed, keyed_writeRecords]
  simp [writtenTo, List.filter_map, Function.comp_def]

/-- EXACTLY ONCE: after any history, the slot of every interval holds a permutation of exactly the
    records written to that interval (nothing lost, nothing duplicated, nothing foreign). -/
theorem C09_slot_content (F : TickFns) (tf : Int) (hist : List (List VRow)) (k : Int × Int) :
    ((VStore.applyHist F tf hist).get k).Perm (writtenTo F tf k (allRows hist)) := by
  unfold VStore.applyHist
  suffices h : ∀ (s : VSlots) (base : List VRec), (s.get k).Perm base →
      ((hist.foldl (fun s req => VStore.applyCmds s (VStore.writeRecords F tf req)) s).get k).Perm
        (base ++ writtenTo F tf k (allRows hist)) by
    simpa using h [] [] (by simp [VSlots.get])
  induction hist with
  | nil => intro s base hb; simpa [allRows, writtenTo] using hb
  | cons req rest ih =>
    intro s base hb
    simp only [List.foldl_cons]
    have h1 := get_applyCmds (VStore.writeRecords F tf req) s k
    rw [recsFor_writeRecords] at h1
    have h2 := ih _ (base ++ writtenTo F tf k req) (h1.trans (List.Perm.append_right _ hb))
    refine h2.trans ?_
    simp [allRows, writtenTo, List.append_assoc]

/-- every slot is sorted by interval ticks (the on-disk order the reader relies on) -/
theorem C09_slot_sorted (F : TickFns) (tf : Int) (hist : List (List VRow)) (k : Int × Int) :
    SortedT ((VStore.applyHist F tf hist).get k) := by
  unfold VStore.applyHist
  suffices h : ∀ s : VSlots, (∀ k, SortedT (s.get k)) →
      ∀ k, SortedT ((hist.foldl (fun s req => VStore.applyCmds s (VStore.writeRecords F tf req)) s).get k) from
    h [] (by intro k; simp [VSlots.get, SortedT]) k
  induction hist with
  | nil => intro s hs k; simpa using hs k
  | cons req rest ih =>
    intro s hs
    simp only [List.foldl_cons]
    exact ih _ (sorted_applyCmds _ s hs)

/-- the unrestricted query: every filled slot with index ≥ 1 in (year, slot) order, each expanded
    to its records in stored order -/
theorem C09_query_all (F : TickFns) (tf : Int) (s : VSlots) :
    VStore.query F tf s ⟨none, none, none⟩ =
      (((sortedSlotsV s).filter (fun kv => decide (1 ≤ kv.1.2))).map (expandSlot F tf)).flatten := by
  simp [VStore.query, trimRange, inRange]

/-- a decoder that is monotone in the ticks (C10: the repaired `GetTimeFromTicks` is) -/
def DecMono (F : TickFns) : Prop :=
  ∀ start ipd k1 k2, k1 ≤ k2 →
    (F.dec start ipd k1).1 * nsPerSec + (F.dec start ipd k1).2 ≤ (F.dec start ipd k2).1 * nsPerSec + (F.dec start ipd k2).2

/-- TIME ORDER inside an interval: the rows of a slot come back in non-decreasing time order -/
theorem C09_slot_time_order (F : TickFns) (hm : DecMono F) (tf : Int) (kv : (Int × Int) × List VRec)
    (hs : SortedT kv.2) :
    (expandSlot F tf kv).Pairwise (fun a b => a.ns ≤ b.ns) := by
  unfold expandSlot
  simp only [List.pairwise_map]
  exact hs.imp (fun {a b} hab => by simpa [VRow.ns] using hm _ _ _ _ hab)

/-- the values come back unchanged: the payload of every returned row is a stored payload -/
theorem C09_values (F : TickFns) (tf : Int) (kv : (Int × Int) × List VRec) :
    (expandSlot F tf kv).map (·.payload) = kv.2.map (·.payload) := by
  simp [expandSlot, Function.comp_def]

/-! non-vacuity: three records written unsorted to one interval and one to another come back
sorted, once each (exact tick functions: ticks = offset, decode = start + ticks) -/
def demoF : TickFns :=
  { enc := fun ts _ _ => ts % 60000000000, dec := fun start _ k => (start + k / 1000000000, k % 1000000000) }

example : VStore.query demoF 60000000000 (VStore.applyHist demoF 60000000000
      [[⟨1577836830, 5, [1]⟩, ⟨1577836810, 0, [2]⟩], [⟨1577836900, 0, [3]⟩, ⟨1577836820, 7, [4]⟩]]) ⟨none, none, none⟩
    = [⟨1577836810, 0, [2]⟩, ⟨1577836820, 7, [4]⟩, ⟨1577836830, 5, [1]⟩, ⟨1577836900, 0, [3]⟩] := by decide

end Mkts.Props.C09
