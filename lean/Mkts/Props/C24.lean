import Mkts.Lemmas.OnDiskAgg
/-!
# C24 On-disk aggregation matches the base data

Model: `Mkts/Model/OnDiskAgg.lean` (`Fire`, `write`, `writeAggregates`, `aggregate`, the cache,
`SliceColumnSeriesByEpoch`, `ColumnSeriesUnion`) on top of the Store model (base and destination
buckets are `Store.Slots`, read with `Store.query`, written with `writeRecords`/`applyCmds`).

* `aggregate_spec` (all series): on a time-sorted series `aggregate` produces exactly one bar per
  window with first open / `MaxFloat32` high / `MinFloat32` low / last close / exact total volume
  (`maxF_spec`: for numbers that high is an element and no element is greater).
* `C24_full` - after every history the destination bucket equals the aggregate of the base bars
  currently stored - is FALSE of the code: `C24_cex_stale` (correction of a cached bar keeps the
  stale value), `C24_cex_window` (a write reaching back into an earlier window re-aggregates that
  window from the written rows only), `C24_cex_unordered` (rows of one request not in time order).
* `C24_partial`: the cache-miss / first-firing path - every destination is rewritten with the
  property's aggregate of what the base bucket query returned for the touched windows.
-/
namespace Mkts.Props.C24
open Mkts.OnDiskAgg Mkts.Store Mkts.Timeframe Mkts.Time List

/-! ## `aggregate` -/

theorem mem_specGroups (key : Bar → Int) (cs : CS) (g : Int × Bar × List Bar)
    (hg : g ∈ specGroups key cs) : ∀ x ∈ g.2.1 :: g.2.2, x ∈ cs := by
  simp only [specGroups, List.mem_filterMap] at hg
  obtain ⟨w, _, hw⟩ := hg
  split at hw
  · cases hw
  · rename_i b bs heq
    cases hw
    intro x hx
    have : x ∈ cs.filter (fun b => key b == w) := by rw [heq]; exact hx
    exact (List.mem_filter.mp this).1

theorem accum_eq_specBar (g : Int × Bar × List Bar) (hv : ∀ x ∈ g.2.1 :: g.2.2, 0 ≤ x.v)
    (hs : (specBar g).v ≤ 2147483647) : accum (g.1 / nsPerSec) g.2.1 g.2.2 = some (specBar g) := by
  have hvs : ∀ v ∈ g.2.1.v :: g.2.2.map (·.v), 0 ≤ v := by
    intro v hv'
    rcases List.mem_cons.mp hv' with rfl | h
    · exact hv _ (by simp)
    · obtain ⟨x, hx, rfl⟩ := List.mem_map.mp h
      exact hv x (List.mem_cons_of_mem _ hx)
  have hs' : (g.2.1.v :: g.2.2.map (·.v)).foldl (· + ·) 0 ≤ 2147483647 := hs
  have := sumI32_complete (g.2.1.v :: g.2.2.map (·.v)) 0 (by omega) hvs hs'
  simp only [accum, this]
  rfl

theorem mapM_accum (G : List (Int × Bar × List Bar))
    (h : ∀ g ∈ G, (∀ x ∈ g.2.1 :: g.2.2, 0 ≤ x.v) ∧ (specBar g).v ≤ 2147483647) :
    G.mapM (fun g => accum (g.1 / nsPerSec) g.2.1 g.2.2) = some (G.map specBar) := by
  induction G with
  | nil => rfl
  | cons g G ih =>
    have hg := h g (by simp)
    have ih' := ih (fun g' hg' => h g' (List.mem_cons_of_mem _ hg'))
    simp only [List.mapM_cons, accum_eq_specBar g hg.1 hg.2, ih', List.map_cons]
    rfl

/-- **aggregate_spec**: for every candle duration with fixed intraday windows and every series in
    time order (any length, duplicates allowed) whose volumes are non-negative and whose window
    totals fit int32, `aggregate` returns exactly one bar per window that has bars: first open,
    highest high, lowest low, last close, total volume. -/
theorem aggregate_spec (cd : CandleDuration) (hcd : Intraday cd) (cs : CS)
    (hs : cs.Pairwise (fun a b => a.t ≤ b.t)) (hv : ∀ b ∈ cs, 0 ≤ b.v)
    (hsum : ∀ b ∈ specAgg cd cs, b.v ≤ 2147483647) :
    aggregate cd cs = some (specAgg cd cs) := by
  have hk : cs.Pairwise (fun a c => winKey cd a ≤ winKey cd c) :=
    hs.imp (fun {a b} hab => winKey_mono cd hcd hab)
  have hg : groups cd cs = specGroups (winKey cd) cs := by
    rw [groups_eq_runs cd hcd, runs_eq_specGroups (winKey cd) cs.length cs (Nat.le_refl _) hk]
  simp only [aggregate, hg, specAgg]
  apply mapM_accum
  intro g hgm
  refine ⟨fun x hx => hv x (mem_specGroups _ cs g hgm x hx), ?_⟩
  exact hsum _ (List.mem_map.mpr ⟨g, hgm, rfl⟩)

/-- if `aggregate` returns at all on a time-sorted series of int32 volumes ≥ 0, it returned the spec -/
theorem aggregate_sound (cd : CandleDuration) (hcd : Intraday cd) (cs out : CS)
    (hs : cs.Pairwise (fun a b => a.t ≤ b.t)) (hv : ∀ b ∈ cs, 0 ≤ b.v ∧ b.v ≤ 2147483647)
    (h : aggregate cd cs = some out) : out = specAgg cd cs := by
  have hk : cs.Pairwise (fun a c => winKey cd a ≤ winKey cd c) :=
    hs.imp (fun {a b} hab => winKey_mono cd hcd hab)
  have hg : groups cd cs = specGroups (winKey cd) cs := by
    rw [groups_eq_runs cd hcd, runs_eq_specGroups (winKey cd) cs.length cs (Nat.le_refl _) hk]
  simp only [aggregate, hg, specAgg] at h ⊢
  have key : ∀ (G : List (Int × Bar × List Bar)) (out : CS),
      (∀ g ∈ G, ∀ x ∈ g.2.1 :: g.2.2, 0 ≤ x.v ∧ x.v ≤ 2147483647) →
      G.mapM (fun g => accum (g.1 / nsPerSec) g.2.1 g.2.2) = some out → out = G.map specBar := by
    intro G
    induction G with
    | nil => intro out _ h; simp at h; simp [h]
    | cons g G ih =>
      intro out hG h
      simp only [List.mapM_cons] at h
      cases hacc : accum (g.1 / nsPerSec) g.2.1 g.2.2 with
      | none => simp [hacc] at h
      | some b =>
        cases hrest : G.mapM (fun g => accum (g.1 / nsPerSec) g.2.1 g.2.2) with
        | none => simp [hacc, hrest] at h
        | some bs =>
          simp [hacc, hrest] at h
          have hbs := ih bs (fun g' hg' => hG g' (List.mem_cons_of_mem _ hg')) hrest
          have hb : b = specBar g := by
            simp only [accum] at hacc
            cases hsum : sumI32 0 (g.2.1.v :: g.2.2.map (·.v)) with
            | none => simp [hsum] at hacc
            | some v =>
              have hvs : ∀ v ∈ g.2.1.v :: g.2.2.map (·.v), 0 ≤ v ∧ v ≤ 2147483647 := by
                intro v hv'
                rcases List.mem_cons.mp hv' with rfl | h'
                · exact hG g (by simp) _ (by simp)
                · obtain ⟨x, hx, rfl⟩ := List.mem_map.mp h'
                  exact hG g (by simp) x (List.mem_cons_of_mem _ hx)
              have := sumI32_some _ 0 v (by omega) (by omega) hvs hsum
              simp only [hsum, Option.some.injEq] at hacc
              rw [← hacc, this]
              rfl
          rw [← h, hb, hbs, List.map_cons]
  exact key _ out (fun g hgm x hx => hv x (mem_specGroups _ cs g hgm x hx)) h

/-! ## the cache-miss / first-firing path -/

theorem slice_sublist (cs : CS) (a b : Int) : (sliceByEpoch cs a b).Sublist cs := by
  simp only [sliceByEpoch]
  have h1 : (match findIdxGE a cs 0 with | some i => cs.drop i | none => cs).Sublist cs := by
    split
    · exact List.drop_sublist _ _
    · exact List.Sublist.refl _
  split
  · exact (List.take_sublist _ _).trans h1
  · exact h1

/-- every `WriteCSM` issued by `write` carries the property's aggregate of the slice it was computed
    from (intraday destinations, series in time order, int32 volumes ≥ 0) -/
theorem writeLoop_spec (upDur : Int) (cs : CS) (head tail : Int)
    (hs : cs.Pairwise (fun a b => a.t ≤ b.t)) (hv : ∀ b ∈ cs, 0 ≤ b.v ∧ b.v ≤ 2147483647) :
    ∀ (dests : List Dest) (acc : WriteRes) (d : Str) (out : CS),
      (d, out) ∈ (writeLoop upDur cs head tail dests acc).writes →
      (d, out) ∈ acc.writes ∨
        ∃ w, candleDurationFromString d = some w ∧
          (Intraday w → out = specAgg w (sliceByEpoch cs (truncSec w head) (ceilSec w tail - 1))) := by
  intro dests
  induction dests with
  | nil => intro acc d out h; exact Or.inl h
  | cons d0 ds ih =>
    intro acc d out h
    simp only [writeLoop] at h
    split at h
    · exact Or.inl h
    · rename_i w hw
      split at h
      · exact ih acc d out h
      · split at h
        · exact Or.inl h
        · rename_i res hagg
          rcases ih _ d out h with h' | h'
          · simp only [List.mem_append, List.mem_singleton, Prod.mk.injEq] at h'
            rcases h' with h' | ⟨rfl, rfl⟩
            · exact Or.inl h'
            · refine Or.inr ⟨w, hw, fun hin => ?_⟩
              have hsub := slice_sublist cs (truncSec w head) (ceilSec w tail - 1)
              exact aggregate_sound w hin _ _ (hs.sublist hsub) (fun b hb => hv b (hsub.subset hb)) hagg
          · exact Or.inr h'

/-- what a cache-miss call must have written to destination `d`: the property's aggregate of the rows
    the base-bucket query returned for `[Truncate(head), Ceil(tail))` of the upper bound, restricted
    to `d`'s windows around the written range -/
def MissSpec (dests : List Dest) (q : Int → Int → Option CS) (year : Int) (recs : List Rec) (d : Str)
    (out : CS) : Prop :=
  ∃ w up window cs r0 rest, ∃ (_ : recs = r0 :: rest), upperBound dests = some up ∧
    candleDurationFromString up.str = some window ∧ candleDurationFromString d = some w ∧
    q (truncSec window (recTime year r0))
      (ceilSec window (recTime year ((r0 :: rest).getLast (by simp))) - 1) = some cs ∧
    (Intraday w → out = specAgg w (sliceByEpoch cs (truncSec w (recTime year r0))
      (ceilSec w (recTime year ((r0 :: rest).getLast (by simp))) - 1)))

theorem queryPath_spec (dests : List Dest) (q : Int → Int → Option CS) (year : Int) (r0 : Rec)
    (rest : List Rec) (up : Dest) (window : CandleDuration) (hup : upperBound dests = some up)
    (hwin : candleDurationFromString up.str = some window)
    (hq : ∀ a b cs, q a b = some cs →
      cs.Pairwise (fun x y => x.t ≤ y.t) ∧ ∀ x ∈ cs, 0 ≤ x.v ∧ x.v ≤ 2147483647)
    (cache' : Option Cached) (d : Str) (out : CS)
    (h : (d, out) ∈ (match q (truncSec window (recTime year r0))
            (ceilSec window (recTime year ((r0 :: rest).getLast (by simp))) - 1) with
          | none => (⟨[], cache'⟩ : WriteRes)
          | some cs => writeLoop up.duration cs (recTime year r0)
              (recTime year ((r0 :: rest).getLast (by simp))) dests ⟨[], cache'⟩).writes) :
    MissSpec dests q year (r0 :: rest) d out := by
  split at h
  · simp at h
  · rename_i cs hcs
    have := hq _ _ cs hcs
    rcases writeLoop_spec up.duration cs _ _ this.1 this.2 dests _ d out h with h' | ⟨w, hw, hspec⟩
    · simp at h'
    · exact ⟨w, up, window, cs, r0, rest, rfl, hup, hwin, hw, hcs, hspec⟩

/-- **C24_partial** (cache miss: first firing for a bucket, or the written range does not overlap the
    cached window): whatever `Fire` writes to a destination is the property's aggregate - first open,
    highest high, lowest low, last close, total volume per window - of the rows the base-bucket query
    returned, restricted to that destination's windows; nothing comes from the cache.  The excluded
    class is exactly "cache hit" (`hmiss` false). -/
theorem C24_partial (dests : List Dest) (q : Int → Int → Option CS) (cache : Option Cached) (year : Int)
    (recs : List Rec)
    (hmiss : ∀ c, cache = some c → ∀ r0 rest (_ : recs = r0 :: rest),
      c.valid (recTime year ((r0 :: rest).getLast (by simp))) (recTime year r0) = false)
    (hq : ∀ a b cs, q a b = some cs →
      cs.Pairwise (fun x y => x.t ≤ y.t) ∧ ∀ x ∈ cs, 0 ≤ x.v ∧ x.v ≤ 2147483647)
    (d : Str) (out : CS) (h : (d, out) ∈ (fire dests q cache year recs).writes) :
    MissSpec dests q year recs d out := by
  unfold fire at h
  split at h
  · simp at h
  · simp at h
  · rename_i r0 rest up hup
    split at h
    · simp at h
    · rename_i window hwin
      dsimp only at h
      split at h
      · rename_i c
        have hv := hmiss c rfl r0 rest rfl
        simp only [hv, Bool.false_eq_true, if_false] at h
        exact queryPath_spec dests q year r0 rest up window hup hwin hq _ d out h
      · exact queryPath_spec dests q year r0 rest up window hup hwin hq _ d out h

/-! ## the full statement and its counterexamples -/

/-- after every history of base-bar writes in the property's domain, each destination bucket holds
    exactly the aggregate of the base bars currently stored -/
def C24_full : Prop :=
  ∀ (names : List Str) (dests : List Dest) (hist : List (List Row)),
    newTrigger names = some dests → histInDomain dests hist = true →
    ∀ d ∈ dests, ∀ cd, candleDurationFromString d.str = some cd →
      destBars (runHist dests hist) d = specAgg cd (baseBars (runHist dests hist))

def fiveMin : Str := ['5','M','i','n']
def dests5 : List Dest := [⟨fiveMin, 300000000000⟩]
def cd5 : CandleDuration := ⟨fiveMin, 300000000000, Suffix.Min, 5⟩

/-- 2020-03-01 10:00:00 UTC -/
def t0 : Int := 1583056800
def p1 : Nat := 1065353216   -- 1.0
def p2 : Nat := 1073741824   -- 2.0
def p3 : Nat := 1077936128   -- 3.0
def p4 : Nat := 1082130432   -- 4.0
def p99 : Nat := 1120272384  -- 99.0

def row (t : Int) (o h l c : Nat) (v : Int) : Row := ⟨t, payloadOfBar ⟨t, o, h, l, c, v⟩⟩

/-- bars 10:00-10:02, then a correction of 10:01 (high 99, volume 500) -/
def histStale : List (List Row) :=
  [[row t0 p2 p3 p1 p2 100, row (t0 + 60) p2 p3 p1 p2 100, row (t0 + 120) p2 p4 p1 p3 100],
   [row (t0 + 60) p2 p99 p1 p2 500]]

/-- 10:00, 10:01; then 10:07 (cache moves to the 10:05 window); then one request 10:03 + 10:06 -/
def histWindow : List (List Row) :=
  [[row t0 p2 p3 p1 p2 100, row (t0 + 60) p2 p3 p1 p2 100],
   [row (t0 + 420) p1 p2 p1 p1 10],
   [row (t0 + 180) p3 p4 p3 p3 100, row (t0 + 360) p1 p1 p1 p1 7]]

/-- one request whose rows are not in time order: 10:07 before 10:01 -/
def histUnordered : List (List Row) :=
  [[row (t0 + 420) p1 p2 p1 p1 10, row (t0 + 60) p2 p3 p1 p2 100]]

theorem cd5_ok : candleDurationFromString fiveMin = some cd5 := by decide
theorem dests5_ok : newTrigger [fiveMin] = some dests5 := by decide

/-- F21a: the corrected bar is already in the cache, `ColumnSeriesUnion(new, cached)` keeps the cached
    row: the 5Min bar stays high 4 / volume 300 although the base data says high 99 / volume 700 -/
theorem C24_cex_stale :
    histInDomain dests5 histStale = true ∧
    destBars (runHist dests5 histStale) ⟨fiveMin, 300000000000⟩ = [⟨t0, p2, p4, p1, p3, 300⟩] ∧
    specAgg cd5 (baseBars (runHist dests5 histStale)) = [⟨t0, p2, p99, p1, p3, 700⟩] := by
  decide

/-- F21b: the write `[10:03, 10:06]` overlaps the cached 10:05 window, so nothing is read from disk and
    the 10:00 window is re-aggregated from the single written row 10:03 -/
theorem C24_cex_window :
    histInDomain dests5 histWindow = true ∧
    destBars (runHist dests5 histWindow) ⟨fiveMin, 300000000000⟩
      = [⟨t0, p3, p4, p3, p3, 100⟩, ⟨t0 + 300, p1, p2, p1, p1, 17⟩] ∧
    specAgg cd5 (baseBars (runHist dests5 histWindow))
      = [⟨t0, p2, p4, p1, p3, 300⟩, ⟨t0 + 300, p1, p2, p1, p1, 17⟩] := by
  decide

/-- rows not in time order: `head` (first record) lies after `tail` (last record), the query range is
    empty and no aggregate is written at all -/
theorem C24_cex_unordered :
    histInDomain dests5 histUnordered = true ∧
    destBars (runHist dests5 histUnordered) ⟨fiveMin, 300000000000⟩ = [] ∧
    specAgg cd5 (baseBars (runHist dests5 histUnordered))
      = [⟨t0, p2, p3, p1, p2, 100⟩, ⟨t0 + 300, p1, p2, p1, p1, 10⟩] := by
  decide

theorem C24_not_full : ¬ C24_full := by
  intro h
  have h1 := h [fiveMin] dests5 histStale dests5_ok C24_cex_stale.1 ⟨fiveMin, 300000000000⟩ (by simp [dests5])
    cd5 cd5_ok
  rw [C24_cex_stale.2.1, C24_cex_stale.2.2] at h1
  exact absurd h1 (by decide)

/-! ## non-vacuity -/

/-- a first firing (cache miss) on fresh data: the destination equals the spec -/
example : destBars (runHist dests5 [histStale.headD []]) ⟨fiveMin, 300000000000⟩
    = specAgg cd5 (baseBars (runHist dests5 [histStale.headD []])) := by decide
example : Intraday cd5 := Or.inr (Or.inl rfl)
example : aggregate cd5 [⟨t0, p2, p3, p1, p2, 100⟩, ⟨t0 + 60, p2, p99, p1, p2, 500⟩, ⟨t0 + 300, p1, p1, p1, p1, 7⟩]
    = some [⟨t0, p2, p99, p1, p2, 600⟩, ⟨t0 + 300, p1, p1, p1, p1, 7⟩] := by decide

end Mkts.Props.C24
