import Mkts.Lemmas.SqlSat
/-!
# C19 — SQL WHERE predicates select exactly the matching rows (fixed-length buckets, zone UTC)

`selectWhere` is the model of what `SELECT * FROM t WHERE c₁ AND … AND cₙ` returns
(`StaticPredicate` compiler, Epoch push-down into the planner, post-filter, `RestrictViaBitmap`);
`specWhere` is what the property demands: the rows of the last-writer-wins table that satisfy the
conjunction with the usual meaning.

The full statement is FALSE of the code (six counterexample theorems, each replayed on the real
code by `corpus/C19/known_*.ops`).  `C19_partial` proves it for every history and every
conjunction outside exactly those input classes.
-/
namespace Mkts.Props.C19
open Mkts.Sql Mkts.Store Mkts.Time Mkts.Bytes Mkts.Props

/-- the code's answer to `SELECT * FROM t WHERE conj` on a bucket holding `s` -/
def selectWhere (tf : Int) (cols : List ColDef) (s : Slots) (conj : List Conj) : List Row :=
  selectRows ⟨"", tf, cols, s⟩ (buildGroup conj) 0

/-- the demanded answer: filter of the last-writer-wins table by the conjunction -/
def specWhere (tf : Int) (cols : List ColDef) (hist : List (List Row)) (conj : List Conj) : List Row :=
  (specAll tf hist).filter (fun r => satAll cols conj r == some true)

/-- the property speaks about the statement: every conjunct has a truth value on every stored row
    (known columns, no NaN, no decimal Epoch literal) -/
def Speaks (tf : Int) (cols : List ColDef) (hist : List (List Row)) (conj : List Conj) : Prop :=
  ∀ r ∈ specAll tf hist, satAll cols conj r ≠ none

/-- The property as stated. -/
def C19_full : Prop :=
  ∀ (tf : Int) (cols : List ColDef) (hist : List (List Row)) (conj : List Conj),
    0 < tf → tf ≠ dayNs → tf % 1000000000 = 0 → Speaks tf cols hist conj →
    selectWhere tf cols (applyHist tf hist) conj = specWhere tf cols hist conj

/-! ## BETWEEN -/

/-- `x BETWEEN lo AND hi` compiles to the two STRICT bounds `x > lo`, `x < hi` -/
theorem between_strict (col : String) (lo hi : Lit) :
    (Conj.between col lo hi).pending =
      { min := some lo, max := some hi, equal := none, inclMin := false, inclMax := false } := rfl

/-- … and the post-filter applies exactly these two strict tests -/
theorem between_strict_filter (ty : ColTy) (col : String) (lo hi : Lit) (b : Bytes) :
    keepSP ty (Conj.between col lo hi).pending b = (keepVal ty .gt lo b && keepVal ty .lt hi b) :=
  keepSP_between ty lo hi b

/-- on an int64 column: strictly between, endpoints excluded -/
theorem between_strict_i64 (col : String) (lo hi : Int) (b : Bytes) :
    keepSP .i64 (Conj.between col (.int lo) (.int hi)).pending b =
      (decide (lo < leDecodeInt b) && decide (leDecodeInt b < hi)) := by
  rw [between_strict_filter, keepVal_i64, keepVal_i64]
  simp [keepInt]

/-! ## the compiler under one predicate per column -/

theorem C19_compile (conj : List Conj) (h : (conj.map Conj.col).Nodup) :
    buildGroup conj = conj.map (fun c => (c.col, c.pending)) := buildGroup_nodup conj h

/-- with stable Epoch literals the post-filter is a filter by a per-row predicate -/
theorem C19_postfilter (cols : List ColDef) (g : Group) (rows : List Row)
    (h : ∀ sp, g.get "Epoch" = some sp → sp.EpochStable) :
    postFilter cols g rows = rows.filter (keepRow cols g) := postFilter_eq_filter cols g rows h

/-! ## counterexamples (each is also a corpus witness executed on the real code) -/

/-- bucket used by the witnesses: 1Min, one int32 column, bars 10:00 … 10:03 on 2020-03-01 -/
def wTf : Int := 60000000000
def wCols : List ColDef := [⟨"A", .i32⟩]
def wHist : List (List Row) :=
  [[⟨1583056800, [1,0,0,0]⟩, ⟨1583056860, [2,0,0,0]⟩, ⟨1583056920, [3,0,0,0]⟩, ⟨1583056980, [4,0,0,0]⟩]]

theorem w_speaks (conj : List Conj) (h : (specAll wTf wHist).all (fun r => (satAll wCols conj r).isSome) = true) :
    Speaks wTf wCols wHist conj := by
  intro r hr hn
  have := List.all_eq_true.mp h r hr
  rw [hn] at this
  exact absurd this (by decide)

/-- F1: two upper bounds on one column — `A < 4 AND A < 2` returns the rows with `A < 4`
    (the looser bound survives, in either order) -/
theorem C19_cex_looser_bound : ¬ C19_full := by
  intro h
  have := h wTf wCols wHist [.cmp "A" .lt (.int 4), .cmp "A" .lt (.int 2)] (by decide) (by decide) (by decide)
    (w_speaks _ (by decide))
  revert this
  decide

/-- F1 (other side / sticky flag): `A >= 3 AND A > 1` returns `A >= 1` … here `A > 1 AND A > 3` ⇒ `A > 1` -/
theorem C19_cex_looser_lower_bound : ¬ C19_full := by
  intro h
  have := h wTf wCols wHist [.cmp "A" .gt (.int 1), .cmp "A" .gt (.int 3)] (by decide) (by decide) (by decide)
    (w_speaks _ (by decide))
  revert this
  decide

/-- F2: `Epoch <= e` with `e` exactly the stamp of a stored bar (nanosecond / datetime form) drops
    that bar: the push-down ends the scan at `e - 1ns` -/
theorem C19_cex_inclusive_edge : ¬ C19_full := by
  intro h
  have := h wTf wCols wHist [.cmp "Epoch" .le (.int 1583056920000000000)] (by decide) (by decide) (by decide)
    (w_speaks _ (by decide))
  revert this
  decide

/-- F3: an Epoch upper bound given in epoch SECONDS returns nothing: the push-down reads the
    literal as nanoseconds (1970) while the post-filter scales it -/
theorem C19_cex_epoch_seconds : ¬ C19_full := by
  intro h
  have := h wTf wCols wHist [.cmp "Epoch" .lt (.int 1583056920)] (by decide) (by decide) (by decide)
    (w_speaks _ (by decide))
  revert this
  decide

/-- F5: a tiny epoch-seconds literal (1 … 32) is multiplied by 10⁹ again on every row of the
    post-filter loop: `Epoch > 5` keeps only the first row -/
theorem C19_cex_tiny_epoch_literal : ¬ C19_full := by
  intro h
  have := h wTf wCols wHist [.cmp "Epoch" .gt (.int 5)] (by decide) (by decide) (by decide)
    (w_speaks _ (by decide))
  revert this
  decide

/-- F6: a decimal literal on an integer column is truncated: `A < 1.5` loses the row `A = 1`
    (0x3FF8000000000000 = 1.5) -/
theorem C19_cex_decimal_on_int : ¬ C19_full := by
  intro h
  have := h wTf wCols wHist [.cmp "A" .lt (.flt 0x3FF8000000000000)] (by decide) (by decide) (by decide)
    (w_speaks _ (by decide))
  revert this
  decide

/-- F6 (range): an integer literal outside int32 wraps: `A < 3000000000` on an int32 column is empty -/
theorem C19_cex_int32_wrap : ¬ C19_full := by
  intro h
  have := h wTf wCols wHist [.cmp "A" .lt (.int 3000000000)] (by decide) (by decide) (by decide)
    (w_speaks _ (by decide))
  revert this
  decide

/-- F4: a predicate on a column whose Go slice type has no case in the post-filter switch
    (int16, int8, uint8 … uint64) is ignored: `S < 2` on an int16 column returns every row -/
theorem C19_cex_unfiltered_type : ¬ C19_full := by
  intro h
  have := h wTf [⟨"S", .other 2 true⟩] [[⟨1583056800, [1,0]⟩, ⟨1583056860, [2,0]⟩, ⟨1583056920, [3,0]⟩]]
    [.cmp "S" .lt (.int 2)] (by decide) (by decide) (by decide)
    (by intro r hr hn
        have := List.all_eq_true.mp (show (specAll wTf [[⟨1583056800, [1,0]⟩, ⟨1583056860, [2,0]⟩, ⟨1583056920, [3,0]⟩]]).all
          (fun r => (satAll [⟨"S", .other 2 true⟩] [.cmp "S" .lt (.int 2)] r).isSome) = true by decide) r hr
        rw [hn] at this; exact absurd this (by decide))
  revert this
  decide

/-! ## the partial theorem -/

/-- **C19, partial.**  For every history of writes, every sub-day timeframe of whole seconds, every
    schema and every conjunction such that

    * `wf`     : there is at most ONE conjunct per column (BETWEEN counts as one) and every
                 predicate column is Epoch or a schema column,
    * `hfit`   : a value column carrying a predicate has a type the post-filter handles
                 (int32/int64/float32/float64), integer columns get integer literals inside the
                 column's range, float literals are not NaN in the column's precision,
    * `hepoch` : Epoch literals are in nanosecond form (datetime strings always are) and an
                 INCLUSIVE upper bound is not exactly the stamp of a stored bar,
    * `hrange` : stored stamps are representable as int64 nanoseconds,
    * `hspeaks`: the property assigns a truth value to every row (no NaN stored, …),

    `SELECT * … WHERE conj` returns exactly the stored rows satisfying the conjunction, in time
    order. -/
theorem C19_partial (tf : Int) (cols : List ColDef) (hist : List (List Row)) (conj : List Conj)
    (htf : 0 < tf) (hd : tf ≠ dayNs) (hsec : tf % 1000000000 = 0)
    (wf : WellFormed cols conj)
    (hfit : ∀ c ∈ conj, c.col ≠ "Epoch" → ∀ d ∈ cols, d.name = c.col → ∀ l ∈ c.lits, Fits d.ty l)
    (hepoch : ∀ c ∈ conj, c.col = "Epoch" → EpochOK (specAll tf hist) c.pending)
    (hrange : ∀ r ∈ specAll tf hist, NsRange r.sec)
    (hspeaks : Speaks tf cols hist conj) :
    selectWhere tf cols (applyHist tf hist) conj = specWhere tf cols hist conj := by
  have hall := C08.C08_subday tf hist htf hd
  -- the Epoch predicate of the compiled group is the pending predicate of the Epoch conjunct
  have hg : ∀ sp, (buildGroup conj).get "Epoch" = some sp → EpochOK (specAll tf hist) sp := by
    intro sp hsp
    rw [buildGroup_nodup conj wf.onePerColumn, get_map_pending] at hsp
    cases hf : conj.find? (fun c => c.col == "Epoch") with
    | none => simp [hf] at hsp
    | some c =>
      simp only [hf, Option.map_some, Option.some.injEq] at hsp
      obtain ⟨hm, hn⟩ := find?_name_eq conj Conj.col "Epoch" c hf
      exact hsp ▸ hepoch c hm hn
  unfold selectWhere specWhere selectRows readRows
  simp only [bne_self_eq_false, Bool.and_false, Bool.false_eq_true, if_false]
  rw [postFilter_eq_filter _ _ _ (fun sp h => (hg sp h).stable),
    filter_pushdown tf hist cols _ htf hd hsec (by rw [hall]; exact hrange) (by rw [hall]; exact hg), hall]
  apply List.filter_congr
  intro r hr
  have hsome : ∃ x, satAll cols conj r = some x := by
    cases h : satAll cols conj r with
    | none => exact absurd h (hspeaks r hr)
    | some x => exact ⟨x, rfl⟩
  obtain ⟨x, hx⟩ := hsome
  have hok : ∀ c ∈ conj, ConjOK cols c r := by
    intro c hc
    refine ⟨fun hE => ⟨fun l hl => (hepoch c hc hE).ns l (lits_of_pending c l hl), hrange r hr⟩,
      fun hE d hd hdn l hl => hfit c hc hE d hd hdn l hl⟩
  rw [keepRow_sat cols conj r x wf hok hx, hx]
  cases x <;> rfl

/-- corollary for value columns only (no Epoch conjunct): no push-down, no edge condition -/
theorem C19_partial_values (tf : Int) (cols : List ColDef) (hist : List (List Row)) (conj : List Conj)
    (htf : 0 < tf) (hd : tf ≠ dayNs) (hsec : tf % 1000000000 = 0)
    (wf : WellFormed cols conj) (hno : ∀ c ∈ conj, c.col ≠ "Epoch")
    (hfit : ∀ c ∈ conj, ∀ d ∈ cols, d.name = c.col → ∀ l ∈ c.lits, Fits d.ty l)
    (hrange : ∀ r ∈ specAll tf hist, NsRange r.sec)
    (hspeaks : Speaks tf cols hist conj) :
    selectWhere tf cols (applyHist tf hist) conj = specWhere tf cols hist conj :=
  C19_partial tf cols hist conj htf hd hsec wf (fun c hc _ => hfit c hc)
    (fun c hc hE => absurd hE (hno c hc)) hrange hspeaks

/-! ## non-vacuity: the hypotheses of `C19_partial` hold for a non-trivial statement
    (`A >= 2 AND Epoch < '2020-03-01-10:03'` on the witness bucket) and the result is not empty -/
example : selectWhere wTf wCols (applyHist wTf wHist)
    [.cmp "A" .ge (.int 2), .cmp "Epoch" .lt (.int 1583056980000000000)]
    = [⟨1583056860, [2,0,0,0]⟩, ⟨1583056920, [3,0,0,0]⟩] := by decide

example : WellFormed wCols [.cmp "A" .ge (.int 2), .cmp "Epoch" .lt (.int 1583056980000000000)] :=
  ⟨by decide, by decide, by decide, by decide⟩

example : Fits .i32 (.int 2) := ⟨2, rfl, by decide, by decide⟩

example : EpochOK (specAll wTf wHist) (Conj.cmp "Epoch" .lt (.int 1583056980000000000)).pending :=
  ⟨by intro l h
      have : l = .int 1583056980000000000 := by
        rcases h with h | h | h <;> simp [Conj.pending, SP.addComparison, SP.setMax] at h <;> exact h.symm
      subst this; decide,
   by intro h; exact absurd h (by decide)⟩

end Mkts.Props.C19
